/-
GF(p²) layer, part 5: `fp2_batched_inv` (Montgomery's trick, as coded with the arrays t1, t2) equals
element-wise inversion for EVERY length when all entries are non-zero, and `fp2_pow_vartime`
is exponentiation — for any back-end satisfying `FpRefines`.
-/
import Mathlib.Data.List.Forall2
import SqiProofs.GfFp2Sqrt2

namespace SqiProofs.GfFp2
open SqiModel.Gf List
open scoped QuadraticAlgebra
open QuadraticAlgebra (re_one im_one)

/-! ## the batched inversion program over an arbitrary carrier -/

/-- `fp2_batched_inv` with multiplication and inversion abstracted -/
def binvG {β : Type} (mul : β → β → β) (inv : β → β) : List β → List β
  | [] => []
  | x0 :: xs =>
    let t1 := x0 :: scanFrom mul x0 xs
    let inverse := inv (t1.getLast?.getD x0)
    let t2 := inverse :: scanFrom mul inverse xs.reverse
    (t2.getLast?.getD inverse) :: List.zipWith mul t1.dropLast t2.reverse.tail

theorem fp2_batched_inv_eq {α : Type} (O : FpOps α) (xs : List (Fp2 α)) :
    fp2_batched_inv_core O xs = binvG (fp2_mul O) (fp2_inv O) xs := by
  cases xs <;> rfl

section rel
variable {β γ : Type} {R : β → γ → Prop}

theorem scanFrom_rel {f : β → β → β} {g : γ → γ → γ} (hf : ∀ a z x w, R a z → R x w → R (f a x) (g z w)) :
    ∀ (xs : List β) (ws : List γ) (a : β) (z : γ), R a z → Forall₂ R xs ws →
      Forall₂ R (scanFrom f a xs) (scanFrom g z ws) := by
  intro xs
  induction xs with
  | nil => intro ws a z _ h; cases h; exact Forall₂.nil
  | cons x xs ih =>
    intro ws a z haz h
    cases h with
    | cons hxw hrest => exact Forall₂.cons (hf _ _ _ _ haz hxw) (ih _ _ _ (hf _ _ _ _ haz hxw) hrest)

theorem getLastD_rel : ∀ (l : List β) (m : List γ) (d : β) (e : γ), R d e → Forall₂ R l m →
    R (l.getLast?.getD d) (m.getLast?.getD e) := by
  intro l
  induction l with
  | nil => intro m d e hde h; cases h; simpa using hde
  | cons x xs ih =>
    intro m d e hde h
    cases h with
    | cons hxw hrest =>
      rename_i w ws
      have := ih ws x w hxw hrest
      simpa [List.getLast?_cons] using this

theorem dropLast_rel : ∀ (l : List β) (m : List γ), Forall₂ R l m → Forall₂ R l.dropLast m.dropLast := by
  intro l
  induction l with
  | nil => intro m h; cases h; exact Forall₂.nil
  | cons x xs ih =>
    intro m h
    cases h with
    | cons hxw hrest =>
      rename_i w ws
      cases hrest with
      | nil => simp
      | cons h2 hr2 =>
        simp only [List.dropLast_cons_cons]
        exact Forall₂.cons hxw (ih _ (Forall₂.cons h2 hr2))

theorem tail_rel {l : List β} {m : List γ} (h : Forall₂ R l m) : Forall₂ R l.tail m.tail := by
  cases h with
  | nil => exact Forall₂.nil
  | cons _ hr => exact hr

theorem zipWith_rel {f : β → β → β} {g : γ → γ → γ} (hf : ∀ a z x w, R a z → R x w → R (f a x) (g z w)) :
    ∀ (l l' : List β) (m m' : List γ), Forall₂ R l m → Forall₂ R l' m' →
      Forall₂ R (List.zipWith f l l') (List.zipWith g m m') := by
  intro l
  induction l with
  | nil => intro l' m m' h _; cases h; simp
  | cons x xs ih =>
    intro l' m m' h h'
    cases h with
    | cons hxw hrest =>
      cases h' with
      | nil => simp
      | cons h2 hr2 => exact Forall₂.cons (hf _ _ _ _ hxw h2) (ih _ _ _ hrest hr2)

/-- the program is parametric: related inputs give related outputs -/
theorem binvG_rel {f : β → β → β} {g : γ → γ → γ} {i : β → β} {j : γ → γ}
    (hf : ∀ a z x w, R a z → R x w → R (f a x) (g z w)) (hi : ∀ a z, R a z → R (i a) (j z))
    {xs : List β} {ws : List γ} (h : Forall₂ R xs ws) : Forall₂ R (binvG f i xs) (binvG g j ws) := by
  cases h with
  | nil => exact Forall₂.nil
  | cons h0 hr =>
    rename_i x0 w0 xs ws
    simp only [binvG]
    have ht1 : Forall₂ R (x0 :: scanFrom f x0 xs) (w0 :: scanFrom g w0 ws) :=
      Forall₂.cons h0 (scanFrom_rel hf _ _ _ _ h0 hr)
    have hinv := hi _ _ (getLastD_rel _ _ _ _ h0 ht1)
    have ht2 : Forall₂ R (i ((x0 :: scanFrom f x0 xs).getLast?.getD x0) :: scanFrom f (i ((x0 :: scanFrom f x0 xs).getLast?.getD x0)) xs.reverse)
        (j ((w0 :: scanFrom g w0 ws).getLast?.getD w0) :: scanFrom g (j ((w0 :: scanFrom g w0 ws).getLast?.getD w0)) ws.reverse) :=
      Forall₂.cons hinv (scanFrom_rel hf _ _ _ _ hinv (rel_reverse hr))
    exact Forall₂.cons (getLastD_rel _ _ _ _ hinv ht2)
      (zipWith_rel hf _ _ _ _ (dropLast_rel _ _ ht1) (tail_rel (rel_reverse ht2)))

end rel

/-! ## Montgomery's trick in a field -/
section field
variable {F : Type} [Field F]

/-- prefix products `a, a·x₁, a·x₁·x₂, …` -/
def prefT (a : F) (xs : List F) : List F := a :: scanFrom (· * ·) a xs

theorem scanFrom_append_singleton {β γ : Type} (f : β → γ → β) : ∀ (l : List γ) (a : β) (y : γ),
    scanFrom f a (l ++ [y]) = scanFrom f a l ++ [f ((a :: scanFrom f a l).getLast?.getD a) y] := by
  intro l
  induction l with
  | nil => intro a y; simp [scanFrom]
  | cons x xs ih =>
    intro a y
    simp only [List.cons_append, scanFrom, ih]
    simp [List.getLast?_cons]

theorem prefT_ne_nil (a : F) (xs : List F) : prefT a xs ≠ [] := by simp [prefT]

theorem prefT_cons (a y : F) (ys : List F) : prefT a (y :: ys) = a :: prefT (a * y) ys := by
  simp [prefT, scanFrom]

/-- `t2` is the reversed list of inverses of `t1` -/
theorem t2_eq : ∀ (xs : List F) (a : F), a ≠ 0 → (∀ x ∈ xs, x ≠ 0) →
    let inverse := ((prefT a xs).getLast?.getD a)⁻¹
    inverse :: scanFrom (· * ·) inverse xs.reverse = ((prefT a xs).map (·⁻¹)).reverse := by
  intro xs
  induction xs with
  | nil => intro a _ _; simp [prefT, scanFrom]
  | cons y ys ih =>
    intro a ha hxs
    have hy : y ≠ 0 := hxs y (by simp)
    have hys : ∀ x ∈ ys, x ≠ 0 := fun x hx => hxs x (by simp [hx])
    have hay : a * y ≠ 0 := mul_ne_zero ha hy
    have IH := ih (a * y) hay hys
    simp only at IH ⊢
    have hlast : (prefT a (y :: ys)).getLast?.getD a = (prefT (a * y) ys).getLast?.getD (a * y) := by
      rw [prefT_cons]
      have : prefT (a * y) ys = (a * y) :: scanFrom (· * ·) (a * y) ys := rfl
      rw [this]; simp [List.getLast?_cons]
    rw [hlast, List.reverse_cons, scanFrom_append_singleton, ← List.cons_append, IH]
    rw [prefT_cons, List.map_cons, List.reverse_cons]
    congr 2
    -- last element of the reversed inverse list is the inverse of the head
    have : (((prefT (a * y) ys).map (·⁻¹)).reverse).getLast?.getD (((prefT (a * y) ys).getLast?.getD (a * y))⁻¹) = (a * y)⁻¹ := by
      simp [prefT]
    rw [this]
    field_simp

theorem zip_eq : ∀ (xs : List F) (a : F), a ≠ 0 → (∀ x ∈ xs, x ≠ 0) →
    a⁻¹ :: List.zipWith (· * ·) (prefT a xs).dropLast ((prefT a xs).map (·⁻¹)).tail = (a :: xs).map (·⁻¹) := by
  intro xs
  induction xs with
  | nil => intro a _ _; simp [prefT, scanFrom]
  | cons y ys ih =>
    intro a ha hxs
    have hy : y ≠ 0 := hxs y (by simp)
    have hys : ∀ x ∈ ys, x ≠ 0 := fun x hx => hxs x (by simp [hx])
    have hay : a * y ≠ 0 := mul_ne_zero ha hy
    have IH := ih (a * y) hay hys
    rw [prefT_cons]
    have hne : prefT (a * y) ys = (a * y) :: scanFrom (· * ·) (a * y) ys := rfl
    rw [hne, List.dropLast_cons_cons, ← hne]
    simp only [List.map_cons, List.tail_cons]
    rw [hne] at IH ⊢
    simp only [List.map_cons, List.tail_cons, List.cons.injEq] at IH
    simp only [List.map_cons, List.zipWith_cons_cons]
    rw [← hne] at IH ⊢
    rw [IH.2]
    congr 2
    field_simp

/-- **Montgomery's trick is element-wise inversion** for every length, all entries non-zero -/
theorem binvG_field (zs : List F) (hz : ∀ z ∈ zs, z ≠ 0) : binvG (· * ·) (·⁻¹) zs = zs.map (·⁻¹) := by
  cases zs with
  | nil => rfl
  | cons a xs =>
    have ha : a ≠ 0 := hz a (by simp)
    have hxs : ∀ x ∈ xs, x ≠ 0 := fun x hx => hz x (by simp [hx])
    have h2 := t2_eq xs a ha hxs
    simp only [binvG]
    simp only [prefT] at h2
    rw [h2, List.reverse_reverse]
    have hl : ((List.map (fun x => x⁻¹) (a :: scanFrom (· * ·) a xs)).reverse).getLast?.getD
        ((a :: scanFrom (· * ·) a xs).getLast?.getD a)⁻¹ = a⁻¹ := by simp
    rw [hl]
    exact zip_eq xs a ha hxs

end field
/-! ## the model functions -/
section model
variable {p : Nat} [Fact p.Prime] {α : Type} {O : FpOps α} {dom : α → Prop} {val : α → ZMod p}
variable (h : FpRefines O p dom val)
include h

/-- the product chain of `fp2_batched_inv` = element-wise inversion, every length, all entries non-zero: the output has
    the same length, stays in the domain, and `out[i] · x[i] = 1` in `Fp[i]`. -/
theorem fp2_batched_inv_core_spec (xs : List (Fp2 α)) (hd : ∀ x ∈ xs, dom2 dom x) (hnz : ∀ x ∈ xs, val2 val x ≠ 0) :
    Forall₂ (fun out x => dom2 dom out ∧ val2 val out * val2 val x = 1) (fp2_batched_inv_core O xs) xs := by
  have := nonres_fact h.p4
  let R : Fp2 α → CF p → Prop := fun a z => dom2 dom a ∧ val2 val a = z
  have hf : ∀ a z x w, R a z → R x w → R (fp2_mul O a x) (z * w) := by
    rintro a z x w ⟨da, rfl⟩ ⟨dx, rfl⟩
    exact fp2_mul_spec h da dx
  have hi : ∀ a z, R a z → R (fp2_inv O a) z⁻¹ := by
    rintro a z ⟨da, rfl⟩
    obtain ⟨d, h0, h1⟩ := fp2_inv_spec h da
    refine ⟨d, ?_⟩
    by_cases hz : val2 val a = 0
    · rw [h0 hz, hz, inv_zero]
    · exact eq_inv_of_mul_eq_one_left (h1 hz)
  have hin : Forall₂ R xs (xs.map (val2 val)) := by
    rw [forall₂_map_right_iff, forall₂_same]
    exact fun x hx => ⟨hd x hx, rfl⟩
  have hout := binvG_rel hf hi hin
  rw [← fp2_batched_inv_eq] at hout
  have hfield : binvG (· * ·) (·⁻¹) (xs.map (val2 val)) = (xs.map (val2 val)).map (·⁻¹) :=
    binvG_field _ (by
      intro z hz
      obtain ⟨x, hx, rfl⟩ := List.mem_map.mp hz
      exact hnz x hx)
  have hout' : Forall₂ R (fp2_batched_inv_core O xs) ((xs.map (val2 val)).map (·⁻¹)) := by
    rw [← hfield]; exact hout
  rw [List.map_map, forall₂_map_right_iff] at hout'
  -- attach the non-zero hypothesis to the right-hand list
  have key : ∀ (l : List (Fp2 α)) (ys : List (Fp2 α)), (∀ x ∈ ys, val2 val x ≠ 0) →
      Forall₂ (fun a c => R a (((fun x => x⁻¹) ∘ val2 val) c)) l ys →
      Forall₂ (fun out x => dom2 dom out ∧ val2 val out * val2 val x = 1) l ys := by
    intro l ys hys hl
    induction hl with
    | nil => exact Forall₂.nil
    | @cons a b l' ys' hab _ ih =>
      refine Forall₂.cons ⟨hab.1, ?_⟩ (ih (fun x hx => hys x (by simp [hx])))
      have : val2 val a = (val2 val b)⁻¹ := hab.2
      rw [this]
      exact inv_mul_cancel₀ (hys b (by simp))
  exact key _ _ hnz hout'

theorem fp2_is_zero_cases {x : Fp2 α} (hx : dom2 dom x) :
    (fp2_is_zero O x = T32 ∧ val2 val x = 0) ∨ (fp2_is_zero O x = 0 ∧ val2 val x ≠ 0) := by
  have := nonres_fact h.p4
  unfold fp2_is_zero
  rcases h.isZero hx.1 with ⟨a1, a2⟩ | ⟨a1, a2⟩ <;> rcases h.isZero hx.2 with ⟨b1, b2⟩ | ⟨b1, b2⟩
  · left; rw [a1, b1]; exact ⟨by decide, (val2_eq_zero_iff h).mpr ⟨a2, b2⟩⟩
  · right; rw [a1, b1]; exact ⟨by decide, fun h0 => b2 ((val2_eq_zero_iff h).mp h0).2⟩
  · right; rw [a1, b1]; exact ⟨by decide, fun h0 => a2 ((val2_eq_zero_iff h).mp h0).1⟩
  · right; rw [a1, b1]; exact ⟨by decide, fun h0 => a2 ((val2_eq_zero_iff h).mp h0).1⟩

theorem fp2_select_cases {a b : Fp2 α} (ha : dom2 dom a) (hb : dom2 dom b) :
    fp2_select O a b 0 = a ∧ fp2_select O a b T32 = b := by
  obtain ⟨r0, r1⟩ := h.select ha.1 hb.1
  obtain ⟨i0, i1⟩ := h.select ha.2 hb.2
  unfold fp2_select
  exact ⟨by rw [r0, i0], by rw [r1, i1]⟩

/-- **`fp2_batched_inv` = element-wise inversion, FULL strength**: every length, every batch in the domain (zero entries
    included): the output has the same length, stays in the domain, and `out[i] = x[i]⁻¹` in `Fp[i]` (with `0⁻¹ = 0`, the
    convention of `fp2_inv`). -/
theorem fp2_batched_inv_spec (xs : List (Fp2 α)) (hd : ∀ x ∈ xs, dom2 dom x) :
    Forall₂ (fun out x => dom2 dom out ∧ val2 val out = (val2 val x)⁻¹) (fp2_batched_inv O xs) xs := by
  have := nonres_fact h.p4
  obtain ⟨d1, v1⟩ := fp2_set_one_spec h
  obtain ⟨d0, v0⟩ := fp2_set_zero_spec h
  unfold fp2_batched_inv
  simp only [List.zipWith_map_right]
  -- the batch with the zero entries replaced by one
  have hxs' : List.zipWith (fun x b => fp2_select O x (fp2_set_one O) (fp2_is_zero O b)) xs xs =
      xs.map (fun x => fp2_select O x (fp2_set_one O) (fp2_is_zero O x)) := List.zipWith_self
  rw [hxs']
  set g : Fp2 α → Fp2 α := fun x => fp2_select O x (fp2_set_one O) (fp2_is_zero O x) with hg
  have hgd : ∀ x ∈ xs.map g, dom2 dom x := by
    intro y hy
    obtain ⟨x, hx, rfl⟩ := List.mem_map.mp hy
    have dx := hd x hx
    obtain ⟨s0, s1⟩ := fp2_select_cases h dx d1
    rcases fp2_is_zero_cases h dx with ⟨e, _⟩ | ⟨e, _⟩
    · show dom2 dom (fp2_select O x (fp2_set_one O) (fp2_is_zero O x)); rw [e, s1]; exact d1
    · show dom2 dom (fp2_select O x (fp2_set_one O) (fp2_is_zero O x)); rw [e, s0]; exact dx
  have hgnz : ∀ x ∈ xs.map g, val2 val x ≠ 0 := by
    intro y hy
    obtain ⟨x, hx, rfl⟩ := List.mem_map.mp hy
    have dx := hd x hx
    obtain ⟨s0, s1⟩ := fp2_select_cases h dx d1
    rcases fp2_is_zero_cases h dx with ⟨e, _⟩ | ⟨e, e'⟩
    · show val2 val (fp2_select O x (fp2_set_one O) (fp2_is_zero O x)) ≠ 0; rw [e, s1, v1]; exact one_ne_zero
    · show val2 val (fp2_select O x (fp2_set_one O) (fp2_is_zero O x)) ≠ 0; rw [e, s0]; exact e'
  have hcore := fp2_batched_inv_core_spec h (xs.map g) hgd hgnz
  rw [forall₂_map_right_iff] at hcore
  -- put the zeros back
  have key : ∀ (l : List (Fp2 α)) (ys : List (Fp2 α)), (∀ x ∈ ys, dom2 dom x) →
      Forall₂ (fun out x => dom2 dom out ∧ val2 val out * val2 val (g x) = 1) l ys →
      Forall₂ (fun out x => dom2 dom out ∧ val2 val out = (val2 val x)⁻¹)
        (List.zipWith (fun y b => fp2_select O y (fp2_set_zero O) (fp2_is_zero O b)) l ys) ys := by
    intro l ys hys hl
    induction hl with
    | nil => exact Forall₂.nil
    | @cons a b l' ys' hab _ ih =>
      have db := hys b (by simp)
      refine Forall₂.cons ?_ (ih (fun x hx => hys x (by simp [hx])))
      obtain ⟨s0, s1⟩ := fp2_select_cases h hab.1 d0
      obtain ⟨t0, t1⟩ := fp2_select_cases h db d1
      beta_reduce
      rcases fp2_is_zero_cases h db with ⟨e, e'⟩ | ⟨e, e'⟩
      · rw [e, s1]; exact ⟨d0, by rw [v0, e', inv_zero]⟩
      · rw [e, s0]
        refine ⟨hab.1, ?_⟩
        have hgb : g b = b := by show fp2_select O b (fp2_set_one O) (fp2_is_zero O b) = b; rw [e, t0]
        have hm := hab.2
        rw [hgb] at hm
        exact eq_inv_of_mul_eq_one_left hm
  exact key _ _ hd hcore

/-- value of the exponent words, least significant first -/
def evalWords : List Nat → Nat
  | [] => 0
  | w :: ws => w + 2 ^ 64 * evalWords ws

theorem powWord_spec : ∀ (k w : Nat) (out acc : Fp2 α), dom2 dom out → dom2 dom acc →
    dom2 dom (powWord O w k (out, acc)).1 ∧ dom2 dom (powWord O w k (out, acc)).2 ∧
    val2 val (powWord O w k (out, acc)).1 = val2 val out * val2 val acc ^ (w % 2 ^ k) ∧
    val2 val (powWord O w k (out, acc)).2 = val2 val acc ^ (2 ^ k) := by
  intro k
  induction k with
  | zero => intro w out acc ho ha; simp [powWord, ho, ha, Nat.mod_one]
  | succ k ih =>
    intro w out acc ho ha
    obtain ⟨s1, s2⟩ := fp2_sqr_spec h ha
    have hmod : w % 2 ^ (k + 1) = w % 2 + 2 * (w / 2 % 2 ^ k) := by rw [pow_succ', Nat.mod_mul]
    simp only [powWord]
    by_cases hb : w % 2 = 1
    · obtain ⟨m1, m2⟩ := fp2_mul_spec h ho ha
      obtain ⟨r1, r2, r3, r4⟩ := ih (w / 2) _ _ m1 s1
      simp only [hb, if_true]
      refine ⟨r1, r2, ?_, ?_⟩
      · rw [r3, m2, s2, hmod, hb, pow_add, pow_mul, pow_one]; ring
      · rw [r4, s2, pow_succ', pow_mul]; ring
    · have hb0 : w % 2 = 0 := by omega
      obtain ⟨r1, r2, r3, r4⟩ := ih (w / 2) _ _ ho s1
      simp only [hb, if_false]
      refine ⟨r1, r2, ?_, ?_⟩
      · rw [r3, s2, hmod, hb0, zero_add, pow_mul]; ring
      · rw [r4, s2, pow_succ', pow_mul]; ring

/-- **`fp2_pow_vartime`** is exponentiation by the integer given by the 64-bit exponent words -/
theorem fp2_pow_vartime_spec (x : Fp2 α) (hx : dom2 dom x) (ws : List Nat) (hw : ∀ w ∈ ws, w < 2 ^ 64) :
    dom2 dom (fp2_pow_vartime O x ws) ∧ val2 val (fp2_pow_vartime O x ws) = val2 val x ^ evalWords ws := by
  have gen : ∀ (ws : List Nat), (∀ w ∈ ws, w < 2 ^ 64) → ∀ (out acc : Fp2 α), dom2 dom out → dom2 dom acc →
      dom2 dom (ws.foldl (fun s w => powWord O w 64 s) (out, acc)).1 ∧
      val2 val (ws.foldl (fun s w => powWord O w 64 s) (out, acc)).1 = val2 val out * val2 val acc ^ evalWords ws := by
    intro ws
    induction ws with
    | nil => intro _ out acc ho _; simp [evalWords, ho]
    | cons w ws ih =>
      intro hws out acc ho ha
      obtain ⟨r1, r2, r3, r4⟩ := powWord_spec h 64 w out acc ho ha
      have hwlt : w < 2 ^ 64 := hws w (by simp)
      obtain ⟨i1, i2⟩ := ih (fun v hv => hws v (by simp [hv])) _ _ r1 r2
      simp only [List.foldl_cons]
      refine ⟨i1, ?_⟩
      rw [i2, r3, r4, Nat.mod_eq_of_lt hwlt, evalWords, pow_add, pow_mul]; ring
  obtain ⟨o1, o2⟩ := fp2_set_one_spec h
  obtain ⟨g1, g2⟩ := gen ws hw _ _ o1 hx
  refine ⟨g1, ?_⟩
  unfold fp2_pow_vartime
  rw [g2, o2, one_mul]

end model
end SqiProofs.GfFp2

/-
GF(p²) layer, part 2: inversion, the norm criterion for squareness, and the constant-time complex
square root of fp2.c (all branches + sign normalisation), for any back-end satisfying `FpRefines`.
-/
import SqiProofs.GfFp2

namespace SqiProofs.GfFp2
open SqiModel.Gf
open scoped QuadraticAlgebra
open QuadraticAlgebra (re_one im_one re_natCast im_natCast re_ofNat im_ofNat)

variable {p : Nat} [Fact p.Prime]

/-! ## number theory in `ZMod p`, `p ≡ 3 (mod 4)` -/

theorem neg_one_not_sq (hp4 : p % 4 = 3) : ¬ IsSquare (-1 : ZMod p) := by
  rw [ZMod.exists_sq_eq_neg_one_iff]; omega

theorem nonres_fact (hp4 : p % 4 = 3) : Fact (∀ r : ZMod p, r ^ 2 ≠ -1 + 0 * r) :=
  ⟨fun r hr => neg_one_not_sq hp4 ⟨r, by rw [← pow_two, hr]; ring⟩⟩

theorem sum_sq_eq_zero (hp4 : p % 4 = 3) {a b : ZMod p} (h : a * a + b * b = 0) : a = 0 ∧ b = 0 := by
  by_cases hb : b = 0
  · subst hb; simp at h; exact ⟨h, rfl⟩
  · exfalso
    apply neg_one_not_sq hp4
    have hi : b * b⁻¹ = 1 := mul_inv_cancel₀ hb
    refine ⟨a * b⁻¹, ?_⟩
    linear_combination (-(b⁻¹ * b⁻¹)) * h + (b * b⁻¹ + 1) * hi

omit [Fact p.Prime] in
theorem p_half_odd (hp4 : p % 4 = 3) : Odd (p / 2) := ⟨p / 4, by omega⟩

theorem pow_half_neg (hp4 : p % 4 = 3) (a : ZMod p) : (-a) ^ (p / 2) = - a ^ (p / 2) :=
  Odd.neg_pow (p_half_odd hp4) a

/-- for `a ≠ 0` exactly one of `a`, `−a` is a square -/
theorem isSquare_neg_of_not (hp4 : p % 4 = 3) {a : ZMod p} (ha : a ≠ 0) (hn : ¬ IsSquare a) : IsSquare (-a) := by
  rw [ZMod.euler_criterion p ha] at hn
  rw [ZMod.euler_criterion p (neg_ne_zero.mpr ha), pow_half_neg hp4]
  rcases ZMod.pow_div_two_eq_neg_one_or_one p ha with h | h
  · exact absurd h hn
  · rw [h]; ring

theorem not_isSquare_neg_of (hp4 : p % 4 = 3) {a : ZMod p} (ha : a ≠ 0) (hs : IsSquare a) : ¬ IsSquare (-a) := by
  obtain ⟨r, hr⟩ := hs
  rintro ⟨t, ht⟩
  have hr0 : r ≠ 0 := by rintro rfl; simp at hr; exact ha hr
  apply neg_one_not_sq hp4
  have hi : r * r⁻¹ = 1 := mul_inv_cancel₀ hr0
  refine ⟨t * r⁻¹, ?_⟩
  linear_combination (r⁻¹ * r⁻¹) * ht + (r⁻¹ * r⁻¹) * hr + (r * r⁻¹ + 1) * hi

/-- product of two non-zero non-squares is a square -/
theorem isSquare_mul_of_not {a b : ZMod p} (ha0 : a ≠ 0) (hb0 : b ≠ 0) (ha : ¬ IsSquare a) (hb : ¬ IsSquare b) :
    IsSquare (a * b) := by
  rw [ZMod.euler_criterion p ha0] at ha
  rw [ZMod.euler_criterion p hb0] at hb
  rw [ZMod.euler_criterion p (mul_ne_zero ha0 hb0), mul_pow]
  rcases ZMod.pow_div_two_eq_neg_one_or_one p ha0 with h | h
  · exact absurd h ha
  rcases ZMod.pow_div_two_eq_neg_one_or_one p hb0 with h' | h'
  · exact absurd h' hb
  rw [h, h']; ring

/-- **the two candidates for y0²**: with `s² = a² + b²`, `b ≠ 0`, `2u = a + s`: both `u` and `u − s`
    are non-zero and exactly one of them is a square -/
theorem half_dichotomy (hp4 : p % 4 = 3) {a b s u : ZMod p} (hs : s * s = a * a + b * b) (hb : b ≠ 0)
    (hu : u * 2 = a + s) : u ≠ 0 ∧ u - s ≠ 0 ∧ (IsSquare u ↔ ¬ IsSquare (u - s)) := by
  have hprod : u * (u - s) * 4 = -(b * b) := by linear_combination (u * 2 - s + a) * hu - hs
  have hne : u * (u - s) ≠ 0 := by
    intro h0
    have : b * b = 0 := by linear_combination hprod - 4 * h0
    exact hb (mul_self_eq_zero.mp this)
  have hu0 : u ≠ 0 := left_ne_zero_of_mul hne
  have hv0 : u - s ≠ 0 := right_ne_zero_of_mul hne
  have hi : b * b⁻¹ = 1 := mul_inv_cancel₀ hb
  have hnsq : ¬ IsSquare (u * (u - s)) := by
    rintro ⟨t, ht⟩
    apply neg_one_not_sq hp4
    refine ⟨t * 2 * b⁻¹, ?_⟩
    linear_combination (4 * b⁻¹ * b⁻¹) * ht - (b⁻¹ * b⁻¹) * hprod + (b * b⁻¹ + 1) * hi
  refine ⟨hu0, hv0, ?_⟩
  constructor
  · rintro ⟨r, hr⟩ ⟨t, ht⟩
    exact hnsq ⟨r * t, by rw [ht, hr]; ring⟩
  · intro hv
    by_contra hus
    exact hnsq (isSquare_mul_of_not hu0 hv0 hus hv)

/-- **root formula** (`b ≠ 0` branch): `y0² = w ∈ {u, u − s}`, `y1 = b·t` with `t = 1/(2·y0)` gives
    `(y0 + i·y1)² = a + i·b` -/
theorem root_formula {a b s u w y0 t : ZMod p} (hs : s * s = a * a + b * b) (hu : u * 2 = a + s)
    (hw : w = u ∨ w = u - s) (hw0 : w ≠ 0) (h4 : (4 : ZMod p) ≠ 0) (hy : y0 * y0 = w) (ht : t * (y0 + y0) = 1) :
    (⟨y0, b * t⟩ : CF p) * ⟨y0, b * t⟩ = ⟨a, b⟩ := by
  have h1 : (b * t) * (b * t) * (4 * w) = b * b := by
    rw [← hy]; linear_combination (b * b * (t * (y0 + y0) + 1)) * ht
  have h2 : 4 * w * w - b * b = 4 * w * a := by
    rcases hw with rfl | rfl
    · linear_combination (w * 2 + s - a) * hu + hs
    · linear_combination (2 * u - 3 * s - a) * hu + hs
  have key : (y0 * y0 + -1 * (b * t) * (b * t) - a) * (4 * w) = 0 := by
    rw [hy]; linear_combination (-1 : ZMod p) * h1 + h2
  have key' : y0 * y0 + -1 * (b * t) * (b * t) - a = 0 := by
    rcases mul_eq_zero.mp key with h | h
    · exact h
    · exact absurd h (mul_ne_zero h4 hw0)
  ext
  · simp only [QuadraticAlgebra.re_mul]; linear_combination key'
  · simp only [QuadraticAlgebra.im_mul]; linear_combination b * ht

end SqiProofs.GfFp2

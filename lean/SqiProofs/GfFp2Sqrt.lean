/-
GF(p²) layer, part 3: `fp2_inv`, `fp2_is_square` (norm criterion) and `fp2_sqrt` of fp2.c as coded,
for any back-end satisfying `FpRefines`.
-/
import SqiProofs.GfFp2Field

set_option linter.unusedSectionVars false

namespace SqiProofs.GfFp2
open SqiModel.Gf
open scoped QuadraticAlgebra
open QuadraticAlgebra (re_one im_one re_natCast im_natCast re_ofNat im_ofNat)

variable {p : Nat} [Fact p.Prime]

theorem two_ne_zero' (hp4 : p % 4 = 3) : (2 : ZMod p) ≠ 0 := by
  intro h
  have h' : ((2 : Nat) : ZMod p) = 0 := by exact_mod_cast h
  rw [ZMod.natCast_eq_zero_iff] at h'
  have := Nat.le_of_dvd (by omega) h'
  have := (Fact.out : p.Prime).two_le
  have : p = 2 := by omega
  omega

theorem four_ne_zero' (hp4 : p % 4 = 3) : (4 : ZMod p) ≠ 0 := by
  have h2 := two_ne_zero' hp4
  have : (4 : ZMod p) = 2 * 2 := by norm_num
  rw [this]; exact mul_ne_zero h2 h2

/-- **norm criterion**: `z ∈ Fp[i]` is a square iff `re² + im²` is a square in `Fp` (p ≡ 3 mod 4) -/
theorem isSquare_iff_norm (hp4 : p % 4 = 3) (z : CF p) :
    IsSquare z ↔ IsSquare (z.re * z.re + z.im * z.im) := by
  constructor
  · rintro ⟨w, rfl⟩
    exact ⟨w.re * w.re + w.im * w.im, by simp only [QuadraticAlgebra.re_mul, QuadraticAlgebra.im_mul]; ring⟩
  · rintro ⟨s, hs⟩
    have hs' : s * s = z.re * z.re + z.im * z.im := hs.symm
    by_cases hb : z.im = 0
    · by_cases ha : z.re = 0
      · exact ⟨0, by ext <;> simp [ha, hb]⟩
      · by_cases hsq : IsSquare z.re
        · obtain ⟨r, hr⟩ := hsq
          exact ⟨⟨r, 0⟩, by ext <;> simp [hb, hr]⟩
        · obtain ⟨t, ht⟩ := isSquare_neg_of_not hp4 ha hsq
          refine ⟨⟨0, t⟩, ?_⟩
          ext
          · simp only [QuadraticAlgebra.re_mul]; linear_combination -ht
          · simp [hb]
    · have h2 := two_ne_zero' hp4
      have hu : (z.re + s) * 2⁻¹ * 2 = z.re + s := by field_simp
      obtain ⟨hu0, hv0, hiff⟩ := half_dichotomy hp4 hs' hb hu
      have hroot : ∀ w y0 : ZMod p, (w = (z.re + s) * 2⁻¹ ∨ w = (z.re + s) * 2⁻¹ - s) → w ≠ 0 → y0 * y0 = w →
          IsSquare z := by
        intro w y0 hw hw0 hy
        have hy0 : y0 ≠ 0 := by rintro rfl; simp at hy; exact hw0 hy.symm
        have hyy : y0 + y0 ≠ 0 := by rw [← two_mul]; exact mul_ne_zero h2 hy0
        have := root_formula (b := z.im) hs' hu hw hw0 (four_ne_zero' hp4) hy (inv_mul_cancel₀ hyy)
        exact ⟨_, this.symm⟩
      by_cases hsq : IsSquare ((z.re + s) * 2⁻¹)
      · obtain ⟨y0, hy⟩ := hsq
        exact hroot _ y0 (Or.inl rfl) hu0 hy.symm
      · have : IsSquare ((z.re + s) * 2⁻¹ - s) := by
          by_contra hc; exact hsq (hiff.mpr hc)
        obtain ⟨y0, hy⟩ := this
        exact hroot _ y0 (Or.inr rfl) hv0 hy.symm

theorem val_parity_neg (hp4 : p % 4 = 3) {x : ZMod p} (hx : x ≠ 0) : (-x).val % 2 = 1 - x.val % 2 := by
  have : NeZero p := ⟨by omega⟩
  rw [ZMod.neg_val, if_neg hx]
  have hlt : x.val < p := ZMod.val_lt x
  omega

/-! ## masks -/
theorem not32_zero : not32 0 = T32 := by decide
theorem not32_T32 : not32 T32 = 0 := by decide
theorem and_T32_T32 : T32 &&& T32 = T32 := by decide
theorem and_T32_zero : T32 &&& 0 = 0 := by decide
theorem or_T32 (x : Nat) (hx : x = 0 ∨ x = T32) : T32 ||| x = T32 := by rcases hx with rfl | rfl <;> decide
theorem or_zero_left (x : Nat) : 0 ||| x = x := Nat.zero_or x
theorem oddMask_cases (n : Nat) : (oddMask n = T32 ∧ n % 2 = 1) ∨ (oddMask n = 0 ∧ n % 2 = 0) := by
  unfold oddMask; by_cases h : n % 2 = 1
  · left; simp [h]
  · right; simp [h]; omega

variable {α : Type} {O : FpOps α} {dom : α → Prop} {val : α → ZMod p}

section
variable (h : FpRefines O p dom val)
include h

/-- the norm `re² + im²` as computed by `fp2_inv`, `fp2_is_square`, `fp2_sqrt` -/
theorem norm_spec {x : Fp2 α} (hx : dom2 dom x) :
    dom (O.add (O.sqr x.re) (O.sqr x.im)) ∧
    val (O.add (O.sqr x.re) (O.sqr x.im)) = val x.re * val x.re + val x.im * val x.im := by
  obtain ⟨a1, a2⟩ := h.sqr hx.1
  obtain ⟨b1, b2⟩ := h.sqr hx.2
  obtain ⟨c1, c2⟩ := h.add a1 b1
  exact ⟨c1, by rw [c2, a2, b2]⟩

theorem val2_eq_zero_iff {x : Fp2 α} : val2 val x = 0 ↔ val x.re = 0 ∧ val x.im = 0 := by
  constructor
  · intro h0
    have h1 := congrArg QuadraticAlgebra.re h0
    have h2 := congrArg QuadraticAlgebra.im h0
    exact ⟨by simpa [val2] using h1, by simpa [val2] using h2⟩
  · rintro ⟨h1, h2⟩; ext <;> simp [val2, h1, h2]

/-- **`fp2_inv`**: 0 ↦ 0, and `x ≠ 0 → inv x · x = 1` in `Fp[i]` -/
theorem fp2_inv_spec {x : Fp2 α} (hx : dom2 dom x) :
    dom2 dom (fp2_inv O x) ∧ (val2 val x = 0 → val2 val (fp2_inv O x) = 0) ∧
    (val2 val x ≠ 0 → val2 val (fp2_inv O x) * val2 val x = 1) := by
  obtain ⟨n1, n2⟩ := norm_spec h hx
  obtain ⟨i1, i2⟩ := h.inv n1
  obtain ⟨r1, r2⟩ := h.mul hx.1 i1
  obtain ⟨m1, m2⟩ := h.mul hx.2 i1
  obtain ⟨g1, g2⟩ := h.neg m1
  refine ⟨⟨r1, g1⟩, ?_, ?_⟩
  · intro h0
    obtain ⟨ha, hb⟩ := (val2_eq_zero_iff h).mp h0
    ext
    · simp only [val2, fp2_inv]; rw [r2, ha]; simp
    · simp only [val2, fp2_inv]; rw [g2, m2, hb]; simp
  · intro hne
    have hn : val x.re * val x.re + val x.im * val x.im ≠ 0 := by
      intro h0
      exact hne ((val2_eq_zero_iff h).mpr (sum_sq_eq_zero h.p4 h0))
    have hi := mul_inv_cancel₀ hn
    ext
    · simp only [val2, fp2_inv, QuadraticAlgebra.re_mul, re_one]
      rw [r2, g2, m2, i2, n2]; linear_combination hi
    · simp only [val2, fp2_inv, QuadraticAlgebra.im_mul, im_one]
      rw [r2, g2, m2, i2, n2]; ring

/- FULL STATEMENT (property: "squareness is true exactly on squares (0 included)"):
     fp2_is_square x = 0xFFFFFFFF ↔ IsSquare (val2 x)      for every x in the domain.
   At x = 0 it depends on the back-end's `fp_is_square 0` (ref: false — counterexample in SqiProps.C07;
   x86: true). Proved for every x ≠ 0: -/
theorem fp2_is_square_spec_partial {x : Fp2 α} (hx : dom2 dom x) (hne : val2 val x ≠ 0) :
    (fp2_is_square O x = T32 ↔ IsSquare (val2 val x)) ∧ (fp2_is_square O x = 0 ∨ fp2_is_square O x = T32) := by
  obtain ⟨n1, n2⟩ := norm_spec h hx
  obtain ⟨q1, q2⟩ := h.isSquare n1
  have hn : val x.re * val x.re + val x.im * val x.im ≠ 0 := by
    intro h0
    exact hne ((val2_eq_zero_iff h).mpr (sum_sq_eq_zero h.p4 h0))
  refine ⟨?_, q1⟩
  unfold fp2_is_square
  simp only []
  rw [q2 (by rw [n2]; exact hn), n2, isSquare_iff_norm h.p4]
  rfl

/-- when the back-end's `fp_is_square` is also right at 0 (x86), the full statement holds -/
theorem fp2_is_square_spec_full (hz : ∀ {a}, dom a → val a = 0 → O.isSquare a = T32)
    {x : Fp2 α} (hx : dom2 dom x) : fp2_is_square O x = T32 ↔ IsSquare (val2 val x) := by
  by_cases hne : val2 val x = 0
  · obtain ⟨n1, n2⟩ := norm_spec h hx
    obtain ⟨ha, hb⟩ := (val2_eq_zero_iff h).mp hne
    have : fp2_is_square O x = T32 := hz n1 (by rw [n2, ha, hb]; ring)
    rw [hne]; exact ⟨fun _ => ⟨0, by simp⟩, fun _ => this⟩
  · exact (fp2_is_square_spec_partial h hx hne).1

end
end SqiProofs.GfFp2

/-
GF(p²) layer, part 4: the constant-time complex square root `fp2_sqrt` of fp2.c as coded — all four
branch combinations (`im = 0` × `y0² square`) and the sign normalisation — for any back-end satisfying
`FpRefines`.
-/
import SqiProofs.GfFp2Sqrt

namespace SqiProofs.GfFp2
open SqiModel.Gf
open scoped QuadraticAlgebra
open QuadraticAlgebra (re_one im_one re_natCast im_natCast re_ofNat im_ofNat)

variable {p : Nat} [Fact p.Prime] {α : Type} {O : FpOps α} {dom : α → Prop} {val : α → ZMod p}

/-- `(y0, y1)` of `fp2_sqrt` before the sign management -/
def sqrtCore (O : FpOps α) (x : Fp2 α) : α × α :=
  let sqrt_delta := O.sqrt (O.add (O.sqr x.re) (O.sqr x.im))
  let y0 := O.half (O.add x.re sqrt_delta)
  let x1_is_zero := O.isZero x.im
  let y0 := O.select y0 x.re x1_is_zero
  let nqr := not32 (O.isSquare y0)
  let y0 := O.select y0 (O.neg y0) (nqr &&& x1_is_zero)
  let y0 := O.select y0 (O.sub y0 sqrt_delta) (nqr &&& not32 x1_is_zero)
  let y0 := O.sqrt y0
  let y1 := O.mul x.im (O.inv (O.add y0 y0))
  O.cswap y0 y1 (nqr &&& x1_is_zero)

/-- the sign management of `fp2_sqrt` -/
def signNorm (O : FpOps α) (y : α × α) : Fp2 α :=
  let negate_output := oddMask (O.encode y.1) ||| (O.isZero y.1 &&& oddMask (O.encode y.2))
  ⟨O.select y.1 (O.neg y.1) negate_output, O.select y.2 (O.neg y.2) negate_output⟩

theorem fp2_sqrt_eq (x : Fp2 α) : fp2_sqrt O x = signNorm O (sqrtCore O x) := rfl

theorem mask_or_and {a z b : Nat} (ha : a = 0 ∨ a = T32) (hz : z = 0 ∨ z = T32) (hb : b = 0 ∨ b = T32) :
    (a ||| (z &&& b) = T32 ∧ (a = T32 ∨ (z = T32 ∧ b = T32))) ∨
    (a ||| (z &&& b) = 0 ∧ a = 0 ∧ (z = 0 ∨ b = 0)) := by
  rcases ha with rfl | rfl <;> rcases hz with rfl | rfl <;> rcases hb with rfl | rfl <;> decide

section
variable (h : FpRefines O p dom val)
include h

theorem signNorm_spec {y0 y1 : α} (d0 : dom y0) (d1 : dom y1) :
    dom2 dom (signNorm O (y0, y1)) ∧
    (val (signNorm O (y0, y1)).re).val % 2 = 0 ∧
    (val (signNorm O (y0, y1)).re = 0 → (val (signNorm O (y0, y1)).im).val % 2 = 0) ∧
    (val2 val (signNorm O (y0, y1)) = ⟨val y0, val y1⟩ ∨ val2 val (signNorm O (y0, y1)) = -⟨val y0, val y1⟩) := by
  obtain ⟨n0d, n0v⟩ := h.neg d0
  obtain ⟨n1d, n1v⟩ := h.neg d1
  obtain ⟨s00, s0T⟩ := h.select d0 n0d
  obtain ⟨s10, s1T⟩ := h.select d1 n1d
  have e0 := h.encode d0
  have e1 := h.encode d1
  have hA : oddMask (O.encode y0) = 0 ∨ oddMask (O.encode y0) = T32 := by
    rcases oddMask_cases (O.encode y0) with ⟨h1, _⟩ | ⟨h1, _⟩ <;> simp [h1]
  have hB : oddMask (O.encode y1) = 0 ∨ oddMask (O.encode y1) = T32 := by
    rcases oddMask_cases (O.encode y1) with ⟨h1, _⟩ | ⟨h1, _⟩ <;> simp [h1]
  have hZ : O.isZero y0 = 0 ∨ O.isZero y0 = T32 := by
    rcases h.isZero d0 with ⟨h1, _⟩ | ⟨h1, _⟩ <;> simp [h1]
  have T0 : T32 ≠ 0 := by decide
  rcases mask_or_and hA hZ hB with ⟨hm, hc⟩ | ⟨hm, ha0, hc⟩
  · -- output negated
    have hr : signNorm O (y0, y1) = ⟨O.neg y0, O.neg y1⟩ := by
      simp only [signNorm, hm, s0T, s1T]
    rw [hr]
    refine ⟨⟨n0d, n1d⟩, ?_, ?_, Or.inr (by ext <;> simp [val2, n0v, n1v])⟩
    · show (val (O.neg y0)).val % 2 = 0
      rw [n0v]
      rcases hc with hc | ⟨hz, _⟩
      · rcases oddMask_cases (O.encode y0) with ⟨_, hodd⟩ | ⟨h1, _⟩
        · rw [e0] at hodd
          have hne : val y0 ≠ 0 := by intro h0; rw [h0] at hodd; simp at hodd
          rw [val_parity_neg h.p4 hne, hodd]
        · rw [h1] at hc; exact absurd hc.symm T0
      · rcases h.isZero d0 with ⟨_, hv⟩ | ⟨h1, _⟩
        · rw [hv]; simp
        · rw [h1] at hz; exact absurd hz.symm T0
    · show val (O.neg y0) = 0 → (val (O.neg y1)).val % 2 = 0
      intro hre
      rw [n0v, neg_eq_zero] at hre
      rw [n1v]
      rcases hc with hc | ⟨_, hb⟩
      · rcases oddMask_cases (O.encode y0) with ⟨_, hodd⟩ | ⟨h1, _⟩
        · rw [e0, hre] at hodd; simp at hodd
        · rw [h1] at hc; exact absurd hc.symm T0
      · rcases oddMask_cases (O.encode y1) with ⟨_, hodd⟩ | ⟨h1, _⟩
        · rw [e1] at hodd
          have hne : val y1 ≠ 0 := by intro h0; rw [h0] at hodd; simp at hodd
          rw [val_parity_neg h.p4 hne, hodd]
        · rw [h1] at hb; exact absurd hb.symm T0
  · -- output kept
    have hr : signNorm O (y0, y1) = ⟨y0, y1⟩ := by
      simp only [signNorm, hm, s00, s10]
    rw [hr]
    refine ⟨⟨d0, d1⟩, ?_, ?_, Or.inl rfl⟩
    · show (val y0).val % 2 = 0
      rcases oddMask_cases (O.encode y0) with ⟨h1, _⟩ | ⟨_, hev⟩
      · rw [h1] at ha0; exact absurd ha0 T0
      · rw [e0] at hev; exact hev
    · show val y0 = 0 → (val y1).val % 2 = 0
      intro hre
      rcases hc with hz | hb
      · rcases h.isZero d0 with ⟨h1, _⟩ | ⟨_, hv⟩
        · rw [h1] at hz; exact absurd hz T0
        · exact absurd hre hv
      · rcases oddMask_cases (O.encode y1) with ⟨h1, _⟩ | ⟨_, hev⟩
        · rw [h1] at hb; exact absurd hb T0
        · rw [e1] at hev; exact hev

theorem isSquare_norm_of {x : Fp2 α} (hs : IsSquare (val2 val x)) :
    IsSquare (val x.re * val x.re + val x.im * val x.im) :=
  (isSquare_iff_norm h.p4 (val2 val x)).mp hs

/-- `b = 0` branches: the result is `(√a, 0)` or `(0, √−a)` -/
theorem sqrtCore_spec_real {x : Fp2 α} (hx : dom2 dom x) (hz : O.isZero x.im = T32) (hb : val x.im = 0) :
    dom (sqrtCore O x).1 ∧ dom (sqrtCore O x).2 ∧
    (⟨val (sqrtCore O x).1, val (sqrtCore O x).2⟩ : CF p) * ⟨val (sqrtCore O x).1, val (sqrtCore O x).2⟩ = val2 val x := by
  obtain ⟨n1, _⟩ := norm_spec h hx
  obtain ⟨sd, _, _⟩ := h.sqrt n1
  obtain ⟨ad, _⟩ := h.add hx.1 sd
  obtain ⟨ud, _⟩ := h.half ad
  have selU := (h.select ud hx.1).2
  obtain ⟨ngd, ngv⟩ := h.neg hx.1
  obtain ⟨sel0, selT⟩ := h.select hx.1 ngd
  rcases (h.isSquare hx.1) with ⟨hsq | hsq, hexact⟩
  · -- a is reported non-square: take √(−a), swap
    have hneg : IsSquare (- val x.re) := by
      by_cases ha : val x.re = 0
      · rw [ha]; exact ⟨0, by simp⟩
      · apply isSquare_neg_of_not h.p4 ha
        intro hs; rw [(hexact ha).mpr hs] at hsq; exact absurd hsq (by decide)
    obtain ⟨sbd, _⟩ := h.sub ngd sd
    have sel2 := (h.select ngd sbd).1
    obtain ⟨rd, _, rv⟩ := h.sqrt ngd
    obtain ⟨aad, _⟩ := h.add rd rd
    obtain ⟨ivd, _⟩ := h.inv aad
    obtain ⟨md, mv⟩ := h.mul hx.2 ivd
    have sw := (h.cswap rd md).2
    have e : sqrtCore O x = (O.mul x.im (O.inv (O.add (O.sqrt (O.neg x.re)) (O.sqrt (O.neg x.re)))), O.sqrt (O.neg x.re)) := by
      simp only [sqrtCore, hz, selU, hsq, not32_zero, and_T32_T32, selT, not32_T32, and_T32_zero, sel2, sw]
    rw [e]
    refine ⟨md, rd, ?_⟩
    have hr := rv (by rw [ngv]; exact hneg)
    rw [ngv] at hr
    ext
    · simp only [val2, QuadraticAlgebra.re_mul]; rw [mv, hb]; linear_combination -hr
    · simp only [val2, QuadraticAlgebra.im_mul]; rw [mv, hb]; ring
  · -- a is reported square: √a, no swap
    have hpos : IsSquare (val x.re) := by
      by_cases ha : val x.re = 0
      · rw [ha]; exact ⟨0, by simp⟩
      · exact (hexact ha).mp hsq
    obtain ⟨sbd, _⟩ := h.sub hx.1 sd
    have sel2 := (h.select hx.1 sbd).1
    obtain ⟨rd, _, rv⟩ := h.sqrt hx.1
    obtain ⟨aad, _⟩ := h.add rd rd
    obtain ⟨ivd, _⟩ := h.inv aad
    obtain ⟨md, mv⟩ := h.mul hx.2 ivd
    have sw := (h.cswap rd md).1
    have z0 : (0 : Nat) &&& T32 = 0 := by decide
    have z1 : (0 : Nat) &&& 0 = 0 := by decide
    have e : sqrtCore O x = (O.sqrt x.re, O.mul x.im (O.inv (O.add (O.sqrt x.re) (O.sqrt x.re)))) := by
      simp only [sqrtCore, hz, selU, hsq, not32_T32, z0, sel0, not32_T32, z1, sel2, sw]
    rw [e]
    refine ⟨rd, md, ?_⟩
    have hr := rv hpos
    ext
    · simp only [val2, QuadraticAlgebra.re_mul]; rw [mv, hb]; linear_combination hr
    · simp only [val2, QuadraticAlgebra.im_mul]; rw [mv, hb]; ring

/-- `b ≠ 0` branches: `y0² = (a ± s)/2`, `y1 = b/(2 y0)` -/
theorem sqrtCore_spec_generic {x : Fp2 α} (hx : dom2 dom x) (hz : O.isZero x.im = 0) (hb : val x.im ≠ 0) :
    dom (sqrtCore O x).1 ∧ dom (sqrtCore O x).2 ∧ (IsSquare (val2 val x) →
    (⟨val (sqrtCore O x).1, val (sqrtCore O x).2⟩ : CF p) * ⟨val (sqrtCore O x).1, val (sqrtCore O x).2⟩ = val2 val x) := by
  obtain ⟨n1, n2⟩ := norm_spec h hx
  obtain ⟨sd, _, sv⟩ := h.sqrt n1
  obtain ⟨ad, av⟩ := h.add hx.1 sd
  obtain ⟨ud, uv⟩ := h.half ad
  have selU := (h.select ud hx.1).1
  obtain ⟨ngd, _⟩ := h.neg ud
  have sel1 := (h.select ud ngd).1
  obtain ⟨sbd, sbv⟩ := h.sub ud sd
  obtain ⟨sel20, sel2T⟩ := h.select ud sbd
  have z0 : (0 : Nat) &&& T32 = 0 := by decide
  have z1 : (0 : Nat) &&& 0 = 0 := by decide
  have h2 := two_ne_zero' h.p4
  -- common tail: given the chosen y0² = w
  have tail : ∀ w : α, dom w → (IsSquare (val2 val x) → (val w = val (O.half (O.add x.re (O.sqrt (O.add (O.sqr x.re) (O.sqr x.im))))) ∨
        val w = val (O.half (O.add x.re (O.sqrt (O.add (O.sqr x.re) (O.sqr x.im))))) - val (O.sqrt (O.add (O.sqr x.re) (O.sqr x.im)))) ∧
        val w ≠ 0 ∧ IsSquare (val w)) →
      dom (O.sqrt w) ∧ dom (O.mul x.im (O.inv (O.add (O.sqrt w) (O.sqrt w)))) ∧ (IsSquare (val2 val x) →
      (⟨val (O.sqrt w), val (O.mul x.im (O.inv (O.add (O.sqrt w) (O.sqrt w))))⟩ : CF p) *
        ⟨val (O.sqrt w), val (O.mul x.im (O.inv (O.add (O.sqrt w) (O.sqrt w))))⟩ = val2 val x) := by
    intro w wd hw
    obtain ⟨rd, _, rv⟩ := h.sqrt wd
    obtain ⟨aad, aav⟩ := h.add rd rd
    obtain ⟨ivd, ivv⟩ := h.inv aad
    obtain ⟨md, mv⟩ := h.mul hx.2 ivd
    refine ⟨rd, md, ?_⟩
    intro hsq
    obtain ⟨hw1, hw0, hwsq⟩ := hw hsq
    have hs := sv (by rw [n2]; exact isSquare_norm_of h hsq)
    rw [n2] at hs
    have hu : val (O.half (O.add x.re (O.sqrt (O.add (O.sqr x.re) (O.sqr x.im))))) * 2 =
        val x.re + val (O.sqrt (O.add (O.sqr x.re) (O.sqr x.im))) := by rw [uv, av]
    have hy := rv hwsq
    have hy0 : val (O.sqrt w) ≠ 0 := by intro h0; rw [h0] at hy; simp at hy; exact hw0 hy.symm
    have hyy : val (O.sqrt w) + val (O.sqrt w) ≠ 0 := by rw [← two_mul]; exact mul_ne_zero h2 hy0
    have := root_formula (b := val x.im) hs hu hw1 hw0 (four_ne_zero' h.p4) hy (inv_mul_cancel₀ hyy)
    rw [mv, ivv, aav]
    exact this
  rcases (h.isSquare ud) with ⟨hsq | hsq, hexact⟩
  · -- u reported non-square: use u − s
    have e : sqrtCore O x = (O.sqrt (O.sub (O.half (O.add x.re (O.sqrt (O.add (O.sqr x.re) (O.sqr x.im))))) (O.sqrt (O.add (O.sqr x.re) (O.sqr x.im)))),
        O.mul x.im (O.inv (O.add (O.sqrt (O.sub (O.half (O.add x.re (O.sqrt (O.add (O.sqr x.re) (O.sqr x.im))))) (O.sqrt (O.add (O.sqr x.re) (O.sqr x.im)))))
          (O.sqrt (O.sub (O.half (O.add x.re (O.sqrt (O.add (O.sqr x.re) (O.sqr x.im))))) (O.sqrt (O.add (O.sqr x.re) (O.sqr x.im)))))))) := by
      obtain ⟨rd, _, _⟩ := h.sqrt sbd
      obtain ⟨aad, _⟩ := h.add rd rd
      obtain ⟨ivd, _⟩ := h.inv aad
      obtain ⟨md, _⟩ := h.mul hx.2 ivd
      have sw := (h.cswap rd md).1
      simp only [sqrtCore, hz, selU, hsq, not32_zero, and_T32_zero, sel1, and_T32_T32, sel2T, sw]
    rw [e]
    apply tail _ sbd
    intro hsqx
    have hs := sv (by rw [n2]; exact isSquare_norm_of h hsqx)
    rw [n2] at hs
    obtain ⟨hu0, hv0, hiff⟩ := half_dichotomy h.p4 hs hb (by rw [uv, av])
    have hnot : ¬ IsSquare (val (O.half (O.add x.re (O.sqrt (O.add (O.sqr x.re) (O.sqr x.im)))))) := by
      intro hs'; rw [(hexact hu0).mpr hs'] at hsq; exact absurd hsq (by decide)
    refine ⟨Or.inr sbv, by rw [sbv]; exact hv0, ?_⟩
    rw [sbv]
    by_contra hc; exact hnot (hiff.mpr hc)
  · -- u reported square
    have e : sqrtCore O x = (O.sqrt (O.half (O.add x.re (O.sqrt (O.add (O.sqr x.re) (O.sqr x.im))))),
        O.mul x.im (O.inv (O.add (O.sqrt (O.half (O.add x.re (O.sqrt (O.add (O.sqr x.re) (O.sqr x.im))))))
          (O.sqrt (O.half (O.add x.re (O.sqrt (O.add (O.sqr x.re) (O.sqr x.im))))))))) := by
      obtain ⟨rd, _, _⟩ := h.sqrt ud
      obtain ⟨aad, _⟩ := h.add rd rd
      obtain ⟨ivd, _⟩ := h.inv aad
      obtain ⟨md, _⟩ := h.mul hx.2 ivd
      have sw := (h.cswap rd md).1
      simp only [sqrtCore, hz, selU, hsq, not32_T32, z1, sel1, not32_zero, z0, sel20, sw]
    rw [e]
    apply tail _ ud
    intro hsqx
    have hs := sv (by rw [n2]; exact isSquare_norm_of h hsqx)
    rw [n2] at hs
    obtain ⟨hu0, _, _⟩ := half_dichotomy h.p4 hs hb (by rw [uv, av])
    exact ⟨Or.inl rfl, hu0, (hexact hu0).mp hsq⟩

/-- **`fp2_sqrt`** (all branches): the result stays in the domain, is in the documented sign
    normalisation (even real part; if the real part is 0, even imaginary part), and for every square
    `x` of `Fp[i]` it squares to `x`. -/
theorem fp2_sqrt_spec {x : Fp2 α} (hx : dom2 dom x) :
    dom2 dom (fp2_sqrt O x) ∧
    ((val (fp2_sqrt O x).re).val % 2 = 0 ∧ (val (fp2_sqrt O x).re = 0 → (val (fp2_sqrt O x).im).val % 2 = 0)) ∧
    (IsSquare (val2 val x) → val2 val (fp2_sqrt O x) * val2 val (fp2_sqrt O x) = val2 val x) := by
  have core : dom (sqrtCore O x).1 ∧ dom (sqrtCore O x).2 ∧ (IsSquare (val2 val x) →
      (⟨val (sqrtCore O x).1, val (sqrtCore O x).2⟩ : CF p) * ⟨val (sqrtCore O x).1, val (sqrtCore O x).2⟩ = val2 val x) := by
    rcases h.isZero hx.2 with ⟨hz, hb⟩ | ⟨hz, hb⟩
    · obtain ⟨a, b, c⟩ := sqrtCore_spec_real h hx hz hb
      exact ⟨a, b, fun _ => c⟩
    · exact sqrtCore_spec_generic h hx hz hb
  obtain ⟨c1, c2, c3⟩ := core
  obtain ⟨s1, s2, s3, s4⟩ := signNorm_spec h c1 c2
  rw [fp2_sqrt_eq]
  refine ⟨s1, ⟨s2, s3⟩, ?_⟩
  intro hsq
  rcases s4 with e | e
  · rw [e]; exact c3 hsq
  · rw [e, neg_mul_neg]; exact c3 hsq

end
end SqiProofs.GfFp2

/-
Lemmas for the ref back-end of GF(p): limb lists, the generic word-by-word Montgomery loop
(any limb count, any modulus `p` with `p·p' ≡ −1 (mod 2^64)`), final conditional subtraction.
-/
import Mathlib.Data.ZMod.Basic
import Mathlib.Tactic.Ring
import Mathlib.Tactic.LinearCombination
import Mathlib.Tactic.Linarith
import SqiModel.GfRef

namespace SqiProofs.GfMont
open SqiModel.Gf

theorem W_pos : 0 < W := by unfold W; positivity

theorem toLimbs_length (n x : Nat) : (toLimbs n x).length = n := by
  induction n generalizing x with
  | zero => rfl
  | succ n ih => simp [toLimbs, ih]

theorem toLimbs_lt (n x : Nat) : ∀ a ∈ toLimbs n x, a < W := by
  induction n generalizing x with
  | zero => intro a h; simp [toLimbs] at h
  | succ n ih =>
    intro a h
    simp only [toLimbs, List.mem_cons] at h
    rcases h with h | h
    · subst h; exact Nat.mod_lt _ W_pos
    · exact ih _ a h

theorem evalLimbs_toLimbs (n x : Nat) : evalLimbs (toLimbs n x) = x % W ^ n := by
  induction n generalizing x with
  | zero => simp [toLimbs, evalLimbs, Nat.mod_one]
  | succ n ih =>
    simp only [toLimbs, evalLimbs, ih]
    rw [pow_succ, Nat.mul_comm (W ^ n) W, Nat.mod_mul]

theorem evalLimbs_toLimbs_of_lt {n x : Nat} (h : x < W ^ n) : evalLimbs (toLimbs n x) = x := by
  rw [evalLimbs_toLimbs, Nat.mod_eq_of_lt h]

theorem montStep_dvd (p p' t' : Nat) (hpp : (p * p' + 1) % W = 0) :
    W ∣ t' + ((t' % W) * p') % W * p := by
  have : NeZero W := ⟨by have := W_pos; omega⟩
  rw [← ZMod.natCast_eq_zero_iff]
  have h1 : ((p * p' + 1 : Nat) : ZMod W) = 0 := by
    rw [ZMod.natCast_eq_zero_iff]; exact Nat.dvd_of_mod_eq_zero hpp
  push_cast at h1
  rw [Nat.cast_add, Nat.cast_mul, ZMod.natCast_mod, Nat.cast_mul, ZMod.natCast_mod]
  linear_combination (t' : ZMod W) * h1

/-- one step keeps the accumulator below `p + b` (hence below `2p`) for *any* limb `ai < W`. -/
theorem montStep_spec (p p' b t ai : Nat) (hpp : (p * p' + 1) % W = 0)
    (ht : t < p + b) (hai : ai < W) :
    montStep p p' b t ai * W = t + ai * b + (((t + ai * b) % W) * p') % W * p ∧
    montStep p p' b t ai < p + b := by
  have hW := W_pos
  have hd := montStep_dvd p p' (t + ai * b) hpp
  have hm : (((t + ai * b) % W) * p') % W < W := Nat.mod_lt _ hW
  constructor
  · simp only [montStep]
    exact Nat.div_mul_cancel hd
  · simp only [montStep]
    rw [Nat.div_lt_iff_lt_mul hW]
    have h1 : ai * b ≤ (W - 1) * b := Nat.mul_le_mul_right _ (by omega)
    have h2 : (((t + ai * b) % W) * p') % W * p ≤ (W - 1) * p := Nat.mul_le_mul_right _ (by omega)
    have h3 : (W - 1) * b + b = W * b := by
      have : W - 1 + 1 = W := by omega
      calc (W - 1) * b + b = (W - 1 + 1) * b := by ring
        _ = W * b := by rw [this]
    have h4 : (W - 1) * p + p = W * p := by
      have : W - 1 + 1 = W := by omega
      calc (W - 1) * p + p = (W - 1 + 1) * p := by ring
        _ = W * p := by rw [this]
    have h5 : (p + b) * W = W * p + W * b := by ring
    linarith

theorem montLoop_spec (p p' b : Nat) (hpp : (p * p' + 1) % W = 0) :
    ∀ (as : List Nat) (t : Nat), (∀ a ∈ as, a < W) → t < p + b →
      montLoop p p' b as t < p + b ∧
      ((montLoop p p' b as t : Nat) : ZMod p) * (W : ZMod p) ^ as.length =
        (t : ZMod p) + (evalLimbs as : ZMod p) * b := by
  intro as
  induction as with
  | nil => intro t _ ht; simp [montLoop, evalLimbs, ht]
  | cons ai as ih =>
    intro t hlim ht
    have hai : ai < W := hlim ai (by simp)
    obtain ⟨heq, hlt⟩ := montStep_spec p p' b t ai hpp ht hai
    obtain ⟨h1, h2⟩ := ih (montStep p p' b t ai) (fun a ha => hlim a (by simp [ha])) hlt
    refine ⟨h1, ?_⟩
    simp only [montLoop, evalLimbs, List.length_cons]
    have heq' : ((montStep p p' b t ai : Nat) : ZMod p) * (W : ZMod p) = (t : ZMod p) + ai * b := by
      have := congrArg (fun n : Nat => (n : ZMod p)) heq
      simp only [Nat.cast_mul, Nat.cast_add, ZMod.natCast_self, mul_zero, add_zero] at this
      exact this
    push_cast
    rw [pow_succ]
    linear_combination (W : ZMod p) * h2 + heq'

theorem condSub_spec {p r : Nat} (h : r < 2 * p) : condSub p r < p ∧ ((condSub p r : Nat) : ZMod p) = r := by
  unfold condSub
  split
  · next hle =>
    refine ⟨by omega, ?_⟩
    rw [Nat.cast_sub hle]; simp
  · next hlt => exact ⟨by omega, rfl⟩

/-- **Generic word-by-word Montgomery multiplication**: every limb count `n`, every modulus `p` with
    `p·p' ≡ −1 (mod 2^64)`, first operand any `n`-limb value, second operand `< p`. -/
theorem montMul_spec_gen (n p p' a b : Nat) (hpp : (p * p' + 1) % W = 0) (ha : a < W ^ n) (hb : b < p) :
    montMul n p p' a b < p ∧
    ((montMul n p p' a b : Nat) : ZMod p) * (W : ZMod p) ^ n = (a : ZMod p) * b := by
  have hp : 0 < p := by omega
  obtain ⟨h1, h2⟩ := montLoop_spec p p' b hpp (toLimbs n a) 0 (toLimbs_lt n a) (by omega)
  obtain ⟨h3, h4⟩ := condSub_spec (p := p) (r := montLoop p p' b (toLimbs n a) 0) (by omega)
  refine ⟨h3, ?_⟩
  unfold montMul
  rw [h4]
  rw [toLimbs_length, evalLimbs_toLimbs_of_lt ha] at h2
  simpa using h2

end SqiProofs.GfMont

/-
Ref back-end of GF(p): every `fp_*` operation of the model refines arithmetic in `ZMod p` through the
Montgomery map  `toZ x = x · R⁻¹`  (R = 2^(64 n)).  Generic in the parameter record: the only facts used
about a level are `Valid P` (p·p' ≡ −1 mod 2^64, 2 < p < R, p ≡ 3 mod 4) and, for inversion / squareness
/ square roots, primality of `p` (`[Fact P.p.Prime]`; discharged for the three scheme primes in
SqiProps.C07 from SqiProofs.Primes).
-/
import Mathlib.Data.ZMod.Basic
import Mathlib.FieldTheory.Finite.Basic
import Mathlib.NumberTheory.LegendreSymbol.Basic
import Mathlib.Tactic.Ring
import Mathlib.Tactic.FieldSimp
import Mathlib.Tactic.LinearCombination
import Mathlib.Tactic.Linarith
import SqiProofs.GfMont

namespace SqiProofs.GfRef
open SqiModel.Gf SqiProofs.GfMont

/-- the arithmetic facts about a parameter set that the proofs use -/
structure Valid (P : RefParams) : Prop where
  hpp : (P.p * P.p' + 1) % W = 0
  hp2 : 2 < P.p
  hpR : P.p < P.R
  hp4 : P.p % 4 = 3
  hn : 1 ≤ P.n

theorem R_eq (P : RefParams) : P.R = W ^ P.n := by
  unfold RefParams.R W; rw [← pow_mul]

variable {P : RefParams}

/-- Montgomery radix as an element of `ZMod p` -/
def Rz (P : RefParams) : ZMod P.p := (P.R : ZMod P.p)

/-- the field element represented by the stored integer `x` -/
def toZ (P : RefParams) (x : Nat) : ZMod P.p := (x : ZMod P.p) * (Rz P)⁻¹

theorem toZ_zero : toZ P 0 = 0 := by simp [toZ]

/-- value of a stored integer below `p` is its canonical representative -/
theorem natCast_val_of_lt {a : Nat} (ha : a < P.p) : ((a : ZMod P.p)).val = a := ZMod.val_natCast_of_lt ha

section field
variable [Fact P.p.Prime] (hV : Valid P)
include hV

theorem W_ne_zero : (W : ZMod P.p) ≠ 0 := by
  intro h
  have h1 : ((P.p * P.p' + 1 : Nat) : ZMod P.p) = 0 := by
    have hd : W ∣ P.p * P.p' + 1 := Nat.dvd_of_mod_eq_zero hV.hpp
    obtain ⟨k, hk⟩ := hd
    rw [hk]; push_cast; rw [h]; ring
  push_cast at h1
  simp at h1

theorem Rz_ne_zero : Rz P ≠ 0 := by
  unfold Rz; rw [R_eq]; push_cast
  exact pow_ne_zero _ (W_ne_zero hV)

theorem toZ_mul_R (x : Nat) : toZ P x * Rz P = x := by
  unfold toZ; field_simp [Rz_ne_zero hV]

theorem toZ_inj {a b : Nat} (ha : a < P.p) (hb : b < P.p) (h : toZ P a = toZ P b) : a = b := by
  have h1 : (a : ZMod P.p) = b := by
    have := congrArg (· * Rz P) h
    simpa [toZ_mul_R hV] using this
  rw [ZMod.natCast_eq_natCast_iff'] at h1
  rwa [Nat.mod_eq_of_lt ha, Nat.mod_eq_of_lt hb] at h1

theorem toZ_eq_zero {a : Nat} (ha : a < P.p) (h : toZ P a = 0) : a = 0 :=
  toZ_inj hV ha (by have := hV.hp2; omega) (by rw [h, toZ_zero])

/-! ### multiplication family -/

theorem montMul_toZ {a b : Nat} (ha : a < P.R) (hb : b < P.p) :
    montMul P.n P.p P.p' a b < P.p ∧
    (montMul P.n P.p P.p' a b : ZMod P.p) = (a : ZMod P.p) * b * (Rz P)⁻¹ := by
  obtain ⟨h1, h2⟩ := montMul_spec_gen P.n P.p P.p' a b hV.hpp (by rw [← R_eq]; exact ha) hb
  refine ⟨h1, ?_⟩
  have hR : (W : ZMod P.p) ^ P.n = Rz P := by unfold Rz; rw [R_eq]; push_cast; rfl
  rw [hR] at h2
  field_simp [Rz_ne_zero hV]
  exact h2

theorem fp_mul_spec {a b : Nat} (ha : a < P.p) (hb : b < P.p) :
    Ref.fp_mul P a b < P.p ∧ toZ P (Ref.fp_mul P a b) = toZ P a * toZ P b := by
  obtain ⟨h1, h2⟩ := montMul_toZ hV (lt_trans ha hV.hpR) hb
  refine ⟨h1, ?_⟩
  unfold toZ Ref.fp_mul; rw [h2]; ring

theorem fp_sqr_spec {a : Nat} (ha : a < P.p) :
    Ref.fp_sqr P a < P.p ∧ toZ P (Ref.fp_sqr P a) = toZ P a * toZ P a := fp_mul_spec hV ha ha

omit [Fact P.p.Prime] in
theorem r2_lt : P.r2 < P.p := Nat.mod_lt _ (by have := hV.hp2; omega)

/-- `fp_tomont` accepts any `n`-limb integer and reduces it modulo `p` -/
theorem fp_tomont_spec {a : Nat} (ha : a < P.R) :
    Ref.fp_tomont P a < P.p ∧ toZ P (Ref.fp_tomont P a) = (a : ZMod P.p) := by
  obtain ⟨h1, h2⟩ := montMul_toZ hV ha (r2_lt hV)
  refine ⟨h1, ?_⟩
  unfold toZ Ref.fp_tomont; rw [h2]
  have : ((P.r2 : Nat) : ZMod P.p) = Rz P * Rz P := by
    unfold RefParams.r2 Rz; rw [ZMod.natCast_mod]; push_cast; ring
  rw [this]; field_simp [Rz_ne_zero hV]

/-- `fp_frommont` returns the canonical representative of the represented field element -/
theorem fp_frommont_spec {a : Nat} (ha : a < P.p) :
    Ref.fp_frommont P a < P.p ∧ Ref.fp_frommont P a = (toZ P a).val := by
  obtain ⟨h1, h2⟩ := montMul_toZ hV (lt_trans ha hV.hpR) (b := 1) (by have := hV.hp2; omega)
  refine ⟨h1, ?_⟩
  have : ((Ref.fp_frommont P a : Nat) : ZMod P.p) = toZ P a := by
    unfold toZ Ref.fp_frommont; rw [h2]; simp
  rw [← this, natCast_val_of_lt]; exact h1

theorem one_spec : Ref.fp_set_one P < P.p ∧ toZ P (Ref.fp_set_one P) = 1 := by
  constructor
  · exact Nat.mod_lt _ (by have := hV.hp2; omega)
  · unfold toZ Ref.fp_set_one RefParams.oneM; rw [ZMod.natCast_mod]
    exact mul_inv_cancel₀ (Rz_ne_zero hV)

theorem fp_set_small_spec (v : Nat) :
    Ref.fp_set_small P v < P.p ∧ toZ P (Ref.fp_set_small P v) = ((v % W : Nat) : ZMod P.p) := by
  have hW : v % W < P.R := by
    have h1 : v % W < W := Nat.mod_lt _ W_pos
    have h2 : W ≤ P.R := by
      rw [R_eq]; calc W = W ^ 1 := (pow_one W).symm
        _ ≤ W ^ P.n := Nat.pow_le_pow_right W_pos hV.hn
    omega
  exact fp_tomont_spec hV hW

/-! ### add / sub / neg -/

theorem fp_add_spec {a b : Nat} (ha : a < P.p) (hb : b < P.p) :
    Ref.fp_add P a b < P.p ∧ toZ P (Ref.fp_add P a b) = toZ P a + toZ P b := by
  have hR := hV.hpR
  unfold Ref.fp_add
  simp only []
  split
  · next h =>
    rw [Nat.mod_eq_of_lt (by omega)]
    exact ⟨h, by unfold toZ; push_cast; ring⟩
  · next h =>
    rw [Nat.mod_eq_of_lt (by omega)]
    refine ⟨by omega, ?_⟩
    unfold toZ; rw [Nat.cast_sub (by omega)]; push_cast; simp; ring

theorem fp_sub_spec {a b : Nat} (ha : a < P.p) (hb : b < P.p) :
    Ref.fp_sub P a b < P.p ∧ toZ P (Ref.fp_sub P a b) = toZ P a - toZ P b := by
  have hR := hV.hpR
  unfold Ref.fp_sub
  split
  · next h =>
    have e : (a + P.R - b + P.p) % P.R = a + P.p - b := by
      have : a + P.R - b + P.p = (a + P.p - b) + P.R := by omega
      rw [this, Nat.add_mod_right, Nat.mod_eq_of_lt (by omega)]
    rw [e]
    refine ⟨by omega, ?_⟩
    unfold toZ; rw [Nat.cast_sub (by omega)]; push_cast; simp; ring
  · next h =>
    refine ⟨by omega, ?_⟩
    unfold toZ; rw [Nat.cast_sub (by omega)]; ring

theorem fp_neg_spec {a : Nat} (ha : a < P.p) :
    Ref.fp_neg P a < P.p ∧ toZ P (Ref.fp_neg P a) = - toZ P a := by
  have hR := hV.hpR
  unfold Ref.fp_neg
  have e : (P.p + P.R - a) % P.R = P.p - a := by
    have : P.p + P.R - a = (P.p - a) + P.R := by omega
    rw [this, Nat.add_mod_right, Nat.mod_eq_of_lt (by omega)]
  rw [e]
  -- fp_sub (p - a) p : the first operand may equal p (a = 0), so unfold directly
  unfold Ref.fp_sub
  split
  · next h =>
    have e2 : (P.p - a + P.R - P.p + P.p) % P.R = P.p - a := by
      have : P.p - a + P.R - P.p + P.p = (P.p - a) + P.R := by omega
      rw [this, Nat.add_mod_right, Nat.mod_eq_of_lt (by omega)]
    rw [e2]
    refine ⟨by omega, ?_⟩
    unfold toZ; rw [Nat.cast_sub (by omega)]; simp
  · next h =>
    have : a = 0 := by omega
    subst this
    simp [toZ]; omega

/-! ### comparisons, select, swap -/

theorem fp_is_zero_spec {a : Nat} (ha : a < P.p) :
    (Ref.fp_is_zero a = T32 ↔ toZ P a = 0) ∧ (Ref.fp_is_zero a = 0 ↔ toZ P a ≠ 0) := by
  unfold Ref.fp_is_zero
  by_cases h : a = 0
  · subst h; simp [toZ_zero, T32]
  · have : toZ P a ≠ 0 := fun h0 => h (toZ_eq_zero hV ha h0)
    simp [h, this, T32]

theorem fp_is_equal_spec {a b : Nat} (ha : a < P.p) (hb : b < P.p) :
    (Ref.fp_is_equal a b = T32 ↔ toZ P a = toZ P b) ∧ (Ref.fp_is_equal a b = 0 ↔ toZ P a ≠ toZ P b) := by
  unfold Ref.fp_is_equal
  by_cases h : a = b
  · subst h; simp [T32]
  · have : toZ P a ≠ toZ P b := fun h0 => h (toZ_inj hV ha hb h0)
    simp [h, this, T32]

end field

theorem replLimb_ones (n : Nat) : Ref.replLimb n (W - 1) = W ^ n - 1 := by
  induction n with
  | zero => simp [Ref.replLimb]
  | succ n ih =>
    have h1 : 1 ≤ W ^ n := Nat.one_le_pow _ _ W_pos
    have hW := W_pos
    simp only [Ref.replLimb, ih, pow_succ]
    have : W * (W ^ n - 1) = W ^ n * W - W := by
      rw [Nat.mul_sub, Nat.mul_one, Nat.mul_comm]
    rw [this]
    have : W ≤ W ^ n * W := Nat.le_mul_of_pos_left _ (by omega)
    omega

theorem replLimb_zero (n : Nat) : Ref.replLimb n 0 = 0 := by
  induction n with
  | zero => rfl
  | succ n ih => simp [Ref.replLimb, ih]

/-- `fp_select` under its documented precondition `ctl ∈ {0, 0xFFFFFFFF}` -/
theorem fp_select_spec (P : RefParams) {a0 a1 : Nat} (h0 : a0 < P.R) (h1 : a1 < P.R) :
    Ref.fp_select P a0 a1 0 = a0 ∧ Ref.fp_select P a0 a1 T32 = a1 := by
  constructor
  · simp [Ref.fp_select, Ref.ctlWord, replLimb_zero]
  · have hc : Ref.ctlWord T32 = W - 1 := by decide
    unfold Ref.fp_select
    rw [hc, replLimb_ones, ← R_eq]
    have hx : a0 ^^^ a1 < P.R := by
      unfold RefParams.R at *; exact Nat.xor_lt_two_pow h0 h1
    unfold RefParams.R at *
    rw [Nat.and_comm, Nat.and_two_pow_sub_one_eq_mod, Nat.mod_eq_of_lt hx, ← Nat.xor_assoc, Nat.xor_self,
      Nat.zero_xor]

theorem fp_cswap_spec (P : RefParams) {a b : Nat} (h0 : a < P.R) (h1 : b < P.R) :
    Ref.fp_cswap P a b 0 = (a, b) ∧ Ref.fp_cswap P a b T32 = (b, a) := by
  constructor
  · simp [Ref.fp_cswap, Ref.ctlWord, replLimb_zero]
  · have hc : Ref.ctlWord T32 = W - 1 := by decide
    unfold Ref.fp_cswap
    simp only [hc, replLimb_ones, ← R_eq]
    have hx : a ^^^ b < P.R := by
      unfold RefParams.R at *; exact Nat.xor_lt_two_pow h0 h1
    unfold RefParams.R at *
    rw [Nat.and_comm, Nat.and_two_pow_sub_one_eq_mod, Nat.mod_eq_of_lt hx, ← Nat.xor_assoc, Nat.xor_self,
      Nat.zero_xor, Nat.xor_comm a b, ← Nat.xor_assoc, Nat.xor_self, Nat.zero_xor]

end SqiProofs.GfRef

/-
Ref back-end of GF(p), part 2: the exponentiation loop of `fp_exp3div4` as coded, and from it
`fp_inv` (Fermat), `fp_is_square` (Euler), `fp_sqrt` (with the parity normalisation), `fp_half`,
and the byte encoding round trips.
-/
import SqiProofs.GfRef

namespace SqiProofs.GfRef
open SqiModel.Gf SqiProofs.GfMont

variable {P : RefParams}

section field
variable [Fact P.p.Prime] (hV : Valid P)
include hV

/-- the square-and-multiply loop: `k` iterations consume the low `k` bits of `pt` -/
theorem expLoop_spec : ∀ (k pt out acc : Nat), out < P.p → acc < P.p →
    Ref.expLoop P k pt out acc < P.p ∧
    toZ P (Ref.expLoop P k pt out acc) = toZ P out * toZ P acc ^ (pt % 2 ^ k) := by
  intro k
  induction k with
  | zero => intro pt out acc ho _; simp [Ref.expLoop, ho, Nat.mod_one]
  | succ k ih =>
    intro pt out acc ho ha
    simp only [Ref.expLoop]
    obtain ⟨hs1, hs2⟩ := fp_sqr_spec hV ha
    have hmod : pt % 2 ^ (k + 1) = pt % 2 + 2 * (pt / 2 % 2 ^ k) := by
      rw [pow_succ', Nat.mod_mul]
    by_cases hb : pt % 2 = 1
    · obtain ⟨hm1, hm2⟩ := fp_mul_spec hV ho ha
      obtain ⟨h1, h2⟩ := ih (pt / 2) _ _ hm1 hs1
      simp only [hb, if_true]
      refine ⟨h1, ?_⟩
      rw [h2, hm2, hs2, hmod, hb, pow_add, pow_mul, pow_one]; ring
    · have hb0 : pt % 2 = 0 := by omega
      obtain ⟨h1, h2⟩ := ih (pt / 2) _ _ ho hs1
      simp only [hb, if_false]
      refine ⟨h1, ?_⟩
      rw [h2, hs2, hmod, hb0, zero_add, pow_mul]; ring

omit [Fact P.p.Prime] in
theorem quarter_lt : P.p / 4 < 2 ^ (64 * P.n - 2) := by
  have h := hV.hpR
  unfold RefParams.R at h
  have hn := hV.hn
  have : 2 ^ (64 * P.n) = 2 ^ (64 * P.n - 2) * 4 := by
    rw [show (4 : Nat) = 2 ^ 2 from rfl, ← pow_add]; congr 1; omega
  omega

/-- `fp_exp3div4` computes `a^((p−3)/4)` (`= a^⌊p/4⌋` since `p ≡ 3 mod 4`) -/
theorem fp_exp3div4_spec {a : Nat} (ha : a < P.p) :
    Ref.fp_exp3div4 P a < P.p ∧ toZ P (Ref.fp_exp3div4 P a) = toZ P a ^ (P.p / 4) := by
  obtain ⟨ho1, ho2⟩ := one_spec hV
  obtain ⟨h1, h2⟩ := expLoop_spec hV (64 * P.n - 2) (P.p / 4) _ _ ho1 ha
  refine ⟨h1, ?_⟩
  unfold Ref.fp_exp3div4
  rw [h2, ho2, one_mul, Nat.mod_eq_of_lt (quarter_lt hV)]

theorem pow_p_sub_two (x : ZMod P.p) : x ^ (P.p - 2) = x⁻¹ := by
  have hp2 := hV.hp2
  by_cases hx : x = 0
  · subst hx; simp; omega
  · have h1 : x ^ (P.p - 1) = 1 := ZMod.pow_card_sub_one_eq_one hx
    have h2 : x ^ (P.p - 2) * x = 1 := by
      rw [← pow_succ]; rw [show P.p - 2 + 1 = P.p - 1 by omega]; exact h1
    exact eq_inv_of_mul_eq_one_left h2

/-- **`fp_inv`**: the represented value is the field inverse (`0⁻¹ = 0` in `ZMod p`) -/
theorem fp_inv_spec {a : Nat} (ha : a < P.p) :
    Ref.fp_inv P a < P.p ∧ toZ P (Ref.fp_inv P a) = (toZ P a)⁻¹ := by
  obtain ⟨e1, e2⟩ := fp_exp3div4_spec hV ha
  obtain ⟨s1, s2⟩ := fp_sqr_spec hV e1
  obtain ⟨t1, t2⟩ := fp_sqr_spec hV s1
  obtain ⟨m1, m2⟩ := fp_mul_spec hV t1 ha
  refine ⟨m1, ?_⟩
  unfold Ref.fp_inv
  simp only []
  rw [m2, t2, s2, e2, ← pow_p_sub_two hV]
  have h4 := hV.hp4
  have : P.p - 2 = P.p / 4 + P.p / 4 + (P.p / 4 + P.p / 4) + 1 := by omega
  rw [this, pow_succ, pow_add, pow_add]

omit [Fact P.p.Prime] in
theorem half_eq : P.p / 2 = P.p / 4 + P.p / 4 + 1 := by have := hV.hp4; omega

/-- value computed by `fp_is_square` before the comparison: `a^((p−1)/2)` -/
theorem legendre_pow_spec {a : Nat} (ha : a < P.p) :
    Ref.fp_mul P (Ref.fp_sqr P (Ref.fp_exp3div4 P a)) a < P.p ∧
    toZ P (Ref.fp_mul P (Ref.fp_sqr P (Ref.fp_exp3div4 P a)) a) = toZ P a ^ (P.p / 2) := by
  obtain ⟨e1, e2⟩ := fp_exp3div4_spec hV ha
  obtain ⟨s1, s2⟩ := fp_sqr_spec hV e1
  obtain ⟨m1, m2⟩ := fp_mul_spec hV s1 ha
  refine ⟨m1, ?_⟩
  rw [m2, s2, e2, half_eq hV, pow_succ, pow_add]

omit [Fact P.p.Prime] hV in
theorem or_T32_mask {x : Nat} (hx : x = 0 ∨ x = T32) : (x ||| 0 = x) ∧ (x ||| T32 = T32) := by
  rcases hx with rfl | rfl <;> decide

/-- **`fp_is_square`** (after the repair `| fp_is_zero(a)`): true exactly on squares, 0 included -/
theorem fp_is_square_spec {a : Nat} (ha : a < P.p) :
    (Ref.fp_is_square P a = T32 ↔ IsSquare (toZ P a)) ∧
    (Ref.fp_is_square P a = 0 ∨ Ref.fp_is_square P a = T32) := by
  obtain ⟨l1, l2⟩ := legendre_pow_spec hV ha
  obtain ⟨o1, o2⟩ := one_spec hV
  obtain ⟨q1, q2⟩ := fp_is_equal_spec hV l1 o1
  have hE : Ref.fp_is_equal (Ref.fp_mul P (Ref.fp_sqr P (Ref.fp_exp3div4 P a)) a) (Ref.fp_set_one P) = 0 ∨
      Ref.fp_is_equal (Ref.fp_mul P (Ref.fp_sqr P (Ref.fp_exp3div4 P a)) a) (Ref.fp_set_one P) = T32 := by
    unfold Ref.fp_is_equal; split <;> simp
  unfold Ref.fp_is_square
  simp only []
  by_cases h0 : a = 0
  · subst h0
    have hz : Ref.fp_is_zero 0 = T32 := by simp [Ref.fp_is_zero]
    rw [hz, (or_T32_mask hE).2, toZ_zero]
    exact ⟨⟨fun _ => ⟨0, by simp⟩, fun _ => rfl⟩, Or.inr rfl⟩
  · have hz : Ref.fp_is_zero a = 0 := by simp [Ref.fp_is_zero, h0]
    have hne : toZ P a ≠ 0 := fun h => h0 (toZ_eq_zero hV ha h)
    rw [hz, (or_T32_mask hE).1]
    refine ⟨?_, hE⟩
    rw [q1, l2, o2, ZMod.euler_criterion P.p hne]

theorem toZ_val_parity_neg {x : ZMod P.p} (hx : x ≠ 0) : (-x).val % 2 = 1 - x.val % 2 := by
  have h4 := hV.hp4
  have : NeZero P.p := ⟨by have := hV.hp2; omega⟩
  rw [ZMod.neg_val, if_neg hx]
  have hlt : x.val < P.p := ZMod.val_lt x
  omega

/-- **`fp_sqrt`**: for a square, the result squares to the input and its canonical representative is
    even (sign normalisation of fp.c). The parity claim holds for every input. -/
theorem fp_sqrt_spec {a : Nat} (ha : a < P.p) :
    Ref.fp_sqrt P a < P.p ∧ (toZ P (Ref.fp_sqrt P a)).val % 2 = 0 ∧
    (IsSquare (toZ P a) → toZ P (Ref.fp_sqrt P a) * toZ P (Ref.fp_sqrt P a) = toZ P a) := by
  obtain ⟨e1, e2⟩ := fp_exp3div4_spec hV ha
  obtain ⟨m1, m2⟩ := fp_mul_spec hV e1 ha
  obtain ⟨f1, f2⟩ := fp_frommont_spec hV m1
  obtain ⟨n1, n2⟩ := fp_neg_spec hV m1
  obtain ⟨sel0, sel1⟩ := fp_select_spec P (lt_trans m1 hV.hpR) (lt_trans n1 hV.hpR)
  have hW2 : ∀ t : Nat, t % W % 2 = t % 2 := by
    intro t; unfold W; omega
  -- the candidate root squares to a·a^((p-1)/2)
  have hsq : toZ P (Ref.fp_mul P (Ref.fp_exp3div4 P a) a) * toZ P (Ref.fp_mul P (Ref.fp_exp3div4 P a) a)
      = toZ P a * toZ P a ^ (P.p / 2) := by
    rw [m2, e2, half_eq hV, pow_succ, pow_add]; ring
  have hroot : IsSquare (toZ P a) →
      toZ P (Ref.fp_mul P (Ref.fp_exp3div4 P a) a) * toZ P (Ref.fp_mul P (Ref.fp_exp3div4 P a) a) = toZ P a := by
    intro hs
    rw [hsq]
    by_cases h0 : toZ P a = 0
    · rw [h0]; simp
    · rw [(ZMod.euler_criterion P.p h0).mp hs, mul_one]
  unfold Ref.fp_sqrt
  simp only []
  by_cases hodd : Ref.fp_frommont P (Ref.fp_mul P (Ref.fp_exp3div4 P a) a) % 2 = 1
  · have hm : oddMask (Ref.fp_frommont P (Ref.fp_mul P (Ref.fp_exp3div4 P a) a) % W) = T32 := by
      unfold oddMask; rw [hW2, if_pos hodd]
    rw [hm, sel1]
    refine ⟨n1, ?_, ?_⟩
    · rw [n2]
      have hx : toZ P (Ref.fp_mul P (Ref.fp_exp3div4 P a) a) ≠ 0 := by
        intro h0; rw [f2, h0] at hodd; simp at hodd
      rw [toZ_val_parity_neg hV hx, ← f2, hodd]
    · intro hs; rw [n2, neg_mul_neg]; exact hroot hs
  · have hm : oddMask (Ref.fp_frommont P (Ref.fp_mul P (Ref.fp_exp3div4 P a) a) % W) = 0 := by
      unfold oddMask; rw [hW2, if_neg hodd]
    rw [hm, sel0]
    refine ⟨m1, ?_, hroot⟩
    rw [← f2]; omega

/-- `fp_half` as coded (multiplication by `inv(2)`) halves the represented value -/
theorem fp_half_spec {a : Nat} (ha : a < P.p) :
    Ref.fp_half P a < P.p ∧ toZ P (Ref.fp_half P a) * 2 = toZ P a := by
  obtain ⟨s1, s2⟩ := fp_set_small_spec hV 2
  obtain ⟨i1, i2⟩ := fp_inv_spec hV s1
  obtain ⟨m1, m2⟩ := fp_mul_spec hV ha i1
  refine ⟨m1, ?_⟩
  unfold Ref.fp_half
  rw [m2, i2, s2]
  have h2 : ((2 % W : Nat) : ZMod P.p) = 2 := by
    have : 2 % W = 2 := by unfold W; omega
    rw [this]; rfl
  rw [h2]
  have hne : (2 : ZMod P.p) ≠ 0 := by
    intro h
    have h' : ((2 : Nat) : ZMod P.p) = 0 := by exact_mod_cast h
    rw [ZMod.natCast_eq_zero_iff] at h'
    have := Nat.le_of_dvd (by omega) h'
    have := hV.hp2; omega
  field_simp

end field

/-! ### byte encoding -/

theorem toBytes_length (k x : Nat) : (Ref.toBytes k x).length = k := by
  induction k generalizing x with
  | zero => rfl
  | succ k ih => simp [Ref.toBytes, ih]

theorem evalBytes_toBytes (k x : Nat) : Ref.evalBytes (Ref.toBytes k x) = x % 256 ^ k := by
  induction k generalizing x with
  | zero => simp [Ref.toBytes, Ref.evalBytes, Nat.mod_one]
  | succ k ih =>
    simp only [Ref.toBytes, Ref.evalBytes, ih]
    rw [pow_succ, Nat.mul_comm (256 ^ k) 256, Nat.mod_mul]

theorem toBytes_evalBytes : ∀ (bs : List Nat), (∀ b ∈ bs, b < 256) →
    Ref.toBytes bs.length (Ref.evalBytes bs) = bs := by
  intro bs
  induction bs with
  | nil => intro _; rfl
  | cons b bs ih =>
    intro h
    have hb : b < 256 := h b (by simp)
    simp only [List.length_cons, Ref.toBytes, Ref.evalBytes]
    have h1 : (b + 256 * Ref.evalBytes bs) % 256 = b := by omega
    have h2 : (b + 256 * Ref.evalBytes bs) / 256 = Ref.evalBytes bs := by omega
    rw [h1, h2, ih (fun x hx => h x (by simp [hx]))]

theorem R_eq_bytes (P : RefParams) : P.R = 256 ^ (8 * P.n) := by
  unfold RefParams.R
  rw [show (256 : Nat) = 2 ^ 8 from rfl, ← pow_mul]; congr 1; omega

section field
variable [Fact P.p.Prime] (hV : Valid P)
include hV

/-- **encode ∘ decode = id on canonical byte strings** (8n bytes, value `< p`) -/
theorem fp_encode_decode (bs : List Nat) (hlen : bs.length = 8 * P.n) (hb : ∀ b ∈ bs, b < 256)
    (hcan : Ref.evalBytes bs < P.p) : Ref.fp_encode P (Ref.fp_decode P bs) = bs := by
  have hR : Ref.evalBytes bs < P.R := lt_trans hcan hV.hpR
  unfold Ref.fp_encode Ref.fp_decode
  rw [Nat.mod_eq_of_lt hR]
  obtain ⟨t1, t2⟩ := fp_tomont_spec hV hR
  obtain ⟨_, f2⟩ := fp_frommont_spec hV t1
  rw [f2, t2, natCast_val_of_lt hcan, ← hlen]
  exact toBytes_evalBytes bs hb

/-- **decode ∘ encode = id on field elements** -/
theorem fp_decode_encode {a : Nat} (ha : a < P.p) : Ref.fp_decode P (Ref.fp_encode P a) = a := by
  obtain ⟨f1, f2⟩ := fp_frommont_spec hV ha
  have hR : Ref.fp_frommont P a < P.R := lt_trans f1 hV.hpR
  unfold Ref.fp_encode Ref.fp_decode
  rw [evalBytes_toBytes, ← R_eq_bytes, Nat.mod_eq_of_lt hR, Nat.mod_eq_of_lt hR]
  obtain ⟨t1, t2⟩ := fp_tomont_spec hV hR
  apply toZ_inj hV t1 ha
  rw [t2, f2, ZMod.natCast_zmod_val]

/-- the encoded integer is the canonical representative of the represented value -/
theorem fp_encode_val {a : Nat} (ha : a < P.p) : Ref.evalBytes (Ref.fp_encode P a) = (toZ P a).val := by
  obtain ⟨f1, f2⟩ := fp_frommont_spec hV ha
  unfold Ref.fp_encode
  rw [evalBytes_toBytes, ← R_eq_bytes, Nat.mod_eq_of_lt (lt_trans f1 hV.hpR), f2]

/-- `fp_decode` of an arbitrary `8n`-byte string reduces its value modulo `p` (no range check) -/
theorem fp_decode_reduces (bs : List Nat) (hlen : bs.length = 8 * P.n) (hb : ∀ b ∈ bs, b < 256) :
    Ref.fp_decode P bs < P.p ∧ toZ P (Ref.fp_decode P bs) = (Ref.evalBytes bs : ZMod P.p) := by
  have hR : Ref.evalBytes bs < P.R := by
    have := evalBytes_toBytes bs.length (Ref.evalBytes bs)
    rw [toBytes_evalBytes bs hb, hlen, ← R_eq_bytes] at this
    rw [this]; exact Nat.mod_lt _ (by unfold RefParams.R; positivity)
  unfold Ref.fp_decode
  rw [Nat.mod_eq_of_lt hR]
  exact fp_tomont_spec hV hR

end field
end SqiProofs.GfRef

/- The ref back-end satisfies `FpRefines`: all GF(p²) theorems of SqiProofs.GfFp2* apply to it. -/
import SqiProofs.GfRefExp
import SqiProofs.GfFp2Sqrt2

namespace SqiProofs.GfRef
open SqiModel.Gf SqiProofs.GfMont SqiProofs.GfFp2

variable {P : RefParams} [Fact P.p.Prime]

theorem ref_refines (hV : Valid P) : FpRefines (Ref.ops P) P.p (fun a => a < P.p) (toZ P) where
  p4 := hV.hp4
  zero := ⟨by have := hV.hp2; show 0 < P.p; omega, toZ_zero⟩
  one := one_spec hV
  add := fun ha hb => fp_add_spec hV ha hb
  sub := fun ha hb => fp_sub_spec hV ha hb
  neg := fun ha => fp_neg_spec hV ha
  mul := fun ha hb => fp_mul_spec hV ha hb
  sqr := fun ha => fp_sqr_spec hV ha
  half := fun ha => fp_half_spec hV ha
  inv := fun ha => fp_inv_spec hV ha
  sqrt := fun ha => fp_sqrt_spec hV ha
  isSquare := by
    intro a ha
    obtain ⟨h1, h2⟩ := fp_is_square_spec hV ha
    exact ⟨h2, fun _ => h1⟩
  isZero := by
    intro a ha
    obtain ⟨h1, h2⟩ := fp_is_zero_spec hV ha
    show (Ref.fp_is_zero a = T32 ∧ _) ∨ (Ref.fp_is_zero a = 0 ∧ _)
    by_cases h : a = 0
    · left; subst h; exact ⟨by simp [Ref.fp_is_zero], toZ_zero⟩
    · right
      have : Ref.fp_is_zero a = 0 := by simp [Ref.fp_is_zero, h]
      exact ⟨this, h2.mp this⟩
  isEqual := by
    intro a b ha hb
    obtain ⟨h1, h2⟩ := fp_is_equal_spec hV ha hb
    show (Ref.fp_is_equal a b = T32 ∧ _) ∨ (Ref.fp_is_equal a b = 0 ∧ _)
    by_cases h : a = b
    · left; subst h; exact ⟨by simp [Ref.fp_is_equal], rfl⟩
    · right
      have : Ref.fp_is_equal a b = 0 := by simp [Ref.fp_is_equal, h]
      exact ⟨this, h2.mp this⟩
  select := fun ha hb => fp_select_spec P (lt_trans ha hV.hpR) (lt_trans hb hV.hpR)
  cswap := fun ha hb => fp_cswap_spec P (lt_trans ha hV.hpR) (lt_trans hb hV.hpR)
  setSmall := by
    intro v hv
    have h := fp_set_small_spec hV v
    have : v % W = v := Nat.mod_eq_of_lt (by unfold W; omega)
    rwa [this] at h
  encode := fun ha => fp_encode_val hV ha

end SqiProofs.GfRef

import SqiModel.GfX86
namespace SqiProofs.GfX86
set_option exponentiation.threshold 4096
set_option maxRecDepth 20000
open SqiModel.Gf SqiModel.Gf.X86

/-- the three parameter sets -/
def IsLvl (P : X86Params) : Prop := P = x1 ∨ P = x3 ∨ P = x5

/-- unfold the level constants to numerals -/
macro "lvl_unfold" : tactic =>
  `(tactic| simp only [x1, x3, x5, X86Params.R, X86Params.q, X86Params.s, X86Params.topW] at *)

theorem and_neg64_le_one (K f : Nat) (hK : K < 2 ^ 64) (hf : f ≤ 1) : K &&& neg64 f = f * K := by
  have : f = 0 ∨ f = 1 := by omega
  rcases this with rfl | rfl
  · simp [neg64]
  · have : neg64 1 = 2 ^ 64 - 1 := by decide
    rw [this, Nat.and_two_pow_sub_one_eq_mod]
    omega

/-- one fold pass subtracts `q` exactly when bit `B` is set (input below `2^(B+1)`) -/
theorem fold_spec (P : X86Params) (hP : IsLvl P) (d : Nat) (hd : d < 2 ^ (P.B + 1)) :
    fold P d + d / 2 ^ P.B * P.q = d := by
  have hf : d / 2 ^ P.B ≤ 1 := by
    rw [Nat.pow_succ] at hd
    have : d / 2 ^ P.B < 2 := Nat.div_lt_of_lt_mul (by omega)
    omega
  unfold fold
  simp only
  rw [and_neg64_le_one _ _ (by rcases hP with rfl | rfl | rfl <;> decide) hf]
  rcases hP with rfl | rfl | rfl <;> lvl_unfold <;> omega

theorem add_spec (P : X86Params) (hP : IsLvl P) (a b : Nat) (ha : a < 2 ^ P.B) (hb : b < 2 ^ P.B) :
    add P a b < 2 ^ P.B ∧ add P a b % P.q = (a + b) % P.q := by
  unfold add
  have h0 : (a + b) % P.R = a + b := by
    apply Nat.mod_eq_of_lt
    rcases hP with rfl | rfl | rfl <;> lvl_unfold <;> omega
  rw [h0]
  have h1 := fold_spec P hP (a + b) (by rw [Nat.pow_succ]; omega)
  have h2 := fold_spec P hP (fold P (a + b)) (by
    rw [Nat.pow_succ]; omega)
  rcases hP with rfl | rfl | rfl <;> lvl_unfold <;> omega

theorem sub_spec (P : X86Params) (hP : IsLvl P) (a b : Nat) (ha : a < 2 ^ P.B) (hb : b < 2 ^ P.B) :
    sub P a b < 2 ^ P.B ∧ (sub P a b + b) % P.q = a % P.q := by
  unfold sub
  simp only
  have hbR : b % P.R = b := by
    apply Nat.mod_eq_of_lt
    rcases hP with rfl | rfl | rfl <;> lvl_unfold <;> omega
  rw [hbR]
  by_cases hlt : a < b
  · simp only [hlt, if_true]
    have h1 := fold_spec P hP ((((a + (P.R - b)) % P.R + (P.R - (2 + (2 ^ 64 - 2 * P.c * 2 ^ P.s) * P.topW))) % P.R)) (by
      rcases hP with rfl | rfl | rfl <;> lvl_unfold <;> omega)
    rcases hP with rfl | rfl | rfl <;> lvl_unfold <;> omega
  · simp only [hlt, if_false]
    have h1 := fold_spec P hP ((a + (P.R - b)) % P.R) (by
      rcases hP with rfl | rfl | rfl <;> lvl_unfold <;> omega)
    rcases hP with rfl | rfl | rfl <;> lvl_unfold <;> omega

theorem neg_spec (P : X86Params) (hP : IsLvl P) (a : Nat) (ha : a < 2 ^ P.B) :
    neg P a < 2 ^ P.B ∧ (neg P a + a) % P.q = 0 := by
  unfold neg
  have h1 := fold_spec P hP ((2 * P.q + (P.R - a % P.R)) % P.R) (by
    rcases hP with rfl | rfl | rfl <;> lvl_unfold <;> omega)
  rcases hP with rfl | rfl | rfl <;> lvl_unfold <;> omega


theorem half_eq (P : X86Params) (hP : IsLvl P) (a : Nat) (ha : a < 2 ^ P.B) :
    2 * half P a = a + a % 2 * P.q := by
  unfold half
  by_cases h : a % 2 = 1
  · simp only [h, if_true]
    rcases hP with rfl | rfl | rfl <;> lvl_unfold <;> omega
  · simp only [h, if_false]
    rcases hP with rfl | rfl | rfl <;> lvl_unfold <;> omega

theorem half_spec (P : X86Params) (hP : IsLvl P) (a : Nat) (ha : a < 2 ^ P.B) :
    half P a < 2 ^ P.B ∧ (2 * half P a) % P.q = a % P.q := by
  have h := half_eq P hP a ha
  refine ⟨?_, ?_⟩
  · have h2 : a % 2 ≤ 1 := by omega
    rcases hP with rfl | rfl | rfl <;> lvl_unfold <;> omega
  · rw [h, Nat.add_mul_mod_self_right]

/-- `iszero` is exact on the whole representation domain -/
theorem iszero_spec (P : X86Params) (hP : IsLvl P) (a : Nat) (ha : a < 2 ^ P.B) :
    (iszero P a = T32 ↔ a % P.q = 0) ∧ (iszero P a = T32 ∨ iszero P a = 0) := by
  unfold iszero
  have hT : T32 ≠ 0 := by decide
  by_cases h : a = 0 ∨ a = P.q
  · simp only [h, if_true, true_iff, true_or, and_true]
    rcases hP with rfl | rfl | rfl <;> lvl_unfold <;> omega
  · simp only [h, if_false, or_true, and_true]
    constructor
    · intro h0; exact absurd h0.symm hT
    · intro h0; exfalso; apply h
      rcases hP with rfl | rfl | rfl <;> lvl_unfold <;> omega

theorem equals_spec (P : X86Params) (hP : IsLvl P) (a b : Nat) (ha : a < 2 ^ P.B) (hb : b < 2 ^ P.B) :
    (equals P a b = T32 ↔ a % P.q = b % P.q) ∧ (equals P a b = T32 ∨ equals P a b = 0) := by
  unfold equals
  obtain ⟨h1, h2⟩ := sub_spec P hP a b ha hb
  obtain ⟨h3, h4⟩ := iszero_spec P hP (sub P a b) h1
  refine ⟨?_, h4⟩
  rw [h3]
  generalize sub P a b = d at *
  rcases hP with rfl | rfl | rfl <;> lvl_unfold <;> omega


/-! ### select / cswap -/

theorem replLimb_zero (n : Nat) : Ref.replLimb n 0 = 0 := by
  induction n with
  | zero => rfl
  | succ k ih => simp [Ref.replLimb, ih]

theorem replLimb_ones (P : X86Params) (hP : IsLvl P) : Ref.replLimb P.n (2 ^ 64 - 1) = P.R - 1 := by
  rcases hP with rfl | rfl | rfl <;> decide

theorem ctlWord_zero : Ref.ctlWord 0 = 0 := by decide
theorem ctlWord_T32 : Ref.ctlWord T32 = 2 ^ 64 - 1 := by decide

theorem select_zero (P : X86Params) (a0 a1 : Nat) : select P a0 a1 0 = a0 := by
  simp [select, ctlWord_zero, replLimb_zero]

theorem select_T32 (P : X86Params) (hP : IsLvl P) (a0 a1 : Nat) (h0 : a0 < P.R) (h1 : a1 < P.R) :
    select P a0 a1 T32 = a1 := by
  unfold select
  rw [ctlWord_T32, replLimb_ones P hP, Nat.and_comm]
  have hx : a0 ^^^ a1 < P.R := Nat.xor_lt_two_pow h0 h1
  unfold X86Params.R at *
  rw [Nat.and_two_pow_sub_one_eq_mod, Nat.mod_eq_of_lt hx, ← Nat.xor_assoc, Nat.xor_self, Nat.zero_xor]

theorem cswap_zero (P : X86Params) (a b : Nat) : cswap P a b 0 = (a, b) := by
  simp [cswap, ctlWord_zero, replLimb_zero]

theorem cswap_T32 (P : X86Params) (hP : IsLvl P) (a b : Nat) (h0 : a < P.R) (h1 : b < P.R) :
    cswap P a b T32 = (b, a) := by
  unfold cswap
  simp only
  rw [ctlWord_T32, replLimb_ones P hP, Nat.and_comm]
  have hx : a ^^^ b < P.R := Nat.xor_lt_two_pow h0 h1
  unfold X86Params.R at *
  rw [Nat.and_two_pow_sub_one_eq_mod, Nat.mod_eq_of_lt hx]
  congr 1
  · rw [← Nat.xor_assoc, Nat.xor_self, Nat.zero_xor]
  · rw [Nat.xor_comm a b, ← Nat.xor_assoc, Nat.xor_self, Nat.zero_xor]

/-! ### partial_reduce, set_small, normalize -/

theorem sub64_eq (a b : Nat) (ha : a < 2 ^ 64) (hb : b ≤ a) : sub64 a b = a - b := by
  unfold sub64; omega

/-- the small multiply-shift division is exact on the range of `h` that occurs (`h < 2^(64−s)`) -/
theorem smallQuo_eq (P : X86Params) (hP : IsLvl P) (h : Nat) (hh : h < 2 ^ (64 - P.s)) :
    h * P.smallMul % 2 ^ 64 / 2 ^ P.smallSh = h / P.c := by
  have h0 : h * P.smallMul % 2 ^ 64 = h * P.smallMul := by
    apply Nat.mod_eq_of_lt
    rcases hP with rfl | rfl | rfl <;> lvl_unfold <;> omega
  rw [h0]
  rcases hP with rfl | rfl | rfl <;> lvl_unfold <;> omega

theorem sub64_rem (c h : Nat) (hh : h < 2 ^ 64) : sub64 h (c * (h / c)) = h % c := by
  have h1 := Nat.div_add_mod h c
  have h2 : c * (h / c) ≤ h := Nat.mul_div_le h c
  unfold sub64
  omega

/-- any `n`-limb value is brought below `2^B` without changing its class -/
theorem partial_reduce_spec (P : X86Params) (hP : IsLvl P) (a : Nat) (ha : a < P.R) :
    partial_reduce P a < 2 ^ P.B ∧ partial_reduce P a % P.q = a % P.q := by
  unfold partial_reduce
  simp only
  have hh : a / 2 ^ P.e < 2 ^ (64 - P.s) := by
    rcases hP with rfl | rfl | rfl <;> lvl_unfold <;> omega
  have hh2 : a / 2 ^ P.e % 2 ^ 64 = a / 2 ^ P.e := by
    apply Nat.mod_eq_of_lt
    have : 2 ^ (64 - P.s) ≤ 2 ^ 64 := Nat.pow_le_pow_right (by decide) (by omega)
    omega
  rw [hh2, smallQuo_eq P hP _ hh, sub64_rem _ _ (by
    have : 2 ^ (64 - P.s) ≤ 2 ^ 64 := Nat.pow_le_pow_right (by decide) (by omega)
    omega)]
  have h1 := Nat.div_add_mod a (2 ^ P.e)
  have h2 := Nat.div_add_mod (a / 2 ^ P.e) P.c
  have h3 : a / 2 ^ P.e % P.c < P.c := Nat.mod_lt _ (by rcases hP with rfl | rfl | rfl <;> decide)
  generalize a / 2 ^ P.e % P.c = r at *
  generalize a / 2 ^ P.e / P.c = k at *
  generalize a / 2 ^ P.e = h at *
  have h4 : a % 2 ^ P.e < 2 ^ P.e := Nat.mod_lt _ (Nat.pow_pos (by decide))
  generalize a % 2 ^ P.e = lo at *
  subst h1
  have h5 : r * 2 ^ P.s % 2 ^ 64 = r * 2 ^ P.s := by
    apply Nat.mod_eq_of_lt
    rcases hP with rfl | rfl | rfl <;> lvl_unfold <;> omega
  rw [h5]
  subst h2
  have h6 : (lo + k + r * 2 ^ P.s * P.topW) % P.R = lo + k + r * 2 ^ P.s * P.topW := by
    apply Nat.mod_eq_of_lt
    rcases hP with rfl | rfl | rfl <;> lvl_unfold <;> omega
  have h7 : 2 ^ P.e * (P.c * k + r) + lo = lo + k + r * 2 ^ P.s * P.topW + k * P.q := by
    rcases hP with rfl | rfl | rfl <;> lvl_unfold <;> omega
  rw [h6, h7, Nat.add_mul_mod_self_right]
  refine ⟨?_, rfl⟩
  rcases hP with rfl | rfl | rfl <;> lvl_unfold <;> omega


/-- the 64-bit multiply-shift division by `c` is exact for every 64-bit `h` -/
theorem bigQuo_eq (P : X86Params) (hP : IsLvl P) (h : Nat) (hh : h < 2 ^ 64) : bigQuo P h = h / P.c := by
  unfold bigQuo
  have h0 : h * P.bigMul / 2 ^ 64 % 2 ^ 64 = h * P.bigMul / 2 ^ 64 := by
    apply Nat.mod_eq_of_lt
    rcases hP with rfl | rfl | rfl <;> lvl_unfold <;> omega
  rw [h0, Nat.div_div_eq_div_mul]
  rcases hP with rfl | rfl | rfl <;> lvl_unfold <;> omega

/-- `set_small x` is the Montgomery form of `x` -/
theorem set_small_spec (P : X86Params) (hP : IsLvl P) (x : Nat) :
    set_small P x < 2 ^ P.B ∧ set_small P x % P.q = (x % 2 ^ 32 * P.R) % P.q := by
  unfold set_small
  simp only
  have hx : x % 2 ^ 32 < 2 ^ 32 := Nat.mod_lt _ (by decide)
  generalize x % 2 ^ 32 = y at *
  have hh : y * 2 ^ (64 - P.s) < 2 ^ 64 := by
    rcases hP with rfl | rfl | rfl <;> lvl_unfold <;> omega
  rw [bigQuo_eq P hP _ hh, sub64_rem _ _ hh]
  have h2 := Nat.div_add_mod (y * 2 ^ (64 - P.s)) P.c
  have h3 : y * 2 ^ (64 - P.s) % P.c < P.c := Nat.mod_lt _ (by rcases hP with rfl | rfl | rfl <;> decide)
  generalize y * 2 ^ (64 - P.s) % P.c = r at *
  generalize y * 2 ^ (64 - P.s) / P.c = k at *
  have h5 : r * 2 ^ P.s % 2 ^ 64 = r * 2 ^ P.s := by
    apply Nat.mod_eq_of_lt
    rcases hP with rfl | rfl | rfl <;> lvl_unfold <;> omega
  rw [h5]
  have h7 : y * P.R = k + r * 2 ^ P.s * P.topW + k * P.q := by
    rcases hP with rfl | rfl | rfl <;> lvl_unfold <;> omega
  rw [h7, Nat.add_mul_mod_self_right]
  refine ⟨?_, rfl⟩
  rcases hP with rfl | rfl | rfl <;> lvl_unfold <;> omega

theorem normalize_spec (P : X86Params) (hP : IsLvl P) (a : Nat) (ha : a < 2 ^ P.B) :
    normalize P a < P.q ∧ normalize P a % P.q = a % P.q := by
  unfold normalize
  split
  · exact ⟨by assumption, rfl⟩
  · rcases hP with rfl | rfl | rfl <;> lvl_unfold <;> omega


/-! ### Montgomery reduction -/

/-- `montF` is multiplication by `m = q + 2 = c·2^e + 1` modulo `R` -/
theorem montF_eq (P : X86Params) (hP : IsLvl P) (x : Nat) : montF P x = x * (P.q + 2) % P.R := by
  unfold montF
  rcases hP with rfl | rfl | rfl <;> lvl_unfold <;> omega

/-- `m = −1/q mod R`: `x + (x·m mod R)·q` is a multiple of `R` -/
theorem mont_dvd (P : X86Params) (hP : IsLvl P) (x : Nat) : (x + montF P x * P.q) % P.R = 0 := by
  rw [montF_eq P hP]
  rcases hP with rfl | rfl | rfl <;> lvl_unfold <;> omega

theorem montF_lt (P : X86Params) (hP : IsLvl P) (x : Nat) : montF P x < P.R := by
  rw [montF_eq P hP]
  exact Nat.mod_lt _ (by rcases hP with rfl | rfl | rfl <;> decide)

/-- `montgomery_reduce`: canonical result (`q ↦ 0`) representing `x / R` -/
theorem montgomery_reduce_spec (P : X86Params) (hP : IsLvl P) (x : Nat) (hx : x < P.R) :
    montgomery_reduce P x < P.q ∧ (montgomery_reduce P x * P.R) % P.q = x % P.q := by
  unfold montgomery_reduce
  simp only
  have h1 := mont_dvd P hP x
  have h2 := montF_lt P hP x
  generalize montF P x = f at *
  have h3 := Nat.div_add_mod (x + f * P.q) P.R
  rw [h1, Nat.add_zero] at h3
  generalize (x + f * P.q) / P.R = h at *
  have h4 : h ≤ P.q := by
    rcases hP with rfl | rfl | rfl <;> lvl_unfold <;> omega
  have h5 : h % P.R = h := by
    apply Nat.mod_eq_of_lt
    rcases hP with rfl | rfl | rfl <;> lvl_unfold <;> omega
  rw [h5]
  have h6 : (h * P.R) % P.q = x % P.q := by
    rw [Nat.mul_comm, h3, Nat.add_mul_mod_self_right]
  split
  · rename_i hq
    subst hq
    refine ⟨by rcases hP with rfl | rfl | rfl <;> decide, ?_⟩
    rw [← h6, Nat.zero_mul]
    rw [Nat.mul_mod, Nat.mod_self, Nat.zero_mul]
  · exact ⟨by omega, h6⟩

/-- `encode` returns the canonical integer `a·R⁻¹ mod q` -/
theorem encode_spec (P : X86Params) (hP : IsLvl P) (a : Nat) (ha : a < P.R) :
    encode P a < P.q ∧ (encode P a * P.R) % P.q = a % P.q :=
  montgomery_reduce_spec P hP a ha


/-! ### multiplication -/

/-- the Montgomery reduction step of `mul`/`square` on any integer `e < 2^(2B)` -/
theorem montMulRed_spec (P : X86Params) (hP : IsLvl P) (e : Nat) (he : e < 2 ^ (2 * P.B)) :
    montMulRed P e < 2 ^ P.B ∧ (montMulRed P e * P.R) % P.q = e % P.q := by
  unfold montMulRed
  simp only
  have h1 := mont_dvd P hP e
  have h2 := montF_lt P hP e
  generalize montF P e = f at *
  have h0 : (e + f * P.q) % (P.R * P.R) = e + f * P.q := by
    apply Nat.mod_eq_of_lt
    rcases hP with rfl | rfl | rfl <;> lvl_unfold <;> omega
  rw [h0]
  have h3 := Nat.div_add_mod (e + f * P.q) P.R
  rw [h1, Nat.add_zero] at h3
  generalize (e + f * P.q) / P.R = r at *
  have h6 : (r * P.R) % P.q = e % P.q := by
    rw [Nat.mul_comm, h3, Nat.add_mul_mod_self_right]
  split
  · -- lvl3: final partial_reduce
    have hr : r < P.R := by
      rcases hP with rfl | rfl | rfl <;> lvl_unfold <;> omega
    obtain ⟨p1, p2⟩ := partial_reduce_spec P hP r hr
    refine ⟨p1, ?_⟩
    rw [Nat.mul_mod, p2, ← Nat.mul_mod, h6]
  · rename_i hm
    refine ⟨?_, h6⟩
    rcases hP with rfl | rfl | rfl <;> lvl_unfold <;> first | omega | exact absurd trivial hm

theorem mul_spec (P : X86Params) (hP : IsLvl P) (a b : Nat) (ha : a < 2 ^ P.B) (hb : b < 2 ^ P.B) :
    mul P a b < 2 ^ P.B ∧ (mul P a b * P.R) % P.q = (a * b) % P.q := by
  unfold mul
  apply montMulRed_spec P hP
  rw [Nat.two_mul, Nat.pow_add]
  exact Nat.mul_lt_mul'' ha hb

/-- lvl1 `square` (no carry is dropped there: the integer square is exact) -/
theorem square_spec_x1 (a : Nat) (ha : a < 2 ^ x1.B) :
    square x1 a < 2 ^ x1.B ∧ (square x1 a * x1.R) % x1.q = (a * a) % x1.q :=
  mul_spec x1 (Or.inl rfl) a a ha ha


/-! ### cancelling `R`, decode -/

/-- `R⁻¹ mod q = c²·2^(2e−64n)`: `R·R⁻¹ = (q+1)² = 1 + q·(q+2)` -/
theorem R_inv (P : X86Params) (hP : IsLvl P) :
    P.R * (P.c * P.c * 2 ^ (2 * P.e - 64 * P.n)) = 1 + P.q * (P.q + 2) := by
  rcases hP with rfl | rfl | rfl <;> decide

theorem R_cancel (P : X86Params) (hP : IsLvl P) (x y : Nat) (h : (x * P.R) % P.q = (y * P.R) % P.q) :
    x % P.q = y % P.q := by
  have key : ∀ z : Nat, z % P.q = ((z * P.R) % P.q * (P.c * P.c * 2 ^ (2 * P.e - 64 * P.n))) % P.q := by
    intro z
    rw [Nat.mod_mul_mod, Nat.mul_assoc, R_inv P hP, Nat.mul_add, Nat.mul_one, ← Nat.mul_assoc,
      Nat.mul_comm z P.q, Nat.mul_assoc, Nat.add_mul_mod_self_left]
  rw [key x, key y, h]

theorem r2_eq (P : X86Params) (hP : IsLvl P) : P.r2 < 2 ^ P.B ∧ P.r2 % P.q = (P.R * P.R) % P.q := by
  rcases hP with rfl | rfl | rfl <;> decide

theorem one_eq (P : X86Params) (hP : IsLvl P) : P.one < 2 ^ P.B ∧ P.one % P.q = P.R % P.q := by
  rcases hP with rfl | rfl | rfl <;> decide

/-- multiplying by `R2` converts to Montgomery form -/
theorem mul_r2 (P : X86Params) (hP : IsLvl P) (v : Nat) (hv : v < 2 ^ P.B) :
    mul P v P.r2 < 2 ^ P.B ∧ mul P v P.r2 % P.q = (v * P.R) % P.q := by
  obtain ⟨h1, h2⟩ := r2_eq P hP
  obtain ⟨h3, h4⟩ := mul_spec P hP v P.r2 hv h1
  refine ⟨h3, ?_⟩
  apply R_cancel P hP
  rw [h4, Nat.mul_mod, h2, ← Nat.mul_mod, Nat.mul_assoc]

/-- `decode`: canonical input `v < q` is accepted and converted to Montgomery form; any other 8n-byte
    value is rejected (flag 0, value represents zero) -/
theorem decode_spec (P : X86Params) (hP : IsLvl P) (v : Nat) (hv : v < P.R) :
    (v < P.q → (decode P v).2 = T32 ∧ (decode P v).1 < 2 ^ P.B ∧ (decode P v).1 % P.q = (v * P.R) % P.q) ∧
    (P.q ≤ v → (decode P v).2 = 0 ∧ (decode P v).1 < 2 ^ P.B ∧ (decode P v).1 % P.q = 0) := by
  unfold decode
  simp only [Nat.mod_eq_of_lt hv]
  have hqB : P.q < 2 ^ P.B := by rcases hP with rfl | rfl | rfl <;> decide
  constructor
  · intro h
    simp only [h, if_true]
    have := mul_r2 P hP v (by omega)
    exact ⟨by decide, this.1, this.2⟩
  · intro h
    have h' : ¬ v < P.q := by omega
    simp only [h', if_false]
    have := mul_r2 P hP 0 (Nat.pow_pos (by decide))
    refine ⟨by decide, this.1, ?_⟩
    rw [this.2, Nat.zero_mul, Nat.zero_mod]


/-! ### mul_small (after the repair 2ef264b: the fold chain starts with a clear carry)

HISTORY: before the repair the stale carry of the product chain entered the fold chain and the result was
`a·x + 1` on e.g. `a = (2^32+1)·2^(64(n−1)) + (2^64−1)·2^(64(n−2))`, `x = 2^32−1` (kept in corpus/C07). -/

theorem mul_small_spec (P : X86Params) (hP : IsLvl P) (a x : Nat) (ha : a < 2 ^ P.B) (hx : x < 2 ^ 32) :
    mul_small P a x < 2 ^ P.B ∧ mul_small P a x % P.q = (a * x) % P.q := by
  unfold mul_small
  simp only [Nat.mod_eq_of_lt hx]
  have hDlt : a * x < 2 ^ (P.B + 32) := by
    rw [Nat.pow_add]; exact Nat.mul_lt_mul'' ha hx
  generalize a * x = D at *
  have hh : D / 2 ^ P.e < 2 ^ 64 := by
    rcases hP with rfl | rfl | rfl <;> lvl_unfold <;> omega
  rw [Nat.mod_eq_of_lt hh, bigQuo_eq P hP _ hh, sub64_rem _ _ hh]
  have h1 := Nat.div_add_mod D (2 ^ P.e)
  have h2 := Nat.div_add_mod (D / 2 ^ P.e) P.c
  have h3 : D / 2 ^ P.e % P.c < P.c := Nat.mod_lt _ (by rcases hP with rfl | rfl | rfl <;> decide)
  have h4 : D % 2 ^ P.e < 2 ^ P.e := Nat.mod_lt _ (Nat.pow_pos (by decide))
  have hk : D / 2 ^ P.e / P.c < 2 ^ 40 := by
    rcases hP with rfl | rfl | rfl <;> lvl_unfold <;> omega
  generalize D / 2 ^ P.e % P.c = r at *
  generalize D / 2 ^ P.e / P.c = k at *
  generalize D / 2 ^ P.e = h at *
  generalize D % 2 ^ P.e = l at *
  subst h1 h2
  have h5 : r * 2 ^ P.s % 2 ^ 64 = r * 2 ^ P.s := by
    apply Nat.mod_eq_of_lt
    rcases hP with rfl | rfl | rfl <;> lvl_unfold <;> omega
  rw [h5]
  have h6 : (l + k + r * 2 ^ P.s * P.topW) % P.R = l + k + r * 2 ^ P.s * P.topW := by
    apply Nat.mod_eq_of_lt
    rcases hP with rfl | rfl | rfl <;> lvl_unfold <;> omega
  have h7 : 2 ^ P.e * (P.c * k + r) + l = l + k + r * 2 ^ P.s * P.topW + k * P.q := by
    rcases hP with rfl | rfl | rfl <;> lvl_unfold <;> omega
  rw [h6, h7, Nat.add_mul_mod_self_right]
  refine ⟨?_, rfl⟩
  rcases hP with rfl | rfl | rfl <;> lvl_unfold <;> omega


/-! ### square (after the repair 82bdea1 every carry chain of the cross products runs to the top limb: the integer
square is exact at the three levels and `square a = mul a a` at value level)

HISTORY: before the repair `gf65376_square` / `gf27500_square` dropped a carry (witnesses `2^383 − 2`, `2^505 − 304`,
raw `p − 3`, …; kept in corpus/C07 and corpus/C06, chains recorded as `x3SqProgPreFix`, `x5SqProgPreFix`). -/

theorem square_spec (P : X86Params) (hP : IsLvl P) (a : Nat) (ha : a < 2 ^ P.B) :
    square P a < 2 ^ P.B ∧ (square P a * P.R) % P.q = (a * a) % P.q := by
  rcases hP with rfl | rfl | rfl
  · exact mul_spec x1 (Or.inl rfl) a a ha ha
  · exact mul_spec x3 (Or.inr (Or.inl rfl)) a a ha ha
  · exact mul_spec x5 (Or.inr (Or.inr rfl)) a a ha ha

/-- what the theorems downstream of `square` (xsquare, sqrt) use -/
def SquareOK (P : X86Params) : Prop :=
  ∀ a, a < 2 ^ P.B → square P a < 2 ^ P.B ∧ (square P a * P.R) % P.q = (a * a) % P.q

theorem squareOK (P : X86Params) (hP : IsLvl P) : SquareOK P := square_spec P hP


/-! ### xsquare, sqrt (structural facts) -/

theorem xsquare_lt (P : X86Params) (hsq : SquareOK P) (k : Nat) :
    ∀ a, a < 2 ^ P.B → xsquare P a k < 2 ^ P.B := by
  induction k with
  | zero => intro a ha; exact ha
  | succ k ih => intro a ha; exact ih _ (hsq a ha).1

/-- `sqrt`: the returned value is in range, its canonical (non-Montgomery) value `encode` is even, and the
    flag is exactly "the square of the returned value represents `a`".
    (That the candidate `a^((q+1)/4)` is a root whenever `a` is a square is number theory on top of this.) -/
theorem sqrt_spec (P : X86Params) (hP : IsLvl P) (hsq : SquareOK P) (a : Nat) (ha : a < 2 ^ P.B) :
    (sqrt P a).1 < 2 ^ P.B ∧ encode P (sqrt P a).1 % 2 = 0 ∧
    ((sqrt P a).2 = T32 ↔ square P (sqrt P a).1 % P.q = a % P.q) ∧
    ((sqrt P a).2 = T32 ∨ (sqrt P a).2 = 0) := by
  unfold sqrt
  simp only
  have hBR : 2 ^ P.B < P.R := by rcases hP with rfl | rfl | rfl <;> decide
  have hy0 : (if P.sqCube then mul P (square P a) a else a) < 2 ^ P.B := by
    split
    · exact (mul_spec P hP _ _ (hsq a ha).1 ha).1
    · exact ha
  generalize (if P.sqCube then mul P (square P a) a else a) = y0 at *
  have hy1 : mul P (xsquare P y0 P.sqK1) y0 < 2 ^ P.B :=
    (mul_spec P hP _ _ (xsquare_lt P hsq _ _ hy0) hy0).1
  generalize mul P (xsquare P y0 P.sqK1) y0 = y1 at *
  have hy : xsquare P y1 P.sqK2 < 2 ^ P.B := xsquare_lt P hsq _ _ hy1
  generalize xsquare P y1 P.sqK2 = y at *
  -- the selected value
  have hsel : ∃ r, select P y (neg P y) (if montgomery_reduce P y % 2 = 1 then T32 else 0) = r ∧
      r < 2 ^ P.B ∧ encode P r % 2 = 0 := by
    have hn := neg_spec P hP y hy
    have m1 := montgomery_reduce_spec P hP y (by omega)
    have m2 := montgomery_reduce_spec P hP (neg P y) (by omega)
    by_cases hodd : montgomery_reduce P y % 2 = 1
    · rw [if_pos hodd, select_T32 P hP _ _ (by omega) (by omega)]
      refine ⟨_, rfl, hn.1, ?_⟩
      unfold encode
      have hsum : ((montgomery_reduce P (neg P y) + montgomery_reduce P y) * P.R) % P.q = (0 * P.R) % P.q := by
        rw [Nat.add_mul, Nat.add_mod, m1.2, m2.2, ← Nat.add_mod, hn.2, Nat.zero_mul, Nat.zero_mod]
      have hc := R_cancel P hP _ _ hsum
      have hq2 : P.q % 2 = 1 := by rcases hP with rfl | rfl | rfl <;> decide
      rw [Nat.zero_mod] at hc
      generalize montgomery_reduce P (neg P y) = m at *
      generalize montgomery_reduce P y = m' at *
      have h3 : m + m' = P.q := by
        obtain ⟨c, hc'⟩ := Nat.dvd_of_mod_eq_zero hc
        have : c = 1 := by
          have h4 : m + m' < 2 * P.q := by omega
          have h5 : 0 < m + m' := by omega
          rcases c with _ | _ | c
          · omega
          · rfl
          · rw [hc'] at h4
            have : P.q * 2 ≤ P.q * (c + 1 + 1) := Nat.mul_le_mul_left _ (by omega)
            omega
        rw [hc', this, Nat.mul_one]
      omega
    · rw [if_neg hodd, select_zero]
      refine ⟨_, rfl, hy, ?_⟩
      unfold encode; omega
  obtain ⟨r, hr, hrlt, hrev⟩ := hsel
  rw [hr]
  have he := equals_spec P hP (square P r) a (hsq r hrlt).1 ha
  exact ⟨hrlt, hrev, he.1, he.2⟩

/-- `sqrt` at every level (no side hypothesis since `squareOK`) -/
theorem sqrt_spec_all (P : X86Params) (hP : IsLvl P) (a : Nat) (ha : a < 2 ^ P.B) :
    (sqrt P a).1 < 2 ^ P.B ∧ encode P (sqrt P a).1 % 2 = 0 ∧
    ((sqrt P a).2 = T32 ↔ square P (sqrt P a).1 % P.q = a % P.q) ∧
    ((sqrt P a).2 = T32 ∨ (sqrt P a).2 = 0) :=
  sqrt_spec P hP (squareOK P hP) a ha


/-! ### non-vacuity: concrete operands meeting the hypotheses, results recomputed by the kernel -/

example : IsLvl x1 ∧ IsLvl x3 ∧ IsLvl x5 := ⟨Or.inl rfl, Or.inr (Or.inl rfl), Or.inr (Or.inr rfl)⟩
/-- operands `≥ q` (only partially reduced) are in the domain of the additive theorems -/
example : x1.q + 5 < 2 ^ x1.B ∧ 2 ^ x1.B - 1 < 2 ^ x1.B ∧
    add x1 (x1.q + 5) (2 ^ x1.B - 1) % x1.q = (x1.q + 5 + (2 ^ x1.B - 1)) % x1.q := by decide
example : sub x3 3 (x3.q + 7) < 2 ^ x3.B ∧ (sub x3 3 (x3.q + 7) + (x3.q + 7)) % x3.q = 3 % x3.q := by decide
example : iszero x5 x5.q = T32 ∧ iszero x5 0 = T32 ∧ iszero x5 1 = 0 := by decide
example : (decode x1 5).2 = T32 ∧ (decode x1 x1.q).2 = 0 ∧ (decode x1 x1.q).1 = 0 := by decide
example : montgomery_reduce x1 x1.one = 1 ∧ montgomery_reduce x3 x3.one = 1 ∧ montgomery_reduce x5 x5.one = 1 := by
  decide
example : mul x1 x1.one x1.one % x1.q = x1.one % x1.q := by decide
example : (sqrt x1 (set_small x1 4)).2 = T32 ∧ encode x1 (sqrt x1 (set_small x1 4)).1 = 2 := by decide +kernel

end SqiProofs.GfX86

import SqiModel.GfX86
namespace SqiProofs.GfX86
set_option exponentiation.threshold 4096
open SqiModel.Gf SqiModel.Gf.X86

/-- the three parameter sets -/
def IsLvl (P : X86Params) : Prop := P = x1 ∨ P = x3 ∨ P = x5

/-- unfold the level constants to numerals -/
macro "lvl_unfold" : tactic =>
  `(tactic| simp only [x1, x3, x5, X86Params.R, X86Params.q, X86Params.s, X86Params.topW] at *)

theorem and_neg64_le_one (K f : Nat) (hK : K < 2 ^ 64) (hf : f ≤ 1) : K &&& neg64 f = f * K := by
  have : f = 0 ∨ f = 1 := by omega
  rcases this with rfl | rfl
  · simp [neg64]
  · have : neg64 1 = 2 ^ 64 - 1 := by decide
    rw [this, Nat.and_two_pow_sub_one_eq_mod]
    omega

/-- one fold pass subtracts `q` exactly when bit `B` is set (input below `2^(B+1)`) -/
theorem fold_spec (P : X86Params) (hP : IsLvl P) (d : Nat) (hd : d < 2 ^ (P.B + 1)) :
    fold P d + d / 2 ^ P.B * P.q = d := by
  have hf : d / 2 ^ P.B ≤ 1 := by
    rw [Nat.pow_succ] at hd
    have : d / 2 ^ P.B < 2 := Nat.div_lt_of_lt_mul (by omega)
    omega
  unfold fold
  simp only
  rw [and_neg64_le_one _ _ (by rcases hP with rfl | rfl | rfl <;> decide) hf]
  rcases hP with rfl | rfl | rfl <;> lvl_unfold <;> omega

theorem add_spec (P : X86Params) (hP : IsLvl P) (a b : Nat) (ha : a < 2 ^ P.B) (hb : b < 2 ^ P.B) :
    add P a b < 2 ^ P.B ∧ add P a b % P.q = (a + b) % P.q := by
  unfold add
  have h0 : (a + b) % P.R = a + b := by
    apply Nat.mod_eq_of_lt
    rcases hP with rfl | rfl | rfl <;> lvl_unfold <;> omega
  rw [h0]
  have h1 := fold_spec P hP (a + b) (by rw [Nat.pow_succ]; omega)
  have h2 := fold_spec P hP (fold P (a + b)) (by
    rw [Nat.pow_succ]; omega)
  rcases hP with rfl | rfl | rfl <;> lvl_unfold <;> omega

theorem sub_spec (P : X86Params) (hP : IsLvl P) (a b : Nat) (ha : a < 2 ^ P.B) (hb : b < 2 ^ P.B) :
    sub P a b < 2 ^ P.B ∧ (sub P a b + b) % P.q = a % P.q := by
  unfold sub
  simp only
  have hbR : b % P.R = b := by
    apply Nat.mod_eq_of_lt
    rcases hP with rfl | rfl | rfl <;> lvl_unfold <;> omega
  rw [hbR]
  by_cases hlt : a < b
  · simp only [hlt, if_true]
    have h1 := fold_spec P hP ((((a + (P.R - b)) % P.R + (P.R - (2 + (2 ^ 64 - 2 * P.c * 2 ^ P.s) * P.topW))) % P.R)) (by
      rcases hP with rfl | rfl | rfl <;> lvl_unfold <;> omega)
    rcases hP with rfl | rfl | rfl <;> lvl_unfold <;> omega
  · simp only [hlt, if_false]
    have h1 := fold_spec P hP ((a + (P.R - b)) % P.R) (by
      rcases hP with rfl | rfl | rfl <;> lvl_unfold <;> omega)
    rcases hP with rfl | rfl | rfl <;> lvl_unfold <;> omega

theorem neg_spec (P : X86Params) (hP : IsLvl P) (a : Nat) (ha : a < 2 ^ P.B) :
    neg P a < 2 ^ P.B ∧ (neg P a + a) % P.q = 0 := by
  unfold neg
  have h1 := fold_spec P hP ((2 * P.q + (P.R - a % P.R)) % P.R) (by
    rcases hP with rfl | rfl | rfl <;> lvl_unfold <;> omega)
  rcases hP with rfl | rfl | rfl <;> lvl_unfold <;> omega


theorem half_eq (P : X86Params) (hP : IsLvl P) (a : Nat) (ha : a < 2 ^ P.B) :
    2 * half P a = a + a % 2 * P.q := by
  unfold half
  by_cases h : a % 2 = 1
  · simp only [h, if_true]
    rcases hP with rfl | rfl | rfl <;> lvl_unfold <;> omega
  · simp only [h, if_false]
    rcases hP with rfl | rfl | rfl <;> lvl_unfold <;> omega

theorem half_spec (P : X86Params) (hP : IsLvl P) (a : Nat) (ha : a < 2 ^ P.B) :
    half P a < 2 ^ P.B ∧ (2 * half P a) % P.q = a % P.q := by
  have h := half_eq P hP a ha
  refine ⟨?_, ?_⟩
  · have h2 : a % 2 ≤ 1 := by omega
    rcases hP with rfl | rfl | rfl <;> lvl_unfold <;> omega
  · rw [h, Nat.add_mul_mod_self_right]

/-- `iszero` is exact on the whole representation domain -/
theorem iszero_spec (P : X86Params) (hP : IsLvl P) (a : Nat) (ha : a < 2 ^ P.B) :
    (iszero P a = T32 ↔ a % P.q = 0) ∧ (iszero P a = T32 ∨ iszero P a = 0) := by
  unfold iszero
  have hT : T32 ≠ 0 := by decide
  by_cases h : a = 0 ∨ a = P.q
  · simp only [h, if_true, true_iff, true_or, and_true]
    rcases hP with rfl | rfl | rfl <;> lvl_unfold <;> omega
  · simp only [h, if_false, or_true, and_true]
    constructor
    · intro h0; exact absurd h0.symm hT
    · intro h0; exfalso; apply h
      rcases hP with rfl | rfl | rfl <;> lvl_unfold <;> omega

theorem equals_spec (P : X86Params) (hP : IsLvl P) (a b : Nat) (ha : a < 2 ^ P.B) (hb : b < 2 ^ P.B) :
    (equals P a b = T32 ↔ a % P.q = b % P.q) ∧ (equals P a b = T32 ∨ equals P a b = 0) := by
  unfold equals
  obtain ⟨h1, h2⟩ := sub_spec P hP a b ha hb
  obtain ⟨h3, h4⟩ := iszero_spec P hP (sub P a b) h1
  refine ⟨?_, h4⟩
  rw [h3]
  generalize sub P a b = d at *
  rcases hP with rfl | rfl | rfl <;> lvl_unfold <;> omega

end SqiProofs.GfX86

/-
x86 back-end, binary GCD: the packed 31-step inner loop of `gfXXXX_div` (`innerLoop 31` on the 64-bit approximations,
coefficients packed as `f + g·2^32` in one uint64_t) produces update coefficients satisfying `CoeffsOK` — bounded by 2^31,
both combinations of the FULL-WIDTH `a, b` divisible by 2^31 — whenever `b` is odd.  (This was the cited part of
`divOuterStep_invariant`.)  Invariant after `i` steps, with `(f0,g0)`, `(f1,g1)` the unpacked integer coefficients:
  packed words ≡ f + g·2^32 (mod 2^64),  −2^i < f, g ≤ 2^i,  xa₀·f0 + xb₀·g0 = 2^i·xa,  xa₀·f1 + xb₀·g1 = 2^i·xb,  xb odd.
-/
import Mathlib.Tactic.LinearCombination
import Mathlib.Tactic.Ring
import SqiProofs.GfX86Inv
namespace SqiProofs.GfX86
set_option exponentiation.threshold 4096
set_option maxRecDepth 20000
open SqiModel.Gf SqiModel.Gf.X86

structure InnerInv (x1 x2 : Nat) (B : Int) (s : Inner) (f0 g0 f1 g1 : Int) : Prop where
  hfg0 : s.fg0 < 2 ^ 64
  hfg1 : s.fg1 < 2 ^ 64
  p0 : ((s.fg0 : Int) - (f0 + g0 * 2 ^ 32)) % 2 ^ 64 = 0
  p1 : ((s.fg1 : Int) - (f1 + g1 * 2 ^ 32)) % 2 ^ 64 = 0
  bf0 : -B < f0 ∧ f0 ≤ B
  bg0 : -B < g0 ∧ g0 ≤ B
  bf1 : -B < f1 ∧ f1 ≤ B
  bg1 : -B < g1 ∧ g1 ≤ B
  e0 : (x1 : Int) * f0 + x2 * g0 = B * s.xa
  e1 : (x1 : Int) * f1 + x2 * g1 = B * s.xb
  odd : s.xb % 2 = 1
  ha : s.xa < 2 ^ 64
  hb : s.xb < 2 ^ 64

theorem innerStep_swap (s : Inner) (h1 : s.xa % 2 = 1) (h2 : s.xa < s.xb) :
    innerStep s = ⟨sub64 s.xb s.xa / 2, s.xa, sub64 s.fg1 s.fg0, s.fg0 * 2 % 2 ^ 64⟩ := by
  simp [innerStep, h1, h2]

theorem innerStep_odd (s : Inner) (h1 : s.xa % 2 = 1) (h2 : ¬ s.xa < s.xb) :
    innerStep s = ⟨sub64 s.xa s.xb / 2, s.xb, sub64 s.fg0 s.fg1, s.fg1 * 2 % 2 ^ 64⟩ := by
  simp [innerStep, h1, h2]

theorem innerStep_even (s : Inner) (h1 : ¬ s.xa % 2 = 1) :
    innerStep s = ⟨s.xa / 2, s.xb, s.fg0, s.fg1 * 2 % 2 ^ 64⟩ := by
  simp [innerStep, h1]

theorem innerStep_inv (x1 x2 : Nat) (B : Int) (s : Inner) (f0 g0 f1 g1 : Int)
    (h : InnerInv x1 x2 B s f0 g0 f1 g1) :
    ∃ f0' g0' f1' g1', InnerInv x1 x2 (2 * B) (innerStep s) f0' g0' f1' g1' := by
  obtain ⟨hfg0, hfg1, p0, p1, bf0, bg0, bf1, bg1, e0, e1, odd, ha, hb⟩ := h
  by_cases h1 : s.xa % 2 = 1
  · by_cases h2 : s.xa < s.xb
    · rw [innerStep_swap s h1 h2]
      have hd : ((sub64 s.xb s.xa / 2 : Nat) : Int) * 2 = (s.xb : Int) - s.xa := by unfold sub64; omega
      refine ⟨f1 - f0, g1 - g0, 2 * f0, 2 * g0, ?_⟩
      refine ⟨?_, ?_, ?_, ?_, ?_, ?_, ?_, ?_, ?_, ?_, h1, ?_, ha⟩
      · dsimp only
        unfold sub64; omega
      · dsimp only
        omega
      · dsimp only
        unfold sub64; omega
      · dsimp only
        omega
      · omega
      · omega
      · omega
      · omega
      · dsimp only
        linear_combination e1 - e0 - B * hd
      · dsimp only
        linear_combination 2 * e0
      · dsimp only
        unfold sub64; omega
    · rw [innerStep_odd s h1 h2]
      have hd : ((sub64 s.xa s.xb / 2 : Nat) : Int) * 2 = (s.xa : Int) - s.xb := by unfold sub64; omega
      refine ⟨f0 - f1, g0 - g1, 2 * f1, 2 * g1, ?_⟩
      refine ⟨?_, ?_, ?_, ?_, ?_, ?_, ?_, ?_, ?_, ?_, odd, ?_, hb⟩
      · dsimp only
        unfold sub64; omega
      · dsimp only
        omega
      · dsimp only
        unfold sub64; omega
      · dsimp only
        omega
      · omega
      · omega
      · omega
      · omega
      · dsimp only
        linear_combination e0 - e1 - B * hd
      · dsimp only
        linear_combination 2 * e1
      · dsimp only
        unfold sub64; omega
  · rw [innerStep_even s h1]
    have hd : ((s.xa / 2 : Nat) : Int) * 2 = (s.xa : Int) := by omega
    refine ⟨f0, g0, 2 * f1, 2 * g1, ?_⟩
    refine ⟨hfg0, ?_, p0, ?_, ?_, ?_, ?_, ?_, ?_, ?_, odd, ?_, hb⟩
    · dsimp only
      omega
    · dsimp only
      omega
    · omega
    · omega
    · omega
    · omega
    · dsimp only
      linear_combination e0 - B * hd
    · dsimp only
      linear_combination 2 * e1
    · dsimp only
      omega

theorem innerLoop_inv (x1 x2 : Nat) (k : Nat) : ∀ (B : Int) (s : Inner) (f0 g0 f1 g1 : Int),
    InnerInv x1 x2 B s f0 g0 f1 g1 →
    ∃ f0' g0' f1' g1', InnerInv x1 x2 (2 ^ k * B) (innerLoop k s) f0' g0' f1' g1' := by
  induction k with
  | zero => intro B s f0 g0 f1 g1 h; exact ⟨f0, g0, f1, g1, by simpa [innerLoop] using h⟩
  | succ k ih =>
    intro B s f0 g0 f1 g1 h
    obtain ⟨a, b, c, d, h'⟩ := innerStep_inv x1 x2 B s f0 g0 f1 g1 h
    obtain ⟨a', b', c', d', h''⟩ := ih (2 * B) (innerStep s) a b c d h'
    refine ⟨a', b', c', d', ?_⟩
    have e : (2 : Int) ^ (k + 1) * B = 2 ^ k * (2 * B) := by ring
    rw [e]; exact h''

/-- unpacking a packed coefficient pair in the range `(−2^31, 2^31]` -/
theorem unpack_spec (fg : Nat) (f g : Int) (hfg : fg < 2 ^ 64) (h : ((fg : Int) - (f + g * 2 ^ 32)) % 2 ^ 64 = 0)
    (bf : -2 ^ 31 < f ∧ f ≤ 2 ^ 31) (bg : -2 ^ 31 < g ∧ g ≤ 2 ^ 31) :
    toInt64 (unpack fg).1 = f ∧ toInt64 (unpack fg).2 = g ∧ abs64 (unpack fg).1 ≤ 2 ^ 31 ∧ abs64 (unpack fg).2 ≤ 2 ^ 31 := by
  unfold unpack toInt64 abs64 neg64 sub64
  simp only []
  refine ⟨?_, ?_, ?_, ?_⟩ <;> split <;> omega

theorem low31 (l T : Nat) : ((l &&& 0x7FFFFFFF) ||| (T &&& 0xFFFFFFFF80000000)) % 2 ^ 31 = l % 2 ^ 31 := by
  rw [Nat.or_mod_two_pow, Nat.and_mod_two_pow, Nat.and_mod_two_pow]
  have h1 : 0x7FFFFFFF % 2 ^ 31 = 2 ^ 31 - 1 := by decide
  have h2 : 0xFFFFFFFF80000000 % 2 ^ 31 = 0 := by decide
  rw [h1, h2, Nat.and_zero, Nat.or_zero, Nat.and_two_pow_sub_one_eq_mod, Nat.mod_mod]

theorem low31_lt (l T : Nat) : ((l &&& 0x7FFFFFFF) ||| (T &&& 0xFFFFFFFF80000000)) < 2 ^ 64 :=
  Nat.or_lt_two_pow (Nat.and_lt_two_pow _ (by decide)) (Nat.and_lt_two_pow _ (by decide))

theorem approx_spec (P : X86Params) (a b : Nat) :
    (approx P a b).1 % 2 ^ 31 = a % 2 ^ 31 ∧ (approx P a b).2 % 2 ^ 31 = b % 2 ^ 31 ∧
    (approx P a b).1 < 2 ^ 64 ∧ (approx P a b).2 < 2 ^ 64 := by
  have la : limb a 0 % 2 ^ 31 = a % 2 ^ 31 := by unfold limb; omega
  have lb : limb b 0 % 2 ^ 31 = b % 2 ^ 31 := by unfold limb; omega
  unfold approx
  simp only []
  exact ⟨(low31 _ _).trans la, (low31 _ _).trans lb, low31_lt _ _, low31_lt _ _⟩

/-- **the inner loop's coefficients satisfy `CoeffsOK`** for every state with `b` odd (no citation) -/
theorem coeffsOK_of_odd (P : X86Params) (st : DivSt) (hb : st.b % 2 = 1) : CoeffsOK st (outerCoeffs P st) := by
  obtain ⟨m1, m2, l1, l2⟩ := approx_spec P st.a st.b
  have init : InnerInv (approx P st.a st.b).1 (approx P st.a st.b).2 1 ⟨(approx P st.a st.b).1, (approx P st.a st.b).2, 1, 2 ^ 32⟩ 1 0 0 1 := by
    refine ⟨by norm_num, by norm_num, by norm_num, by norm_num, by omega, by omega, by omega, by omega, by simp, by simp, ?_, l1, l2⟩
    show (approx P st.a st.b).2 % 2 = 1
    omega
  obtain ⟨f0, g0, f1, g1, h⟩ := innerLoop_inv _ _ 31 1 _ 1 0 0 1 init
  obtain ⟨hfg0, hfg1, p0, p1, bf0, bg0, bf1, bg1, e0, e1, -, -, -⟩ := h
  have hB : (2 : Int) ^ 31 * 1 = 2 ^ 31 := by norm_num
  rw [hB] at bf0 bg0 bf1 bg1 e0 e1
  obtain ⟨u1, u2, u3, u4⟩ := unpack_spec _ f0 g0 hfg0 p0 bf0 bg0
  obtain ⟨v1, v2, v3, v4⟩ := unpack_spec _ f1 g1 hfg1 p1 bf1 bg1
  obtain ⟨ka, hka⟩ : ∃ k : Int, (st.a : Int) = (approx P st.a st.b).1 + 2 ^ 31 * k :=
    ⟨(st.a : Int) / 2 ^ 31 - ((approx P st.a st.b).1 : Int) / 2 ^ 31, by omega⟩
  obtain ⟨kb, hkb⟩ : ∃ k : Int, (st.b : Int) = (approx P st.a st.b).2 + 2 ^ 31 * k :=
    ⟨(st.b : Int) / 2 ^ 31 - ((approx P st.a st.b).2 : Int) / 2 ^ 31, by omega⟩
  refine ⟨u3, u4, v3, v4, ?_, ?_⟩
  · show (2 ^ 31 : Int) ∣ (st.a : Int) * toInt64 (unpack _).1 + (st.b : Int) * toInt64 (unpack _).2
    rw [u1, u2]
    exact ⟨((innerLoop 31 ⟨(approx P st.a st.b).1, (approx P st.a st.b).2, 1, 2 ^ 32⟩).xa : Int) + ka * f0 + kb * g0, by
      linear_combination e0 + f0 * hka + g0 * hkb⟩
  · show (2 ^ 31 : Int) ∣ (st.a : Int) * toInt64 (unpack _).1 + (st.b : Int) * toInt64 (unpack _).2
    rw [v1, v2]
    exact ⟨((innerLoop 31 ⟨(approx P st.a st.b).1, (approx P st.a st.b).2, 1, 2 ^ 32⟩).xb : Int) + ka * f1 + kb * g1, by
      linear_combination e1 + f1 * hka + g1 * hkb⟩

end SqiProofs.GfX86

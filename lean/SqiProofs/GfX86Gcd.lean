/-
x86 back-end, binary-GCD layer (`gfXXXX_div`, `_invert`, `_legendre`): what is PROVED here and what is CITED.

PROVED (all three levels, unbounded in the operands):
  * `lin_spec`          `lin` returns a value `< 2^B` representing `u·f + v·g` for signed coefficients with
                        `|f|, |g| ≤ 2^56` (the callers use `≤ 2^31` in the outer loop and `≤ 2^51` after the final loop);
  * `lin_defect_*`      the documented contract `|f|, |g| < 2^62` is FALSE for the code as written (the
                        two-word fold adds the carry of `rem0 + rem1` without reducing `e`): concrete witnesses;
  * `lindiv31abs_spec`  exact value `|⌊(a·f + b·g)/2^31⌋|` and sign flag for `|f|, |g| ≤ 2^31`;
  * `outer_invariant`   one outer iteration preserves `a·x ≡ y·u·2^k`, `b·x ≡ y·v·2^k (mod q)` (tracked power of two
                        `k ↦ k + 31`) for ANY update coefficients `|f|,|g| ≤ 2^31` that make the two linear combinations divisible by `2^31`.
CITED, not proved: that the coefficients produced by the 31 inner iterations on the 64-bit approximations
make `a·f0 + b·g0` and `a·f1 + b·g1` divisible by `2^31`, and that `gcd` is reached within the fixed
iteration counts (Pornin, "Optimized Binary GCD for Modular Inversion", eprint 2020/972, §3–§4).
-/
import SqiProofs.GfX86
namespace SqiProofs.GfX86
set_option exponentiation.threshold 4096
set_option maxRecDepth 20000
open SqiModel.Gf SqiModel.Gf.X86

/-! ### `lin` -/

/-- `u·f` for a uint64_t `f` read as signed, as `lin` forms it: `(f < 0 ? −u : u) · |f|` -/
def sgnMul (P : X86Params) (u f : Nat) : Nat := (if f % 2 ^ 64 < 2 ^ 63 then u else neg P u) * abs64 f

theorem sgnw_cases (f : Nat) :
    (f % 2 ^ 64 < 2 ^ 63 ∧ sgnw f = 0) ∨ (2 ^ 63 ≤ f % 2 ^ 64 ∧ sgnw f = 2 ^ 64 - 1) := by
  unfold sgnw
  split <;> omega

theorem select_sgn (P : X86Params) (hP : IsLvl P) (u f : Nat) (hu : u < 2 ^ P.B) :
    select P u (neg P u) (sgnw f % 2 ^ 32) = if f % 2 ^ 64 < 2 ^ 63 then u else neg P u := by
  have hBR : 2 ^ P.B < P.R := by rcases hP with rfl | rfl | rfl <;> decide
  rcases sgnw_cases f with ⟨h1, h2⟩ | ⟨h1, h2⟩
  · rw [h2, if_pos h1]; exact select_zero P _ _
  · rw [h2, if_neg (by omega)]
    have : (2 ^ 64 - 1) % 2 ^ 32 = T32 := by decide
    rw [this]
    exact select_T32 P hP _ _ (by omega) (by have := (neg_spec P hP u hu).1; omega)

/-- the reduction half of `lin`: any integer `D < 2^(e+64)` (so that the second fold word `h1` is 0) -/
theorem lin_fold (P : X86Params) (hP : IsLvl P) (D : Nat) (hD : D < 2 ^ (P.e + 64)) :
    let t := D / P.R % 2 ^ 64
    let dtop := limb D (P.n - 1)
    let h0 := (dtop / 2 ^ P.s) ||| (t * 2 ^ (64 - P.s) % 2 ^ 64)
    let h1 := t / 2 ^ P.s
    let lo := D % 2 ^ P.e
    let quo0 := bigQuo P h0
    let rem0 := sub64 h0 (P.c * quo0)
    let quo1 := (h1 * P.smallMul) % 2 ^ 64 / 2 ^ P.smallSh
    let rem1 := sub64 h1 (P.c * quo1)
    let bias := 2 ^ 64 - (P.c + 1)
    let s0 := (rem0 + bias) % 2 ^ 64 + rem1
    let e := sub64 (s0 % 2 ^ 64) bias
    let s1 := quo0 + (rem1 * P.linK) % 2 ^ 64 + s0 / 2 ^ 64
    let f0 := s1 % 2 ^ 64
    let f1 := (quo1 + s1 / 2 ^ 64) % 2 ^ 64
    let r := (lo + f0 + f1 * 2 ^ 64 + (e * 2 ^ P.s % 2 ^ 64) * P.topW) % P.R
    r < 2 ^ P.B ∧ r % P.q = D % P.q := by
  intro t dtop h0 h1 lo quo0 rem0 quo1 rem1 bias s0 e s1 f0 f1 r
  have ht : t = D / P.R := by
    show D / P.R % 2 ^ 64 = D / P.R
    apply Nat.mod_eq_of_lt
    rcases hP with rfl | rfl | rfl <;> lvl_unfold <;> omega
  have hh1 : h1 = 0 := by
    show t / 2 ^ P.s = 0
    rw [ht]
    rcases hP with rfl | rfl | rfl <;> lvl_unfold <;> omega
  have hh0 : h0 = D / 2 ^ P.e := by
    show (dtop / 2 ^ P.s) ||| (t * 2 ^ (64 - P.s) % 2 ^ 64) = D / 2 ^ P.e
    have e1 : t * 2 ^ (64 - P.s) % 2 ^ 64 = 2 ^ (64 - P.s) * (t % 2 ^ P.s) := by
      rcases hP with rfl | rfl | rfl <;> lvl_unfold <;> omega
    have e2 : dtop / 2 ^ P.s < 2 ^ (64 - P.s) := by
      show limb D (P.n - 1) / 2 ^ P.s < 2 ^ (64 - P.s)
      unfold limb
      rcases hP with rfl | rfl | rfl <;> lvl_unfold <;> omega
    rw [e1, Nat.or_comm, ← Nat.two_pow_add_eq_or_of_lt e2, ht]
    show 2 ^ (64 - P.s) * (D / P.R % 2 ^ P.s) + limb D (P.n - 1) / 2 ^ P.s = D / 2 ^ P.e
    unfold limb
    rcases hP with rfl | rfl | rfl <;> lvl_unfold <;> omega
  have hh : D / 2 ^ P.e < 2 ^ 64 := by
    rw [Nat.pow_add] at hD
    exact Nat.div_lt_of_lt_mul hD
  have hq0 : quo0 = D / 2 ^ P.e / P.c := by
    show bigQuo P h0 = _
    rw [hh0, bigQuo_eq P hP _ hh]
  have hr0 : rem0 = D / 2 ^ P.e % P.c := by
    show sub64 h0 (P.c * quo0) = _
    rw [hq0, hh0, sub64_rem _ _ hh]
  have hq1 : quo1 = 0 := by
    show (h1 * P.smallMul) % 2 ^ 64 / 2 ^ P.smallSh = 0
    rw [hh1, Nat.zero_mul, Nat.zero_mod, Nat.zero_div]
  have hr1 : rem1 = 0 := by
    show sub64 h1 (P.c * quo1) = 0
    rw [hh1, hq1, Nat.mul_zero]; decide
  have h3 : D / 2 ^ P.e % P.c < P.c := Nat.mod_lt _ (by rcases hP with rfl | rfl | rfl <;> decide)
  have hs0 : s0 = rem0 + bias := by
    show (rem0 + bias) % 2 ^ 64 + rem1 = rem0 + bias
    rw [hr1, Nat.add_zero]
    apply Nat.mod_eq_of_lt
    rw [hr0]
    show _ + (2 ^ 64 - (P.c + 1)) < _
    rcases hP with rfl | rfl | rfl <;> lvl_unfold <;> omega
  have hb : bias < 2 ^ 64 ∧ P.c + 1 ≤ 2 ^ 64 := by
    show 2 ^ 64 - (P.c + 1) < 2 ^ 64 ∧ _
    rcases hP with rfl | rfl | rfl <;> lvl_unfold <;> omega
  have hs0lt : s0 < 2 ^ 64 := by
    rw [hs0, hr0]
    show _ + (2 ^ 64 - (P.c + 1)) < _
    omega
  have he : e = rem0 := by
    show sub64 (s0 % 2 ^ 64) bias = rem0
    rw [Nat.mod_eq_of_lt hs0lt, hs0]
    unfold sub64
    omega
  have hs1 : s1 = quo0 := by
    show quo0 + (rem1 * P.linK) % 2 ^ 64 + s0 / 2 ^ 64 = quo0
    rw [hr1, Nat.zero_mul, Nat.div_eq_of_lt hs0lt]; rfl
  have hq0lt : quo0 < 2 ^ 64 := by
    rw [hq0]; exact Nat.lt_of_le_of_lt (Nat.div_le_self _ _) hh
  have hf0 : f0 = quo0 := by
    show s1 % 2 ^ 64 = quo0
    rw [hs1, Nat.mod_eq_of_lt hq0lt]
  have hf1 : f1 = 0 := by
    show (quo1 + s1 / 2 ^ 64) % 2 ^ 64 = 0
    rw [hq1, hs1, Nat.div_eq_of_lt hq0lt]
  show (lo + f0 + f1 * 2 ^ 64 + (e * 2 ^ P.s % 2 ^ 64) * P.topW) % P.R < 2 ^ P.B ∧
    (lo + f0 + f1 * 2 ^ 64 + (e * 2 ^ P.s % 2 ^ 64) * P.topW) % P.R % P.q = D % P.q
  have hlo : lo = D % 2 ^ P.e := rfl
  rw [hf0, hf1, he, hq0, hr0, hlo, Nat.zero_mul, Nat.add_zero]
  clear hlo hf0 hf1 he hq0 hr0 hs1 hs0 hq0lt hs0lt hq1 hr1 hh0 hh1 ht
  clear r f1 f0 s1 e s0 rem1 quo1 rem0 quo0 lo h1 h0 dtop t
  have h1' := Nat.div_add_mod D (2 ^ P.e)
  have h2' := Nat.div_add_mod (D / 2 ^ P.e) P.c
  have h4 : D % 2 ^ P.e < 2 ^ P.e := Nat.mod_lt _ (Nat.pow_pos (by decide))
  generalize D / 2 ^ P.e % P.c = r' at *
  generalize D / 2 ^ P.e / P.c = k at *
  generalize D / 2 ^ P.e = h at *
  generalize D % 2 ^ P.e = l at *
  subst h1' h2'
  have h5 : r' * 2 ^ P.s % 2 ^ 64 = r' * 2 ^ P.s := by
    apply Nat.mod_eq_of_lt
    rcases hP with rfl | rfl | rfl <;> lvl_unfold <;> omega
  rw [h5]
  have h6 : (l + k + r' * 2 ^ P.s * P.topW) % P.R = l + k + r' * 2 ^ P.s * P.topW := by
    apply Nat.mod_eq_of_lt
    rcases hP with rfl | rfl | rfl <;> lvl_unfold <;> omega
  have h7 : 2 ^ P.e * (P.c * k + r') + l = l + k + r' * 2 ^ P.s * P.topW + k * P.q := by
    rcases hP with rfl | rfl | rfl <;> lvl_unfold <;> omega
  rw [h6, h7, Nat.add_mul_mod_self_right]
  refine ⟨?_, rfl⟩
  rcases hP with rfl | rfl | rfl <;> lvl_unfold <;> omega


theorem sgnMul_lt (P : X86Params) (hP : IsLvl P) (u f : Nat) (hu : u < 2 ^ P.B) (hf : abs64 f ≤ 2 ^ 56) :
    sgnMul P u f ≤ (2 ^ P.B - 1) * 2 ^ 56 := by
  unfold sgnMul
  have h1 : (if f % 2 ^ 64 < 2 ^ 63 then u else neg P u) < 2 ^ P.B := by
    split
    · exact hu
    · exact (neg_spec P hP u hu).1
  exact Nat.mul_le_mul (by omega) hf

/-- `lin` on the representation domain, coefficients `|f|, |g| ≤ 2^56`: in range, represents `u·f + v·g` -/
theorem lin_spec (P : X86Params) (hP : IsLvl P) (u v f g : Nat) (hu : u < 2 ^ P.B) (hv : v < 2 ^ P.B)
    (hf : abs64 f ≤ 2 ^ 56) (hg : abs64 g ≤ 2 ^ 56) :
    lin P u v f g < 2 ^ P.B ∧ lin P u v f g % P.q = (sgnMul P u f + sgnMul P v g) % P.q := by
  have h1 := sgnMul_lt P hP u f hu hf
  have h2 := sgnMul_lt P hP v g hv hg
  have hD : sgnMul P u f + sgnMul P v g < 2 ^ (P.e + 64) := by
    rcases hP with rfl | rfl | rfl <;> lvl_unfold <;> omega
  have key := lin_fold P hP (sgnMul P u f + sgnMul P v g) hD
  simp only [sgnMul] at key
  simp only [lin, select_sgn P hP u f hu, select_sgn P hP v g hv, sgnMul]
  exact key

/-- signed reading: `sgnMul P u f ≡ u · (f as int64)  (mod q)` -/
theorem sgnMul_int (P : X86Params) (hP : IsLvl P) (u f : Nat) (hu : u < 2 ^ P.B) :
    ((sgnMul P u f : Int) - (u : Int) * toInt64 f) % (P.q : Int) = 0 := by
  unfold sgnMul abs64 toInt64 neg64
  by_cases h : f % 2 ^ 64 < 2 ^ 63
  · have h' : ¬ 2 ^ 63 ≤ f % 2 ^ 64 := by omega
    simp only [h, h', if_true, if_false]
    rw [Int.natCast_mul, Int.sub_self]; rfl
  · have h' : 2 ^ 63 ≤ f % 2 ^ 64 := by omega
    simp only [h, h', if_true, if_false]
    have hlt : f % 2 ^ 64 < 2 ^ 64 := Nat.mod_lt _ (by decide)
    have e1 : (2 ^ 64 - f % 2 ^ 64) % 2 ^ 64 = 2 ^ 64 - f % 2 ^ 64 := by omega
    rw [e1]
    obtain ⟨k, hk⟩ := Nat.dvd_of_mod_eq_zero (neg_spec P hP u hu).2
    generalize f % 2 ^ 64 = w at *
    have e2 : ((neg P u * (2 ^ 64 - w) : Nat) : Int) - (u : Int) * ((w : Int) - 2 ^ 64) =
        (P.q : Int) * ((k : Int) * ((2 ^ 64 - w : Nat) : Int)) := by
      have e3 : ((neg P u : Nat) : Int) = (P.q : Int) * k - u := by
        have := congrArg (Int.ofNat) hk
        simp only [Int.ofNat_eq_natCast, Int.natCast_add, Int.natCast_mul] at this
        omega
      have e4 : ((2 ^ 64 - w : Nat) : Int) = 2 ^ 64 - (w : Int) := by omega
      rw [Int.natCast_mul, e3, e4]
      simp only [Int.sub_mul, Int.mul_sub, Int.mul_assoc]
      omega
    rw [e2, Int.mul_emod_right]


/-- Full documented contract of `lin` ("f, g signed, less than 2^62 in absolute value"): FALSE for the code
    as written, at every level.  When the high part of the linear combination needs the second word
    `h1 ≠ 0`, the fold `e = rem0 + rem1`, carry into `f0` is not a reduction modulo `c` (lvl1: off by one
    when `rem0 + rem1 ≥ 6`; lvl3/lvl5: the identity `2^64 = c·linK + 1` used by the code does not hold,
    `2^64 mod 65 = 16`, `2^64 mod 27 = 25`).  Not reachable through the public API: `div` only passes
    `|f|,|g| ≤ 2^31` (outer loop) and `≤ 2^final ≤ 2^51` (final combination), covered by `lin_spec`. -/
theorem lin_defect (P : X86Params) (hP : IsLvl P) :
    let u := 2 ^ P.B - 1
    let f := 2 ^ 62 - 1
    ¬ (lin P u u f f < 2 ^ P.B ∧ lin P u u f f % P.q = (sgnMul P u f + sgnMul P u f) % P.q) := by
  rcases hP with rfl | rfl | rfl <;> decide +kernel

theorem linK_identity : 2 ^ 64 = x1.c * x1.linK + 1 ∧ 2 ^ 64 ≠ x3.c * x3.linK + 1 ∧ 2 ^ 64 ≠ x5.c * x5.linK + 1 := by
  decide


/-! ### `lindiv31abs` -/

theorem ones_and (x : Nat) (hx : x < 2 ^ 64) : (2 ^ 64 - 1) &&& x = x := by
  rw [Nat.and_comm, Nat.and_two_pow_sub_one_eq_mod, Nat.mod_eq_of_lt hx]

theorem abs64_lt (f : Nat) : abs64 f ≤ 2 ^ 63 := by
  unfold abs64 neg64; split <;> omega

/-- value-level core of `lindiv31abs`: the `(n+1)`-limb two's complement arithmetic, with the per-operand
    products abstracted: `Ta + nA = R·sa + pA` (`Ta` the unsigned limb product, `sa` the correction word,
    `pA − nA` the signed product), likewise for `b`.  `Z = pos − neg`. -/
theorem lindiv_core (P : X86Params) (hP : IsLvl P) (Ta Tb sa sb pA nA pB nB t dn x : Nat)
    (h1 : Ta + nA = P.R * sa + pA) (h2 : Tb + nB = P.R * sb + pB)
    (hsa : sa ≤ 2 ^ 31) (hsb : sb ≤ 2 ^ 31)
    (hpA : pA ≤ (2 ^ (64 * P.n - 1) - 1) * 2 ^ 31) (hnA : nA ≤ (2 ^ (64 * P.n - 1) - 1) * 2 ^ 31)
    (hpB : pB ≤ (2 ^ (64 * P.n - 1) - 1) * 2 ^ 31) (hnB : nB ≤ (2 ^ (64 * P.n - 1) - 1) * 2 ^ 31)
    (ht : t = (Ta + Tb) / P.R % 2 ^ 64)
    (hdn : dn = sub64 (sub64 t sa) sb)
    (hx : x = ((Ta + Tb) % P.R + dn * P.R) / 2 ^ 31 % P.R) :
    (nA + nB ≤ pA + pB → sgnw dn = 0 ∧ x = (pA + pB - (nA + nB)) / 2 ^ 31) ∧
    (pA + pB < nA + nB → sgnw dn = 2 ^ 64 - 1 ∧
      (P.R - x) % P.R = (nA + nB - (pA + pB) + (2 ^ 31 - 1)) / 2 ^ 31) := by
  have hdn' : dn = (t + 2 ^ 65 - sa - sb) % 2 ^ 64 := by
    have : t < 2 ^ 64 := by rw [ht]; exact Nat.mod_lt _ (by decide)
    unfold sub64 at hdn; omega
  clear hdn
  generalize hS : sa + sb = S at *
  have hSle : S ≤ 2 ^ 32 := by omega
  generalize hpos : pA + pB = pos at *
  generalize hneg : nA + nB = neg at *
  generalize hDD : Ta + Tb = D at *
  have hD : D + neg = P.R * S + pos := by
    rw [← hDD, ← hneg, ← hS, ← hpos, Nat.mul_add]; omega
  have hposlt : pos < P.R * 2 ^ 31 - 2 ^ 32 + 1 := by
    rcases hP with rfl | rfl | rfl <;> lvl_unfold <;> omega
  have hneglt : neg < P.R * 2 ^ 31 - 2 ^ 32 + 1 := by
    rcases hP with rfl | rfl | rfl <;> lvl_unfold <;> omega
  have hdn'' : dn = (t + 2 ^ 65 - S) % 2 ^ 64 := by omega
  have hR64 : 2 ^ 64 ≤ P.R := by rcases hP with rfl | rfl | rfl <;> decide
  clear hdn' h1 h2 hpA hnA hpB hnB hS hpos hneg hDD hsa hsb
  constructor
  · intro hle
    have e1 : D = P.R * S + (pos - neg) := by omega
    have e2 : D / P.R = S + (pos - neg) / P.R := by
      rw [e1, Nat.mul_add_div (by rcases hP with rfl | rfl | rfl <;> decide)]
    have e3 : D % P.R = (pos - neg) % P.R := by
      rw [e1, Nat.mul_add_mod]
    have e4 : (pos - neg) / P.R < 2 ^ 31 := by
      apply Nat.div_lt_of_lt_mul; omega
    have e5' : t = S + (pos - neg) / P.R := by
      rw [ht, e2]; apply Nat.mod_eq_of_lt; omega
    have e5 : dn = (pos - neg) / P.R := by
      rw [hdn'', e5']
      generalize (pos - neg) / P.R = f at *
      omega
    have e6 : D % P.R + dn * P.R = pos - neg := by
      rw [e3, e5, Nat.mul_comm]; exact Nat.mod_add_div _ _
    rw [hx, e6]
    refine ⟨?_, ?_⟩
    · unfold sgnw; rw [e5]; split <;> omega
    · apply Nat.mod_eq_of_lt
      apply Nat.div_lt_of_lt_mul; rw [Nat.mul_comm]; omega
  · intro hlt
    have hW : D + (neg - pos) = P.R * S := by omega
    have hWlt : neg - pos < P.R * 2 ^ 31 - 2 ^ 32 + 1 := by omega
    have hWpos : 0 < neg - pos := by omega
    generalize neg - pos = W at *
    clear hD hposlt hneglt hlt
    have hdnv : 2 ^ 63 ≤ dn % 2 ^ 64 ∧ D % P.R + dn * P.R + W = P.R * 2 ^ 64 := by
      rcases hP with rfl | rfl | rfl <;> lvl_unfold <;> omega
    refine ⟨?_, ?_⟩
    · unfold sgnw; rw [if_pos hdnv.1]
    · rw [hx]
      have e1 : D % P.R + dn * P.R = P.R * 2 ^ 64 - W := by omega
      rw [e1]
      rcases hP with rfl | rfl | rfl <;> lvl_unfold <;> omega


/-- one operand of `lindiv31abs`: conditional `(n+1)`-limb negation, limb product and correction word -/
theorem lindiv_operand (P : X86Params) (hP : IsLvl P) (a f : Nat) (ha : a < 2 ^ (64 * P.n - 1))
    (hf : abs64 f ≤ 2 ^ 31) :
    let a' := if sgnw f = 0 then a % P.R else (P.R * 2 ^ 64 - a % P.R) % (P.R * 2 ^ 64)
    (a' % P.R) * abs64 f + (if sgnw f = 0 then 0 else a * abs64 f) =
      P.R * (a' / P.R &&& abs64 f) + (if sgnw f = 0 then a * abs64 f else 0) ∧
    (a' / P.R &&& abs64 f) ≤ 2 ^ 31 := by
  intro a'
  have haR : a < P.R := by rcases hP with rfl | rfl | rfl <;> lvl_unfold <;> omega
  have hf64 : abs64 f < 2 ^ 64 := by omega
  by_cases hs : sgnw f = 0
  · have e1 : a' = a := by show (if sgnw f = 0 then _ else _) = a; rw [if_pos hs, Nat.mod_eq_of_lt haR]
    rw [e1, Nat.mod_eq_of_lt haR, Nat.div_eq_of_lt haR, Nat.zero_and, if_pos hs, if_pos hs]
    omega
  · rw [if_neg hs, if_neg hs]
    have e0 : a' = (P.R * 2 ^ 64 - a) % (P.R * 2 ^ 64) := by
      show (if sgnw f = 0 then _ else _) = _; rw [if_neg hs, Nat.mod_eq_of_lt haR]
    by_cases ha0 : a = 0
    · subst ha0
      have e1 : a' = 0 := by rw [e0, Nat.sub_zero, Nat.mod_self]
      rw [e1]; simp
    · have e1 : a' % P.R = P.R - a ∧ a' / P.R = 2 ^ 64 - 1 := by
        rw [e0]
        rcases hP with rfl | rfl | rfl <;> lvl_unfold <;> omega
      rw [e1.1, e1.2, ones_and _ hf64, Nat.sub_mul]
      have : a * abs64 f ≤ P.R * abs64 f := Nat.mul_le_mul_right _ (Nat.le_of_lt haR)
      omega

/-- `lindiv31abs`: exact value `|⌊(a·f + b·g)/2^31⌋|` and sign mask, for `|f|, |g| ≤ 2^31`
    (`f`, `g` uint64_t read as signed) and `a, b < 2^(64n−1)`.  With `pos`/`neg` the sums of the
    non-negative / negative products, `Z = pos − neg`:
    `Z ≥ 0`: mask 0, value `⌊Z/2^31⌋`;  `Z < 0`: mask all-ones, value `⌈|Z|/2^31⌉ = |⌊Z/2^31⌋|`. -/
theorem lindiv31abs_spec (P : X86Params) (hP : IsLvl P) (a b f g : Nat)
    (ha : a < 2 ^ (64 * P.n - 1)) (hb : b < 2 ^ (64 * P.n - 1))
    (hf : abs64 f ≤ 2 ^ 31) (hg : abs64 g ≤ 2 ^ 31) :
    let pos := (if sgnw f = 0 then a * abs64 f else 0) + (if sgnw g = 0 then b * abs64 g else 0)
    let neg := (if sgnw f = 0 then 0 else a * abs64 f) + (if sgnw g = 0 then 0 else b * abs64 g)
    (neg ≤ pos → (lindiv31abs P a b f g).2 = 0 ∧ (lindiv31abs P a b f g).1 = (pos - neg) / 2 ^ 31) ∧
    (pos < neg → (lindiv31abs P a b f g).2 = 2 ^ 64 - 1 ∧
      (lindiv31abs P a b f g).1 = (neg - pos + (2 ^ 31 - 1)) / 2 ^ 31) := by
  intro pos neg
  obtain ⟨h1, hsa⟩ := lindiv_operand P hP a f ha hf
  obtain ⟨h2, hsb⟩ := lindiv_operand P hP b g hb hg
  have hbnd : ∀ (c : Nat) (k : Nat), c < 2 ^ (64 * P.n - 1) → k ≤ 2 ^ 31 →
      c * k ≤ (2 ^ (64 * P.n - 1) - 1) * 2 ^ 31 := fun c k hc hk => Nat.mul_le_mul (by omega) hk
  have hA := hbnd a (abs64 f) ha hf
  have hB := hbnd b (abs64 g) hb hg
  have core := lindiv_core P hP _ _ _ _ (if sgnw f = 0 then a * abs64 f else 0)
    (if sgnw f = 0 then 0 else a * abs64 f) (if sgnw g = 0 then b * abs64 g else 0)
    (if sgnw g = 0 then 0 else b * abs64 g) _ _ _ h1 h2 hsa hsb
    (by split <;> omega) (by split <;> omega) (by split <;> omega) (by split <;> omega) rfl rfl rfl
  unfold lindiv31abs
  simp only
  constructor
  · intro hle
    obtain ⟨c1, c2⟩ := core.1 hle
    refine ⟨c1, ?_⟩
    rw [if_pos c1]; exact c2
  · intro hlt
    obtain ⟨c1, c2⟩ := core.2 hlt
    refine ⟨c1, ?_⟩
    rw [if_neg (by rw [c1]; decide)]; exact c2


/-! ### non-vacuity -/
/-- a negative coefficient (`f = −3` as uint64_t) and a positive one -/
example : abs64 (2 ^ 64 - 3) ≤ 2 ^ 31 ∧ sgnw (2 ^ 64 - 3) = 2 ^ 64 - 1 ∧
    lindiv31abs x1 (2 ^ 40) (2 ^ 31) (2 ^ 64 - 3) 5 = ((3 * 2 ^ 40 - 5 * 2 ^ 31) / 2 ^ 31, 2 ^ 64 - 1) := by decide
example : lin x1 7 9 (2 ^ 64 - 3) 5 % x1.q = (x1.q - 21 + 45) % x1.q := by decide

end SqiProofs.GfX86

/-
x86 back-end, binary GCD: the loop invariant of `gfXXXX_div` is preserved by one outer iteration for ANY
update coefficients in range that make the linear combination divisible by 2^31.

PROVED: `outer_row_invariant` (one row `(a,u) ← (|a·f + b·g|/2^31, ±(u·f + v·g))` of the update, with the
sign bookkeeping `f ← (f ^ nega) − nega` exactly as coded through `lindiv31abs` and `lin`), and
`divOuterStep_invariant` (both rows = the model's `divOuterStep`, given the properties of the coefficients
produced by the inner loop as hypotheses).
CITED (Pornin, eprint 2020/972): the inner loop on the 64-bit approximations yields coefficients with
`|f|,|g| ≤ 2^31`, both combinations divisible by `2^31`, `a, b` stay below `2^(64n−1)`, and the gcd is reached
within `31·outer + final` iterations.
-/
import Mathlib.Tactic.LinearCombination
import Mathlib.Tactic.Ring
import SqiProofs.GfX86Gcd
namespace SqiProofs.GfX86
set_option exponentiation.threshold 4096
set_option maxRecDepth 20000
open SqiModel.Gf SqiModel.Gf.X86

theorem sgnw_zero_iff (f : Nat) : sgnw f = 0 ↔ f % 2 ^ 64 < 2 ^ 63 := by
  unfold sgnw; split <;> omega

/-- signed reading in terms of `abs64` and the sign -/
theorem toInt64_eq (f : Nat) : toInt64 f = if sgnw f = 0 then (abs64 f : Int) else -(abs64 f : Int) := by
  unfold toInt64 abs64 neg64 sgnw
  have : f % 2 ^ 64 < 2 ^ 64 := Nat.mod_lt _ (by decide)
  split <;> simp <;> omega

theorem cneg64_zero (f : Nat) : toInt64 (cneg64 0 f) = toInt64 f ∧ abs64 (cneg64 0 f) = abs64 f := by
  simp [cneg64, toInt64, abs64, neg64]

theorem cneg64_ones (f : Nat) (hf : abs64 f ≤ 2 ^ 31) :
    toInt64 (cneg64 (2 ^ 64 - 1) f) = - toInt64 f ∧ abs64 (cneg64 (2 ^ 64 - 1) f) = abs64 f := by
  have h0 : (2 ^ 64 - 1 : Nat) ≠ 0 := by decide
  unfold cneg64
  rw [if_neg h0]
  unfold toInt64 abs64 neg64 at *
  have : f % 2 ^ 64 < 2 ^ 64 := Nat.mod_lt _ (by decide)
  constructor
  · split <;> split <;> split at hf <;> omega
  · split <;> split <;> split at hf <;> omega

/-- `lin` in signed form: `lin ≡ u·f + v·g (mod q)` -/
theorem lin_int (P : X86Params) (hP : IsLvl P) (u v f g : Nat) (hu : u < 2 ^ P.B) (hv : v < 2 ^ P.B)
    (hf : abs64 f ≤ 2 ^ 56) (hg : abs64 g ≤ 2 ^ 56) :
    lin P u v f g < 2 ^ P.B ∧
      (P.q : Int) ∣ (lin P u v f g : Int) - ((u : Int) * toInt64 f + (v : Int) * toInt64 g) := by
  obtain ⟨h1, h2⟩ := lin_spec P hP u v f g hu hv hf hg
  refine ⟨h1, ?_⟩
  have e1 := Int.dvd_of_emod_eq_zero (sgnMul_int P hP u f hu)
  have e2 := Int.dvd_of_emod_eq_zero (sgnMul_int P hP v g hv)
  have e3 : (P.q : Int) ∣ (lin P u v f g : Int) - ((sgnMul P u f + sgnMul P v g : Nat) : Int) := by
    apply Int.dvd_of_emod_eq_zero
    apply Int.emod_eq_emod_iff_emod_sub_eq_zero.mp
    have := congrArg (Nat.cast (R := Int)) h2
    simpa [Int.natCast_mod] using this
  obtain ⟨c1, hc1⟩ := e1
  obtain ⟨c2, hc2⟩ := e2
  obtain ⟨c3, hc3⟩ := e3
  refine ⟨c1 + c2 + c3, ?_⟩
  push_cast at hc3
  linear_combination hc1 + hc2 + hc3


/-- the signed sum of `lindiv31abs_spec` is `a·f + b·g` -/
theorem pos_neg_int (a b f g : Nat) :
    (((if sgnw f = 0 then a * abs64 f else 0) + (if sgnw g = 0 then b * abs64 g else 0) : Nat) : Int) -
    (((if sgnw f = 0 then 0 else a * abs64 f) + (if sgnw g = 0 then 0 else b * abs64 g) : Nat) : Int) =
    (a : Int) * toInt64 f + (b : Int) * toInt64 g := by
  rw [toInt64_eq f, toInt64_eq g]
  split <;> split <;> push_cast <;> ring

/-- One row of the outer-iteration update, exactly as coded:
    `(na, nega) = lindiv31abs(a, b, f, g)`, `f' = (f ^ nega) − nega`, `g' = (g ^ nega) − nega`, `nu = lin(u, v, f', g')`.
    If `a·x·2^k ≡ y·u` and `b·x·2^k ≡ y·v (mod q)` then `na·x·2^(k+31) ≡ y·nu (mod q)`, and `nu` is in range —
    for ANY coefficients `|f|,|g| ≤ 2^31` with `2^31 ∣ a·f + b·g`. -/
theorem outer_row_invariant (P : X86Params) (hP : IsLvl P) (a b u v f g k : Nat) (x y : Int)
    (ha : a < 2 ^ (64 * P.n - 1)) (hb : b < 2 ^ (64 * P.n - 1)) (hu : u < 2 ^ P.B) (hv : v < 2 ^ P.B)
    (hf : abs64 f ≤ 2 ^ 31) (hg : abs64 g ≤ 2 ^ 31)
    (hdiv : (2 ^ 31 : Int) ∣ (a : Int) * toInt64 f + (b : Int) * toInt64 g)
    (h1 : (P.q : Int) ∣ (a : Int) * x * 2 ^ k - y * u) (h2 : (P.q : Int) ∣ (b : Int) * x * 2 ^ k - y * v) :
    let r := lindiv31abs P a b f g
    let nu := lin P u v (cneg64 r.2 f) (cneg64 r.2 g)
    nu < 2 ^ P.B ∧ (P.q : Int) ∣ (r.1 : Int) * x * 2 ^ (k + 31) - y * nu := by
  intro r nu
  have spec := lindiv31abs_spec P hP a b f g ha hb hf hg
  have hZ := pos_neg_int a b f g
  simp only at spec
  generalize hpos : (if sgnw f = 0 then a * abs64 f else 0) + (if sgnw g = 0 then b * abs64 g else 0) = pos at *
  generalize hneg : (if sgnw f = 0 then 0 else a * abs64 f) + (if sgnw g = 0 then 0 else b * abs64 g) = neg at *
  obtain ⟨d, hd⟩ := hdiv
  obtain ⟨c1, hc1⟩ := h1
  obtain ⟨c2, hc2⟩ := h2
  by_cases hle : neg ≤ pos
  · obtain ⟨s1, s2⟩ := spec.1 hle
    have hr2 : r.2 = 0 := s1
    have hr1 : (r.1 : Int) * 2 ^ 31 = (a : Int) * toInt64 f + (b : Int) * toInt64 g := by
      have e : r.1 = (pos - neg) / 2 ^ 31 := s2
      have hdvd : (2 ^ 31 : Nat) ∣ pos - neg := by
        have : ((pos - neg : Nat) : Int) = 2 ^ 31 * d := by rw [← hd, ← hZ]; omega
        exact Int.natCast_dvd_natCast.mp ⟨d, by push_cast; exact this⟩
      obtain ⟨m, hm⟩ := hdvd
      have e' : r.1 = m := by rw [e, hm]; omega
      rw [e', ← hZ]
      omega
    have hl := lin_int P hP u v (cneg64 r.2 f) (cneg64 r.2 g) hu hv
      (by rw [hr2, (cneg64_zero f).2]; omega) (by rw [hr2, (cneg64_zero g).2]; omega)
    refine ⟨hl.1, ?_⟩
    obtain ⟨c3, hc3⟩ := hl.2
    rw [hr2, (cneg64_zero f).1, (cneg64_zero g).1] at hc3
    refine ⟨toInt64 f * c1 + toInt64 g * c2 - y * c3, ?_⟩
    have hnu : (nu : Int) = (lin P u v (cneg64 r.2 f) (cneg64 r.2 g) : Nat) := rfl
    rw [hnu, hr2, pow_add]
    linear_combination (toInt64 f) * hc1 + (toInt64 g) * hc2 - y * hc3 + (x * 2 ^ k) * hr1
  · have hlt : pos < neg := by omega
    obtain ⟨s1, s2⟩ := spec.2 hlt
    have hr2 : r.2 = 2 ^ 64 - 1 := s1
    have hr1 : (r.1 : Int) * 2 ^ 31 = -((a : Int) * toInt64 f + (b : Int) * toInt64 g) := by
      have e : r.1 = (neg - pos + (2 ^ 31 - 1)) / 2 ^ 31 := s2
      have hdvd : (2 ^ 31 : Nat) ∣ neg - pos := by
        have : ((neg - pos : Nat) : Int) = 2 ^ 31 * (-d) := by
          have : (2:Int) ^ 31 * -d = -(2 ^ 31 * d) := by ring
          rw [this, ← hd, ← hZ]; omega
        exact Int.natCast_dvd_natCast.mp ⟨-d, by push_cast; exact this⟩
      obtain ⟨m, hm⟩ := hdvd
      have e' : r.1 = m := by rw [e, hm]; omega
      rw [e', ← hZ]
      omega
    have hl := lin_int P hP u v (cneg64 r.2 f) (cneg64 r.2 g) hu hv
      (by rw [hr2, (cneg64_ones f hf).2]; omega) (by rw [hr2, (cneg64_ones g hg).2]; omega)
    refine ⟨hl.1, ?_⟩
    obtain ⟨c3, hc3⟩ := hl.2
    rw [hr2, (cneg64_ones f hf).1, (cneg64_ones g hg).1] at hc3
    refine ⟨-(toInt64 f * c1) - toInt64 g * c2 - y * c3, ?_⟩
    have hnu : (nu : Int) = (lin P u v (cneg64 r.2 f) (cneg64 r.2 g) : Nat) := rfl
    rw [hnu, hr2, pow_add]
    linear_combination (-(toInt64 f)) * hc1 - (toInt64 g) * hc2 - y * hc3 + (x * 2 ^ k) * hr1


/-- the coefficient pairs `(f0, g0)`, `(f1, g1)` the model's outer iteration derives from the inner loop -/
def outerCoeffs (P : X86Params) (st : DivSt) : (Nat × Nat) × (Nat × Nat) :=
  let x := approx P st.a st.b
  let r := innerLoop 31 ⟨x.1, x.2, 1, 2 ^ 32⟩
  (unpack r.fg0, unpack r.fg1)

/-- what is CITED about the inner loop (Pornin 2020/972 §3): coefficients bounded by `2^31`, both
    combinations divisible by `2^31` -/
def CoeffsOK (st : DivSt) (c : (Nat × Nat) × (Nat × Nat)) : Prop :=
  abs64 c.1.1 ≤ 2 ^ 31 ∧ abs64 c.1.2 ≤ 2 ^ 31 ∧ abs64 c.2.1 ≤ 2 ^ 31 ∧ abs64 c.2.2 ≤ 2 ^ 31 ∧
  (2 ^ 31 : Int) ∣ (st.a : Int) * toInt64 c.1.1 + (st.b : Int) * toInt64 c.1.2 ∧
  (2 ^ 31 : Int) ∣ (st.a : Int) * toInt64 c.2.1 + (st.b : Int) * toInt64 c.2.2

/-- One outer iteration of `div` (the model's `divOuterStep`) preserves the invariant
    `a·x·2^k ≡ y·u`, `b·x·2^k ≡ y·v (mod q)` with `k ↦ k + 31`, and keeps `u, v` in range. -/
theorem divOuterStep_invariant (P : X86Params) (hP : IsLvl P) (st : DivSt) (k : Nat) (x y : Int)
    (ha : st.a < 2 ^ (64 * P.n - 1)) (hb : st.b < 2 ^ (64 * P.n - 1))
    (hu : st.u < 2 ^ P.B) (hv : st.v < 2 ^ P.B)
    (hc : CoeffsOK st (outerCoeffs P st))
    (h1 : (P.q : Int) ∣ (st.a : Int) * x * 2 ^ k - y * st.u)
    (h2 : (P.q : Int) ∣ (st.b : Int) * x * 2 ^ k - y * st.v) :
    let st' := divOuterStep P st
    st'.u < 2 ^ P.B ∧ st'.v < 2 ^ P.B ∧
    (P.q : Int) ∣ (st'.a : Int) * x * 2 ^ (k + 31) - y * st'.u ∧
    (P.q : Int) ∣ (st'.b : Int) * x * 2 ^ (k + 31) - y * st'.v := by
  obtain ⟨c1, c2, c3, c4, c5, c6⟩ := hc
  have r0 := outer_row_invariant P hP st.a st.b st.u st.v _ _ k x y ha hb hu hv c1 c2 c5 h1 h2
  have r1 := outer_row_invariant P hP st.a st.b st.u st.v _ _ k x y ha hb hu hv c3 c4 c6 h1 h2
  exact ⟨r0.1, r1.1, r0.2, r1.2⟩

/-- non-vacuity: the start state of `gf5248_div(·, 1, 3)` (Montgomery forms) satisfies every hypothesis -/
example : let st : DivSt := ⟨normalize x1 (set_small x1 3), x1.q, x1.one, 0⟩
    st.a < 2 ^ (64 * x1.n - 1) ∧ st.b < 2 ^ (64 * x1.n - 1) ∧ st.u < 2 ^ x1.B ∧ st.v < 2 ^ x1.B ∧
    abs64 (outerCoeffs x1 st).1.1 ≤ 2 ^ 31 ∧ abs64 (outerCoeffs x1 st).1.2 ≤ 2 ^ 31 ∧
    abs64 (outerCoeffs x1 st).2.1 ≤ 2 ^ 31 ∧ abs64 (outerCoeffs x1 st).2.2 ≤ 2 ^ 31 ∧
    ((st.a : Int) * toInt64 (outerCoeffs x1 st).1.1 + (st.b : Int) * toInt64 (outerCoeffs x1 st).1.2) % 2 ^ 31 = 0 ∧
    ((st.a : Int) * toInt64 (outerCoeffs x1 st).2.1 + (st.b : Int) * toInt64 (outerCoeffs x1 st).2.2) % 2 ^ 31 = 0 := by
  decide +kernel

end SqiProofs.GfX86

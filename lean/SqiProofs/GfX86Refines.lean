/-
The x86 back-end model satisfies the `FpRefines` interface (so every GF(p²) theorem and every C06
agreement theorem applies to it), with representation domain `a < 2^B` and abstraction
`xval a = a · R⁻¹ ∈ ZMod q`.

Proved here from the `% q` specifications of SqiProofs.GfX86: zero, one, add, sub, neg, mul, sqr, half, isZero,
isEqual, select, cswap, setSmall, encode, and sqrt (exponent chain = a^((q+1)/4), SqiProofs.GfX86Sqrt).  Taken as explicit hypotheses (`X86Cited`):
  * `inv`, `isSquare` — correctness of Pornin's binary GCD (outer-iteration invariant proved in
    SqiProofs.GfX86Inv, convergence within the fixed iteration counts cited from eprint 2020/972);
-/
import Mathlib.Data.ZMod.Basic
import Mathlib.Tactic.Ring
import Mathlib.Tactic.FieldSimp
import Mathlib.Tactic.LinearCombination
import SqiProofs.GfX86
import SqiProofs.GfX86Sqrt
import SqiProofs.GfFp2

set_option linter.unusedSectionVars false
set_option exponentiation.threshold 600

namespace SqiProofs.GfX86Refines
open SqiModel.Gf SqiModel.Gf.X86 SqiProofs.GfX86 SqiProofs.GfFp2

variable {P : X86Params} [Fact P.q.Prime]

/-- the field element represented by the stored integer `a` -/
def xval (P : X86Params) (a : Nat) : ZMod P.q := (a : ZMod P.q) * ((P.R : Nat) : ZMod P.q)⁻¹

theorem cast_eq_of_mod_eq {q a b : Nat} (h : a % q = b % q) : (a : ZMod q) = (b : ZMod q) :=
  (ZMod.natCast_eq_natCast_iff' a b q).mpr h

theorem mod_eq_of_cast_eq {q a b : Nat} (h : (a : ZMod q) = (b : ZMod q)) : a % q = b % q :=
  (ZMod.natCast_eq_natCast_iff' a b q).mp h

theorem R_ne_zero (hP : IsLvl P) : ((P.R : Nat) : ZMod P.q) ≠ 0 := by
  intro h
  have h1 := R_inv P hP
  have h2 := congrArg (fun n : Nat => (n : ZMod P.q)) h1
  simp only [Nat.cast_mul, Nat.cast_add, Nat.cast_one, ZMod.natCast_self, zero_mul, add_zero] at h2
  rw [h] at h2
  simp at h2

theorem xval_eq_iff (hP : IsLvl P) {a b : Nat} : xval P a = xval P b ↔ a % P.q = b % P.q := by
  unfold xval
  constructor
  · intro h
    have := mul_right_cancel₀ (inv_ne_zero (R_ne_zero hP)) h
    exact mod_eq_of_cast_eq this
  · intro h; rw [cast_eq_of_mod_eq h]

theorem xval_zero_iff (hP : IsLvl P) {a : Nat} : xval P a = 0 ↔ a % P.q = 0 := by
  have := xval_eq_iff hP (a := a) (b := 0)
  simpa [xval] using this

/-- CITED (Pornin, "Optimized Binary GCD for Modular Inversion", eprint 2020/972): run on a modulus `q < 2^B` the
    optimised binary GCD reaches `gcd` within `2·B − 2` steps. The hypothesis is indexed by the number of steps
    the routine actually performs: `enough` (checked against the loop counts re-extracted from the C text,
    `SqiProps.C07.gcd_budget`) says the routine runs at least that many; `inv` / `isSquare` are the resulting
    end-to-end statements about the model's `invert` and `fp_is_square` (Legendre). What IS proved: `lin`,
    `lindiv31abs`, one outer iteration preserves the GCD invariant (SqiProofs.GfX86Inv). -/
structure PorninConvergence (P : X86Params) [Fact P.q.Prime] (steps : Nat) : Prop where
  enough : 2 * P.B - 2 ≤ steps
  inv : ∀ a, a < 2 ^ P.B → (invert P a).1 < 2 ^ P.B ∧ xval P (invert P a).1 = (xval P a)⁻¹
  isSquare : ∀ a, a < 2 ^ P.B → (fp_is_square P a = 0 ∨ fp_is_square P a = T32) ∧
    (fp_is_square P a = T32 ↔ IsSquare (xval P a))

/-- number of binary-GCD steps performed by the model's `div` / `legendre`: `outer` rounds of 31 + the final round -/
def gcdSteps (P : X86Params) : Nat := P.outer * 31 + P.final

/-- the cited hypothesis at the step count of the modelled routines -/
abbrev X86Cited (P : X86Params) [Fact P.q.Prime] : Prop := PorninConvergence P (gcdSteps P)

theorem x86_refines (hP : IsLvl P) (hc : X86Cited P) :
    FpRefines (X86.ops P) P.q (fun a => a < 2 ^ P.B) (xval P) where
  p4 := by rcases hP with rfl | rfl | rfl <;> decide +kernel
  zero := ⟨by show 0 < 2 ^ P.B; positivity, by simp [xval, X86.ops]⟩
  one := by
    obtain ⟨h1, h2⟩ := one_eq P hP
    refine ⟨h1, ?_⟩
    show xval P P.one = 1
    unfold xval; rw [cast_eq_of_mod_eq h2]
    exact mul_inv_cancel₀ (R_ne_zero hP)
  add := by
    intro a b ha hb
    obtain ⟨h1, h2⟩ := add_spec P hP a b ha hb
    refine ⟨h1, ?_⟩
    show xval P (add P a b) = xval P a + xval P b
    unfold xval; rw [cast_eq_of_mod_eq h2]; push_cast; ring
  sub := by
    intro a b ha hb
    obtain ⟨h1, h2⟩ := sub_spec P hP a b ha hb
    refine ⟨h1, ?_⟩
    show xval P (sub P a b) = xval P a - xval P b
    have := cast_eq_of_mod_eq h2
    push_cast at this
    unfold xval; rw [← this]; ring
  neg := by
    intro a ha
    obtain ⟨h1, h2⟩ := neg_spec P hP a ha
    refine ⟨h1, ?_⟩
    show xval P (neg P a) = - xval P a
    have := cast_eq_of_mod_eq (b := 0) (by rw [h2]; simp)
    push_cast at this
    unfold xval; linear_combination (((P.R : Nat) : ZMod P.q)⁻¹) * this
  mul := by
    intro a b ha hb
    obtain ⟨h1, h2⟩ := mul_spec P hP a b ha hb
    refine ⟨h1, ?_⟩
    show xval P (mul P a b) = xval P a * xval P b
    have := cast_eq_of_mod_eq h2
    push_cast at this
    have hR := R_ne_zero hP
    unfold xval; field_simp; linear_combination this
  sqr := by
    intro a ha
    obtain ⟨h1, h2⟩ := squareOK P hP a ha
    refine ⟨h1, ?_⟩
    show xval P (square P a) = xval P a * xval P a
    have := cast_eq_of_mod_eq h2
    push_cast at this
    have hR := R_ne_zero hP
    unfold xval; field_simp; linear_combination this
  half := by
    intro a ha
    obtain ⟨h1, h2⟩ := half_spec P hP a ha
    refine ⟨h1, ?_⟩
    show xval P (half P a) * 2 = xval P a
    have := cast_eq_of_mod_eq h2
    push_cast at this
    unfold xval; rw [← this]; ring
  inv := fun {a} ha => hc.inv a ha
  sqrt := by
    intro a ha
    obtain ⟨h1, h2, _, _⟩ := sqrt_spec P hP (squareOK P hP) a ha
    refine ⟨h1, ?_, fun hs => sqrt_root P hP ha hs⟩
    show (xval P (sqrt P a).1).val % 2 = 0
    have hR : (sqrt P a).1 < P.R := lt_trans h1 (by rcases hP with rfl | rfl | rfl <;> decide)
    obtain ⟨e1, e2⟩ := encode_spec P hP _ hR
    have : xval P (sqrt P a).1 = ((encode P (sqrt P a).1 : Nat) : ZMod P.q) := by
      have := cast_eq_of_mod_eq e2
      push_cast at this
      unfold xval; rw [← this]; field_simp [R_ne_zero hP]
    rw [this, ZMod.val_natCast_of_lt e1]; exact h2
  isSquare := by
    intro a ha
    obtain ⟨h1, h2⟩ := hc.isSquare a ha
    exact ⟨h1, fun _ => h2⟩
  isZero := by
    intro a ha
    obtain ⟨h1, h2⟩ := iszero_spec P hP a ha
    show (iszero P a = T32 ∧ xval P a = 0) ∨ (iszero P a = 0 ∧ xval P a ≠ 0)
    rcases h2 with h | h
    · exact Or.inl ⟨h, (xval_zero_iff hP).mpr (h1.mp h)⟩
    · refine Or.inr ⟨h, fun h0 => ?_⟩
      have := h1.mpr ((xval_zero_iff hP).mp h0)
      rw [h] at this; exact absurd this (by decide)
  isEqual := by
    intro a b ha hb
    obtain ⟨h1, h2⟩ := equals_spec P hP a b ha hb
    show (equals P a b = T32 ∧ xval P a = xval P b) ∨ (equals P a b = 0 ∧ xval P a ≠ xval P b)
    rcases h2 with h | h
    · exact Or.inl ⟨h, (xval_eq_iff hP).mpr (h1.mp h)⟩
    · refine Or.inr ⟨h, fun h0 => ?_⟩
      have := h1.mpr ((xval_eq_iff hP).mp h0)
      rw [h] at this; exact absurd this (by decide)
  select := by
    intro a b ha hb
    have hBR : 2 ^ P.B < P.R := by rcases hP with rfl | rfl | rfl <;> decide
    exact ⟨select_zero P a b, select_T32 P hP a b (lt_trans ha hBR) (lt_trans hb hBR)⟩
  cswap := by
    intro a b ha hb
    have hBR : 2 ^ P.B < P.R := by rcases hP with rfl | rfl | rfl <;> decide
    exact ⟨cswap_zero P a b, cswap_T32 P hP a b (lt_trans ha hBR) (lt_trans hb hBR)⟩
  setSmall := by
    intro v hv
    obtain ⟨h1, h2⟩ := set_small_spec P hP (v % 2 ^ 32)
    refine ⟨h1, ?_⟩
    show xval P (set_small P (v % 2 ^ 32)) = (v : ZMod P.q)
    have hvv : v % 2 ^ 32 = v := Nat.mod_eq_of_lt hv
    simp only [hvv] at h2 ⊢
    have := cast_eq_of_mod_eq h2
    push_cast at this
    unfold xval; rw [this]; field_simp [R_ne_zero hP]
  encode := by
    intro a ha
    have hR : a < P.R := lt_trans ha (by rcases hP with rfl | rfl | rfl <;> decide)
    obtain ⟨e1, e2⟩ := encode_spec P hP a hR
    show encode P a = (xval P a).val
    have : xval P a = ((encode P a : Nat) : ZMod P.q) := by
      have := cast_eq_of_mod_eq e2
      push_cast at this
      unfold xval; rw [← this]; field_simp [R_ne_zero hP]
    rw [this, ZMod.val_natCast_of_lt e1]

end SqiProofs.GfX86Refines

/-
x86 back-end: the exponent chain of `gf*_sqrt` computes `a^((q+1)/4)` in the Montgomery domain, hence (Euler)
the returned value is a square root of every square — at the three levels (uses `square_spec` of the
repaired lvl3/lvl5 squaring).
-/
import Mathlib.NumberTheory.LegendreSymbol.Basic
import SqiProofs.GfX86ZMod

namespace SqiProofs.GfX86
set_option exponentiation.threshold 4096
set_option maxRecDepth 20000
open SqiModel.Gf SqiModel.Gf.X86

theorem xsquare_val (P : X86Params) (hP : IsLvl P) : ∀ (k a : Nat), a < 2 ^ P.B →
    xsquare P a k < 2 ^ P.B ∧ val P (xsquare P a k) = val P a ^ (2 ^ k) := by
  intro k
  induction k with
  | zero => intro a ha; simp [xsquare, ha]
  | succ k ih =>
    intro a ha
    obtain ⟨s1, s2⟩ := val_sqr P hP ha
    obtain ⟨i1, i2⟩ := ih (square P a) s1
    simp only [xsquare]
    refine ⟨i1, ?_⟩
    rw [i2, s2, ← pow_two, ← pow_mul, ← pow_succ']

/-- exponent of the chain: `(3 or 1)·(2^K1 + 1)·2^K2` -/
def sqrtExp (P : X86Params) : Nat := (if P.sqCube then 3 else 1) * (2 ^ P.sqK1 + 1) * 2 ^ P.sqK2

theorem sqrtExp_eq (P : X86Params) (hP : IsLvl P) : sqrtExp P = (P.q + 1) / 4 := by
  rcases hP with rfl | rfl | rfl <;> decide +kernel

/-- the candidate root before the sign normalisation -/
def sqrtCand (P : X86Params) (a : Nat) : Nat :=
  let y0 := if P.sqCube then mul P (square P a) a else a
  xsquare P (mul P (xsquare P y0 P.sqK1) y0) P.sqK2

theorem sqrtCand_val (P : X86Params) (hP : IsLvl P) {a : Nat} (ha : a < 2 ^ P.B) :
    sqrtCand P a < 2 ^ P.B ∧ val P (sqrtCand P a) = val P a ^ sqrtExp P := by
  have h0 : (if P.sqCube then mul P (square P a) a else a) < 2 ^ P.B ∧
      val P (if P.sqCube then mul P (square P a) a else a) = val P a ^ (if P.sqCube then 3 else 1) := by
    split
    · obtain ⟨s1, s2⟩ := val_sqr P hP ha
      obtain ⟨m1, m2⟩ := val_mul P hP s1 ha
      exact ⟨m1, by rw [m2, s2]; ring⟩
    · exact ⟨ha, by simp⟩
  obtain ⟨y1, y2⟩ := h0
  obtain ⟨x1, x2⟩ := xsquare_val P hP P.sqK1 _ y1
  obtain ⟨m1, m2⟩ := val_mul P hP x1 y1
  obtain ⟨z1, z2⟩ := xsquare_val P hP P.sqK2 _ m1
  refine ⟨z1, ?_⟩
  unfold sqrtCand sqrtExp
  simp only []
  rw [z2, m2, x2, y2]
  generalize (if P.sqCube = true then 3 else 1) = t
  rw [← pow_mul, ← pow_add, ← pow_mul]
  congr 1
  try ring

theorem sqrt_eq_cand (P : X86Params) (a : Nat) :
    (sqrt P a).1 = select P (sqrtCand P a) (neg P (sqrtCand P a))
      (if montgomery_reduce P (sqrtCand P a) % 2 = 1 then T32 else 0) := rfl

/-- **x86 `sqrt` returns a root of every square** (all three levels) -/
theorem sqrt_root (P : X86Params) (hP : IsLvl P) [Fact P.q.Prime] {a : Nat} (ha : a < 2 ^ P.B)
    (hsq : IsSquare (val P a)) : val P (sqrt P a).1 * val P (sqrt P a).1 = val P a := by
  obtain ⟨c1, c2⟩ := sqrtCand_val P hP ha
  obtain ⟨n1, n2⟩ := val_neg P hP c1
  obtain ⟨s0, sT⟩ := val_select P hP c1 n1
  have hq4 : P.q % 4 = 3 := by rcases hP with rfl | rfl | rfl <;> decide +kernel
  have hcand : val P (sqrtCand P a) * val P (sqrtCand P a) = val P a := by
    rw [c2, sqrtExp_eq P hP, ← pow_add]
    have : (P.q + 1) / 4 + (P.q + 1) / 4 = P.q / 2 + 1 := by omega
    rw [this, pow_succ]
    by_cases h0 : val P a = 0
    · rw [h0]; simp
    · rw [(ZMod.euler_criterion P.q h0).mp hsq, one_mul]
  rw [sqrt_eq_cand]
  by_cases hpar : montgomery_reduce P (sqrtCand P a) % 2 = 1
  · rw [if_pos hpar, sT, n2, neg_mul_neg]; exact hcand
  · rw [if_neg hpar, s0]; exact hcand

end SqiProofs.GfX86

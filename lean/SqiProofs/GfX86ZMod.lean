/-
x86 back-end: the Nat-level theorems of SqiProofs.GfX86 restated over `ZMod q` with the abstraction
`val a = a · R⁻¹` (the shapes of the `FpRefines` fields used by the GF(p²) proofs), `dom a := a < 2^B`.
`sqr` at every level (since the repair of the lvl3/lvl5 square); `inv`, `sqrt`, `isSquare` are not provided here (they rest
on the cited convergence of the binary GCD / on primality of q).
-/
import Mathlib.Data.ZMod.Basic
import Mathlib.Tactic.Ring
import SqiProofs.GfX86
namespace SqiProofs.GfX86
set_option exponentiation.threshold 4096
set_option maxRecDepth 20000
open SqiModel.Gf SqiModel.Gf.X86

/-- abstraction function: Montgomery representative ↦ field element -/
noncomputable def val (P : X86Params) (a : Nat) : ZMod P.q := (a : ZMod P.q) * ((P.R : ZMod P.q))⁻¹

theorem R_coprime (P : X86Params) (hP : IsLvl P) : Nat.Coprime P.R P.q := by
  rcases hP with rfl | rfl | rfl <;> decide +kernel

theorem R_mul_inv (P : X86Params) (hP : IsLvl P) : (P.R : ZMod P.q) * ((P.R : ZMod P.q))⁻¹ = 1 :=
  ZMod.coe_mul_inv_eq_one _ (R_coprime P hP)

theorem cast_of_mod_eq (P : X86Params) {x y : Nat} (h : x % P.q = y % P.q) : (x : ZMod P.q) = (y : ZMod P.q) :=
  (ZMod.natCast_eq_natCast_iff' x y P.q).mpr h

theorem val_add (P : X86Params) (hP : IsLvl P) {a b : Nat} (ha : a < 2 ^ P.B) (hb : b < 2 ^ P.B) :
    add P a b < 2 ^ P.B ∧ val P (add P a b) = val P a + val P b := by
  obtain ⟨h1, h2⟩ := add_spec P hP a b ha hb
  refine ⟨h1, ?_⟩
  have := cast_of_mod_eq P h2
  push_cast at this
  unfold val; rw [this]; ring

theorem val_sub (P : X86Params) (hP : IsLvl P) {a b : Nat} (ha : a < 2 ^ P.B) (hb : b < 2 ^ P.B) :
    sub P a b < 2 ^ P.B ∧ val P (sub P a b) = val P a - val P b := by
  obtain ⟨h1, h2⟩ := sub_spec P hP a b ha hb
  refine ⟨h1, ?_⟩
  have := cast_of_mod_eq P h2
  push_cast at this
  unfold val; rw [← this]; ring

theorem val_neg (P : X86Params) (hP : IsLvl P) {a : Nat} (ha : a < 2 ^ P.B) :
    neg P a < 2 ^ P.B ∧ val P (neg P a) = - val P a := by
  obtain ⟨h1, h2⟩ := neg_spec P hP a ha
  refine ⟨h1, ?_⟩
  have := cast_of_mod_eq P (x := neg P a + a) (y := 0) (by rw [h2, Nat.zero_mod])
  push_cast at this
  unfold val
  have e : ((neg P a : Nat) : ZMod P.q) = -(a : ZMod P.q) := eq_neg_of_add_eq_zero_left this
  rw [e]; ring

theorem val_mul (P : X86Params) (hP : IsLvl P) {a b : Nat} (ha : a < 2 ^ P.B) (hb : b < 2 ^ P.B) :
    mul P a b < 2 ^ P.B ∧ val P (mul P a b) = val P a * val P b := by
  obtain ⟨h1, h2⟩ := mul_spec P hP a b ha hb
  refine ⟨h1, ?_⟩
  have := cast_of_mod_eq P h2
  push_cast at this
  have hR := R_mul_inv P hP
  unfold val
  calc ((mul P a b : Nat) : ZMod P.q) * ((P.R : ZMod P.q))⁻¹
      = ((mul P a b : Nat) : ZMod P.q) * ((P.R : ZMod P.q) * ((P.R : ZMod P.q))⁻¹) * ((P.R : ZMod P.q))⁻¹ := by
        rw [hR]; ring
    _ = (((mul P a b : Nat) : ZMod P.q) * (P.R : ZMod P.q)) * ((P.R : ZMod P.q))⁻¹ * ((P.R : ZMod P.q))⁻¹ := by ring
    _ = _ := by rw [this]; ring

theorem val_sqr (P : X86Params) (hP : IsLvl P) {a : Nat} (ha : a < 2 ^ P.B) :
    square P a < 2 ^ P.B ∧ val P (square P a) = val P a * val P a := by
  rcases hP with rfl | rfl | rfl
  · exact val_mul x1 (Or.inl rfl) ha ha
  · exact val_mul x3 (Or.inr (Or.inl rfl)) ha ha
  · exact val_mul x5 (Or.inr (Or.inr rfl)) ha ha

theorem val_half (P : X86Params) (hP : IsLvl P) {a : Nat} (ha : a < 2 ^ P.B) :
    half P a < 2 ^ P.B ∧ val P (half P a) * 2 = val P a := by
  obtain ⟨h1, h2⟩ := half_spec P hP a ha
  refine ⟨h1, ?_⟩
  have := cast_of_mod_eq P h2
  push_cast at this
  unfold val; rw [← this]; ring

theorem val_eq_zero_iff (P : X86Params) (hP : IsLvl P) (a : Nat) : val P a = 0 ↔ a % P.q = 0 := by
  have hR := R_mul_inv P hP
  unfold val
  constructor
  · intro h
    have : (a : ZMod P.q) = 0 := by
      calc (a : ZMod P.q) = (a : ZMod P.q) * ((P.R : ZMod P.q))⁻¹ * (P.R : ZMod P.q) := by
            rw [mul_assoc, mul_comm _ (P.R : ZMod P.q), hR, mul_one]
        _ = 0 := by rw [h, zero_mul]
    exact (ZMod.natCast_eq_zero_iff a P.q).mp this |> Nat.mod_eq_zero_of_dvd
  · intro h
    have : (a : ZMod P.q) = 0 := (ZMod.natCast_eq_zero_iff a P.q).mpr (Nat.dvd_of_mod_eq_zero h)
    rw [this, zero_mul]

theorem val_isZero (P : X86Params) (hP : IsLvl P) {a : Nat} (ha : a < 2 ^ P.B) :
    (iszero P a = T32 ∧ val P a = 0) ∨ (iszero P a = 0 ∧ val P a ≠ 0) := by
  obtain ⟨h1, h2⟩ := iszero_spec P hP a ha
  rcases h2 with h | h
  · exact Or.inl ⟨h, (val_eq_zero_iff P hP a).mpr (h1.mp h)⟩
  · refine Or.inr ⟨h, fun hv => ?_⟩
    have := h1.mpr ((val_eq_zero_iff P hP a).mp hv)
    rw [h] at this
    exact absurd this (by decide)

theorem val_setSmall (P : X86Params) (hP : IsLvl P) (v : Nat) (hv : v < 2 ^ 32) :
    set_small P v < 2 ^ P.B ∧ val P (set_small P v) = (v : ZMod P.q) := by
  obtain ⟨h1, h2⟩ := set_small_spec P hP v
  refine ⟨h1, ?_⟩
  rw [Nat.mod_eq_of_lt hv] at h2
  have := cast_of_mod_eq P h2
  push_cast at this
  unfold val
  rw [this, mul_assoc, R_mul_inv P hP, mul_one]

theorem val_one (P : X86Params) (hP : IsLvl P) : P.one < 2 ^ P.B ∧ val P P.one = 1 := by
  obtain ⟨h1, h2⟩ := one_eq P hP
  refine ⟨h1, ?_⟩
  have := cast_of_mod_eq P h2
  unfold val
  rw [this, R_mul_inv P hP]

theorem val_zero (P : X86Params) : val P 0 = 0 := by simp [val]


theorem cast_eq_val_mul (P : X86Params) (hP : IsLvl P) (a : Nat) : (a : ZMod P.q) = val P a * (P.R : ZMod P.q) := by
  unfold val
  rw [mul_assoc, mul_comm _ (P.R : ZMod P.q), R_mul_inv P hP, mul_one]

theorem val_eq_iff (P : X86Params) (hP : IsLvl P) (a b : Nat) : val P a = val P b ↔ a % P.q = b % P.q := by
  rw [← ZMod.natCast_eq_natCast_iff']
  constructor
  · intro h; rw [cast_eq_val_mul P hP a, cast_eq_val_mul P hP b, h]
  · intro h; unfold val; rw [h]

theorem val_isEqual (P : X86Params) (hP : IsLvl P) {a b : Nat} (ha : a < 2 ^ P.B) (hb : b < 2 ^ P.B) :
    (equals P a b = T32 ∧ val P a = val P b) ∨ (equals P a b = 0 ∧ val P a ≠ val P b) := by
  obtain ⟨h1, h2⟩ := equals_spec P hP a b ha hb
  rcases h2 with h | h
  · exact Or.inl ⟨h, (val_eq_iff P hP a b).mpr (h1.mp h)⟩
  · refine Or.inr ⟨h, fun hv => ?_⟩
    have := h1.mpr ((val_eq_iff P hP a b).mp hv)
    rw [h] at this
    exact absurd this (by decide)

theorem val_select (P : X86Params) (hP : IsLvl P) {a b : Nat} (ha : a < 2 ^ P.B) (hb : b < 2 ^ P.B) :
    select P a b 0 = a ∧ select P a b T32 = b := by
  have hBR : 2 ^ P.B < P.R := by rcases hP with rfl | rfl | rfl <;> decide
  exact ⟨select_zero P a b, select_T32 P hP a b (by omega) (by omega)⟩

theorem val_cswap (P : X86Params) (hP : IsLvl P) {a b : Nat} (ha : a < 2 ^ P.B) (hb : b < 2 ^ P.B) :
    cswap P a b 0 = (a, b) ∧ cswap P a b T32 = (b, a) := by
  have hBR : 2 ^ P.B < P.R := by rcases hP with rfl | rfl | rfl <;> decide
  exact ⟨cswap_zero P a b, cswap_T32 P hP a b (by omega) (by omega)⟩

theorem val_encode (P : X86Params) (hP : IsLvl P) {a : Nat} (ha : a < 2 ^ P.B) :
    encode P a = (val P a).val := by
  have hBR : 2 ^ P.B < P.R := by rcases hP with rfl | rfl | rfl <;> decide
  obtain ⟨h1, h2⟩ := encode_spec P hP a (by omega)
  have hq : NeZero P.q := ⟨by rcases hP with rfl | rfl | rfl <;> decide⟩
  have := cast_of_mod_eq P h2
  push_cast at this
  have e : val P a = ((encode P a : Nat) : ZMod P.q) := by
    unfold val
    rw [← this, mul_assoc, R_mul_inv P hP, mul_one]
  rw [e, ZMod.val_natCast_of_lt h1]

end SqiProofs.GfX86

import SqiProofs.HnfFinal
/- C14: the output of `ibz_mat_4x8_hnf_core` is in (column) echelon Hermite form for EVERY input, rank-deficient
   ones included: some zero columns first, then pivot columns whose pivots (lowest non-zero entry) are positive, sit in
   strictly increasing rows, have zeros to their left and reduced entries to their right. -/
open SqiModel.Quat SqiProofs.QuatMat

namespace SqiProofs.Hnf

/-- column `c` of the work array has its lowest non-zero entry in row `r`, and it is positive -/
def PivotAt (a : Cols) (c r : Nat) : Prop := 0 < (a c).get r ∧ ∀ r', r < r' → (a c).get r' = 0

/-- column `c` is a pivot column of some processed row `r ≥ i`, with zeros left of the pivot, reduced entries right of
    it, and all columns further right having their pivots in lower rows -/
def ColOK (a : Cols) (i c : Nat) : Prop :=
  ∃ r, i ≤ r ∧ r ≤ 3 ∧ PivotAt a c r ∧ (∀ c', c' < c → (a c').get r = 0) ∧
    (∀ c', c < c' → c' ≤ 7 → 0 ≤ (a c').get r ∧ (a c').get r < (a c).get r) ∧
    (∀ c', c < c' → c' ≤ 7 → ∃ r', r < r' ∧ PivotAt a c' r')

theorem PivotAt_transfer {a a' : Cols} {i c r : Nat} (hr : i < r)
    (h : ∀ c r, i < r → (a' c).get r = (a c).get r) (hp : PivotAt a c r) : PivotAt a' c r := by
  refine ⟨by rw [h c r hr]; exact hp.1, fun r' hr' => ?_⟩
  rw [h c r' (by omega)]; exact hp.2 r' hr'

theorem ColOK_row {xgcd} (hx : XgcdSpec xgcd) (a0 a : Cols) (i k : Nat) (hinv : Inv a0 (i + 1) a k)
    (hE : ∀ c, k ≤ c → c ≤ 7 → ColOK a (i + 1) c) :
    ∀ c, (hnfRow xgcd i (a, k - 1)).2 ≤ c → c ≤ 7 → ColOK (hnfRow xgcd i (a, k - 1)).1 i c := by
  have hk1 : 1 ≤ k := by have := hinv.kl; omega
  have hpre : ∀ c, c ≤ k - 1 → ∀ r, i < r → (a c).get r = 0 :=
    fun c hc r hr => hinv.z c (by omega) r (by omega)
  obtain ⟨_, r2, r3, _, r5⟩ := hnfRow_spec hx i a (k - 1) hpre (by have := hinv.ku; omega)
  generalize hnfRow xgcd i (a, k - 1) = st at *
  intro c hc1 hc2
  by_cases hck : k ≤ c
  · obtain ⟨r, h1, h2, h3, h4, h5, h6⟩ := hE c hck hc2
    refine ⟨r, by omega, h2, PivotAt_transfer (by omega) r2 h3, ?_, ?_, ?_⟩
    · intro c' hc'; rw [r2 c' r (by omega)]; exact h4 c' hc'
    · intro c' hc' hc'7; rw [r2 c' r (by omega), r2 c r (by omega)]; exact h5 c' hc' hc'7
    · intro c' hc' hc'7
      obtain ⟨r', hr', hp'⟩ := h6 c' hc' hc'7
      exact ⟨r', hr', PivotAt_transfer (by omega) r2 hp'⟩
  · rcases r5 with ⟨e, p1, p2⟩ | e
    · have hc : c = k - 1 := by omega
      subst hc
      refine ⟨i, le_refl _, by have := hinv.kl; omega, ⟨p1, fun r' hr' => ?_⟩, ?_, ?_, ?_⟩
      · rw [r2 _ r' hr']; exact hinv.z _ (by omega) r' (by omega)
      · intro c' hc'; exact r3 c' (by omega)
      · intro c' hc' hc'7; exact p2 c' hc' hc'7
      · intro c' hc' hc'7
        obtain ⟨r, h1, _, h3, _, _, _⟩ := hE c' (by omega) hc'7
        exact ⟨r, by omega, PivotAt_transfer (by omega) r2 h3⟩
    · omega

theorem ColOK_outer {xgcd} (hx : XgcdSpec xgcd) (a0 : Cols) : ∀ (n : Nat) (a : Cols) (k : Nat), 1 ≤ n →
    Inv a0 n a k → (∀ c, k ≤ c → c ≤ 7 → ColOK a n c) →
    ∀ c, (hnfOuter xgcd n (a, k - 1)).2 ≤ c → c ≤ 7 → ColOK (hnfOuter xgcd n (a, k - 1)).1 0 c := by
  intro n
  induction n using Nat.strongRecOn with
  | _ n ih =>
    intro a k hn hinv hE
    match n, hn, hinv, hE, ih with
    | 1, _, hinv, hE, _ => simp only [hnfOuter]; exact ColOK_row hx a0 a 0 k hinv hE
    | m + 2, _, hinv, hE, ih =>
      simp only [hnfOuter]
      exact ih (m + 1) (by omega) _ _ (by omega) (Inv_row hx a0 a (m + 1) k hinv) (ColOK_row hx a0 a (m + 1) k hinv hE)

/-- echelon Hermite form of a 4×4 matrix in the C convention: `z` zero columns, then pivot columns -/
def IsEchelonHNF (m : Mat4) : Prop :=
  ∃ z, z ≤ 4 ∧ (∀ j, j < z → ∀ r, (m.col j).get r = 0) ∧
    ∀ j, z ≤ j → j < 4 → ∃ r, r < 4 ∧ 0 < (m.col j).get r ∧ (∀ r', r < r' → (m.col j).get r' = 0) ∧
      (∀ j', j' < j → (m.col j').get r = 0) ∧
      (∀ j', j < j' → j' < 4 → 0 ≤ (m.col j').get r ∧ (m.col j').get r < (m.col j).get r) ∧
      (∀ j', j < j' → j' < 4 → ∃ r', r < r' ∧ r' < 4 ∧ 0 < (m.col j').get r' ∧ ∀ r'', r' < r'' → (m.col j').get r'' = 0)

theorem col_ofCols_get (c : Nat → Vec4) (j : Nat) (hj : j < 4) :
    (Mat4.ofCols (c 0) (c 1) (c 2) (c 3)).col j = c j := by
  rcases j with _ | _ | _ | _ | j
  case succ.succ.succ.succ => omega
  all_goals rfl

/-- **every output of `ibz_mat_4x8_hnf_core` is in echelon Hermite form**, whatever the rank of the input -/
theorem hnfCoreWith_echelon {xgcd} (hx : XgcdSpec xgcd) (g : List Vec4) : IsEchelonHNF (hnfCoreWith xgcd g) := by
  have hinv := Inv_final hx (colsOfList g)
  have hE := ColOK_outer hx (colsOfList g) 4 (colsOfList g) 8 (by omega) (Inv_init _)
    (fun c h1 h2 => absurd h1 (by omega))
  unfold hnfCoreWith
  simp only []
  generalize (hnfOuter xgcd 4 (colsOfList g, 7)).1 = a at *
  generalize (hnfOuter xgcd 4 (colsOfList g, 7)).2 = k at *
  have hcol : ∀ j, j < 4 → (Mat4.ofCols (a 4) (a 5) (a 6) (a 7)).col j = a (4 + j) := by
    intro j hj
    have := col_ofCols_get (fun j => a (4 + j)) j hj
    simpa using this
  have hkl := hinv.kl
  have hku := hinv.ku
  refine ⟨k - 4, by omega, ?_, ?_⟩
  · intro j hj r
    rw [hcol j (by omega)]
    exact hinv.z (4 + j) (by omega) r (Nat.zero_le _)
  · intro j hj1 hj2
    obtain ⟨r, _, hr3, hp, hl, hrd, ho⟩ := hE (4 + j) (by omega) (by omega)
    refine ⟨r, by omega, ?_, ?_, ?_, ?_, ?_⟩
    · rw [hcol j hj2]; exact hp.1
    · intro r' hr'; rw [hcol j hj2]; exact hp.2 r' hr'
    · intro j' hj'; rw [hcol j' (by omega)]; exact hl (4 + j') (by omega)
    · intro j' hj' hj'4; rw [hcol j' hj'4, hcol j hj2]; exact hrd (4 + j') (by omega) (by omega)
    · intro j' hj' hj'4
      obtain ⟨r', hr', hp'⟩ := ho (4 + j') (by omega) (by omega)
      have hr'4 : r' < 4 := by
        by_contra hge
        have := hp'.1
        rw [get_ge4 _ r' (by omega)] at this
        omega
      refine ⟨r', hr', hr'4, ?_, ?_⟩
      · rw [hcol j' hj'4]; exact hp'.1
      · intro r'' hr''; rw [hcol j' hj'4]; exact hp'.2 r'' hr''

theorem hnfCore_echelon (g : List Vec4) : IsEchelonHNF (hnfCore g) :=
  hnfCoreWith_echelon SqiProofs.Xgcd.xgcdGmp_spec g

end SqiProofs.Hnf

import SqiProofs.Hnf
import SqiProofs.Xgcd
import Mathlib.LinearAlgebra.Matrix.Determinant.Basic
import Mathlib.LinearAlgebra.Matrix.Block
import Mathlib.Tactic.IntervalCases
/- C14, Hermite normal form: statements about the 4×4 output of `ibz_mat_4x8_hnf_core`. -/
open SqiModel.Quat SqiProofs.QuatMat SqiProofs.Hnf

namespace SqiProofs.Hnf

/-- ℤ-lattice spanned by a list of vectors -/
def spanL (l : List Vec4) : Submodule ℤ (Fin 4 → ℤ) := Submodule.span ℤ {v | ∃ x ∈ l, v = toVec x}

theorem mem_spanL {l : List Vec4} {x : Vec4} (h : x ∈ l) : toVec x ∈ spanL l :=
  Submodule.subset_span ⟨x, h, rfl⟩

theorem toVec_zero : toVec Vec4.zero = 0 := toVec_eq_zero get_zero

theorem getD_lt {l : List Vec4} {n : Nat} (d : Vec4) (h : n < l.length) : l.getD n d = l[n] := by
  simp [List.getD, List.getElem?_eq_getElem h]
theorem getD_ge {l : List Vec4} {n : Nat} (d : Vec4) (h : l.length ≤ n) : l.getD n d = d := by
  simp [List.getD, List.getElem?_eq_none h]

theorem S_colsOfList (g : List Vec4) : S (colsOfList g) = spanL g := by
  apply le_antisymm
  · apply Submodule.span_le.2
    rintro _ ⟨h, rfl⟩
    simp only [colsOfList]
    by_cases hh : h < g.length
    · rw [getD_lt _ hh]; exact mem_spanL (List.getElem_mem hh)
    · rw [getD_ge _ (by omega), toVec_zero]; exact Submodule.zero_mem _
  · apply Submodule.span_le.2
    rintro _ ⟨x, hx, rfl⟩
    obtain ⟨n, hn, rfl⟩ := List.getElem_of_mem hx
    have : toVec g[n] = toVec (colsOfList g n) := by simp only [colsOfList]; rw [getD_lt _ hn]
    rw [this]; exact mem_S _ n

theorem col_ofCols (c0 c1 c2 c3 : Vec4) :
    (Mat4.ofCols c0 c1 c2 c3).cols = [c0, c1, c2, c3] := rfl

theorem get_ofCols (c : Nat → Vec4) (r j : Nat) (hr : r < 4) (hj : j < 4) :
    (Mat4.ofCols (c 0) (c 1) (c 2) (c 3)).get r j = (c j).get r := by
  interval_cases r <;> interval_cases j <;> rfl

/-- **HNF span theorem**: the four output columns of `ibz_mat_4x8_hnf_core` generate the same ℤ-lattice as the
    (up to) eight input columns — for every input, of any rank and any size of entries. -/
theorem hnfCoreWith_span {xgcd} (hx : XgcdSpec xgcd) (g : List Vec4) (hg : g.length ≤ 8) :
    spanL (hnfCoreWith xgcd g).cols = spanL g := by
  have hinv := Inv_final hx (colsOfList g)
  unfold hnfCoreWith
  simp only [col_ofCols]
  generalize (hnfOuter xgcd 4 (colsOfList g, 7)).1 = a at *
  generalize (hnfOuter xgcd 4 (colsOfList g, 7)).2 = k at *
  rw [← S_colsOfList g, ← hinv.sp]
  apply le_antisymm
  · apply Submodule.span_le.2
    rintro _ ⟨x, hx, rfl⟩
    simp only [List.mem_cons, List.not_mem_nil, or_false] at hx
    rcases hx with rfl | rfl | rfl | rfl <;> exact mem_S a _
  · apply Submodule.span_le.2
    rintro _ ⟨h, rfl⟩
    show toVec (a h) ∈ spanL [a 4, a 5, a 6, a 7]
    by_cases h8 : 8 ≤ h
    · rw [hinv.e h h8]
      simp only [colsOfList]
      rw [getD_ge _ (by omega), toVec_zero]; exact Submodule.zero_mem _
    · by_cases hk : h < k
      · rw [toVec_eq_zero (fun r => hinv.z h hk r (Nat.zero_le _))]; exact Submodule.zero_mem _
      · have hkl := hinv.kl
        have : h = 4 ∨ h = 5 ∨ h = 6 ∨ h = 7 := by omega
        rcases this with rfl | rfl | rfl | rfl <;> exact mem_spanL (by simp)

/-- upper triangular, positive pivots, entries right of a pivot reduced modulo the pivot
    (the convention of `ibz_mat_4x4_is_hnf` for full-rank matrices) -/
def IsHNF (m : Mat4) : Prop :=
  (∀ r c, r < 4 → c < r → m.get r c = 0) ∧
  ∀ r, r < 4 → 0 < m.get r r ∧ ∀ c, r < c → c < 4 → 0 ≤ m.get r c ∧ m.get r c < m.get r r

/-- the output is always upper triangular, and each row with a non-zero diagonal entry has a positive pivot
    and reduced entries to its right -/
theorem hnfCoreWith_shape {xgcd} (hx : XgcdSpec xgcd) (g : List Vec4) :
    (∀ r c, r < 4 → c < r → (hnfCoreWith xgcd g).get r c = 0) ∧
    ∀ r, r < 4 → (hnfCoreWith xgcd g).get r r ≠ 0 →
      0 < (hnfCoreWith xgcd g).get r r ∧
      ∀ c, r < c → c < 4 → 0 ≤ (hnfCoreWith xgcd g).get r c ∧ (hnfCoreWith xgcd g).get r c < (hnfCoreWith xgcd g).get r r := by
  have hinv := Inv_final hx (colsOfList g)
  unfold hnfCoreWith
  simp only []
  generalize (hnfOuter xgcd 4 (colsOfList g, 7)).1 = a at *
  generalize (hnfOuter xgcd 4 (colsOfList g, 7)).2 = k at *
  have hget : ∀ r j, r < 4 → j < 4 → (Mat4.ofCols (a 4) (a 5) (a 6) (a 7)).get r j = (a (4 + j)).get r := by
    intro r j hr hj
    have := get_ofCols (fun j => a (4 + j)) r j hr hj
    simpa using this
  refine ⟨?_, ?_⟩
  · intro r c hr hc
    rw [hget r c hr (by omega)]
    by_cases hk : 4 + c < k
    · exact hinv.z _ hk r (Nat.zero_le _)
    · exact hinv.t _ (by omega) (by omega) r (by omega)
  · intro r hr hne
    rw [hget r r hr hr] at hne ⊢
    obtain ⟨p1, p2⟩ := hinv.h r (Nat.zero_le _) (by omega) hne
    refine ⟨p1, fun c hc1 hc2 => ?_⟩
    rw [hget r c hr hc2]
    exact p2 (4 + c) (by omega) (by omega)

theorem hnfCoreWith_isHNF {xgcd} (hx : XgcdSpec xgcd) (g : List Vec4)
    (hd : ∀ r, r < 4 → (hnfCoreWith xgcd g).get r r ≠ 0) : IsHNF (hnfCoreWith xgcd g) := by
  obtain ⟨h1, h2⟩ := hnfCoreWith_shape hx g
  exact ⟨h1, fun r hr => h2 r hr (hd r hr)⟩

/-- determinant of the (upper triangular) output = product of the diagonal -/
theorem hnfCoreWith_det {xgcd} (hx : XgcdSpec xgcd) (g : List Vec4) :
    (toMatrix (hnfCoreWith xgcd g)).det =
      (hnfCoreWith xgcd g).get 0 0 * (hnfCoreWith xgcd g).get 1 1 * (hnfCoreWith xgcd g).get 2 2 *
        (hnfCoreWith xgcd g).get 3 3 := by
  obtain ⟨h1, _⟩ := hnfCoreWith_shape hx g
  have hT : (toMatrix (hnfCoreWith xgcd g)).BlockTriangular id := by
    intro i j hij
    simp only [toMatrix, Matrix.of_apply]
    exact h1 i.val j.val i.isLt hij
  rw [Matrix.det_of_isUpperTriangular hT]
  simp [Fin.prod_univ_four, toMatrix, mul_assoc]

/-- a lattice in ℤ⁴ has full rank when it contains four vectors with non-zero determinant -/
def FullRank (L : Submodule ℤ (Fin 4 → ℤ)) : Prop :=
  ∃ W : Matrix (Fin 4) (Fin 4) ℤ, (∀ j, (fun i => W i j) ∈ L) ∧ W.det ≠ 0

theorem toVec_col (m : Mat4) (j : Fin 4) : toVec (m.col j.val) = fun i => toMatrix m i j := by
  ext i; fin_cases i <;> fin_cases j <;> rfl

theorem mem_spanL_cols_iff (m : Mat4) (v : Fin 4 → ℤ) :
    v ∈ spanL m.cols ↔ ∃ c : Fin 4 → ℤ, v = (toMatrix m).mulVec c := by
  have hset : {v | ∃ x ∈ m.cols, v = toVec x} = Set.range (fun j : Fin 4 => toVec (m.col j.val)) := by
    ext v; constructor
    · rintro ⟨x, hx, rfl⟩
      simp only [Mat4.cols, List.mem_cons, List.not_mem_nil, or_false] at hx
      rcases hx with rfl | rfl | rfl | rfl
      exacts [⟨0, rfl⟩, ⟨1, rfl⟩, ⟨2, rfl⟩, ⟨3, rfl⟩]
    · rintro ⟨j, rfl⟩
      refine ⟨m.col j.val, ?_, rfl⟩
      fin_cases j <;> simp [Mat4.cols]
  unfold spanL
  rw [hset, Submodule.mem_span_range_iff_exists_fun]
  constructor
  · rintro ⟨c, rfl⟩
    refine ⟨c, ?_⟩
    ext i
    simp only [Finset.sum_apply, Pi.smul_apply, smul_eq_mul, Matrix.mulVec, dotProduct, toVec_col]
    exact Finset.sum_congr rfl (fun j _ => mul_comm _ _)
  · rintro ⟨c, rfl⟩
    refine ⟨c, ?_⟩
    ext i
    simp only [Finset.sum_apply, Pi.smul_apply, smul_eq_mul, Matrix.mulVec, dotProduct, toVec_col]
    exact Finset.sum_congr rfl (fun j _ => mul_comm _ _)

/-- full-rank input ⇒ non-zero diagonal ⇒ the output is in Hermite normal form -/
theorem hnfCoreWith_isHNF_of_fullRank {xgcd} (hx : XgcdSpec xgcd) (g : List Vec4) (hg : g.length ≤ 8)
    (hfr : FullRank (spanL g)) : IsHNF (hnfCoreWith xgcd g) := by
  obtain ⟨W, hW, hdet⟩ := hfr
  rw [← hnfCoreWith_span hx g hg] at hW
  have : ∀ j, ∃ c : Fin 4 → ℤ, (fun i => W i j) = (toMatrix (hnfCoreWith xgcd g)).mulVec c :=
    fun j => (mem_spanL_cols_iff _ _).1 (hW j)
  choose C hC using this
  have hWeq : W = toMatrix (hnfCoreWith xgcd g) * Matrix.of (fun i j => C j i) := by
    ext i j
    have := congrFun (hC j) i
    simp only [Matrix.mulVec, dotProduct] at this
    rw [this, Matrix.mul_apply]
    rfl
  have hdet' : (toMatrix (hnfCoreWith xgcd g)).det ≠ 0 := by
    intro h0; apply hdet; rw [hWeq, Matrix.det_mul, h0, zero_mul]
  rw [hnfCoreWith_det hx g] at hdet'
  apply hnfCoreWith_isHNF hx g
  intro r hr
  interval_cases r
  · exact fun h => hdet' (by rw [h]; ring)
  · exact fun h => hdet' (by rw [h]; ring)
  · exact fun h => hdet' (by rw [h]; ring)
  · exact fun h => hdet' (by rw [h]; ring)

/-! instances for the GMP extended gcd used by the code -/
theorem hnfCore_span (g : List Vec4) (hg : g.length ≤ 8) : spanL (hnfCore g).cols = spanL g :=
  hnfCoreWith_span SqiProofs.Xgcd.xgcdGmp_spec g hg

theorem hnfCore_isHNF (g : List Vec4) (hg : g.length ≤ 8) (hfr : FullRank (spanL g)) : IsHNF (hnfCore g) :=
  hnfCoreWith_isHNF_of_fullRank SqiProofs.Xgcd.xgcdGmp_spec g hg hfr

end SqiProofs.Hnf

import SqiModel.Quat
import SqiGen.HnfCore
/- C14, tie T for the control flow of `ibz_mat_4x8_hnf_core`: the loop program translated from dim4.c
   (`SqiGen.HnfCore.core`: while/for loops with fuel, guards, integer updates of i/j/k) computes exactly the hand model
   `hnfOuter … 4 (a, 7)` when its three arithmetic blocks are the model's blocks — and it exits every loop through its
   condition, never through the fuel bound. -/
open SqiModel.Quat SqiGen.HnfCore

namespace SqiProofs.HnfText

/-- sign normalisation block of the model (`hnfRow`) -/
def normH (i k : Nat) (a : Cols) : Cols × Int :=
  (if (a k).get i < 0 then a.set k (a k).neg else a, if (a k).get i < 0 then -((a k).get i) else (a k).get i)

/-- reduction block of the model (`hnfReduce`) -/
def reduceH (i k j : Nat) (b : Int) (a : Cols) : Cols :=
  a.set j (Vec4.lc 1 (a j)
    (-(if Int.tmod ((a j).get i) b < 0 then Int.tdiv ((a j).get i) b - 1 else Int.tdiv ((a j).get i) b)) (a k))

theorem whileF_false {σ : Type} (n : Nat) (c : σ → Bool) (f : σ → σ) (s : σ) (h : c s = false) : whileF n c f s = s := by
  cases n with
  | zero => rfl
  | succ n => simp [whileF, h]

theorem whileF_true {σ : Type} (n : Nat) (c : σ → Bool) (f : σ → σ) (s : σ) (h : c s = true) :
    whileF (n + 1) c f s = whileF n c f (f s) := by simp [whileF, h]

/-- inner loop `while (j != 0) { j = j - 1; step }` = `hnfInner` -/
theorem inner_loop (xgcd : Int → Int → Int × Int × Int) (g : St Cols → St Cols)
    (hg : ∀ s, (g s).i = s.i ∧ (g s).k = s.k ∧ (g s).j = s.j - 1 ∧
      (g s).a = hnfStep xgcd s.i.toNat s.k.toNat (s.j - 1).toNat s.a) :
    ∀ (n fuel : Nat) (s : St Cols), n ≤ fuel → s.j = (n : Int) →
      (whileF fuel (fun s : St Cols => (s.j != 0)) g s).i = s.i ∧
      (whileF fuel (fun s : St Cols => (s.j != 0)) g s).k = s.k ∧
      (whileF fuel (fun s : St Cols => (s.j != 0)) g s).j = 0 ∧
      (whileF fuel (fun s : St Cols => (s.j != 0)) g s).a = hnfInner xgcd s.i.toNat s.k.toNat n s.a := by
  intro n
  induction n with
  | zero =>
    intro fuel s _ hj
    rw [whileF_false _ _ _ _ (by simp [hj])]
    exact ⟨rfl, rfl, by simpa using hj, rfl⟩
  | succ n ih =>
    intro fuel s hf hj
    obtain ⟨m, rfl⟩ : ∃ m, fuel = m + 1 := ⟨fuel - 1, by omega⟩
    rw [whileF_true _ _ _ _ (by simp [hj]; omega)]
    obtain ⟨g1, g2, g3, g4⟩ := hg s
    obtain ⟨r1, r2, r3, r4⟩ := ih m (g s) (by omega) (by rw [g3, hj]; push_cast; omega)
    refine ⟨by rw [r1, g1], by rw [r2, g2], r3, ?_⟩
    rw [r4, g1, g2, g4]
    have : (s.j - 1).toNat = n := by rw [hj]; push_cast; omega
    rw [this]
    rfl

/-- reduction loop `for (j = k+1; j < 8; j++) reduce` = `hnfReduce` -/
theorem reduce_loop (g : St Cols → St Cols)
    (hg : ∀ s, (g s).i = s.i ∧ (g s).k = s.k ∧ (g s).b = s.b ∧ (g s).j = s.j + 1 ∧
      (g s).a = reduceH s.i.toNat s.k.toNat s.j.toNat s.b s.a) :
    ∀ (m fuel j0 : Nat) (s : St Cols), m ≤ fuel → j0 + m = 8 → s.j = (j0 : Int) →
      (whileF fuel (fun s : St Cols => (decide (s.j < 8))) g s).i = s.i ∧
      (whileF fuel (fun s : St Cols => (decide (s.j < 8))) g s).k = s.k ∧
      (whileF fuel (fun s : St Cols => (decide (s.j < 8))) g s).a =
        hnfReduce s.i.toNat s.k.toNat s.b m j0 s.a := by
  intro m
  induction m with
  | zero =>
    intro fuel j0 s _ h8 hj
    rw [whileF_false _ _ _ _ (by simp [hj]; omega)]
    exact ⟨rfl, rfl, rfl⟩
  | succ m ih =>
    intro fuel j0 s hf h8 hj
    obtain ⟨f', rfl⟩ : ∃ f', fuel = f' + 1 := ⟨fuel - 1, by omega⟩
    rw [whileF_true _ _ _ _ (by simp [hj]; omega)]
    obtain ⟨g1, g2, g3, g4, g5⟩ := hg s
    obtain ⟨r1, r2, r3⟩ := ih f' (j0 + 1) (g s) (by omega) (by omega) (by rw [g4, hj]; omega)
    refine ⟨by rw [r1, g1], by rw [r2, g2], ?_⟩
    rw [r3, g1, g2, g3, g5]
    have : s.j.toNat = j0 := by rw [hj]; omega
    rw [this]
    rfl

theorem hnfRow_k (xgcd : Int → Int → Int × Int × Int) (i : Nat) (a : Cols) (k : Nat) :
    (hnfRow xgcd i (a, k)).2 = k ∨ (hnfRow xgcd i (a, k)).2 = k + 1 := by
  unfold hnfRow
  simp only []
  repeat' split
  all_goals first | (left; rfl) | (right; rfl)

/-- outer loop `while (i != -1) { row i; if (i != 0) { k--; j = k; } i--; }` = `hnfOuter` -/
theorem outer_loop (xgcd : Int → Int → Int × Int × Int) (f : St Cols → St Cols)
    (hf : ∀ (s : St Cols) (i k : Nat), s.i = (i : Int) → s.k = (k : Int) → s.j = (k : Int) → k ≤ 7 →
      (f s).i = s.i - 1 ∧ (f s).a = (hnfRow xgcd i (s.a, k)).1 ∧
      (f s).k = (if i ≠ 0 then (((hnfRow xgcd i (s.a, k)).2 : Nat) : Int) - 1 else (((hnfRow xgcd i (s.a, k)).2 : Nat) : Int)) ∧
      (i ≠ 0 → (f s).j = (f s).k)) :
    ∀ (n fuel : Nat) (s : St Cols) (k : Nat), 1 ≤ n → n ≤ fuel → s.i = ((n - 1 : Nat) : Int) → s.k = (k : Int) →
      s.j = (k : Int) → n ≤ k → k ≤ 7 →
      (whileF fuel (fun s : St Cols => (s.i != (-1))) f s).i = -1 ∧
      (whileF fuel (fun s : St Cols => (s.i != (-1))) f s).a = (hnfOuter xgcd n (s.a, k)).1 ∧
      (whileF fuel (fun s : St Cols => (s.i != (-1))) f s).k = (((hnfOuter xgcd n (s.a, k)).2 : Nat) : Int) := by
  intro n
  induction n using Nat.strongRecOn with
  | _ n ih =>
    intro fuel s k hn hfu hi hk hj hnk hk7
    obtain ⟨m, rfl⟩ : ∃ m, fuel = m + 1 := ⟨fuel - 1, by omega⟩
    rw [whileF_true _ _ _ _ (by simp [hi] <;> omega)]
    obtain ⟨f1, f2, f3, f4⟩ := hf s (n - 1) k hi hk hj hk7
    rcases hnfRow_k xgcd (n - 1) s.a k with hk' | hk'
    all_goals
      match n, hn, ih with
      | 1, _, _ =>
        simp only [Nat.sub_self, ne_eq, not_true_eq_false, if_false] at f1 f2 f3 hi
        rw [whileF_false _ _ _ _ (by simp [f1, hi])]
        refine ⟨by rw [f1, hi]; try rfl, by rw [f2]; try rfl, by rw [f3]; try rfl⟩
      | p + 2, _, ih =>
        have hne : p + 2 - 1 ≠ 0 := by omega
        simp only [hne, ne_eq, not_false_eq_true, if_true] at f3
        have e1 : p + 2 - 1 = p + 1 := by omega
        try simp only [e1] at f1 f2 f3 hk' hi
        have hkk : (f s).k = (((hnfRow xgcd (p + 1) (s.a, k)).2 - 1 : Nat) : Int) := by rw [f3]; omega
        obtain ⟨r1, r2, r3⟩ := ih (p + 1) (by omega) m (f s) ((hnfRow xgcd (p + 1) (s.a, k)).2 - 1) (by omega) (by omega)
          (by rw [f1, hi]; push_cast; omega) hkk (by rw [f4 (by omega), hkk]) (by omega) (by omega)
        refine ⟨r1, ?_, ?_⟩
        · rw [r2, f2]; rfl
        · rw [r3, f2]; rfl

theorem hnfRow_eq (xgcd : Int → Int → Int × Int × Int) (i : Nat) (a : Cols) (k : Nat) :
    hnfRow xgcd i (a, k) =
      (if (normH i k (hnfInner xgcd i k k a)).2 = 0 then ((normH i k (hnfInner xgcd i k k a)).1, k + 1)
       else (hnfReduce i k (normH i k (hnfInner xgcd i k k a)).2 (7 - k) (k + 1) (normH i k (hnfInner xgcd i k k a)).1, k)) := rfl

/-- **the translated control program computes the hand model** and leaves its loops through their conditions -/
theorem core_eq_hnfOuter (xgcd : Int → Int → Int × Int × Int) (a0 : Cols) :
    (core (hnfStep xgcd) normH reduceH a0).i = -1 ∧
    (core (hnfStep xgcd) normH reduceH a0).a = (hnfOuter xgcd 4 (a0, 7)).1 ∧
    (core (hnfStep xgcd) normH reduceH a0).k = (((hnfOuter xgcd 4 (a0, 7)).2 : Nat) : Int) := by
  unfold core
  refine outer_loop xgcd _ ?_ 4 16 _ 7 (by omega) (by omega) rfl rfl rfl (by omega) (by omega)
  intro s i k hi hk hj hk7
  -- inner loop
  obtain ⟨n1, n2, n3, n4⟩ := inner_loop xgcd
    (fun s : St Cols => { { s with j := s.j - 1 } with a := hnfStep xgcd s.i.toNat s.k.toNat (s.j - 1).toNat s.a })
    (fun s => ⟨rfl, rfl, rfl, rfl⟩) k 16 s (by omega) hj
  have hiN : s.i.toNat = i := by rw [hi]; omega
  have hkN : s.k.toNat = k := by rw [hk]; omega
  rw [hiN, hkN] at n4
  rw [hnfRow_eq]
  generalize hs1 : whileF 16 (fun s : St Cols => (s.j != 0))
    (fun s : St Cols => { { s with j := s.j - 1 } with a := hnfStep xgcd s.i.toNat s.k.toNat (s.j - 1).toNat s.a }) s = s1 at *
  simp only []
  -- everything below only depends on the fields of s1
  obtain ⟨i1, j1, k1, a1, b1⟩ := s1
  simp only at n1 n2 n3 n4
  subst n1 n2 n3 n4
  have hiN' : s.i.toNat = i := hiN
  simp only [hs1, hiN, hkN]
  by_cases hb : (normH i k (hnfInner xgcd i k k s.a)).2 = 0
  · simp only [hb, beq_self_eq_true, if_true]
    by_cases hi0 : i = 0
    · subst hi0
      have h0 : (s.i != 0) = false := by rw [hi]; rfl
      simp only [h0, Bool.false_eq_true, if_false, ne_eq, not_true_eq_false]
      refine ⟨?_, ?_, ?_, ?_⟩ <;>
        first | rfl | (intro h; exact absurd rfl h) | (intro _; rfl) | (simp only [hk]; omega) | (simp [hk]) | omega
    · have h1 : (s.i != 0) = true := by simp [hi]; omega
      simp only [h1, if_true, ne_eq, hi0, not_false_eq_true]
      refine ⟨?_, ?_, ?_, ?_⟩ <;>
        first | rfl | (intro h; exact absurd rfl h) | (intro _; rfl) | (simp only [hk]; omega) | (simp [hk]) | omega
  · have hb' : ((normH i k (hnfInner xgcd i k k s.a)).2 == 0) = false := by simpa using hb
    simp only [hb, hb', Bool.false_eq_true, if_false]
    obtain ⟨r1, r2, r3⟩ := reduce_loop
      (fun s : St Cols => { { s with a := reduceH s.i.toNat s.k.toNat s.j.toNat s.b s.a } with j := s.j + 1 })
      (fun s => ⟨rfl, rfl, rfl, rfl, rfl⟩) (7 - k) 16 (k + 1)
      { i := s.i, j := s.k + 1, k := s.k, a := (normH i k (hnfInner xgcd i k k s.a)).1, b := (normH i k (hnfInner xgcd i k k s.a)).2 }
      (by omega) (by omega) (by simp only [hk]; push_cast; rfl)
    simp only [hiN, hkN] at r1 r2 r3
    generalize whileF 16 (fun s : St Cols => decide (s.j < 8))
      (fun s : St Cols => { { s with a := reduceH s.i.toNat s.k.toNat s.j.toNat s.b s.a } with j := s.j + 1 })
      { i := s.i, j := s.k + 1, k := s.k, a := (normH i k (hnfInner xgcd i k k s.a)).1, b := (normH i k (hnfInner xgcd i k k s.a)).2 } = s2 at *
    obtain ⟨i2, j2, k2, a2, b2⟩ := s2
    simp only at r1 r2 r3
    subst r1 r2 r3
    by_cases hi0 : i = 0
    · subst hi0
      have h0 : (s.i != 0) = false := by rw [hi]; rfl
      simp only [h0, Bool.false_eq_true, if_false, ne_eq, not_true_eq_false]
      refine ⟨?_, ?_, ?_, ?_⟩ <;>
        first | rfl | (intro h; exact absurd rfl h) | (intro _; rfl) | (simp only [hk]; omega) | (simp [hk]) | omega
    · have h1 : (s.i != 0) = true := by simp [hi]; omega
      simp only [h1, if_true, ne_eq, hi0, not_false_eq_true]
      refine ⟨?_, ?_, ?_, ?_⟩ <;>
        first | rfl | (intro h; exact absurd rfl h) | (intro _; rfl) | (simp only [hk]; omega) | (simp [hk]) | omega

/-! ### the three arithmetic blocks as translated, lifted to the work array -/

theorem cols_ext {a b : Cols} (h : ∀ c, a c = b c) : a = b := by
  cases a; cases b
  simp only [Cols.mk.injEq]
  funext c
  exact h c

/-- the inner step as translated, acting on columns j and k of the work array -/
def innerStepG (xgcd : Int → Int → Int × Int × Int) (i k j : Nat) (a : Cols) : Cols :=
  (a.set j (inner_step xgcd Int.tdiv Int.tmod Vec4.get Vec4.lc Vec4.neg i (a k) (a j)).1).set k
    (inner_step xgcd Int.tdiv Int.tmod Vec4.get Vec4.lc Vec4.neg i (a k) (a j)).2

def normG (xgcd : Int → Int → Int × Int × Int) (i k : Nat) (a : Cols) : Cols × Int :=
  (a.set k (normalise xgcd Int.tdiv Int.tmod Vec4.get Vec4.lc Vec4.neg i (a k)).1,
   (normalise xgcd Int.tdiv Int.tmod Vec4.get Vec4.lc Vec4.neg i (a k)).2)

def reduceG (xgcd : Int → Int → Int × Int × Int) (i k j : Nat) (b : Int) (a : Cols) : Cols :=
  a.set j (reduce_step xgcd Int.tdiv Int.tmod Vec4.get Vec4.lc Vec4.neg i b (a k) (a j))

theorem innerStepG_eq (xgcd : Int → Int → Int × Int × Int) : innerStepG xgcd = hnfStep xgcd := by
  funext i k j a
  apply cols_ext
  intro c
  unfold innerStepG hnfStep inner_step
  by_cases h0 : (a j).get i = 0
  · simp only [h0, if_true, ne_eq, not_true_eq_false, if_false, Cols.set]
    show (if c = k then a.get k else if c = j then a.get j else a.get c) = a.get c
    split
    · rename_i h; rw [h]
    · split
      · rename_i h; rw [h]
      · rfl
  · simp only [h0, if_false, ne_eq, not_false_eq_true, if_true]

theorem normG_eq (xgcd : Int → Int → Int × Int × Int) : normG xgcd = normH := by
  funext i k a
  unfold normG normH normalise
  simp only []
  by_cases h : (a k).get i < 0
  · simp only [h, if_true]
  · simp only [h, if_false, Prod.mk.injEq, and_true]
    apply cols_ext
    intro c
    simp only [Cols.set]
    show (if c = k then a.get k else a.get c) = a.get c
    split
    · rename_i h'; rw [h']
    · rfl

theorem reduceG_eq (xgcd : Int → Int → Int × Int × Int) : reduceG xgcd = reduceH := by
  funext i k j b a
  rfl

/-- **tie T for `ibz_mat_4x8_hnf_core`**: the loop program AND the arithmetic blocks translated from the C text, put
    together, compute the hand model `hnfCoreWith` (the function all HNF theorems are about); every loop is left through
    its condition (`i = -1` at the end), never through the fuel bound of the translation. -/
theorem core_text_eq_model (xgcd : Int → Int → Int × Int × Int) (g : List Vec4) :
    (core (innerStepG xgcd) (normG xgcd) (reduceG xgcd) (colsOfList g)).i = -1 ∧
    Mat4.ofCols ((core (innerStepG xgcd) (normG xgcd) (reduceG xgcd) (colsOfList g)).a 4)
        ((core (innerStepG xgcd) (normG xgcd) (reduceG xgcd) (colsOfList g)).a 5)
        ((core (innerStepG xgcd) (normG xgcd) (reduceG xgcd) (colsOfList g)).a 6)
        ((core (innerStepG xgcd) (normG xgcd) (reduceG xgcd) (colsOfList g)).a 7) = hnfCoreWith xgcd g := by
  rw [innerStepG_eq, normG_eq, reduceG_eq]
  obtain ⟨h1, h2, _⟩ := core_eq_hnfOuter xgcd (colsOfList g)
  refine ⟨h1, ?_⟩
  rw [h2]
  rfl

end SqiProofs.HnfText

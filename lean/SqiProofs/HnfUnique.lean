import SqiProofs.HnfFinal
import Mathlib.Tactic.FinCases
import Mathlib.Tactic.Linarith
/- C14: uniqueness of the Hermite normal form (4×4, convention of the C code): two HNF matrices whose columns
   generate the same lattice are equal. -/
open SqiModel.Quat SqiProofs.QuatMat

namespace SqiProofs.Hnf

theorem small_mult {d x y u : ℤ} (hd : 0 < d) (hx0 : 0 ≤ x) (hx : x < d) (hy0 : 0 ≤ y) (hy : y < d)
    (h : y = d * u + x) : u = 0 := by
  rcases lt_trichotomy u 0 with hu | hu | hu
  · have : d * u ≤ d * (-1) := mul_le_mul_of_nonneg_left (by omega) (le_of_lt hd)
    omega
  · exact hu
  · have : d * 1 ≤ d * u := mul_le_mul_of_nonneg_left (by omega) (le_of_lt hd)
    omega

theorem unit_of_pos {a b u : ℤ} (ha : 0 < a) (hb : 0 < b) (h : b = a * u) (h' : a ∣ b ∧ b ∣ a) : u = 1 := by
  have hab : a = b := Int.dvd_antisymm (le_of_lt ha) (le_of_lt hb) h'.1 h'.2
  rw [← hab] at h
  have : a * 1 = a * u := by rw [mul_one]; exact h
  exact (mul_left_cancel₀ (ne_of_gt ha) this).symm

/-- columns of `m'` are integer combinations of the columns of `m` -/
def ColsIn (m' m : Mat4) : Prop := ∀ x ∈ m'.cols, toVec x ∈ spanL m.cols

theorem colsIn_of_span_eq {m m' : Mat4} (h : spanL m'.cols = spanL m.cols) : ColsIn m' m :=
  fun _ hx => h ▸ mem_spanL hx

/-- explicit form of `ColsIn` : m' = m · U -/
theorem colsIn_explicit {m' m : Mat4} (h : ColsIn m' m) :
    ∃ U : Fin 4 → Fin 4 → ℤ, ∀ (r j : Fin 4),
      m'.get r.val j.val = m.get r.val 0 * U 0 j + m.get r.val 1 * U 1 j + m.get r.val 2 * U 2 j + m.get r.val 3 * U 3 j := by
  have : ∀ j : Fin 4, ∃ c : Fin 4 → ℤ, toVec (m'.col j.val) = (toMatrix m).mulVec c := by
    intro j
    apply (mem_spanL_cols_iff m _).1
    apply h
    fin_cases j <;> simp [Mat4.cols]
  choose C hC using this
  refine ⟨fun i j => C j i, fun r j => ?_⟩
  have := congrFun (hC j) r
  rw [toVec_col] at this
  simp only [Matrix.mulVec, dotProduct, Fin.sum_univ_four, toMatrix, Matrix.of_apply] at this
  exact this

theorem isHNF_get {m : Mat4} (h : IsHNF m) :
    (m.get 1 0 = 0 ∧ m.get 2 0 = 0 ∧ m.get 2 1 = 0 ∧ m.get 3 0 = 0 ∧ m.get 3 1 = 0 ∧ m.get 3 2 = 0) ∧
    (0 < m.get 0 0 ∧ 0 < m.get 1 1 ∧ 0 < m.get 2 2 ∧ 0 < m.get 3 3) ∧
    (0 ≤ m.get 0 1 ∧ m.get 0 1 < m.get 0 0) ∧ (0 ≤ m.get 0 2 ∧ m.get 0 2 < m.get 0 0) ∧
    (0 ≤ m.get 0 3 ∧ m.get 0 3 < m.get 0 0) ∧ (0 ≤ m.get 1 2 ∧ m.get 1 2 < m.get 1 1) ∧
    (0 ≤ m.get 1 3 ∧ m.get 1 3 < m.get 1 1) ∧ (0 ≤ m.get 2 3 ∧ m.get 2 3 < m.get 2 2) := by
  obtain ⟨z, p⟩ := h
  refine ⟨⟨z 1 0 (by omega) (by omega), z 2 0 (by omega) (by omega), z 2 1 (by omega) (by omega),
    z 3 0 (by omega) (by omega), z 3 1 (by omega) (by omega), z 3 2 (by omega) (by omega)⟩,
    ⟨(p 0 (by omega)).1, (p 1 (by omega)).1, (p 2 (by omega)).1, (p 3 (by omega)).1⟩,
    (p 0 (by omega)).2 1 (by omega) (by omega), (p 0 (by omega)).2 2 (by omega) (by omega),
    (p 0 (by omega)).2 3 (by omega) (by omega), (p 1 (by omega)).2 2 (by omega) (by omega),
    (p 1 (by omega)).2 3 (by omega) (by omega), (p 2 (by omega)).2 3 (by omega) (by omega)⟩

/-- triangularity of the transformation and divisibility of the diagonals -/
theorem diag_dvd {m m' : Mat4} (hm : IsHNF m) (hm' : IsHNF m') (h : ColsIn m' m) :
    ∃ U : Fin 4 → Fin 4 → ℤ,
      (∀ (r j : Fin 4), m'.get r.val j.val =
        m.get r.val 0 * U 0 j + m.get r.val 1 * U 1 j + m.get r.val 2 * U 2 j + m.get r.val 3 * U 3 j) ∧
      (U 1 0 = 0 ∧ U 2 0 = 0 ∧ U 2 1 = 0 ∧ U 3 0 = 0 ∧ U 3 1 = 0 ∧ U 3 2 = 0) ∧
      (m'.get 0 0 = m.get 0 0 * U 0 0 ∧ m'.get 1 1 = m.get 1 1 * U 1 1 ∧ m'.get 2 2 = m.get 2 2 * U 2 2 ∧
        m'.get 3 3 = m.get 3 3 * U 3 3) := by
  obtain ⟨U, hU⟩ := colsIn_explicit h
  obtain ⟨⟨z10, z20, z21, z30, z31, z32⟩, ⟨p0, p1, p2, p3⟩, _⟩ := isHNF_get hm
  obtain ⟨⟨y10, y20, y21, y30, y31, y32⟩, _, _⟩ := isHNF_get hm'
  have e30 := hU 3 0; have e31 := hU 3 1; have e32 := hU 3 2; have e33 := hU 3 3
  have e20 := hU 2 0; have e21 := hU 2 1; have e22 := hU 2 2
  have e10 := hU 1 0; have e11 := hU 1 1; have e00 := hU 0 0
  simp only [Fin.val_zero, Fin.val_one, Fin.val_two, show ((3 : Fin 4).val) = 3 from rfl] at *
  rw [z30, z31, z32] at e30 e31 e32 e33
  rw [z20, z21] at e20 e21 e22
  rw [z10] at e10 e11
  rw [y30] at e30; rw [y31] at e31; rw [y32] at e32; rw [y20] at e20; rw [y21] at e21; rw [y10] at e10
  have u30 : U 3 0 = 0 := by
    have : m.get 3 3 * U 3 0 = 0 := by linarith
    rcases mul_eq_zero.1 this with h | h; exact absurd h (ne_of_gt p3); exact h
  have u31 : U 3 1 = 0 := by
    have : m.get 3 3 * U 3 1 = 0 := by linarith
    rcases mul_eq_zero.1 this with h | h; exact absurd h (ne_of_gt p3); exact h
  have u32 : U 3 2 = 0 := by
    have : m.get 3 3 * U 3 2 = 0 := by linarith
    rcases mul_eq_zero.1 this with h | h; exact absurd h (ne_of_gt p3); exact h
  rw [u30] at e20 e10 e00; rw [u31] at e21 e11; rw [u32] at e22
  have u20 : U 2 0 = 0 := by
    have : m.get 2 2 * U 2 0 = 0 := by linarith
    rcases mul_eq_zero.1 this with h | h; exact absurd h (ne_of_gt p2); exact h
  have u21 : U 2 1 = 0 := by
    have : m.get 2 2 * U 2 1 = 0 := by linarith
    rcases mul_eq_zero.1 this with h | h; exact absurd h (ne_of_gt p2); exact h
  rw [u20] at e10 e00; rw [u21] at e11
  have u10 : U 1 0 = 0 := by
    have : m.get 1 1 * U 1 0 = 0 := by linarith
    rcases mul_eq_zero.1 this with h | h; exact absurd h (ne_of_gt p1); exact h
  rw [u10] at e00
  refine ⟨U, hU, ⟨u10, u20, u21, u30, u31, u32⟩, by linarith, by linarith, by linarith, by linarith⟩

/-- **uniqueness of the Hermite normal form** -/
theorem hnf_unique {m m' : Mat4} (hm : IsHNF m) (hm' : IsHNF m') (h : spanL m'.cols = spanL m.cols) : m' = m := by
  obtain ⟨U, hU, ⟨u10, u20, u21, u30, u31, u32⟩, d0, d1, d2, d3⟩ := diag_dvd hm hm' (colsIn_of_span_eq h)
  obtain ⟨V, _, _, f0, f1, f2, f3⟩ := diag_dvd hm' hm (colsIn_of_span_eq h.symm)
  obtain ⟨⟨z10, z20, z21, z30, z31, z32⟩, ⟨p0, p1, p2, p3⟩, b01, b02, b03, b12, b13, b23⟩ := isHNF_get hm
  obtain ⟨⟨y10, y20, y21, y30, y31, y32⟩, ⟨q0, q1, q2, q3⟩, c01, c02, c03, c12, c13, c23⟩ := isHNF_get hm'
  have U00 : U 0 0 = 1 := unit_of_pos p0 q0 d0 ⟨⟨_, d0⟩, ⟨_, f0⟩⟩
  have U11 : U 1 1 = 1 := unit_of_pos p1 q1 d1 ⟨⟨_, d1⟩, ⟨_, f1⟩⟩
  have U22 : U 2 2 = 1 := unit_of_pos p2 q2 d2 ⟨⟨_, d2⟩, ⟨_, f2⟩⟩
  have U33 : U 3 3 = 1 := unit_of_pos p3 q3 d3 ⟨⟨_, d3⟩, ⟨_, f3⟩⟩
  have e01 := hU 0 1; have e02 := hU 0 2; have e03 := hU 0 3
  have e12 := hU 1 2; have e13 := hU 1 3; have e23 := hU 2 3
  simp only [Fin.val_zero, Fin.val_one, Fin.val_two, show ((3 : Fin 4).val) = 3 from rfl] at *
  rw [U00, mul_one] at d0; rw [U11, mul_one] at d1; rw [U22, mul_one] at d2; rw [U33, mul_one] at d3
  -- row 2
  rw [z20, z21, U33] at e23
  have U23 : U 2 3 = 0 := small_mult p2 b23.1 b23.2 c23.1 (by rw [d2] at c23; exact c23.2) (by linarith)
  -- row 1
  rw [z10, U22, u32] at e12
  have U12 : U 1 2 = 0 := small_mult p1 b12.1 b12.2 c12.1 (by rw [d1] at c12; exact c12.2) (by linarith)
  rw [z10, U23, U33] at e13
  have U13 : U 1 3 = 0 := small_mult p1 b13.1 b13.2 c13.1 (by rw [d1] at c13; exact c13.2) (by linarith)
  -- row 0
  rw [U11, u21, u31] at e01
  have U01 : U 0 1 = 0 := small_mult p0 b01.1 b01.2 c01.1 (by rw [d0] at c01; exact c01.2) (by linarith)
  rw [U12, U22, u32] at e02
  have U02 : U 0 2 = 0 := small_mult p0 b02.1 b02.2 c02.1 (by rw [d0] at c02; exact c02.2) (by linarith)
  rw [U13, U23, U33] at e03
  have U03 : U 0 3 = 0 := small_mult p0 b03.1 b03.2 c03.1 (by rw [d0] at c03; exact c03.2) (by linarith)
  rw [U23] at e23; rw [U12] at e12; rw [U13] at e13; rw [U01] at e01; rw [U02] at e02; rw [U03] at e03
  -- assemble
  obtain ⟨⟨a00, a01, a02, a03⟩, ⟨a10, a11, a12, a13⟩, ⟨a20, a21, a22, a23⟩, ⟨a30, a31, a32, a33⟩⟩ := m
  obtain ⟨⟨b00, b01', b02', b03'⟩, ⟨b10, b11, b12', b13'⟩, ⟨b20, b21, b22, b23'⟩, ⟨b30, b31, b32, b33⟩⟩ := m'
  simp only [Mat4.get, Mat4.row, Vec4.get] at *
  simp only [Mat4.mk.injEq, Vec4.mk.injEq]
  refine ⟨⟨?_, ?_, ?_, ?_⟩, ⟨?_, ?_, ?_, ?_⟩, ⟨?_, ?_, ?_, ?_⟩, ⟨?_, ?_, ?_, ?_⟩⟩ <;> linarith

end SqiProofs.Hnf

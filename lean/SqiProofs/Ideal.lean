import SqiModel.Ideal
import SqiProofs.QuatHLat
import SqiProofs.QuatIndex
import SqiProofs.QuatCanon
/- C15 lemmas: the ideal constructors of `SqiModel.Ideal` at the level of ℤ-lattices inside the quaternion
   algebra `H p = ℍ[ℚ, -1, 0, -p]` (`hLat p L : Submodule ℤ (H p)`), on top of the C14 lattice theorems. -/
open SqiModel.Quat SqiModel.Ideal SqiProofs.QuatAlg SqiProofs.QuatMat SqiProofs.Hnf SqiProofs.QuatLattice
open scoped Pointwise

namespace SqiProofs.Ideal

/-! ## integer helpers -/

theorem ibzSqrt_true (prev a : ℤ) (h : (ibzSqrt prev a).1 = true) :
    0 ≤ (ibzSqrt prev a).2 ∧ (ibzSqrt prev a).2 * (ibzSqrt prev a).2 = a := by
  unfold ibzSqrt at h ⊢
  by_cases ha : a < 0
  · simp [ha] at h
  · simp only [ha, if_false] at h ⊢
    by_cases hs : Nat.sqrt a.toNat * Nat.sqrt a.toNat = a.toNat
    · simp only [hs, if_true]
      refine ⟨Int.natCast_nonneg _, ?_⟩
      have : ((Nat.sqrt a.toNat * Nat.sqrt a.toNat : ℕ) : ℤ) = (a.toNat : ℤ) := by rw [hs]
      push_cast at this
      rw [this]; omega
    · simp [hs] at h

theorem ibzSqrt_false (prev a : ℤ) (h : (ibzSqrt prev a).1 = false) :
    (ibzSqrt prev a).2 = prev ∧ ¬ ∃ s : ℤ, s * s = a := by
  unfold ibzSqrt at h ⊢
  by_cases ha : a < 0
  · simp only [ha, if_true]
    refine ⟨by first | rfl | trivial, ?_⟩
    rintro ⟨s, hs⟩
    have := mul_self_nonneg s
    omega
  · simp only [ha, if_false] at h ⊢
    by_cases hs : Nat.sqrt a.toNat * Nat.sqrt a.toNat = a.toNat
    · simp [hs] at h
    · simp only [hs, if_false]
      refine ⟨by first | rfl | trivial, ?_⟩
      rintro ⟨s, hs'⟩
      apply hs
      have h1 : s.natAbs * s.natAbs = a.toNat := by
        have : ((s.natAbs * s.natAbs : ℕ) : ℤ) = a := by
          rw [Nat.cast_mul, Int.natAbs_mul_self', hs']
        omega
      rw [← h1, Nat.sqrt_eq]

/-- `ibq_to_ibz` on a canonical rational that is an integer -/
theorem ibqToIbz_of_int (prev n d m : ℤ) (hd : 0 < d) (hc : Int.gcd n d = 1) (h : (n : ℚ) / d = m) :
    ibqToIbz prev (n, d) = (true, m) := by
  have hdq : (d : ℚ) ≠ 0 := by exact_mod_cast (ne_of_gt hd)
  have e : n = m * d := by
    have : (n : ℚ) = m * d := by rw [← h]; field_simp
    exact_mod_cast this
  have hd1 : d = 1 := by
    have : (d : ℤ) ∣ n := ⟨m, by rw [e]; ring⟩
    have h2 := Int.gcd_eq_right (le_of_lt hd) this
    rw [hc] at h2
    exact_mod_cast h2.symm
  subst hd1
  unfold ibqToIbz
  simp [e]

/-- `ibq_to_ibz` on a canonical rational that is *not* an integer leaves the destination untouched -/
theorem ibqToIbz_of_not_int (prev n d : ℤ) (hd : 0 < d) (h : ¬ ∃ m : ℤ, (n : ℚ) / d = m) :
    ibqToIbz prev (n, d) = (false, prev) := by
  unfold ibqToIbz
  have hd0 : d ≠ 0 := ne_of_gt hd
  simp only [hd0, if_false]
  by_cases hm : Int.tmod n d = 0
  · exfalso
    apply h
    have hdvd : d ∣ n := Int.dvd_of_tmod_eq_zero hm
    obtain ⟨k, hk⟩ := hdvd
    refine ⟨k, ?_⟩
    have hdq : (d : ℚ) ≠ 0 := by exact_mod_cast hd0
    rw [hk]; push_cast; field_simp
  · simp [hm]

/-! ## principal lattices -/

theorem principalLattice_spec (p : ℤ) (x : Elem) (O : Lattice) (hO : O.denom ≠ 0) (hx : x.denom ≠ 0) :
    hLat p (principalLattice p x O) = hLat p O * Submodule.span ℤ {val p x} ∧ (principalLattice p x O).denom ≠ 0 := by
  unfold principalLattice
  have h0 : (x.denom * O.denom) ≠ 0 := mul_ne_zero hx hO
  obtain ⟨_, h1⟩ := latReduceDenom_spec ⟨x.denom * O.denom, (rightMulMat p x).mul O.basis⟩ h0
  refine ⟨?_, (latHnf_spec _ h1).2⟩
  rw [hLat_hnf p _ h1, hLat_reduceDenom p _ h0, hLat_rightMul p O x hO hx]

/-- the stored norm of `quat_lideal_create_principal` when N(x) is the integer `n` -/
theorem createPrincipal_norm (p : ℤ) (x : Elem) (O : Lattice) (prev n : ℤ) (hx : x.denom ≠ 0)
    (hn : nrm (val p x) = n) : (createPrincipal p x O prev).norm = n := by
  have hv := algNorm_val p x hx
  unfold createPrincipal normInto
  cases hq : algNorm p x with
  | none => rw [hq] at hv; simp [qval] at hv
  | some q =>
    obtain ⟨a, d⟩ := q
    rw [hq] at hv
    simp only [qval, Option.some.injEq] at hv
    -- canonical form from ibqSet
    have hd : (algMul p x (algConj x)).denom ≠ 0 := algMul_denom_ne p x (algConj x) hx (by simpa [algConj] using hx)
    obtain ⟨a', d', h1, h2, _, h4⟩ := ibqSet_spec (algMul p x (algConj x)).coord.x0 (algMul p x (algConj x)).denom hd
    have : algNorm p x = some (a', d') := by unfold algNorm; exact h1
    rw [hq] at this
    simp only [Option.some.injEq, Prod.mk.injEq] at this
    obtain ⟨rfl, rfl⟩ := this
    simp only []
    rw [ibqToIbz_of_int prev a d n h2 h4 (by rw [hv, hn])]

theorem createPrincipal_lattice (p : ℤ) (x : Elem) (O : Lattice) (prev : ℤ) :
    (createPrincipal p x O prev).lattice = principalLattice p x O := rfl

theorem createPrincipal_order (p : ℤ) (x : Elem) (O : Lattice) (prev : ℤ) :
    (createPrincipal p x O prev).order = O := rfl

/-! ## `O·x + O·N` -/

/-- the lattice `N·L` inside `H p` -/
abbrev smulLat (p : ℤ) (N : ℤ) (L : Submodule ℤ (H p)) : Submodule ℤ (H p) := L.map (LinearMap.lsmul ℤ (H p) N)

theorem createFromPrimitive_lattice (p : ℤ) (x : Elem) (N : ℤ) (O : Lattice) (prev : ℤ)
    (hO : O.denom ≠ 0) (hx : x.denom ≠ 0) :
    hLat p (createFromPrimitive p x N O prev).lattice =
      hLat p O * Submodule.span ℤ {val p x} ⊔ smulLat p N (hLat p O) ∧
    (createFromPrimitive p x N O prev).lattice.denom ≠ 0 := by
  obtain ⟨e1, d1⟩ := principalLattice_spec p x O hO hx
  have hl : (createFromPrimitive p x N O prev).lattice =
      latAdd (principalLattice p x O) ⟨O.denom, O.basis.scalarMul N⟩ := rfl
  rw [hl]
  have hO' : (⟨O.denom, O.basis.scalarMul N⟩ : Lattice).denom ≠ 0 := hO
  refine ⟨?_, (latAdd_spec (principalLattice p x O) ⟨O.denom, O.basis.scalarMul N⟩ d1 hO').2⟩
  rw [hLat_add p (principalLattice p x O) ⟨O.denom, O.basis.scalarMul N⟩ d1 hO', e1, hLat_scalarMul]

theorem createFromPrimitive_norm (p : ℤ) (x : Elem) (N : ℤ) (O : Lattice) (prev n : ℤ) (hx : x.denom ≠ 0)
    (hn : nrm (val p x) = n) : (createFromPrimitive p x N O prev).norm = (Int.gcd n N : ℤ) := by
  show ibzGcd (createPrincipal p x O prev).norm N = _
  rw [createPrincipal_norm p x O prev n hx hn]
  rfl

/-! ## closure lemmas in `Submodule ℤ (H p)` -/

theorem smulLat_le_of_one_mem (p : ℤ) (N : ℤ) (L : Submodule ℤ (H p)) : smulLat p N L ≤ L := by
  rintro _ ⟨y, hy, rfl⟩
  simpa using L.smul_mem N hy

theorem mul_smulLat (p : ℤ) (N : ℤ) (A L : Submodule ℤ (H p)) : A * smulLat p N L = smulLat p N (A * L) := by
  apply le_antisymm
  · rw [Submodule.mul_le]
    rintro a ha _ ⟨y, hy, rfl⟩
    refine ⟨a * y, Submodule.mul_mem_mul ha hy, ?_⟩
    show N • (a * y) = a * (N • y)
    rw [mul_smul_comm]
  · rintro _ ⟨z, hz, rfl⟩
    refine Submodule.mul_induction_on hz ?_ ?_
    · intro a ha y hy
      have : (LinearMap.lsmul ℤ (H p) N) (a * y) = a * (LinearMap.lsmul ℤ (H p) N) y := by
        show N • (a * y) = a * (N • y)
        rw [mul_smul_comm]
      rw [this]
      exact Submodule.mul_mem_mul ha ⟨y, hy, rfl⟩
    · intro u v hu hv
      rw [map_add]; exact Submodule.add_mem _ hu hv

/-- `O·x + N·O` is a left `O`-module when `O` is closed under multiplication -/
theorem leftIdeal_of_gen (p : ℤ) (N : ℤ) (O : Submodule ℤ (H p)) (z : H p) (hO : O * O ≤ O) :
    O * (O * Submodule.span ℤ {z} ⊔ smulLat p N O) ≤ O * Submodule.span ℤ {z} ⊔ smulLat p N O := by
  rw [Submodule.mul_sup]
  apply sup_le_sup
  · rw [← mul_assoc]
    exact Submodule.mul_le.2 (fun m hm n hn => Submodule.mul_mem_mul (hO hm) hn)
  · rw [mul_smulLat]; exact Submodule.map_mono hO

theorem gen_mem (p : ℤ) (N : ℤ) (O : Submodule ℤ (H p)) (z : H p) (h1 : (1 : H p) ∈ O) :
    z ∈ O * Submodule.span ℤ {z} ⊔ smulLat p N O := by
  apply Submodule.mem_sup_left
  have := Submodule.mul_mem_mul h1 (Submodule.mem_span_singleton_self (R := ℤ) z)
  simpa using this

theorem scalar_mem (p : ℤ) (N : ℤ) (O : Submodule ℤ (H p)) (z : H p) (h1 : (1 : H p) ∈ O) :
    ((N : ℤ) : H p) ∈ O * Submodule.span ℤ {z} ⊔ smulLat p N O := by
  apply Submodule.mem_sup_right
  refine ⟨1, h1, ?_⟩
  simp

/-! ## soundness of the certificate checkers -/

theorem isHnfStrict_sound (m : Mat4) (h : isHnfStrict m = true) : IsHNF m := by
  unfold isHnfStrict idx4 at h
  simp only [List.all_cons, List.all_nil, Bool.and_true, Bool.and_eq_true, decide_eq_true_eq] at h
  obtain ⟨⟨p0, r0⟩, ⟨p1, r1⟩, ⟨p2, r2⟩, ⟨p3, r3⟩⟩ := h
  simp at r0 r1 r2 r3
  refine ⟨?_, ?_⟩
  · intro r c hr hc
    have : r = 1 ∧ c = 0 ∨ r = 2 ∧ c = 0 ∨ r = 2 ∧ c = 1 ∨ r = 3 ∧ c = 0 ∨ r = 3 ∧ c = 1 ∨ r = 3 ∧ c = 2 := by omega
    rcases this with ⟨rfl, rfl⟩ | ⟨rfl, rfl⟩ | ⟨rfl, rfl⟩ | ⟨rfl, rfl⟩ | ⟨rfl, rfl⟩ | ⟨rfl, rfl⟩ <;> simp_all
  · intro r hr
    have : r = 0 ∨ r = 1 ∨ r = 2 ∨ r = 3 := by omega
    rcases this with rfl | rfl | rfl | rfl
    all_goals
      refine ⟨by assumption, ?_⟩
      intro c hc1 hc2
      have : c = 1 ∨ c = 2 ∨ c = 3 := by omega
      rcases this with rfl | rfl | rfl <;> omega

theorem latWf_sound (l : Lattice) (h : latWf l = true) : l.denom ≠ 0 ∧ IsHNF l.basis := by
  unfold latWf at h
  simp only [Bool.and_eq_true, bne_iff_ne, ne_eq] at h
  exact ⟨h.1.1, isHnfStrict_sound _ h.2⟩

theorem mem_cols (m : Mat4) (a : Vec4) (ha : a ∈ m.cols) : ∃ k, k ∈ idx4 ∧ a = m.col k := by
  simp only [Mat4.cols, List.mem_cons, List.not_mem_nil, or_false] at ha
  rcases ha with rfl | rfl | rfl | rfl
  · exact ⟨0, by simp [idx4], rfl⟩
  · exact ⟨1, by simp [idx4], rfl⟩
  · exact ⟨2, by simp [idx4], rfl⟩
  · exact ⟨3, by simp [idx4], rfl⟩

/-- all 16 products of basis vectors lie in `l3` ⇒ `L1·L2 ⊆ L3` -/
theorem prodsContained_sound (p : ℤ) (l1 l2 l3 : Lattice) (h : prodsContained p l1 l2 l3 = true)
    (h1 : l1.denom ≠ 0) (h2 : l2.denom ≠ 0) (h3 : l3.denom ≠ 0) (hn : IsHNF l3.basis) :
    hLat p l1 * hLat p l2 ≤ hLat p l3 := by
  rw [hLat_eq_span p l1, hLat_eq_span p l2, Submodule.span_mul_span, Submodule.span_le]
  rintro _ ⟨u, ⟨a, ha, rfl⟩, v, ⟨b, hb, rfl⟩, rfl⟩
  obtain ⟨k, hk, rfl⟩ := mem_cols _ _ ha
  obtain ⟨i, hi, rfl⟩ := mem_cols _ _ hb
  unfold prodsContained at h
  rw [List.all_eq_true] at h
  have h' := h k hk
  rw [List.all_eq_true] at h'
  have h'' := h' i hi
  have hd : (algMul p (latCol l1 k) (latCol l2 i)).denom ≠ 0 := algMul_denom_ne p _ _ h1 h2
  have := (latContains_iff_val p l3 _ h3 hd hn).1 h''
  rw [algMul_val p _ _ h1 h2] at this
  exact this

theorem one_mem_of_contains (p : ℤ) (O : Lattice) (hO : O.denom ≠ 0) (hn : IsHNF O.basis)
    (h : (latContains O elemOne).1 = true) : (1 : H p) ∈ hLat p O := by
  have := (latContains_iff_val p O elemOne hO (by decide) hn).1 h
  have e : val p elemOne = 1 := by
    apply QuaternionAlgebra.ext <;> simp [val, elemOne]
  rwa [e] at this

/-- `isOrderCert` ⇒ the lattice is a subring of `H p` containing 1 -/
theorem isOrderCert_sound (p : ℤ) (O : Lattice) (h : isOrderCert p O = true) :
    O.denom ≠ 0 ∧ IsHNF O.basis ∧ (1 : H p) ∈ hLat p O ∧ hLat p O * hLat p O ≤ hLat p O := by
  unfold isOrderCert at h
  simp only [Bool.and_eq_true] at h
  obtain ⟨⟨⟨hw, h1⟩, hc⟩, _⟩ := h
  obtain ⟨hd, hn⟩ := latWf_sound O hw
  exact ⟨hd, hn, one_mem_of_contains p O hd hn h1, prodsContained_sound p O O O hc hd hd hd hn⟩

/-- `isRightTransporterCert` ⇒ `L1·T ⊆ L2`, i.e. `T ⊆ { x | L1·x ⊆ L2 }` -/
theorem isRightTransporterCert_sound (p : ℤ) (L1 L2 T : Lattice) (h : isRightTransporterCert p L1 L2 T = true) :
    hLat p L1 * hLat p T ≤ hLat p L2 := by
  unfold isRightTransporterCert at h
  simp only [Bool.and_eq_true, bne_iff_ne, ne_eq] at h
  obtain ⟨⟨⟨hw, h1⟩, ht⟩, hc⟩ := h
  obtain ⟨hd, hn⟩ := latWf_sound L2 hw
  exact prodsContained_sound p L1 T L2 hc h1 ht hd hn

theorem isLeftIdealCert_sound (p : ℤ) (O I : Lattice) (hO : O.denom ≠ 0) (h : isLeftIdealCert p O I = true) :
    hLat p O * hLat p I ≤ hLat p I := by
  unfold isLeftIdealCert at h
  simp only [Bool.and_eq_true] at h
  obtain ⟨hd, hn⟩ := latWf_sound I h.1
  exact prodsContained_sound p O I I h.2 hO hd hd hn

/-- covolume comparison of two HNF lattices -/
theorem covolRatioIs_sound (l1 l2 : Lattice) (a b : ℤ) (h : covolRatioIs l1 l2 a b = true)
    (h1 : l1.denom ≠ 0) (h2 : l2.denom ≠ 0) (hn1 : IsHNF l1.basis) (hn2 : IsHNF l2.basis) :
    covol l1 * |(b : ℚ)| = covol l2 * |(a : ℚ)| := by
  unfold covolRatioIs at h
  simp only [beq_iff_eq] at h
  have e1 := det_of_upper l1.basis hn1.1
  have e2 := det_of_upper l2.basis hn2.1
  have hq : (((diagProd l1.basis).natAbs * (pow4 l2.denom).natAbs * b.natAbs : ℕ) : ℚ) =
      (((diagProd l2.basis).natAbs * (pow4 l1.denom).natAbs * a.natAbs : ℕ) : ℚ) := by rw [h]
  push_cast at hq
  simp only [Nat.cast_natAbs, Int.cast_abs] at hq
  unfold covol
  have hd1 : |(l1.denom : ℚ)| ≠ 0 := by simpa using h1
  have hd2 : |(l2.denom : ℚ)| ≠ 0 := by simpa using h2
  have k1 : ((diagProd l1.basis : ℤ) : ℚ) = ((toMatrix l1.basis).det : ℚ) := by rw [e1]; rfl
  have k2 : ((diagProd l2.basis : ℤ) : ℚ) = ((toMatrix l2.basis).det : ℚ) := by rw [e2]; rfl
  have p1 : |((pow4 l1.denom : ℤ) : ℚ)| = |(l1.denom : ℚ)| ^ 4 := by
    unfold pow4; push_cast; rw [← abs_pow]; congr 1; ring
  have p2 : |((pow4 l2.denom : ℤ) : ℚ)| = |(l2.denom : ℚ)| ^ 4 := by
    unfold pow4; push_cast; rw [← abs_pow]; congr 1; ring
  rw [k1, k2, p1, p2] at hq
  field_simp
  linarith

/-- `isRightOrderCert` ⇒ `O'` is a ring with 1, `I·O' ⊆ I`, and `covol O' = covol O` -/
theorem isRightOrderCert_sound (p : ℤ) (I : LeftIdeal) (O' : Lattice) (hO : I.order.denom ≠ 0)
    (hOn : IsHNF I.order.basis) (h : isRightOrderCert p I O' = true) :
    (1 : H p) ∈ hLat p O' ∧ hLat p O' * hLat p O' ≤ hLat p O' ∧
    hLat p I.lattice * hLat p O' ≤ hLat p I.lattice ∧ covol O' = covol I.order := by
  unfold isRightOrderCert at h
  simp only [Bool.and_eq_true] at h
  obtain ⟨⟨⟨ho, hw⟩, hc⟩, hv⟩ := h
  obtain ⟨hd', hn', h1, hm⟩ := isOrderCert_sound p O' ho
  obtain ⟨hdI, hnI⟩ := latWf_sound I.lattice hw
  refine ⟨h1, hm, prodsContained_sound p I.lattice O' I.lattice hc hdI hd' hdI hnI, ?_⟩
  have := covolRatioIs_sound O' I.order 1 1 hv hd' hO hn' hOn
  simpa using this

/-- `isomCert` ⇒ `I2 = I1·iso` as lattices in `H p` -/
theorem isomCert_sound (p : ℤ) (I1 I2 : Lattice) (iso : Elem) (h : isomCert p I1 I2 iso = true) :
    hLat p I2 = hLat p I1 * Submodule.span ℤ {val p iso} := by
  unfold isomCert at h
  simp only [Bool.and_eq_true, bne_iff_ne, ne_eq] at h
  obtain ⟨⟨⟨⟨hi, h1⟩, hwM⟩, hw2⟩, he⟩ := h
  obtain ⟨hdM, hnM⟩ := latWf_sound _ hwM
  obtain ⟨hd2, hn2⟩ := latWf_sound _ hw2
  have := (latEqual_spec _ _ hdM hd2 hnM hn2).1 he
  rw [← hLat_congr p this]
  exact (principalLattice_spec p iso I1 h1 hi).1

/-! ## sums, intersections, equality -/

theorem mul_sup_le (O A B : Submodule ℤ (H p)) (hA : O * A ≤ A) (hB : O * B ≤ B) : O * (A ⊔ B) ≤ A ⊔ B := by
  rw [Submodule.mul_sup]; exact sup_le_sup hA hB

theorem mul_inf_le (O A B : Submodule ℤ (H p)) (hA : O * A ≤ A) (hB : O * B ≤ B) : O * (A ⊓ B) ≤ A ⊓ B := by
  rw [Submodule.mul_le]
  intro m hm n hn
  exact ⟨hA (Submodule.mul_mem_mul hm hn.1), hB (Submodule.mul_mem_mul hm hn.2)⟩

theorem det_ne_zero_of_isHNF (m : Mat4) (h : IsHNF m) : (toMatrix m).det ≠ 0 := by
  rw [det_of_upper m h.1]
  have h0 := (h.2 0 (by omega)).1
  have h1 := (h.2 1 (by omega)).1
  have h2 := (h.2 2 (by omega)).1
  have h3 := (h.2 3 (by omega)).1
  positivity

theorem lidealAdd_lattice (p : ℤ) (I1 I2 : LeftIdeal) (h1 : I1.lattice.denom ≠ 0) (h2 : I2.lattice.denom ≠ 0) :
    hLat p (lidealAdd I1 I2).lattice = hLat p I1.lattice ⊔ hLat p I2.lattice :=
  hLat_add p I1.lattice I2.lattice h1 h2

theorem lidealInter_lattice (p : ℤ) (I1 I2 : LeftIdeal) (h1 : I1.lattice.denom ≠ 0) (h2 : I2.lattice.denom ≠ 0)
    (hn1 : IsHNF I1.lattice.basis) (hn2 : IsHNF I2.lattice.basis) :
    hLat p (lidealInter I1 I2).lattice = hLat p I1.lattice ⊓ hLat p I2.lattice :=
  hLat_intersect p I1.lattice I2.lattice h1 h2 (det_ne_zero_of_isHNF _ hn1) (det_ne_zero_of_isHNF _ hn2)

/-- the norm stored by `quat_lideal_add` / `quat_lideal_inter`: the square root of the index when the index is a
    perfect square, otherwise (assert compiled out) the index itself -/
theorem withIndexNorm_norm (lat O : Lattice) :
    (0 ≤ (withIndexNorm lat O).norm ∧ (withIndexNorm lat O).norm * (withIndexNorm lat O).norm = latIndex lat O) ∨
    ((withIndexNorm lat O).norm = latIndex lat O ∧ ¬ ∃ s : ℤ, s * s = latIndex lat O) := by
  unfold withIndexNorm
  simp only []
  cases hb : (ibzSqrt (latIndex lat O) (latIndex lat O)).1
  · exact Or.inr (ibzSqrt_false _ _ hb)
  · exact Or.inl (ibzSqrt_true _ _ hb)

/-- `quat_lideal_equals` on HNF lattices: same parent order, same stored norm and the same lattice -/
theorem lidealEquals_iff (p : ℤ) (I1 I2 : LeftIdeal) (h1 : I1.lattice.denom ≠ 0) (h2 : I2.lattice.denom ≠ 0)
    (hn1 : IsHNF I1.lattice.basis) (hn2 : IsHNF I2.lattice.basis) :
    lidealEquals I1 I2 = true ↔ I1.order = I2.order ∧ I1.norm = I2.norm ∧ hLat p I1.lattice = hLat p I2.lattice := by
  unfold lidealEquals
  simp only [Bool.and_eq_true, beq_iff_eq, and_assoc]
  rw [latEqual_spec _ _ h1 h2 hn1 hn2]
  constructor
  · rintro ⟨a, b, c⟩; exact ⟨a, b, hLat_congr p c⟩
  · rintro ⟨a, b, c⟩
    refine ⟨a, b, ?_⟩
    rw [hLat_eq_map, hLat_eq_map] at c
    exact Submodule.map_injective_of_injective (toH_injective p) c

/-! ## generators -/

theorem genCandidate_mem (p : ℤ) (I : LeftIdeal) (v : Vec4) (hd : I.lattice.denom ≠ 0) :
    val p (genCandidate I v) ∈ hLat p I.lattice := by
  rw [val_mem_hLat_iff, mem_ratLat_iff _ _ hd (by exact hd)]
  exact ⟨v, rfl⟩

/-- the acceptance tests of `quat_lideal_generator_coprime`, as statements about the reduced norm -/
theorem genAccept_spec (p : ℤ) (I : LeftIdeal) (n : ℤ) (g : Elem) (hg : g.denom ≠ 0) (h : genAccept p I n g = true) :
    ∃ ng : ℤ, nrm (val p g) = ng ∧ I.norm ∣ ng ∧ Int.gcd (I.norm * n) (ng / I.norm) = 1 ∧
      Int.gcd (n * n) ng = Int.gcd n I.norm := by
  have hv := algNorm_val p g hg
  have hd : (algMul p g (algConj g)).denom ≠ 0 := algMul_denom_ne p g (algConj g) hg (by simpa [algConj] using hg)
  obtain ⟨a, d, h1, h2, _, h4⟩ := ibqSet_spec (algMul p g (algConj g)).coord.x0 (algMul p g (algConj g)).denom hd
  have hq : algNorm p g = some (a, d) := by unfold algNorm; exact h1
  rw [hq] at hv
  simp only [qval, Option.some.injEq] at hv
  unfold genAccept normInto at h
  rw [hq] at h
  simp only [] at h
  by_cases hint : ∃ m : ℤ, (a : ℚ) / d = m
  · obtain ⟨m, hm⟩ := hint
    rw [ibqToIbz_of_int 0 a d m h2 h4 hm] at h
    simp only [Bool.not_true, Bool.false_eq_true, if_false, ibzDiv] at h
    refine ⟨m, by rw [← hv, hm], ?_⟩
    by_cases hr : Int.tmod m I.norm = 0
    · have hdvd : I.norm ∣ m := Int.dvd_of_tmod_eq_zero hr
      simp only [hr, ne_eq, not_true_eq_false, if_false] at h
      simp only [Int.tdiv_eq_ediv_of_dvd hdvd] at h
      by_cases hc : ibzGcd (I.norm * n) (m / I.norm) = 1
      · simp only [hc, not_true_eq_false, if_false, beq_iff_eq] at h
        unfold ibzGcd at hc h
        refine ⟨hdvd, by exact_mod_cast hc, by exact_mod_cast h⟩
      · simp [hc] at h
    · simp [hr] at h
  · rw [ibqToIbz_of_not_int 0 a d h2 hint] at h
    simp at h

theorem generatorCoprime_sound (p : ℤ) (I : LeftIdeal) (n bound : ℤ) (g : Elem)
    (h : generatorCoprime p I n bound = some g) :
    ∃ v : Vec4, v.content = 1 ∧ g = genCandidate I v ∧ genAccept p I n g = true := by
  unfold generatorCoprime at h
  obtain ⟨m, _, h⟩ := List.exists_of_findSome?_eq_some h
  unfold genSearchNorm at h
  obtain ⟨a, _, h⟩ := List.exists_of_findSome?_eq_some h
  obtain ⟨b, _, h⟩ := List.exists_of_findSome?_eq_some h
  obtain ⟨c, _, h⟩ := List.exists_of_findSome?_eq_some h
  unfold genTry at h
  simp only [] at h
  split at h
  · rename_i hc
    split at h
    · rename_i ha
      simp only [Option.some.injEq] at h
      exact ⟨_, hc, h.symm, by rw [← h]; exact ha⟩
    · simp at h
  · simp at h

/-! ## product by an element -/

theorem lidealMul_sound (p : ℤ) (I : LeftIdeal) (alpha : Elem) (bound prev : ℤ) (J : LeftIdeal)
    (h : lidealMul p I alpha bound prev = some J) :
    ∃ (g : Elem) (n N' : ℤ), generatorCoprime p I n bound = some g ∧
      J = createFromPrimitive p (algMul p g alpha) N' I.order prev := by
  unfold lidealMul at h
  simp only [] at h
  split at h
  · simp at h
  · rename_i g hg
    simp only [Option.some.injEq] at h
    exact ⟨g, _, _, hg, h.symm⟩

/-! ## table entries -/

theorem hasMaximalDisc_sound (p : ℤ) (hp : p ≠ 0) (O : Lattice) (h : hasMaximalDisc p O = true) :
    covol O = 1 / 4 := by
  unfold hasMaximalDisc traceDisc at h
  simp only [Bool.and_eq_true, bne_iff_ne, ne_eq, beq_iff_eq] at h
  obtain ⟨hd, he⟩ := h
  unfold det4 at he
  rw [invWithDet_det] at he
  have hd0 : O.denom ≠ 0 := by
    intro h0; apply hd; simp [pow4, h0]
  set D := (toMatrix O.basis).det with hD
  have hp2 : p * p ≠ 0 := mul_ne_zero hp hp
  have e1 : 16 * (D * D) = pow4 O.denom * pow4 O.denom := by
    have : p * p * (16 * (D * D)) = p * p * (pow4 O.denom * pow4 O.denom) := by linarith
    exact mul_left_cancel₀ hp2 this
  have e2 : (4 * |D|) * (4 * |D|) = pow4 O.denom * pow4 O.denom := by
    rw [← e1]; have := abs_mul_abs_self D; nlinarith
  have hpos : 0 ≤ pow4 O.denom := by unfold pow4; exact mul_self_nonneg _
  have e3 : 4 * |D| = pow4 O.denom := by
    have h4 : 0 ≤ 4 * |D| := by positivity
    nlinarith [abs_nonneg D, mul_self_nonneg (4 * |D| - pow4 O.denom), mul_self_nonneg (4 * |D| + pow4 O.denom)]
  unfold covol
  have hdq : |(O.denom : ℚ)| ^ 4 ≠ 0 := by
    apply pow_ne_zero; simpa using hd0
  rw [div_eq_div_iff hdq (by norm_num)]
  have e4 : ((4 * |D| : ℤ) : ℚ) = ((pow4 O.denom : ℤ) : ℚ) := by rw [e3]
  have e5 : ((pow4 O.denom : ℤ) : ℚ) = |(O.denom : ℚ)| ^ 4 := by
    unfold pow4; push_cast
    have h2 : |(O.denom : ℚ)| ^ 2 = (O.denom : ℚ) ^ 2 := sq_abs _
    have : |(O.denom : ℚ)| ^ 4 = ((O.denom : ℚ) ^ 2) ^ 2 := by
      calc |(O.denom : ℚ)| ^ 4 = (|(O.denom : ℚ)| ^ 2) ^ 2 := by ring
        _ = ((O.denom : ℚ) ^ 2) ^ 2 := by rw [h2]
    rw [this]; ring
  rw [← e5, ← e4]
  simp only [Int.cast_mul, Int.cast_abs, Int.cast_ofNat]
  ring

/-- a table entry accepted by `maxOrderOk` denotes a subring of `H p` with 1 of covolume 1/4 (reduced discriminant p) -/
theorem maxOrderOk_sound (p : ℤ) (hp : p ≠ 0) (t : ℤ × List (List ℤ)) (h : maxOrderOk p t = true) :
    ∃ O : Lattice, latOfTable t = some O ∧ O.denom ≠ 0 ∧ IsHNF O.basis ∧ (1 : H p) ∈ hLat p O ∧
      hLat p O * hLat p O ≤ hLat p O ∧ covol O = 1 / 4 := by
  unfold maxOrderOk at h
  split at h
  · rename_i O hO
    simp only [Bool.and_eq_true] at h
    obtain ⟨a, b, c, d⟩ := isOrderCert_sound p O h.1.1
    exact ⟨O, hO, a, b, c, d, hasMaximalDisc_sound p hp O h.1.2⟩
  · simp at h

/-- `normCovolOk` ⇒ `covol(I) = N(I)²·covol(O)`, i.e. the stored norm is the square root of the index `[O : I]` -/
theorem normCovolOk_sound (I : LeftIdeal) (h : normCovolOk I = true) :
    covol I.lattice = covol I.order * ((I.norm : ℚ) ^ 2) := by
  unfold normCovolOk at h
  simp only [Bool.and_eq_true] at h
  obtain ⟨⟨hw1, hw2⟩, hc⟩ := h
  obtain ⟨d1, n1⟩ := latWf_sound _ hw1
  obtain ⟨d2, n2⟩ := latWf_sound _ hw2
  have := covolRatioIs_sound _ _ _ _ hc d1 d2 n1 n2
  simp only [Int.cast_one, abs_one, mul_one, Int.cast_mul] at this
  rw [this, abs_mul_self]; ring

/-- `generatorCert` ⇒ `I = O·g + N(I)·O` -/
theorem generatorCert_sound (p : ℤ) (I : LeftIdeal) (g : Elem) (h : generatorCert p I g = true) :
    hLat p I.lattice = hLat p I.order * Submodule.span ℤ {val p g} ⊔ smulLat p I.norm (hLat p I.order) := by
  unfold generatorCert at h
  simp only [Bool.and_eq_true, bne_iff_ne, ne_eq] at h
  obtain ⟨⟨⟨⟨hg, hO⟩, hw1⟩, hw2⟩, he⟩ := h
  obtain ⟨d1, n1⟩ := latWf_sound _ hw1
  obtain ⟨d2, n2⟩ := latWf_sound _ hw2
  have := (latEqual_spec _ _ d2 d1 n2 n1).1 he
  rw [← hLat_congr p this]
  exact (createFromPrimitive_lattice p g I.norm I.order 0 hO hg).1

/-- coordinates `(c·d², 0, 0, 0)` over the denominator `d²` denote the scalar `c` -/
theorem val_scalar (p : ℤ) (d c : ℤ) (hd : d ≠ 0) : val p ⟨d * d, ⟨c * (d * d), 0, 0, 0⟩⟩ = ((c : ℚ) : H p) := by
  have : ((d : ℚ) * d) ≠ 0 := mul_ne_zero (by exact_mod_cast hd) (by exact_mod_cast hd)
  apply QuaternionAlgebra.ext <;> simp [val] <;> field_simp

/-- the stored elements of an extremal order entry -/
theorem extremalElemsOk_sound (p : ℤ) (z t : Elem) (q : ℤ) (h : extremalElemsOk p z t q = true) :
    val p z * val p z = (((-q : ℤ) : ℚ) : H p) ∧ val p t * val p t = (((-p : ℤ) : ℚ) : H p) ∧
    val p z * val p t = -(val p t * val p z) := by
  unfold extremalElemsOk at h
  simp only [Bool.and_eq_true, bne_iff_ne, ne_eq, beq_iff_eq] at h
  obtain ⟨⟨⟨⟨hz, ht⟩, e1⟩, e2⟩, e3⟩ := h
  refine ⟨?_, ?_, ?_⟩
  · rw [← algMul_val p z z hz hz]
    have : algMul p z z = ⟨z.denom * z.denom, ⟨-q * (z.denom * z.denom), 0, 0, 0⟩⟩ := by
      rw [← e1]; rfl
    rw [this, val_scalar p z.denom (-q) hz]
  · rw [← algMul_val p t t ht ht]
    have : algMul p t t = ⟨t.denom * t.denom, ⟨-p * (t.denom * t.denom), 0, 0, 0⟩⟩ := by
      rw [← e2]; rfl
    rw [this, val_scalar p t.denom (-p) ht]
  · rw [← algMul_val p z t hz ht, ← algMul_val p t z ht hz]
    have hd : (algMul p z t).denom = (algMul p t z).denom := by simp [algMul, mul_comm]
    rcases hzt : (algMul p z t).coord with ⟨a0, a1, a2, a3⟩
    rcases htz : (algMul p t z).coord with ⟨b0, b1, b2, b3⟩
    rw [hzt, htz] at e3
    simp only [Vec4.neg, Vec4.mk.injEq] at e3
    obtain ⟨rfl, rfl, rfl, rfl⟩ := e3
    apply QuaternionAlgebra.ext <;> simp [val, hzt, htz, hd, neg_div]

/-- an entry accepted by `extremalOk`: maximal-order facts plus `i, j ∈ O`, `i² = -q`, `j² = -p`, `ij = -ji` -/
theorem extremalOk_sound (p : ℤ) (hp : p ≠ 0)
    (e : (ℤ × List (List ℤ)) × (ℤ × List ℤ) × (ℤ × List ℤ) × ℤ) (h : extremalOk p e = true) :
    ∃ (O : Lattice) (z t : Elem), latOfTable e.1 = some O ∧ elemOfTable e.2.1 = some z ∧ elemOfTable e.2.2.1 = some t ∧
      (1 : H p) ∈ hLat p O ∧ hLat p O * hLat p O ≤ hLat p O ∧ covol O = 1 / 4 ∧
      val p z ∈ hLat p O ∧ val p t ∈ hLat p O ∧
      val p z * val p z = (((-e.2.2.2 : ℤ) : ℚ) : H p) ∧ val p t * val p t = (((-p : ℤ) : ℚ) : H p) ∧
      val p z * val p t = -(val p t * val p z) ∧ 0 < e.2.2.2 := by
  unfold extremalOk at h
  split at h
  · rename_i O z t hO hz ht
    simp only [Bool.and_eq_true, decide_eq_true_eq] at h
    obtain ⟨⟨⟨⟨hm, cz⟩, ct⟩, he⟩, hq⟩ := h
    obtain ⟨O', hO', d, n, o1, o2, o3⟩ := maxOrderOk_sound p hp e.1 hm
    rw [hO] at hO'
    simp only [Option.some.injEq] at hO'
    subst hO'
    have hzt := he
    unfold extremalElemsOk at hzt
    simp only [Bool.and_eq_true, bne_iff_ne, ne_eq] at hzt
    obtain ⟨a, b, c⟩ := extremalElemsOk_sound p z t _ he
    exact ⟨O, z, t, hO, hz, ht, o1, o2, o3, (latContains_iff_val p O z d hzt.1.1.1.1 n).1 cz,
      (latContains_iff_val p O t d hzt.1.1.1.2 n).1 ct, a, b, c, hq⟩
  · simp at h

/-- `quat_alg_make_primitive` on an element of the order: `x = content · (primitive part)` -/
theorem makePrimitive_val (p : ℤ) (O : Lattice) (x : Elem) (hO : O.denom ≠ 0) (hx : x.denom ≠ 0)
    (h : (latContains O x).1 = true) :
    val p x = ((makePrimitive O x).2 : ℤ) • val p ⟨O.denom, O.basis.eval (makePrimitive O x).1⟩ := by
  have hs := latContains_sound O x h
  unfold makePrimitive
  simp only []
  set c := (latContains O x).2 with hc
  obtain ⟨d0, d1, d2, d3⟩ := SqiProofs.QuatAlg.content_dvd c
  have q0 := Int.tdiv_mul_cancel d0
  have q1 := Int.tdiv_mul_cancel d1
  have q2 := Int.tdiv_mul_cancel d2
  have q3 := Int.tdiv_mul_cancel d3
  set g := c.content
  unfold CoordsOf at hs
  obtain ⟨Od, ⟨⟨a00, a01, a02, a03⟩, ⟨a10, a11, a12, a13⟩, ⟨a20, a21, a22, a23⟩, ⟨a30, a31, a32, a33⟩⟩⟩ := O
  obtain ⟨xd, ⟨x0, x1, x2, x3⟩⟩ := x
  obtain ⟨c0, c1, c2, c3⟩ := c
  simp only [Vec4.map, Mat4.eval, Vec4.ofFn, Mat4.get, Mat4.row, Vec4.get, Vec4.mk.injEq] at hs q0 q1 q2 q3 ⊢
  obtain ⟨s0, s1, s2, s3⟩ := hs
  have hOq : (Od : ℚ) ≠ 0 := by exact_mod_cast hO
  have hxq : (xd : ℚ) ≠ 0 := by exact_mod_cast hx
  have s0' : (x0 : ℚ) * Od = (a00 * c0 + a01 * c1 + a02 * c2 + a03 * c3) * xd := by exact_mod_cast s0
  have s1' : (x1 : ℚ) * Od = (a10 * c0 + a11 * c1 + a12 * c2 + a13 * c3) * xd := by exact_mod_cast s1
  have s2' : (x2 : ℚ) * Od = (a20 * c0 + a21 * c1 + a22 * c2 + a23 * c3) * xd := by exact_mod_cast s2
  have s3' : (x3 : ℚ) * Od = (a30 * c0 + a31 * c1 + a32 * c2 + a33 * c3) * xd := by exact_mod_cast s3
  have r0 : (c0 : ℚ) = (Int.tdiv c0 g : ℤ) * g := by exact_mod_cast q0.symm
  have r1 : (c1 : ℚ) = (Int.tdiv c1 g : ℤ) * g := by exact_mod_cast q1.symm
  have r2 : (c2 : ℚ) = (Int.tdiv c2 g : ℤ) * g := by exact_mod_cast q2.symm
  have r3 : (c3 : ℚ) = (Int.tdiv c3 g : ℤ) * g := by exact_mod_cast q3.symm
  apply QuaternionAlgebra.ext
  all_goals simp [val]
  all_goals rw [div_eq_iff hxq]
  · rw [r0, r1, r2, r3] at s0'; field_simp; linear_combination s0'
  · rw [r0, r1, r2, r3] at s1'; field_simp; linear_combination s1'
  · rw [r0, r1, r2, r3] at s2'; field_simp; linear_combination s2'
  · rw [r0, r1, r2, r3] at s3'; field_simp; linear_combination s3'

end SqiProofs.Ideal

import SqiProofs.QuatHLat
import Mathlib.Algebra.Algebra.Operations
import Mathlib.Tactic.LinearCombination
import Mathlib.Tactic.Module
/- C15, pure algebra in `H p = ℍ[ℚ, -1, 0, -p]`: ℤ-lattices (`Submodule ℤ (H p)`), orders, the reduced-norm predicate
   of a left ideal, generators, products by elements, right transporters.  Everything here is elementary module
   algebra (Bezout + conjugation); no local theory of maximal orders is used.  The model-level corollaries are in
   `SqiProofs/Ideal.lean` / `SqiProofs/IdealFull.lean`. -/
open SqiProofs.QuatAlg SqiProofs.QuatLattice
open scoped Pointwise

namespace SqiProofs.IdealAlg

variable {p : ℤ}

/-- ℤ-lattices (not necessarily of full rank) in the quaternion algebra -/
abbrev Lat (p : ℤ) := Submodule ℤ (H p)

/-- `N·L` -/
abbrev nsmul' (N : ℤ) (L : Lat p) : Lat p := L.map (LinearMap.lsmul ℤ (H p) N)

theorem mem_nsmul' {N : ℤ} {L : Lat p} {y : H p} : y ∈ nsmul' N L ↔ ∃ w ∈ L, y = N • w := by
  constructor
  · rintro ⟨w, hw, rfl⟩; exact ⟨w, hw, rfl⟩
  · rintro ⟨w, hw, rfl⟩; exact ⟨w, hw, rfl⟩

/-- conjugation as a ℤ-linear map -/
def conjL (p : ℤ) : H p →ₗ[ℤ] H p where
  toFun := star
  map_add' := star_add
  map_smul' c x := by
    apply QuaternionAlgebra.ext <;> simp [mul_comm]

/-- the conjugate lattice `L̄` -/
def conjS (L : Lat p) : Lat p := L.map (conjL p)

theorem mem_conjS {L : Lat p} {y : H p} : y ∈ conjS L ↔ star y ∈ L := by
  constructor
  · rintro ⟨w, hw, rfl⟩; simpa [conjL] using hw
  · intro h; exact ⟨star y, h, by simp [conjL]⟩

theorem star_mem_conjS {L : Lat p} {y : H p} (h : y ∈ L) : star y ∈ conjS L := mem_conjS.2 (by simpa using h)

/-- integer scalars are central -/
theorem zsmul_mul_comm (n : ℤ) (a b : H p) : a * (n • b) = n • (a * b) := mul_smul_comm n a b
theorem zsmul_mul_comm' (n : ℤ) (a b : H p) : (n • a) * b = n • (a * b) := smul_mul_assoc n a b

theorem intCast_eq_zsmul_one (n : ℤ) : ((n : ℤ) : H p) = n • (1 : H p) := by simp

/-- `H p` has no ℤ-torsion -/
theorem zsmul_cancel {n : ℤ} (hn : n ≠ 0) {a b : H p} (h : n • a = n • b) : a = b := by
  have hq : (n : ℚ) ≠ 0 := by exact_mod_cast hn
  rw [← Int.cast_smul_eq_zsmul ℚ, ← Int.cast_smul_eq_zsmul ℚ] at h
  exact smul_right_injective (H p) hq h

theorem star_mul_self_eq (z : H p) : star z * z = z * star z := by
  obtain ⟨a, b, c, d⟩ := z
  apply QuaternionAlgebra.ext <;>
    simp [QuaternionAlgebra.star_mk, QuaternionAlgebra.mk_mul_mk] <;> ring

/-- `z` has integral reduced norm `m` -/
def HasNorm (z : H p) (m : ℤ) : Prop := z * star z = ((m : ℤ) : H p)

theorem hasNorm_of_nrm {z : H p} {m : ℤ} (h : nrm z = m) : HasNorm z m := by
  unfold HasNorm
  rw [mul_star_eq_coe, h]
  exact QuaternionAlgebra.coe_intCast m

theorem HasNorm.star_mul {z : H p} {m : ℤ} (h : HasNorm z m) : star z * z = ((m : ℤ) : H p) := by
  rw [star_mul_self_eq]; exact h

theorem HasNorm.mul {y z : H p} {a b : ℤ} (hy : HasNorm y a) (hz : HasNorm z b) : HasNorm (y * z) (a * b) := by
  unfold HasNorm at *
  rw [StarMul.star_mul, mul_assoc, ← mul_assoc z, hz, Int.cast_mul]
  rw [(Int.cast_commute b (star y)).eq, ← mul_assoc, hy]

/-- Bezout: a ℤ-submodule containing the integers `a` and `b` contains `gcd(a, b)` -/
theorem gcd_mem (L : Lat p) (a b : ℤ) (ha : ((a : ℤ) : H p) ∈ L) (hb : ((b : ℤ) : H p) ∈ L) :
    (((Int.gcd a b : ℤ)) : H p) ∈ L := by
  rw [Int.gcd_eq_gcd_ab a b]
  push_cast
  apply L.add_mem
  · have := L.smul_mem (Int.gcdA a b) ha
    rwa [zsmul_eq_mul, (Int.cast_commute _ _).eq] at this
  · have := L.smul_mem (Int.gcdB a b) hb
    rwa [zsmul_eq_mul, (Int.cast_commute _ _).eq] at this

/-- Bezout for scalar multiples of one element -/
theorem smul_mem_of_coprime (L : Lat p) (a b : ℤ) (y : H p) (hc : Int.gcd a b = 1)
    (ha : a • y ∈ L) (hb : b • y ∈ L) : y ∈ L := by
  have h := Int.gcd_eq_gcd_ab a b
  rw [hc] at h
  have : y = (Int.gcdA a b) • (a • y) + (Int.gcdB a b) • (b • y) := by
    rw [smul_smul, smul_smul, ← add_smul]
    have : Int.gcdA a b * a + Int.gcdB a b * b = 1 := by push_cast at h; linarith
    rw [this, one_smul]
  rw [this]
  exact L.add_mem (L.smul_mem _ ha) (L.smul_mem _ hb)

/-! ## orders and ideals -/

/-- a ℤ-lattice that is a subring with 1, stable under conjugation -/
structure IsOrder (O : Lat p) : Prop where
  one_mem : (1 : H p) ∈ O
  mul_mem : ∀ a ∈ O, ∀ b ∈ O, a * b ∈ O
  star_mem : ∀ a ∈ O, star a ∈ O

theorem IsOrder.mul_le {O : Lat p} (h : IsOrder O) : O * O ≤ O :=
  Submodule.mul_le.2 h.mul_mem

theorem IsOrder.int_mem {O : Lat p} (h : IsOrder O) (n : ℤ) : ((n : ℤ) : H p) ∈ O := by
  rw [intCast_eq_zsmul_one]; exact O.smul_mem n h.one_mem

/-- `I` is an integral left `O`-ideal carrying the reduced norm `n`:
    `O·I ⊆ I ⊆ O`, `n ∈ I` and `y·z̄ ∈ n·O` for all `y, z ∈ I` -/
structure IsLeftIdealOfNorm (O I : Lat p) (n : ℤ) : Prop where
  left : ∀ a ∈ O, ∀ y ∈ I, a * y ∈ I
  sub : I ≤ O
  norm_mem : ((n : ℤ) : H p) ∈ I
  mul_star : ∀ y ∈ I, ∀ z ∈ I, y * star z ∈ nsmul' n O

theorem IsLeftIdealOfNorm.mul_le {O I : Lat p} {n : ℤ} (h : IsLeftIdealOfNorm O I n) : O * I ≤ I :=
  Submodule.mul_le.2 h.left

/-- the lattice `O·x + N·O` -/
def genIdeal (O : Lat p) (x : H p) (N : ℤ) : Lat p := O * Submodule.span ℤ {x} ⊔ nsmul' N O

theorem mem_genIdeal {O : Lat p} {x : H p} {N : ℤ} {y : H p} :
    y ∈ genIdeal O x N ↔ ∃ a ∈ O, ∃ b ∈ O, y = a * x + N • b := by
  unfold genIdeal
  rw [Submodule.mem_sup]
  constructor
  · rintro ⟨y1, h1, y2, h2, rfl⟩
    obtain ⟨a, ha, rfl⟩ := Submodule.mem_mul_span_singleton.1 h1
    obtain ⟨b, hb, rfl⟩ := mem_nsmul'.1 h2
    exact ⟨a, ha, b, hb, rfl⟩
  · rintro ⟨a, ha, b, hb, rfl⟩
    exact ⟨a * x, Submodule.mem_mul_span_singleton.2 ⟨a, ha, rfl⟩, N • b, mem_nsmul'.2 ⟨b, hb, rfl⟩, rfl⟩

theorem genIdeal_left {O : Lat p} (hO : IsOrder O) (x : H p) (N : ℤ) :
    ∀ a ∈ O, ∀ y ∈ genIdeal O x N, a * y ∈ genIdeal O x N := by
  intro a ha y hy
  obtain ⟨b, hb, c, hc, rfl⟩ := mem_genIdeal.1 hy
  refine mem_genIdeal.2 ⟨a * b, hO.mul_mem a ha b hb, a * c, hO.mul_mem a ha c hc, ?_⟩
  rw [mul_add, mul_assoc, zsmul_mul_comm]

/-- **the constructed ideal carries the norm `gcd(N(x), N)`**: for `x ∈ O` with `N(x) = nx`,
    `I = O·x + N·O` satisfies `O·I ⊆ I ⊆ O`, `gcd(nx, N) ∈ I` and `I·Ī ⊆ gcd(nx, N)·O`. -/
theorem genIdeal_isLeftIdealOfNorm {O : Lat p} (hO : IsOrder O) (x : H p) (hx : x ∈ O) (nx N : ℤ)
    (hn : HasNorm x nx) : IsLeftIdealOfNorm O (genIdeal O x N) (Int.gcd nx N) := by
  refine ⟨genIdeal_left hO x N, ?_, ?_, ?_⟩
  · intro y hy
    obtain ⟨a, ha, b, hb, rfl⟩ := mem_genIdeal.1 hy
    exact O.add_mem (hO.mul_mem a ha x hx) (O.smul_mem N hb)
  · apply gcd_mem
    · rw [← hn.star_mul]
      exact mem_genIdeal.2 ⟨star x, hO.star_mem x hx, 0, O.zero_mem, by simp⟩
    · exact mem_genIdeal.2 ⟨0, O.zero_mem, 1, hO.one_mem, by simp⟩
  · intro y hy z hz
    obtain ⟨a, ha, b, hb, rfl⟩ := mem_genIdeal.1 hy
    obtain ⟨c, hc, d, hd, rfl⟩ := mem_genIdeal.1 hz
    obtain ⟨k1, hk1⟩ : ((Int.gcd nx N : ℤ)) ∣ nx := Int.gcd_dvd_left nx N
    obtain ⟨k2, hk2⟩ : ((Int.gcd nx N : ℤ)) ∣ N := Int.gcd_dvd_right nx N
    set g : ℤ := (Int.gcd nx N : ℤ)
    have hxx : x * star x = (nx : ℤ) • (1 : H p) := by rw [hn, intCast_eq_zsmul_one]
    -- y z̄ = nx·(a c̄) + N·(a x d̄ + b x̄ c̄ + N·b d̄)
    have e : (a * x + N • b) * star (c * x + N • d) =
        g • (k1 • (a * star c) + k2 • (a * x * star d + b * (star x * star c) + N • (b * star d))) := by
      have e1 : (a * x + N • b) * star (c * x + N • d) =
          nx • (a * star c) + N • (a * x * star d + b * (star x * star c) + N • (b * star d)) := by
        simp only [star_add, star_mul, star_smul, TrivialStar.star_trivial, mul_add, add_mul]
        have : a * x * (star x * star c) = nx • (a * star c) := by
          rw [mul_assoc a, ← mul_assoc x, hxx, smul_mul_assoc, one_mul, mul_smul_comm]
        rw [this]
        simp only [mul_smul_comm, smul_mul_assoc, smul_add, smul_smul]
        abel
      rw [e1, hk1, hk2]
      module
    rw [e]
    refine mem_nsmul'.2 ⟨_, ?_, rfl⟩
    have sc := hO.star_mem c hc
    have sd := hO.star_mem d hd
    have sx := hO.star_mem x hx
    refine O.add_mem (O.smul_mem _ (hO.mul_mem a ha _ sc)) (O.smul_mem _ ?_)
    refine O.add_mem (O.add_mem (hO.mul_mem _ (hO.mul_mem a ha x hx) _ sd) (hO.mul_mem b hb _ (hO.mul_mem _ sx _ sc)))
      (O.smul_mem _ (hO.mul_mem b hb _ sd))

/-! ## (b) generators -/

/-- for `g ∈ I` of norm `n·q` in an ideal of norm `n`: `q·I ⊆ O·g` -/
theorem smul_mem_mul_gen {O I : Lat p} {n q : ℤ} (hI : IsLeftIdealOfNorm O I n) (hn0 : n ≠ 0)
    (g : H p) (hg : g ∈ I) (hN : HasNorm g (n * q)) (y : H p) (hy : y ∈ I) :
    q • y ∈ O * Submodule.span ℤ {g} := by
  obtain ⟨w, hw, e⟩ := mem_nsmul'.1 (hI.mul_star y hy g hg)
  have : n • (q • y) = n • (w * g) := by
    have e2 : y * (star g * g) = (n * q) • y := by
      rw [hN.star_mul, intCast_eq_zsmul_one, mul_smul_comm, mul_one]
    rw [smul_smul, ← e2, ← mul_assoc, e, smul_mul_assoc]
  rw [zsmul_cancel hn0 this]
  exact Submodule.mem_mul_span_singleton.2 ⟨w, hw, rfl⟩

/-- **a generator generates**: if `g ∈ I` has `N(g) = n·q` with `gcd(q, n) = 1`, where `I` is a left `O`-ideal of
    norm `n ≠ 0`, then `I = O·g + n·O`. -/
theorem eq_genIdeal_of_generator {O I : Lat p} {n q : ℤ} (hO : IsOrder O) (hI : IsLeftIdealOfNorm O I n) (hn0 : n ≠ 0)
    (g : H p) (hg : g ∈ I) (hN : HasNorm g (n * q)) (hc : Int.gcd q n = 1) : I = genIdeal O g n := by
  apply le_antisymm
  · intro y hy
    have hgO := hI.sub hg
    -- q·y ∈ O·g
    have h1 : q • y ∈ genIdeal O g n := by
      obtain ⟨w, hw, e⟩ := mem_nsmul'.1 (hI.mul_star y hy g hg)
      have : n • (q • y) = n • (w * g) := by
        have e2 : y * (star g * g) = (n * q) • y := by
          rw [hN.star_mul, intCast_eq_zsmul_one, mul_smul_comm, mul_one]
        rw [smul_smul, ← e2, ← mul_assoc, e, smul_mul_assoc]
      rw [zsmul_cancel hn0 this]
      exact mem_genIdeal.2 ⟨w, hw, 0, O.zero_mem, by simp⟩
    have h2 : n • y ∈ genIdeal O g n := mem_genIdeal.2 ⟨0, O.zero_mem, y, hI.sub hy, by simp⟩
    exact smul_mem_of_coprime _ q n y hc h1 h2
  · intro y hy
    obtain ⟨a, ha, b, hb, rfl⟩ := mem_genIdeal.1 hy
    refine I.add_mem (hI.left a ha g hg) ?_
    have := hI.left b hb _ hI.norm_mem
    rwa [intCast_eq_zsmul_one, mul_smul_comm, mul_one] at this

/-! ## (c) product by an element -/

/-- **`I·α`**: for `I = O·g + n·O` with `N(g) = n·q`, `g ∈ O`, and `α ∈ O` with `N(α) = m`, `gcd(q, m) = 1`:
    `I·α = O·(g·α) + (n·m)·O`.  (The coprimality of the cofactor `q` with `N(α)` is exactly what
    `quat_lideal_generator_coprime(…, n = N(α), …)` enforces inside `quat_lideal_mul`.) -/
theorem genIdeal_mul_elem {O : Lat p} {n q m : ℤ} (hO : IsOrder O) (g α : H p) (hg : g ∈ O) (hα : α ∈ O)
    (hN : HasNorm g (n * q)) (hM : HasNorm α m) (hc : Int.gcd q m = 1) :
    genIdeal O g n * Submodule.span ℤ {α} = genIdeal O (g * α) (n * m) := by
  apply le_antisymm
  · rw [Submodule.mul_le]
    intro y hy z hz
    obtain ⟨k, rfl⟩ := Submodule.mem_span_singleton.1 hz
    rw [mul_smul_comm]
    apply Submodule.smul_mem
    obtain ⟨a, ha, b, hb, rfl⟩ := mem_genIdeal.1 hy
    rw [add_mul, mul_assoc]
    apply Submodule.add_mem
    · exact mem_genIdeal.2 ⟨a, ha, 0, O.zero_mem, by simp⟩
    · -- n·α ∈ K, hence b·(n·α) ∈ K
      have hK : n • α ∈ genIdeal O (g * α) (n * m) := by
        apply smul_mem_of_coprime _ q m _ hc
        · -- q·n·α = ḡ·(g·α)
          have : q • n • α = star g * (g * α) := by
            rw [← mul_assoc, hN.star_mul, intCast_eq_zsmul_one, smul_mul_assoc, one_mul, smul_smul, mul_comm]
          rw [this]
          exact mem_genIdeal.2 ⟨star g, hO.star_mem g hg, 0, O.zero_mem, by simp⟩
        · rw [smul_smul, mul_comm]
          exact mem_genIdeal.2 ⟨0, O.zero_mem, α, hα, by simp⟩
      have := genIdeal_left hO (g * α) (n * m) b hb _ hK
      rwa [mul_smul_comm, ← smul_mul_assoc] at this
  · intro y hy
    obtain ⟨a, ha, b, hb, rfl⟩ := mem_genIdeal.1 hy
    apply Submodule.add_mem
    · rw [← mul_assoc]
      exact Submodule.mul_mem_mul (mem_genIdeal.2 ⟨a, ha, 0, O.zero_mem, by simp⟩) (Submodule.mem_span_singleton_self α)
    · -- (n·m)·b = (n·(b·ᾱ))·α
      have : (n * m) • b = (n • (b * star α)) * α := by
        rw [smul_mul_assoc, mul_assoc, hM.star_mul, intCast_eq_zsmul_one, mul_smul_comm, mul_one, smul_smul]
      rw [this]
      exact Submodule.mul_mem_mul (mem_genIdeal.2 ⟨0, O.zero_mem, b * star α, hO.mul_mem b hb _ (hO.star_mem α hα), by simp⟩)
        (Submodule.mem_span_singleton_self α)

/-- the product `I·α` again carries a norm: `n·N(α)` -/
theorem mul_elem_isLeftIdealOfNorm {O I : Lat p} {n m : ℤ} (hO : IsOrder O) (hI : IsLeftIdealOfNorm O I n)
    (α : H p) (hα : α ∈ O) (hM : HasNorm α m) : IsLeftIdealOfNorm O (I * Submodule.span ℤ {α}) (n * m) := by
  have hmem : ∀ y, y ∈ I * Submodule.span ℤ {α} ↔ ∃ z ∈ I, z * α = y := fun y => Submodule.mem_mul_span_singleton
  refine ⟨?_, ?_, ?_, ?_⟩
  · intro a ha y hy
    obtain ⟨z, hz, rfl⟩ := (hmem _).1 hy
    rw [← mul_assoc]; exact (hmem _).2 ⟨a * z, hI.left a ha z hz, rfl⟩
  · intro y hy
    obtain ⟨z, hz, rfl⟩ := (hmem _).1 hy
    exact hO.mul_mem z (hI.sub hz) α hα
  · refine (hmem _).2 ⟨n • star α, ?_, ?_⟩
    · have := hI.left _ (hO.star_mem α hα) _ hI.norm_mem
      rwa [intCast_eq_zsmul_one, mul_smul_comm, mul_one] at this
    · rw [smul_mul_assoc, hM.star_mul, intCast_eq_zsmul_one, smul_smul, Int.cast_mul, ← intCast_eq_zsmul_one]
      push_cast; rfl
  · intro y hy w hw
    obtain ⟨z1, hz1, rfl⟩ := (hmem _).1 hy
    obtain ⟨z2, hz2, rfl⟩ := (hmem _).1 hw
    obtain ⟨u, hu, e⟩ := mem_nsmul'.1 (hI.mul_star z1 hz1 z2 hz2)
    refine mem_nsmul'.2 ⟨u, hu, ?_⟩
    rw [StarMul.star_mul, mul_assoc, ← mul_assoc α, hM, intCast_eq_zsmul_one, smul_mul_assoc, one_mul, mul_smul_comm, e,
      smul_smul, mul_comm]

/-! ## (d) right transporters -/

/-- the right transporter `{x | L1·x ⊆ L2}` -/
def transporter (L1 L2 : Lat p) : Lat p where
  carrier := {x | ∀ y ∈ L1, y * x ∈ L2}
  add_mem' := by
    intro a b ha hb y hy
    rw [mul_add]; exact L2.add_mem (ha y hy) (hb y hy)
  zero_mem' := by intro y _; simp
  smul_mem' := by
    intro c x hx y hy
    rw [mul_smul_comm]; exact L2.smul_mem c (hx y hy)

theorem mem_transporter {L1 L2 : Lat p} {x : H p} : x ∈ transporter L1 L2 ↔ ∀ y ∈ L1, y * x ∈ L2 := Iff.rfl

theorem le_transporter_iff {L1 L2 T : Lat p} : T ≤ transporter L1 L2 ↔ L1 * T ≤ L2 := by
  rw [Submodule.mul_le]
  constructor
  · intro h y hy x hx; exact h hx y hy
  · intro h x hx y hy; exact h y hy x hx

/-- a generator of norm `n·q`, `gcd(q, n) = 1`, puts `n` into `Ī·I` -/
theorem norm_mem_conj_mul {I : Lat p} {n q : ℤ} (g : H p) (hg : g ∈ I) (hn : ((n : ℤ) : H p) ∈ I)
    (hN : HasNorm g (n * q)) (hc : Int.gcd q n = 1) : ((n : ℤ) : H p) ∈ conjS I * I := by
  have h1 : (((n * q : ℤ)) : H p) ∈ conjS I * I := by
    rw [← hN.star_mul]; exact Submodule.mul_mem_mul (star_mem_conjS hg) hg
  have h2 : (((n * n : ℤ)) : H p) ∈ conjS I * I := by
    have : (((n * n : ℤ)) : H p) = star ((n : ℤ) : H p) * ((n : ℤ) : H p) := by simp
    rw [this]; exact Submodule.mul_mem_mul (star_mem_conjS hn) hn
  have h3 := gcd_mem _ _ _ h1 h2
  have e : (Int.gcd (n * q) (n * n) : ℤ) = |n| := by
    rw [Int.gcd_mul_left, hc, mul_one]; exact Int.natCast_natAbs n
  rw [e] at h3
  rcases abs_choice n with h | h
  · rwa [h] at h3
  · rw [h] at h3
    have := (conjS I * I).neg_mem h3
    simpa using this

/-- **the right transporter of two left ideals**: if `I1` has norm `n1 ≠ 0` with `n1 ∈ Ī1·I1` and `O·I2 ⊆ I2`, then
    `x ∈ {x | I1·x ⊆ I2}  ↔  n1·x ∈ Ī1·I2`. -/
theorem mem_transporter_iff {O I1 I2 : Lat p} {n1 : ℤ} (hI1 : IsLeftIdealOfNorm O I1 n1) (hn0 : n1 ≠ 0)
    (hinv : ((n1 : ℤ) : H p) ∈ conjS I1 * I1) (hI2 : ∀ a ∈ O, ∀ y ∈ I2, a * y ∈ I2) (x : H p) :
    x ∈ transporter I1 I2 ↔ n1 • x ∈ conjS I1 * I2 := by
  constructor
  · intro hx
    have : n1 • x = ((n1 : ℤ) : H p) * x := by rw [zsmul_eq_mul]
    rw [this]
    refine Submodule.mul_induction_on hinv ?_ ?_
    · intro a ha b hb
      rw [mul_assoc]; exact Submodule.mul_mem_mul ha (hx b hb)
    · intro u v hu hv
      rw [add_mul]; exact Submodule.add_mem _ hu hv
  · intro hx y hy
    have key : ∀ z ∈ conjS I1 * I2, y * z ∈ nsmul' n1 I2 := by
      intro z hz
      refine Submodule.mul_induction_on hz ?_ ?_
      · intro a ha b hb
        obtain ⟨w, hw, e⟩ := mem_nsmul'.1 (hI1.mul_star y hy (star a) (mem_conjS.1 ha))
        rw [star_star] at e
        rw [← mul_assoc, e, smul_mul_assoc]
        exact mem_nsmul'.2 ⟨w * b, hI2 w hw b hb, rfl⟩
      · intro u v hu hv
        rw [mul_add]; exact Submodule.add_mem _ hu hv
    obtain ⟨w, hw, e⟩ := mem_nsmul'.1 (key _ hx)
    rw [mul_smul_comm] at e
    rw [zsmul_cancel hn0 e]; exact hw

/-- completeness certificate for a transporter: `T` with `L1·T ⊆ L2` and `Ī1·I2 ⊆ n1·T` *is* the transporter -/
theorem transporter_eq_of_cert {O I1 I2 T : Lat p} {n1 : ℤ} (hI1 : IsLeftIdealOfNorm O I1 n1) (hn0 : n1 ≠ 0)
    (hinv : ((n1 : ℤ) : H p) ∈ conjS I1 * I1) (hI2 : ∀ a ∈ O, ∀ y ∈ I2, a * y ∈ I2)
    (h1 : I1 * T ≤ I2) (h2 : conjS I1 * I2 ≤ nsmul' n1 T) : T = transporter I1 I2 := by
  apply le_antisymm (le_transporter_iff.2 h1)
  intro x hx
  obtain ⟨w, hw, e⟩ := mem_nsmul'.1 (h2 ((mem_transporter_iff hI1 hn0 hinv hI2 x).1 hx))
  rw [zsmul_cancel hn0 e]; exact hw

end SqiProofs.IdealAlg

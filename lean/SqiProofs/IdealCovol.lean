import SqiProofs.IdealFull
import SqiProofs.QuatGroupIndex
/- C15 (a): covolumes.  `covol(L·x) = N(x)²·covol(L)`, and for a left ideal `I` of an order `O` that carries the norm `n`
   and has a generator of cofactor coprime to `n`: `covol(I) = n²·covol(O)` (the stored norm is the square root of the
   index).  Uses the C14 facts "inclusion ⇒ integral covolume ratio" (`covol_of_le`). -/
open SqiModel.Quat SqiModel.Ideal SqiProofs.QuatAlg SqiProofs.QuatMat SqiProofs.Hnf SqiProofs.QuatLattice SqiProofs.Ideal
open SqiProofs.IdealAlg SqiProofs.IdealFull
open scoped Pointwise

namespace SqiProofs.IdealCovol

/-- the norm form on integer coordinates -/
def normForm (p : ℤ) (a : Vec4) : ℤ := a.x0 ^ 2 + a.x1 ^ 2 + p * a.x2 ^ 2 + p * a.x3 ^ 2

theorem rightMulMat_det (p : ℤ) (x : Elem) : (toMatrix (rightMulMat p x)).det = normForm p x.coord ^ 2 := by
  rw [← invWithDet_det]
  obtain ⟨xd, ⟨a0, a1, a2, a3⟩⟩ := x
  simp only [rightMulMat, mulCoord, Mat4.ofCols, Mat4.invWithDet, Mat4.det2, Mat4.get, Mat4.row, Vec4.get, normForm]
  ring

theorem nrm_val (p : ℤ) (x : Elem) (hx : x.denom ≠ 0) :
    nrm (val p x) = (normForm p x.coord : ℚ) / (x.denom : ℚ) ^ 2 := by
  have : (x.denom : ℚ) ≠ 0 := by exact_mod_cast hx
  rw [nrm_eq]
  simp only [val, normForm]
  push_cast
  field_simp

theorem covol_nonneg (l : Lattice) : 0 ≤ covol l := by unfold covol; positivity

theorem covol_pos (l : Lattice) (hd : l.denom ≠ 0) (hdet : (toMatrix l.basis).det ≠ 0) : 0 < covol l := by
  unfold covol
  have h1 : (0 : ℚ) < |((toMatrix l.basis).det : ℚ)| := abs_pos.2 (by exact_mod_cast hdet)
  have h2 : (0 : ℚ) < |(l.denom : ℚ)| ^ 4 := pow_pos (abs_pos.2 (by exact_mod_cast hd)) 4
  positivity

theorem det_ne_zero_of_covol_pos (l : Lattice) (h : 0 < covol l) : (toMatrix l.basis).det ≠ 0 := by
  intro h0
  unfold covol at h
  rw [h0] at h
  simp at h

/-- **principal lattices**: `covol(L·x) = N(x)²·covol(L)` (on the unnormalised representation) -/
theorem covol_rightMul (p : ℤ) (x : Elem) (L : Lattice) (hx : x.denom ≠ 0) (hL : L.denom ≠ 0) :
    covol ⟨x.denom * L.denom, (rightMulMat p x).mul L.basis⟩ = nrm (val p x) ^ 2 * covol L := by
  have hxq : (x.denom : ℚ) ≠ 0 := by exact_mod_cast hx
  have hLq : (L.denom : ℚ) ≠ 0 := by exact_mod_cast hL
  unfold covol
  simp only []
  rw [toMatrix_mul, Matrix.det_mul, rightMulMat_det, nrm_val p x hx]
  push_cast
  rw [abs_mul, abs_mul, mul_pow, abs_pow]
  have e1 : |(x.denom : ℚ)| ^ 4 = ((x.denom : ℚ) ^ 2) ^ 2 := by
    rw [← abs_pow, abs_of_nonneg (by positivity)]; ring
  have e2 : |(normForm p x.coord : ℚ)| ^ 2 = (normForm p x.coord : ℚ) ^ 2 := sq_abs _
  rw [e1, e2]
  have hL4 : |(L.denom : ℚ)| ^ 4 ≠ 0 := pow_ne_zero _ (abs_ne_zero.2 hLq)
  field_simp

/-- `covol(n·L) = n⁴·covol(L)` -/
theorem covol_scalarMul (n : ℤ) (L : Lattice) :
    covol ⟨L.denom, L.basis.scalarMul n⟩ = (n : ℚ) ^ 4 * covol L := by
  unfold covol
  simp only []
  rw [toMatrix_scalarMul, Matrix.det_smul]
  simp only [Fintype.card_fin]
  push_cast
  rw [abs_mul, abs_pow]
  have : |(n : ℚ)| ^ 4 = (n : ℚ) ^ 4 := by
    rw [← abs_pow, abs_of_nonneg (by positivity)]
  rw [this]; ring

theorem ratLat_le_of_hLat_le (p : ℤ) {a b : Lattice} (h : hLat p a ≤ hLat p b) : ratLat a ≤ ratLat b :=
  (Submodule.map_le_map_iff_of_injective (toH_injective p) _ _).1 h

/-- arithmetic core: `a·a' = N⁴`, `a·b = N²Q²`, `b·b' = Q⁴`, `gcd(N, Q) = 1` ⇒ `a = N²` -/
theorem index_arith (a a' b b' N Q : ℕ) (h1 : a * a' = N ^ 4) (h2 : a * b = N ^ 2 * Q ^ 2) (h3 : b * b' = Q ^ 4)
    (hc : Nat.Coprime N Q) (hN : 0 < N) (hQ : 0 < Q) : a = N ^ 2 := by
  have ha : a ∣ N ^ 4 := ⟨a', h1.symm⟩
  have hb : b ∣ Q ^ 4 := ⟨b', h3.symm⟩
  have ca : Nat.Coprime a (Q ^ 2) := Nat.Coprime.coprime_dvd_left ha (Nat.Coprime.pow 4 2 hc)
  have cb : Nat.Coprime b (N ^ 2) := Nat.Coprime.coprime_dvd_left hb (Nat.Coprime.pow 4 2 hc.symm)
  have da : a ∣ N ^ 2 := ca.dvd_of_dvd_mul_right ⟨b, h2.symm⟩
  have db : b ∣ Q ^ 2 := cb.dvd_of_dvd_mul_left ⟨a, by rw [← h2, mul_comm]⟩
  obtain ⟨c, hc'⟩ := da
  obtain ⟨d, hd'⟩ := db
  have hapos : 0 < a := Nat.pos_of_ne_zero (by rintro rfl; simp at h1; exact absurd h1 (by positivity))
  have hbpos : 0 < b := Nat.pos_of_ne_zero (by rintro rfl; simp at h3; exact absurd h3 (by positivity))
  have : a * b * (c * d) = a * b * 1 := by
    rw [mul_one]
    calc a * b * (c * d) = (a * c) * (b * d) := by ring
      _ = N ^ 2 * Q ^ 2 := by rw [← hc', ← hd']
      _ = a * b := h2.symm
  have hcd : c * d = 1 := Nat.eq_of_mul_eq_mul_left (Nat.mul_pos hapos hbpos) this
  have : c = 1 := Nat.eq_one_of_mul_eq_one_right hcd
  rw [hc', this, mul_one]

/-- **norm² = index**: a left ideal `I` of the order `O` that carries the norm `n ≠ 0` and contains an element `g` with
    `N(g) = n·q`, `q ≠ 0`, `gcd(q, n) = 1`, has `covol(I) = n²·covol(O)`. -/
theorem covol_eq_norm_sq_of_generator (p : ℤ) (O I : Lattice) (n q : ℤ) (g : Elem)
    (hO : O.denom ≠ 0) (hI : I.denom ≠ 0) (hdetO : (toMatrix O.basis).det ≠ 0)
    (hIn : IsLeftIdealOfNorm (hLat p O) (hLat p I) n) (hn0 : n ≠ 0) (hq0 : q ≠ 0)
    (hg : g.denom ≠ 0) (hgI : val p g ∈ hLat p I) (hN : nrm (val p g) = ((n * q : ℤ) : ℚ)) (hc : Int.gcd q n = 1) :
    covol I = (n : ℚ) ^ 2 * covol O := by
  have cO := covol_pos O hO hdetO
  obtain ⟨nO, hnO⟩ : ∃ L : Lattice, L = ⟨O.denom, O.basis.scalarMul n⟩ := ⟨_, rfl⟩
  obtain ⟨Og, hOg⟩ : ∃ L : Lattice, L = ⟨g.denom * O.denom, (rightMulMat p g).mul O.basis⟩ := ⟨_, rfl⟩
  obtain ⟨qI, hqI⟩ : ∃ L : Lattice, L = ⟨I.denom, I.basis.scalarMul q⟩ := ⟨_, rfl⟩
  have dn_nO : nO.denom ≠ 0 := by rw [hnO]; exact hO
  have dn_Og : Og.denom ≠ 0 := by rw [hOg]; exact mul_ne_zero hg hO
  have dn_qI : qI.denom ≠ 0 := by rw [hqI]; exact hI
  have hnq : (n : ℚ) ≠ 0 := by exact_mod_cast hn0
  have hqq : (q : ℚ) ≠ 0 := by exact_mod_cast hq0
  -- covolumes of the auxiliary lattices
  have c_nO : covol nO = (n : ℚ) ^ 4 * covol O := by rw [hnO]; exact covol_scalarMul n O
  have c_Og : covol Og = ((n : ℚ) * q) ^ 2 * covol O := by
    rw [hOg, covol_rightMul p g O hg hO, hN]; push_cast; ring
  have c_qI : covol qI = (q : ℚ) ^ 4 * covol I := by rw [hqI]; exact covol_scalarMul q I
  -- inclusions
  have i1 : hLat p nO ≤ hLat p I := by
    rw [hnO, hLat_scalarMul]
    rintro _ ⟨w, hw, rfl⟩
    have := hIn.left w hw _ hIn.norm_mem
    rw [intCast_eq_zsmul_one, mul_smul_comm, mul_one] at this
    exact this
  have i2 : hLat p I ≤ hLat p O := hIn.sub
  have i3 : hLat p Og ≤ hLat p I := by
    rw [hOg, hLat_rightMul p O g hO hg, Submodule.mul_le]
    intro a ha b hb
    obtain ⟨k, rfl⟩ := Submodule.mem_span_singleton.1 hb
    rw [mul_smul_comm]
    exact Submodule.smul_mem _ _ (hIn.left a ha _ hgI)
  have i4 : hLat p qI ≤ hLat p Og := by
    rw [hqI, hLat_scalarMul, hOg, hLat_rightMul p O g hO hg]
    rintro _ ⟨y, hy, rfl⟩
    exact smul_mem_mul_gen hIn hn0 _ hgI (hasNorm_of_nrm hN) y hy
  -- integral covolume ratios
  have n4 : (0 : ℚ) < (n : ℚ) ^ 4 := by positivity
  have q4 : (0 : ℚ) < (q : ℚ) ^ 4 := by positivity
  have nq2 : (0 : ℚ) < ((n : ℚ) * q) ^ 2 := by positivity
  have dnO : (toMatrix nO.basis).det ≠ 0 := det_ne_zero_of_covol_pos nO (by rw [c_nO]; exact mul_pos n4 cO)
  obtain ⟨a', ha', e1⟩ := covol_of_le nO I dn_nO hI dnO (ratLat_le_of_hLat_le p i1)
  have cI : 0 < covol I := by
    have : 0 < (a' : ℚ) * covol I := by rw [← e1, c_nO]; exact mul_pos n4 cO
    have ha'q : (0 : ℚ) < a' := by exact_mod_cast ha'
    exact (mul_pos_iff_of_pos_left ha'q).1 this
  have dI : (toMatrix I.basis).det ≠ 0 := det_ne_zero_of_covol_pos I cI
  obtain ⟨a, ha, e2⟩ := covol_of_le I O hI hO dI (ratLat_le_of_hLat_le p i2)
  have dOg : (toMatrix Og.basis).det ≠ 0 := det_ne_zero_of_covol_pos Og (by rw [c_Og]; exact mul_pos nq2 cO)
  obtain ⟨b, hb, e3⟩ := covol_of_le Og I dn_Og hI dOg (ratLat_le_of_hLat_le p i3)
  have dqI : (toMatrix qI.basis).det ≠ 0 := det_ne_zero_of_covol_pos qI (by rw [c_qI]; exact mul_pos q4 cI)
  obtain ⟨b', hb', e4⟩ := covol_of_le qI Og dn_qI dn_Og dqI (ratLat_le_of_hLat_le p i4)
  -- arithmetic
  have cOne : covol O ≠ 0 := ne_of_gt cO
  have cIne : covol I ≠ 0 := ne_of_gt cI
  have A1 : ((a * a' : ℕ) : ℚ) = (n : ℚ) ^ 4 := by
    have : (a' : ℚ) * ((a : ℚ) * covol O) = (n : ℚ) ^ 4 * covol O := by rw [← e2, ← e1, c_nO]
    push_cast
    have h := mul_right_cancel₀ cOne (by linarith : ((a : ℚ) * a') * covol O = (n : ℚ) ^ 4 * covol O)
    exact h
  have A2 : ((a * b : ℕ) : ℚ) = (n : ℚ) ^ 2 * (q : ℚ) ^ 2 := by
    have : (b : ℚ) * ((a : ℚ) * covol O) = ((n : ℚ) * q) ^ 2 * covol O := by rw [← e2, ← e3, c_Og]
    push_cast
    have h := mul_right_cancel₀ cOne (by linarith : ((a : ℚ) * b) * covol O = ((n : ℚ) ^ 2 * (q : ℚ) ^ 2) * covol O)
    exact h
  have A3 : ((b * b' : ℕ) : ℚ) = (q : ℚ) ^ 4 := by
    have : (b' : ℚ) * ((b : ℚ) * covol I) = (q : ℚ) ^ 4 * covol I := by rw [← e3, ← e4, c_qI]
    push_cast
    have h := mul_right_cancel₀ cIne (by linarith : ((b : ℚ) * b') * covol I = (q : ℚ) ^ 4 * covol I)
    exact h
  have N1 : a * a' = n.natAbs ^ 4 := by
    have : ((a * a' : ℕ) : ℚ) = ((n.natAbs ^ 4 : ℕ) : ℚ) := by
      rw [A1]; push_cast; rw [Nat.cast_natAbs, Int.cast_abs, ← abs_pow, abs_of_nonneg (by positivity)]
    exact_mod_cast this
  have N2 : a * b = n.natAbs ^ 2 * q.natAbs ^ 2 := by
    have : ((a * b : ℕ) : ℚ) = ((n.natAbs ^ 2 * q.natAbs ^ 2 : ℕ) : ℚ) := by
      rw [A2]; push_cast; rw [Nat.cast_natAbs, Nat.cast_natAbs, Int.cast_abs, Int.cast_abs, sq_abs, sq_abs]
    exact_mod_cast this
  have N3 : b * b' = q.natAbs ^ 4 := by
    have : ((b * b' : ℕ) : ℚ) = ((q.natAbs ^ 4 : ℕ) : ℚ) := by
      rw [A3]; push_cast; rw [Nat.cast_natAbs, Int.cast_abs, ← abs_pow, abs_of_nonneg (by positivity)]
    exact_mod_cast this
  have hcop : Nat.Coprime n.natAbs q.natAbs := by
    have : Int.gcd q n = Nat.gcd q.natAbs n.natAbs := Int.gcd_def q n
    rw [this] at hc; exact (Nat.coprime_comm.1 hc)
  have hfin := index_arith a a' b b' n.natAbs q.natAbs N1 N2 N3 hcop (Int.natAbs_pos.2 hn0) (Int.natAbs_pos.2 hq0)
  rw [e2, hfin]
  push_cast
  rw [Nat.cast_natAbs, Int.cast_abs, sq_abs]

/-- two representations of the same rational lattice have the same covolume -/
theorem covol_eq_of_ratLat_eq (l1 l2 : Lattice) (h1 : l1.denom ≠ 0) (h2 : l2.denom ≠ 0)
    (hd1 : (toMatrix l1.basis).det ≠ 0) (h : ratLat l1 = ratLat l2) : covol l1 = covol l2 := by
  obtain ⟨k, hk, e⟩ := covol_of_le l1 l2 h1 h2 hd1 (le_of_eq h)
  have c1 := covol_pos l1 h1 hd1
  have hkq : (0 : ℚ) < k := by exact_mod_cast hk
  have c2 : 0 < covol l2 := (mul_pos_iff_of_pos_left hkq).1 (by rw [← e]; exact c1)
  obtain ⟨k', hk', e'⟩ := covol_of_le l2 l1 h2 h1 (det_ne_zero_of_covol_pos l2 c2) (le_of_eq h.symm)
  have : ((k * k' : ℕ) : ℚ) = 1 := by
    push_cast
    have : (k : ℚ) * k' * covol l1 = 1 * covol l1 := by
      calc (k : ℚ) * k' * covol l1 = k * (k' * covol l1) := by ring
        _ = k * covol l2 := by rw [← e']
        _ = covol l1 := e.symm
        _ = 1 * covol l1 := (one_mul _).symm
    exact mul_right_cancel₀ (ne_of_gt c1) this
  have hkk : k * k' = 1 := by exact_mod_cast this
  have : k = 1 := Nat.eq_one_of_mul_eq_one_right hkk
  rw [e, this]; simp

/-- **`quat_lideal_create_principal`: norm² = index** — `covol(O·x) = N(x)²·covol(O)` for the returned (normalised, HNF)
    lattice, for every `x` with `N(x) ≠ 0` and every full-rank `O`. -/
theorem principalLattice_covol (p : ℤ) (x : Elem) (O : Lattice) (hx : x.denom ≠ 0) (hO : O.denom ≠ 0)
    (hdetO : (toMatrix O.basis).det ≠ 0) (hN : nrm (val p x) ≠ 0) :
    covol (principalLattice p x O) = nrm (val p x) ^ 2 * covol O := by
  obtain ⟨M, hM⟩ : ∃ L : Lattice, L = ⟨x.denom * O.denom, (rightMulMat p x).mul O.basis⟩ := ⟨_, rfl⟩
  have hMd : M.denom ≠ 0 := by rw [hM]; exact mul_ne_zero hx hO
  have cM : covol M = nrm (val p x) ^ 2 * covol O := by rw [hM]; exact covol_rightMul p x O hx hO
  have cMpos : 0 < covol M := by
    rw [cM]; exact mul_pos (by positivity) (covol_pos O hO hdetO)
  have dM := det_ne_zero_of_covol_pos M cMpos
  obtain ⟨r1, r2⟩ := latReduceDenom_spec M hMd
  obtain ⟨s1, s2⟩ := latHnf_spec (latReduceDenom M) r2
  have e : ratLat M = ratLat (principalLattice p x O) := by
    unfold principalLattice; rw [← hM, s1, r1]
  have hpd : (principalLattice p x O).denom ≠ 0 := by unfold principalLattice; rw [← hM]; exact s2
  rw [← covol_eq_of_ratLat_eq M _ hMd hpd dM e, cM]

/-- **`quat_lideal_create_from_primitive`: norm² = index, direct case.**  `O` an order, `x ∈ O` with `N(x) = nx ≠ 0`,
    `n = gcd(nx, N)`.  If the cofactor `nx / n` is coprime to `n` (e.g. `N ∥ N(x)`, or `gcd(N(x), N) = 1`, or
    `N(x) ∣ N`), then `covol(I) = n²·covol(O)` for the returned ideal — no primitivity or maximality needed. -/
theorem createFromPrimitive_covol_direct (p : ℤ) (x : Elem) (N : ℤ) (O : Lattice) (prev nx q : ℤ)
    (hO : O.denom ≠ 0) (hx : x.denom ≠ 0) (hdetO : (toMatrix O.basis).det ≠ 0)
    (hord : IsOrder (hLat p O)) (hxO : val p x ∈ hLat p O) (hn : nrm (val p x) = nx) (hnx : nx ≠ 0)
    (hq : nx = (Int.gcd nx N : ℤ) * q) (hc : Int.gcd q (Int.gcd nx N : ℤ) = 1) :
    let I := createFromPrimitive p x N O prev
    covol I.lattice = (I.norm : ℚ) ^ 2 * covol O := by
  intro I
  have hIn := createFromPrimitive_isLeftIdealOfNorm p x N O prev nx hO hx hord hxO hn
  have hnorm : I.norm = (Int.gcd nx N : ℤ) := createFromPrimitive_norm p x N O prev nx hx hn
  have hId := (createFromPrimitive_lattice p x N O prev hO hx).2
  have hn0 : I.norm ≠ 0 := by
    rw [hnorm]; intro h0; rw [h0, zero_mul] at hq; exact hnx hq
  have hq0 : q ≠ 0 := by rintro rfl; rw [mul_zero] at hq; exact hnx hq
  have hxI : val p x ∈ hLat p I.lattice := by
    show val p x ∈ hLat p (createFromPrimitive p x N O prev).lattice
    rw [(createFromPrimitive_lattice p x N O prev hO hx).1]
    exact gen_mem p N _ _ hord.one_mem
  refine covol_eq_norm_sq_of_generator p O I.lattice I.norm q x hO hId hdetO hIn hn0 hq0 hx hxI ?_ ?_
  · rw [hn, hnorm, ← hq]
  · rw [hnorm]; exact hc

/-- **norm² = index, general case with a witness**: whenever the model's generator search succeeds on an ideal that
    carries its stored norm (every output of `create_from_primitive` does), `covol(I) = N(I)²·covol(O)`. -/
theorem covol_of_generatorCoprime (p : ℤ) (I : LeftIdeal) (n bound : ℤ) (g : Elem)
    (hO : I.order.denom ≠ 0) (hd : I.lattice.denom ≠ 0) (hdetO : (toMatrix I.order.basis).det ≠ 0)
    (hord : IsOrder (hLat p I.order))
    (hI : IsLeftIdealOfNorm (hLat p I.order) (hLat p I.lattice) I.norm) (hn0 : I.norm ≠ 0)
    (h : generatorCoprime p I n bound = some g) (hg0 : nrm (val p g) ≠ 0) :
    covol I.lattice = (I.norm : ℚ) ^ 2 * covol I.order := by
  obtain ⟨_, hmem, q, hnq, c1, _⟩ := generatorCoprime_generates p I n bound g hd hord hI hn0 h
  obtain ⟨v, _, rfl, _⟩ := generatorCoprime_sound p I n bound g h
  have hq0 : q ≠ 0 := by
    rintro rfl; rw [mul_zero] at hnq; exact hg0 (by rw [hnq]; simp)
  exact covol_eq_norm_sq_of_generator p I.order I.lattice I.norm q _ hO hd hdetO hI hn0 hq0 hd hmem hnq c1

/-- the covolume statement as Mathlib's group index: `[O : I] = n²` -/
theorem relIndex_of_covol (O I : Lattice) (n : ℤ) (hO : O.denom ≠ 0) (hI : I.denom ≠ 0)
    (hdetO : (toMatrix O.basis).det ≠ 0) (hle : ratLat I ≤ ratLat O) (hn0 : n ≠ 0)
    (hc : covol I = (n : ℚ) ^ 2 * covol O) :
    (ratLat I).toAddSubgroup.relIndex (ratLat O).toAddSubgroup = n.natAbs ^ 2 := by
  have cO := covol_pos O hO hdetO
  have cI : 0 < covol I := by rw [hc]; exact mul_pos (by positivity) cO
  have := relIndex_eq_covol_ratio I O hI hO (det_ne_zero_of_covol_pos I cI) hdetO hle
  rw [hc, mul_div_assoc, div_self (ne_of_gt cO), mul_one] at this
  have e : (((ratLat I).toAddSubgroup.relIndex (ratLat O).toAddSubgroup : ℕ) : ℚ) = ((n.natAbs ^ 2 : ℕ) : ℚ) := by
    rw [this]; push_cast; rw [Nat.cast_natAbs, Int.cast_abs, sq_abs]
  exact_mod_cast e

end SqiProofs.IdealCovol

import SqiProofs.IdealAlg
import Mathlib.Data.Nat.Factors
import Mathlib.Data.Nat.PrimeFin
import Mathlib.Data.Nat.Prime.Int
import Mathlib.Algebra.BigOperators.Associated
/- C15: existence of a generator with cofactor coprime to the norm (pure algebra).  For `x` in an order `O` with
   integral norms, `N(x + N·y) = N(x) + N·tr(x ȳ) + N²·N(y)`; if for every prime `ℓ | n = gcd(N(x), N)` the functional
   `y ↦ tr(x ȳ)` is not identically `0 mod ℓ` on `O`, a `y ∈ O` exists with `N(x + N·y)/n` coprime to `n`
   (one residue class to avoid per prime; primes are combined one at a time). -/
open SqiProofs.QuatAlg SqiProofs.QuatLattice
open scoped Pointwise

namespace SqiProofs.IdealAlg

variable {p : ℤ}

/-- `tr(x ȳ) = m` -/
def TracePair (x y : H p) (m : ℤ) : Prop := x * star y + y * star x = ((m : ℤ) : H p)

theorem TracePair.add_smul {x y1 y2 : H p} {m1 m2 : ℤ} (h1 : TracePair x y1 m1) (h2 : TracePair x y2 m2) (k : ℤ) :
    TracePair x (y1 + k • y2) (m1 + k * m2) := by
  unfold TracePair at *
  have : x * star (y1 + k • y2) + (y1 + k • y2) * star x =
      (x * star y1 + y1 * star x) + k • (x * star y2 + y2 * star x) := by
    simp only [star_add, star_smul, TrivialStar.star_trivial, mul_add, add_mul, mul_smul_comm, smul_mul_assoc, smul_add]
    abel
  rw [this, h1, h2]
  push_cast
  rw [zsmul_eq_mul]

theorem tracePair_zero (x : H p) : TracePair x 0 0 := by simp [TracePair]

/-- `N(x + N·y) = N(x) + N·tr(x ȳ) + N²·N(y)` -/
theorem hasNorm_add_smul {x y : H p} {nx ny t : ℤ} (N : ℤ) (hx : HasNorm x nx) (hy : HasNorm y ny)
    (ht : TracePair x y t) : HasNorm (x + N • y) (nx + N * t + N * N * ny) := by
  unfold HasNorm TracePair at *
  have : (x + N • y) * star (x + N • y) = x * star x + N • (x * star y + y * star x) + (N * N) • (y * star y) := by
    simp only [star_add, star_smul, TrivialStar.star_trivial, mul_add, add_mul, mul_smul_comm, smul_mul_assoc, smul_add,
      smul_smul]
    abel
  rw [this, hx, hy, ht]
  simp only [zsmul_eq_mul]
  push_cast
  rfl

/-- an order all of whose elements have integral reduced norm -/
structure IsIntegralOrder (O : Lat p) : Prop extends IsOrder O where
  norm_int : ∀ y ∈ O, ∃ m : ℤ, HasNorm y m

theorem IsIntegralOrder.tracePair {O : Lat p} (hO : IsIntegralOrder O) {x y : H p} (hx : x ∈ O) (hy : y ∈ O) :
    ∃ m : ℤ, TracePair x y m := by
  obtain ⟨a, ha⟩ := hO.norm_int x hx
  obtain ⟨b, hb⟩ := hO.norm_int y hy
  obtain ⟨c, hc⟩ := hO.norm_int (x + y) (O.add_mem hx hy)
  refine ⟨c - a - b, ?_⟩
  unfold HasNorm TracePair at *
  have : x * star y + y * star x = (x + y) * star (x + y) - x * star x - y * star y := by
    simp only [star_add, mul_add, add_mul]; abel
  rw [this, ha, hb, hc]; push_cast; rfl

/-- **existence of a good `y`**: for a finite set `s` of primes such that for each `ℓ ∈ s` some `b ∈ O` has
    `ℓ ∤ tr(x b̄)`, and coprime `a, c`, there is `y ∈ O` with `ℓ ∤ a + c·tr(x ȳ)` for all `ℓ ∈ s`. -/
theorem exists_avoiding {O : Lat p} (x : H p) (a c : ℤ) (hac : IsCoprime a c) (s : Finset ℕ)
    (hs : ∀ ℓ ∈ s, Nat.Prime ℓ ∧ ∃ b ∈ O, ∃ m : ℤ, TracePair x b m ∧ ¬ ((ℓ : ℤ) ∣ m)) :
    ∃ y ∈ O, ∃ t : ℤ, TracePair x y t ∧ ∀ ℓ ∈ s, ¬ ((ℓ : ℤ) ∣ a + c * t) := by
  induction s using Finset.induction_on with
  | empty => exact ⟨0, O.zero_mem, 0, tracePair_zero x, by simp⟩
  | insert ℓ s hℓ ih =>
    obtain ⟨y, hy, t, ht, hgood⟩ := ih (fun q hq => hs q (Finset.mem_insert_of_mem hq))
    obtain ⟨hprime, b, hb, m, hm, hndvd⟩ := hs ℓ (Finset.mem_insert_self ℓ s)
    have hpℤ : Prime (ℓ : ℤ) := Nat.prime_iff_prime_int.1 hprime
    by_cases h0 : (ℓ : ℤ) ∣ a + c * t
    · -- move by P·b where P = ∏ s
      set P : ℤ := ((∏ q ∈ s, q : ℕ) : ℤ) with hP
      have hPs : ∀ q ∈ s, (q : ℤ) ∣ P := by
        intro q hq; rw [hP]; exact_mod_cast Finset.dvd_prod_of_mem (fun q => q) hq
      have hPℓ : ¬ (ℓ : ℤ) ∣ P := by
        rw [hP]
        intro hd
        have hd' : ℓ ∣ ∏ q ∈ s, q := by exact_mod_cast hd
        obtain ⟨q, hq, hdq⟩ := (Nat.prime_iff.1 hprime).exists_mem_finset_dvd hd'
        have hqprime := (hs q (Finset.mem_insert_of_mem hq)).1
        have : ℓ = q := (Nat.prime_dvd_prime_iff_eq hprime hqprime).1 hdq
        exact hℓ (this ▸ hq)
      have hcℓ : ¬ (ℓ : ℤ) ∣ c := by
        intro hc
        have : (ℓ : ℤ) ∣ a := by
          have := (Int.dvd_add_left (Dvd.dvd.mul_right hc t)).1 h0
          exact this
        exact hpℤ.not_isUnit (hac.isUnit_of_dvd' this hc)
      refine ⟨y + P • b, O.add_mem hy (O.smul_mem P hb), t + P * m, ht.add_smul hm P, ?_⟩
      intro q hq
      rcases Finset.mem_insert.1 hq with rfl | hq
      · intro hd
        have e : a + c * (t + P * m) = (a + c * t) + c * P * m := by ring
        rw [e] at hd
        have := (Int.dvd_add_right h0).1 hd
        rcases hpℤ.dvd_or_dvd this with h | h
        · rcases hpℤ.dvd_or_dvd h with h | h
          · exact hcℓ h
          · exact hPℓ h
        · exact hndvd h
      · intro hd
        have e : a + c * (t + P * m) = (a + c * t) + c * P * m := by ring
        rw [e] at hd
        have hq' : (q : ℤ) ∣ c * P * m := Dvd.dvd.mul_right (Dvd.dvd.mul_left (hPs q hq) c) m
        exact hgood q hq ((Int.dvd_add_left hq').1 hd)
    · refine ⟨y, hy, t, ht, ?_⟩
      intro q hq
      rcases Finset.mem_insert.1 hq with rfl | hq
      · exact h0
      · exact hgood q hq

/-- shifting the generator by an element of `N·O` does not change `O·x + N·O` -/
theorem genIdeal_shift {O : Lat p} (hO : IsOrder O) (x y : H p) (hy : y ∈ O) (N : ℤ) :
    genIdeal O (x + N • y) N = genIdeal O x N := by
  apply le_antisymm
  · intro z hz
    obtain ⟨a, ha, b, hb, rfl⟩ := mem_genIdeal.1 hz
    refine mem_genIdeal.2 ⟨a, ha, a * y + b, O.add_mem (hO.mul_mem a ha y hy) hb, ?_⟩
    rw [mul_add, mul_smul_comm, smul_add]; abel
  · intro z hz
    obtain ⟨a, ha, b, hb, rfl⟩ := mem_genIdeal.1 hz
    refine mem_genIdeal.2 ⟨a, ha, b - a * y, O.sub_mem hb (hO.mul_mem a ha y hy), ?_⟩
    rw [mul_add, mul_smul_comm, smul_sub]; abel

/-- **existence of a generator with cofactor coprime to the norm.**  `O` an order with integral norms, `x ∈ O`,
    `n = gcd(N(x), N) ≠ 0`.  If for every prime `ℓ | n` some `b ∈ O` has `ℓ ∤ tr(x b̄)`, then there is `y ∈ O` such that
    `g = x + N·y` has `N(g) = n·q` with `gcd(q, n) = 1`. -/
theorem exists_generator {O : Lat p} (hO : IsIntegralOrder O) (x : H p) (nx N : ℤ) (hn : HasNorm x nx)
    (hn0 : Int.gcd nx N ≠ 0)
    (hnd : ∀ ℓ : ℕ, ℓ.Prime → ℓ ∣ Int.gcd nx N → ∃ b ∈ O, ∃ m : ℤ, TracePair x b m ∧ ¬ ((ℓ : ℤ) ∣ m)) :
    ∃ y ∈ O, ∃ q : ℤ, HasNorm (x + N • y) ((Int.gcd nx N : ℤ) * q) ∧ Int.gcd q (Int.gcd nx N : ℤ) = 1 := by
  set n : ℕ := Int.gcd nx N with hnn
  have hnpos : 0 < n := Nat.pos_of_ne_zero hn0
  obtain ⟨a, ha⟩ : ((n : ℤ)) ∣ nx := Int.gcd_dvd_left nx N
  obtain ⟨c, hc⟩ : ((n : ℤ)) ∣ N := Int.gcd_dvd_right nx N
  have hac : IsCoprime a c := by
    have h1 := Int.gcd_div_gcd_div_gcd (i := nx) (j := N) hnpos
    rw [← hnn] at h1
    have e1 : nx / (n : ℤ) = a := by rw [ha]; exact Int.mul_ediv_cancel_left a (by exact_mod_cast hn0)
    have e2 : N / (n : ℤ) = c := by rw [hc]; exact Int.mul_ediv_cancel_left c (by exact_mod_cast hn0)
    rw [e1, e2] at h1
    exact Int.isCoprime_iff_gcd_eq_one.2 h1
  obtain ⟨y, hy, t, ht, hgood⟩ := exists_avoiding (O := O) x a c hac n.primeFactors (by
    intro ℓ hℓ
    have hp := Nat.prime_of_mem_primeFactors hℓ
    exact ⟨hp, hnd ℓ hp (Nat.dvd_of_mem_primeFactors hℓ)⟩)
  obtain ⟨ny, hny⟩ := hO.norm_int y hy
  refine ⟨y, hy, a + c * t + c * N * ny, ?_, ?_⟩
  · have := hasNorm_add_smul N hn hny ht
    have e : nx + N * t + N * N * ny = (n : ℤ) * (a + c * t + c * N * ny) := by
      rw [ha]; conv_lhs => rw [hc]
      ring_nf
      rw [hc]; ring
    rwa [e] at this
  · rw [Int.gcd_def]
    apply Nat.coprime_of_dvd
    intro ℓ hℓ h1 h2
    have h2' : ℓ ∣ n := by simpa using h2
    have hmem : ℓ ∈ n.primeFactors := Nat.mem_primeFactors.2 ⟨hℓ, h2', hn0⟩
    apply hgood ℓ hmem
    have d1 : (ℓ : ℤ) ∣ a + c * t + c * N * ny := Int.natCast_dvd.2 h1
    have d2 : (ℓ : ℤ) ∣ c * N * ny := by
      have : (ℓ : ℤ) ∣ N := by
        rw [hc]; exact Dvd.dvd.mul_right (by exact_mod_cast h2') c
      exact Dvd.dvd.mul_right (Dvd.dvd.mul_left this c) ny
    exact (Int.dvd_add_left d2).1 d1

end SqiProofs.IdealAlg

import SqiProofs.Ideal
import SqiProofs.IdealAlg
import SqiProofs.QuatRelIndex
import SqiProofs.QuatEqual
/- C15: the algebra of `IdealAlg.lean` transported to the executable model (`SqiModel.Ideal`): full versions of
   "norm² = index", "a reported generator generates", "`lideal_mul` returns I·α", "an accepted transporter certificate
   is the transporter". -/
open SqiModel.Quat SqiModel.Ideal SqiProofs.QuatAlg SqiProofs.QuatMat SqiProofs.Hnf SqiProofs.QuatLattice SqiProofs.Ideal
open SqiProofs.IdealAlg
open scoped Pointwise

namespace SqiProofs.IdealFull

/-! ## orders -/

theorem val_algConj_col (p : ℤ) (L : Lattice) (k : Nat) :
    val p (algConj (latCol L k)) = star (val p ⟨L.denom, L.basis.col k⟩) := algConj_val p _

/-- generators of the conjugate lattice -/
theorem conjS_hLat (p : ℤ) (L : Lattice) :
    conjS (hLat p L) = Submodule.span ℤ {z | ∃ x ∈ L.basis.cols, z = star (val p ⟨L.denom, x⟩)} := by
  unfold conjS
  rw [hLat_eq_span, Submodule.map_span]
  congr 1
  ext z
  constructor
  · rintro ⟨_, ⟨x, hx, rfl⟩, rfl⟩; exact ⟨x, hx, rfl⟩
  · rintro ⟨x, hx, rfl⟩; exact ⟨_, ⟨x, hx, rfl⟩, rfl⟩

theorem conjContained_sound (p : ℤ) (O : Lattice) (hd : O.denom ≠ 0) (hn : IsHNF O.basis)
    (h : conjContained O = true) : conjS (hLat p O) ≤ hLat p O := by
  rw [conjS_hLat, Submodule.span_le]
  rintro _ ⟨x, hx, rfl⟩
  obtain ⟨k, hk, rfl⟩ := mem_cols _ _ hx
  unfold conjContained at h
  rw [List.all_eq_true] at h
  have h' := h k hk
  have hd' : (algConj (latCol O k)).denom ≠ 0 := hd
  have := (latContains_iff_val p O _ hd hd' hn).1 h'
  rwa [val_algConj_col] at this

/-- an order certificate gives an order in the sense of `IdealAlg` -/
theorem isOrder_of_cert (p : ℤ) (O : Lattice) (h : isOrderCert p O = true) : IsOrder (hLat p O) := by
  obtain ⟨hd, hn, h1, hm⟩ := isOrderCert_sound p O h
  unfold isOrderCert at h
  simp only [Bool.and_eq_true] at h
  have hc := conjContained_sound p O hd hn h.2
  exact ⟨h1, Submodule.mul_le.1 hm, fun a ha => hc (star_mem_conjS ha)⟩

/-! ## the constructed ideal carries its stored norm -/

theorem hLat_createFromPrimitive_eq_genIdeal (p : ℤ) (x : Elem) (N : ℤ) (O : Lattice) (prev : ℤ)
    (hO : O.denom ≠ 0) (hx : x.denom ≠ 0) :
    hLat p (createFromPrimitive p x N O prev).lattice = genIdeal (hLat p O) (val p x) N :=
  (createFromPrimitive_lattice p x N O prev hO hx).1

/-- **`quat_lideal_create_from_primitive` returns a left ideal of norm `gcd(N(x), N)`** in the sense
    `O·I ⊆ I ⊆ O`, `n ∈ I`, `I·Ī ⊆ n·O`, for every `x ∈ O` (primitive or not) with integral norm. -/
theorem createFromPrimitive_isLeftIdealOfNorm (p : ℤ) (x : Elem) (N : ℤ) (O : Lattice) (prev nx : ℤ)
    (hO : O.denom ≠ 0) (hx : x.denom ≠ 0) (hord : IsOrder (hLat p O)) (hxO : val p x ∈ hLat p O)
    (hn : nrm (val p x) = nx) :
    IsLeftIdealOfNorm (hLat p O) (hLat p (createFromPrimitive p x N O prev).lattice)
      (createFromPrimitive p x N O prev).norm := by
  rw [hLat_createFromPrimitive_eq_genIdeal p x N O prev hO hx, createFromPrimitive_norm p x N O prev nx hx hn]
  exact genIdeal_isLeftIdealOfNorm hord (val p x) hxO nx N (hasNorm_of_nrm hn)

/-! ## (b) a reported generator generates -/

theorem coprime_of_mul (a b q : ℤ) (h : Int.gcd (a * b) q = 1) : Int.gcd q a = 1 ∧ Int.gcd q b = 1 := by
  have h' : Nat.Coprime (a.natAbs * b.natAbs) q.natAbs := by
    have : Int.gcd (a * b) q = Nat.gcd (a.natAbs * b.natAbs) q.natAbs := by
      rw [Int.gcd_def, Int.natAbs_mul]
    rw [this] at h; exact h
  constructor
  · rw [Int.gcd_def]; exact (Nat.Coprime.coprime_mul_right h').symm
  · rw [Int.gcd_def]; exact (Nat.Coprime.coprime_mul_left h').symm

/-- **`quat_lideal_generator_coprime` is correct**: if the model returns `g` for an ideal `I` of an order `O` that
    carries its stored norm (`IsLeftIdealOfNorm`, e.g. any output of `create_from_primitive`), then
    `I = O·g + N(I)·O`, `g ∈ I`, and `N(g) = N(I)·q` with `q` coprime to `N(I)` and to `n`. -/
theorem generatorCoprime_generates (p : ℤ) (I : LeftIdeal) (n bound : ℤ) (g : Elem)
    (hd : I.lattice.denom ≠ 0) (hord : IsOrder (hLat p I.order))
    (hI : IsLeftIdealOfNorm (hLat p I.order) (hLat p I.lattice) I.norm) (hn0 : I.norm ≠ 0)
    (h : generatorCoprime p I n bound = some g) :
    hLat p I.lattice = genIdeal (hLat p I.order) (val p g) I.norm ∧ val p g ∈ hLat p I.lattice ∧
    ∃ q : ℤ, nrm (val p g) = ((I.norm * q : ℤ) : ℚ) ∧ Int.gcd q I.norm = 1 ∧ Int.gcd q n = 1 := by
  obtain ⟨v, _, rfl, ha⟩ := generatorCoprime_sound p I n bound g h
  have hmem := genCandidate_mem p I v hd
  obtain ⟨ng, hng, hdvd, hc1, _⟩ := genAccept_spec p I n _ hd ha
  obtain ⟨q, rfl⟩ := hdvd
  rw [Int.mul_ediv_cancel_left _ hn0] at hc1
  obtain ⟨c1, c2⟩ := coprime_of_mul _ _ _ hc1
  refine ⟨?_, hmem, q, hng, c1, c2⟩
  exact eq_genIdeal_of_generator hord hI hn0 _ hmem (hasNorm_of_nrm hng) c1

/-! ## (c) `quat_lideal_mul` returns `I·α` -/

/-- `quat_alg_norm` of an element with integral reduced norm `m` is the canonical rational `m/1` -/
theorem algNorm_of_int (p : ℤ) (a : Elem) (m : ℤ) (ha : a.denom ≠ 0) (hm : nrm (val p a) = m) :
    algNorm p a = some (m, 1) := by
  have hv := algNorm_val p a ha
  have hd : (algMul p a (algConj a)).denom ≠ 0 := algMul_denom_ne p a (algConj a) ha (by simpa [algConj] using ha)
  obtain ⟨n, d, h1, h2, _, h4⟩ := ibqSet_spec (algMul p a (algConj a)).coord.x0 (algMul p a (algConj a)).denom hd
  have hq : algNorm p a = some (n, d) := by unfold algNorm; exact h1
  rw [hq] at hv ⊢
  simp only [qval, Option.some.injEq] at hv
  have hdq : (d : ℚ) ≠ 0 := by exact_mod_cast (ne_of_gt h2)
  have e : n = m * d := by
    have : (n : ℚ) = m * d := by rw [← hm, ← hv]; field_simp
    exact_mod_cast this
  have hd1 : d = 1 := by
    have hdv : (d : ℤ) ∣ n := ⟨m, by rw [e]; ring⟩
    have h2' := Int.gcd_eq_right (le_of_lt h2) hdv
    rw [h4] at h2'
    exact_mod_cast h2'.symm
  subst hd1
  simp [e]

theorem ibqSet_one (a : ℤ) : ibqSet a 1 = some (a, 1) := by
  unfold ibqSet ibzGcd
  simp

/-- the branch of `quat_lideal_mul` taken for `α` of integral norm `m`: the generator search is run with `n = m`
    and the product is `create_from_primitive (g·α, m·N(I))` -/
theorem lidealMul_eq (p : ℤ) (I : LeftIdeal) (alpha : Elem) (bound prev m : ℤ) (ha : alpha.denom ≠ 0)
    (hm : nrm (val p alpha) = m) :
    lidealMul p I alpha bound prev =
      (generatorCoprime p I m bound).map fun g => createFromPrimitive p (algMul p g alpha) (m * I.norm) I.order prev := by
  unfold lidealMul normInto
  rw [algNorm_of_int p alpha m ha hm]
  simp only [ibzGcd, Int.gcd_one_left, Nat.cast_one, ibzDiv, Int.tdiv_one, ibqSet_one]
  cases generatorCoprime p I m bound with
  | none => rfl
  | some g =>
    simp only [Option.map_some]
    congr 2
    unfold ibqToIbz
    simp

/-- **`quat_lideal_mul` is correct**: for an ideal `I` of an order `O` carrying its stored norm `N(I) ≠ 0` and
    `α ∈ O` with `N(α) = m`, a returned product `J` satisfies `J = I·α` as lattices, its stored norm is `|N(I)·m|`, and it
    again carries that norm.  The coprimality `gcd(N(g)/N(I), N(α)) = 1` enforced by the generator search is what makes
    `O·(gα) + N(I)N(α)·O` equal to `I·α`. -/
theorem lidealMul_full (p : ℤ) (I : LeftIdeal) (alpha : Elem) (bound prev m : ℤ) (J : LeftIdeal)
    (hO : I.order.denom ≠ 0) (hd : I.lattice.denom ≠ 0) (ha : alpha.denom ≠ 0)
    (hord : IsOrder (hLat p I.order))
    (hI : IsLeftIdealOfNorm (hLat p I.order) (hLat p I.lattice) I.norm) (hn0 : I.norm ≠ 0)
    (haO : val p alpha ∈ hLat p I.order) (hm : nrm (val p alpha) = m)
    (h : lidealMul p I alpha bound prev = some J) :
    hLat p J.lattice = hLat p I.lattice * Submodule.span ℤ {val p alpha} ∧
    J.norm = ((I.norm * m).natAbs : ℤ) ∧ J.order = I.order ∧
    IsLeftIdealOfNorm (hLat p I.order) (hLat p J.lattice) (I.norm * m) := by
  rw [lidealMul_eq p I alpha bound prev m ha hm] at h
  cases hg : generatorCoprime p I m bound with
  | none => rw [hg] at h; simp at h
  | some g =>
    rw [hg] at h
    simp only [Option.map_some, Option.some.injEq] at h
    subst h
    obtain ⟨e, hmem, q, hnq, c1, c2⟩ := generatorCoprime_generates p I m bound g hd hord hI hn0 hg
    obtain ⟨v, _, rfl, _⟩ := generatorCoprime_sound p I m bound g hg
    have hgd : (genCandidate I v).denom ≠ 0 := hd
    have hgO : val p (genCandidate I v) ∈ hLat p I.order := hI.sub hmem
    have hNg : HasNorm (val p (genCandidate I v)) (I.norm * q) := hasNorm_of_nrm hnq
    have hNa : HasNorm (val p alpha) m := hasNorm_of_nrm hm
    have hprod := genIdeal_mul_elem hord _ _ hgO haO hNg hNa c2
    have hlat : hLat p (createFromPrimitive p (algMul p (genCandidate I v) alpha) (m * I.norm) I.order prev).lattice =
        hLat p I.lattice * Submodule.span ℤ {val p alpha} := by
      rw [hLat_createFromPrimitive_eq_genIdeal p _ _ _ _ hO (algMul_denom_ne p _ _ hgd ha), algMul_val p _ _ hgd ha,
        e, hprod, mul_comm m]
    refine ⟨hlat, ?_, rfl, ?_⟩
    · have hn' : nrm (val p (algMul p (genCandidate I v) alpha)) = ((I.norm * q * m : ℤ) : ℚ) := by
        rw [algMul_val p _ _ hgd ha, nrm_mul, hnq, hm]; push_cast; ring
      rw [createFromPrimitive_norm p _ _ _ _ _ (algMul_denom_ne p _ _ hgd ha) hn']
      have : Int.gcd (I.norm * q * m) (m * I.norm) = (I.norm * m).natAbs := by
        have e1 : I.norm * q * m = (I.norm * m) * q := by ring
        have e2 : m * I.norm = (I.norm * m) * 1 := by ring
        rw [e1, e2, Int.gcd_mul_left, Int.gcd_one_right, mul_one]
      rw [this]
    · rw [hlat]
      exact mul_elem_isLeftIdealOfNorm hord hI _ haO hNa

/-! ## (d) exact transporter / right order certificates -/

theorem val_elemDivInt (p : ℤ) (e : Elem) (n : ℤ) (hn : n ≠ 0) (he : e.denom ≠ 0) :
    val p e = n • val p (elemDivInt e n) := by
  have hnq : (n : ℚ) ≠ 0 := by exact_mod_cast hn
  have heq : (e.denom : ℚ) ≠ 0 := by exact_mod_cast he
  apply QuaternionAlgebra.ext <;> simp [val, elemDivInt] <;> field_simp

/-- `conjProdsContained` ⇒ `L̄1·L2 ⊆ n·T` -/
theorem conjProdsContained_sound (p n : ℤ) (l1 l2 T : Lattice) (h : conjProdsContained p n l1 l2 T = true)
    (hn : n ≠ 0) (h1 : l1.denom ≠ 0) (h2 : l2.denom ≠ 0) (hT : T.denom ≠ 0) (hnT : IsHNF T.basis) :
    conjS (hLat p l1) * hLat p l2 ≤ nsmul' n (hLat p T) := by
  rw [conjS_hLat, hLat_eq_span p l2, Submodule.span_mul_span, Submodule.span_le]
  rintro _ ⟨u, ⟨a, ha, rfl⟩, v, ⟨b, hb, rfl⟩, rfl⟩
  obtain ⟨k, hk, rfl⟩ := mem_cols _ _ ha
  obtain ⟨i, hi, rfl⟩ := mem_cols _ _ hb
  unfold conjProdsContained at h
  rw [List.all_eq_true] at h
  have h' := h k hk
  rw [List.all_eq_true] at h'
  have h'' := h' i hi
  have hc : (algConj (latCol l1 k)).denom ≠ 0 := h1
  have hd : (algMul p (algConj (latCol l1 k)) (latCol l2 i)).denom ≠ 0 := algMul_denom_ne p _ _ hc h2
  have hd' : (elemDivInt (algMul p (algConj (latCol l1 k)) (latCol l2 i)) n).denom ≠ 0 := mul_ne_zero hd hn
  have hm := (latContains_iff_val p T _ hT hd' hnT).1 h''
  have e : star (val p ⟨l1.denom, l1.basis.col k⟩) * val p ⟨l2.denom, l2.basis.col i⟩ =
      val p (algMul p (algConj (latCol l1 k)) (latCol l2 i)) := by
    rw [algMul_val p _ _ hc h2, val_algConj_col]; rfl
  show star (val p ⟨l1.denom, l1.basis.col k⟩) * val p ⟨l2.denom, l2.basis.col i⟩ ∈ nsmul' n (hLat p T)
  rw [e, val_elemDivInt p _ n hn hd]
  exact mem_nsmul'.2 ⟨_, hm, rfl⟩

/-- **an accepted exact certificate is the transporter**: for left ideals `I1, I2` of `O` where `I1` carries its stored
    norm and `N(I1) ∈ Ī1·I1`, `isRightTransporterExact p I1 I2 T = true` implies `T = {x | I1·x ⊆ I2}`. -/
theorem isRightTransporterExact_sound (p : ℤ) (I1 I2 : LeftIdeal) (T : Lattice)
    (hI1 : IsLeftIdealOfNorm (hLat p I1.order) (hLat p I1.lattice) I1.norm)
    (hinv : ((I1.norm : ℤ) : H p) ∈ conjS (hLat p I1.lattice) * hLat p I1.lattice)
    (hI2 : ∀ a ∈ hLat p I1.order, ∀ y ∈ hLat p I2.lattice, a * y ∈ hLat p I2.lattice)
    (h : isRightTransporterExact p I1 I2 T = true) :
    hLat p T = transporter (hLat p I1.lattice) (hLat p I2.lattice) := by
  unfold isRightTransporterExact at h
  simp only [Bool.and_eq_true, bne_iff_ne, ne_eq] at h
  obtain ⟨⟨⟨⟨hc, hwT⟩, hn0⟩, hd2⟩, hcp⟩ := h
  obtain ⟨hdT, hnT⟩ := latWf_sound T hwT
  have h1 := isRightTransporterCert_sound p _ _ _ hc
  have hd1 : I1.lattice.denom ≠ 0 := by
    unfold isRightTransporterCert at hc
    simp only [Bool.and_eq_true, bne_iff_ne, ne_eq] at hc
    exact hc.1.1.2
  have h2 := conjProdsContained_sound p _ _ _ _ hcp hn0 hd1 hd2 hdT hnT
  exact transporter_eq_of_cert hI1 hn0 hinv hI2 h1 h2

/-- a generator returned by the model's search puts `N(I)` into `Ī·I` -/
theorem norm_mem_conj_mul_of_generator (p : ℤ) (I : LeftIdeal) (n bound : ℤ) (g : Elem)
    (hd : I.lattice.denom ≠ 0) (hord : IsOrder (hLat p I.order))
    (hI : IsLeftIdealOfNorm (hLat p I.order) (hLat p I.lattice) I.norm) (hn0 : I.norm ≠ 0)
    (h : generatorCoprime p I n bound = some g) :
    ((I.norm : ℤ) : H p) ∈ conjS (hLat p I.lattice) * hLat p I.lattice := by
  obtain ⟨_, hmem, q, hnq, c1, _⟩ := generatorCoprime_generates p I n bound g hd hord hI hn0 h
  exact norm_mem_conj_mul (val p g) hmem hI.norm_mem (hasNorm_of_nrm hnq) c1

/-- right order: an accepted exact certificate is `{x | I·x ⊆ I}`, which is then a ring with 1 -/
theorem isRightOrderExact_sound (p : ℤ) (I : LeftIdeal) (O' : Lattice)
    (hI : IsLeftIdealOfNorm (hLat p I.order) (hLat p I.lattice) I.norm)
    (hinv : ((I.norm : ℤ) : H p) ∈ conjS (hLat p I.lattice) * hLat p I.lattice)
    (h : isRightOrderExact p I O' = true) :
    hLat p O' = transporter (hLat p I.lattice) (hLat p I.lattice) ∧ (1 : H p) ∈ hLat p O' ∧
    hLat p O' * hLat p O' ≤ hLat p O' := by
  have e := isRightTransporterExact_sound p I I O' hI hinv hI.left h
  refine ⟨e, ?_, ?_⟩
  · rw [e]; intro y hy; simpa using hy
  · rw [e, Submodule.mul_le]
    intro a ha b hb y hy
    rw [← mul_assoc]; exact hb _ (ha y hy)

/-! ## connecting ideals -/

theorem mul_span_intCast {p : ℤ} (O : Lat p) (N : ℤ) : O * Submodule.span ℤ {((N : ℤ) : H p)} = nsmul' N O := by
  ext z
  rw [Submodule.mem_mul_span_singleton, mem_nsmul']
  constructor
  · rintro ⟨w, hw, rfl⟩; exact ⟨w, hw, by rw [zsmul_eq_mul, (Int.cast_commute N w).eq]⟩
  · rintro ⟨w, hw, rfl⟩; exact ⟨w, hw, by rw [zsmul_eq_mul, (Int.cast_commute N w).eq]⟩

theorem mul_span_smul {p : ℤ} (O : Lat p) (N : ℤ) (b : H p) :
    O * Submodule.span ℤ {N • b} = nsmul' N (O * Submodule.span ℤ {b}) := by
  ext z
  rw [Submodule.mem_mul_span_singleton, mem_nsmul']
  constructor
  · rintro ⟨w, hw, rfl⟩
    exact ⟨w * b, Submodule.mem_mul_span_singleton.2 ⟨w, hw, rfl⟩, by rw [mul_smul_comm]⟩
  · rintro ⟨y, hy, rfl⟩
    obtain ⟨w, hw, rfl⟩ := Submodule.mem_mul_span_singleton.1 hy
    exact ⟨w, hw, by rw [mul_smul_comm]⟩

theorem nsmul'_mul {p : ℤ} (N : ℤ) (L A : Lat p) : nsmul' N L * A = nsmul' N (L * A) := by
  apply le_antisymm
  · rw [Submodule.mul_le]
    rintro _ ⟨y, hy, rfl⟩ a ha
    exact ⟨y * a, Submodule.mul_mem_mul hy ha, by
      show N • (y * a) = (N • y) * a
      rw [smul_mul_assoc]⟩
  · rintro _ ⟨z, hz, rfl⟩
    refine Submodule.mul_induction_on hz ?_ ?_
    · intro y hy a ha
      have : (LinearMap.lsmul ℤ (H p) N) (y * a) = (N • y) * a := by
        show N • (y * a) = (N • y) * a
        rw [smul_mul_assoc]
      rw [this]
      exact Submodule.mul_mem_mul ⟨y, hy, rfl⟩ ha
    · intro u v hu hv
      rw [map_add]; exact Submodule.add_mem _ hu hv

theorem val_algScalar (p : ℤ) (N : ℤ) : val p (algScalar N 1) = ((N : ℤ) : H p) := by
  apply QuaternionAlgebra.ext <;> simp [val, algScalar]

theorem val_scalarMul_col (p : ℤ) (L : Lattice) (N : ℤ) (i : Nat) (hi : i < 4) :
    val p ⟨L.denom, (L.basis.scalarMul N).col i⟩ = N • val p ⟨L.denom, L.basis.col i⟩ := by
  obtain ⟨d, ⟨⟨a00, a01, a02, a03⟩, ⟨a10, a11, a12, a13⟩, ⟨a20, a21, a22, a23⟩, ⟨a30, a31, a32, a33⟩⟩⟩ := L
  rcases i with _ | _ | _ | _ | i
  case succ.succ.succ.succ => omega
  all_goals
    apply QuaternionAlgebra.ext <;>
      simp [val, Mat4.scalarMul, Mat4.map, Vec4.map, Mat4.col, Vec4.get] <;> ring

/-- a lattice is the sum of the lines through its four basis vectors -/
theorem hLat_eq_sup (p : ℤ) (L : Lattice) :
    hLat p L = Submodule.span ℤ {val p ⟨L.denom, L.basis.col 0⟩} ⊔ Submodule.span ℤ {val p ⟨L.denom, L.basis.col 1⟩} ⊔
      Submodule.span ℤ {val p ⟨L.denom, L.basis.col 2⟩} ⊔ Submodule.span ℤ {val p ⟨L.denom, L.basis.col 3⟩} := by
  rw [hLat_eq_span, ← Submodule.span_union, ← Submodule.span_union, ← Submodule.span_union]
  congr 1
  ext z
  simp only [Mat4.cols, List.mem_cons, List.not_mem_nil, or_false, Set.mem_ofPred_eq, Set.mem_union, Set.mem_singleton_iff]
  constructor
  · rintro ⟨x, hx | hx | hx | hx, rfl⟩ <;> subst hx <;> simp
  · rintro (((h | h) | h) | h) <;> subst h
    · exact ⟨_, Or.inl rfl, rfl⟩
    · exact ⟨_, Or.inr (Or.inl rfl), rfl⟩
    · exact ⟨_, Or.inr (Or.inr (Or.inl rfl)), rfl⟩
    · exact ⟨_, Or.inr (Or.inr (Or.inr rfl)), rfl⟩

/-- **`quat_connecting_ideal` returns `N·O₁·O₂`** with `N = quat_lattice_index(O₁ ∩ O₂, O₁)`; for rings `O₁, O₂` with 1 it
    is a left `O₁`- and right `O₂`-module (the defining inclusions of a connecting ideal). -/
theorem connectingIdeal_spec (p : ℤ) (O1 O2 : Lattice) (prev : ℤ) (h1 : O1.denom ≠ 0) (h2 : O2.denom ≠ 0)
    (hone : (1 : H p) ∈ hLat p O2) :
    let N := latIndex (latIntersect O1 O2) O1
    hLat p (connectingIdeal p O1 O2 prev).lattice = nsmul' N (hLat p O1 * hLat p O2) ∧
    (hLat p O1 * hLat p O1 ≤ hLat p O1 →
      hLat p O1 * hLat p (connectingIdeal p O1 O2 prev).lattice ≤ hLat p (connectingIdeal p O1 O2 prev).lattice) ∧
    (hLat p O2 * hLat p O2 ≤ hLat p O2 →
      hLat p (connectingIdeal p O1 O2 prev).lattice * hLat p O2 ≤ hLat p (connectingIdeal p O1 O2 prev).lattice) := by
  intro N
  have hs : (algScalar N 1).denom ≠ 0 := by simp [algScalar]
  let b (i : Nat) : Elem := ⟨O2.denom, (O2.basis.scalarMul N).col i⟩
  have hb : ∀ i, (b i).denom ≠ 0 := fun i => h2
  obtain ⟨e0, d0⟩ := principalLattice_spec p (algScalar N 1) O1 h1 hs
  have eb := fun i => principalLattice_spec p (b i) O1 h1 (hb i)
  have hl : (connectingIdeal p O1 O2 prev).lattice =
      latAdd (latAdd (latAdd (latAdd (principalLattice p (algScalar N 1) O1) (principalLattice p (b 0) O1))
        (principalLattice p (b 1) O1)) (principalLattice p (b 2) O1)) (principalLattice p (b 3) O1) := rfl
  have a1 := latAdd_spec (principalLattice p (algScalar N 1) O1) (principalLattice p (b 0) O1) d0 (eb 0).2
  have a2 := latAdd_spec _ (principalLattice p (b 1) O1) a1.2 (eb 1).2
  have a3 := latAdd_spec _ (principalLattice p (b 2) O1) a2.2 (eb 2).2
  have hv : ∀ i, i < 4 → val p (b i) = N • val p ⟨O2.denom, O2.basis.col i⟩ := fun i hi => val_scalarMul_col p O2 N i hi
  have key : hLat p (connectingIdeal p O1 O2 prev).lattice = nsmul' N (hLat p O1 * hLat p O2) := by
    rw [hl, hLat_add p _ _ a3.2 (eb 3).2, hLat_add p _ _ a2.2 (eb 2).2, hLat_add p _ _ a1.2 (eb 1).2,
      hLat_add p _ _ d0 (eb 0).2, e0, (eb 0).1, (eb 1).1, (eb 2).1, (eb 3).1, val_algScalar,
      hv 0 (by omega), hv 1 (by omega), hv 2 (by omega), hv 3 (by omega), mul_span_intCast,
      mul_span_smul, mul_span_smul, mul_span_smul, mul_span_smul]
    unfold nsmul'
    rw [← Submodule.map_sup, ← Submodule.map_sup, ← Submodule.map_sup, ← Submodule.map_sup]
    congr 1
    conv_rhs => rw [hLat_eq_sup p O2, Submodule.mul_sup, Submodule.mul_sup, Submodule.mul_sup]
    apply le_antisymm
    · refine sup_le (sup_le (sup_le (sup_le ?_ ?_) ?_) ?_) ?_
      · intro a ha
        have : a ∈ hLat p O1 * hLat p O2 := by
          have := Submodule.mul_mem_mul ha hone; rwa [mul_one] at this
        rwa [hLat_eq_sup p O2, Submodule.mul_sup, Submodule.mul_sup, Submodule.mul_sup] at this
      · exact le_sup_of_le_left (le_sup_of_le_left le_sup_left)
      · exact le_sup_of_le_left (le_sup_of_le_left le_sup_right)
      · exact le_sup_of_le_left le_sup_right
      · exact le_sup_right
    · refine sup_le (sup_le (sup_le ?_ ?_) ?_) ?_
      · exact le_sup_of_le_left (le_sup_of_le_left (le_sup_of_le_left le_sup_right))
      · exact le_sup_of_le_left (le_sup_of_le_left le_sup_right)
      · exact le_sup_of_le_left le_sup_right
      · exact le_sup_right
  refine ⟨key, ?_, ?_⟩
  · intro hO1
    rw [key, mul_smulLat, ← mul_assoc]
    exact Submodule.map_mono (Submodule.mul_le.2 (fun m hm n hn => Submodule.mul_mem_mul (hO1 hm) hn))
  · intro hO2
    rw [key, nsmul'_mul, mul_assoc]
    exact Submodule.map_mono (Submodule.mul_le.2 (fun m hm n hn => Submodule.mul_mem_mul hm (hO2 hn)))

end SqiProofs.IdealFull

/- C13 linear-algebra core: lemmas over a commutative ring (R = ZMod 2^f in the application) and parity facts over ℤ -/
import SqiProofs.PairingMat
import Mathlib.Algebra.Ring.Int.Parity
import Mathlib.Data.ZMod.Units
import Mathlib.Tactic.Ring
import Mathlib.Tactic.LinearCombination
import Mathlib.Tactic.Tauto
import Mathlib.Tactic.Linarith
import Mathlib.Data.Int.ModEq

namespace SqiProofs.IdealKernel
open SqiProofs.PairingMat

variable {R : Type} [CommRing R]

/-- matrix times column vector (layout of PairingMat.Mat: rows (a b), (c d)) -/
def mulVec (m : Mat R) (v : V R) : V R := (m.a * v.1 + m.b * v.2, m.c * v.1 + m.d * v.2)
def matAdd (m n : Mat R) : Mat R := ⟨m.a + n.a, m.b + n.b, m.c + n.c, m.d + n.d⟩
def matSmul (s : R) (m : Mat R) : Mat R := ⟨s * m.a, s * m.b, s * m.c, s * m.d⟩
def matOne : Mat R := ⟨1, 0, 0, 1⟩
def matMul (m n : Mat R) : Mat R := ⟨m.a * n.a + m.b * n.c, m.a * n.b + m.b * n.d, m.c * n.a + m.d * n.c, m.c * n.b + m.d * n.d⟩
def matDet (m : Mat R) : R := m.a * m.d - m.b * m.c
/-- adjugate = matrix of the conjugate element (tr − M) -/
def matAdj (m : Mat R) : Mat R := ⟨m.d, -m.b, -m.c, m.a⟩

/-- the coefficients (a, b) computed by `id2iso_kernel_dlogs_to_ideal_two`: inverse of [v | θv] applied to ι v -/
def ktiCoeffs (MI Mθ : Mat R) (dinv : R) (v : V R) : R × R :=
  let c := mulVec Mθ v
  let w := mulVec MI v
  (dinv * (c.2 * w.1 - c.1 * w.2), dinv * (v.1 * w.2 - v.2 * w.1))

/-- Cramer: a·v + b·θ(v) = ι(v) -/
theorem kti_solves (MI Mθ : Mat R) (dinv : R) (v : V R)
    (hd : (v.1 * (mulVec Mθ v).2 - (mulVec Mθ v).1 * v.2) * dinv = 1) :
    let ab := ktiCoeffs MI Mθ dinv v
    (ab.1 * v.1 + ab.2 * (mulVec Mθ v).1 = (mulVec MI v).1) ∧ (ab.1 * v.2 + ab.2 * (mulVec Mθ v).2 = (mulVec MI v).2) := by
  intro ab
  constructor
  · show dinv * ((mulVec Mθ v).2 * (mulVec MI v).1 - (mulVec Mθ v).1 * (mulVec MI v).2) * v.1 +
      dinv * (v.1 * (mulVec MI v).2 - v.2 * (mulVec MI v).1) * (mulVec Mθ v).1 = (mulVec MI v).1
    linear_combination (mulVec MI v).1 * hd
  · show dinv * ((mulVec Mθ v).2 * (mulVec MI v).1 - (mulVec Mθ v).1 * (mulVec MI v).2) * v.2 +
      dinv * (v.1 * (mulVec MI v).2 - v.2 * (mulVec MI v).1) * (mulVec Mθ v).2 = (mulVec MI v).2
    linear_combination (mulVec MI v).2 * hd

/-- the element a − ι + b·θ kills the kernel vector -/
theorem kti_annihilates (MI Mθ : Mat R) (dinv : R) (v : V R)
    (hd : (v.1 * (mulVec Mθ v).2 - (mulVec Mθ v).1 * v.2) * dinv = 1) :
    let ab := ktiCoeffs MI Mθ dinv v
    mulVec (matAdd (matAdd (matSmul ab.1 matOne) (matSmul (-1) MI)) (matSmul ab.2 Mθ)) v = (0, 0) := by
  intro ab
  obtain ⟨h1, h2⟩ := kti_solves MI Mθ dinv v hd
  refine Prod.ext ?_ ?_
  · show (ab.1 * 1 + -1 * MI.a + ab.2 * Mθ.a) * v.1 + (ab.1 * 0 + -1 * MI.b + ab.2 * Mθ.b) * v.2 = 0
    simp only [mulVec] at h1
    linear_combination h1
  · show (ab.1 * 0 + -1 * MI.c + ab.2 * Mθ.c) * v.1 + (ab.1 * 1 + -1 * MI.d + ab.2 * Mθ.d) * v.2 = 0
    simp only [mulVec] at h2
    linear_combination h2

/-- det [v | Mv] as a binary quadratic form in v -/
theorem det_v_Mv (m : Mat R) (v : V R) :
    v.1 * (mulVec m v).2 - (mulVec m v).1 * v.2 = m.c * v.1 ^ 2 + (m.d - m.a) * v.1 * v.2 - m.b * v.2 ^ 2 := by
  simp only [mulVec]; ring

/-- parity: if θ mod 2 has no eigenvector (m01, m10 odd, trace odd) then det [v | θv] is odd for every v with an odd coordinate -/
theorem det_odd_of_parity (a b c d v0 v1 : ℤ) (hb : Odd b) (hc : Odd c) (ht : Odd (a + d)) (hv : Odd v0 ∨ Odd v1) :
    Odd (c * v0 ^ 2 + (d - a) * v0 * v1 - b * v1 ^ 2) := by
  have hda : Odd (d - a) := by
    rcases Int.even_or_odd a with ha | ha <;> rcases Int.even_or_odd d with hd | hd
    · exact absurd ht (by simp [Int.odd_add, ha, hd, Int.not_odd_iff_even.mpr ha])
    · exact (Int.odd_sub.mpr (by simp [hd, ha]))
    · exact (Int.odd_sub'.mpr (by simp [hd, ha]))
    · exact absurd ht (by rw [Int.odd_add]; simp [ha, Int.not_even_iff_odd.mpr hd])
  rcases Int.even_or_odd v0 with h0 | h0 <;> rcases Int.even_or_odd v1 with h1 | h1
  · rcases hv with h | h
    · exact absurd h0 (Int.not_even_iff_odd.mpr h)
    · exact absurd h1 (Int.not_even_iff_odd.mpr h)
  · -- v0 even, v1 odd: only b v1² is odd
    have e1 : Even (c * v0 ^ 2) := by simp [Int.even_mul, Int.even_pow, h0]
    have e2 : Even ((d - a) * v0 * v1) := by simp [Int.even_mul, h0]
    have o3 : Odd (b * v1 ^ 2) := by simp [Int.odd_mul, Int.odd_pow, hb, h1]
    exact Int.odd_sub'.mpr (by simp [o3, Int.even_add, e1, e2])
  · have o1 : Odd (c * v0 ^ 2) := by simp [Int.odd_mul, Int.odd_pow, hc, h0]
    have e2 : Even ((d - a) * v0 * v1) := by simp [Int.even_mul, h1]
    have e3 : Even (b * v1 ^ 2) := by simp [Int.even_mul, Int.even_pow, h1]
    exact Int.odd_sub.mpr (by simp [e3, Int.odd_add, o1, e2])
  · have o1 : Odd (c * v0 ^ 2) := by simp [Int.odd_mul, Int.odd_pow, hc, h0]
    have o2 : Odd ((d - a) * v0 * v1) := by simp [Int.odd_mul, hda, h0, h1]
    have o3 : Odd (b * v1 ^ 2) := by simp [Int.odd_mul, Int.odd_pow, hb, h1]
    have e12 : Even (c * v0 ^ 2 + (d - a) * v0 * v1) := by
      rw [Int.even_add']; exact ⟨fun _ => o2, fun _ => o1⟩
    exact Int.odd_sub'.mpr (by simp [o3, e12])

/-- an odd integer is a unit modulo 2^f -/
theorem isUnit_of_odd (f : ℕ) (x : ℤ) (hx : Odd x) : IsUnit ((x : ℤ) : ZMod (2 ^ f)) := by
  rw [ZMod.coe_int_isUnit_iff_isCoprime]
  have : IsCoprime (2 : ℤ) x := by
    obtain ⟨k, rfl⟩ := hx
    exact ⟨-k, 1, by ring⟩
  simpa using IsCoprime.pow_left (m := f) this

/-! ### the kernel of a singular matrix with a unit entry is cyclic: ideal → kernel → ideal round trip -/

/-- first column of adj(G), case g.d unit: w = (d, −c) is a unit multiple of any kernel vector v with a unit coordinate -/
theorem adj_col1_of_d (g : Mat R) (v : V R) (u : R) (hu : g.d * u = 1) (hk : g.c * v.1 + g.d * v.2 = 0)
    (hv : IsUnit v.1 ∨ IsUnit v.2) : ∃ l : R, IsUnit l ∧ (g.d, -g.c) = (l * v.1, l * v.2) := by
  have hv2 : v.2 = -(u * g.c) * v.1 := by linear_combination u * hk - v.2 * hu
  have hv1 : IsUnit v.1 := by
    rcases hv with h | h
    · exact h
    · rw [hv2] at h; exact isUnit_of_mul_isUnit_right h
  obtain ⟨w, hw⟩ := hv1.exists_right_inv
  refine ⟨g.d * w, ?_, Prod.ext ?_ ?_⟩
  · exact (IsUnit.of_mul_eq_one u hu).mul (IsUnit.of_mul_eq_one v.1 (by rw [mul_comm]; exact hw))
  · show g.d = g.d * w * v.1
    linear_combination (-g.d) * hw
  · show -g.c = g.d * w * v.2
    rw [hv2]; linear_combination (g.c * v.1 * w) * hu + g.c * hw

/-- first column of adj(G), case g.c unit -/
theorem adj_col1_of_c (g : Mat R) (v : V R) (u : R) (hu : g.c * u = 1) (hk : g.c * v.1 + g.d * v.2 = 0)
    (hv : IsUnit v.1 ∨ IsUnit v.2) : ∃ l : R, IsUnit l ∧ (g.d, -g.c) = (l * v.1, l * v.2) := by
  have hv1 : v.1 = -(u * g.d) * v.2 := by linear_combination u * hk - v.1 * hu
  have hv2 : IsUnit v.2 := by
    rcases hv with h | h
    · rw [hv1] at h; exact isUnit_of_mul_isUnit_right h
    · exact h
  obtain ⟨w, hw⟩ := hv2.exists_right_inv
  refine ⟨-(g.c * w), ?_, Prod.ext ?_ ?_⟩
  · exact ((IsUnit.of_mul_eq_one u hu).mul (IsUnit.of_mul_eq_one v.2 (by rw [mul_comm]; exact hw))).neg
  · show g.d = -(g.c * w) * v.1
    rw [hv1]; linear_combination (-(g.d * v.2 * w)) * hu - g.d * hw
  · show -g.c = -(g.c * w) * v.2
    linear_combination g.c * hw

/-- second column of adj(G) = (−b, a), case g.a unit -/
theorem adj_col2_of_a (g : Mat R) (v : V R) (u : R) (hu : g.a * u = 1) (hk : g.a * v.1 + g.b * v.2 = 0)
    (hv : IsUnit v.1 ∨ IsUnit v.2) : ∃ l : R, IsUnit l ∧ (-g.b, g.a) = (l * v.1, l * v.2) := by
  have hv1 : v.1 = -(u * g.b) * v.2 := by linear_combination u * hk - v.1 * hu
  have hv2 : IsUnit v.2 := by
    rcases hv with h | h
    · rw [hv1] at h; exact isUnit_of_mul_isUnit_right h
    · exact h
  obtain ⟨w, hw⟩ := hv2.exists_right_inv
  refine ⟨g.a * w, ?_, Prod.ext ?_ ?_⟩
  · exact (IsUnit.of_mul_eq_one u hu).mul (IsUnit.of_mul_eq_one v.2 (by rw [mul_comm]; exact hw))
  · show -g.b = g.a * w * v.1
    rw [hv1]; linear_combination (g.b * v.2 * w) * hu + g.b * hw
  · show g.a = g.a * w * v.2
    linear_combination (-g.a) * hw

/-- second column of adj(G), case g.b unit -/
theorem adj_col2_of_b (g : Mat R) (v : V R) (u : R) (hu : g.b * u = 1) (hk : g.a * v.1 + g.b * v.2 = 0)
    (hv : IsUnit v.1 ∨ IsUnit v.2) : ∃ l : R, IsUnit l ∧ (-g.b, g.a) = (l * v.1, l * v.2) := by
  have hv2 : v.2 = -(u * g.a) * v.1 := by linear_combination u * hk - v.2 * hu
  have hv1 : IsUnit v.1 := by
    rcases hv with h | h
    · exact h
    · rw [hv2] at h; exact isUnit_of_mul_isUnit_right h
  obtain ⟨w, hw⟩ := hv1.exists_right_inv
  refine ⟨-(g.b * w), ?_, Prod.ext ?_ ?_⟩
  · exact ((IsUnit.of_mul_eq_one u hu).mul (IsUnit.of_mul_eq_one v.1 (by rw [mul_comm]; exact hw))).neg
  · show -g.b = -(g.b * w) * v.1
    linear_combination g.b * hw
  · show g.a = -(g.b * w) * v.2
    rw [hv2]; linear_combination (-(g.a * v.1 * w)) * hu - g.a * hw

/-- a kernel vector with a unit coordinate forces det = 0 -/
theorem det_zero_of_kernel (g : Mat R) (v : V R) (hk : mulVec g v = (0, 0)) (hv : IsUnit v.1 ∨ IsUnit v.2) : matDet g = 0 := by
  have h1 : g.a * v.1 + g.b * v.2 = 0 := congrArg Prod.fst hk
  have h2 : g.c * v.1 + g.d * v.2 = 0 := congrArg Prod.snd hk
  have e1 : matDet g * v.1 = 0 := by unfold matDet; linear_combination g.d * h1 - g.b * h2
  have e2 : matDet g * v.2 = 0 := by unfold matDet; linear_combination g.a * h2 - g.c * h1
  rcases hv with h | h
  · exact (IsUnit.mul_left_eq_zero h).mp e1
  · exact (IsUnit.mul_left_eq_zero h).mp e2

/-! ### inner step of find_uv -/
theorem findUV_sound (n d1 d2 d2inv : ℤ) (i3 k : ℕ) (hinv : d2inv * d2 ≡ 1 [ZMOD d1]) (hd1 : 0 < d1)
    (hlt : ((d2inv * (n % d1) * 2 ^ i3) % d1 + k * d1) * d2 < 2 ^ i3 * n) :
    let v := (d2inv * (n % d1) * 2 ^ i3) % d1 + k * d1
    let u := (2 ^ i3 * n - v * d2) / d1
    u * d1 + v * d2 = 2 ^ i3 * n ∧ 0 < u := by
  intro v u
  have hv : v ≡ d2inv * n * 2 ^ i3 [ZMOD d1] := by
    have a1 : (d2inv * (n % d1) * 2 ^ i3) % d1 ≡ d2inv * (n % d1) * 2 ^ i3 [ZMOD d1] := Int.mod_modEq _ _
    have a2 : (k : ℤ) * d1 ≡ 0 [ZMOD d1] := by
      rw [Int.modEq_zero_iff_dvd]; exact Dvd.intro_left _ rfl
    have a3 : d2inv * (n % d1) * 2 ^ i3 ≡ d2inv * n * 2 ^ i3 [ZMOD d1] :=
      ((Int.ModEq.refl d2inv).mul (Int.mod_modEq n d1)).mul (Int.ModEq.refl _)
    have := (a1.add a2).trans (by simpa using a3)
    exact this
  have hvd : v * d2 ≡ 2 ^ i3 * n [ZMOD d1] := by
    have := hv.mul (Int.ModEq.refl d2)
    have e : d2inv * n * 2 ^ i3 * d2 = (d2inv * d2) * (2 ^ i3 * n) := by ring
    rw [e] at this
    exact this.trans (by simpa using hinv.mul (Int.ModEq.refl (2 ^ i3 * n)))
  have hdvd : d1 ∣ 2 ^ i3 * n - v * d2 := hvd.dvd
  have hu : u * d1 = 2 ^ i3 * n - v * d2 := Int.ediv_mul_cancel hdvd
  refine ⟨by linarith, ?_⟩
  have hpos : 0 < 2 ^ i3 * n - v * d2 := by linarith
  by_contra hcon
  have : u * d1 ≤ 0 := Int.mul_nonpos_of_nonpos_of_nonneg (not_lt.mp hcon) (le_of_lt hd1)
  linarith

end SqiProofs.IdealKernel

import SqiProofs.IdealCovol
import SqiProofs.IdealExist
import Mathlib.LinearAlgebra.Matrix.Adjugate
/- C15 (a), full: for `x` primitive in an order `O` whose trace form is integral with Gram determinant `p²` (every
   linked order: table facts), and `gcd(N(x), N)` prime to `p`, the ideal `O·x + N·O` returned by
   `quat_lideal_create_from_primitive` has `covol = gcd(N(x), N)²·covol(O)`. -/
open SqiModel.Quat SqiModel.Ideal SqiProofs.QuatAlg SqiProofs.QuatMat SqiProofs.Hnf SqiProofs.QuatLattice SqiProofs.Ideal
open SqiProofs.IdealAlg SqiProofs.IdealFull SqiProofs.IdealCovol
open scoped Pointwise

namespace SqiProofs.IdealPrim

/-! ## the trace pairing on coordinates -/

theorem tracePair_val (p d : ℤ) (a b : Vec4) (hd : d ≠ 0) :
    val p ⟨d, a⟩ * star (val p ⟨d, b⟩) + val p ⟨d, b⟩ * star (val p ⟨d, a⟩) =
      (((bilForm p a b : ℤ) : ℚ) / ((d : ℚ) * d) : ℚ) := by
  have hq : (d : ℚ) ≠ 0 := by exact_mod_cast hd
  obtain ⟨a0, a1, a2, a3⟩ := a
  obtain ⟨b0, b1, b2, b3⟩ := b
  apply QuaternionAlgebra.ext <;>
    simp [val, bilForm, QuaternionAlgebra.star_mk, QuaternionAlgebra.mk_mul_mk] <;> field_simp <;> ring

theorem TracePair.symm {p : ℤ} {x y : H p} {m : ℤ} (h : TracePair x y m) : TracePair y x m := by
  unfold TracePair at *; rw [add_comm]; exact h

theorem hasNorm_iff_nrm {p : ℤ} (z : H p) (m : ℤ) : HasNorm z m ↔ nrm z = m := by
  constructor
  · intro h
    unfold HasNorm at h
    rw [mul_star_eq_coe, ← QuaternionAlgebra.coe_intCast] at h
    exact QuaternionAlgebra.coe_injective h
  · exact hasNorm_of_nrm

section gram
variable (p : ℤ) (O : Lattice)

theorem gramOk_entries (h : gramOk p O = true) (i j : Nat) (hi : i ∈ idx4) (hj : j ∈ idx4) :
    bilForm p (O.basis.col i) (O.basis.col j) = (traceGram p O).get i j * (O.denom * O.denom) := by
  unfold gramOk at h
  simp only [Bool.and_eq_true, beq_iff_eq] at h
  have h1 := h.1.1
  rw [List.all_eq_true] at h1
  have h2 := h1 i hi
  rw [List.all_eq_true] at h2
  have h3 := h2 j hj
  simp only [beq_iff_eq] at h3
  have hdvd := Int.dvd_of_tmod_eq_zero h3
  have hg : (traceGram p O).get i j = Int.tdiv (bilForm p (O.basis.col i) (O.basis.col j)) (O.denom * O.denom) := by
    simp only [idx4, List.mem_cons, List.not_mem_nil, or_false] at hi hj
    rcases hi with rfl | rfl | rfl | rfl <;> rcases hj with rfl | rfl | rfl | rfl <;> rfl
  rw [hg, Int.tdiv_mul_cancel hdvd]

theorem gramOk_det (h : gramOk p O = true) : (toMatrix (traceGram p O)).det = p * p := by
  unfold gramOk at h
  simp only [Bool.and_eq_true, beq_iff_eq] at h
  rw [← invWithDet_det]; exact h.2

theorem gramOk_norm (h : gramOk p O = true) (i : Nat) (hi : i ∈ idx4) :
    ∃ m : ℤ, bilForm p (O.basis.col i) (O.basis.col i) = m * (2 * (O.denom * O.denom)) := by
  unfold gramOk at h
  simp only [Bool.and_eq_true, beq_iff_eq] at h
  have h1 := h.1.2
  rw [List.all_eq_true] at h1
  have h3 := h1 i hi
  simp only [beq_iff_eq] at h3
  obtain ⟨m, hm⟩ := Int.dvd_of_tmod_eq_zero h3
  exact ⟨m, by rw [hm]; ring⟩

/-- `tr(b_i·b̄_j) = G_ij` -/
theorem tracePair_basis (hd : O.denom ≠ 0) (h : gramOk p O = true) (i j : Nat) (hi : i ∈ idx4) (hj : j ∈ idx4) :
    TracePair (val p ⟨O.denom, O.basis.col i⟩) (val p ⟨O.denom, O.basis.col j⟩) ((traceGram p O).get i j) := by
  unfold TracePair
  have hq : (O.denom : ℚ) ≠ 0 := by exact_mod_cast hd
  rw [tracePair_val p O.denom _ _ hd, gramOk_entries p O h i j hi hj, ← QuaternionAlgebra.coe_intCast]
  congr 1
  push_cast
  field_simp

/-- `N(b_i) ∈ ℤ` -/
theorem hasNorm_basis (hd : O.denom ≠ 0) (h : gramOk p O = true) (i : Nat) (hi : i ∈ idx4) :
    ∃ m : ℤ, HasNorm (val p ⟨O.denom, O.basis.col i⟩) m := by
  obtain ⟨m, hm⟩ := gramOk_norm p O h i hi
  refine ⟨m, ?_⟩
  have hq : (O.denom : ℚ) ≠ 0 := by exact_mod_cast hd
  have := tracePair_val p O.denom (O.basis.col i) (O.basis.col i) hd
  unfold HasNorm
  have e2 : val p ⟨O.denom, O.basis.col i⟩ * star (val p ⟨O.denom, O.basis.col i⟩) +
      val p ⟨O.denom, O.basis.col i⟩ * star (val p ⟨O.denom, O.basis.col i⟩) = ((2 * m : ℤ) : H p) := by
    rw [this, hm, ← QuaternionAlgebra.coe_intCast]
    congr 1
    push_cast
    field_simp
  have e3 : (2 : ℤ) • (val p ⟨O.denom, O.basis.col i⟩ * star (val p ⟨O.denom, O.basis.col i⟩)) = (2 : ℤ) • ((m : ℤ) : H p) := by
    rw [two_smul, e2, two_smul, Int.cast_mul, Int.cast_ofNat, two_mul]
  exact zsmul_cancel (by norm_num) e3

end gram

/-- **integrality**: on an order with `gramOk`, all trace pairings and all norms are integers -/
theorem isIntegralOrder_of_cert (p : ℤ) (O : Lattice) (ho : isOrderCert p O = true) (hg : gramOk p O = true) :
    IsIntegralOrder (hLat p O) := by
  have hord := isOrder_of_cert p O ho
  obtain ⟨hd, _, _, _⟩ := isOrderCert_sound p O ho
  -- trace pairings
  have htr : ∀ y ∈ hLat p O, ∀ z ∈ hLat p O, ∃ m : ℤ, TracePair y z m := by
    intro y hy z hz
    rw [hLat_eq_span] at hy hz
    induction hy, hz using Submodule.span_induction₂ with
    | mem_mem a b ha hb =>
      obtain ⟨u, hu, rfl⟩ := ha
      obtain ⟨v, hv, rfl⟩ := hb
      obtain ⟨i, hi, rfl⟩ := mem_cols _ _ hu
      obtain ⟨j, hj, rfl⟩ := mem_cols _ _ hv
      exact ⟨_, tracePair_basis p O hd hg i j hi hj⟩
    | zero_left b _ => exact ⟨0, TracePair.symm (tracePair_zero b)⟩
    | zero_right a _ => exact ⟨0, tracePair_zero a⟩
    | add_left a b c _ _ _ h1 h2 =>
      obtain ⟨m1, h1⟩ := h1
      obtain ⟨m2, h2⟩ := h2
      refine ⟨m1 + 1 * m2, ?_⟩
      have := TracePair.symm ((TracePair.symm h1).add_smul (TracePair.symm h2) 1)
      rwa [one_smul] at this
    | add_right a b c _ _ _ h1 h2 =>
      obtain ⟨m1, h1⟩ := h1
      obtain ⟨m2, h2⟩ := h2
      refine ⟨m1 + 1 * m2, ?_⟩
      have := h1.add_smul h2 1
      rwa [one_smul] at this
    | smul_left r a b _ _ h1 =>
      obtain ⟨m1, h1⟩ := h1
      refine ⟨0 + r * m1, ?_⟩
      have := TracePair.symm ((tracePair_zero b).add_smul (TracePair.symm h1) r)
      rwa [zero_add] at this
    | smul_right r a b _ _ h1 =>
      obtain ⟨m1, h1⟩ := h1
      refine ⟨0 + r * m1, ?_⟩
      have := (tracePair_zero a).add_smul h1 r
      rwa [zero_add] at this
  refine ⟨hord, ?_⟩
  intro y hy
  have hy' := hy
  rw [hLat_eq_span] at hy
  induction hy using Submodule.span_induction with
  | mem a ha =>
    obtain ⟨u, hu, rfl⟩ := ha
    obtain ⟨i, hi, rfl⟩ := mem_cols _ _ hu
    exact hasNorm_basis p O hd hg i hi
  | zero => exact ⟨0, by simp [HasNorm]⟩
  | add a b ha hb h1 h2 =>
    have ha' : a ∈ hLat p O := by rw [hLat_eq_span]; exact ha
    have hb' : b ∈ hLat p O := by rw [hLat_eq_span]; exact hb
    obtain ⟨m1, h1⟩ := h1 ha'
    obtain ⟨m2, h2⟩ := h2 hb'
    obtain ⟨t, ht⟩ := htr a ha' b hb'
    refine ⟨m1 + 1 * t + 1 * 1 * m2, ?_⟩
    have := hasNorm_add_smul 1 h1 h2 ht
    rwa [one_smul] at this
  | smul r a ha h1 =>
    have ha' : a ∈ hLat p O := by rw [hLat_eq_span]; exact ha
    obtain ⟨m1, h1⟩ := h1 ha'
    refine ⟨0 + r * 0 + r * r * m1, ?_⟩
    have h0 : HasNorm (0 : H p) 0 := by simp [HasNorm]
    have := hasNorm_add_smul r h0 h1 (TracePair.symm (tracePair_zero a))
    rwa [zero_add] at this

/-! ## nondegeneracy of the trace functional of a primitive element -/

theorem val_eval (p : ℤ) (O : Lattice) (c : Vec4) :
    val p ⟨O.denom, O.basis.eval c⟩ =
      c.x0 • val p ⟨O.denom, O.basis.col 0⟩ + c.x1 • val p ⟨O.denom, O.basis.col 1⟩ +
      c.x2 • val p ⟨O.denom, O.basis.col 2⟩ + c.x3 • val p ⟨O.denom, O.basis.col 3⟩ := by
  obtain ⟨d, ⟨⟨a00, a01, a02, a03⟩, ⟨a10, a11, a12, a13⟩, ⟨a20, a21, a22, a23⟩, ⟨a30, a31, a32, a33⟩⟩⟩ := O
  obtain ⟨c0, c1, c2, c3⟩ := c
  apply QuaternionAlgebra.ext <;>
    simp [val, Mat4.eval, Vec4.ofFn, Mat4.get, Mat4.row, Vec4.get, Mat4.col] <;> ring

/-- `tr(b_j · x̄) = (G·c)_j` for `x = Σ c_i b_i` -/
theorem tracePair_eval (p : ℤ) (O : Lattice) (hd : O.denom ≠ 0) (hg : gramOk p O = true) (c : Vec4) (j : Nat) (hj : j ∈ idx4) :
    TracePair (val p ⟨O.denom, O.basis.col j⟩) (val p ⟨O.denom, O.basis.eval c⟩) (((traceGram p O).eval c).get j) := by
  have b0 := tracePair_basis p O hd hg j 0 hj (by simp [idx4])
  have b1 := tracePair_basis p O hd hg j 1 hj (by simp [idx4])
  have b2 := tracePair_basis p O hd hg j 2 hj (by simp [idx4])
  have b3 := tracePair_basis p O hd hg j 3 hj (by simp [idx4])
  have T := ((((tracePair_zero (val p ⟨O.denom, O.basis.col j⟩)).add_smul b0 c.x0).add_smul b1 c.x1).add_smul b2 c.x2).add_smul b3 c.x3
  rw [zero_add] at T
  rw [val_eval]
  have e : ((traceGram p O).eval c).get j =
      0 + c.x0 * (traceGram p O).get j 0 + c.x1 * (traceGram p O).get j 1 + c.x2 * (traceGram p O).get j 2 +
        c.x3 * (traceGram p O).get j 3 := by
    simp only [idx4, List.mem_cons, List.not_mem_nil, or_false] at hj
    rcases hj with rfl | rfl | rfl | rfl <;> simp [Mat4.eval, Vec4.ofFn, Vec4.get] <;> ring
  rw [e]; exact T

/-- **nondegeneracy**: if the coordinate vector `c` of `x` has content 1 and `ℓ` is a prime not dividing `p`, some basis
    vector `b_j` has `ℓ ∤ tr(b_j x̄)` — because the Gram determinant `p²` is a unit mod `ℓ`. -/
theorem exists_basis_trace_ndvd (p : ℤ) (O : Lattice) (hg : gramOk p O = true) (c : Vec4) (hc : c.content = 1)
    (ℓ : ℕ) (hℓ : ℓ.Prime) (hp : ¬ (ℓ : ℤ) ∣ p) : ∃ j ∈ idx4, ¬ (ℓ : ℤ) ∣ ((traceGram p O).eval c).get j := by
  by_contra hcon
  simp only [not_exists, not_and, not_not] at hcon
  have hprime : Prime (ℓ : ℤ) := Nat.prime_iff_prime_int.1 hℓ
  set G := toMatrix (traceGram p O) with hG
  have ht : ∀ j : Fin 4, (ℓ : ℤ) ∣ (G.mulVec (toVec c)) j := by
    intro j
    rw [hG, ← toVec_eval]
    have : (j : Nat) ∈ idx4 := by fin_cases j <;> simp [idx4]
    exact hcon j this
  have hadj : (G.adjugate * G).mulVec (toVec c) = (G.det • (1 : Matrix (Fin 4) (Fin 4) ℤ)).mulVec (toVec c) := by
    rw [Matrix.adjugate_mul]
  rw [← Matrix.mulVec_mulVec] at hadj
  have hdv : ∀ i : Fin 4, (ℓ : ℤ) ∣ G.det * toVec c i := by
    intro i
    have e := congrFun hadj i
    simp only [Matrix.smul_mulVec, Matrix.one_mulVec, Pi.smul_apply, smul_eq_mul] at e
    rw [← e]
    simp only [Matrix.mulVec, dotProduct]
    exact Finset.dvd_sum (fun k _ => Dvd.dvd.mul_left (ht k) _)
  have hdet : G.det = p * p := gramOk_det p O hg
  have hci : ∀ i : Fin 4, (ℓ : ℤ) ∣ toVec c i := by
    intro i
    have := hdv i
    rw [hdet] at this
    rcases hprime.dvd_or_dvd this with h | h
    · rcases hprime.dvd_or_dvd h with h | h <;> exact absurd h hp
    · exact h
  have h0 : (ℓ : ℤ) ∣ c.x0 := hci 0
  have h1 : (ℓ : ℤ) ∣ c.x1 := hci 1
  have h2 : (ℓ : ℤ) ∣ c.x2 := hci 2
  have h3 : (ℓ : ℤ) ∣ c.x3 := hci 3
  have : (ℓ : ℤ) ∣ c.content := by
    unfold Vec4.content
    exact SqiProofs.QuatLattice.dvd_ibzGcd h3 (SqiProofs.QuatLattice.dvd_ibzGcd h2 (SqiProofs.QuatLattice.dvd_ibzGcd h0 h1))
  rw [hc] at this
  exact hprime.not_isUnit (isUnit_of_dvd_one this)

/-! ## assembling: norm² = index for primitive generators -/

theorem exists_elem_of_mem_hLat (p : ℤ) (L : Lattice) (z : H p) (hz : z ∈ hLat p L) :
    ∃ v : Vec4, z = val p ⟨L.denom, v⟩ := by
  rw [hLat_eq_span] at hz
  induction hz using Submodule.span_induction with
  | mem a ha => obtain ⟨u, _, rfl⟩ := ha; exact ⟨u, rfl⟩
  | zero => exact ⟨Vec4.zero, by apply QuaternionAlgebra.ext <;> simp [val, Vec4.zero]⟩
  | add a b _ _ h1 h2 =>
    obtain ⟨u, rfl⟩ := h1
    obtain ⟨v, rfl⟩ := h2
    refine ⟨u.add v, ?_⟩
    apply QuaternionAlgebra.ext <;> simp [val, Vec4.add, add_div]
  | smul r a _ h1 =>
    obtain ⟨u, rfl⟩ := h1
    refine ⟨u.map (fun t => t * r), ?_⟩
    apply QuaternionAlgebra.ext <;> simp [val, Vec4.map] <;> ring

theorem val_eq_of_coordsOf (p : ℤ) (O : Lattice) (x : Elem) (c : Vec4) (hO : O.denom ≠ 0) (hx : x.denom ≠ 0)
    (h : SqiProofs.QuatLattice.CoordsOf O x c) : val p x = val p ⟨O.denom, O.basis.eval c⟩ := by
  have hOq : (O.denom : ℚ) ≠ 0 := by exact_mod_cast hO
  have hxq : (x.denom : ℚ) ≠ 0 := by exact_mod_cast hx
  unfold SqiProofs.QuatLattice.CoordsOf at h
  obtain ⟨xd, ⟨x0, x1, x2, x3⟩⟩ := x
  generalize O.basis.eval c = v at h ⊢
  obtain ⟨v0, v1, v2, v3⟩ := v
  simp only [Vec4.map, Vec4.mk.injEq] at h
  obtain ⟨e0, e1, e2, e3⟩ := h
  have q0 : (x0 : ℚ) * O.denom = v0 * xd := by exact_mod_cast e0
  have q1 : (x1 : ℚ) * O.denom = v1 * xd := by exact_mod_cast e1
  have q2 : (x2 : ℚ) * O.denom = v2 * xd := by exact_mod_cast e2
  have q3 : (x3 : ℚ) * O.denom = v3 * xd := by exact_mod_cast e3
  apply QuaternionAlgebra.ext <;> simp only [val] <;> rw [div_eq_div_iff hxq hOq] <;> assumption

/-- an ideal of norm `±1` is the whole order -/
theorem covol_of_norm_unit (p : ℤ) (O I : Lattice) (n : ℤ) (hO : O.denom ≠ 0) (hI : I.denom ≠ 0)
    (hdetO : (toMatrix O.basis).det ≠ 0)
    (hIn : IsLeftIdealOfNorm (hLat p O) (hLat p I) n) (hn : n.natAbs = 1) : covol I = (n : ℚ) ^ 2 * covol O := by
  have h1 : (1 : H p) ∈ hLat p I := by
    rcases Int.natAbs_eq n with h | h
    · have := hIn.norm_mem; rw [h, hn] at this; simpa using this
    · have := (hLat p I).neg_mem hIn.norm_mem; rw [h, hn] at this; simpa using this
  have hle : hLat p O ≤ hLat p I := by
    intro a ha; have := hIn.left a ha 1 h1; rwa [mul_one] at this
  have e : ratLat O = ratLat I :=
    le_antisymm (ratLat_le_of_hLat_le p hle) (ratLat_le_of_hLat_le p hIn.sub)
  have hn2 : (n : ℚ) ^ 2 = 1 := by
    rcases Int.natAbs_eq n with h | h <;> rw [h, hn] <;> norm_num
  rw [hn2, one_mul, covol_eq_of_ratLat_eq O I hO hI hdetO e]

/-- **the classical lemma, proved**: under the certificates, for primitive `x ∈ O` and `n = gcd(N(x), N) ≠ 0` prime to
    `p`, the ideal `I = O·x + N·O` contains `g` with `N(g) = n·q`, `gcd(q, n) = 1`. -/
theorem createFromPrimitive_exists_generator (p : ℤ) (x : Elem) (N : ℤ) (O : Lattice) (prev nx : ℤ)
    (ho : isOrderCert p O = true) (hg : gramOk p O = true) (hx : x.denom ≠ 0)
    (hxO : (latContains O x).1 = true) (hprim : isPrimitive O x = true)
    (hn : nrm (val p x) = nx) (hn0 : Int.gcd nx N ≠ 0)
    (hcop : ∀ ℓ : ℕ, ℓ.Prime → ℓ ∣ Int.gcd nx N → ¬ (ℓ : ℤ) ∣ p) :
    ∃ g ∈ hLat p (createFromPrimitive p x N O prev).lattice, ∃ q : ℤ,
      HasNorm g ((Int.gcd nx N : ℤ) * q) ∧ Int.gcd q (Int.gcd nx N : ℤ) = 1 := by
  obtain ⟨hd, hnO, _, _⟩ := isOrderCert_sound p O ho
  have hint := isIntegralOrder_of_cert p O ho hg
  have hord := hint.toIsOrder
  have hco := latContains_sound O x hxO
  set c := (latContains O x).2 with hc
  have hxv := val_eq_of_coordsOf p O x c hd hx hco
  have hcont : c.content = 1 := by
    unfold isPrimitive makePrimitive at hprim
    simpa using hprim
  have hnd : ∀ ℓ : ℕ, ℓ.Prime → ℓ ∣ Int.gcd nx N →
      ∃ b ∈ hLat p O, ∃ m : ℤ, TracePair (val p x) b m ∧ ¬ ((ℓ : ℤ) ∣ m) := by
    intro ℓ hℓ hdv
    obtain ⟨j, hj, hnj⟩ := exists_basis_trace_ndvd p O hg c hcont ℓ hℓ (hcop ℓ hℓ hdv)
    have hj4 : j < 4 := by simp only [idx4, List.mem_cons, List.not_mem_nil, or_false] at hj; omega
    refine ⟨_, col_mem_hLat p O j hj4, _, ?_, hnj⟩
    rw [hxv]
    exact TracePair.symm (tracePair_eval p O hd hg c j hj)
  obtain ⟨y, hy, q, hNg, hcq⟩ := exists_generator hint (val p x) nx N (hasNorm_of_nrm hn) hn0 hnd
  refine ⟨val p x + N • y, ?_, q, hNg, hcq⟩
  rw [hLat_createFromPrimitive_eq_genIdeal p x N O prev hd hx, ← genIdeal_shift hord (val p x) y hy N]
  exact mem_genIdeal.2 ⟨1, hord.one_mem, 0, (hLat p O).zero_mem, by simp⟩

/-- **`quat_lideal_create_from_primitive`: norm² = index for primitive generators** (full).  `O` an order certified by
    `isOrderCert` and `gramOk` (HNF ring with 1, closed under conjugation, integral trace form of Gram determinant `p²` —
    all linked orders), `x ∈ O` primitive (`quat_alg_is_primitive`), `N(x) = nx`, `n = gcd(nx, N) ≠ 0` prime to `p`.
    Then the returned ideal `I = O·x + N·O` has stored norm `n` and `covol(I) = n²·covol(O)`. -/
theorem createFromPrimitive_covol_primitive (p : ℤ) (x : Elem) (N : ℤ) (O : Lattice) (prev nx : ℤ)
    (ho : isOrderCert p O = true) (hg : gramOk p O = true) (hx : x.denom ≠ 0)
    (hxO : (latContains O x).1 = true) (hprim : isPrimitive O x = true)
    (hn : nrm (val p x) = nx) (hn0 : Int.gcd nx N ≠ 0)
    (hcop : ∀ ℓ : ℕ, ℓ.Prime → ℓ ∣ Int.gcd nx N → ¬ (ℓ : ℤ) ∣ p) :
    covol (createFromPrimitive p x N O prev).lattice =
      ((createFromPrimitive p x N O prev).norm : ℚ) ^ 2 * covol O := by
  obtain ⟨hd, hnO, _, _⟩ := isOrderCert_sound p O ho
  have hord := isOrder_of_cert p O ho
  have hdetO := det_ne_zero_of_isHNF _ hnO
  have hxmem : val p x ∈ hLat p O := (latContains_iff_val p O x hd hx hnO).1 hxO
  obtain ⟨g, hgI, q, hNg, hcq⟩ := createFromPrimitive_exists_generator p x N O prev nx ho hg hx hxO hprim hn hn0 hcop
  have hIn := createFromPrimitive_isLeftIdealOfNorm p x N O prev nx hd hx hord hxmem hn
  have hnorm : (createFromPrimitive p x N O prev).norm = (Int.gcd nx N : ℤ) := createFromPrimitive_norm p x N O prev nx hx hn
  have hId := (createFromPrimitive_lattice p x N O prev hd hx).2
  obtain ⟨v, hv⟩ := exists_elem_of_mem_hLat p _ _ hgI
  rw [hnorm] at hIn ⊢
  by_cases hq0 : q = 0
  · subst hq0
    have : ((Int.gcd nx N : ℤ)).natAbs = 1 := by
      rw [Int.gcd_def] at hcq; simpa using hcq
    exact covol_of_norm_unit p O _ _ hd hId hdetO hIn this
  · refine covol_eq_norm_sq_of_generator p O _ (Int.gcd nx N : ℤ) q ⟨_, v⟩ hd hId hdetO hIn
      (by exact_mod_cast hn0) hq0 hId ?_ ?_ hcq
    · rw [← hv]; exact hgI
    · rw [← hv]; exact (hasNorm_iff_nrm _ _).1 hNg

/-- **invertibility**: under the same hypotheses, `N(I) ∈ Ī·I` — the hypothesis of the exact transporter / right order
    theorems holds for every ideal `create_from_primitive` builds from a primitive generator -/
theorem createFromPrimitive_norm_mem_conj_mul (p : ℤ) (x : Elem) (N : ℤ) (O : Lattice) (prev nx : ℤ)
    (ho : isOrderCert p O = true) (hg : gramOk p O = true) (hx : x.denom ≠ 0)
    (hxO : (latContains O x).1 = true) (hprim : isPrimitive O x = true)
    (hn : nrm (val p x) = nx) (hn0 : Int.gcd nx N ≠ 0)
    (hcop : ∀ ℓ : ℕ, ℓ.Prime → ℓ ∣ Int.gcd nx N → ¬ (ℓ : ℤ) ∣ p) :
    (((createFromPrimitive p x N O prev).norm : ℤ) : H p) ∈
      conjS (hLat p (createFromPrimitive p x N O prev).lattice) * hLat p (createFromPrimitive p x N O prev).lattice := by
  obtain ⟨hd, hnO, _, _⟩ := isOrderCert_sound p O ho
  have hord := isOrder_of_cert p O ho
  have hxmem : val p x ∈ hLat p O := (latContains_iff_val p O x hd hx hnO).1 hxO
  obtain ⟨g, hgI, q, hNg, hcq⟩ := createFromPrimitive_exists_generator p x N O prev nx ho hg hx hxO hprim hn hn0 hcop
  have hIn := createFromPrimitive_isLeftIdealOfNorm p x N O prev nx hd hx hord hxmem hn
  have hnorm : (createFromPrimitive p x N O prev).norm = (Int.gcd nx N : ℤ) := createFromPrimitive_norm p x N O prev nx hx hn
  rw [hnorm] at hIn ⊢
  exact norm_mem_conj_mul g hgI hIn.norm_mem hNg hcq

/-! ## `make_primitive_then_create` -/

theorem content_nonneg (v : Vec4) : 0 ≤ v.content := by unfold Vec4.content; exact SqiProofs.QuatLattice.ibzGcd_nonneg _ _

theorem content_smul (g : ℤ) (v : Vec4) : (v.map (fun t => t * g)).content = |g| * v.content := by
  obtain ⟨a, b, c, d⟩ := v
  simp only [Vec4.content, Vec4.map, ibzGcd]
  have h : ∀ x y : ℤ, ((Int.gcd (x * g) (y * g) : ℕ) : ℤ) = |g| * (Int.gcd x y : ℕ) := by
    intro x y
    rw [Int.gcd_mul_right, Nat.cast_mul, Int.natCast_natAbs, mul_comm]
  have h' : ∀ (x : ℤ) (k : ℕ), ((Int.gcd (x * g) (|g| * (k : ℤ)) : ℕ) : ℤ) = |g| * (Int.gcd x k : ℕ) := by
    intro x k
    have e1 : x * g = g * x := mul_comm _ _
    rcases abs_choice g with hg | hg
    · rw [hg, e1, Int.gcd_mul_left, Nat.cast_mul, Int.natCast_natAbs, hg]
    · rw [hg, e1, show -g * (k : ℤ) = g * (-(k : ℤ)) by ring, Int.gcd_mul_left, Nat.cast_mul, Int.natCast_natAbs,
        Int.gcd_neg, hg.symm.symm]
  rw [h a b, h' c, h' d]

/-- the primitive part has content 1 -/
theorem content_div_content (c : Vec4) (h0 : c.content ≠ 0) : (c.map (fun t => Int.tdiv t c.content)).content = 1 := by
  obtain ⟨d0, d1, d2, d3⟩ := content_dvd c
  set g := c.content with hg
  have hgpos : 0 < g := lt_of_le_of_ne (content_nonneg c) (Ne.symm h0)
  have e : (c.map (fun t => Int.tdiv t g)).map (fun t => t * g) = c := by
    obtain ⟨a, b, cc, d⟩ := c
    simp only [Vec4.map, Vec4.mk.injEq]
    exact ⟨Int.tdiv_mul_cancel d0, Int.tdiv_mul_cancel d1, Int.tdiv_mul_cancel d2, Int.tdiv_mul_cancel d3⟩
  have := content_smul g (c.map (fun t => Int.tdiv t g))
  rw [e, ← hg, abs_of_pos hgpos] at this
  have : g * 1 = g * (c.map (fun t => Int.tdiv t g)).content := by rw [mul_one]; exact this
  exact (mul_left_cancel₀ h0 this).symm

/-- **`quat_lideal_make_primitive_then_create`** (full): for `x ∈ O`, `x ≠ 0` (content ≠ 0), `O` certified, the constructor is
    `create_from_primitive` on a *primitive* element `y` of `O` with `x = content·y` and on `N / gcd(content, N)`; hence all
    theorems about `create_from_primitive` with primitive generator apply, in particular norm² = index. -/
theorem makePrimitiveThenCreate_spec (p : ℤ) (x : Elem) (N : ℤ) (O : Lattice) (prev : ℤ)
    (ho : isOrderCert p O = true) (hx : x.denom ≠ 0) (hxO : (latContains O x).1 = true)
    (hc0 : (makePrimitive O x).2 ≠ 0) :
    let y : Elem := ⟨O.denom, O.basis.eval (makePrimitive O x).1⟩
    makePrimitiveThenCreate p x N O prev =
      createFromPrimitive p y (Int.tdiv N (Int.gcd (makePrimitive O x).2 N)) O prev ∧
    (latContains O y).1 = true ∧ isPrimitive O y = true ∧
    val p x = ((makePrimitive O x).2 : ℤ) • val p y := by
  intro y
  obtain ⟨hd, hnO, _, _⟩ := isOrderCert_sound p O ho
  have hcoords : SqiProofs.QuatLattice.CoordsOf O y (makePrimitive O x).1 := by
    unfold SqiProofs.QuatLattice.CoordsOf; rfl
  have hcomp := SqiProofs.QuatLattice.latContains_complete O y (makePrimitive O x).1 hd hnO.1
    (fun r hr => ne_of_gt (hnO.2 r hr).1) hcoords
  refine ⟨rfl, by rw [hcomp], ?_, makePrimitive_val p O x hd hx hxO⟩
  unfold isPrimitive makePrimitive
  rw [hcomp]
  simp only [beq_iff_eq]
  exact content_div_content _ hc0

end SqiProofs.IdealPrim

/-
Lemmas for C20 (Keccak part): the generated permutation (SqiGen.Keccak, re-extracted from fips202.c on
every run) equals the FIPS 202 specification permutation (SqiModel.Fips202) on every state.
Core-only.  No `bv_decide`, no `native_decide`: the only bit-level fact needed is that the C macro
`ROL(a, n) = (a << n) ^ (a >> (64 - n))` is the rotation `rotl a n` for 0 < n < 64 (proved by bit
extensionality); everything else is unfolding over 25 lanes, and `decide` on the two finite tables
(24 round constants from the LFSR, 25 rotation offsets from the (t+1)(t+2)/2 walk).
-/
import SqiModel.Fips202
import SqiGen.Keccak

namespace SqiProofs.Keccak
open SqiModel.Fips202

/-! ### bit-level: OR of disjoint words is XOR; the ROL macro is a rotation -/
theorem or_eq_xor_of_disjoint (x y : BitVec 64)
    (h : ∀ i, i < 64 → (x.getLsbD i && y.getLsbD i) = false) : x ||| y = x ^^^ y := by
  apply BitVec.eq_of_getLsbD_eq
  intro i hi
  have := h i hi
  simp only [BitVec.getLsbD_or, BitVec.getLsbD_xor]
  cases hx : x.getLsbD i <;> cases hy : y.getLsbD i <;> simp_all

theorem shiftAmt (m : Nat) (h : m < 64) : ((UInt64.ofNat m).toBitVec % 64).toNat = m := by
  simp only [UInt64.toBitVec_ofNat', BitVec.toNat_umod, BitVec.toNat_ofNat]
  rw [Nat.mod_eq_of_lt (by omega : m < 2^64)]
  exact Nat.mod_eq_of_lt h

theorem sub64 (m : Nat) (h1 : m < 64) : (64 : UInt64) - UInt64.ofNat m = UInt64.ofNat (64 - m) := by
  apply UInt64.toNat.inj
  simp only [UInt64.toNat_sub, UInt64.toNat_ofNat']
  have : UInt64.toNat 64 = 64 := rfl
  omega

theorem shl_or_shr_eq_xor (a : UInt64) (m : Nat) (h0 : 0 < m) (h1 : m < 64) :
    (a <<< UInt64.ofNat m) ||| (a >>> UInt64.ofNat (64 - m))
      = (a <<< UInt64.ofNat m) ^^^ (a >>> (64 - UInt64.ofNat m)) := by
  rw [sub64 m h1]
  apply UInt64.eq_of_toBitVec_eq
  simp only [UInt64.toBitVec_or, UInt64.toBitVec_xor, UInt64.toBitVec_shiftLeft, UInt64.toBitVec_shiftRight]
  apply or_eq_xor_of_disjoint
  intro i hi
  rw [BitVec.shiftLeft_eq', BitVec.ushiftRight_eq', shiftAmt m h1, shiftAmt (64 - m) (by omega)]
  simp only [BitVec.getLsbD_shiftLeft, BitVec.getLsbD_ushiftRight]
  by_cases hlt : i < m
  · simp [hlt]
  · have : 64 ≤ 64 - m + i := by omega
    simp [BitVec.getLsbD_of_ge _ _ this]

/-- the C macro ROL with a literal offset 1..63 is the specification rotation -/
theorem ROL_eq_rotl (a : UInt64) (k : Nat) (h : 0 < k ∧ k < 64) :
    SqiGen.Keccak.ROL a (OfNat.ofNat k) = rotl a k := by
  unfold SqiGen.Keccak.ROL rotl
  have e1 : k % 64 = k := Nat.mod_eq_of_lt h.2
  have e2 : (64 - k) % 64 = 64 - k := Nat.mod_eq_of_lt (by omega)
  rw [e1, e2]
  exact (shl_or_shr_eq_xor a k h.1 h.2).symm


/-! instances for the literal offsets (simp's discrimination tree treats numerals as atoms) -/
theorem ROL_1 (a : UInt64) : SqiGen.Keccak.ROL a 1 = rotl a 1 := ROL_eq_rotl a 1 (by decide)
theorem ROL_2 (a : UInt64) : SqiGen.Keccak.ROL a 2 = rotl a 2 := ROL_eq_rotl a 2 (by decide)
theorem ROL_3 (a : UInt64) : SqiGen.Keccak.ROL a 3 = rotl a 3 := ROL_eq_rotl a 3 (by decide)
theorem ROL_4 (a : UInt64) : SqiGen.Keccak.ROL a 4 = rotl a 4 := ROL_eq_rotl a 4 (by decide)
theorem ROL_5 (a : UInt64) : SqiGen.Keccak.ROL a 5 = rotl a 5 := ROL_eq_rotl a 5 (by decide)
theorem ROL_6 (a : UInt64) : SqiGen.Keccak.ROL a 6 = rotl a 6 := ROL_eq_rotl a 6 (by decide)
theorem ROL_7 (a : UInt64) : SqiGen.Keccak.ROL a 7 = rotl a 7 := ROL_eq_rotl a 7 (by decide)
theorem ROL_8 (a : UInt64) : SqiGen.Keccak.ROL a 8 = rotl a 8 := ROL_eq_rotl a 8 (by decide)
theorem ROL_9 (a : UInt64) : SqiGen.Keccak.ROL a 9 = rotl a 9 := ROL_eq_rotl a 9 (by decide)
theorem ROL_10 (a : UInt64) : SqiGen.Keccak.ROL a 10 = rotl a 10 := ROL_eq_rotl a 10 (by decide)
theorem ROL_11 (a : UInt64) : SqiGen.Keccak.ROL a 11 = rotl a 11 := ROL_eq_rotl a 11 (by decide)
theorem ROL_12 (a : UInt64) : SqiGen.Keccak.ROL a 12 = rotl a 12 := ROL_eq_rotl a 12 (by decide)
theorem ROL_13 (a : UInt64) : SqiGen.Keccak.ROL a 13 = rotl a 13 := ROL_eq_rotl a 13 (by decide)
theorem ROL_14 (a : UInt64) : SqiGen.Keccak.ROL a 14 = rotl a 14 := ROL_eq_rotl a 14 (by decide)
theorem ROL_15 (a : UInt64) : SqiGen.Keccak.ROL a 15 = rotl a 15 := ROL_eq_rotl a 15 (by decide)
theorem ROL_16 (a : UInt64) : SqiGen.Keccak.ROL a 16 = rotl a 16 := ROL_eq_rotl a 16 (by decide)
theorem ROL_17 (a : UInt64) : SqiGen.Keccak.ROL a 17 = rotl a 17 := ROL_eq_rotl a 17 (by decide)
theorem ROL_18 (a : UInt64) : SqiGen.Keccak.ROL a 18 = rotl a 18 := ROL_eq_rotl a 18 (by decide)
theorem ROL_19 (a : UInt64) : SqiGen.Keccak.ROL a 19 = rotl a 19 := ROL_eq_rotl a 19 (by decide)
theorem ROL_20 (a : UInt64) : SqiGen.Keccak.ROL a 20 = rotl a 20 := ROL_eq_rotl a 20 (by decide)
theorem ROL_21 (a : UInt64) : SqiGen.Keccak.ROL a 21 = rotl a 21 := ROL_eq_rotl a 21 (by decide)
theorem ROL_22 (a : UInt64) : SqiGen.Keccak.ROL a 22 = rotl a 22 := ROL_eq_rotl a 22 (by decide)
theorem ROL_23 (a : UInt64) : SqiGen.Keccak.ROL a 23 = rotl a 23 := ROL_eq_rotl a 23 (by decide)
theorem ROL_24 (a : UInt64) : SqiGen.Keccak.ROL a 24 = rotl a 24 := ROL_eq_rotl a 24 (by decide)
theorem ROL_25 (a : UInt64) : SqiGen.Keccak.ROL a 25 = rotl a 25 := ROL_eq_rotl a 25 (by decide)
theorem ROL_26 (a : UInt64) : SqiGen.Keccak.ROL a 26 = rotl a 26 := ROL_eq_rotl a 26 (by decide)
theorem ROL_27 (a : UInt64) : SqiGen.Keccak.ROL a 27 = rotl a 27 := ROL_eq_rotl a 27 (by decide)
theorem ROL_28 (a : UInt64) : SqiGen.Keccak.ROL a 28 = rotl a 28 := ROL_eq_rotl a 28 (by decide)
theorem ROL_29 (a : UInt64) : SqiGen.Keccak.ROL a 29 = rotl a 29 := ROL_eq_rotl a 29 (by decide)
theorem ROL_30 (a : UInt64) : SqiGen.Keccak.ROL a 30 = rotl a 30 := ROL_eq_rotl a 30 (by decide)
theorem ROL_31 (a : UInt64) : SqiGen.Keccak.ROL a 31 = rotl a 31 := ROL_eq_rotl a 31 (by decide)
theorem ROL_32 (a : UInt64) : SqiGen.Keccak.ROL a 32 = rotl a 32 := ROL_eq_rotl a 32 (by decide)
theorem ROL_33 (a : UInt64) : SqiGen.Keccak.ROL a 33 = rotl a 33 := ROL_eq_rotl a 33 (by decide)
theorem ROL_34 (a : UInt64) : SqiGen.Keccak.ROL a 34 = rotl a 34 := ROL_eq_rotl a 34 (by decide)
theorem ROL_35 (a : UInt64) : SqiGen.Keccak.ROL a 35 = rotl a 35 := ROL_eq_rotl a 35 (by decide)
theorem ROL_36 (a : UInt64) : SqiGen.Keccak.ROL a 36 = rotl a 36 := ROL_eq_rotl a 36 (by decide)
theorem ROL_37 (a : UInt64) : SqiGen.Keccak.ROL a 37 = rotl a 37 := ROL_eq_rotl a 37 (by decide)
theorem ROL_38 (a : UInt64) : SqiGen.Keccak.ROL a 38 = rotl a 38 := ROL_eq_rotl a 38 (by decide)
theorem ROL_39 (a : UInt64) : SqiGen.Keccak.ROL a 39 = rotl a 39 := ROL_eq_rotl a 39 (by decide)
theorem ROL_40 (a : UInt64) : SqiGen.Keccak.ROL a 40 = rotl a 40 := ROL_eq_rotl a 40 (by decide)
theorem ROL_41 (a : UInt64) : SqiGen.Keccak.ROL a 41 = rotl a 41 := ROL_eq_rotl a 41 (by decide)
theorem ROL_42 (a : UInt64) : SqiGen.Keccak.ROL a 42 = rotl a 42 := ROL_eq_rotl a 42 (by decide)
theorem ROL_43 (a : UInt64) : SqiGen.Keccak.ROL a 43 = rotl a 43 := ROL_eq_rotl a 43 (by decide)
theorem ROL_44 (a : UInt64) : SqiGen.Keccak.ROL a 44 = rotl a 44 := ROL_eq_rotl a 44 (by decide)
theorem ROL_45 (a : UInt64) : SqiGen.Keccak.ROL a 45 = rotl a 45 := ROL_eq_rotl a 45 (by decide)
theorem ROL_46 (a : UInt64) : SqiGen.Keccak.ROL a 46 = rotl a 46 := ROL_eq_rotl a 46 (by decide)
theorem ROL_47 (a : UInt64) : SqiGen.Keccak.ROL a 47 = rotl a 47 := ROL_eq_rotl a 47 (by decide)
theorem ROL_48 (a : UInt64) : SqiGen.Keccak.ROL a 48 = rotl a 48 := ROL_eq_rotl a 48 (by decide)
theorem ROL_49 (a : UInt64) : SqiGen.Keccak.ROL a 49 = rotl a 49 := ROL_eq_rotl a 49 (by decide)
theorem ROL_50 (a : UInt64) : SqiGen.Keccak.ROL a 50 = rotl a 50 := ROL_eq_rotl a 50 (by decide)
theorem ROL_51 (a : UInt64) : SqiGen.Keccak.ROL a 51 = rotl a 51 := ROL_eq_rotl a 51 (by decide)
theorem ROL_52 (a : UInt64) : SqiGen.Keccak.ROL a 52 = rotl a 52 := ROL_eq_rotl a 52 (by decide)
theorem ROL_53 (a : UInt64) : SqiGen.Keccak.ROL a 53 = rotl a 53 := ROL_eq_rotl a 53 (by decide)
theorem ROL_54 (a : UInt64) : SqiGen.Keccak.ROL a 54 = rotl a 54 := ROL_eq_rotl a 54 (by decide)
theorem ROL_55 (a : UInt64) : SqiGen.Keccak.ROL a 55 = rotl a 55 := ROL_eq_rotl a 55 (by decide)
theorem ROL_56 (a : UInt64) : SqiGen.Keccak.ROL a 56 = rotl a 56 := ROL_eq_rotl a 56 (by decide)
theorem ROL_57 (a : UInt64) : SqiGen.Keccak.ROL a 57 = rotl a 57 := ROL_eq_rotl a 57 (by decide)
theorem ROL_58 (a : UInt64) : SqiGen.Keccak.ROL a 58 = rotl a 58 := ROL_eq_rotl a 58 (by decide)
theorem ROL_59 (a : UInt64) : SqiGen.Keccak.ROL a 59 = rotl a 59 := ROL_eq_rotl a 59 (by decide)
theorem ROL_60 (a : UInt64) : SqiGen.Keccak.ROL a 60 = rotl a 60 := ROL_eq_rotl a 60 (by decide)
theorem ROL_61 (a : UInt64) : SqiGen.Keccak.ROL a 61 = rotl a 61 := ROL_eq_rotl a 61 (by decide)
theorem ROL_62 (a : UInt64) : SqiGen.Keccak.ROL a 62 = rotl a 62 := ROL_eq_rotl a 62 (by decide)
theorem ROL_63 (a : UInt64) : SqiGen.Keccak.ROL a 63 = rotl a 63 := ROL_eq_rotl a 63 (by decide)


theorem rotl_mod (a : UInt64) (n : Nat) (_h : 64 ≤ n) : rotl a n = rotl a (n % 64) := by
  unfold rotl; rw [Nat.mod_mod]

theorem rotl_zero (a : UInt64) : rotl a 0 = a := by
  simp [rotl]

/-- bit z of `rotl a n` is bit (z − n) mod 64 of `a` (FIPS 202 Algorithm 2, step 3a, and θ's `(z−1) mod w`) -/
theorem rotl_getBit (a : UInt64) (n z : Nat) (hz : z < 64) :
    (rotl a n).toBitVec.getLsbD z = a.toBitVec.getLsbD ((z + 64 - n % 64) % 64) := by
  have hm : n % 64 < 64 := Nat.mod_lt _ (by omega)
  by_cases h0 : n % 64 = 0
  · unfold rotl; rw [h0]
    have : z % 64 = z := Nat.mod_eq_of_lt hz
    simp [this]
  · unfold rotl
    have e2 : (64 - n % 64) % 64 = 64 - n % 64 := Nat.mod_eq_of_lt (by omega)
    rw [e2]
    simp only [Nat.toUInt64, UInt64.toBitVec_or, UInt64.toBitVec_shiftLeft, UInt64.toBitVec_shiftRight]
    rw [BitVec.shiftLeft_eq', BitVec.ushiftRight_eq', shiftAmt _ hm, shiftAmt (64 - n % 64) (by omega)]
    simp only [BitVec.getLsbD_or, BitVec.getLsbD_shiftLeft, BitVec.getLsbD_ushiftRight]
    by_cases hlt : z < n % 64
    · have e : (z + 64 - n % 64) % 64 = 64 - n % 64 + z := by omega
      simp [hlt, e]
    · have e : (z + 64 - n % 64) % 64 = z - n % 64 := by omega
      have : 64 ≤ 64 - n % 64 + z := by omega
      simp [hlt, hz, e, BitVec.getLsbD_of_ge _ _ this]

/-! ### the two finite tables -/
theorem rhoTable_eq : rhoTable = [0, 1, 190, 28, 91, 36, 300, 6, 55, 276, 3, 10, 171, 153, 231, 105, 45, 15,
    21, 136, 210, 66, 253, 120, 78] := by decide

/-! ### one generated round = one specification round, for every state -/
theorem lt25_cases (i : Nat) (h : i < 25) : i = 0 ∨ i = 1 ∨ i = 2 ∨ i = 3 ∨ i = 4 ∨ i = 5 ∨ i = 6 ∨ i = 7 ∨ i = 8 ∨
    i = 9 ∨ i = 10 ∨ i = 11 ∨ i = 12 ∨ i = 13 ∨ i = 14 ∨ i = 15 ∨ i = 16 ∨ i = 17 ∨ i = 18 ∨ i = 19 ∨ i = 20 ∨
    i = 21 ∨ i = 22 ∨ i = 23 ∨ i = 24 := by omega

theorem mk25_eq (f : Nat → UInt64) : mk25 f = #v[f 0, f 1, f 2, f 3, f 4, f 5, f 6, f 7, f 8, f 9, f 10, f 11,
    f 12, f 13, f 14, f 15, f 16, f 17, f 18, f 19, f 20, f 21, f 22, f 23, f 24] := rfl

theorem mk25_getElem (f : Nat → UInt64) (i : Nat) (hi : i < 25) : (mk25 f)[i] = f i := by
  rcases lt25_cases i hi with h|h|h|h|h|h|h|h|h|h|h|h|h|h|h|h|h|h|h|h|h|h|h|h|h <;> subst h <;> rfl

end SqiProofs.Keccak

/- C20: `KeccakF1600_StatePermute` as generated from fips202.c = Keccak-f[1600] of FIPS 202, for every state. -/
import SqiProofs.KeccakRoundA
import SqiProofs.KeccakRoundB
namespace SqiProofs.Keccak
open SqiModel.Fips202

theorem round2_eq (s : State) (a b : UInt64) :
    SqiGen.Keccak.round2 s a b = roundWith b (roundWith a s) := by
  unfold SqiGen.Keccak.round2; rw [roundA_eq, roundB_eq]

/-- the extracted table `KeccakF_RoundConstants` is the LFSR-defined sequence RC[0..23] of FIPS 202 -/
theorem RC_eq : SqiGen.Keccak.RC = (List.range 24).map roundConstant := by decide

/-- `KeccakF1600_StatePermute` (12 double rounds over the extracted table) = Keccak-f[1600] of FIPS 202 -/
theorem keccakF_gen_eq_spec (s : State) : SqiGen.Keccak.keccakF s = keccakF s := by
  unfold SqiGen.Keccak.keccakF keccakF round
  have hn : SqiGen.Keccak.NROUNDS / 2 = 12 := by decide
  rw [hn, RC_eq]
  simp only [round2_eq]
  simp [List.range, List.range.loop]

end SqiProofs.Keccak

/- C20: half `roundA` of the generated double round equals one FIPS 202 round, for every state and constant.
   (Separate module so that the two halves are checked in parallel; kernel re-check ≈ 30 s each.) -/
import SqiProofs.Keccak
namespace SqiProofs.Keccak
open SqiModel.Fips202
attribute [local simp] ROL_1 ROL_2 ROL_3 ROL_4 ROL_5 ROL_6 ROL_7 ROL_8 ROL_9 ROL_10 ROL_11 ROL_12 ROL_13 ROL_14 ROL_15 ROL_16 ROL_17 ROL_18 ROL_19 ROL_20 ROL_21 ROL_22 ROL_23 ROL_24 ROL_25 ROL_26 ROL_27 ROL_28 ROL_29 ROL_30 ROL_31 ROL_32 ROL_33 ROL_34 ROL_35 ROL_36 ROL_37 ROL_38 ROL_39 ROL_40 ROL_41 ROL_42 ROL_43 ROL_44 ROL_45 ROL_46 ROL_47 ROL_48 ROL_49 ROL_50 ROL_51 ROL_52 ROL_53 ROL_54 ROL_55 ROL_56 ROL_57 ROL_58 ROL_59 ROL_60 ROL_61 ROL_62 ROL_63

/-- first half of the C loop body (round `round`) is Rnd with that round constant -/
theorem roundA_eq (s : State) (rc : UInt64) : SqiGen.Keccak.roundA s rc = roundWith rc s := by
  simp [SqiGen.Keccak.roundA, roundWith, iota, chi, pi, rho, theta, thetaD, thetaC, lane, rhoOffset, rhoTable_eq,
    mk25_eq, rotl_mod, rotl_zero]

end SqiProofs.Keccak

import SqiGen.Ladder
import SqiModel.Ladder
import Mathlib.Data.Nat.Bitwise
import Mathlib.Tactic.Ring

/-! # The generated loops (SqiGen.Ladder, regenerated from ec.c on every run) equal the hand models (SqiModel.Ladder)

Consequently every ladder theorem of `SqiProps/C08.lean` is a theorem about definitions generated from the C text: an
edit of a loop bound, a swap condition or a recoding step changes `SqiGen/Ladder.lean` and breaks one of these proofs. -/

set_option linter.unusedVariables false
set_option linter.unusedSectionVars false
namespace SqiProofs.LadderGen
open SqiGen SqiModel.Ladder

variable {F : Type} [Add F] [Sub F] [Mul F] [Neg F] [Inv F] [Zero F] [One F] [NatCast F] [DecidableEq F]

/-! ## xMUL / xMULv2 -/

theorem xMUL_loop_sim (P A24 : EcPoint F) (k : Nat) (l : List Nat) :
    ∀ (R0 R1 : EcPoint F) (b prev : Bool),
      let g := l.foldl (SqiGen.xMUL_loop1 P k A24) (R0, R1, b, prev)
      let s := (l.map (fun i => k.testBit i)).foldl (ladderStep P A24) ⟨R0, R1, prev⟩
      g.1 = s.R0 ∧ g.2.1 = s.R1 ∧ g.2.2.2 = s.prev := by
  induction l with
  | nil => intro R0 R1 b prev; exact ⟨rfl, rfl, rfl⟩
  | cons i l ih =>
    intro R0 R1 b prev
    simp only [List.foldl_cons, List.map_cons]
    exact ih _ _ _ _

theorem xMUL_eq (BITS : Nat) (P : EcPoint F) (k : Nat) (curve : EcCurve F) :
    SqiGen.xMUL BITS P k curve = SqiModel.Ladder.xMUL BITS k P curve := by
  have h := xMUL_loop_sim P (xMUL_A24 curve) k (List.range BITS).reverse ec_point_init ⟨P.x, P.z⟩ false false
  obtain ⟨h0, h1, h2⟩ := h
  simp only [SqiGen.xMUL, SqiModel.Ladder.xMUL, xMULbits, ladderFinish, ladderInit, bitsMSB, xMUL_A24, mask] at *
  rw [h0, h1, h2]
  try rfl

theorem xMULv2_loop_sim (P A24 : EcPoint F) (k : Nat) (l : List Nat) :
    ∀ (R0 R1 : EcPoint F) (b prev : Bool),
      let g := l.foldl (SqiGen.xMULv2_loop1 P A24 k) (R0, R1, b, prev)
      let s := (l.map (fun i => k.testBit i)).foldl (ladderStep P A24) ⟨R0, R1, prev⟩
      g.1 = s.R0 ∧ g.2.1 = s.R1 ∧ g.2.2.2 = s.prev := by
  induction l with
  | nil => intro R0 R1 b prev; exact ⟨rfl, rfl, rfl⟩
  | cons i l ih =>
    intro R0 R1 b prev
    simp only [List.foldl_cons, List.map_cons]
    exact ih _ _ _ _

theorem xMULv2_eq (P : EcPoint F) (k kbits : Nat) (A24 : EcPoint F) :
    SqiGen.xMULv2 P k kbits A24 = SqiModel.Ladder.xMULv2 kbits k P A24 := by
  have h := xMULv2_loop_sim P A24 k (List.range kbits).reverse ec_point_init ⟨P.x, P.z⟩ false false
  obtain ⟨h0, h1, h2⟩ := h
  simp only [SqiGen.xMULv2, SqiModel.Ladder.xMULv2, xMULbits, ladderFinish, ladderInit, bitsMSB, mask] at *
  rw [h0, h1, h2]
  try rfl

/-! ## ec_ladder3pt -/

theorem land_two_pow (w j : Nat) : (decide (Nat.land (2 ^ j) w = 0)) = !(w.testBit j) := by
  have h : Nat.land (2 ^ j) w = (w.testBit j).toNat * 2 ^ j := by
    show 2 ^ j &&& w = _
    rw [Nat.and_comm, Nat.and_two_pow]
  rw [h]
  cases hb : w.testBit j
  · simp
  · simp

theorem word_testBit (m i j : Nat) (hj : j < 64) : (m / 2 ^ (64 * i) % 2 ^ 64).testBit j = m.testBit (64 * i + j) := by
  rw [Nat.testBit_mod_two_pow, Nat.testBit_div_two_pow]
  simp [hj, Nat.add_comm]

theorem l3_inner_sim (i : Nat) (A : EcCurve F) (m : Nat) (len : Nat) :
    ∀ (j0 : Nat) (X0 X1 X2 : EcPoint F), j0 + len ≤ 64 →
      let g := (List.range' j0 len).foldl (SqiGen.ec_ladder3pt_loop2 i A m) (X0, X1, X2, 2 ^ j0)
      let s := ((List.range' j0 len).map (fun j => m.testBit (64 * i + j))).foldl (ladder3Step A.A24) ⟨X0, X1, X2⟩
      g.1 = s.X0 ∧ g.2.1 = s.X1 ∧ g.2.2.1 = s.X2 := by
  induction len with
  | zero => intro j0 X0 X1 X2 _; exact ⟨rfl, rfl, rfl⟩
  | succ len ih =>
    intro j0 X0 X1 X2 h
    simp only [List.range'_succ, List.foldl_cons, List.map_cons]
    have hj : j0 < 64 := by omega
    have e : SqiGen.ec_ladder3pt_loop2 i A m (X0, X1, X2, 2 ^ j0) j0 =
        ((ladder3Step A.A24 ⟨X0, X1, X2⟩ (m.testBit (64 * i + j0))).X0,
         (ladder3Step A.A24 ⟨X0, X1, X2⟩ (m.testBit (64 * i + j0))).X1,
         (ladder3Step A.A24 ⟨X0, X1, X2⟩ (m.testBit (64 * i + j0))).X2, 2 ^ (j0 + 1)) := by
      have e2 : 2 ^ (j0 + 1) = 2 ^ j0 * 2 := by rw [Nat.pow_succ]
      rw [e2]
      simp only [SqiGen.ec_ladder3pt_loop2, ladder3Step, mask, land_two_pow, word_testBit m i j0 hj]
    rw [e]
    exact ih (j0 + 1) _ _ _ (by omega)

theorem l3_outer_sim (A : EcCurve F) (m : Nat) (n : Nat) :
    ∀ (X0 X1 X2 : EcPoint F),
      let g := (List.range n).foldl (SqiGen.ec_ladder3pt_loop1 A m) (X0, X1, X2)
      let s := ((List.range (64 * n)).map (fun j => m.testBit j)).foldl (ladder3Step A.A24) ⟨X0, X1, X2⟩
      g.1 = s.X0 ∧ g.2.1 = s.X1 ∧ g.2.2 = s.X2 := by
  induction n with
  | zero => intro X0 X1 X2; exact ⟨rfl, rfl, rfl⟩
  | succ n ih =>
    intro X0 X1 X2
    have e64 : 64 * (n + 1) = 64 * n + 64 := by omega
    obtain ⟨i0, i1, i2⟩ := ih X0 X1 X2
    simp only [List.range_succ, List.foldl_append, List.foldl_cons, List.foldl_nil]
    rw [e64, List.range_add, List.map_append, List.foldl_append, List.map_map]
    generalize (List.range n).foldl (SqiGen.ec_ladder3pt_loop1 A m) (X0, X1, X2) = g at i0 i1 i2 ⊢
    generalize ((List.range (64 * n)).map (fun j => m.testBit j)).foldl (ladder3Step A.A24) ⟨X0, X1, X2⟩ = s at i0 i1 i2 ⊢
    obtain ⟨g0, g1, g2⟩ := g
    obtain ⟨s0, s1, s2⟩ := s
    simp only at i0 i1 i2
    subst i0 i1 i2
    have h := l3_inner_sim n A m 64 0 g0 g1 g2 (by omega)
    simp only [Nat.pow_zero, ← List.range_eq_range'] at h
    simp only [SqiGen.ec_ladder3pt_loop1]
    exact h

theorem ec_ladder3pt_eq (NWORDS_FIELD m : Nat) (P Q PQ : EcPoint F) (A : EcCurve F) :
    SqiGen.ec_ladder3pt NWORDS_FIELD m P Q PQ A = SqiModel.Ladder.ladder3pt (64 * NWORDS_FIELD) m P Q PQ A := by
  obtain ⟨h0, h1, h2⟩ := l3_outer_sim A m NWORDS_FIELD (copy_point Q) (copy_point P) (copy_point PQ)
  simp only [SqiGen.ec_ladder3pt, SqiModel.Ladder.ladder3pt, ladder3bits, bitsLSB] at *
  rw [h1]

end SqiProofs.LadderGen

import SqiGen.Ladder
import SqiModel.Ladder
import Mathlib.Data.Nat.Bitwise
import Mathlib.Tactic.Ring

/-! # The generated loops (SqiGen.Ladder, regenerated from ec.c on every run) equal the hand models (SqiModel.Ladder)

Consequently every ladder theorem of `SqiProps/C08.lean` is a theorem about definitions generated from the C text: an
edit of a loop bound, a swap condition or a recoding step changes `SqiGen/Ladder.lean` and breaks one of these proofs. -/

set_option linter.unusedVariables false
set_option linter.unusedSectionVars false
set_option linter.unusedSimpArgs false
namespace SqiProofs.LadderGen
open SqiGen SqiModel.Ladder

variable {F : Type} [Add F] [Sub F] [Mul F] [Neg F] [Inv F] [Zero F] [One F] [NatCast F] [DecidableEq F]

/-! ## xMUL / xMULv2 -/

theorem xMUL_loop_sim (P A24 : EcPoint F) (k : Nat) (l : List Nat) :
    ∀ (R0 R1 : EcPoint F) (b prev : Bool),
      let g := l.foldl (SqiGen.xMUL_loop1 P k A24) (R0, R1, b, prev)
      let s := (l.map (fun i => k.testBit i)).foldl (ladderStep P A24) ⟨R0, R1, prev⟩
      g.1 = s.R0 ∧ g.2.1 = s.R1 ∧ g.2.2.2 = s.prev := by
  induction l with
  | nil => intro R0 R1 b prev; exact ⟨rfl, rfl, rfl⟩
  | cons i l ih =>
    intro R0 R1 b prev
    simp only [List.foldl_cons, List.map_cons]
    exact ih _ _ _ _

theorem xMUL_eq (BITS : Nat) (P : EcPoint F) (k : Nat) (curve : EcCurve F) :
    SqiGen.xMUL BITS P k curve = SqiModel.Ladder.xMUL BITS k P curve := by
  have h := xMUL_loop_sim P (xMUL_A24 curve) k (List.range BITS).reverse ec_point_init ⟨P.x, P.z⟩ false false
  obtain ⟨h0, h1, h2⟩ := h
  simp only [SqiGen.xMUL, SqiModel.Ladder.xMUL, xMULbits, ladderFinish, ladderInit, bitsMSB, xMUL_A24, mask] at *
  rw [h0, h1, h2]
  try rfl

theorem xMULv2_loop_sim (P A24 : EcPoint F) (k : Nat) (l : List Nat) :
    ∀ (R0 R1 : EcPoint F) (b prev : Bool),
      let g := l.foldl (SqiGen.xMULv2_loop1 P A24 k) (R0, R1, b, prev)
      let s := (l.map (fun i => k.testBit i)).foldl (ladderStep P A24) ⟨R0, R1, prev⟩
      g.1 = s.R0 ∧ g.2.1 = s.R1 ∧ g.2.2.2 = s.prev := by
  induction l with
  | nil => intro R0 R1 b prev; exact ⟨rfl, rfl, rfl⟩
  | cons i l ih =>
    intro R0 R1 b prev
    simp only [List.foldl_cons, List.map_cons]
    exact ih _ _ _ _

theorem xMULv2_eq (P : EcPoint F) (k kbits : Nat) (A24 : EcPoint F) :
    SqiGen.xMULv2 P k kbits A24 = SqiModel.Ladder.xMULv2 kbits k P A24 := by
  have h := xMULv2_loop_sim P A24 k (List.range kbits).reverse ec_point_init ⟨P.x, P.z⟩ false false
  obtain ⟨h0, h1, h2⟩ := h
  simp only [SqiGen.xMULv2, SqiModel.Ladder.xMULv2, xMULbits, ladderFinish, ladderInit, bitsMSB, mask] at *
  rw [h0, h1, h2]
  try rfl

/-! ## ec_ladder3pt -/

theorem land_two_pow (w j : Nat) : (decide (Nat.land (2 ^ j) w = 0)) = !(w.testBit j) := by
  have h : Nat.land (2 ^ j) w = (w.testBit j).toNat * 2 ^ j := by
    show 2 ^ j &&& w = _
    rw [Nat.and_comm, Nat.and_two_pow]
  rw [h]
  cases hb : w.testBit j
  · simp
  · simp

theorem word_testBit (m i j : Nat) (hj : j < 64) : (m / 2 ^ (64 * i) % 2 ^ 64).testBit j = m.testBit (64 * i + j) := by
  rw [Nat.testBit_mod_two_pow, Nat.testBit_div_two_pow]
  simp [hj, Nat.add_comm]

theorem l3_inner_sim (i : Nat) (A : EcCurve F) (m : Nat) (len : Nat) :
    ∀ (j0 : Nat) (X0 X1 X2 : EcPoint F), j0 + len ≤ 64 →
      let g := (List.range' j0 len).foldl (SqiGen.ec_ladder3pt_loop2 i A m) (X0, X1, X2, 2 ^ j0)
      let s := ((List.range' j0 len).map (fun j => m.testBit (64 * i + j))).foldl (ladder3Step A.A24) ⟨X0, X1, X2⟩
      g.1 = s.X0 ∧ g.2.1 = s.X1 ∧ g.2.2.1 = s.X2 := by
  induction len with
  | zero => intro j0 X0 X1 X2 _; exact ⟨rfl, rfl, rfl⟩
  | succ len ih =>
    intro j0 X0 X1 X2 h
    simp only [List.range'_succ, List.foldl_cons, List.map_cons]
    have hj : j0 < 64 := by omega
    have e : SqiGen.ec_ladder3pt_loop2 i A m (X0, X1, X2, 2 ^ j0) j0 =
        ((ladder3Step A.A24 ⟨X0, X1, X2⟩ (m.testBit (64 * i + j0))).X0,
         (ladder3Step A.A24 ⟨X0, X1, X2⟩ (m.testBit (64 * i + j0))).X1,
         (ladder3Step A.A24 ⟨X0, X1, X2⟩ (m.testBit (64 * i + j0))).X2, 2 ^ (j0 + 1)) := by
      have e2 : 2 ^ (j0 + 1) = 2 ^ j0 * 2 := by rw [Nat.pow_succ]
      rw [e2]
      simp only [SqiGen.ec_ladder3pt_loop2, ladder3Step, mask, land_two_pow, word_testBit m i j0 hj]
    rw [e]
    exact ih (j0 + 1) _ _ _ (by omega)

theorem l3_outer_sim (A : EcCurve F) (m : Nat) (n : Nat) :
    ∀ (X0 X1 X2 : EcPoint F),
      let g := (List.range n).foldl (SqiGen.ec_ladder3pt_loop1 A m) (X0, X1, X2)
      let s := ((List.range (64 * n)).map (fun j => m.testBit j)).foldl (ladder3Step A.A24) ⟨X0, X1, X2⟩
      g.1 = s.X0 ∧ g.2.1 = s.X1 ∧ g.2.2 = s.X2 := by
  induction n with
  | zero => intro X0 X1 X2; exact ⟨rfl, rfl, rfl⟩
  | succ n ih =>
    intro X0 X1 X2
    have e64 : 64 * (n + 1) = 64 * n + 64 := by omega
    obtain ⟨i0, i1, i2⟩ := ih X0 X1 X2
    simp only [List.range_succ, List.foldl_append, List.foldl_cons, List.foldl_nil]
    rw [e64, List.range_add, List.map_append, List.foldl_append, List.map_map]
    generalize (List.range n).foldl (SqiGen.ec_ladder3pt_loop1 A m) (X0, X1, X2) = g at i0 i1 i2 ⊢
    generalize ((List.range (64 * n)).map (fun j => m.testBit j)).foldl (ladder3Step A.A24) ⟨X0, X1, X2⟩ = s at i0 i1 i2 ⊢
    obtain ⟨g0, g1, g2⟩ := g
    obtain ⟨s0, s1, s2⟩ := s
    simp only at i0 i1 i2
    subst i0 i1 i2
    have h := l3_inner_sim n A m 64 0 g0 g1 g2 (by omega)
    simp only [Nat.pow_zero, ← List.range_eq_range'] at h
    simp only [SqiGen.ec_ladder3pt_loop1]
    exact h

theorem ec_ladder3pt_eq (NWORDS_FIELD m : Nat) (P Q PQ : EcPoint F) (A : EcCurve F) :
    SqiGen.ec_ladder3pt NWORDS_FIELD m P Q PQ A = SqiModel.Ladder.ladder3pt (64 * NWORDS_FIELD) m P Q PQ A := by
  obtain ⟨h0, h1, h2⟩ := l3_outer_sim A m NWORDS_FIELD (copy_point Q) (copy_point P) (copy_point PQ)
  simp only [SqiGen.ec_ladder3pt, SqiModel.Ladder.ladder3pt, ladder3bits, bitsLSB] at *
  rw [h1]

/-! ## xDBLMUL : recoding loop -/

/-- the digit pair stored by the generated code at index `j` of the word array `r` -/
def digitsOf (r : Nat → Nat) (j : Nat) : Bool × Bool := (decide (r (2 * j) ≠ 0), decide (r (2 * j + 1) ≠ 0))

theorem toNat_ne_zero (b : Bool) : decide (b.toNat ≠ 0) = b := by cases b <;> rfl

/-- one iteration of the generated recoding loop = `recodeStep` of the hand model -/
theorem recode_loop_step (BITS i : Nat) (hi : i < BITS) (mk s0 s1 pre : Bool) (kt lt : Nat) (r : Nat → Nat)
    (rl : List (Bool × Bool)) :
    let g := SqiGen.xDBLMUL_loop1 BITS (mk, s0, s1, pre, kt, lt, r) i
    let s := recodeStep ⟨kt, lt, s0, s1, pre, rl⟩ (i + 1 == BITS)
    g.2.1 = s.s0 ∧ g.2.2.1 = s.s1 ∧ g.2.2.2.1 = s.pre ∧ g.2.2.2.2.1 = s.kt ∧ g.2.2.2.2.2.1 = s.lt ∧
    s.r = rl ++ [digitsOf g.2.2.2.2.2.2 i] ∧
    (∀ j, j ≠ 2 * i → j ≠ 2 * i + 1 → g.2.2.2.2.2.2 j = r j) ∧
    g.2.2.2.2.2.2 (2 * i) ≤ 1 ∧ g.2.2.2.2.2.2 (2 * i + 1) ≤ 1 := by
  have hlast : (i + 1 == BITS) = decide (i = BITS - 1) := by
    by_cases h : i = BITS - 1
    · have : i + 1 = BITS := by omega
      simp [h, this]
      omega
    · have : ¬ (i + 1 = BITS) := by omega
      simp [h, this]
  have hne : 2 * i ≠ 2 * i + 1 := by omega
  simp only [SqiGen.xDBLMUL_loop1, recodeStep, hlast, digitsOf, if_pos, hne, if_false, if_true, toNat_ne_zero,
    ite_true, ite_false, reduceIte]
  refine ⟨trivial, trivial, trivial, trivial, trivial, trivial, ?_, Bool.toNat_le _, Bool.toNat_le _⟩
  intro j h1 h2
  simp only [h1, h2, if_false]

/-- simulation relation between the generated recoding state and the model's `RecState` after `i` iterations -/
def RecRel (i : Nat) (g : Bool × Bool × Bool × Bool × Nat × Nat × (Nat → Nat)) (s : RecState) : Prop :=
  g.2.1 = s.s0 ∧ g.2.2.1 = s.s1 ∧ g.2.2.2.1 = s.pre ∧ g.2.2.2.2.1 = s.kt ∧ g.2.2.2.2.2.1 = s.lt ∧
  s.r = (List.range i).map (digitsOf g.2.2.2.2.2.2) ∧ ∀ j, g.2.2.2.2.2.2 j ≤ 1

theorem recode_loop_fold (BITS : Nat) (len : Nat) : ∀ (i0 : Nat), i0 + len ≤ BITS →
    ∀ (g : Bool × Bool × Bool × Bool × Nat × Nat × (Nat → Nat)) (s : RecState), RecRel i0 g s →
    RecRel (i0 + len) ((List.range' i0 len).foldl (SqiGen.xDBLMUL_loop1 BITS) g)
      ((List.range' i0 len).foldl (fun st i => recodeStep st (i + 1 == BITS)) s) := by
  induction len with
  | zero => intro i0 _ g s h; simpa using h
  | succ len ih =>
    intro i0 hle g s h
    simp only [List.range'_succ, List.foldl_cons]
    have e : i0 + (len + 1) = (i0 + 1) + len := by omega
    rw [e]
    apply ih (i0 + 1) (by omega)
    obtain ⟨mk, s0, s1, pre, kt, lt, r⟩ := g
    obtain ⟨skt, slt, ss0, ss1, spre, sr⟩ := s
    obtain ⟨h0, h1, h2, h3, h4, h5, h6⟩ := h
    simp only at h0 h1 h2 h3 h4 h5 h6
    subst h0 h1 h2 h3 h4
    obtain ⟨k0, k1, k2, k3, k4, k5, k6, k7, k8⟩ := recode_loop_step BITS i0 (by omega) mk s0 s1 pre kt lt r sr
    refine ⟨k0, k1, k2, k3, k4, ?_, ?_⟩
    · rw [k5, h5, List.range_succ, List.map_append, List.map_cons, List.map_nil]
      congr 1
      apply List.map_congr_left
      intro j hj
      have hj' : j < i0 := List.mem_range.mp hj
      simp only [digitsOf]
      rw [k6 (2 * j) (by omega) (by omega), k6 (2 * j + 1) (by omega) (by omega)]
    · intro j
      by_cases e1 : j = 2 * i0
      · rw [e1]; exact k7
      · by_cases e2 : j = 2 * i0 + 1
        · rw [e2]; exact k8
        · rw [k6 j e1 e2]; exact h6 j

/-! ## xDBLMUL : main loop -/

/-- the generated main-loop state corresponds to the model's `DState` (the model also carries the scratch `T`) -/
def MainRel (g : Bool × EcPoint F × EcPoint F × EcPoint F × EcPoint F × EcPoint F × EcPoint F × EcPoint F)
    (s : DState F) : Prop :=
  g.2.1 = s.D1a ∧ g.2.2.1 = s.D1b ∧ g.2.2.2.1 = s.D2a ∧ g.2.2.2.2.1 = s.D2b ∧ g.2.2.2.2.2.1 = s.R0 ∧
  g.2.2.2.2.2.2.1 = s.R1 ∧ g.2.2.2.2.2.2.2 = s.R2

theorem main_loop_step (r : Nat → Nat) (hr : ∀ j, r j ≤ 1) (A24 : EcPoint F) (i : Nat)
    (g : Bool × EcPoint F × EcPoint F × EcPoint F × EcPoint F × EcPoint F × EcPoint F × EcPoint F) (s : DState F)
    (h : MainRel g s) :
    MainRel (SqiGen.xDBLMUL_loop2 r A24 g i) (dblmulStep A24 s (digitsOf r i) true) := by
  obtain ⟨mk, D1a, D1b, D2a, D2b, R0, R1, R2⟩ := g
  obtain ⟨sR0, sR1, sR2, sT0, sT1, sT2, sD1a, sD1b, sD2a, sD2b⟩ := s
  obtain ⟨h0, h1, h2, h3, h4, h5, h6⟩ := h
  simp only at h0 h1 h2 h3 h4 h5 h6
  subst h0 h1 h2 h3 h4 h5 h6
  have ha : r (2 * i) = 0 ∨ r (2 * i) = 1 := by have := hr (2 * i); omega
  have hb : r (2 * i + 1) = 0 ∨ r (2 * i + 1) = 1 := by have := hr (2 * i + 1); omega
  rcases ha with ha | ha <;> rcases hb with hb | hb <;>
    simp [MainRel, SqiGen.xDBLMUL_loop2, dblmulStep, digitsOf, mask, ha, hb]

theorem main_loop_fold (r : Nat → Nat) (hr : ∀ j, r j ≤ 1) (A24 : EcPoint F) (l : List Nat) :
    ∀ (g : Bool × EcPoint F × EcPoint F × EcPoint F × EcPoint F × EcPoint F × EcPoint F × EcPoint F) (s : DState F),
      MainRel g s →
      MainRel (l.foldl (SqiGen.xDBLMUL_loop2 r A24) g)
        ((l.map (digitsOf r)).foldl (fun st rr => dblmulStep A24 st rr true) s) := by
  induction l with
  | nil => intro g s h; exact h
  | cons i l ih =>
    intro g s h
    simp only [List.foldl_cons, List.map_cons]
    exact ih _ _ (main_loop_step r hr A24 i g s h)

/-! ## xDBLMUL : the whole function -/

theorem foldl_zip_snd' {α β γ : Type} (f : γ → β → γ) (l : List β) (idx : List α) (hlen : idx.length = l.length) (s : γ) :
    (idx.zip l).foldl (fun st ir => f st ir.2) s = l.foldl f s := by
  induction l generalizing idx s with
  | nil => cases idx <;> simp
  | cons b bs ih =>
    cases idx with
    | nil => simp at hlen
    | cons i is_ =>
      simp only [List.length_cons, Nat.add_right_cancel_iff] at hlen
      simp only [List.zip_cons_cons, List.foldl_cons]
      exact ih is_ hlen _

theorem xDBLMUL_eq (NW BITS : Nat) (hW : 64 * NW = BITS) (hB : 0 < BITS) (k l : Nat) (hk : k < 2 ^ BITS) (hl : l < 2 ^ BITS)
    (P Q PQ : EcPoint F) (curve : EcCurve F) :
    SqiGen.xDBLMUL NW BITS P k Q l PQ curve = SqiModel.Ladder.xDBLMUL BITS k l P Q PQ curve := by
  have hW1 : 1 % 2 ^ BITS = 1 := Nat.mod_eq_of_lt (Nat.one_lt_two_pow (by omega))
  have hkm : k % 2 ^ BITS = k := Nat.mod_eq_of_lt hk
  have hlm : l % 2 ^ BITS = l := Nat.mod_eq_of_lt hl
  -- the recoding loops
  have hrec := recode_loop_fold BITS BITS 0 (by omega)
  simp only [Nat.zero_add, ← List.range_eq_range'] at hrec
  simp only [SqiGen.xDBLMUL, SqiModel.Ladder.xDBLMUL, xDBLMULgen, recode, hW, hW1, hkm, hlm]
  generalize hG : List.foldl (SqiGen.xDBLMUL_loop1 BITS) _ (List.range BITS) = gfin
  generalize hS : List.foldl (fun st i => recodeStep st (i + 1 == BITS)) _ (List.range BITS) = sfin
  have hfin : RecRel BITS gfin sfin := by
    rw [← hG, ← hS]
    apply hrec
    cases hbk : k.testBit 0 <;> cases hbl : l.testBit 0 <;> simp [RecRel, digitsOf]
  obtain ⟨e0, _, _, _, _, er, hle⟩ := hfin
  rw [er, ← List.map_reverse]
  rw [foldl_zip_snd' (fun st rr => dblmulStep (dblmulA24 curve) st rr true) _ _ (by simp)]
  have hinit : MainRel (gfin.2.1,
      ({ x := (select_point P Q (if gfin.2.1 = true then 1 else 0)).x,
         z := (select_point P Q (if gfin.2.1 = true then 1 else 0)).z } : EcPoint F),
      ({ x := (select_point Q P (if gfin.2.1 = true then 1 else 0)).x,
         z := (select_point Q P (if gfin.2.1 = true then 1 else 0)).z } : EcPoint F),
      ({ x := (xADD (select_point P Q (if gfin.2.1 = true then 1 else 0))
                (select_point Q P (if gfin.2.1 = true then 1 else 0)) PQ).x,
         z := (xADD (select_point P Q (if gfin.2.1 = true then 1 else 0))
                (select_point Q P (if gfin.2.1 = true then 1 else 0)) PQ).z } : EcPoint F),
      ({ x := PQ.x, z := PQ.z } : EcPoint F), ec_point_init, select_point P Q (if gfin.2.1 = true then 1 else 0),
      xADD (select_point P Q (if gfin.2.1 = true then 1 else 0))
        (select_point Q P (if gfin.2.1 = true then 1 else 0)) PQ)
      (dblmulInit sfin.s0 P Q PQ) := by
    simp [MainRel, dblmulInit, mask, e0]
  have hm := main_loop_fold gfin.2.2.2.2.2.2 hle (dblmulA24 curve) (List.range BITS).reverse _ _ hinit
  simp only [dblmulA24] at hm ⊢
  obtain ⟨_, _, _, _, m0, m1, m2⟩ := hm
  rw [m0, m1, m2]
  cases hbk : k.testBit 0 <;> cases hbl : l.testBit 0 <;> simp [dblmulOut, mask]

/-! ## xDBLMUL_bounded -/

/-- the recoding loop of the bounded variant is the same generated text -/
theorem bounded_loop1_eq : @SqiGen.xDBLMUL_bounded_loop1 = @SqiGen.xDBLMUL_loop1 := rfl

def MainRelB (g : Bool × EcPoint F × EcPoint F × EcPoint F × EcPoint F × EcPoint F × EcPoint F × EcPoint F ×
      EcPoint F × EcPoint F × EcPoint F) (s : DState F) : Prop :=
  g.2.1 = s.D1a ∧ g.2.2.1 = s.D1b ∧ g.2.2.2.1 = s.D2a ∧ g.2.2.2.2.1 = s.D2b ∧ g.2.2.2.2.2.1 = s.R0 ∧
  g.2.2.2.2.2.2.1 = s.R1 ∧ g.2.2.2.2.2.2.2.1 = s.R2 ∧ g.2.2.2.2.2.2.2.2.1 = s.T0 ∧ g.2.2.2.2.2.2.2.2.2.1 = s.T1 ∧
  g.2.2.2.2.2.2.2.2.2.2 = s.T2

theorem main_loop_step_b (BITS TPE f : Nat) (r : Nat → Nat) (hr : ∀ j, r j ≤ 1) (A24 : EcPoint F) (i : Nat)
    (g : Bool × EcPoint F × EcPoint F × EcPoint F × EcPoint F × EcPoint F × EcPoint F × EcPoint F ×
      EcPoint F × EcPoint F × EcPoint F) (s : DState F) (h : MainRelB g s) :
    MainRelB (SqiGen.xDBLMUL_bounded_loop2 BITS TPE f r A24 g i)
      (dblmulStep A24 s (digitsOf r i) (decide (i ≤ f + 2 + (BITS - TPE)))) := by
  obtain ⟨mk, D1a, D1b, D2a, D2b, R0, R1, R2, T0, T1, T2⟩ := g
  obtain ⟨sR0, sR1, sR2, sT0, sT1, sT2, sD1a, sD1b, sD2a, sD2b⟩ := s
  obtain ⟨h0, h1, h2, h3, h4, h5, h6, h7, h8, h9⟩ := h
  simp only at h0 h1 h2 h3 h4 h5 h6 h7 h8 h9
  subst h0 h1 h2 h3 h4 h5 h6 h7 h8 h9
  have ha : r (2 * i) = 0 ∨ r (2 * i) = 1 := by have := hr (2 * i); omega
  have hb : r (2 * i + 1) = 0 ∨ r (2 * i + 1) = 1 := by have := hr (2 * i + 1); omega
  by_cases hap : i ≤ f + 2 + (BITS - TPE) <;> rcases ha with ha | ha <;> rcases hb with hb | hb <;>
    simp [MainRelB, SqiGen.xDBLMUL_bounded_loop2, dblmulStep, digitsOf, mask, ha, hb, hap]

theorem main_loop_fold_b (BITS TPE f : Nat) (r : Nat → Nat) (hr : ∀ j, r j ≤ 1) (A24 : EcPoint F) (l : List Nat) :
    ∀ (g : Bool × EcPoint F × EcPoint F × EcPoint F × EcPoint F × EcPoint F × EcPoint F × EcPoint F ×
      EcPoint F × EcPoint F × EcPoint F) (s : DState F), MainRelB g s →
      MainRelB (l.foldl (SqiGen.xDBLMUL_bounded_loop2 BITS TPE f r A24) g)
        ((l.map (fun i => (i, digitsOf r i))).foldl
          (fun st ir => dblmulStep A24 st ir.2 (decide (ir.1 ≤ f + 2 + (BITS - TPE)))) s) := by
  induction l with
  | nil => intro g s h; exact h
  | cons i l ih =>
    intro g s h
    simp only [List.foldl_cons, List.map_cons]
    exact ih _ _ (main_loop_step_b BITS TPE f r hr A24 i g s h)

theorem zip_map_self {α β : Type} (l : List α) (φ : α → β) : l.zip (l.map φ) = l.map (fun x => (x, φ x)) := by
  induction l with
  | nil => rfl
  | cons a l ih => simp [ih]

theorem xDBLMUL_bounded_eq (NW BITS TPE : Nat) (hW : 64 * NW = BITS) (hB : 0 < BITS) (k l : Nat) (hk : k < 2 ^ BITS)
    (hl : l < 2 ^ BITS) (P Q PQ : EcPoint F) (curve : EcCurve F) (f : Nat) :
    SqiGen.xDBLMUL_bounded NW BITS TPE P k Q l PQ curve f =
      SqiModel.Ladder.xDBLMULgen BITS (some (f + 2 + (BITS - TPE))) k l P Q PQ curve := by
  have hW1 : 1 % 2 ^ BITS = 1 := Nat.mod_eq_of_lt (Nat.one_lt_two_pow (by omega))
  have hkm : k % 2 ^ BITS = k := Nat.mod_eq_of_lt hk
  have hlm : l % 2 ^ BITS = l := Nat.mod_eq_of_lt hl
  have hrec := recode_loop_fold BITS BITS 0 (by omega)
  simp only [Nat.zero_add, ← List.range_eq_range'] at hrec
  simp only [SqiGen.xDBLMUL_bounded, bounded_loop1_eq, xDBLMULgen, recode, hW, hW1, hkm, hlm]
  generalize hG : List.foldl (SqiGen.xDBLMUL_loop1 BITS) _ (List.range BITS) = gfin
  generalize hS : List.foldl (fun st i => recodeStep st (i + 1 == BITS)) _ (List.range BITS) = sfin
  have hfin : RecRel BITS gfin sfin := by
    rw [← hG, ← hS]
    apply hrec
    cases hbk : k.testBit 0 <;> cases hbl : l.testBit 0 <;> simp [RecRel, digitsOf]
  obtain ⟨e0, _, _, _, _, er, hle⟩ := hfin
  rw [er, ← List.map_reverse, zip_map_self]
  have hm := main_loop_fold_b BITS TPE f gfin.2.2.2.2.2.2 hle (dblmulA24 curve) (List.range BITS).reverse
  simp only [dblmulA24] at hm ⊢
  generalize hGm : List.foldl (SqiGen.xDBLMUL_bounded_loop2 (F := F) BITS TPE f gfin.2.2.2.2.2.2 (copy_point (ec_curve_normalize_A24 (copy_curve curve)).A24)) _ (List.range BITS).reverse = gm
  have hrel : MainRelB gm (((List.range BITS).reverse.map (fun i => (i, digitsOf gfin.2.2.2.2.2.2 i))).foldl
      (fun st ir => dblmulStep (copy_point (ec_curve_normalize_A24 (copy_curve curve)).A24) st ir.2
        (decide (ir.1 ≤ f + 2 + (BITS - TPE)))) (dblmulInit sfin.s0 P Q PQ)) := by
    rw [← hGm]
    apply hm
    simp [MainRelB, dblmulInit, mask, e0]
  obtain ⟨_, _, _, _, m0, m1, m2, _, _, _⟩ := hrel
  rw [m0, m1, m2]
  cases hbk : k.testBit 0 <;> cases hbl : l.testBit 0 <;> simp [dblmulOut, mask]

/-! ## DBLMUL / DBLMUL_generic -/

theorem bit_toNat_eq_one (b : Bool) : decide (b.toNat = 1) = b := by cases b <;> rfl

theorem DBLMUL_loop1_step (P Q PQ : JacPoint F) (curve : EcCurve F) (k l : Nat) (R : JacPoint F) (i : Nat) :
    SqiGen.DBLMUL_loop1 P Q curve k l PQ R i = jacDblmulStep P Q PQ curve R (k.testBit (63 - i), l.testBit (63 - i)) := by
  simp only [SqiGen.DBLMUL_loop1, jacDblmulStep, Nat.testBit_div_two_pow, Nat.add_zero, bit_toNat_eq_one]
  cases hk : k.testBit (63 - i) <;> cases hl : l.testBit (63 - i) <;> simp [hk, hl]

theorem rev64 : (List.range 64).map (fun i => 63 - i) = (List.range 64).reverse := by decide

theorem zip_map_map {α β γ : Type} (l : List α) (f : α → β) (g : α → γ) :
    (l.map f).zip (l.map g) = l.map (fun x => (f x, g x)) := by
  induction l with
  | nil => rfl
  | cons a l ih => simp [ih]

theorem zip_bitsMSB (n k l : Nat) :
    (bitsMSB n k).zip (bitsMSB n l) = (List.range n).reverse.map (fun j => (k.testBit j, l.testBit j)) := by
  simp only [bitsMSB, zip_map_map]

theorem DBLMUL_eq (P : JacPoint F) (k : Nat) (Q : JacPoint F) (l : Nat) (curve : EcCurve F) :
    SqiGen.DBLMUL P k Q l curve = jacDBLMUL 64 k l P Q curve := by
  simp only [SqiGen.DBLMUL, jacDBLMUL, zip_bitsMSB, ← rev64, List.map_map, List.foldl_map]
  congr 1
  funext R i
  exact DBLMUL_loop1_step P Q _ curve k l R i

theorem DBLMUL_generic_loop2_step (j : Nat) (P Q PQ : JacPoint F) (curve : EcCurve F) (k l : Nat) (R : JacPoint F)
    (i : Nat) (hi : i < 64) :
    SqiGen.DBLMUL_generic_loop2 j P Q curve k l PQ R i =
      jacDblmulStep P Q PQ curve R (k.testBit (64 * (j - 1) + (63 - i)), l.testBit (64 * (j - 1) + (63 - i))) := by
  have h63 : 63 - i < 64 := by omega
  have ew : ∀ x : Nat, ((x / 2 ^ (64 * (j - 1)) % 2 ^ 64) / 2 ^ (63 - i)).testBit 0 = x.testBit (64 * (j - 1) + (63 - i)) := by
    intro x
    rw [Nat.testBit_div_two_pow, Nat.zero_add, word_testBit _ _ _ h63]
  simp only [SqiGen.DBLMUL_generic_loop2, jacDblmulStep, ew, bit_toNat_eq_one]

theorem foldl_congr_mem {α β : Type} (f g : β → α → β) (l : List α) (h : ∀ s, ∀ a ∈ l, f s a = g s a) (s : β) :
    l.foldl f s = l.foldl g s := by
  induction l generalizing s with
  | nil => rfl
  | cons a l ih =>
    simp only [List.foldl_cons]
    rw [h s a (List.mem_cons_self ..)]
    exact ih (fun s b hb => h s b (List.mem_cons_of_mem _ hb)) _

theorem DBLMUL_generic_inner (j : Nat) (P Q PQ : JacPoint F) (curve : EcCurve F) (k l : Nat) (R : JacPoint F) :
    (List.range 64).foldl (SqiGen.DBLMUL_generic_loop2 j P Q curve k l PQ) R =
      ((List.range 64).reverse.map (fun b => (k.testBit (64 * (j - 1) + b), l.testBit (64 * (j - 1) + b)))).foldl
        (jacDblmulStep P Q PQ curve) R := by
  rw [← rev64, List.map_map, List.foldl_map]
  apply foldl_congr_mem
  intro R' i hi
  exact DBLMUL_generic_loop2_step j P Q PQ curve k l R' i (List.mem_range.mp hi)

theorem range_reverse_split (n : Nat) :
    (List.range (64 * (n + 1))).reverse = (List.range 64).reverse.map (fun b => 64 * n + b) ++ (List.range (64 * n)).reverse := by
  have e : 64 * (n + 1) = 64 * n + 64 := by omega
  rw [e, List.range_add, List.reverse_append, List.map_reverse]

theorem DBLMUL_generic_eq (P : JacPoint F) (k : Nat) (Q : JacPoint F) (l : Nat) (curve : EcCurve F) (size : Nat) :
    SqiGen.DBLMUL_generic P k Q l curve size = jacDBLMUL (64 * size) k l P Q curve := by
  simp only [SqiGen.DBLMUL_generic, jacDBLMUL, zip_bitsMSB]
  generalize ADD P Q curve = PQ
  generalize (jac_init : JacPoint F) = R
  induction size generalizing R with
  | zero => rfl
  | succ n ih =>
    rw [range_reverse_split, List.map_append, List.foldl_append, List.map_map]
    rw [List.range_succ, List.reverse_append, List.map_append, List.foldl_append]
    simp only [List.reverse_cons, List.reverse_nil, List.nil_append, List.map_cons, List.map_nil, List.foldl_cons,
      List.foldl_nil, SqiGen.DBLMUL_generic_loop1]
    rw [DBLMUL_generic_inner]
    simp only [Nat.add_sub_cancel]
    exact ih _

/-! ## ec_dbl_iter -/

theorem foldl_const_iter {α : Type} (f : α → α) (m : Nat) (x : α) :
    (List.range m).foldl (fun R (_ : Nat) => f R) x = iter f m x := by
  induction m generalizing x with
  | zero => rfl
  | succ m ih =>
    rw [List.range_succ_eq_map, List.foldl_cons, List.foldl_map]
    simp only [iter]
    exact ih (f x)

/-- generated `ec_dbl_iter` (count as a natural number) = hand model `dblIter` (signed count) -/
theorem ec_dbl_iter_eq (res : EcPoint F) (n : Nat) (curve : EcCurve F) (P : EcPoint F) :
    SqiGen.ec_dbl_iter res n curve P = dblIter res (n : Int) curve P := by
  have h1 : ∀ c : EcCurve F, SqiGen.ec_dbl_iter_loop1 c = fun R (_ : Nat) => xDBL_A24 R c.A24 := by
    intro c; funext R i; rfl
  have h2 : ∀ c : EcCurve F, SqiGen.ec_dbl_iter_loop2 c = fun R (_ : Nat) => ec_dbl c R := by
    intro c; funext R i; rfl
  have c1 : ((n : Int) > 0) = (n > 0) := by
    apply propext; constructor <;> intro h <;> omega
  have c2 : ((n : Int) > 50) = (n > 50) := by
    apply propext; constructor <;> intro h <;> omega
  simp only [SqiGen.ec_dbl_iter, dblIter, h1, h2, foldl_const_iter, Int.toNat_natCast, c1, c2]
  by_cases hn : n > 0
  · obtain ⟨m, rfl⟩ : ∃ m, n = m + 1 := ⟨n - 1, by omega⟩
    by_cases h50 : m + 1 > 50
    · simp [hn, h50, iter]
    · simp [hn, h50, iter]
      rfl
  · simp [hn]

end SqiProofs.LadderGen

import SqiProofs.LllOps
import Mathlib.Tactic.Ring
import Mathlib.Tactic.FieldSimp
import Mathlib.Tactic.Linarith
import Mathlib.Tactic.Positivity
import Mathlib.Algebra.Order.Field.Basic
import Mathlib.Algebra.Module.Pi
import Mathlib.Data.Rat.Cast.Order
/- C16 (2): soundness of the exact, division-free certificate checker `SqiModel.Lll.lllCheck`.

   The Gram-Schmidt quantities are DEFINED MATHEMATICALLY here, over ℚ, by the textbook recursion
     b*_i = b_i - Σ_{j<i} mu_ij b*_j,   mu_ij = <b_i, b*_j> / <b*_j, b*_j>
   for the form <x,y> = x0 y0 + x1 y1 + q (x2 y2 + x3 y3); the checker computes integers only. -/
namespace SqiProofs.LllCheck
open SqiModel.Quat SqiModel.Lll SqiProofs.LllOps

abbrev QV := Fin 4 → ℚ

/-- the norm form of the algebra on ℚ⁴ -/
def formQ (q : ℚ) (u v : QV) : ℚ := u 0 * v 0 + u 1 * v 1 + q * (u 2 * v 2 + u 3 * v 3)

/-- Gram-Schmidt coefficient of `b` along `g` -/
def proj (q : ℚ) (b g : QV) : ℚ := formQ q b g / formQ q g g

/-- Gram-Schmidt orthogonalisation of 4 vectors (textbook recursion) -/
def gs (q : ℚ) (b : Fin 4 → QV) : Fin 4 → QV
  | 0 => b 0
  | 1 => b 1 - proj q (b 1) (b 0) • b 0
  | 2 =>
    let g0 := b 0
    let g1 := b 1 - proj q (b 1) g0 • g0
    b 2 - proj q (b 2) g0 • g0 - proj q (b 2) g1 • g1
  | 3 =>
    let g0 := b 0
    let g1 := b 1 - proj q (b 1) g0 • g0
    let g2 := b 2 - proj q (b 2) g0 • g0 - proj q (b 2) g1 • g1
    b 3 - proj q (b 3) g0 • g0 - proj q (b 3) g1 • g1 - proj q (b 3) g2 • g2

/-- `mu_ij` -/
def mu (q : ℚ) (b : Fin 4 → QV) (i j : Fin 4) : ℚ := proj q (b i) (gs q b j)
/-- `B_i = |b*_i|^2` -/
def Bn (q : ℚ) (b : Fin 4 → QV) (i : Fin 4) : ℚ := formQ q (gs q b i) (gs q b i)

def SizeReduced (η q : ℚ) (b : Fin 4 → QV) : Prop := ∀ i j : Fin 4, j < i → |mu q b i j| ≤ η
def Lovasz (δ q : ℚ) (b : Fin 4 → QV) : Prop :=
  ∀ i : Fin 3, (δ - (mu q b i.succ i.castSucc) ^ 2) * Bn q b i.castSucc ≤ Bn q b i.succ

/-! ### bilinearity -/
theorem formQ_smul_left (q a : ℚ) (u v : QV) : formQ q (a • u) v = a * formQ q u v := by
  simp only [formQ, Pi.smul_apply, smul_eq_mul]; ring
theorem formQ_smul_right (q a : ℚ) (u v : QV) : formQ q u (a • v) = a * formQ q u v := by
  simp only [formQ, Pi.smul_apply, smul_eq_mul]; ring
theorem formQ_sub_left (q : ℚ) (u v w : QV) : formQ q (u - v) w = formQ q u w - formQ q v w := by
  simp only [formQ, Pi.sub_apply]; ring
theorem formQ_sub_right (q : ℚ) (u v w : QV) : formQ q u (v - w) = formQ q u v - formQ q u w := by
  simp only [formQ, Pi.sub_apply]; ring
theorem formQ_comm (q : ℚ) (u v : QV) : formQ q u v = formQ q v u := by
  simp only [formQ]; ring

/-- the Gram-Schmidt step is insensitive to the scaling of the earlier orthogonal vector -/
theorem proj_smul (q : ℚ) (b c : QV) (s : ℚ) (hs : s ≠ 0) :
    proj q b (s⁻¹ • c) • (s⁻¹ • c) = (formQ q b c / formQ q c c) • c := by
  unfold proj
  rw [formQ_smul_right, formQ_smul_left, formQ_smul_right, smul_smul]
  congr 1
  by_cases hc : formQ q c c = 0
  · simp [hc]
  · field_simp

/-! ### casts from the integer model -/
def vq (v : Vec4) : QV := fun k => (getF v k : ℚ)

theorem vq_sub (u v : Vec4) : vq (u.sub v) = vq u - vq v := by
  funext k
  rcases fin4_cases k with rfl | rfl | rfl | rfl <;> simp [vq, getF, Vec4.sub]

theorem vq_sm (a : Int) (u : Vec4) : vq (sm a u) = (a : ℚ) • vq u := by
  funext k
  rcases fin4_cases k with rfl | rfl | rfl | rfl <;> simp [vq, getF, sm]

theorem form_cast (q : Int) (u v : Vec4) : formQ (q : ℚ) (vq u) (vq v) = ((form q u v : Int) : ℚ) := by
  simp only [formQ, vq, getF, form]; push_cast; ring

/-! ### the integer data are the scaled Gram-Schmidt vectors -/
section data
variable (q : Int) (m : Mat4)

/-- the rows of `m` as rational vectors -/
def rowsQ (m : Mat4) : Fin 4 → QV := fun i => vq (getRow m i)

theorem gs0_eq : gs q (rowsQ m) 0 = vq (gsData q m).c0 := rfl

theorem gs1_eq (h0 : (gsData q m).n0 ≠ 0) :
    gs q (rowsQ m) 1 = ((gsData q m).n0 : ℚ)⁻¹ • vq (gsData q m).c1 := by
  have h0' : ((gsData q m).n0 : ℚ) ≠ 0 := by exact_mod_cast h0
  have hN : formQ q (vq m.r0) (vq m.r0) = ((gsData q m).n0 : ℚ) := by rw [form_cast]; rfl
  have hT : formQ q (vq m.r1) (vq m.r0) = ((gsData q m).t10 : ℚ) := by rw [form_cast]; rfl
  have hc : vq (gsData q m).c1 = ((gsData q m).n0 : ℚ) • vq m.r1 - ((gsData q m).t10 : ℚ) • vq m.r0 := by
    show vq ((sm _ m.r1).sub (sm _ m.r0)) = _
    rw [vq_sub, vq_sm, vq_sm]; rfl
  show vq m.r1 - proj q (vq m.r1) (vq m.r0) • vq m.r0 = _
  rw [hc, proj, hT, hN]
  funext k
  simp only [Pi.sub_apply, Pi.smul_apply, smul_eq_mul]
  field_simp


theorem gs2_eq (h0 : (gsData q m).n0 ≠ 0) (h1 : (gsData q m).n1 ≠ 0) :
    gs q (rowsQ m) 2 = (((gsData q m).n0 : ℚ) * (gsData q m).n1)⁻¹ • vq (gsData q m).c2 := by
  have h0' : ((gsData q m).n0 : ℚ) ≠ 0 := by exact_mod_cast h0
  have h1' : ((gsData q m).n1 : ℚ) ≠ 0 := by exact_mod_cast h1
  have hN0 : formQ q (vq m.r0) (vq m.r0) = ((gsData q m).n0 : ℚ) := by rw [form_cast]; rfl
  have hN1 : formQ q (vq (gsData q m).c1) (vq (gsData q m).c1) = ((gsData q m).n1 : ℚ) := by rw [form_cast]; rfl
  have hT0 : formQ q (vq m.r2) (vq m.r0) = ((gsData q m).t20 : ℚ) := by rw [form_cast]; rfl
  have hT1 : formQ q (vq m.r2) (vq (gsData q m).c1) = ((gsData q m).t21 : ℚ) := by rw [form_cast]; rfl
  have hc : vq (gsData q m).c2 = (((gsData q m).n0 : ℚ) * (gsData q m).n1) • vq m.r2
      - (((gsData q m).t20 : ℚ) * (gsData q m).n1) • vq m.r0 - (((gsData q m).t21 : ℚ) * (gsData q m).n0) • vq (gsData q m).c1 := by
    show vq (((sm _ m.r2).sub (sm _ m.r0)).sub (sm _ (gsData q m).c1)) = _
    rw [vq_sub, vq_sub, vq_sm, vq_sm, vq_sm]; push_cast; rfl
  have e1 := gs1_eq q m h0
  show vq m.r2 - proj q (vq m.r2) (vq m.r0) • vq m.r0
      - proj q (vq m.r2) (vq m.r1 - proj q (vq m.r1) (vq m.r0) • vq m.r0) • (vq m.r1 - proj q (vq m.r1) (vq m.r0) • vq m.r0) = _
  have e1' : vq m.r1 - proj q (vq m.r1) (vq m.r0) • vq m.r0 = ((gsData q m).n0 : ℚ)⁻¹ • vq (gsData q m).c1 := e1
  rw [e1', proj_smul q _ _ _ h0', hc, proj, hT0, hN0, hT1, hN1]
  funext k
  simp only [Pi.sub_apply, Pi.smul_apply, smul_eq_mul]
  field_simp

theorem gs3_eq (h0 : (gsData q m).n0 ≠ 0) (h1 : (gsData q m).n1 ≠ 0) (h2 : (gsData q m).n2 ≠ 0) :
    gs q (rowsQ m) 3 = (((gsData q m).n0 : ℚ) * (gsData q m).n1 * (gsData q m).n2)⁻¹ • vq (gsData q m).c3 := by
  have h0' : ((gsData q m).n0 : ℚ) ≠ 0 := by exact_mod_cast h0
  have h1' : ((gsData q m).n1 : ℚ) ≠ 0 := by exact_mod_cast h1
  have h2' : ((gsData q m).n2 : ℚ) ≠ 0 := by exact_mod_cast h2
  have h01 : ((gsData q m).n0 : ℚ) * (gsData q m).n1 ≠ 0 := mul_ne_zero h0' h1'
  have hN0 : formQ q (vq m.r0) (vq m.r0) = ((gsData q m).n0 : ℚ) := by rw [form_cast]; rfl
  have hN1 : formQ q (vq (gsData q m).c1) (vq (gsData q m).c1) = ((gsData q m).n1 : ℚ) := by rw [form_cast]; rfl
  have hN2 : formQ q (vq (gsData q m).c2) (vq (gsData q m).c2) = ((gsData q m).n2 : ℚ) := by rw [form_cast]; rfl
  have hT0 : formQ q (vq m.r3) (vq m.r0) = ((gsData q m).t30 : ℚ) := by rw [form_cast]; rfl
  have hT1 : formQ q (vq m.r3) (vq (gsData q m).c1) = ((gsData q m).t31 : ℚ) := by rw [form_cast]; rfl
  have hT2 : formQ q (vq m.r3) (vq (gsData q m).c2) = ((gsData q m).t32 : ℚ) := by rw [form_cast]; rfl
  have hc : vq (gsData q m).c3 = (((gsData q m).n0 : ℚ) * (gsData q m).n1 * (gsData q m).n2) • vq m.r3
      - (((gsData q m).t30 : ℚ) * ((gsData q m).n1 * (gsData q m).n2)) • vq m.r0
      - (((gsData q m).t31 : ℚ) * ((gsData q m).n0 * (gsData q m).n2)) • vq (gsData q m).c1
      - (((gsData q m).t32 : ℚ) * ((gsData q m).n0 * (gsData q m).n1)) • vq (gsData q m).c2 := by
    show vq ((((sm _ m.r3).sub (sm _ m.r0)).sub (sm _ (gsData q m).c1)).sub (sm _ (gsData q m).c2)) = _
    rw [vq_sub, vq_sub, vq_sub, vq_sm, vq_sm, vq_sm, vq_sm]; push_cast; rfl
  have e1 : vq m.r1 - proj q (vq m.r1) (vq m.r0) • vq m.r0 = ((gsData q m).n0 : ℚ)⁻¹ • vq (gsData q m).c1 := gs1_eq q m h0
  have e2 : vq m.r2 - proj q (vq m.r2) (vq m.r0) • vq m.r0
      - proj q (vq m.r2) (vq m.r1 - proj q (vq m.r1) (vq m.r0) • vq m.r0) • (vq m.r1 - proj q (vq m.r1) (vq m.r0) • vq m.r0)
      = (((gsData q m).n0 : ℚ) * (gsData q m).n1)⁻¹ • vq (gsData q m).c2 := gs2_eq q m h0 h1
  show vq m.r3 - proj q (vq m.r3) (vq m.r0) • vq m.r0
      - proj q (vq m.r3) (vq m.r1 - proj q (vq m.r1) (vq m.r0) • vq m.r0) • (vq m.r1 - proj q (vq m.r1) (vq m.r0) • vq m.r0)
      - proj q (vq m.r3) (vq m.r2 - proj q (vq m.r2) (vq m.r0) • vq m.r0
          - proj q (vq m.r2) (vq m.r1 - proj q (vq m.r1) (vq m.r0) • vq m.r0) • (vq m.r1 - proj q (vq m.r1) (vq m.r0) • vq m.r0))
        • (vq m.r2 - proj q (vq m.r2) (vq m.r0) • vq m.r0
          - proj q (vq m.r2) (vq m.r1 - proj q (vq m.r1) (vq m.r0) • vq m.r0) • (vq m.r1 - proj q (vq m.r1) (vq m.r0) • vq m.r0)) = _
  rw [e2, e1, proj_smul q _ _ _ h0', proj_smul q _ _ _ h01, hc, proj, hT0, hN0, hT1, hN1, hT2, hN2]
  funext k
  simp only [Pi.sub_apply, Pi.smul_apply, smul_eq_mul]
  field_simp

end data


/-! ### values of `mu` and `B` in terms of the integer data -/
theorem proj_scaled (q : ℚ) (b c : QV) (s : ℚ) (hs : s ≠ 0) :
    proj q b (s⁻¹ • c) = formQ q b c * s / formQ q c c := by
  unfold proj
  rw [formQ_smul_right, formQ_smul_left, formQ_smul_right]
  by_cases hc : formQ q c c = 0
  · simp [hc]
  · field_simp

theorem norm_scaled (q : ℚ) (c : QV) (s : ℚ) (hs : s ≠ 0) :
    formQ q (s⁻¹ • c) (s⁻¹ • c) = formQ q c c / s ^ 2 := by
  rw [formQ_smul_left, formQ_smul_right]
  field_simp

theorem iabs_cast (a : Int) : ((iabs a : Int) : ℚ) = |(a : ℚ)| := by
  unfold iabs
  split
  · rename_i h
    have : (a : ℚ) < 0 := by exact_mod_cast h
    rw [abs_of_neg this]; push_cast; ring
  · rename_i h
    have : (0 : ℚ) ≤ a := by exact_mod_cast (not_lt.mp h)
    rw [abs_of_nonneg this]

theorem sizeOk_sound {en ed t s n : Int} (h : sizeOk en ed t s n = true) (hn : 0 < n) (hed : 0 < ed) :
    |(t : ℚ) * s / n| ≤ (en : ℚ) / ed := by
  have h' : iabs (t * s) * ed ≤ en * n := by simpa [sizeOk] using h
  have hq : |(t : ℚ) * s| * ed ≤ en * n := by
    have := (Int.cast_le (R := ℚ)).mpr h'
    rw [Int.cast_mul, iabs_cast] at this
    push_cast at this
    exact this
  have hn' : (0 : ℚ) < n := by exact_mod_cast hn
  have hed' : (0 : ℚ) < ed := by exact_mod_cast hed
  rw [abs_div, abs_of_pos hn', div_le_div_iff₀ hn' hed']
  exact hq

theorem lovaszOk_sound {dn dd ni t s p : Int} (h : lovaszOk dn dd ni t s p = true) (hp : 0 < p) (hs : 0 < s)
    (hdd : 0 < dd) :
    ((dn : ℚ) / dd - ((t : ℚ) * s / p) ^ 2) * ((p : ℚ) / (s : ℚ) ^ 2) ≤ (ni : ℚ) / ((s : ℚ) * p) ^ 2 := by
  have h' : dn * (p * p * p) - dd * (t * t) * (s * s) * p ≤ dd * ni := by simpa [lovaszOk] using h
  have hq : (dn : ℚ) * (p * p * p) - dd * (t * t) * (s * s) * p ≤ dd * ni := by exact_mod_cast h'
  have hp' : (0 : ℚ) < p := by exact_mod_cast hp
  have hs' : (0 : ℚ) < s := by exact_mod_cast hs
  have hdd' : (0 : ℚ) < dd := by exact_mod_cast hdd
  have e1 : ((dn : ℚ) / dd - ((t : ℚ) * s / p) ^ 2) * ((p : ℚ) / (s : ℚ) ^ 2)
      = ((dn : ℚ) * (p * p * p) - dd * (t * t) * (s * s) * p) / (dd * ((s : ℚ) * p) ^ 2) := by
    field_simp
  have e2 : (ni : ℚ) / ((s : ℚ) * p) ^ 2 = (dd * ni) / (dd * ((s : ℚ) * p) ^ 2) := by
    field_simp
  rw [e1, e2]
  exact div_le_div_of_nonneg_right hq (by positivity)


theorem mu_of (q : ℚ) (b : Fin 4 → QV) (i j : Fin 4) (s : ℚ) (c : QV) (hs : s ≠ 0) (hg : gs q b j = s⁻¹ • c) :
    mu q b i j = formQ q (b i) c * s / formQ q c c := by
  unfold mu; rw [hg, proj_scaled _ _ _ _ hs]

theorem Bn_of (q : ℚ) (b : Fin 4 → QV) (i : Fin 4) (s : ℚ) (c : QV) (hs : s ≠ 0) (hg : gs q b i = s⁻¹ • c) :
    Bn q b i = formQ q c c / s ^ 2 := by
  unfold Bn; rw [hg, norm_scaled _ _ _ hs]

/-- soundness of the reducedness part of the checker (rows of `m`) -/
theorem reducedRows_sound {dn dd en ed q : Int} {m : Mat4} (h : reducedRows dn dd en ed q m = true)
    (hdd : 0 < dd) (hed : 0 < ed) :
    (∀ i : Fin 4, 0 < Bn q (rowsQ m) i) ∧ SizeReduced ((en : ℚ) / ed) q (rowsQ m) ∧
      Lovasz ((dn : ℚ) / dd) q (rowsQ m) := by
  simp only [reducedRows, Bool.and_eq_true, GS.pos, GS.sizeReduced, GS.lovasz, decide_eq_true_eq] at h
  obtain ⟨⟨⟨⟨⟨p0, p1⟩, p2⟩, p3⟩, ⟨⟨⟨⟨⟨s10, s20⟩, s21⟩, s30⟩, s31⟩, s32⟩⟩, ⟨⟨l1, l2⟩, l3⟩⟩ := h
  have h0 : (gsData q m).n0 ≠ 0 := ne_of_gt p0
  have h1 : (gsData q m).n1 ≠ 0 := ne_of_gt p1
  have h2 : (gsData q m).n2 ≠ 0 := ne_of_gt p2
  have q0 : (0 : ℚ) < (gsData q m).n0 := by exact_mod_cast p0
  have q1 : (0 : ℚ) < (gsData q m).n1 := by exact_mod_cast p1
  have q2 : (0 : ℚ) < (gsData q m).n2 := by exact_mod_cast p2
  have q3 : (0 : ℚ) < (gsData q m).n3 := by exact_mod_cast p3
  -- the scaled Gram-Schmidt vectors
  have g0 : gs q (rowsQ m) 0 = (((1 : Int) : ℚ))⁻¹ • vq (gsData q m).c0 := by
    rw [Int.cast_one, inv_one, one_smul]; rfl
  have g1 := gs1_eq q m h0
  have g2 := gs2_eq q m h0 h1
  have g3 := gs3_eq q m h0 h1 h2
  have one_ne : (((1 : Int) : ℚ)) ≠ 0 := by norm_num
  have n01 : ((gsData q m).n0 : ℚ) * (gsData q m).n1 ≠ 0 := by positivity
  have n012 : ((gsData q m).n0 : ℚ) * (gsData q m).n1 * (gsData q m).n2 ≠ 0 := by positivity
  -- norms
  have N0 : formQ q (vq (gsData q m).c0) (vq (gsData q m).c0) = ((gsData q m).n0 : ℚ) := form_cast q _ _
  have N1 : formQ q (vq (gsData q m).c1) (vq (gsData q m).c1) = ((gsData q m).n1 : ℚ) := form_cast q _ _
  have N2 : formQ q (vq (gsData q m).c2) (vq (gsData q m).c2) = ((gsData q m).n2 : ℚ) := form_cast q _ _
  have N3 : formQ q (vq (gsData q m).c3) (vq (gsData q m).c3) = ((gsData q m).n3 : ℚ) := form_cast q _ _
  have B0 : Bn q (rowsQ m) 0 = ((gsData q m).n0 : ℚ) / (((1 : Int) : ℚ)) ^ 2 := by rw [Bn_of _ _ _ _ _ one_ne g0, N0]
  have B1 : Bn q (rowsQ m) 1 = ((gsData q m).n1 : ℚ) / ((gsData q m).n0 : ℚ) ^ 2 := by
    rw [Bn_of _ _ _ _ _ (ne_of_gt q0) g1, N1]
  have B2 : Bn q (rowsQ m) 2 = ((gsData q m).n2 : ℚ) / (((gsData q m).n0 : ℚ) * (gsData q m).n1) ^ 2 := by
    rw [Bn_of _ _ _ _ _ n01 g2, N2]
  have B3 : Bn q (rowsQ m) 3
      = ((gsData q m).n3 : ℚ) / (((gsData q m).n0 : ℚ) * (gsData q m).n1 * (gsData q m).n2) ^ 2 := by
    rw [Bn_of _ _ _ _ _ n012 g3, N3]
  -- coefficients
  have M10 : mu q (rowsQ m) 1 0 = ((gsData q m).t10 : ℚ) * ((1 : Int) : ℚ) / (gsData q m).n0 := by
    rw [mu_of _ _ 1 0 _ _ one_ne g0, N0]; exact congrArg (fun x => x * _ / _) (form_cast q m.r1 _)
  have M20 : mu q (rowsQ m) 2 0 = ((gsData q m).t20 : ℚ) * ((1 : Int) : ℚ) / (gsData q m).n0 := by
    rw [mu_of _ _ 2 0 _ _ one_ne g0, N0]; exact congrArg (fun x => x * _ / _) (form_cast q m.r2 _)
  have M30 : mu q (rowsQ m) 3 0 = ((gsData q m).t30 : ℚ) * ((1 : Int) : ℚ) / (gsData q m).n0 := by
    rw [mu_of _ _ 3 0 _ _ one_ne g0, N0]; exact congrArg (fun x => x * _ / _) (form_cast q m.r3 _)
  have M21 : mu q (rowsQ m) 2 1 = ((gsData q m).t21 : ℚ) * (gsData q m).n0 / (gsData q m).n1 := by
    rw [mu_of _ _ 2 1 _ _ (ne_of_gt q0) g1, N1]; exact congrArg (fun x => x * _ / _) (form_cast q m.r2 _)
  have M31 : mu q (rowsQ m) 3 1 = ((gsData q m).t31 : ℚ) * (gsData q m).n0 / (gsData q m).n1 := by
    rw [mu_of _ _ 3 1 _ _ (ne_of_gt q0) g1, N1]; exact congrArg (fun x => x * _ / _) (form_cast q m.r3 _)
  have M32 : mu q (rowsQ m) 3 2
      = ((gsData q m).t32 : ℚ) * (((gsData q m).n0 : ℚ) * (gsData q m).n1) / (gsData q m).n2 := by
    rw [mu_of _ _ 3 2 _ _ n01 g2, N2]; exact congrArg (fun x => x * _ / _) (form_cast q m.r3 _)
  have p01 : 0 < (gsData q m).n0 * (gsData q m).n1 := Int.mul_pos p0 p1
  refine ⟨?_, ?_, ?_⟩
  · intro i
    rcases fin4_cases i with rfl | rfl | rfl | rfl
    · rw [B0]; positivity
    · rw [B1]; positivity
    · rw [B2]; positivity
    · rw [B3]; positivity
  · intro i j hij
    rcases fin4_cases i with rfl | rfl | rfl | rfl <;> rcases fin4_cases j with rfl | rfl | rfl | rfl <;>
      first
      | (exfalso; revert hij; decide)
      | (rw [M10]; exact sizeOk_sound s10 p0 hed)
      | (rw [M20]; exact sizeOk_sound s20 p0 hed)
      | (rw [M30]; exact sizeOk_sound s30 p0 hed)
      | (rw [M21]; exact sizeOk_sound s21 p1 hed)
      | (rw [M31]; exact sizeOk_sound s31 p1 hed)
      | (rw [M32]; have := sizeOk_sound s32 p2 hed; push_cast at this; exact this)
  · intro i
    have hi : i = 0 ∨ i = 1 ∨ i = 2 := by omega
    rcases hi with rfl | rfl | rfl
    · show (_ - (mu q (rowsQ m) 1 0) ^ 2) * Bn q (rowsQ m) 0 ≤ Bn q (rowsQ m) 1
      rw [M10, B0, B1]
      have := lovaszOk_sound l1 p0 Int.one_pos hdd
      calc _ = _ := by ring
        _ ≤ _ := this
        _ = _ := by push_cast; ring
    · show (_ - (mu q (rowsQ m) 2 1) ^ 2) * Bn q (rowsQ m) 1 ≤ Bn q (rowsQ m) 2
      rw [M21, B1, B2]
      exact lovaszOk_sound l2 p1 p0 hdd
    · show (_ - (mu q (rowsQ m) 3 2) ^ 2) * Bn q (rowsQ m) 2 ≤ Bn q (rowsQ m) 3
      rw [M32, B2, B3]
      have := lovaszOk_sound l3 p2 p01 hdd
      push_cast at this
      exact this


/-! ### same lattice -/
theorem rowsIn_sound {a b : Mat4} (h : rowsIn a b = true) : ∃ x : Mat4, b = x.mul a :=
  ⟨solveLeft a b, (eq_of_beq h).symm⟩

theorem sameRowLattice_sound {a b : Mat4} (h : sameRowLattice a b = true) : rowSpan (toM b) = rowSpan (toM a) := by
  simp only [sameRowLattice, Bool.and_eq_true] at h
  obtain ⟨x, hx⟩ := rowsIn_sound h.1
  obtain ⟨y, hy⟩ := rowsIn_sound h.2
  exact rowSpan_eq_of_mul (toM x) (toM y) (toM a) (toM b) (by rw [← toM_mul, ← hx]) (by rw [← toM_mul, ← hy])

/-- the columns of `m` as rational vectors: `colsQ m i k = m[k][i]` -/
def colsQ (m : Mat4) : Fin 4 → QV := fun i k => ((toM m k i : ℤ) : ℚ)

theorem colsQ_eq (m : Mat4) : colsQ m = rowsQ m.transpose := by
  obtain ⟨⟨a00, a01, a02, a03⟩, ⟨a10, a11, a12, a13⟩, ⟨a20, a21, a22, a23⟩, ⟨a30, a31, a32, a33⟩⟩ := m
  funext i k
  rcases fin4_cases i with rfl | rfl | rfl | rfl <;> rcases fin4_cases k with rfl | rfl | rfl | rfl <;> rfl

/-! ### the classical consequence of (delta, eta)-reducedness -/
theorem lovasz_chain {δ η q : ℚ} {b : Fin 4 → QV} (hS : SizeReduced η q b) (hL : Lovasz δ q b)
    (hpos : ∀ i, 0 < Bn q b i) (i : Fin 3) : (δ - η ^ 2) * Bn q b i.castSucc ≤ Bn q b i.succ := by
  have hm : |mu q b i.succ i.castSucc| ≤ η := hS _ _ (by
    rw [Fin.lt_def]; simp)
  have hsq : (mu q b i.succ i.castSucc) ^ 2 ≤ η ^ 2 := by
    rw [← sq_abs]; exact pow_le_pow_left₀ (abs_nonneg _) hm 2
  have := hL i
  have hp := hpos i.castSucc
  nlinarith

/-- `|b_0|^2 (delta - eta^2)^i ≤ B_i`: the first reduced vector is short compared with every Gram-Schmidt norm -/
theorem first_vector_le {δ η q : ℚ} {b : Fin 4 → QV} (hS : SizeReduced η q b) (hL : Lovasz δ q b)
    (hpos : ∀ i, 0 < Bn q b i) (hη : η ^ 2 < δ) (i : Fin 4) :
    (δ - η ^ 2) ^ (i : ℕ) * formQ q (b 0) (b 0) ≤ Bn q b i := by
  have c0 : 0 < δ - η ^ 2 := by linarith
  have e0 : formQ q (b 0) (b 0) = Bn q b 0 := rfl
  have s1 := lovasz_chain hS hL hpos 0
  have s2 := lovasz_chain hS hL hpos 1
  have s3 := lovasz_chain hS hL hpos 2
  have r1 : (δ - η ^ 2) * Bn q b 0 ≤ Bn q b 1 := s1
  have r2 : (δ - η ^ 2) * Bn q b 1 ≤ Bn q b 2 := s2
  have r3 : (δ - η ^ 2) * Bn q b 2 ≤ Bn q b 3 := s3
  rw [e0]
  rcases fin4_cases i with rfl | rfl | rfl | rfl
  · simp
  · simpa using r1
  · have : (δ - η ^ 2) * ((δ - η ^ 2) * Bn q b 0) ≤ (δ - η ^ 2) * Bn q b 1 := mul_le_mul_of_nonneg_left r1 c0.le
    have e : (δ - η ^ 2) ^ ((2 : Fin 4) : ℕ) * Bn q b 0 = (δ - η ^ 2) * ((δ - η ^ 2) * Bn q b 0) := by
      show (δ - η ^ 2) ^ 2 * _ = _; ring
    rw [e]; linarith
  · have t1 : (δ - η ^ 2) * ((δ - η ^ 2) * Bn q b 0) ≤ (δ - η ^ 2) * Bn q b 1 := mul_le_mul_of_nonneg_left r1 c0.le
    have t2 : (δ - η ^ 2) * ((δ - η ^ 2) * ((δ - η ^ 2) * Bn q b 0)) ≤ (δ - η ^ 2) * ((δ - η ^ 2) * Bn q b 1) :=
      mul_le_mul_of_nonneg_left t1 c0.le
    have t3 : (δ - η ^ 2) * ((δ - η ^ 2) * Bn q b 1) ≤ (δ - η ^ 2) * Bn q b 2 := mul_le_mul_of_nonneg_left r2 c0.le
    have e : (δ - η ^ 2) ^ ((3 : Fin 4) : ℕ) * Bn q b 0 = (δ - η ^ 2) * ((δ - η ^ 2) * ((δ - η ^ 2) * Bn q b 0)) := by
      show (δ - η ^ 2) ^ 3 * _ = _; ring
    rw [e]; linarith

/-- product form: `|b_0|^8 (delta - eta^2)^6 ≤ B_0 B_1 B_2 B_3` (the right-hand side is the Gram determinant
    `q^2 det(B)^2` of the lattice — that identification is classical and NOT proved here) -/
theorem first_vector_pow_le {δ η q : ℚ} {b : Fin 4 → QV} (hS : SizeReduced η q b) (hL : Lovasz δ q b)
    (hpos : ∀ i, 0 < Bn q b i) (hη : η ^ 2 < δ) :
    (δ - η ^ 2) ^ 6 * (formQ q (b 0) (b 0)) ^ 4 ≤ Bn q b 0 * Bn q b 1 * Bn q b 2 * Bn q b 3 := by
  have c0 : 0 < δ - η ^ 2 := by linarith
  have n0 : 0 < formQ q (b 0) (b 0) := hpos 0
  have a0 := first_vector_le hS hL hpos hη 0
  have a1 := first_vector_le hS hL hpos hη 1
  have a2 := first_vector_le hS hL hpos hη 2
  have a3 := first_vector_le hS hL hpos hη 3
  have e : (δ - η ^ 2) ^ 6 * (formQ q (b 0) (b 0)) ^ 4
      = ((δ - η ^ 2) ^ ((0 : Fin 4) : ℕ) * formQ q (b 0) (b 0)) * ((δ - η ^ 2) ^ ((1 : Fin 4) : ℕ) * formQ q (b 0) (b 0))
        * ((δ - η ^ 2) ^ ((2 : Fin 4) : ℕ) * formQ q (b 0) (b 0)) * ((δ - η ^ 2) ^ ((3 : Fin 4) : ℕ) * formQ q (b 0) (b 0)) := by
    show _ = ((δ - η ^ 2) ^ 0 * _) * ((δ - η ^ 2) ^ 1 * _) * ((δ - η ^ 2) ^ 2 * _) * ((δ - η ^ 2) ^ 3 * _)
    ring
  rw [e]
  have p0 : 0 ≤ (δ - η ^ 2) ^ ((0 : Fin 4) : ℕ) * formQ q (b 0) (b 0) := by positivity
  have p1 : 0 ≤ (δ - η ^ 2) ^ ((1 : Fin 4) : ℕ) * formQ q (b 0) (b 0) := by positivity
  have p2 : 0 ≤ (δ - η ^ 2) ^ ((2 : Fin 4) : ℕ) * formQ q (b 0) (b 0) := by positivity
  have p3 : 0 ≤ (δ - η ^ 2) ^ ((3 : Fin 4) : ℕ) * formQ q (b 0) (b 0) := by positivity
  have b0 := (hpos 0).le
  have b1 := (hpos 1).le
  have b2 := (hpos 2).le
  exact mul_le_mul (mul_le_mul (mul_le_mul a0 a1 p1 b0) a2 p2 (mul_nonneg b0 b1)) a3 p3
    (mul_nonneg (mul_nonneg b0 b1) b2)

end SqiProofs.LllCheck

import SqiModel.Dim2
import Mathlib.Tactic.Ring
import Mathlib.Tactic.Linarith
/- C16 (3),(4): the exact-integer dimension-2 routines of dim2.c and the decision logic of `sample_response`. -/
namespace SqiProofs.LllDim2
open SqiModel.Quat SqiModel.Dim2

/-! ### 2x2 integer matrices acting on column pairs -/
def mul2 (a b : M2) : M2 :=
  ⟨a.a00 * b.a00 + a.a01 * b.a10, a.a00 * b.a01 + a.a01 * b.a11,
   a.a10 * b.a00 + a.a11 * b.a10, a.a10 * b.a01 + a.a11 * b.a11⟩

def one2 : M2 := ⟨1, 0, 0, 1⟩

theorem m2_ext {a b : M2} (h0 : a.a00 = b.a00) (h1 : a.a01 = b.a01) (h2 : a.a10 = b.a10) (h3 : a.a11 = b.a11) : a = b := by
  cases a; cases b; simp_all

theorem mul2_assoc (a b c : M2) : mul2 (mul2 a b) c = mul2 a (mul2 b c) := by
  simp only [mul2]; apply m2_ext <;> ring

theorem mul2_one (a : M2) : mul2 a one2 = a := by
  simp only [mul2, one2]; apply m2_ext <;> ring

theorem det_mul2 (a b : M2) : (mul2 a b).det = a.det * b.det := by
  simp only [mul2, M2.det]; ring

/-- `Unimod u`: det u = ±1 -/
def Unimod (u : M2) : Prop := u.det = 1 ∨ u.det = -1

theorem unimod_mul {u v : M2} (hu : Unimod u) (hv : Unimod v) : Unimod (mul2 u v) := by
  unfold Unimod at *
  rw [det_mul2]
  rcases hu with h | h <;> rcases hv with h' | h' <;> rw [h, h'] <;> simp

/-- the pair of columns `(a, b)` is the image of the basis `m` under a unimodular integer matrix -/
def Rel (m : M2) (a b : V2) : Prop := ∃ u : M2, M2.ofCols a b = mul2 m u ∧ Unimod u

theorem rel_step {m : M2} {a b : V2} (h : Rel m a b) (r : Int) : Rel m b (a.sub (V2.smul r b)) := by
  obtain ⟨u, hu, hd⟩ := h
  refine ⟨mul2 u ⟨0, 1, 1, -r⟩, ?_, unimod_mul hd (Or.inr (by simp [M2.det]))⟩
  rw [← mul2_assoc, ← hu]
  simp only [mul2, M2.ofCols, V2.sub, V2.smul]; apply m2_ext <;> ring

theorem rel_swap {m : M2} {a b : V2} (h : Rel m a b) : Rel m b a := by
  obtain ⟨u, hu, hd⟩ := h
  refine ⟨mul2 u ⟨0, 1, 1, 0⟩, ?_, unimod_mul hd (Or.inr (by simp [M2.det]))⟩
  rw [← mul2_assoc, ← hu]
  simp only [mul2, M2.ofCols]; apply m2_ext <;> ring

theorem rel_init (q : Int) (m : M2) : Rel m (sbInit q m).a (sbInit q m).b := by
  have h0 : Rel m m.col0 m.col1 := ⟨one2, by rw [mul2_one]; rfl, Or.inl (by simp [one2, M2.det])⟩
  simp only [sbInit]
  split
  · exact rel_swap h0
  · exact h0

theorem rel_loop (q : Int) (m : M2) : ∀ (fuel : Nat) (s : SBState) (e : SBExit),
    sbLoop q fuel s = some e → Rel m s.a s.b → Rel m e.st.a e.st.b := by
  intro fuel
  induction fuel with
  | zero => intro s e h; simp [sbLoop] at h
  | succ n ih =>
    intro s e h hr
    simp only [sbLoop] at h
    split at h
    · simp at h
    · split at h
      · exact ih _ e h (rel_step hr _)
      · simp only [Option.some.injEq] at h
        subst h; exact hr

theorem rel_finish {m : M2} (e : SBExit) (h : Rel m e.st.a e.st.b) :
    ∃ u : M2, sbFinish e = mul2 m u ∧ Unimod u := by
  unfold sbFinish
  split
  · exact rel_step h e.r
  · exact rel_swap h

/-- **short_basis keeps the lattice**: whenever the routine returns, the output columns are the input columns times
    a unimodular integer matrix. -/
theorem shortBasis_unimodular {q : Int} {m r : M2} (h : shortBasis q m = some r) :
    ∃ u : M2, r = mul2 m u ∧ Unimod u := by
  unfold shortBasis at h
  cases hl : sbLoop q (shortBasisFuel q m) (sbInit q m) with
  | none => rw [hl] at h; simp at h
  | some e =>
    rw [hl] at h
    simp only [Option.map_some, Option.some.injEq] at h
    subst h
    exact rel_finish e (rel_loop q m _ _ e hl (rel_init q m))

/-! ### norms tracked by the loop are the norms of the tracked vectors; ordering of the output -/
def NormsOK (q : Int) (s : SBState) : Prop := s.na = normV q s.a ∧ s.nb = normV q s.b ∧ s.nb ≤ s.na

theorem normsOK_init (q : Int) (m : M2) : NormsOK q (sbInit q m) := by
  simp only [sbInit]
  split
  · rename_i h; exact ⟨rfl, rfl, Int.le_of_lt h⟩
  · rename_i h; exact ⟨rfl, rfl, Int.not_lt.mp h⟩

theorem norm_sub_smul (q : Int) (a b : V2) (r : Int) :
    normV q (a.sub (V2.smul r b)) = normV q a - 2 * bilV q a b * r + r * r * normV q b := by
  simp only [normV, bilV, norm, bil, V2.sub, V2.smul]; ring

theorem normsOK_loop (q : Int) : ∀ (fuel : Nat) (s : SBState) (e : SBExit),
    sbLoop q fuel s = some e → NormsOK q s →
      NormsOK q e.st ∧ e.st.nb ≠ 0 ∧ e.r = roundedDiv (bilV q e.st.a e.st.b) e.st.nb ∧
      e.nt = normV q (e.st.a.sub (V2.smul e.r e.st.b)) ∧ e.st.nb ≤ e.nt := by
  intro fuel
  induction fuel with
  | zero => intro s e h; simp [sbLoop] at h
  | succ n ih =>
    intro s e h hn
    simp only [sbLoop] at h
    split at h
    · simp at h
    · rename_i hnb
      obtain ⟨h1, h2, h3⟩ := hn
      split at h
      · rename_i hlt
        refine ih _ e h ⟨h2, ?_, Int.le_of_lt hlt⟩
        show _ = normV q (s.a.sub (V2.smul _ s.b))
        rw [norm_sub_smul, ← h1, ← h2]
      · rename_i hge
        simp only [Option.some.injEq] at h
        subst h
        refine ⟨⟨h1, h2, h3⟩, hnb, rfl, ?_, Int.not_lt.mp hge⟩
        show _ = normV q (s.a.sub (V2.smul _ s.b))
        rw [norm_sub_smul, ← h1, ← h2]

/-- the first output column is not longer than the second -/
theorem shortBasis_ordered {q : Int} {m r : M2} (h : shortBasis q m = some r) :
    normV q r.col0 ≤ normV q r.col1 := by
  unfold shortBasis at h
  cases hl : sbLoop q (shortBasisFuel q m) (sbInit q m) with
  | none => rw [hl] at h; simp at h
  | some e =>
    rw [hl] at h
    simp only [Option.map_some, Option.some.injEq] at h
    subst h
    obtain ⟨⟨h1, h2, h3⟩, _, _, h5, h6⟩ := normsOK_loop q _ _ e hl (normsOK_init q m)
    unfold sbFinish
    split
    · show normV q e.st.b ≤ normV q (e.st.a.sub (V2.smul e.r e.st.b))
      rw [← h2, ← h5]; exact h6
    · show normV q e.st.b ≤ normV q e.st.a
      rw [← h2, ← h1]; exact h3

/-! ### Gauss-reducedness of the output -/

theorem roundedDiv_spec (a b : Int) (hb : 0 < b) :
    2 * (a - roundedDiv a b * b) ≤ b ∧ -b ≤ 2 * (a - roundedDiv a b * b) := by
  have h1 : b * Int.tdiv a b + Int.tmod a b = a := Int.mul_tdiv_add_tmod a b
  unfold roundedDiv
  rcases Int.lt_or_le a 0 with ha | ha
  · have hna : 0 ≤ -a := by omega
    have hr1 : Int.tmod a b ≤ 0 := by
      have := Int.tmod_nonneg b hna
      rw [Int.neg_tmod] at this
      omega
    have hr2 : -b < Int.tmod a b := by
      have := Int.tmod_lt_of_pos (-a) hb
      rw [Int.neg_tmod] at this
      omega
    have hab : a * b < 0 := Int.mul_neg_of_neg_of_pos ha hb
    simp only [hab, if_true]
    split
    · rename_i h
      have : (Int.tdiv a b - 1) * b = b * Int.tdiv a b - b := by ring
      omega
    · rename_i h
      have : (Int.tdiv a b) * b = b * Int.tdiv a b := by ring
      omega
  · have hr1 : 0 ≤ Int.tmod a b := Int.tmod_nonneg b ha
    have hr2 : Int.tmod a b < b := Int.tmod_lt_of_pos a hb
    have hab : ¬ a * b < 0 := by
      have := Int.mul_nonneg ha (Int.le_of_lt hb); omega
    simp only [hab, if_false]
    split
    · rename_i h
      have : (Int.tdiv a b + 1) * b = b * Int.tdiv a b + b := by ring
      omega
    · rename_i h
      have : (Int.tdiv a b) * b = b * Int.tdiv a b := by ring
      omega

/-- if subtracting `r·b` does not shorten `a` (`N(a - r b) ≥ N(a)`, r the rounded quotient) then `a` is already
    reduced against `b` -/
theorem no_gain_reduced (n nb r : Int) (hnb : 0 < nb) (h1 : 2 * (n - r * nb) ≤ nb) (h2 : -nb ≤ 2 * (n - r * nb))
    (h3 : 0 ≤ r * r * nb - 2 * n * r) : 2 * n ≤ nb ∧ -nb ≤ 2 * n := by
  rcases Int.lt_trichotomy r 0 with hr | hr | hr
  · -- r ≤ -1
    have h4 : r * nb - 2 * n ≤ 0 := by
      by_contra hneg
      have hpos : 0 < r * nb - 2 * n := by omega
      have : r * (r * nb - 2 * n) < 0 := Int.mul_neg_of_neg_of_pos hr hpos
      nlinarith
    have h5 : -nb ≤ r * nb := by linarith
    have h6 : -1 ≤ r := by
      by_contra hc
      have : r ≤ -2 := by omega
      nlinarith
    have : r = -1 := by omega
    subst this
    constructor <;> linarith
  · subst hr
    constructor <;> linarith
  · have h4 : 0 ≤ r * nb - 2 * n := by
      by_contra hneg
      have hneg' : r * nb - 2 * n < 0 := by omega
      have : r * (r * nb - 2 * n) < 0 := Int.mul_neg_of_pos_of_neg hr hneg'
      nlinarith
    have h5 : r * nb ≤ nb := by linarith
    have h6 : r ≤ 1 := by
      by_contra hc
      have : 2 ≤ r := by omega
      nlinarith
    have : r = 1 := by omega
    subst this
    constructor <;> linarith

theorem normV_nonneg {q : Int} (hq : 0 ≤ q) (v : V2) : 0 ≤ normV q v := by
  unfold normV norm
  exact Int.add_nonneg (mul_self_nonneg _) (Int.mul_nonneg (mul_self_nonneg _) hq)

theorem bil_sub_smul (q : Int) (a b : V2) (r : Int) :
    bilV q (a.sub (V2.smul r b)) b = bilV q a b - r * normV q b := by
  simp only [normV, bilV, norm, bil, V2.sub, V2.smul]; ring

/-- the output `(b, a')` of `quat_dim2_lattice_short_basis` is Gauss-reduced: `|2<a',b>| ≤ N(b)` (with
    `shortBasis_ordered`: `N(b) ≤ N(a')`) -/
theorem shortBasis_gauss_reduced {q : Int} (hq : 0 ≤ q) {m r : M2} (h : shortBasis q m = some r) :
    2 * bilV q r.col1 r.col0 ≤ normV q r.col0 ∧ -normV q r.col0 ≤ 2 * bilV q r.col1 r.col0 := by
  unfold shortBasis at h
  cases hl : sbLoop q (shortBasisFuel q m) (sbInit q m) with
  | none => rw [hl] at h; simp at h
  | some e =>
    rw [hl] at h
    simp only [Option.map_some, Option.some.injEq] at h
    subst h
    obtain ⟨⟨h1, h2, h3⟩, h4, hr, h5, h6⟩ := normsOK_loop q _ _ e hl (normsOK_init q m)
    have hnb : 0 < normV q e.st.b := by
      have := normV_nonneg hq e.st.b
      rw [h2] at h4
      omega
    have spec := roundedDiv_spec (bilV q e.st.a e.st.b) (normV q e.st.b) hnb
    rw [h2] at hr
    rw [← hr] at spec
    unfold sbFinish
    split
    · show 2 * bilV q (e.st.a.sub (V2.smul e.r e.st.b)) e.st.b ≤ normV q e.st.b ∧
        -normV q e.st.b ≤ 2 * bilV q (e.st.a.sub (V2.smul e.r e.st.b)) e.st.b
      rw [bil_sub_smul]
      exact spec
    · rename_i hge
      show 2 * bilV q e.st.a e.st.b ≤ normV q e.st.b ∧ -normV q e.st.b ≤ 2 * bilV q e.st.a e.st.b
      have hnt : e.nt = e.st.na - 2 * bilV q e.st.a e.st.b * e.r + e.r * e.r * normV q e.st.b := by
        rw [h5, norm_sub_smul, ← h1]
      apply no_gain_reduced (bilV q e.st.a e.st.b) (normV q e.st.b) e.r hnb spec.1 spec.2
      have : e.st.na ≤ e.nt := Int.not_lt.mp hge
      rw [hnt] at this
      linarith

/-! ### termination: for independent columns and q > 0 the loop returns within the model's fuel -/
def detCols (a b : V2) : Int := a.x * b.y - b.x * a.y

theorem normV_pos_of_ne {q : Int} (hq : 0 < q) (v : V2) (hv : v.x ≠ 0 ∨ v.y ≠ 0) : 0 < normV q v := by
  unfold normV norm
  rcases hv with h | h
  · have : 0 < v.x * v.x := by
      rcases Int.lt_or_gt_of_ne h with h' | h'
      · exact Int.mul_pos_of_neg_of_neg h' h'
      · exact Int.mul_pos h' h'
    have : 0 ≤ v.y * v.y * q := Int.mul_nonneg (mul_self_nonneg _) (Int.le_of_lt hq)
    omega
  · have h2 : 0 < v.y * v.y := by
      rcases Int.lt_or_gt_of_ne h with h' | h'
      · exact Int.mul_pos_of_neg_of_neg h' h'
      · exact Int.mul_pos h' h'
    have : 0 < v.y * v.y * q := Int.mul_pos h2 hq
    have : 0 ≤ v.x * v.x := mul_self_nonneg _
    omega

theorem ne_of_det {a b : V2} (h : detCols a b ≠ 0) : b.x ≠ 0 ∨ b.y ≠ 0 := by
  by_contra hc
  push_neg at hc
  apply h
  unfold detCols
  rw [hc.1, hc.2]; ring

theorem sbLoop_terminates {q : Int} (hq : 0 < q) : ∀ (fuel : Nat) (s : SBState),
    NormsOK q s → detCols s.a s.b ≠ 0 → s.nb.toNat < fuel → (sbLoop q fuel s).isSome = true := by
  intro fuel
  induction fuel with
  | zero => intro s _ _ h; omega
  | succ n ih =>
    intro s hn hd hf
    obtain ⟨h1, h2, h3⟩ := hn
    have hpos : 0 < s.nb := by rw [h2]; exact normV_pos_of_ne hq _ (ne_of_det hd)
    simp only [sbLoop]
    split
    · omega
    · split
      · rename_i hlt
        have hnt : s.na - 2 * bilV q s.a s.b * roundedDiv (bilV q s.a s.b) s.nb
            + roundedDiv (bilV q s.a s.b) s.nb * roundedDiv (bilV q s.a s.b) s.nb * s.nb
            = normV q (s.a.sub (V2.smul (roundedDiv (bilV q s.a s.b) s.nb) s.b)) := by
          rw [norm_sub_smul, ← h1, ← h2]
        apply ih
        · exact ⟨h2, hnt, Int.le_of_lt hlt⟩
        · show detCols s.b (s.a.sub (V2.smul _ s.b)) ≠ 0
          have : detCols s.b (s.a.sub (V2.smul (roundedDiv (bilV q s.a s.b) s.nb) s.b)) = -detCols s.a s.b := by
            simp only [detCols, V2.sub, V2.smul]; ring
          rw [this]; omega
        · show (s.na - 2 * bilV q s.a s.b * roundedDiv (bilV q s.a s.b) s.nb
            + roundedDiv (bilV q s.a s.b) s.nb * roundedDiv (bilV q s.a s.b) s.nb * s.nb).toNat < n
          have hge : 0 ≤ s.na - 2 * bilV q s.a s.b * roundedDiv (bilV q s.a s.b) s.nb
            + roundedDiv (bilV q s.a s.b) s.nb * roundedDiv (bilV q s.a s.b) s.nb * s.nb := by
            rw [hnt]; exact normV_nonneg (Int.le_of_lt hq) _
          omega
      · rfl

/-- **total correctness of the Gauss loop**: for q > 0 and linearly independent input columns the routine returns
    (the model's fuel suffices; the C loop terminates because `norm_b` strictly decreases in ℕ). -/
theorem shortBasis_terminates {q : Int} (hq : 0 < q) {m : M2} (hd : m.det ≠ 0) : (shortBasis q m).isSome = true := by
  unfold shortBasis
  rw [Option.isSome_map]
  apply sbLoop_terminates hq _ _ (normsOK_init q m)
  · simp only [sbInit]
    split
    · show detCols m.col1 m.col0 ≠ 0
      have : detCols m.col1 m.col0 = -m.det := by simp only [detCols, M2.col0, M2.col1, M2.det]; ring
      rw [this]; omega
    · show detCols m.col0 m.col1 ≠ 0
      have : detCols m.col0 m.col1 = m.det := by simp only [detCols, M2.col0, M2.col1, M2.det]
      rw [this]; exact hd
  · unfold shortBasisFuel; omega

/-! ### closest vector: the residual differs from the target by a lattice vector -/
theorem closestVector_lattice {q : Int} {rb : M2} {t : V2} {o : CvpOut} (h : closestVector q rb t = some o) :
    t.sub o.tmc = rb.eval o.coords := by
  simp only [closestVector] at h
  split at h
  · simp at h
  · split at h
    · simp at h
    · simp only [Option.some.injEq] at h
      subst h
      simp only [V2.sub, M2.eval]
      congr 1 <;> ring


/-! ### a Gauss-reduced basis starts with a shortest vector of the lattice -/
theorem quad_ge_one_pos {x y : Int} (h : ¬(x = 0 ∧ y = 0)) : 1 ≤ x * x - x * y + y * y := by
  have h4 : 4 * (x * x - x * y + y * y) = (2 * x - y) * (2 * x - y) + 3 * (y * y) := by ring
  by_cases hy : y = 0
  · subst hy
    have hx : x ≠ 0 := fun hx => h ⟨hx, rfl⟩
    have : 1 ≤ x * x := by
      rcases Int.lt_or_gt_of_ne hx with h' | h'
      · nlinarith
      · nlinarith
    linarith
  · have : 1 ≤ y * y := by
      rcases Int.lt_or_gt_of_ne hy with h' | h'
      · nlinarith
      · nlinarith
    have h0 : 0 ≤ (2 * x - y) * (2 * x - y) := mul_self_nonneg _
    omega

theorem quad_ge_one_neg {x y : Int} (h : ¬(x = 0 ∧ y = 0)) : 1 ≤ x * x + x * y + y * y := by
  have := quad_ge_one_pos (x := x) (y := -y) (by intro h'; exact h ⟨h'.1, by omega⟩)
  have e : x * x - x * -y + -y * -y = x * x + x * y + y * y := by ring
  rw [e] at this; exact this

/-- integer core: `B ≤ x²B + 2xy·n + y²A` for `0 ≤ B ≤ A`, `|2n| ≤ B`, `(x,y) ≠ 0` -/
theorem reduced_form_min {A B n x y : Int} (hB : 0 ≤ B) (hBA : B ≤ A) (h1 : 2 * n ≤ B) (h2 : -B ≤ 2 * n)
    (h : ¬(x = 0 ∧ y = 0)) : B ≤ x * x * B + 2 * (x * y) * n + y * y * A := by
  have hyy : 0 ≤ y * y := mul_self_nonneg y
  have hA : y * y * B ≤ y * y * A := Int.mul_le_mul_of_nonneg_left hBA hyy
  rcases Int.lt_or_le (x * y) 0 with hxy | hxy
  · -- xy < 0: 2xy n ≥ xy B
    have : x * y * B ≤ x * y * (2 * n) := by nlinarith
    have hm := quad_ge_one_neg h
    have : B * 1 ≤ B * (x * x + x * y + y * y) := Int.mul_le_mul_of_nonneg_left hm hB
    nlinarith
  · have : -(x * y * B) ≤ x * y * (2 * n) := by nlinarith
    have hm := quad_ge_one_pos h
    have : B * 1 ≤ B * (x * x - x * y + y * y) := Int.mul_le_mul_of_nonneg_left hm hB
    nlinarith

theorem normV_eval (q : Int) (r : M2) (x y : Int) :
    normV q (r.eval ⟨x, y⟩) = x * x * normV q r.col0 + 2 * (x * y) * bilV q r.col1 r.col0 + y * y * normV q r.col1 := by
  simp only [normV, bilV, norm, bil, M2.eval, M2.col0, M2.col1]; ring

/-- **the first column returned by `quat_dim2_lattice_short_basis` is a shortest non-zero vector of the lattice
    spanned by the output** (= the input lattice, `shortBasis_unimodular`), q ≥ 0 -/
theorem shortBasis_shortest {q : Int} (hq : 0 ≤ q) {m r : M2} (h : shortBasis q m = some r) {x y : Int}
    (hxy : ¬(x = 0 ∧ y = 0)) : normV q r.col0 ≤ normV q (r.eval ⟨x, y⟩) := by
  obtain ⟨g1, g2⟩ := shortBasis_gauss_reduced hq h
  rw [normV_eval]
  exact reduced_form_min (normV_nonneg hq _) (shortBasis_ordered h) g1 g2 hxy

theorem eval_mul2 (a b : M2) (w : V2) : (mul2 a b).eval w = a.eval (b.eval w) := by
  simp only [mul2, M2.eval]; congr 1 <;> ring

/-- … of the INPUT lattice: every non-zero integer combination of the input columns is at least as long as the first
    output column -/
theorem shortBasis_shortest_input {q : Int} (hq : 0 ≤ q) {m r : M2} (h : shortBasis q m = some r) {x y : Int}
    (hxy : ¬(x = 0 ∧ y = 0)) : normV q r.col0 ≤ normV q (m.eval ⟨x, y⟩) := by
  obtain ⟨u, hu, hdet⟩ := shortBasis_unimodular h
  -- w with u·w = (x,y)
  obtain ⟨w, hw⟩ : ∃ w : V2, u.eval w = ⟨x, y⟩ := by
    rcases hdet with hd | hd
    · refine ⟨⟨u.a11 * x - u.a01 * y, -u.a10 * x + u.a00 * y⟩, ?_⟩
      simp only [M2.eval, M2.det] at hd ⊢
      congr 1
      · have : u.a00 * (u.a11 * x - u.a01 * y) + u.a01 * (-u.a10 * x + u.a00 * y) = (u.a00 * u.a11 - u.a01 * u.a10) * x := by ring
        rw [this, hd]; ring
      · have : u.a10 * (u.a11 * x - u.a01 * y) + u.a11 * (-u.a10 * x + u.a00 * y) = (u.a00 * u.a11 - u.a01 * u.a10) * y := by ring
        rw [this, hd]; ring
    · refine ⟨⟨-(u.a11 * x - u.a01 * y), -(-u.a10 * x + u.a00 * y)⟩, ?_⟩
      simp only [M2.eval, M2.det] at hd ⊢
      congr 1
      · have : u.a00 * -(u.a11 * x - u.a01 * y) + u.a01 * -(-u.a10 * x + u.a00 * y) = -((u.a00 * u.a11 - u.a01 * u.a10) * x) := by ring
        rw [this, hd]; ring
      · have : u.a10 * -(u.a11 * x - u.a01 * y) + u.a11 * -(-u.a10 * x + u.a00 * y) = -((u.a00 * u.a11 - u.a01 * u.a10) * y) := by ring
        rw [this, hd]; ring
  have hwne : ¬(w.x = 0 ∧ w.y = 0) := by
    intro hz
    have : u.eval w = ⟨0, 0⟩ := by
      obtain ⟨wx, wy⟩ := w
      simp only at hz
      simp [M2.eval, hz.1, hz.2]
    rw [hw] at this
    simp only [V2.mk.injEq] at this
    exact hxy this
  have := shortBasis_shortest hq h hwne
  have e : r.eval ⟨w.x, w.y⟩ = m.eval ⟨x, y⟩ := by
    rw [hu, eval_mul2]
    have : (⟨w.x, w.y⟩ : V2) = w := by cases w; rfl
    rw [this, hw]
  rw [e] at this
  exact this

/-! ### closest vector: the residual is reduced against the (orthogonalised) basis — nearest-plane quality -/
theorem norm_nonneg' {q : Int} (hq : 0 ≤ q) (x y : Int) : 0 ≤ norm q x y := by
  unfold norm
  exact Int.add_nonneg (mul_self_nonneg _) (Int.mul_nonneg (mul_self_nonneg _) hq)

/-- `quat_dim2_lattice_closest_vector` (q ≥ 0): with `b` = first column, `a` = second column and
    `a* = N(b)·a - <a,b>·b` (the orthogonalised second vector, scaled as in the C code), the residual satisfies
    `|2<r,b>| ≤ N(b)` and `|2·N(b)·<a*,r>| ≤ N(a*)`: its coordinates along `b` and `a*` are at most 1/2. -/
theorem closestVector_reduced {q : Int} (hq : 0 ≤ q) {rb : M2} {t : V2} {o : CvpOut} (h : closestVector q rb t = some o) :
    (2 * bil q o.tmc.x o.tmc.y rb.a00 rb.a10 ≤ norm q rb.a00 rb.a10 ∧
      -(norm q rb.a00 rb.a10) ≤ 2 * bil q o.tmc.x o.tmc.y rb.a00 rb.a10) ∧
    (let nb := norm q rb.a00 rb.a10
     let bl := bil q rb.a01 rb.a11 rb.a00 rb.a10
     let as0 := rb.a01 * nb - rb.a00 * bl
     let as1 := rb.a11 * nb - rb.a10 * bl
     2 * (bil q as0 as1 o.tmc.x o.tmc.y * nb) ≤ norm q as0 as1 ∧
       -(norm q as0 as1) ≤ 2 * (bil q as0 as1 o.tmc.x o.tmc.y * nb)) := by
  simp only [closestVector, coefOrth] at h
  split at h
  · simp at h
  · rename_i c1 hc1
    split at hc1
    · simp at hc1
    · rename_i hnas
      simp only [Option.some.injEq] at hc1
      split at h
      · simp at h
      · rename_i hna
        simp only [Option.some.injEq] at h
        subst h
        have hnapos : 0 < norm q rb.a00 rb.a10 := by
          have := norm_nonneg' hq rb.a00 rb.a10; omega
        have hnaspos : 0 < norm q (rb.a01 * norm q rb.a00 rb.a10 - rb.a00 * bil q rb.a01 rb.a11 rb.a00 rb.a10)
            (rb.a11 * norm q rb.a00 rb.a10 - rb.a10 * bil q rb.a01 rb.a11 rb.a00 rb.a10) := by
          have := norm_nonneg' hq (rb.a01 * norm q rb.a00 rb.a10 - rb.a00 * bil q rb.a01 rb.a11 rb.a00 rb.a10)
            (rb.a11 * norm q rb.a00 rb.a10 - rb.a10 * bil q rb.a01 rb.a11 rb.a00 rb.a10)
          omega
        have s0 := roundedDiv_spec (bil q (t.x - rb.a01 * c1) (t.y - rb.a11 * c1) rb.a00 rb.a10)
          (norm q rb.a00 rb.a10) hnapos
        have s1 := roundedDiv_spec
          (bil q (rb.a01 * norm q rb.a00 rb.a10 - rb.a00 * bil q rb.a01 rb.a11 rb.a00 rb.a10)
            (rb.a11 * norm q rb.a00 rb.a10 - rb.a10 * bil q rb.a01 rb.a11 rb.a00 rb.a10) t.x t.y * norm q rb.a00 rb.a10)
          (norm q (rb.a01 * norm q rb.a00 rb.a10 - rb.a00 * bil q rb.a01 rb.a11 rb.a00 rb.a10)
            (rb.a11 * norm q rb.a00 rb.a10 - rb.a10 * bil q rb.a01 rb.a11 rb.a00 rb.a10)) hnaspos
        rw [hc1] at s1
        constructor
        · have e : bil q (t.x - rb.a01 * c1 - rb.a00 * roundedDiv (bil q (t.x - rb.a01 * c1) (t.y - rb.a11 * c1) rb.a00 rb.a10) (norm q rb.a00 rb.a10))
              (t.y - rb.a11 * c1 - rb.a10 * roundedDiv (bil q (t.x - rb.a01 * c1) (t.y - rb.a11 * c1) rb.a00 rb.a10) (norm q rb.a00 rb.a10))
              rb.a00 rb.a10
            = bil q (t.x - rb.a01 * c1) (t.y - rb.a11 * c1) rb.a00 rb.a10
              - roundedDiv (bil q (t.x - rb.a01 * c1) (t.y - rb.a11 * c1) rb.a00 rb.a10) (norm q rb.a00 rb.a10) * norm q rb.a00 rb.a10 := by
            simp only [bil, norm]; ring
          simp only
          rw [e]; exact s0
        · simp only
          have e : bil q (rb.a01 * norm q rb.a00 rb.a10 - rb.a00 * bil q rb.a01 rb.a11 rb.a00 rb.a10)
                (rb.a11 * norm q rb.a00 rb.a10 - rb.a10 * bil q rb.a01 rb.a11 rb.a00 rb.a10)
                (t.x - rb.a01 * c1 - rb.a00 * roundedDiv (bil q (t.x - rb.a01 * c1) (t.y - rb.a11 * c1) rb.a00 rb.a10) (norm q rb.a00 rb.a10))
                (t.y - rb.a11 * c1 - rb.a10 * roundedDiv (bil q (t.x - rb.a01 * c1) (t.y - rb.a11 * c1) rb.a00 rb.a10) (norm q rb.a00 rb.a10))
                * norm q rb.a00 rb.a10
            = bil q (rb.a01 * norm q rb.a00 rb.a10 - rb.a00 * bil q rb.a01 rb.a11 rb.a00 rb.a10)
                (rb.a11 * norm q rb.a00 rb.a10 - rb.a10 * bil q rb.a01 rb.a11 rb.a00 rb.a10) t.x t.y * norm q rb.a00 rb.a10
              - c1 * norm q (rb.a01 * norm q rb.a00 rb.a10 - rb.a00 * bil q rb.a01 rb.a11 rb.a00 rb.a10)
                (rb.a11 * norm q rb.a00 rb.a10 - rb.a10 * bil q rb.a01 rb.a11 rb.a00 rb.a10) := by
            simp only [bil, norm]; ring
          rw [e]; exact s1

/-! ### enumeration: soundness of `found = 1` -/
section enum
variable (cond : V2 → Option Elem) (q : Int) (tmc : V2) (b : M2) (nb : Int)

/-- what a returned element must come from -/
def Hit (e : Elem) : Prop :=
  ∃ x y : Int, cond (tmc.sub (b.eval ⟨x, y⟩)) = some e ∧ normV q (tmc.sub (b.eval ⟨x, y⟩)) ≤ nb

def FoundOK (st : EnumSt) : Prop := ∀ e, st.found = some e → Hit cond q tmc b nb e

theorem bac_sound {x y : Int} {e : Elem} (h : boundAndCondition cond q x y tmc b nb = some e) : Hit cond q tmc b nb e := by
  simp only [boundAndCondition] at h
  split at h
  · rename_i hle; exact ⟨x, y, h, hle⟩
  · simp at h

theorem inner_sound (mt : Nat) (y bx : Int) : ∀ (fuel : Nat) (x : Int) (st : EnumSt),
    FoundOK cond q tmc b nb st → FoundOK cond q tmc b nb (enumInner cond q tmc b nb mt y bx fuel x st) := by
  intro fuel
  induction fuel with
  | zero => intro x st h; simpa [enumInner] using h
  | succ n ih =>
    intro x st h
    simp only [enumInner]
    split
    · apply ih
      intro e he
      exact bac_sound cond q tmc b nb he
    · exact h

theorem outer_sound (mt : Nat) (pre : EnumPre) : ∀ (fuel : Nat) (y : Int) (st st' : EnumSt),
    enumOuter cond q tmc b nb mt pre fuel y st = some st' → FoundOK cond q tmc b nb st → FoundOK cond q tmc b nb st' := by
  intro fuel
  induction fuel with
  | zero => intro y st st' h hs; simp only [enumOuter, Option.some.injEq] at h; subst h; exact hs
  | succ n ih =>
    intro y st st' h hs
    simp only [enumOuter] at h
    split at h
    · split at h
      · split at h
        · exact ih _ _ _ h (inner_sound cond q tmc b nb mt _ _ _ _ _ hs)
        · simp at h
      · simp at h
    · simp only [Option.some.injEq] at h; subst h; exact hs

/-- **soundness of the bounded enumeration**: a returned element is `condition` applied to a vector
    `target_minus_closest - B·(x,y)` (x, y integers) whose norm is at most `norm_bound`.
    (Completeness — that a qualifying vector is found whenever one exists within `max_tries` — is NOT claimed.) -/
theorem enumerateShortVec_sound {mt : Nat} {e : Elem}
    (h : enumerateShortVec cond q tmc b nb mt = some (some e)) : Hit cond q tmc b nb e := by
  simp only [enumerateShortVec] at h
  split at h
  · simp at h
  · split at h
    · simp at h
    · simp at h
    · split at h
      · simp at h
      · rename_i st hst
        simp only [Option.some.injEq] at h
        exact outer_sound cond q tmc b nb mt _ _ _ _ st hst (fun e he => by simp at he) e h

end enum

/-- **`quat_2x2_lattice_enumerate_cvp_filter`**: a returned element is `condition v` for a vector
    `v = target - R·z` (`R` = the reduced basis = input basis times a unimodular matrix, `z` integral), i.e. `v` is
    congruent to the target modulo the lattice, and `N(v) ≤ 2^dist_bound`. -/
theorem enumerateCvpFilter_sound {cond : V2 → Option Elem} {b : M2} {t : V2} {qf db mt : Nat} {e : Elem}
    (h : enumerateCvpFilter cond b t qf db mt = some (some e)) :
    ∃ (u : M2) (z : V2), Unimod u ∧ cond (t.sub ((mul2 b u).eval z)) = some e ∧
      normV (qf : Int) (t.sub ((mul2 b u).eval z)) ≤ 2 ^ db := by
  simp only [enumerateCvpFilter] at h
  split at h
  · simp at h
  · rename_i red hred
    split at h
    · simp at h
    · rename_i cv hcv
      obtain ⟨u, hu, hun⟩ := shortBasis_unimodular hred
      obtain ⟨x, y, hc, hn⟩ := enumerateShortVec_sound _ _ _ _ _ h
      have hl := closestVector_lattice hcv
      have key : cv.tmc.sub (red.eval ⟨x, y⟩) = t.sub ((mul2 b u).eval ⟨cv.coords.x + x, cv.coords.y + y⟩) := by
        rw [← hu]
        have h1 : t.x - cv.tmc.x = (red.eval cv.coords).x := by rw [← hl]; rfl
        have h2 : t.y - cv.tmc.y = (red.eval cv.coords).y := by rw [← hl]; rfl
        simp only [M2.eval] at h1 h2
        simp only [V2.sub, M2.eval]
        congr 1 <;> linarith
      refine ⟨u, ⟨cv.coords.x + x, cv.coords.y + y⟩, hun, ?_, ?_⟩
      · rw [← key]; exact hc
      · rw [← key]; exact hn


/-! ### `sample_response`: decision logic -/
theorem respLoop_some {bound : Int} {gram : Mat4} : ∀ (cands : List Vec4) (c c' : Nat) (v : Vec4),
    respLoop bound gram cands c = (some v, c') → v ∈ cands ∧ accept bound gram v = true := by
  intro cands
  induction cands with
  | nil => intro c c' v h; simp [respLoop] at h
  | cons w ws ih =>
    intro c c' v h
    simp only [respLoop] at h
    split at h
    · split at h
      · rename_i hacc
        simp only [Prod.mk.injEq, Option.some.injEq] at h
        obtain ⟨rfl, _⟩ := h
        exact ⟨List.mem_cons_self, hacc⟩
      · obtain ⟨hm, ha⟩ := ih _ _ _ h
        exact ⟨List.mem_cons_of_mem _ hm, ha⟩
    · simp at h

theorem accept_iff {bound : Int} {gram : Mat4} {v : Vec4} :
    accept bound gram v = true ↔ normFrom2Gram gram v < bound ∧ v.isZero = false := by
  simp [accept]

def e0 : Vec4 := ⟨1, 0, 0, 0⟩

theorem eval_e0 (m : Mat4) : m.eval e0 = m.col 0 := by
  obtain ⟨⟨a00, a01, a02, a03⟩, ⟨a10, a11, a12, a13⟩, ⟨a20, a21, a22, a23⟩, ⟨a30, a31, a32, a33⟩⟩ := m
  simp [Mat4.eval, Mat4.col, Vec4.ofFn, Mat4.get, Mat4.row, Vec4.get, e0]

theorem norm_e0 (g : Mat4) : normFrom2Gram g e0 = div2 (g.get 0 0) := by
  obtain ⟨⟨a00, a01, a02, a03⟩, ⟨a10, a11, a12, a13⟩, ⟨a20, a21, a22, a23⟩, ⟨a30, a31, a32, a33⟩⟩ := g
  simp [normFrom2Gram, Mat4.qfEval, Mat4.eval, Vec4.ofFn, Mat4.get, Mat4.row, Vec4.get, e0]

/-- **accepted candidate**: if the loop of `sample_response` accepts (found = 1 before the fallback), the response is
    `lll·v` for one of the drawn candidates `v ≠ 0`, with `norm_from_2_times_gram(v) < 2^response_length`. -/
theorem sampleResponse_found {p : Int} {rl : Nat} {denom content : Int} {lll : Mat4} {cands : List Vec4}
    (h : (sampleResponse p rl denom content lll cands).found = true) :
    ∃ v ∈ cands, v.isZero = false ∧
      (sampleResponse p rl denom content lll cands).x = ⟨denom, lll.eval v⟩ ∧
      normFrom2Gram (respGram p denom content lll) v < 2 ^ rl := by
  simp only [sampleResponse] at h ⊢
  split at h
  · rename_i v c hl
    obtain ⟨hm, ha⟩ := respLoop_some _ _ _ _ hl
    rw [accept_iff] at ha
    exact ⟨v, hm, ha.2, rfl, ha.1⟩
  · simp at h

/-- **fallback branch** (no candidate accepted within 50 tries): the response is the first LLL column and NO norm
    test is made; its norm is `gram[0][0]/2`. -/
theorem sampleResponse_fallback {p : Int} {rl : Nat} {denom content : Int} {lll : Mat4} {cands : List Vec4}
    (h : (sampleResponse p rl denom content lll cands).found = false) :
    (sampleResponse p rl denom content lll cands).x = ⟨denom, lll.eval e0⟩ ∧
      normFrom2Gram (respGram p denom content lll) e0 = div2 ((respGram p denom content lll).get 0 0) := by
  refine ⟨?_, norm_e0 _⟩
  simp only [sampleResponse] at h ⊢
  split at h
  · simp at h
  · rename_i c hl
    rw [eval_e0]

/-- **response_short** (partial: explicit hypothesis on the first reduced vector): whatever the draws, the response is
    `lll·v` with `v ≠ 0` and `norm_from_2_times_gram(v) < 2^response_length`, PROVIDED the first LLL vector itself is
    below the bound. -/
theorem sampleResponse_short {p : Int} {rl : Nat} {denom content : Int} {lll : Mat4} (cands : List Vec4)
    (hfb : div2 ((respGram p denom content lll).get 0 0) < 2 ^ rl) :
    ∃ v : Vec4, v.isZero = false ∧ (sampleResponse p rl denom content lll cands).x = ⟨denom, lll.eval v⟩ ∧
      normFrom2Gram (respGram p denom content lll) v < 2 ^ rl := by
  cases hf : (sampleResponse p rl denom content lll cands).found with
  | true =>
    obtain ⟨v, _, h1, h2, h3⟩ := sampleResponse_found hf
    exact ⟨v, h1, h2, h3⟩
  | false =>
    obtain ⟨h1, h2⟩ := sampleResponse_fallback hf
    exact ⟨e0, by decide, h1, by rw [h2]; exact hfb⟩

end SqiProofs.LllDim2

import SqiProofs.LllDim2
import Mathlib.Tactic.Ring
import Mathlib.Tactic.FieldSimp
import Mathlib.Tactic.Linarith
import Mathlib.Tactic.Positivity
import Mathlib.Algebra.Order.Field.Basic
import Mathlib.Data.Rat.Cast.Order
/- C16 (3b): the bounded enumeration `quat_dim2_lattice_qf_enumerate_short_vec`:
   * `quat_dim2_lattice_qf_value_bound_generation` returns a strict upper bound of  sqrt(num_a/denom_a) + num_b/denom_b;
   * for every enumerated y the x-range contains every solution of  a x² + b x y + c y² ≤ N;
   * the y-range contains every y with (4a²c - b²) y² ≤ 4a² N  — which is the ellipse only if a = 1 or b = 0;
   * the double loop is a fold over the cells in enumeration order (refinement to a list specification) ⇒ completeness
     relative to the enumerated box, with the exact stop conditions (found / the cell (0,0) / max_tries). -/
namespace SqiProofs.LllEnum
open SqiModel.Quat SqiModel.Dim2 SqiProofs.LllDim2

/-! ### `ibz_sqrt_floor`, truncated division -/
theorem sqrtFloor_spec {a : Int} (ha : 0 ≤ a) :
    0 ≤ sqrtFloor a ∧ sqrtFloor a * sqrtFloor a ≤ a ∧ a < (sqrtFloor a + 1) * (sqrtFloor a + 1) := by
  unfold sqrtFloor
  have h1 := Nat.sqrt_le a.toNat
  have h2 := Nat.lt_succ_sqrt a.toNat
  have ha' : (a.toNat : Int) = a := Int.toNat_of_nonneg ha
  refine ⟨Int.natCast_nonneg _, ?_, ?_⟩
  · have : ((Nat.sqrt a.toNat * Nat.sqrt a.toNat : Nat) : Int) ≤ (a.toNat : Int) := by exact_mod_cast h1
    rw [ha'] at this; simpa using this
  · have : ((a.toNat : Nat) : Int) < ((Nat.succ (Nat.sqrt a.toNat) * Nat.succ (Nat.sqrt a.toNat) : Nat) : Int) := by
      exact_mod_cast h2
    rw [ha'] at this
    simpa [Nat.succ_eq_add_one] using this

theorem tdiv_succ_gt (x d : Int) (hd : d ≠ 0) : (x : ℚ) / d < (Int.tdiv x d : ℚ) + 1 := by
  have hdq : (d : ℚ) ≠ 0 := by exact_mod_cast hd
  have hx : x = d * Int.tdiv x d + Int.tmod x d := (Int.mul_tdiv_add_tmod x d).symm
  have hr : (Int.tmod x d).natAbs < d.natAbs := by
    rw [Int.natAbs_tmod]; exact Nat.mod_lt _ (Int.natAbs_pos.mpr hd)
  have hrq : |((Int.tmod x d : Int) : ℚ)| < |(d : ℚ)| := by
    rw [← Int.cast_abs, ← Int.cast_abs, Int.abs_eq_natAbs, Int.abs_eq_natAbs]
    exact_mod_cast hr
  have hq : (x : ℚ) / d = (Int.tdiv x d : ℚ) + (Int.tmod x d : ℚ) / d := by
    have : (x : ℚ) = (d : ℚ) * (Int.tdiv x d : ℚ) + (Int.tmod x d : ℚ) := by exact_mod_cast hx
    rw [this]; field_simp
  rw [hq]
  have : ((Int.tmod x d : Int) : ℚ) / d < 1 := by
    calc ((Int.tmod x d : Int) : ℚ) / d ≤ |((Int.tmod x d : Int) : ℚ) / d| := le_abs_self _
      _ = |((Int.tmod x d : Int) : ℚ)| / |(d : ℚ)| := abs_div _ _
      _ < 1 := (div_lt_one (abs_pos.mpr hdq)).mpr hrq
  linarith

/-- **`quat_dim2_lattice_qf_value_bound_generation` is a strict upper bound** of `sqrt(num_a/denom_a) + num_b/denom_b`
    (stated without square roots: for every rational `t ≥ 0` with `t²·denom_a ≤ num_a`). -/
theorem boundGen_upper {numA denA numB denB : Int} (hdA : 0 < denA) (hdB : denB ≠ 0) (hnA : 0 ≤ numA) :
    ∃ r : Int, boundGen numA denA numB denB = some (some r) ∧
      ∀ t : ℚ, 0 ≤ t → t ^ 2 * denA ≤ numA → t + (numB : ℚ) / denB < r := by
  obtain ⟨sn0, sn1, sn2⟩ := sqrtFloor_spec hnA
  obtain ⟨sd0, sd1, sd2⟩ := sqrtFloor_spec (Int.le_of_lt hdA)
  have hsd : 0 < sqrtFloor denA := by
    by_contra h
    have : sqrtFloor denA = 0 := by omega
    rw [this] at sd2; omega
  refine ⟨Int.tdiv ((sqrtFloor numA + 1) * denB + sqrtFloor denA * numB) (denB * sqrtFloor denA) + 1, ?_, ?_⟩
  · unfold boundGen
    have c1 : ¬ (denA < 0) := by omega
    have c2 : ¬ (denA = 0) := by omega
    simp [c1, c2, hdB, Int.not_lt.mpr hnA]
  · intro t ht htl
    have hsdq : (0 : ℚ) < sqrtFloor denA := by exact_mod_cast hsd
    have hdBq : (denB : ℚ) ≠ 0 := by exact_mod_cast hdB
    have h1 : (sqrtFloor denA : ℚ) * sqrtFloor denA ≤ denA := by exact_mod_cast sd1
    have h2 : (numA : ℚ) < ((sqrtFloor numA : ℚ) + 1) * ((sqrtFloor numA : ℚ) + 1) := by exact_mod_cast sn2
    have hsnq : (0 : ℚ) ≤ (sqrtFloor numA : ℚ) + 1 := by
      have : (0 : ℚ) ≤ sqrtFloor numA := by exact_mod_cast sn0
      linarith
    have hlt : (t * sqrtFloor denA) ^ 2 < ((sqrtFloor numA : ℚ) + 1) ^ 2 := by
      have : (t * sqrtFloor denA) ^ 2 ≤ t ^ 2 * denA := by
        have := mul_le_mul_of_nonneg_left h1 (sq_nonneg t)
        nlinarith
      nlinarith
    have hlt' : t * sqrtFloor denA < (sqrtFloor numA : ℚ) + 1 := lt_of_pow_lt_pow_left₀ 2 hsnq hlt
    have ht' : t < ((sqrtFloor numA : ℚ) + 1) / sqrtFloor denA := by
      rw [lt_div_iff₀ hsdq]; exact hlt'
    have hval : ((sqrtFloor numA : ℚ) + 1) / sqrtFloor denA + (numB : ℚ) / denB
        = (((sqrtFloor numA + 1) * denB + sqrtFloor denA * numB : Int) : ℚ) / ((denB * sqrtFloor denA : Int) : ℚ) := by
      push_cast
      field_simp
    have hden : denB * sqrtFloor denA ≠ 0 := Int.mul_ne_zero hdB (by omega)
    have := tdiv_succ_gt ((sqrtFloor numA + 1) * denB + sqrtFloor denA * numB) (denB * sqrtFloor denA) hden
    push_cast at this hval ⊢
    linarith


/-! ### the double loop as a fold over the cells in enumeration order -/

/-- the integers `lo, lo+1, …, hi` -/
def intRange (lo hi : Int) : List Int :=
  if lo ≤ hi then lo :: intRange (lo + 1) hi else []
termination_by (hi + 1 - lo).toNat
decreasing_by omega

theorem intRange_cons {lo hi : Int} (h : lo ≤ hi) : intRange lo hi = lo :: intRange (lo + 1) hi := by
  rw [intRange]; simp [h]

theorem intRange_nil {lo hi : Int} (h : hi < lo) : intRange lo hi = [] := by
  rw [intRange]; simp [Int.not_le.mpr h]

theorem mem_intRange {lo hi x : Int} : x ∈ intRange lo hi ↔ lo ≤ x ∧ x ≤ hi := by
  induction hn : (hi + 1 - lo).toNat generalizing lo with
  | zero =>
    rw [intRange_nil (show hi < lo by omega)]; simp; omega
  | succ n ih =>
    rw [intRange_cons (show lo ≤ hi by omega), List.mem_cons, ih (lo := lo + 1) (by omega)]
    omega

theorem intRange_length (lo hi : Int) : (intRange lo hi).length = (hi + 1 - lo).toNat := by
  induction hn : (hi + 1 - lo).toNat generalizing lo with
  | zero => rw [intRange_nil (show hi < lo by omega)]; rfl
  | succ n ih =>
    rw [intRange_cons (show lo ≤ hi by omega), List.length_cons, ih (lo + 1) (by omega)]

/-- split at an element -/
theorem intRange_split {lo hi x : Int} (h1 : lo ≤ x) (h2 : x ≤ hi) :
    intRange lo hi = intRange lo (x - 1) ++ x :: intRange (x + 1) hi := by
  induction hn : (x - lo).toNat generalizing lo with
  | zero =>
    have : lo = x := by omega
    subst this
    rw [intRange_nil (show lo - 1 < lo by omega), intRange_cons h2]; rfl
  | succ n ih =>
    rw [intRange_cons (show lo ≤ hi by omega), intRange_cons (show lo ≤ x - 1 by omega),
      ih (lo := lo + 1) (by omega) (by omega)]
    rfl

section loops
variable (cond : V2 → Option Elem) (q : Int) (tmc : V2) (b : M2) (nb : Int) (mt : Nat)

/-- what is evaluated at the cell (x,y) -/
def bac (x y : Int) : Option Elem := boundAndCondition cond q x y tmc b nb

/-- the loops go on: nothing found, not stopped at the origin, tries left -/
def active (st : EnumSt) : Bool := st.found.isNone && !st.stop && decide (st.tries < mt)

/-- one cell: `tries += 1; found = bound_and_condition(x,y); stop = (x == 0 && y == 0)` -/
def stepCell (y : Int) (st : EnumSt) (x : Int) : EnumSt :=
  if active mt st then ⟨bac cond q tmc b nb x y, x == 0 && y == 0, st.tries + 1⟩ else st

theorem fold_inactive (y : Int) (st : EnumSt) (h : active mt st = false) (l : List Int) :
    l.foldl (stepCell cond q tmc b nb mt y) st = st := by
  induction l with
  | nil => rfl
  | cons x xs ih => rw [List.foldl_cons]; simp only [stepCell, h]; exact ih

/-- the inner `while` is the fold of `stepCell` over `x+1 … bound_x` -/
theorem inner_eq_fold (y bx : Int) : ∀ (fuel : Nat) (x : Int) (st : EnumSt), mt ≤ fuel + st.tries →
    enumInner cond q tmc b nb mt y bx fuel x st
      = (intRange (x + 1) bx).foldl (stepCell cond q tmc b nb mt y) st := by
  intro fuel
  induction fuel with
  | zero =>
    intro x st h
    have hin : active mt st = false := by
      simp only [active, Bool.and_eq_false_iff, decide_eq_false_iff_not]; right; omega
    rw [fold_inactive cond q tmc b nb mt y st hin]; rfl
  | succ n ih =>
    intro x st h
    simp only [enumInner]
    by_cases hact : active mt st = true
    · by_cases hx : x < bx
      · have hc : (st.found.isNone && !st.stop && decide (x < bx) && decide (st.tries < mt)) = true := by
          simp only [active, Bool.and_eq_true, decide_eq_true_eq] at hact
          simp [hact.1.1, hact.1.2, hact.2, hx]
        rw [if_pos hc, intRange_cons (by omega), List.foldl_cons]
        have hs : stepCell cond q tmc b nb mt y st (x + 1)
            = ⟨boundAndCondition cond q (x + 1) y tmc b nb, x + 1 == 0 && y == 0, st.tries + 1⟩ := by
          simp only [stepCell, hact, if_true, bac]
        rw [hs]
        exact ih (x + 1) _ (by simp only; omega)
      · have hc : (st.found.isNone && !st.stop && decide (x < bx) && decide (st.tries < mt)) = false := by
          simp [hx]
        rw [hc, intRange_nil (by omega)]; rfl
    · have hin : active mt st = false := by simpa using hact
      have hc : (st.found.isNone && !st.stop && decide (x < bx) && decide (st.tries < mt)) = false := by
        simp only [active, Bool.and_eq_false_iff] at hin
        rcases hin with (h1 | h1) | h1 <;> simp [h1]
      rw [hc, fold_inactive cond q tmc b nb mt y st hin]; rfl


/-- the x-range `[lo, hi]` enumerated for the row `y`; `none` = a bound generation fails (GMP abort / returns 0) -/
def rowBounds (pre : EnumPre) (y : Int) : Option (Int × Int) :=
  match boundGen (y * y * pre.fourA2CMinusB2 + pre.fourA2NormBound) pre.fourA3 (-(pre.qfB * y)) pre.twoA,
        boundGen (y * y * pre.fourA2CMinusB2 + pre.fourA2NormBound) pre.fourA3 (-(-(pre.qfB * y))) pre.twoA with
  | some (some bx), some (some xv) => some (-xv, bx)
  | _, _ => none

/-- one row of the outer loop -/
def rowFold (pre : EnumPre) (st : EnumSt) (y : Int) : Option EnumSt :=
  if active mt st then
    match rowBounds pre y with
    | some (lo, hi) => some ((intRange lo hi).foldl (stepCell cond q tmc b nb mt y) st)
    | none => none
  else some st

theorem foldlM_inactive (pre : EnumPre) (st : EnumSt) (h : active mt st = false) (l : List Int) :
    l.foldlM (rowFold cond q tmc b nb mt pre) st = some st := by
  induction l with
  | nil => rfl
  | cons y ys ih =>
    rw [List.foldlM_cons]
    have : rowFold cond q tmc b nb mt pre st y = some st := by simp [rowFold, h]
    rw [this]; exact ih

/-- the outer `while` is the (aborting) fold of `rowFold` over `y+1 … bound_y` -/
theorem outer_eq_fold (pre : EnumPre) : ∀ (fuel : Nat) (y : Int) (st : EnumSt), (pre.boundY - y).toNat ≤ fuel →
    enumOuter cond q tmc b nb mt pre fuel y st
      = (intRange (y + 1) pre.boundY).foldlM (rowFold cond q tmc b nb mt pre) st := by
  intro fuel
  induction fuel with
  | zero =>
    intro y st h
    rw [intRange_nil (by omega)]; rfl
  | succ n ih =>
    intro y st h
    simp only [enumOuter]
    by_cases hact : active mt st = true
    · by_cases hy : y < pre.boundY
      · have hc : (st.found.isNone && !st.stop && decide (y < pre.boundY) && decide (st.tries < mt)) = true := by
          simp only [active, Bool.and_eq_true, decide_eq_true_eq] at hact
          simp [hact.1.1, hact.1.2, hact.2, hy]
        rw [if_pos hc, intRange_cons (by omega), List.foldlM_cons]
        simp only [rowFold, hact, if_true, rowBounds]
        cases h1 : boundGen ((y + 1) * (y + 1) * pre.fourA2CMinusB2 + pre.fourA2NormBound) pre.fourA3
            (-(pre.qfB * (y + 1))) pre.twoA with
        | none => simp
        | some o1 =>
          cases h2 : boundGen ((y + 1) * (y + 1) * pre.fourA2CMinusB2 + pre.fourA2NormBound) pre.fourA3
              (-(-(pre.qfB * (y + 1)))) pre.twoA with
          | none => cases o1 <;> simp
          | some o2 =>
            cases o1 with
            | none => simp
            | some bx =>
              cases o2 with
              | none => simp
              | some xv =>
                simp only [Option.bind_eq_bind, Option.bind_some]
                rw [inner_eq_fold cond q tmc b nb mt (y + 1) bx (mt - st.tries) (-xv - 1) st (by omega)]
                rw [show (-xv - 1 + 1 : Int) = -xv by omega]
                exact ih (y + 1) _ (by omega)
      · have hc : (st.found.isNone && !st.stop && decide (y < pre.boundY) && decide (st.tries < mt)) = false := by
          simp [hy]
        rw [hc, intRange_nil (by omega)]; rfl
    · have hin : active mt st = false := by simpa using hact
      have hc : (st.found.isNone && !st.stop && decide (y < pre.boundY) && decide (st.tries < mt)) = false := by
        simp only [active, Bool.and_eq_false_iff] at hin
        rcases hin with (h1 | h1) | h1 <;> simp [h1]
      rw [hc, foldlM_inactive cond q tmc b nb mt pre st hin]; rfl


/-! ### completeness relative to the enumerated box -/

/-- a cell that neither hits nor stops -/
def Pass (x y : Int) : Prop := bac cond q tmc b nb x y = none ∧ ¬(x = 0 ∧ y = 0)

theorem stepCell_pass (y : Int) (st : EnumSt) (x : Int) (hf : st.found = none) (hs : st.stop = false) (ht : st.tries < mt)
    (hp : Pass cond q tmc b nb x y) :
    stepCell cond q tmc b nb mt y st x = ⟨none, false, st.tries + 1⟩ := by
  have hact : active mt st = true := by simp [active, hf, hs, ht]
  simp only [stepCell, hact, if_true, hp.1]
  have : (x == 0 && y == 0) = false := by
    by_cases hx : x = 0
    · by_cases hy : y = 0
      · exact absurd ⟨hx, hy⟩ hp.2
      · simp [hy]
    · simp [hx]
  rw [this]

theorem fold_pass (y : Int) : ∀ (l : List Int) (st : EnumSt), st.found = none → st.stop = false →
    (∀ x ∈ l, Pass cond q tmc b nb x y) → st.tries + l.length ≤ mt →
    l.foldl (stepCell cond q tmc b nb mt y) st = ⟨none, false, st.tries + l.length⟩ := by
  intro l
  induction l with
  | nil => intro st hf hs _ _; cases st; simp_all
  | cons x xs ih =>
    intro st hf hs hp ht
    rw [List.foldl_cons, stepCell_pass cond q tmc b nb mt y st x hf hs (by simp at ht; omega)
      (hp x List.mem_cons_self)]
    rw [ih _ rfl rfl (fun x' hx' => hp x' (List.mem_cons_of_mem _ hx')) (by simp at ht ⊢; omega)]
    simp only [List.length_cons]
    congr 1; omega

theorem fold_hit (y : Int) (l1 l2 : List Int) (x : Int) (st : EnumSt) (e : Elem) (hf : st.found = none)
    (hs : st.stop = false) (hp : ∀ x' ∈ l1, Pass cond q tmc b nb x' y) (ht : st.tries + l1.length < mt)
    (hhit : bac cond q tmc b nb x y = some e) :
    ((l1 ++ x :: l2).foldl (stepCell cond q tmc b nb mt y) st).found = some e := by
  rw [List.foldl_append, fold_pass cond q tmc b nb mt y l1 st hf hs hp (by omega), List.foldl_cons]
  have hact : active mt (⟨none, false, st.tries + l1.length⟩ : EnumSt) = true := by simp [active, ht]
  have hstep : stepCell cond q tmc b nb mt y ⟨none, false, st.tries + l1.length⟩ x
      = ⟨some e, x == 0 && y == 0, st.tries + l1.length + 1⟩ := by
    simp only [stepCell, hact, if_true, hhit]
  rw [hstep, fold_inactive]
  simp [active]

/-- number of cells of a row / of all rows before `y` -/
def rowLen (pre : EnumPre) (y : Int) : Nat :=
  match rowBounds pre y with
  | some (lo, hi) => (intRange lo hi).length
  | none => 0

def cellsOfRows (pre : EnumPre) (rows : List Int) : Nat := (rows.map (rowLen pre)).sum

theorem rows_pass (pre : EnumPre) : ∀ (rows : List Int) (st r : EnumSt), st.found = none → st.stop = false →
    rows.foldlM (rowFold cond q tmc b nb mt pre) st = some r →
    (∀ y ∈ rows, ∀ lo hi, rowBounds pre y = some (lo, hi) → ∀ x ∈ intRange lo hi, Pass cond q tmc b nb x y) →
    st.tries + cellsOfRows pre rows < mt →
    r = ⟨none, false, st.tries + cellsOfRows pre rows⟩ := by
  intro rows
  induction rows with
  | nil =>
    intro st r hf hs h _ _
    simp only [List.foldlM_nil] at h
    cases st; simp_all [cellsOfRows]
  | cons y ys ih =>
    intro st r hf hs h hp ht
    have hsum : cellsOfRows pre (y :: ys) = rowLen pre y + cellsOfRows pre ys := by
      simp [cellsOfRows]
    rw [hsum] at ht ⊢
    have hact : active mt st = true := by simp [active, hf, hs]; omega
    rw [List.foldlM_cons] at h
    simp only [rowFold, hact, if_true] at h
    cases hrb : rowBounds pre y with
    | none => rw [hrb] at h; simp at h
    | some lh =>
      obtain ⟨lo, hi⟩ := lh
      rw [hrb] at h
      simp only [Option.bind_eq_bind, Option.bind_some] at h
      have hlen : rowLen pre y = (intRange lo hi).length := by simp [rowLen, hrb]
      rw [fold_pass cond q tmc b nb mt y (intRange lo hi) st hf hs (hp y List.mem_cons_self lo hi hrb)
        (by omega)] at h
      have := ih _ r rfl rfl h (fun y' hy' => hp y' (List.mem_cons_of_mem _ hy')) (by simp only; omega)
      rw [this, hlen]
      simp only [EnumSt.mk.injEq, true_and]
      omega


end loops

/-! ### the whole routine -/
def qfA (q : Int) (b : M2) : Int := norm q b.a00 b.a10
def qfB (q : Int) (b : M2) : Int := bil q b.a00 b.a10 b.a01 b.a11 * 2
def qfC (q : Int) (b : M2) : Int := norm q b.a01 b.a11
/-- `norm_bound_for_enumeration` -/
def nbeOf (q : Int) (tmc : V2) (nb : Int) : Int := if nb - normV q tmc ≤ 0 then nb else nb - normV q tmc

/-- the precomputation of `quat_dim2_lattice_qf_enumerate_short_vec` when it gets as far as the loops -/
def enumPre (q : Int) (tmc : V2) (b : M2) (nb : Int) : Option EnumPre :=
  if qfA q b * qfC q b * 4 - qfB q b * qfB q b ≤ 0 then none
  else
    match boundGen (2 * qfA q b * (2 * qfA q b) * nbeOf q tmc nb)
        (2 * qfA q b * (2 * qfA q b) * qfC q b - qfB q b * qfB q b) 0 1 with
    | some (some boundY) =>
      some ⟨2 * qfA q b * (2 * qfA q b) * nbeOf q tmc nb, 2 * qfA q b * (2 * qfA q b) * qfC q b - qfB q b * qfB q b,
            2 * qfA q b * (2 * qfA q b) * qfA q b, 2 * qfA q b, qfB q b, boundY⟩
    | _ => none

theorem enumerateShortVec_def (cond : V2 → Option Elem) (q : Int) (tmc : V2) (b : M2) (nb : Int) (mt : Nat) :
    enumerateShortVec cond q tmc b nb mt =
      if qfA q b * qfC q b * 4 - qfB q b * qfB q b ≤ 0 then some none
      else
        match boundGen (2 * qfA q b * (2 * qfA q b) * nbeOf q tmc nb)
            (2 * qfA q b * (2 * qfA q b) * qfC q b - qfB q b * qfB q b) 0 1 with
        | none => none
        | some none => none
        | some (some boundY) =>
          match enumOuter cond q tmc b nb mt
              ⟨2 * qfA q b * (2 * qfA q b) * nbeOf q tmc nb, 2 * qfA q b * (2 * qfA q b) * qfC q b - qfB q b * qfB q b,
               2 * qfA q b * (2 * qfA q b) * qfA q b, 2 * qfA q b, qfB q b, boundY⟩
              (2 * boundY.toNat + 2) (-boundY - 1) ⟨none, false, 0⟩ with
          | none => none
          | some st => some st.found := rfl

/-- **refinement**: the routine is the aborting fold of `rowFold` over the rows `-bound_y … bound_y`, each row the
    fold of `stepCell` over its x-range — i.e. the cells are processed in the order y ascending, x ascending, each cell
    costs one try, and processing stops after a hit, after the cell (0,0), or when `max_tries` is used up. -/
theorem enumerateShortVec_eq_fold (cond : V2 → Option Elem) (q : Int) (tmc : V2) (b : M2) (nb : Int) (mt : Nat)
    {pre : EnumPre} (h : enumPre q tmc b nb = some pre) :
    enumerateShortVec cond q tmc b nb mt
      = ((intRange (-pre.boundY) pre.boundY).foldlM (rowFold cond q tmc b nb mt pre) ⟨none, false, 0⟩).map (·.found) := by
  rw [enumerateShortVec_def]
  simp only [enumPre] at h
  split at h
  · simp at h
  · rename_i hdisc
    rw [if_neg hdisc]
    split at h
    · rename_i boundY hb
      simp only [Option.some.injEq] at h
      subst h
      rw [hb]
      simp only
      rw [outer_eq_fold cond q tmc b nb mt _ _ _ _ (by simp only; omega)]
      rw [show (-boundY - 1 + 1 : Int) = -boundY by omega]
      cases (intRange (-boundY) boundY).foldlM (m := Option) (rowFold cond q tmc b nb mt _) (⟨none, false, 0⟩ : EnumSt) <;> rfl
    · simp at h

/-- **completeness relative to the enumerated box, with the exact stop conditions.**  If the routine does not abort
    and the cell `(x, y)` lies in the box (`|y| ≤ bound_y`, `lo ≤ x ≤ hi` for the row's x-range), every EARLIER cell in
    the enumeration order (rows `y' < y` completely, then `x' < x` in row `y`) neither satisfies bound+condition nor is
    the origin (0,0), fewer than `max_tries` cells precede it, and bound+condition holds at `(x,y)` with element `e`,
    then the routine returns 1 with `*res = e`. -/
theorem enum_complete_in_box (cond : V2 → Option Elem) (q : Int) (tmc : V2) (b : M2) (nb : Int) (mt : Nat)
    {pre : EnumPre} (hpre : enumPre q tmc b nb = some pre) {r : Option Elem}
    (hres : enumerateShortVec cond q tmc b nb mt = some r)
    {x y lo hi : Int} (hy1 : -pre.boundY ≤ y) (hy2 : y ≤ pre.boundY) (hrow : rowBounds pre y = some (lo, hi))
    (hx1 : lo ≤ x) (hx2 : x ≤ hi)
    (hrows : ∀ y' ∈ intRange (-pre.boundY) (y - 1), ∀ lo' hi', rowBounds pre y' = some (lo', hi') →
      ∀ x' ∈ intRange lo' hi', Pass cond q tmc b nb x' y')
    (hrowy : ∀ x' ∈ intRange lo (x - 1), Pass cond q tmc b nb x' y)
    (htries : cellsOfRows pre (intRange (-pre.boundY) (y - 1)) + (intRange lo (x - 1)).length < mt)
    {e : Elem} (hhit : bac cond q tmc b nb x y = some e) : r = some e := by
  rw [enumerateShortVec_eq_fold cond q tmc b nb mt hpre, intRange_split hy1 hy2, List.foldlM_append] at hres
  cases h1 : (intRange (-pre.boundY) (y - 1)).foldlM (m := Option) (rowFold cond q tmc b nb mt pre) (⟨none, false, 0⟩ : EnumSt) with
  | none => rw [h1] at hres; simp at hres
  | some s1 =>
    rw [h1] at hres
    have hs1 := rows_pass cond q tmc b nb mt pre _ _ s1 rfl rfl h1 hrows (by simp only; omega)
    simp only [Option.bind_eq_bind, Option.bind_some, List.foldlM_cons] at hres
    have hact : active mt s1 = true := by
      rw [hs1]; simp [active]; omega
    have hrf : rowFold cond q tmc b nb mt pre s1 y
        = some ((intRange lo hi).foldl (stepCell cond q tmc b nb mt y) s1) := by
      simp [rowFold, hact, hrow]
    rw [hrf] at hres
    simp only [Option.bind_some] at hres
    have hfound : ((intRange lo hi).foldl (stepCell cond q tmc b nb mt y) s1).found = some e := by
      rw [intRange_split hx1 hx2]
      apply fold_hit cond q tmc b nb mt y _ _ x s1 e (by rw [hs1]) (by rw [hs1]) hrowy _ hhit
      rw [hs1]; simp only; omega
    have hin : active mt ((intRange lo hi).foldl (stepCell cond q tmc b nb mt y) s1) = false := by
      simp [active, hfound]
    rw [foldlM_inactive cond q tmc b nb mt pre _ hin] at hres
    simp only [Option.map_some, Option.some.injEq] at hres
    rw [← hres, hfound]


/-! ### what the box contains -/

/-- integer core of the x-range bound: `(2ax+by)²·a ≤ y²(4a²c-b²) + 4a²N` on the ellipse (uses `b² < 4ac`, `a ≥ 1`) -/
theorem x_core {a bq c n x y : Int} (ha : 0 < a) (hdisc : 0 < a * c * 4 - bq * bq)
    (h : a * x * x + bq * x * y + c * y * y ≤ n) :
    (2 * a * x + bq * y) * (2 * a * x + bq * y) * a
      ≤ y * y * (2 * a * (2 * a) * c - bq * bq) + 2 * a * (2 * a) * n := by
  have h1 : 0 ≤ y * y := mul_self_nonneg y
  have h2 : (a + 1) * (bq * bq) ≤ 8 * (a * a) * c := by
    have hb : bq * bq ≤ 4 * a * c := by linarith
    have hbb : 0 ≤ bq * bq := mul_self_nonneg bq
    have : (a + 1) * (bq * bq) ≤ 2 * a * (bq * bq) := by nlinarith
    have : 2 * a * (bq * bq) ≤ 2 * a * (4 * a * c) := by nlinarith
    nlinarith
  have h3 : 0 ≤ (2 * a * (2 * a)) * (n - (a * x * x + bq * x * y + c * y * y)) := by
    apply Int.mul_nonneg <;> nlinarith
  have h4 : 0 ≤ (y * y) * (8 * (a * a) * c - (a + 1) * (bq * bq)) := Int.mul_nonneg h1 (by linarith)
  nlinarith

/-- the form is non-negative when `a > 0`, `4ac - b² > 0` -/
theorem qf_nonneg {a bq c x y : Int} (ha : 0 < a) (hdisc : 0 < a * c * 4 - bq * bq) :
    0 ≤ a * x * x + bq * x * y + c * y * y := by
  have h1 : 0 ≤ (2 * a * x + bq * y) * (2 * a * x + bq * y) := mul_self_nonneg _
  have h2 : 0 ≤ (a * c * 4 - bq * bq) * (y * y) := Int.mul_nonneg (Int.le_of_lt hdisc) (mul_self_nonneg y)
  have h3 : 4 * a * (a * x * x + bq * x * y + c * y * y)
      = (2 * a * x + bq * y) * (2 * a * x + bq * y) + (a * c * 4 - bq * bq) * (y * y) := by ring
  by_contra hneg
  have : 4 * a * (a * x * x + bq * x * y + c * y * y) < 0 := by
    apply Int.mul_neg_of_pos_of_neg <;> omega
  omega

/-- **x-range**: for every row `y` and every integer `x` on the ellipse `a x² + b x y + c y² ≤ N` the two bound
    generations succeed and `x` lies strictly inside the enumerated range `[-x_v, bound_x]`. -/
theorem x_range_covers {a bq c n x y : Int} (ha : 0 < a) (hdisc : 0 < a * c * 4 - bq * bq)
    (h : a * x * x + bq * x * y + c * y * y ≤ n) :
    ∃ bx xv : Int,
      boundGen (y * y * (2 * a * (2 * a) * c - bq * bq) + 2 * a * (2 * a) * n) (2 * a * (2 * a) * a) (-(bq * y)) (2 * a)
        = some (some bx) ∧
      boundGen (y * y * (2 * a * (2 * a) * c - bq * bq) + 2 * a * (2 * a) * n) (2 * a * (2 * a) * a) (-(-(bq * y))) (2 * a)
        = some (some xv) ∧ -xv < x ∧ x < bx := by
  have hcore := x_core ha hdisc h
  have hn : 0 ≤ n := le_trans (qf_nonneg ha hdisc) h
  have hA3 : 0 < 2 * a * (2 * a) * a := by positivity
  have h2a : (2 * a) ≠ 0 := by omega
  have hc : 0 < c := by
    by_contra hc
    have : a * c ≤ 0 := Int.mul_nonpos_of_nonneg_of_nonpos (Int.le_of_lt ha) (by omega)
    have : 0 ≤ bq * bq := mul_self_nonneg bq
    omega
  have hf : 0 ≤ 2 * a * (2 * a) * c - bq * bq := by nlinarith
  have hprod : 0 ≤ y * y * (2 * a * (2 * a) * c - bq * bq) + 2 * a * (2 * a) * n := by
    have := Int.mul_nonneg (mul_self_nonneg y) hf
    have : 0 ≤ 2 * a * (2 * a) * n := by positivity
    omega
  obtain ⟨bx, hbx, hbxu⟩ := boundGen_upper (numB := -(bq * y)) hA3 h2a hprod
  obtain ⟨xv, hxv, hxvu⟩ := boundGen_upper (numB := -(-(bq * y))) hA3 h2a hprod
  refine ⟨bx, xv, hbx, hxv, ?_, ?_⟩
  all_goals
    have haq : (0 : ℚ) < a := by exact_mod_cast ha
    have ht0 : (0 : ℚ) ≤ |((2 * a * x + bq * y : Int) : ℚ)| / (2 * a) := by positivity
    have htl : (|((2 * a * x + bq * y : Int) : ℚ)| / (2 * a)) ^ 2 * ((2 * a * (2 * a) * a : Int) : ℚ)
        ≤ ((y * y * (2 * a * (2 * a) * c - bq * bq) + 2 * a * (2 * a) * n : Int) : ℚ) := by
      have e : (|((2 * a * x + bq * y : Int) : ℚ)| / (2 * a)) ^ 2 * ((2 * a * (2 * a) * a : Int) : ℚ)
          = (((2 * a * x + bq * y) * (2 * a * x + bq * y) * a : Int) : ℚ) := by
        rw [div_pow, sq_abs]; push_cast; field_simp
      rw [e]; exact_mod_cast hcore
  · have := hxvu _ ht0 htl
    have hle : -((x : ℚ)) ≤ |((2 * a * x + bq * y : Int) : ℚ)| / (2 * a) + ((-(-(bq * y)) : Int) : ℚ) / ((2 * a : Int) : ℚ) := by
      have habs : -((2 * a * x + bq * y : Int) : ℚ) ≤ |((2 * a * x + bq * y : Int) : ℚ)| := neg_le_abs _
      have : -((x : ℚ)) = -((2 * a * x + bq * y : Int) : ℚ) / (2 * a) + ((-(-(bq * y)) : Int) : ℚ) / ((2 * a : Int) : ℚ) := by
        push_cast; field_simp; ring
      rw [this]
      have : -((2 * a * x + bq * y : Int) : ℚ) / (2 * a) ≤ |((2 * a * x + bq * y : Int) : ℚ)| / (2 * a) :=
        div_le_div_of_nonneg_right habs (by positivity)
      linarith
    have : -(x : ℚ) < xv := lt_of_le_of_lt hle this
    have : ((-xv : Int) : ℚ) < x := by push_cast; linarith
    exact_mod_cast this
  · have := hbxu _ ht0 htl
    have hle : (x : ℚ) ≤ |((2 * a * x + bq * y : Int) : ℚ)| / (2 * a) + ((-(bq * y) : Int) : ℚ) / ((2 * a : Int) : ℚ) := by
      have habs : ((2 * a * x + bq * y : Int) : ℚ) ≤ |((2 * a * x + bq * y : Int) : ℚ)| := le_abs_self _
      have : (x : ℚ) = ((2 * a * x + bq * y : Int) : ℚ) / (2 * a) + ((-(bq * y) : Int) : ℚ) / ((2 * a : Int) : ℚ) := by
        push_cast; field_simp; ring
      rw [this]
      have : ((2 * a * x + bq * y : Int) : ℚ) / (2 * a) ≤ |((2 * a * x + bq * y : Int) : ℚ)| / (2 * a) :=
        div_le_div_of_nonneg_right habs (by positivity)
      linarith
    have : (x : ℚ) < bx := lt_of_le_of_lt hle this
    exact_mod_cast this


/-- **y-range**: `bound_y` strictly bounds every `y` with `(4a²c - b²) y² ≤ 4a² N` (the inequality the code uses). -/
theorem y_range_covers {a bq c n y : Int} (ha : 0 < a) (hdisc : 0 < a * c * 4 - bq * bq) (hn : 0 ≤ n)
    (hy : (2 * a * (2 * a) * c - bq * bq) * (y * y) ≤ 2 * a * (2 * a) * n) :
    ∃ boundY : Int, boundGen (2 * a * (2 * a) * n) (2 * a * (2 * a) * c - bq * bq) 0 1 = some (some boundY) ∧
      -boundY < y ∧ y < boundY := by
  have hc : 0 < c := by
    by_contra hc
    have : a * c ≤ 0 := Int.mul_nonpos_of_nonneg_of_nonpos (Int.le_of_lt ha) (by omega)
    have : 0 ≤ bq * bq := mul_self_nonneg bq
    omega
  have hf : 0 < 2 * a * (2 * a) * c - bq * bq := by nlinarith
  have hnum : 0 ≤ 2 * a * (2 * a) * n := by positivity
  obtain ⟨by', hby, hbyu⟩ := boundGen_upper (numB := 0) hf (show (1 : Int) ≠ 0 by decide) hnum
  refine ⟨by', hby, ?_, ?_⟩
  all_goals
    have h0 : (0 : ℚ) ≤ |(y : ℚ)| := abs_nonneg _
    have hl : |(y : ℚ)| ^ 2 * ((2 * a * (2 * a) * c - bq * bq : Int) : ℚ) ≤ ((2 * a * (2 * a) * n : Int) : ℚ) := by
      rw [sq_abs]
      have : (((2 * a * (2 * a) * c - bq * bq) * (y * y) : Int) : ℚ) ≤ ((2 * a * (2 * a) * n : Int) : ℚ) := by
        exact_mod_cast hy
      push_cast at this ⊢
      nlinarith
    have := hbyu _ h0 hl
    simp only [Int.cast_zero, Int.cast_one, zero_div, add_zero] at this
  · have h1 : -(y : ℚ) ≤ |(y : ℚ)| := neg_le_abs _
    have : ((-by' : Int) : ℚ) < y := by push_cast; linarith
    exact_mod_cast this
  · have h1 : (y : ℚ) ≤ |(y : ℚ)| := le_abs_self _
    have : (y : ℚ) < by' := by linarith
    exact_mod_cast this

/-- on the ellipse `(4ac - b²) y² ≤ 4aN`; this is the code's inequality `(4a²c - b²) y² ≤ 4a²N` when `a = 1` or `b = 0` -/
theorem ellipse_y {a bq c n x y : Int} (ha : 0 < a) (h : a * x * x + bq * x * y + c * y * y ≤ n) :
    (a * c * 4 - bq * bq) * (y * y) ≤ 4 * a * n := by
  have h1 : 0 ≤ (2 * a * x + bq * y) * (2 * a * x + bq * y) := mul_self_nonneg _
  have h3 : 4 * a * (a * x * x + bq * x * y + c * y * y)
      = (2 * a * x + bq * y) * (2 * a * x + bq * y) + (a * c * 4 - bq * bq) * (y * y) := by ring
  have : 4 * a * (a * x * x + bq * x * y + c * y * y) ≤ 4 * a * n := by
    apply Int.mul_le_mul_of_nonneg_left h; omega
  omega

theorem code_y_of_ellipse {a bq c n x y : Int} (ha : 0 < a) (hspecial : a = 1 ∨ bq = 0)
    (h : a * x * x + bq * x * y + c * y * y ≤ n) :
    (2 * a * (2 * a) * c - bq * bq) * (y * y) ≤ 2 * a * (2 * a) * n := by
  rcases hspecial with h1 | h0
  · subst h1
    have := ellipse_y (by decide : (0 : Int) < 1) h
    linarith
  · subst h0
    have hx : 0 ≤ a * x * x := by
      have : 0 ≤ x * x := mul_self_nonneg x
      have := Int.mul_nonneg (Int.le_of_lt ha) this
      linarith
    have hcy : c * y * y ≤ n := by linarith
    have : 2 * a * (2 * a) * (c * y * y) ≤ 2 * a * (2 * a) * n := by
      apply Int.mul_le_mul_of_nonneg_left hcy; positivity
    linarith

/-- the fields of `pre` -/
theorem enumPre_spec {q : Int} {tmc : V2} {b : M2} {nb : Int} {pre : EnumPre} (h : enumPre q tmc b nb = some pre) :
    0 < qfA q b * qfC q b * 4 - qfB q b * qfB q b ∧
    pre.fourA2NormBound = 2 * qfA q b * (2 * qfA q b) * nbeOf q tmc nb ∧
    pre.fourA2CMinusB2 = 2 * qfA q b * (2 * qfA q b) * qfC q b - qfB q b * qfB q b ∧
    pre.fourA3 = 2 * qfA q b * (2 * qfA q b) * qfA q b ∧ pre.twoA = 2 * qfA q b ∧ pre.qfB = qfB q b ∧
    boundGen (2 * qfA q b * (2 * qfA q b) * nbeOf q tmc nb)
      (2 * qfA q b * (2 * qfA q b) * qfC q b - qfB q b * qfB q b) 0 1 = some (some pre.boundY) := by
  simp only [enumPre] at h
  split at h
  · simp at h
  · rename_i hd
    split at h
    · rename_i boundY hb
      simp only [Option.some.injEq] at h
      subst h
      exact ⟨by omega, rfl, rfl, rfl, rfl, rfl, hb⟩
    · simp at h

/-- **what the enumerated box contains**: every integer point `(x,y)` of the centred ellipse
    `a x² + b x y + c y² ≤ norm_bound_for_enumeration` has its `x` strictly inside the x-range of row `y`; and `y` is
    strictly inside `[-bound_y, bound_y]` provided `(4a²c - b²) y² ≤ 4a² N` — which follows from the ellipse when
    `a = 1` or `b = 0`, but NOT in general (`enumeration_box_misses_ellipse`). -/
theorem box_contains {q : Int} {tmc : V2} {b : M2} {nb : Int} {pre : EnumPre} (hpre : enumPre q tmc b nb = some pre)
    (ha : 0 < qfA q b) {x y : Int}
    (h : qfA q b * x * x + qfB q b * x * y + qfC q b * y * y ≤ nbeOf q tmc nb) :
    (∃ lo hi, rowBounds pre y = some (lo, hi) ∧ lo < x ∧ x < hi) ∧
    ((2 * qfA q b * (2 * qfA q b) * qfC q b - qfB q b * qfB q b) * (y * y) ≤ 2 * qfA q b * (2 * qfA q b) * nbeOf q tmc nb →
      -pre.boundY < y ∧ y < pre.boundY) := by
  obtain ⟨hdisc, e1, e2, e3, e4, e5, hby⟩ := enumPre_spec hpre
  constructor
  · obtain ⟨bx, xv, h1, h2, h3, h4⟩ := x_range_covers ha hdisc h
    refine ⟨-xv, bx, ?_, h3, h4⟩
    simp only [rowBounds, e1, e2, e3, e4, e5, h1, h2]
  · intro hy
    have hn : 0 ≤ nbeOf q tmc nb := le_trans (qf_nonneg ha hdisc) h
    obtain ⟨by', hb1, hb2, hb3⟩ := y_range_covers ha hdisc hn hy
    rw [hby] at hb1
    simp only [Option.some.injEq] at hb1
    subst hb1
    exact ⟨hb2, hb3⟩

end SqiProofs.LllEnum

import SqiProofs.LllCheck
import Mathlib.LinearAlgebra.Matrix.Block
import Mathlib.LinearAlgebra.Matrix.Determinant.Basic
/- C16 (2b): the product of the Gram-Schmidt norms is the Gram determinant:
     B_0 B_1 B_2 B_3 = det( R D Rᵀ ) = q² det(R)²      (D = diag(1,1,q,q), R = the four vectors as rows)
   via R = M·S (M unit lower triangular = the mu's, S = the orthogonal Gram-Schmidt vectors) and S D Sᵀ = diag(B). -/
namespace SqiProofs.LllGram
open SqiModel.Quat SqiModel.Lll SqiProofs.LllOps SqiProofs.LllCheck

/-! ### orthogonality of the Gram-Schmidt vectors (needs the earlier norms to be non-zero) -/
theorem orth_step1 (q : ℚ) (b g0 : QV) (n0 : formQ q g0 g0 ≠ 0) :
    formQ q (b - proj q b g0 • g0) g0 = 0 := by
  rw [formQ_sub_left, formQ_smul_left, proj]
  field_simp
  ring

theorem orth_step2 (q : ℚ) (b g0 g1 : QV) (h10 : formQ q g1 g0 = 0) (n0 : formQ q g0 g0 ≠ 0) (n1 : formQ q g1 g1 ≠ 0) :
    formQ q (b - proj q b g0 • g0 - proj q b g1 • g1) g0 = 0 ∧
    formQ q (b - proj q b g0 • g0 - proj q b g1 • g1) g1 = 0 := by
  have h01 : formQ q g0 g1 = 0 := by rw [formQ_comm]; exact h10
  constructor
  · rw [formQ_sub_left, formQ_sub_left, formQ_smul_left, formQ_smul_left, h10, proj]
    field_simp
    ring
  · rw [formQ_sub_left, formQ_sub_left, formQ_smul_left, formQ_smul_left, h01]
    simp only [proj]
    field_simp
    ring

theorem orth_step3 (q : ℚ) (b g0 g1 g2 : QV) (h10 : formQ q g1 g0 = 0) (h20 : formQ q g2 g0 = 0)
    (h21 : formQ q g2 g1 = 0) (n0 : formQ q g0 g0 ≠ 0) (n1 : formQ q g1 g1 ≠ 0) (n2 : formQ q g2 g2 ≠ 0) :
    formQ q (b - proj q b g0 • g0 - proj q b g1 • g1 - proj q b g2 • g2) g0 = 0 ∧
    formQ q (b - proj q b g0 • g0 - proj q b g1 • g1 - proj q b g2 • g2) g1 = 0 ∧
    formQ q (b - proj q b g0 • g0 - proj q b g1 • g1 - proj q b g2 • g2) g2 = 0 := by
  have h01 : formQ q g0 g1 = 0 := by rw [formQ_comm]; exact h10
  have h02 : formQ q g0 g2 = 0 := by rw [formQ_comm]; exact h20
  have h12 : formQ q g1 g2 = 0 := by rw [formQ_comm]; exact h21
  refine ⟨?_, ?_, ?_⟩
  · rw [formQ_sub_left, formQ_sub_left, formQ_sub_left, formQ_smul_left, formQ_smul_left, formQ_smul_left, h10, h20]
    simp only [proj]
    field_simp
    ring
  · rw [formQ_sub_left, formQ_sub_left, formQ_sub_left, formQ_smul_left, formQ_smul_left, formQ_smul_left, h01, h21]
    simp only [proj]
    field_simp
    ring
  · rw [formQ_sub_left, formQ_sub_left, formQ_sub_left, formQ_smul_left, formQ_smul_left, formQ_smul_left, h02, h12]
    simp only [proj]
    field_simp
    ring

/-- pairwise orthogonality of `gs q b` when the first three norms are non-zero -/
theorem gs_orthogonal (q : ℚ) (b : Fin 4 → QV) (n0 : Bn q b 0 ≠ 0) (n1 : Bn q b 1 ≠ 0) (n2 : Bn q b 2 ≠ 0) :
    ∀ i j : Fin 4, i ≠ j → formQ q (gs q b i) (gs q b j) = 0 := by
  have h10 : formQ q (gs q b 1) (gs q b 0) = 0 := orth_step1 q (b 1) (b 0) n0
  obtain ⟨h20, h21⟩ : formQ q (gs q b 2) (gs q b 0) = 0 ∧ formQ q (gs q b 2) (gs q b 1) = 0 :=
    orth_step2 q (b 2) (gs q b 0) (gs q b 1) h10 n0 n1
  obtain ⟨h30, h31, h32⟩ : formQ q (gs q b 3) (gs q b 0) = 0 ∧ formQ q (gs q b 3) (gs q b 1) = 0 ∧
      formQ q (gs q b 3) (gs q b 2) = 0 :=
    orth_step3 q (b 3) (gs q b 0) (gs q b 1) (gs q b 2) h10 h20 h21 n0 n1 n2
  intro i j hij
  rcases fin4_cases i with rfl | rfl | rfl | rfl <;> rcases fin4_cases j with rfl | rfl | rfl | rfl <;>
    first
    | exact absurd rfl hij
    | assumption
    | (rw [formQ_comm]; assumption)


/-! ### matrices -/
/-- the four vectors as rows -/
def Rq (b : Fin 4 → QV) : Matrix (Fin 4) (Fin 4) ℚ := fun i k => b i k
/-- the Gram-Schmidt vectors as rows -/
def Sq (q : ℚ) (b : Fin 4 → QV) : Matrix (Fin 4) (Fin 4) ℚ := fun i k => gs q b i k
/-- the unit lower triangular matrix of the `mu_ij` -/
def Mq (q : ℚ) (b : Fin 4 → QV) : Matrix (Fin 4) (Fin 4) ℚ :=
  fun i j => if j < i then mu q b i j else if i = j then 1 else 0
/-- the diagonal of the norm form -/
def Dq (q : ℚ) : Fin 4 → ℚ := ![1, 1, q, q]

theorem R_eq_M_mul_S (q : ℚ) (b : Fin 4 → QV) : Rq b = Mq q b * Sq q b := by
  ext i k
  rcases fin4_cases i with rfl | rfl | rfl | rfl
  · simp [Matrix.mul_apply, Fin.sum_univ_four, Mq, Sq, Rq, gs]
  · simp [Matrix.mul_apply, Fin.sum_univ_four, Mq, Sq, Rq, gs, mu]
  · simp [Matrix.mul_apply, Fin.sum_univ_four, Mq, Sq, Rq, gs, mu]
  · simp [Matrix.mul_apply, Fin.sum_univ_four, Mq, Sq, Rq, gs, mu]

theorem det_M (q : ℚ) (b : Fin 4 → QV) : (Mq q b).det = 1 := by
  rw [Matrix.det_of_lowerTriangular]
  · simp [Mq, Fin.prod_univ_four]
  · intro i j hij
    have h : i < j := hij
    simp only [Mq]
    rw [if_neg (by omega), if_neg (by omega)]

theorem S_gram (q : ℚ) (b : Fin 4 → QV) (i j : Fin 4) :
    (Sq q b * Matrix.diagonal (Dq q) * (Sq q b).transpose) i j = formQ q (gs q b i) (gs q b j) := by
  simp [Matrix.mul_apply, Matrix.diagonal, Fin.sum_univ_four, Sq, Dq, formQ]
  ring

theorem det_D (q : ℚ) : (Matrix.diagonal (Dq q)).det = q ^ 2 := by
  rw [Matrix.det_diagonal]
  simp [Dq, Fin.prod_univ_four]
  ring

/-- **the product of the Gram-Schmidt norms is the Gram determinant** `q² det(R)²` -/
theorem prod_Bn_eq_det (q : ℚ) (b : Fin 4 → QV) (n0 : Bn q b 0 ≠ 0) (n1 : Bn q b 1 ≠ 0) (n2 : Bn q b 2 ≠ 0) :
    Bn q b 0 * Bn q b 1 * Bn q b 2 * Bn q b 3 = q ^ 2 * (Rq b).det ^ 2 := by
  have horth := gs_orthogonal q b n0 n1 n2
  have hdiag : Sq q b * Matrix.diagonal (Dq q) * (Sq q b).transpose = Matrix.diagonal (fun i => Bn q b i) := by
    ext i j
    rw [S_gram]
    by_cases h : i = j
    · subst h; simp [Bn]
    · rw [horth i j h]; simp [Matrix.diagonal, h]
  have hdet := congrArg Matrix.det hdiag
  rw [Matrix.det_mul, Matrix.det_mul, Matrix.det_transpose, det_D, Matrix.det_diagonal, Fin.prod_univ_four] at hdet
  have hR : (Rq b).det = (Sq q b).det := by
    rw [R_eq_M_mul_S q b, Matrix.det_mul, det_M, one_mul]
  rw [hR, ← hdet]
  ring


/-! ### back to the integer model -/
theorem Rq_rowsQ (m : Mat4) : Rq (rowsQ m) = (toM m).map (fun x : ℤ => (x : ℚ)) := rfl

theorem det_Rq_rowsQ (m : Mat4) : (Rq (rowsQ m)).det = (((toM m).det : ℤ) : ℚ) := by
  rw [Rq_rowsQ, Int.cast_det]

/-- product of the Gram-Schmidt norms of the ROWS of an integer matrix -/
theorem prod_Bn_rows (q : Int) (m : Mat4) (hpos : ∀ i : Fin 4, 0 < Bn q (rowsQ m) i) :
    Bn q (rowsQ m) 0 * Bn q (rowsQ m) 1 * Bn q (rowsQ m) 2 * Bn q (rowsQ m) 3
      = (q : ℚ) ^ 2 * (((toM m).det : ℤ) : ℚ) ^ 2 := by
  rw [prod_Bn_eq_det (q : ℚ) (rowsQ m) (ne_of_gt (hpos 0)) (ne_of_gt (hpos 1)) (ne_of_gt (hpos 2)), det_Rq_rowsQ]

/-- … and of the COLUMNS -/
theorem prod_Bn_cols (q : Int) (m : Mat4) (hpos : ∀ i : Fin 4, 0 < Bn q (colsQ m) i) :
    Bn q (colsQ m) 0 * Bn q (colsQ m) 1 * Bn q (colsQ m) 2 * Bn q (colsQ m) 3
      = (q : ℚ) ^ 2 * (((toM m).det : ℤ) : ℚ) ^ 2 := by
  rw [colsQ_eq] at hpos ⊢
  rw [prod_Bn_rows q m.transpose hpos, toM_transpose, Matrix.det_transpose]

/-- two bases of the same lattice have the same squared determinant -/
theorem det_sq_of_sameRowLattice {a b : Mat4} (h : sameRowLattice a b = true) (hb : (toM b).det ≠ 0) :
    (toM b).det ^ 2 = (toM a).det ^ 2 := by
  simp only [sameRowLattice, Bool.and_eq_true] at h
  obtain ⟨x, hx⟩ := rowsIn_sound h.1
  obtain ⟨y, hy⟩ := rowsIn_sound h.2
  have e1 : (toM b).det = (toM x).det * (toM a).det := by rw [hx, toM_mul, Matrix.det_mul]
  have e2 : (toM a).det = (toM y).det * (toM b).det := by rw [hy, toM_mul, Matrix.det_mul]
  have hxy : (toM x).det * (toM y).det = 1 := by
    have : (toM b).det * ((toM x).det * (toM y).det) = (toM b).det * 1 := by
      rw [mul_one]; nth_rewrite 2 [e1]; rw [e2]; ring
    exact mul_left_cancel₀ hb this
  have hx1 : (toM x).det = 1 ∨ (toM x).det = -1 := Int.isUnit_iff.mp (IsUnit.of_mul_eq_one _ hxy)
  rw [e1]
  rcases hx1 with h1 | h1 <;> rw [h1] <;> ring

end SqiProofs.LllGram

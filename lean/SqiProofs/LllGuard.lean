import SqiProofs.LllOps
import SqiProofs.QuatMat
import Mathlib.LinearAlgebra.Matrix.ToLinearEquiv
/- C16: the entry guard of the repaired `quat_lattice_lll` (repo commit ba3b4ab): exact rank test through
   `ibz_mat_4x4_inv_with_det_as_denom` (= `Mat4.invWithDet`, whose second component is proved to be the determinant
   in SqiProofs/QuatMat.lean). -/
namespace SqiProofs.LllGuard
open SqiModel.Quat SqiModel.Lll SqiProofs.LllOps

theorem toM_eq (m : Mat4) : toM m = SqiProofs.QuatMat.toMatrix m := by
  obtain ⟨⟨a00, a01, a02, a03⟩, ⟨a10, a11, a12, a13⟩, ⟨a20, a21, a22, a23⟩, ⟨a30, a31, a32, a33⟩⟩ := m
  ext i j
  rcases fin4_cases i with rfl | rfl | rfl | rfl <;> rcases fin4_cases j with rfl | rfl | rfl | rfl <;> rfl

theorem invWithDet_eq_det (m : Mat4) : m.invWithDet.2 = (toM m).det := by
  rw [toM_eq]; exact SqiProofs.QuatMat.invWithDet_det m

theorem guard_fail_iff (lat : Mat4) : lllGuard lat = some (-1) ↔ (toM lat).det = 0 := by
  unfold lllGuard
  rw [invWithDet_eq_det]
  split <;> simp_all

theorem guard_pass_iff (lat : Mat4) : lllGuard lat = none ↔ (toM lat).det ≠ 0 := by
  unfold lllGuard
  rw [invWithDet_eq_det]
  split <;> simp_all

/-- `det = 0` is rank deficiency: some non-zero integer vector is killed by the matrix (a non-trivial linear relation
    between the columns, i.e. between the lattice generators) -/
theorem det_zero_iff_dependent (lat : Mat4) :
    (toM lat).det = 0 ↔ ∃ v : Fin 4 → ℤ, v ≠ 0 ∧ (toM lat).mulVec v = 0 :=
  (Matrix.exists_mulVec_eq_zero_iff).symm

theorem repaired_of_singular (t : Trace) (lat : Mat4) (h : (toM lat).det = 0) : lllRepaired t lat = (-1, none) := by
  have := (guard_fail_iff lat).mpr h
  simp [lllRepaired, this]

theorem repaired_of_full_rank (t : Trace) (lat : Mat4) (h : (toM lat).det ≠ 0) :
    lllRepaired t lat = if t.floatZero then (-1, none) else (0, some (runCols t.ops lat)) := by
  have := (guard_pass_iff lat).mpr h
  simp [lllRepaired, this]


/-! ### full rank ⇒ every exact Gram-Schmidt norm is positive (the zero test can never fire in exact arithmetic) -/

/-- integer combination of the rows of `m` with coefficient vector `v` -/
def comb (v : Vec4) (m : Mat4) : Vec4 :=
  (((sm v.x0 m.r0).add (sm v.x1 m.r1)).add (sm v.x2 m.r2)).add (sm v.x3 m.r3)

theorem comb_sub (a b : Vec4) (m : Mat4) : comb (a.sub b) m = (comb a m).sub (comb b m) := by
  simp only [comb, sm, Vec4.sub, Vec4.add]; apply vec4_ext <;> ring

theorem comb_sm (k : Int) (a : Vec4) (m : Mat4) : comb (sm k a) m = sm k (comb a m) := by
  simp only [comb, sm, Vec4.add]; apply vec4_ext <;> ring

theorem comb_e0 (m : Mat4) : comb ⟨1, 0, 0, 0⟩ m = m.r0 := by
  simp only [comb, sm, Vec4.add]; apply vec4_ext <;> ring
theorem comb_e1 (m : Mat4) : comb ⟨0, 1, 0, 0⟩ m = m.r1 := by
  simp only [comb, sm, Vec4.add]; apply vec4_ext <;> ring
theorem comb_e2 (m : Mat4) : comb ⟨0, 0, 1, 0⟩ m = m.r2 := by
  simp only [comb, sm, Vec4.add]; apply vec4_ext <;> ring
theorem comb_e3 (m : Mat4) : comb ⟨0, 0, 0, 1⟩ m = m.r3 := by
  simp only [comb, sm, Vec4.add]; apply vec4_ext <;> ring

theorem comb_vecMul (v : Vec4) (m : Mat4) : getF (comb v m) = Matrix.vecMul (getF v) (toM m) := by
  obtain ⟨⟨a00, a01, a02, a03⟩, ⟨a10, a11, a12, a13⟩, ⟨a20, a21, a22, a23⟩, ⟨a30, a31, a32, a33⟩⟩ := m
  obtain ⟨v0, v1, v2, v3⟩ := v
  funext j
  rcases fin4_cases j with rfl | rfl | rfl | rfl <;>
    simp [comb, sm, Vec4.add, getF, Matrix.vecMul, dotProduct, Fin.sum_univ_four, toM, getRow] <;> ring

theorem getF_injective {a b : Vec4} (h : getF a = getF b) : a = b := by
  apply vec4_ext
  · exact congrFun h 0
  · exact congrFun h 1
  · exact congrFun h 2
  · exact congrFun h 3

/-- a vanishing non-trivial combination of the rows forces det = 0 -/
theorem det_zero_of_comb {v : Vec4} {m : Mat4} (hv : v ≠ Vec4.zero) (h : comb v m = Vec4.zero) : (toM m).det = 0 := by
  apply Matrix.exists_vecMul_eq_zero_iff.mp
  refine ⟨getF v, ?_, ?_⟩
  · intro h0
    apply hv
    apply getF_injective
    rw [h0]; funext j; rcases fin4_cases j with rfl | rfl | rfl | rfl <;> rfl
  · rw [← comb_vecMul, h]; funext j; rcases fin4_cases j with rfl | rfl | rfl | rfl <;> rfl

theorem form_pos {q : Int} (hq : 0 < q) {c : Vec4} (hc : c ≠ Vec4.zero) : 0 < form q c c := by
  obtain ⟨c0, c1, c2, c3⟩ := c
  simp only [form]
  have h0 : 0 ≤ c0 * c0 := mul_self_nonneg _
  have h1 : 0 ≤ c1 * c1 := mul_self_nonneg _
  have h2 : 0 ≤ c2 * c2 := mul_self_nonneg _
  have h3 : 0 ≤ c3 * c3 := mul_self_nonneg _
  by_contra hle
  have hsum : c0 * c0 + c1 * c1 + q * (c2 * c2 + c3 * c3) ≤ 0 := by omega
  have hq23 : 0 ≤ q * (c2 * c2 + c3 * c3) := Int.mul_nonneg (Int.le_of_lt hq) (by omega)
  have e0 : c0 * c0 = 0 := by omega
  have e1 : c1 * c1 = 0 := by omega
  have e23 : q * (c2 * c2 + c3 * c3) = 0 := by omega
  have e23' : c2 * c2 + c3 * c3 = 0 := by
    rcases Int.mul_eq_zero.mp e23 with h | h
    · omega
    · exact h
  have e2 : c2 * c2 = 0 := by omega
  have e3 : c3 * c3 = 0 := by omega
  apply hc
  simp only [Vec4.zero]
  rw [mul_self_eq_zero.mp e0, mul_self_eq_zero.mp e1, mul_self_eq_zero.mp e2, mul_self_eq_zero.mp e3]

/-- **exact Gram-Schmidt norms of a full-rank basis are positive** (q > 0) -/
theorem gsData_pos_of_det {q : Int} (hq : 0 < q) {m : Mat4} (hd : (toM m).det ≠ 0) : (gsData q m).pos = true := by
  -- coefficient vectors of the scaled Gram-Schmidt vectors
  let g := gsData q m
  let v0 : Vec4 := ⟨1, 0, 0, 0⟩
  let v1 : Vec4 := (sm g.n0 ⟨0, 1, 0, 0⟩).sub (sm g.t10 v0)
  let v2 : Vec4 := ((sm (g.n0 * g.n1) ⟨0, 0, 1, 0⟩).sub (sm (g.t20 * g.n1) v0)).sub (sm (g.t21 * g.n0) v1)
  let v3 : Vec4 := (((sm (g.n0 * g.n1 * g.n2) ⟨0, 0, 0, 1⟩).sub (sm (g.t30 * (g.n1 * g.n2)) v0)).sub
      (sm (g.t31 * (g.n0 * g.n2)) v1)).sub (sm (g.t32 * (g.n0 * g.n1)) v2)
  have c0 : g.c0 = comb v0 m := (comb_e0 m).symm
  have c1 : g.c1 = comb v1 m := by
    show (sm g.n0 m.r1).sub (sm g.t10 g.c0) = _
    rw [comb_sub, comb_sm, comb_sm, comb_e1, ← c0]
  have c2 : g.c2 = comb v2 m := by
    show ((sm (g.n0 * g.n1) m.r2).sub (sm (g.t20 * g.n1) g.c0)).sub (sm (g.t21 * g.n0) g.c1) = _
    rw [comb_sub, comb_sub, comb_sm, comb_sm, comb_sm, comb_e2, ← c0, ← c1]
  have c3 : g.c3 = comb v3 m := by
    show (((sm (g.n0 * g.n1 * g.n2) m.r3).sub (sm (g.t30 * (g.n1 * g.n2)) g.c0)).sub
      (sm (g.t31 * (g.n0 * g.n2)) g.c1)).sub (sm (g.t32 * (g.n0 * g.n1)) g.c2) = _
    rw [comb_sub, comb_sub, comb_sub, comb_sm, comb_sm, comb_sm, comb_sm, comb_e3, ← c0, ← c1, ← c2]
  have key : ∀ (v : Vec4) (c : Vec4), c = comb v m → v ≠ Vec4.zero → 0 < form q c c := by
    intro v c hc hv
    apply form_pos hq
    intro hz
    exact hd (det_zero_of_comb hv (by rw [← hc, hz]))
  have p0 : 0 < g.n0 := key v0 g.c0 c0 (by decide)
  have x1 : v1.x1 = g.n0 := by simp [v1, v0, sm, Vec4.sub]
  have p1 : 0 < g.n1 := key v1 g.c1 c1 (by
    intro h; have : v1.x1 = 0 := by rw [h]; rfl
    omega)
  have x2 : v2.x2 = g.n0 * g.n1 := by simp [v2, v1, v0, sm, Vec4.sub]
  have p01 : 0 < g.n0 * g.n1 := Int.mul_pos p0 p1
  have p2 : 0 < g.n2 := key v2 g.c2 c2 (by
    intro h; have : v2.x2 = 0 := by rw [h]; rfl
    omega)
  have x3 : v3.x3 = g.n0 * g.n1 * g.n2 := by simp [v3, v2, v1, v0, sm, Vec4.sub]
  have p012 : 0 < g.n0 * g.n1 * g.n2 := Int.mul_pos p01 p2
  have p3 : 0 < g.n3 := key v3 g.c3 c3 (by
    intro h; have : v3.x3 = 0 := by rw [h]; rfl
    omega)
  simp only [GS.pos, Bool.and_eq_true, decide_eq_true_eq]
  exact ⟨⟨⟨p0, p1⟩, p2⟩, p3⟩


/-- at every moment of the run the current basis still has non-zero determinant -/
theorem det_run_ne_zero (ops : List Op) (hv : ∀ op ∈ ops, op.valid = true) (b : Mat4) (hd : (toM b).det ≠ 0) :
    (toM (run ops b).1).det ≠ 0 := by
  obtain ⟨h1, v, hv1, _, _⟩ := run_spec ops hv b
  have e1 : toM (run ops b).1 = toM (run ops b).2 * toM b := by rw [← toM_mul, ← h1]
  have hu : (toM (run ops b).2).det = 1 ∨ (toM (run ops b).2).det = -1 := by
    apply det_unit_of_mul_eq_one _ (toM v)
    rw [← toM_mul, hv1, toM_identity]
  rw [e1, Matrix.det_mul]
  rcases hu with h | h <;> rw [h] <;> simpa using hd

theorem exactZeroTest_false {q : Int} (hq : 0 < q) (ops : List Op) (hv : ∀ op ∈ ops, op.valid = true) (lat : Mat4)
    (hd : (toM lat).det ≠ 0) : exactZeroTest q (run ops lat.transpose).1 = false := by
  have hdt : (toM lat.transpose).det ≠ 0 := by rw [toM_transpose, Matrix.det_transpose]; exact hd
  have := gsData_pos_of_det hq (det_run_ne_zero ops hv lat.transpose hdt)
  simp [exactZeroTest, this]

/-- after both repairs a full-rank lattice is never rejected -/
theorem repaired2_of_full_rank {q : Int} (hq : 0 < q) (ops : List Op) (hv : ∀ op ∈ ops, op.valid = true) (lat : Mat4)
    (hd : (toM lat).det ≠ 0) : lllRepaired2 q ops lat = (0, some (runCols ops lat)) := by
  have hg := (guard_pass_iff lat).mpr hd
  have hall : (List.range (ops.length + 1)).any (fun n => exactZeroTest q (run (ops.take n) lat.transpose).1) = false := by
    rw [List.any_eq_false]
    intro n _
    have := exactZeroTest_false hq (ops.take n) (fun o ho => hv o (List.mem_of_mem_take ho)) lat hd
    simp [this]
  simp [lllRepaired2, hg, hall]

theorem repaired2_of_singular (q : Int) (ops : List Op) (lat : Mat4) (h : (toM lat).det = 0) :
    lllRepaired2 q ops lat = (-1, none) := by
  have := (guard_fail_iff lat).mpr h
  simp [lllRepaired2, this]

end SqiProofs.LllGuard

import SqiProofs.LllOps
import SqiProofs.QuatMat
import Mathlib.LinearAlgebra.Matrix.ToLinearEquiv
/- C16: the entry guard of the repaired `quat_lattice_lll` (repo commit ba3b4ab): exact rank test through
   `ibz_mat_4x4_inv_with_det_as_denom` (= `Mat4.invWithDet`, whose second component is proved to be the determinant
   in SqiProofs/QuatMat.lean). -/
namespace SqiProofs.LllGuard
open SqiModel.Quat SqiModel.Lll SqiProofs.LllOps

theorem toM_eq (m : Mat4) : toM m = SqiProofs.QuatMat.toMatrix m := by
  obtain ⟨⟨a00, a01, a02, a03⟩, ⟨a10, a11, a12, a13⟩, ⟨a20, a21, a22, a23⟩, ⟨a30, a31, a32, a33⟩⟩ := m
  ext i j
  rcases fin4_cases i with rfl | rfl | rfl | rfl <;> rcases fin4_cases j with rfl | rfl | rfl | rfl <;> rfl

theorem invWithDet_eq_det (m : Mat4) : m.invWithDet.2 = (toM m).det := by
  rw [toM_eq]; exact SqiProofs.QuatMat.invWithDet_det m

theorem guard_fail_iff (lat : Mat4) : lllGuard lat = some (-1) ↔ (toM lat).det = 0 := by
  unfold lllGuard
  rw [invWithDet_eq_det]
  split <;> simp_all

theorem guard_pass_iff (lat : Mat4) : lllGuard lat = none ↔ (toM lat).det ≠ 0 := by
  unfold lllGuard
  rw [invWithDet_eq_det]
  split <;> simp_all

/-- `det = 0` is rank deficiency: some non-zero integer vector is killed by the matrix (a non-trivial linear relation
    between the columns, i.e. between the lattice generators) -/
theorem det_zero_iff_dependent (lat : Mat4) :
    (toM lat).det = 0 ↔ ∃ v : Fin 4 → ℤ, v ≠ 0 ∧ (toM lat).mulVec v = 0 :=
  (Matrix.exists_mulVec_eq_zero_iff).symm

theorem repaired_of_singular (t : Trace) (lat : Mat4) (h : (toM lat).det = 0) : lllRepaired t lat = (-1, none) := by
  have := (guard_fail_iff lat).mpr h
  simp [lllRepaired, this]

theorem repaired_of_full_rank (t : Trace) (lat : Mat4) (h : (toM lat).det ≠ 0) :
    lllRepaired t lat = if t.floatZero then (-1, none) else (0, some (runCols t.ops lat)) := by
  have := (guard_pass_iff lat).mpr h
  simp [lllRepaired, this]

end SqiProofs.LllGuard

import SqiModel.Lll
import Mathlib.Tactic.Ring
import Mathlib.LinearAlgebra.Matrix.Determinant.Basic
import Mathlib.LinearAlgebra.Span.Basic
/- C16 (1): the integer row operations of `quat_lattice_lll` preserve the lattice, for ALL decision sequences. -/
namespace SqiProofs.LllOps
open SqiModel.Quat SqiModel.Lll

/-! ### `Mat4` algebra (core structures, proved by `ring` on the 16 entries) -/

theorem mat4_ext {a b : Mat4} (h0 : a.r0 = b.r0) (h1 : a.r1 = b.r1) (h2 : a.r2 = b.r2) (h3 : a.r3 = b.r3) : a = b := by
  cases a; cases b; simp_all

theorem vec4_ext {a b : Vec4} (h0 : a.x0 = b.x0) (h1 : a.x1 = b.x1) (h2 : a.x2 = b.x2) (h3 : a.x3 = b.x3) : a = b := by
  cases a; cases b; simp_all

theorem mul_assoc4 (a b c : Mat4) : (a.mul b).mul c = a.mul (b.mul c) := by
  obtain ⟨⟨a00, a01, a02, a03⟩, ⟨a10, a11, a12, a13⟩, ⟨a20, a21, a22, a23⟩, ⟨a30, a31, a32, a33⟩⟩ := a
  obtain ⟨⟨b00, b01, b02, b03⟩, ⟨b10, b11, b12, b13⟩, ⟨b20, b21, b22, b23⟩, ⟨b30, b31, b32, b33⟩⟩ := b
  obtain ⟨⟨c00, c01, c02, c03⟩, ⟨c10, c11, c12, c13⟩, ⟨c20, c21, c22, c23⟩, ⟨c30, c31, c32, c33⟩⟩ := c
  simp only [Mat4.mul, Mat4.ofFn, Vec4.ofFn, Mat4.get, Mat4.row, Vec4.get]
  apply mat4_ext <;> apply vec4_ext <;> ring

theorem one_mul4 (a : Mat4) : Mat4.identity.mul a = a := by
  obtain ⟨⟨a00, a01, a02, a03⟩, ⟨a10, a11, a12, a13⟩, ⟨a20, a21, a22, a23⟩, ⟨a30, a31, a32, a33⟩⟩ := a
  simp only [Mat4.mul, Mat4.identity, Mat4.ofFn, Vec4.ofFn, Mat4.get, Mat4.row, Vec4.get]
  apply mat4_ext <;> apply vec4_ext <;> ring

theorem mul_one4 (a : Mat4) : a.mul Mat4.identity = a := by
  obtain ⟨⟨a00, a01, a02, a03⟩, ⟨a10, a11, a12, a13⟩, ⟨a20, a21, a22, a23⟩, ⟨a30, a31, a32, a33⟩⟩ := a
  simp only [Mat4.mul, Mat4.identity, Mat4.ofFn, Vec4.ofFn, Mat4.get, Mat4.row, Vec4.get]
  apply mat4_ext <;> apply vec4_ext <;> ring

theorem transpose_transpose (a : Mat4) : a.transpose.transpose = a := by
  obtain ⟨⟨a00, a01, a02, a03⟩, ⟨a10, a11, a12, a13⟩, ⟨a20, a21, a22, a23⟩, ⟨a30, a31, a32, a33⟩⟩ := a
  rfl

theorem transpose_mul (a b : Mat4) : (a.mul b).transpose = b.transpose.mul a.transpose := by
  obtain ⟨⟨a00, a01, a02, a03⟩, ⟨a10, a11, a12, a13⟩, ⟨a20, a21, a22, a23⟩, ⟨a30, a31, a32, a33⟩⟩ := a
  obtain ⟨⟨b00, b01, b02, b03⟩, ⟨b10, b11, b12, b13⟩, ⟨b20, b21, b22, b23⟩, ⟨b30, b31, b32, b33⟩⟩ := b
  simp only [Mat4.mul, Mat4.transpose, Mat4.ofCols, Mat4.ofFn, Vec4.ofFn, Mat4.get, Mat4.row, Vec4.get]
  apply mat4_ext <;> apply vec4_ext <;> ring

theorem transpose_identity : Mat4.identity.transpose = Mat4.identity := rfl

theorem fin4_cases (k : Fin 4) : k = 0 ∨ k = 1 ∨ k = 2 ∨ k = 3 := by omega

/-- a row operation on a product acts on the left factor -/
theorem applyOp_mul (op : Op) (u b : Mat4) : applyOp op (u.mul b) = (applyOp op u).mul b := by
  obtain ⟨⟨a00, a01, a02, a03⟩, ⟨a10, a11, a12, a13⟩, ⟨a20, a21, a22, a23⟩, ⟨a30, a31, a32, a33⟩⟩ := u
  obtain ⟨⟨b00, b01, b02, b03⟩, ⟨b10, b11, b12, b13⟩, ⟨b20, b21, b22, b23⟩, ⟨b30, b31, b32, b33⟩⟩ := b
  cases op with
  | red k l r =>
    rcases fin4_cases k with rfl | rfl | rfl | rfl <;> rcases fin4_cases l with rfl | rfl | rfl | rfl <;>
      simp only [applyOp, setRow, getRow, sm, Vec4.sub, Mat4.mul, Mat4.ofFn, Vec4.ofFn, Mat4.get, Mat4.row, Vec4.get] <;>
      apply mat4_ext <;> apply vec4_ext <;> ring
  | swap k =>
    rcases fin4_cases k with rfl | rfl | rfl | rfl <;>
      simp only [applyOp, setRow, getRow, prev, Mat4.mul, Mat4.ofFn, Vec4.ofFn, Mat4.get, Mat4.row, Vec4.get] <;>
      apply mat4_ext <;> apply vec4_ext <;> ring

/-- the inverse operation -/
def inv : Op → Op
  | .red k l r => .red k l (-r)
  | .swap k => .swap k

theorem inv_valid (op : Op) : (inv op).valid = op.valid := by cases op <;> rfl

theorem applyOp_inv (op : Op) (h : op.valid = true) (m : Mat4) : applyOp (inv op) (applyOp op m) = m := by
  obtain ⟨⟨a00, a01, a02, a03⟩, ⟨a10, a11, a12, a13⟩, ⟨a20, a21, a22, a23⟩, ⟨a30, a31, a32, a33⟩⟩ := m
  cases op with
  | red k l r =>
    rcases fin4_cases k with rfl | rfl | rfl | rfl <;> rcases fin4_cases l with rfl | rfl | rfl | rfl <;> first
      | (simp [Op.valid] at h; done)
      | (simp only [inv, applyOp, setRow, getRow, sm, Vec4.sub]
         apply mat4_ext <;> apply vec4_ext <;> ring)
  | swap k =>
    rcases fin4_cases k with rfl | rfl | rfl | rfl <;> first
      | (simp [Op.valid] at h; done)
      | rfl

theorem applyOp_inv' (op : Op) (h : op.valid = true) (m : Mat4) : applyOp op (applyOp (inv op) m) = m := by
  have := applyOp_inv (inv op) (by rw [inv_valid]; exact h) m
  cases op <;> simpa [inv] using this


/-! ### the invariant of the fold -/

/-- `s = (B', H)`: `B' = H * B0` and `H` has a two-sided integer inverse -/
def Inv (b0 : Mat4) (s : Mat4 × Mat4) : Prop :=
  s.1 = s.2.mul b0 ∧ ∃ v : Mat4, s.2.mul v = Mat4.identity ∧ v.mul s.2 = Mat4.identity

theorem inv_init (b0 : Mat4) : Inv b0 (b0, Mat4.identity) :=
  ⟨(one_mul4 b0).symm, Mat4.identity, one_mul4 _, one_mul4 _⟩

theorem applyOp_eq_mul (op : Op) (u : Mat4) : applyOp op u = (applyOp op Mat4.identity).mul u := by
  rw [← applyOp_mul, one_mul4]

theorem elem_inv_left (op : Op) (h : op.valid = true) :
    (applyOp (inv op) Mat4.identity).mul (applyOp op Mat4.identity) = Mat4.identity := by
  rw [← applyOp_mul, one_mul4, applyOp_inv op h]

theorem elem_inv_right (op : Op) (h : op.valid = true) :
    (applyOp op Mat4.identity).mul (applyOp (inv op) Mat4.identity) = Mat4.identity := by
  rw [← applyOp_mul, one_mul4, applyOp_inv' op h]

theorem inv_step (b0 : Mat4) (s : Mat4 × Mat4) (op : Op) (hv : op.valid = true) (h : Inv b0 s) : Inv b0 (step s op) := by
  obtain ⟨h1, v, hv1, hv2⟩ := h
  refine ⟨?_, v.mul (applyOp (inv op) Mat4.identity), ?_, ?_⟩
  · show applyOp op s.1 = (applyOp op s.2).mul b0
    rw [h1, applyOp_mul]
  · show (applyOp op s.2).mul (v.mul (applyOp (inv op) Mat4.identity)) = Mat4.identity
    rw [applyOp_eq_mul op s.2, mul_assoc4, ← mul_assoc4 s.2, hv1, one_mul4, elem_inv_right op hv]
  · show (v.mul (applyOp (inv op) Mat4.identity)).mul (applyOp op s.2) = Mat4.identity
    rw [applyOp_eq_mul op s.2, mul_assoc4, ← mul_assoc4 (applyOp (inv op) Mat4.identity), elem_inv_left op hv, one_mul4, hv2]

theorem inv_foldl (b0 : Mat4) (ops : List Op) (hv : ∀ op ∈ ops, op.valid = true) (s : Mat4 × Mat4) (h : Inv b0 s) :
    Inv b0 (ops.foldl step s) := by
  induction ops generalizing s with
  | nil => exact h
  | cons op ops ih =>
    exact ih (fun o ho => hv o (List.mem_cons_of_mem _ ho)) _ (inv_step b0 s op (hv op List.mem_cons_self) h)

/-- **integer form**: for every sequence of valid operations the final basis is `H * B` for the final `H`,
    `H` is invertible over the integers, and `B = H⁻¹ * B'`. -/
theorem run_spec (ops : List Op) (hv : ∀ op ∈ ops, op.valid = true) (b : Mat4) :
    (run ops b).1 = (run ops b).2.mul b ∧
    ∃ v : Mat4, (run ops b).2.mul v = Mat4.identity ∧ v.mul (run ops b).2 = Mat4.identity ∧ b = v.mul (run ops b).1 := by
  have hI : Inv b (run ops b) := inv_foldl b ops hv _ (inv_init b)
  obtain ⟨h1, v, hv1, hv2⟩ := hI
  refine ⟨h1, v, hv1, hv2, ?_⟩
  rw [h1, ← mul_assoc4, hv2, one_mul4]

/-! ### bridge to Mathlib matrices: determinant and `Submodule.span` -/

def getF (v : Vec4) : Fin 4 → Int
  | 0 => v.x0 | 1 => v.x1 | 2 => v.x2 | 3 => v.x3

/-- the `Mat4` as a Mathlib matrix (row `i` = `getRow m i`) -/
def toM (m : Mat4) : Matrix (Fin 4) (Fin 4) ℤ := fun i j => getF (getRow m i) j

theorem toM_mul (a b : Mat4) : toM (a.mul b) = toM a * toM b := by
  obtain ⟨⟨a00, a01, a02, a03⟩, ⟨a10, a11, a12, a13⟩, ⟨a20, a21, a22, a23⟩, ⟨a30, a31, a32, a33⟩⟩ := a
  obtain ⟨⟨b00, b01, b02, b03⟩, ⟨b10, b11, b12, b13⟩, ⟨b20, b21, b22, b23⟩, ⟨b30, b31, b32, b33⟩⟩ := b
  ext i j
  rcases fin4_cases i with rfl | rfl | rfl | rfl <;> rcases fin4_cases j with rfl | rfl | rfl | rfl <;>
    simp [toM, getF, getRow, Matrix.mul_apply, Fin.sum_univ_four, Mat4.mul, Mat4.ofFn, Vec4.ofFn, Mat4.get, Mat4.row, Vec4.get]

theorem toM_identity : toM Mat4.identity = 1 := by
  ext i j
  rcases fin4_cases i with rfl | rfl | rfl | rfl <;> rcases fin4_cases j with rfl | rfl | rfl | rfl <;>
    simp [toM, getF, getRow, Mat4.identity]

theorem toM_transpose (a : Mat4) : toM a.transpose = (toM a).transpose := by
  obtain ⟨⟨a00, a01, a02, a03⟩, ⟨a10, a11, a12, a13⟩, ⟨a20, a21, a22, a23⟩, ⟨a30, a31, a32, a33⟩⟩ := a
  ext i j
  rcases fin4_cases i with rfl | rfl | rfl | rfl <;> rcases fin4_cases j with rfl | rfl | rfl | rfl <;>
    simp [toM, getF, getRow, Mat4.transpose, Mat4.ofCols]

/-- the lattice generated by the rows -/
def rowSpan {n : ℕ} (m : Matrix (Fin n) (Fin n) ℤ) : Submodule ℤ (Fin n → ℤ) := Submodule.span ℤ (Set.range m)

theorem rowSpan_mul_le {n : ℕ} (u a : Matrix (Fin n) (Fin n) ℤ) : rowSpan (u * a) ≤ rowSpan a := by
  unfold rowSpan
  rw [Submodule.span_le]
  rintro _ ⟨i, rfl⟩
  have : (u * a) i = ∑ j, u i j • a j := by
    ext k
    simp [Matrix.mul_apply, Finset.sum_apply]
  rw [this]
  exact Submodule.sum_mem _ (fun j _ => Submodule.smul_mem _ _ (Submodule.subset_span ⟨j, rfl⟩))

theorem rowSpan_eq_of_mul {n : ℕ} (u v a b : Matrix (Fin n) (Fin n) ℤ) (h1 : b = u * a) (h2 : a = v * b) :
    rowSpan b = rowSpan a :=
  le_antisymm (h1 ▸ rowSpan_mul_le u a) (by rw [h2]; exact rowSpan_mul_le v b)

theorem det_unit_of_mul_eq_one {n : ℕ} (u v : Matrix (Fin n) (Fin n) ℤ) (h : u * v = 1) : u.det = 1 ∨ u.det = -1 := by
  have hd : u.det * v.det = 1 := by rw [← Matrix.det_mul, h, Matrix.det_one]
  exact Int.isUnit_iff.mp (IsUnit.of_mul_eq_one _ hd)

end SqiProofs.LllOps

import SqiModel.LllProg
import SqiGen.LllOps
import SqiProofs.LllOps
import Mathlib.Tactic.Ring
import Mathlib.Tactic.IntervalCases
/- C16, tie T for lll.c: the GENERATED integer slice of RED / SWAP (SqiGen/LllOps.lean, regenerated from the C text on
   every run) is, for every oracle, the row operation `Op.red k l q` / `Op.swap k` on (basis, H); the generated main-loop
   skeleton only issues valid operations. -/
namespace SqiProofs.LllProg
open SqiModel.Quat SqiModel.Lll SqiModel.LllProg SqiProofs.LllOps

/-- the generated RED body = `Op.red k l q` on basis and on H — for every k, l, every quotient, all matrices -/
theorem red_body (k l : Fin 4) (q : Int) (b h : Mat4) :
    runRED SqiGen.LllOps.red k l false q (b, h) = (applyOp (.red k l q) b, applyOp (.red k l q) h) := by
  obtain ⟨⟨a00, a01, a02, a03⟩, ⟨a10, a11, a12, a13⟩, ⟨a20, a21, a22, a23⟩, ⟨a30, a31, a32, a33⟩⟩ := b
  obtain ⟨⟨h00, h01, h02, h03⟩, ⟨h10, h11, h12, h13⟩, ⟨h20, h21, h22, h23⟩, ⟨h30, h31, h32, h33⟩⟩ := h
  rcases fin4_cases k with rfl | rfl | rfl | rfl <;> rcases fin4_cases l with rfl | rfl | rfl | rfl <;>
    simp [runRED, SqiGen.LllOps.red, execAll, exec, rd, wr, evalIdx, getE, setE, getV, setV, getRow, setRow,
      applyOp, sm, Vec4.sub]

/-- the oracle early exit of RED (`|u[k][l]| <= 0.5`) precedes every integer statement: nothing is changed -/
theorem red_exit (k l : Fin 4) (q : Int) (s : Mat4 × Mat4) : runRED SqiGen.LllOps.red k l true q s = s := by
  simp [runRED, SqiGen.LllOps.red]

/-- `q` is an oracle value set (from a float) before its first use -/
theorem red_quotient_is_oracle : SqiGen.LllOps.red.quotientFromFloat = true := rfl

/-- the generated SWAP body = `Op.swap k` on basis and on H -/
theorem swap_body (k : Fin 4) (b h : Mat4) :
    runSWAP SqiGen.LllOps.swap k (b, h) = (applyOp (.swap k) b, applyOp (.swap k) h) := by
  obtain ⟨⟨a00, a01, a02, a03⟩, ⟨a10, a11, a12, a13⟩, ⟨a20, a21, a22, a23⟩, ⟨a30, a31, a32, a33⟩⟩ := b
  obtain ⟨⟨h00, h01, h02, h03⟩, ⟨h10, h11, h12, h13⟩, ⟨h20, h21, h22, h23⟩, ⟨h30, h31, h32, h33⟩⟩ := h
  rcases fin4_cases k with rfl | rfl | rfl | rfl <;>
    simp [runSWAP, SqiGen.LllOps.swap, execAll, exec, rd, wr, evalIdx, getE, setE, getV, setV, getRow, setRow,
      applyOp, prev]

theorem textStep_eq (s : Mat4 × Mat4) (op : Op) :
    textStep SqiGen.LllOps.red SqiGen.LllOps.swap s op = step s op := by
  cases op with
  | red k l q => exact red_body k l q s.1 s.2
  | swap k => exact swap_body k s.1 s.2

theorem textRun_eq (ops : List Op) (s : Mat4 × Mat4) :
    ops.foldl (textStep SqiGen.LllOps.red SqiGen.LllOps.swap) s = ops.foldl step s := by
  induction ops generalizing s with
  | nil => rfl
  | cons op ops ih => rw [List.foldl_cons, List.foldl_cons, textStep_eq, ih]

/-! ### the skeleton -/
theorem events_order : SqiGen.LllOps.skeleton.events =
    [.rankTestReturnMinus1, .setPrecision, .transposeIn, .initHIdentity, .mainLoop, .transposeOut] := by decide

theorem zero_test_exact : SqiGen.LllOps.skeleton.loop.zeroTest = .mpfSgn ∧
    SqiGen.LllOps.skeleton.loop.zeroTestReturnsMinus1 = true := by decide

/-- a RED(k, l) op issued by the else-branch loop `l = k-2 … 0` is valid -/
theorem zip_red_valid (kf : Fin 4) (ls : List Nat) (reds : List (Bool × Int))
    (hls : ∀ l ∈ ls, kf ≠ Fin.ofNat 4 l) :
    ∀ op ∈ (ls.zip reds).filterMap (fun (p : Nat × (Bool × Int)) =>
        if p.2.1 then none else some (Op.red kf (Fin.ofNat 4 p.1) p.2.2)), op.valid = true := by
  intro op hop
  rw [List.mem_filterMap] at hop
  obtain ⟨⟨l, o⟩, hm, ho⟩ := hop
  have hl := (List.of_mem_zip hm).1
  cases ho1 : o.1
  · simp only [ho1, Bool.false_eq_true, if_false, Option.some.injEq] at ho
    subst ho
    simp only [Op.valid, decide_eq_true_eq]
    exact hls l hl
  · simp [ho1] at ho

theorem passOps_valid (k : Nat) (hk1 : 1 ≤ k) (hk3 : k < 4) (d : Decision) :
    (∀ op ∈ (passOps SqiGen.LllOps.skeleton.loop k d).1, op.valid = true) ∧
      1 ≤ (passOps SqiGen.LllOps.skeleton.loop k d).2 := by
  have hk : k = 1 ∨ k = 2 ∨ k = 3 := by omega
  have hr1 : ∀ (kf l1 : Fin 4), kf ≠ l1 → ∀ op ∈ (if d.red1.1 then ([] : List Op) else [Op.red kf l1 d.red1.2]), op.valid = true := by
    intro kf l1 hne op hop
    cases h1 : d.red1.1
    · simp only [h1, Bool.false_eq_true, if_false, List.mem_singleton] at hop
      subst hop; simp [Op.valid, hne]
    · simp [h1] at hop
  rcases hk with rfl | rfl | rfl
  all_goals
    simp only [passOps, SqiGen.LllOps.skeleton, evalIdx]
    cases hsw : d.lovaszSwap
    all_goals simp only [Bool.false_eq_true, if_false, if_true]
    all_goals constructor
    all_goals first
      | decide
      | (intro op hop
         rw [List.mem_append] at hop
         rcases hop with hop | hop
         · exact hr1 _ _ (by decide) op hop
         · first
           | (rw [List.mem_singleton] at hop; subst hop; decide)
           | (refine zip_red_valid _ _ _ ?_ op hop
              intro l hl
              rw [List.mem_reverse, List.mem_range] at hl
              interval_cases l <;> decide))

/-- **the main-loop skeleton only issues valid operations** (RED(k,k-1), SWAP(k) with k ≥ 1, RED(k,l) with l < k), for every
    list of oracle decisions -/
theorem loopOps_valid : ∀ (ds : List Decision) (k : Nat), 1 ≤ k →
    ∀ op ∈ loopOps SqiGen.LllOps.skeleton.loop ds k, op.valid = true := by
  intro ds
  induction ds with
  | nil => intro k _ op hop; simp [loopOps] at hop
  | cons d ds ih =>
    intro k hk op hop
    simp only [loopOps] at hop
    split at hop
    · rename_i hlt
      have hlt' : k < 4 := hlt
      obtain ⟨h1, h2⟩ := passOps_valid k hk hlt' d
      rw [List.mem_append] at hop
      rcases hop with hop | hop
      · exact h1 op hop
      · exact ih _ h2 op hop
    · simp at hop

/-- the extracted text, executed, is `runCols` of the issued (valid) operations -/
theorem textLll_eq (ds : List Decision) (lat : Mat4) :
    textLll SqiGen.LllOps.red SqiGen.LllOps.swap SqiGen.LllOps.skeleton ds lat
      = runCols (loopOps SqiGen.LllOps.skeleton.loop ds SqiGen.LllOps.skeleton.loop.kInit) lat := by
  simp only [textLll, runCols, run, textRun_eq]

end SqiProofs.LllProg

import SqiProofs.LllGuard
import SqiProofs.LllDim2
import SqiProofs.LllCheck
import Mathlib.LinearAlgebra.Matrix.ToLinearEquiv
import Mathlib.LinearAlgebra.Matrix.Nondegenerate
/- C16 (4b): positivity of the norm of an accepted response (`sample_response`): the matrix called `gram` is, when the
   scalar division is exact (the C `assert(divides)`), `(lllᵀ·diag(1,1,p,p)·lll)/dg`, a positive definite form for
   `p > 0`, `dg > 0`, `det lll ≠ 0`. -/
namespace SqiProofs.LllResp
open SqiModel.Quat SqiModel.Lll SqiModel.Dim2 SqiProofs.LllOps SqiProofs.LllGuard SqiProofs.LllDim2

/-- the Gram matrix before the scalar division evaluates to the norm form of `lll·v` -/
theorem qfEval_gram (p : Int) (lll : Mat4) (v : Vec4) :
    (((lll.transpose).mul (gramP p)).mul lll).qfEval v = form p (lll.eval v) (lll.eval v) := by
  obtain ⟨⟨a00, a01, a02, a03⟩, ⟨a10, a11, a12, a13⟩, ⟨a20, a21, a22, a23⟩, ⟨a30, a31, a32, a33⟩⟩ := lll
  obtain ⟨v0, v1, v2, v3⟩ := v
  simp only [Mat4.qfEval, Mat4.eval, Mat4.mul, Mat4.transpose, Mat4.ofCols, Mat4.ofFn, Vec4.ofFn, Mat4.get, Mat4.row,
    Vec4.get, gramP, form]
  ring

theorem tdiv_mul_of_tmod {x s : Int} (h : x.tmod s = 0) : x.tdiv s * s = x := by
  have := Int.mul_tdiv_add_tmod x s
  rw [h] at this
  rw [Int.mul_comm]; omega

/-- exact scalar division: multiplying back gives the matrix -/
theorem scalarDiv_exact (s : Int) (m : Mat4) (h : (m.scalarDiv s).2 = true) (v : Vec4) :
    s * (m.scalarDiv s).1.qfEval v = m.qfEval v := by
  obtain ⟨⟨a00, a01, a02, a03⟩, ⟨a10, a11, a12, a13⟩, ⟨a20, a21, a22, a23⟩, ⟨a30, a31, a32, a33⟩⟩ := m
  obtain ⟨v0, v1, v2, v3⟩ := v
  simp only [Mat4.scalarDiv, Vec4.scalarDiv, Vec4.map, Bool.and_eq_true, beq_iff_eq] at h
  obtain ⟨⟨⟨⟨⟨⟨h00, h01⟩, h02⟩, h03⟩, ⟨⟨⟨h10, h11⟩, h12⟩, h13⟩⟩, ⟨⟨⟨h20, h21⟩, h22⟩, h23⟩⟩, ⟨⟨⟨h30, h31⟩, h32⟩, h33⟩⟩ := h
  simp only [Mat4.scalarDiv, Mat4.map, Vec4.map, Mat4.qfEval, Mat4.eval, Vec4.ofFn, Mat4.get, Mat4.row, Vec4.get]
  have e00 := tdiv_mul_of_tmod h00; have e01 := tdiv_mul_of_tmod h01
  have e02 := tdiv_mul_of_tmod h02; have e03 := tdiv_mul_of_tmod h03
  have e10 := tdiv_mul_of_tmod h10; have e11 := tdiv_mul_of_tmod h11
  have e12 := tdiv_mul_of_tmod h12; have e13 := tdiv_mul_of_tmod h13
  have e20 := tdiv_mul_of_tmod h20; have e21 := tdiv_mul_of_tmod h21
  have e22 := tdiv_mul_of_tmod h22; have e23 := tdiv_mul_of_tmod h23
  have e30 := tdiv_mul_of_tmod h30; have e31 := tdiv_mul_of_tmod h31
  have e32 := tdiv_mul_of_tmod h32; have e33 := tdiv_mul_of_tmod h33
  calc _ = (a00.tdiv s * s * v0 + a01.tdiv s * s * v1 + a02.tdiv s * s * v2 + a03.tdiv s * s * v3) * v0
          + (a10.tdiv s * s * v0 + a11.tdiv s * s * v1 + a12.tdiv s * s * v2 + a13.tdiv s * s * v3) * v1
          + (a20.tdiv s * s * v0 + a21.tdiv s * s * v1 + a22.tdiv s * s * v2 + a23.tdiv s * s * v3) * v2
          + (a30.tdiv s * s * v0 + a31.tdiv s * s * v1 + a32.tdiv s * s * v2 + a33.tdiv s * s * v3) * v3 := by ring
    _ = _ := by rw [e00, e01, e02, e03, e10, e11, e12, e13, e20, e21, e22, e23, e30, e31, e32, e33]

theorem eval_mulVec (m : Mat4) (v : Vec4) : getF (m.eval v) = (toM m).mulVec (getF v) := by
  obtain ⟨⟨a00, a01, a02, a03⟩, ⟨a10, a11, a12, a13⟩, ⟨a20, a21, a22, a23⟩, ⟨a30, a31, a32, a33⟩⟩ := m
  obtain ⟨v0, v1, v2, v3⟩ := v
  funext i
  rcases fin4_cases i with rfl | rfl | rfl | rfl <;>
    simp [Mat4.eval, Vec4.ofFn, Mat4.get, Mat4.row, Vec4.get, getF, Matrix.mulVec, dotProduct, Fin.sum_univ_four, toM, getRow]

theorem eval_ne_zero {m : Mat4} (hd : (toM m).det ≠ 0) {v : Vec4} (hv : v.isZero = false) : m.eval v ≠ Vec4.zero := by
  intro h
  have h0 : (toM m).mulVec (getF v) = 0 := by
    rw [← eval_mulVec, h]; funext j; rcases fin4_cases j with rfl | rfl | rfl | rfl <;> rfl
  have hz := Matrix.eq_zero_of_mulVec_eq_zero hd h0
  have : v = Vec4.zero := by
    apply getF_injective
    rw [hz]; funext j; rcases fin4_cases j with rfl | rfl | rfl | rfl <;> rfl
  rw [this] at hv
  exact absurd hv (by decide)

/-- **the form `gram` of `sample_response` is positive on non-zero coefficient vectors** -/
theorem respGram_pos {p denom content : Int} {lll : Mat4} (hp : 0 < p) (hd : (toM lll).det ≠ 0)
    (hdg : 0 < div2 (denom * denom * content))
    (hdiv : ((((lll.transpose).mul (gramP p)).mul lll).scalarDiv (div2 (denom * denom * content))).2 = true)
    {v : Vec4} (hv : v.isZero = false) : 0 < (respGram p denom content lll).qfEval v := by
  have h1 := scalarDiv_exact _ _ hdiv v
  rw [qfEval_gram] at h1
  have hpos : 0 < form p (lll.eval v) (lll.eval v) := form_pos hp (eval_ne_zero hd hv)
  have : 0 < div2 (denom * denom * content) * (respGram p denom content lll).qfEval v := by
    show 0 < div2 (denom * denom * content) * ((((lll.transpose).mul (gramP p)).mul lll).scalarDiv _).1.qfEval v
    rw [h1]; exact hpos
  by_contra hle
  have hle' : (respGram p denom content lll).qfEval v ≤ 0 := Int.not_lt.mp hle
  have := Int.mul_le_mul_of_nonneg_left hle' (Int.le_of_lt hdg)
  omega

theorem div2_pos {x : Int} (hx : 0 < x) (he : 2 ∣ x) : 0 < div2 x := by
  unfold div2
  rw [Int.tdiv_eq_ediv_of_nonneg (Int.le_of_lt hx)]
  omega

/-- accepted candidate ⇒ `0 < norm < 2^response_length` under the three conditions the C code `assert`s (compiled out
    with NDEBUG): the scalar division of the Gram matrix is exact, its divisor is positive, the value `2·norm` is even;
    plus `p > 0` and a full-rank LLL basis. -/
theorem sampleResponse_found_pos {p : Int} {rl : Nat} {denom content : Int} {lll : Mat4} {cands : List Vec4}
    (hp : 0 < p) (hd : (toM lll).det ≠ 0) (hdg : 0 < div2 (denom * denom * content))
    (hdiv : ((((lll.transpose).mul (gramP p)).mul lll).scalarDiv (div2 (denom * denom * content))).2 = true)
    (heven : ∀ w ∈ cands, 2 ∣ (respGram p denom content lll).qfEval w)
    (h : (sampleResponse p rl denom content lll cands).found = true) :
    ∃ v ∈ cands, v.isZero = false ∧
      (sampleResponse p rl denom content lll cands).x = ⟨denom, lll.eval v⟩ ∧
      0 < normFrom2Gram (respGram p denom content lll) v ∧
      normFrom2Gram (respGram p denom content lll) v < 2 ^ rl := by
  obtain ⟨v, hm, hz, hx, hlt⟩ := sampleResponse_found h
  exact ⟨v, hm, hz, hx, div2_pos (respGram_pos hp hd hdg hdiv hz) (heven v hm), hlt⟩


/-! ### the fallback value in terms of the first LLL vector -/
theorem qfEval_e0 (g : Mat4) : g.qfEval e0 = g.get 0 0 := by
  obtain ⟨⟨a00, a01, a02, a03⟩, ⟨a10, a11, a12, a13⟩, ⟨a20, a21, a22, a23⟩, ⟨a30, a31, a32, a33⟩⟩ := g
  simp [Mat4.qfEval, Mat4.eval, Vec4.ofFn, Mat4.get, Mat4.row, Vec4.get, e0]

/-- `dg · gram[0][0] = N(first LLL column)` when the scalar division is exact -/
theorem gram00_eq {p denom content : Int} {lll : Mat4}
    (hdiv : ((((lll.transpose).mul (gramP p)).mul lll).scalarDiv (div2 (denom * denom * content))).2 = true) :
    div2 (denom * denom * content) * (respGram p denom content lll).get 0 0 = form p (lll.col 0) (lll.col 0) := by
  have h1 := scalarDiv_exact _ _ hdiv e0
  rw [qfEval_gram, eval_e0] at h1
  rw [← h1, ← qfEval_e0]; rfl

theorem colsQ_zero_form (p : Int) (lll : Mat4) :
    SqiProofs.LllCheck.formQ p (SqiProofs.LllCheck.colsQ lll 0) (SqiProofs.LllCheck.colsQ lll 0)
      = ((form p (lll.col 0) (lll.col 0) : Int) : ℚ) := by
  have : SqiProofs.LllCheck.colsQ lll 0 = SqiProofs.LllCheck.vq (lll.col 0) := by
    obtain ⟨⟨a00, a01, a02, a03⟩, ⟨a10, a11, a12, a13⟩, ⟨a20, a21, a22, a23⟩, ⟨a30, a31, a32, a33⟩⟩ := lll
    funext k
    rcases fin4_cases k with rfl | rfl | rfl | rfl <;> rfl
  rw [this, SqiProofs.LllCheck.form_cast]

theorem div2_lt {x B : Int} (hB : 0 < B) (h : x < 2 * B) : div2 x < B := by
  unfold div2
  rcases Int.lt_or_le x 0 with hx | hx
  · have h1 : Int.tdiv x 2 = -(Int.tdiv (-x) 2) := by rw [Int.neg_tdiv]; omega
    have h2 : 0 ≤ Int.tdiv (-x) 2 := Int.tdiv_nonneg (by omega) (by decide)
    omega
  · rw [Int.tdiv_eq_ediv_of_nonneg hx]; omega

end SqiProofs.LllResp

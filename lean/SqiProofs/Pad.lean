/-
C20: the bit-level padding of FIPS 202 (message bits ‖ suffix ‖ pad10*1, Algorithm 9, bits packed into bytes least
significant bit first) is the byte-level padding the code performs: domain byte (0x1F for SHAKE, 0x06 for SHA-3), zero
bytes, 0x80 OR-ed into byte rate−1 (one byte 0x9F / 0x86 when they coincide) — for every rate and every message length.
-/
import SqiProofs.SpongeFinal
namespace SqiProofs.Pad
open SqiModel.Fips202 SqiProofs.Sponge

set_option maxRecDepth 100000

def byteRoundtripOk : Bool := (List.range 256).all fun n => bitsByte (byteBits (UInt8.ofNat n)) == UInt8.ofNat n
theorem byteRoundtripOk_true : byteRoundtripOk = true := by decide +kernel

theorem bitsByte_byteBits (b : UInt8) : bitsByte (byteBits b) = b := by
  have h := byteRoundtripOk_true
  unfold byteRoundtripOk at h
  simp only [List.all_eq_true, List.mem_range, beq_iff_eq] at h
  simpa using h b.toNat b.toNat_lt

theorem byteBits_length (b : UInt8) : (byteBits b).length = 8 := by simp [byteBits]

theorem bitsByte_append (x rest : List Bool) (h : x.length = 8) : bitsByte (x ++ rest) = bitsByte x := by
  unfold bitsByte
  rw [List.take_append_of_le_length (by omega)]

/-- L1: whole message bytes come back unchanged -/
theorem bitsBytes_msg (msg : List UInt8) (n : Nat) (rest : List Bool) :
    bitsBytes (msg.length + n) (bytesBits msg ++ rest) = msg ++ bitsBytes n rest := by
  induction msg with
  | nil => simp [bytesBits]
  | cons b bs ih =>
    have hl := byteBits_length b
    simp only [bytesBits, List.flatMap_cons, List.length_cons, List.append_assoc] at ih ⊢
    rw [show bs.length + 1 + n = (bs.length + n) + 1 by omega, bitsBytes, bitsByte_append _ _ hl, bitsByte_byteBits,
      List.drop_append_of_le_length (by omega), List.drop_of_length_le (by omega), List.nil_append, ih]
    simp

/-- L2: 8n zero bits are n zero bytes -/
theorem bitsBytes_zeros (n k : Nat) (rest : List Bool) :
    bitsBytes (n + k) (List.replicate (8 * n) false ++ rest) = List.replicate n 0 ++ bitsBytes k rest := by
  induction n with
  | zero => simp
  | succ n ih =>
    have e : List.replicate (8 * (n + 1)) false = List.replicate 8 false ++ List.replicate (8 * n) false := by
      rw [List.replicate_append_replicate]; congr 1; omega
    rw [e, List.append_assoc, show n + 1 + k = (n + k) + 1 by omega, bitsBytes,
      bitsByte_append _ _ (by simp), List.drop_append_of_le_length (by simp), List.drop_of_length_le (by simp),
      List.nil_append, ih, List.replicate_succ]
    have : bitsByte (false :: List.replicate 7 false) = 0 := by decide
    rw [this]; rfl

theorem last_bit_or : ∀ b0 b1 b2 b3 b4 b5 b6 : Bool,
    bitsByte [b0, b1, b2, b3, b4, b5, b6, true] = bitsByte [b0, b1, b2, b3, b4, b5, b6, false] ||| 0x80 := by decide +kernel

/-- L3: first pad byte (7 given bits), 8q zero bits, final 1 bit  =  the byte-level padding -/
theorem bitsBytes_pad (fb : List Bool) (hfb : fb.length = 7) (q : Nat) :
    bitsBytes (q + 1) (fb ++ (List.replicate (8 * q) false ++ [true]))
      = if q = 0 then [bitsByte (fb ++ [false]) ||| 0x80]
        else bitsByte (fb ++ [false]) :: (List.replicate (q - 1) 0 ++ [0x80]) := by
  match fb, hfb with
  | [b0, b1, b2, b3, b4, b5, b6], _ =>
    cases q with
    | zero =>
      simp only [Nat.mul_zero, List.replicate_zero, List.nil_append, if_true, Nat.zero_add, bitsBytes]
      simp only [List.cons_append, List.nil_append, last_bit_or]
    | succ q =>
      have e : List.replicate (8 * (q + 1)) false ++ [true]
          = false :: (List.replicate (8 * q) false ++ [false, false, false, false, false, false, false, true]) := by
        rw [show 8 * (q + 1) = 1 + (8 * q + 7) by omega, ← List.replicate_append_replicate, ← List.replicate_append_replicate]
        simp [List.replicate]
      have h80 : bitsByte [false, false, false, false, false, false, false, true] = 0x80 := by decide
      rw [e]
      simp only [Nat.succ_ne_zero, if_false, Nat.add_sub_cancel]
      rw [show q + 1 + 1 = (q + 1) + 1 by rfl, bitsBytes]
      have hb : bitsByte ([b0, b1, b2, b3, b4, b5, b6] ++ false :: (List.replicate (8 * q) false ++ [false, false, false, false, false, false, false, true]))
          = bitsByte ([b0, b1, b2, b3, b4, b5, b6] ++ [false]) := by
        show bitsByte (([b0, b1, b2, b3, b4, b5, b6] ++ [false]) ++ _) = _
        exact bitsByte_append _ _ (by simp)
      rw [hb]
      congr 1
      have hd : List.drop 8 ([b0, b1, b2, b3, b4, b5, b6] ++ false :: (List.replicate (8 * q) false ++ [false, false, false, false, false, false, false, true]))
          = List.replicate (8 * q) false ++ [false, false, false, false, false, false, false, true] := by
        simp
      rw [hd, bitsBytes_zeros q 1]
      simp [bitsBytes, h80]

/-- number of zero bits of pad10*1 after a message of L bytes and a suffix of s ≤ 6 bits: 8·(r−1−L mod r) + (6−s) -/
theorem pad_zero_count (r L s : Nat) (h0 : 0 < r) (hs : s ≤ 6) :
    (8 * r - (8 * L + s + 2) % (8 * r)) % (8 * r) = 8 * (r - 1 - L % r) + (6 - s) := by
  have hk := Nat.mod_lt L h0
  have hL := Nat.div_add_mod L r
  have e : 8 * L + s + 2 = 8 * r * (L / r) + (8 * (L % r) + s + 2) := by
    have : 8 * L = 8 * (r * (L / r) + L % r) := by rw [hL]
    rw [this, Nat.mul_add, Nat.mul_assoc]; omega
  by_cases hfull : 8 * (L % r) + s + 2 = 8 * r
  · rw [e, hfull, Nat.mul_add_mod_self_left, Nat.mod_self, Nat.sub_zero, Nat.mod_self]
    omega
  · have hlt : 8 * (L % r) + s + 2 < 8 * r := by omega
    rw [e, Nat.mul_add_mod_self_left, Nat.mod_eq_of_lt hlt, Nat.mod_eq_of_lt (by omega)]
    omega

/-- general form: message ‖ suffix `suf` (s ≤ 6 bits) ‖ pad10*1(8r, ·), packed into bytes = message ‖ byte padding with
    domain byte `bitsByte (suf ‖ 1 ‖ 0…)` -/
theorem padded_bits_eq_bytes (r : Nat) (h0 : 0 < r) (msg : List UInt8) (suf : List Bool) (hs : suf.length ≤ 6) :
    bitsBytes ((msg.length / r + 1) * r) (bytesBits msg ++ suf ++ pad101 (8 * r) (8 * msg.length + suf.length))
      = msg ++ padBytes r (bitsByte (suf ++ true :: List.replicate (6 - suf.length) false ++ [false])) msg.length := by
  have hk := Nat.mod_lt msg.length h0
  have hL := Nat.div_add_mod msg.length r
  have hn : (msg.length / r + 1) * r = msg.length + ((r - 1 - msg.length % r) + 1) := by
    rw [Nat.add_mul, Nat.one_mul, Nat.mul_comm]; omega
  have hfb : (suf ++ true :: List.replicate (6 - suf.length) false).length = 7 := by simp; omega
  unfold pad101
  rw [show 8 * msg.length + suf.length + 2 = 8 * msg.length + suf.length + 2 from rfl,
    pad_zero_count r msg.length suf.length h0 hs, hn, List.append_assoc, bitsBytes_msg]
  have hre : suf ++ true :: (List.replicate (8 * (r - 1 - msg.length % r) + (6 - suf.length)) false ++ [true])
      = (suf ++ true :: List.replicate (6 - suf.length) false) ++ (List.replicate (8 * (r - 1 - msg.length % r)) false ++ [true]) := by
    have : List.replicate (8 * (r - 1 - msg.length % r) + (6 - suf.length)) false
        = List.replicate (6 - suf.length) false ++ List.replicate (8 * (r - 1 - msg.length % r)) false := by
      rw [List.replicate_append_replicate, Nat.add_comm]
    rw [this]
    simp only [List.append_assoc, List.cons_append]
  rw [hre, bitsBytes_pad _ hfb, padBytes_def]

theorem bytesBits_length (msg : List UInt8) : (bytesBits msg).length = 8 * msg.length := by
  induction msg with
  | nil => rfl
  | cons b bs ih =>
    rw [show bytesBits (b :: bs) = byteBits b ++ bytesBits bs from rfl, List.length_append, byteBits_length, ih,
      List.length_cons]
    omega

/-- SHAKE128 / SHAKE256: M ‖ 1111 ‖ pad10*1, as bits, is the byte string the sponge of the specification (and, by
    `shake256_eq_spec`, of the C code) absorbs: domain byte 0x1F … 0x80, or the single byte 0x9F -/
theorem shake_padding_bits (r : Nat) (h0 : 0 < r) (msg : List UInt8) :
    bitsBytes ((msg.length / r + 1) * r) (shakePaddedBits r msg) = msg ++ padBytes r 0x1F msg.length := by
  have h := padded_bits_eq_bytes r h0 msg [true, true, true, true] (by decide)
  have e4 : [true, true, true, true].length = 4 := rfl
  have hd : bitsByte ([true, true, true, true] ++ true :: List.replicate (6 - 4) false ++ [false]) = 0x1F := by decide
  rw [e4, hd] at h
  unfold shakePaddedBits
  simp only [List.length_append, bytesBits_length, e4]
  exact h

/-- SHA3-n: M ‖ 01 ‖ pad10*1 gives the domain byte 0x06 (not used by the library; the rates/domains are only extracted) -/
theorem sha3_padding_bits (r : Nat) (h0 : 0 < r) (msg : List UInt8) :
    bitsBytes ((msg.length / r + 1) * r) (bytesBits msg ++ [false, true] ++ pad101 (8 * r) (8 * msg.length + 2))
      = msg ++ padBytes r 0x06 msg.length := by
  have h := padded_bits_eq_bytes r h0 msg [false, true] (by decide)
  have e2 : [false, true].length = 2 := rfl
  have hd : bitsByte ([false, true] ++ true :: List.replicate (6 - 2) false ++ [false]) = 0x06 := by decide
  rw [e2, hd] at h
  exact h

end SqiProofs.Pad

/-
Matrix layer of C11 in the abstract torsion model: the 2^e-torsion is (R × R) for a commutative ring R
(R = ZMod (2^e) in the application), the Weil pairing of two vectors is ζ^det(u, v), written additively as
`det u v ∈ R`; the discrete logarithm of w = ζ^t in base w0 = ζ^δ (δ a unit) is t·δ⁻¹ (justified for the real
recursion by SqiProofs.Dlog.dlog_2e_correct). x-only points are vectors up to sign.

  matrix_application_even_basis  ↦ `applyMat`       (columns of the matrix are the coordinates of the new points)
  weil_dlog / ec_dlog_2_weil     ↦ `weilDlog`       (x1 = dlog e(P1,Q), x2 = dlog e(P,P1), x3 = dlog e(P2,Q), x4 = dlog e(P,P2))
  change_of_basis_matrix_two     ↦ `changeOfBasis`  (incl. the test of P1−P2 and the conditional negation of (x3,x4))
-/
import Mathlib.Tactic.Ring
import Mathlib.Tactic.LinearCombination
import Mathlib.Algebra.Ring.Basic

namespace SqiProofs.PairingMat

variable {R : Type} [CommRing R] [DecidableEq R]

abbrev V (R : Type) := R × R

def det (u v : V R) : R := u.1 * v.2 - u.2 * v.1
/-- aP + cQ -/
def lin (a c : R) (P Q : V R) : V R := (a * P.1 + c * Q.1, a * P.2 + c * Q.2)
def smulV (s : R) (P : V R) : V R := (s * P.1, s * P.2)
/-- equality of x-only points -/
def xEq (u v : V R) : Prop := u = v ∨ u = smulV (-1) v
instance (u v : V R) : Decidable (xEq u v) := by unfold xEq; infer_instance

/-- C layout: mat[0][0] = a, mat[0][1] = b, mat[1][0] = c, mat[1][1] = d -/
structure Mat (R : Type) where
  a : R
  b : R
  c : R
  d : R
deriving DecidableEq

def Mat.neg (M : Mat R) : Mat R := ⟨-M.a, -M.b, -M.c, -M.d⟩

/-- `matrix_application_even_basis`: P' = aP + cQ, Q' = bP + dQ, (P−Q)' = (a−b)P + (c−d)Q -/
def applyMat (M : Mat R) (P Q : V R) : V R × V R × V R :=
  (lin M.a M.c P Q, lin M.b M.d P Q, lin (M.a - M.b) (M.c - M.d) P Q)

/-- the four pairing dlogs of `weil_dlog` in the torsion model -/
def weilDlog (δinv : R) (P Q P1 P2 : V R) : R × R × R × R :=
  (det P1 Q * δinv, det P P1 * δinv, det P2 Q * δinv, det P P2 * δinv)

/-- `change_of_basis_matrix_two(mat, B1 = (P1,P2,D1), B2 = (P,Q))` -/
def changeOfBasis (δinv : R) (P Q P1 P2 D1 : V R) : Mat R :=
  let x := weilDlog δinv P Q P1 P2
  if xEq (lin (x.1 - x.2.2.1) (x.2.1 - x.2.2.2) P Q) D1 then ⟨x.1, x.2.2.1, x.2.1, x.2.2.2⟩
  else ⟨x.1, -x.2.2.1, x.2.1, -x.2.2.2⟩

theorem det_lin_left (a c : R) (P Q : V R) : det (lin a c P Q) Q = a * det P Q := by
  unfold det lin; ring
theorem det_lin_right (a c : R) (P Q : V R) : det P (lin a c P Q) = c * det P Q := by
  unfold det lin; ring
theorem det_smul_left (s : R) (U W : V R) : det (smulV s U) W = s * det U W := by
  unfold det smulV; ring
theorem det_smul_right (s : R) (U W : V R) : det U (smulV s W) = s * det U W := by
  unfold det smulV; ring

/-- bilinearity / alternation in the model: e(aP+bQ, cP+dQ) = e(P,Q)^(ad−bc) -/
theorem det_lin_lin (a b c d : R) (P Q : V R) : det (lin a b P Q) (lin c d P Q) = (a * d - b * c) * det P Q := by
  unfold det lin; ring
theorem det_self (U : V R) : det U U = 0 := by unfold det; ring
theorem det_swap (U W : V R) : det U W = - det W U := by unfold det; ring

/-- independence of a basis with unit pairing -/
theorem lin_eq_zero (δinv : R) (P Q : V R) (hδ : det P Q * δinv = 1) (u v : R) (h : lin u v P Q = (0, 0)) :
    u = 0 ∧ v = 0 := by
  have h1 : det (lin u v P Q) Q = 0 := by rw [h]; unfold det; ring
  have h2 : det P (lin u v P Q) = 0 := by rw [h]; unfold det; ring
  rw [det_lin_left] at h1
  rw [det_lin_right] at h2
  constructor
  · calc u = u * (det P Q * δinv) := by rw [hδ, mul_one]
      _ = (u * det P Q) * δinv := by ring
      _ = 0 := by rw [h1, zero_mul]
  · calc v = v * (det P Q * δinv) := by rw [hδ, mul_one]
      _ = (v * det P Q) * δinv := by ring
      _ = 0 := by rw [h2, zero_mul]

/-- the dlogs recover the (signed) coordinates -/
theorem weilDlog_applyMat (δinv : R) (P Q : V R) (hδ : det P Q * δinv = 1) (M : Mat R) (s1 s2 : R) :
    weilDlog δinv P Q (smulV s1 (applyMat M P Q).1) (smulV s2 (applyMat M P Q).2.1)
      = (s1 * M.a, s1 * M.c, s2 * M.b, s2 * M.d) := by
  unfold weilDlog applyMat
  simp only [det_smul_left, det_smul_right, det_lin_left, det_lin_right]
  refine Prod.ext ?_ (Prod.ext ?_ (Prod.ext ?_ ?_))
  · show s1 * (M.a * det P Q) * δinv = s1 * M.a
    linear_combination (s1 * M.a) * hδ
  · show s1 * (M.c * det P Q) * δinv = s1 * M.c
    linear_combination (s1 * M.c) * hδ
  · show s2 * (M.b * det P Q) * δinv = s2 * M.b
    linear_combination (s2 * M.b) * hδ
  · show s2 * (M.d * det P Q) * δinv = s2 * M.d
    linear_combination (s2 * M.d) * hδ

theorem Mat.ext' {a b c d a' b' c' d' : R} (h1 : a = a') (h2 : b = b') (h3 : c = c') (h4 : d = d') :
    Mat.mk a b c d = Mat.mk a' b' c' d' := by subst h1; subst h2; subst h3; subst h4; rfl

theorem lin_sub (a b c d : R) (P Q : V R) :
    lin (a - b) (c - d) P Q = (( lin a c P Q).1 - (lin b d P Q).1, (lin a c P Q).2 - (lin b d P Q).2) := by
  unfold lin; refine Prod.ext ?_ ?_ <;> simp only <;> ring

/-- **matrix_application then change_of_basis gives back the matrix up to the global sign**, for EVERY matrix
    (invertible or not) over every commutative ring, every basis (P,Q) whose pairing is a unit, and every choice of
    signs s1, s2 ∈ {±1} of the lifts of the two x-only points P1, P2 (the third x-only point D fixes the relative sign) -/
theorem change_of_basis_after_application (δinv : R) (P Q : V R) (hδ : det P Q * δinv = 1) (M : Mat R)
    (s1 s2 : R) (hs1 : s1 = 1 ∨ s1 = -1) (hs2 : s2 = 1 ∨ s2 = -1) :
    let B1 := applyMat M P Q
    let res := changeOfBasis δinv P Q (smulV s1 B1.1) (smulV s2 B1.2.1) B1.2.2
    res = M ∨ res = M.neg := by
  intro B1 res
  have hx := weilDlog_applyMat δinv P Q hδ M s1 s2
  have hres : res = if xEq (lin (s1 * M.a - s2 * M.b) (s1 * M.c - s2 * M.d) P Q) (lin (M.a - M.b) (M.c - M.d) P Q)
      then ⟨s1 * M.a, s2 * M.b, s1 * M.c, s2 * M.d⟩ else ⟨s1 * M.a, -(s2 * M.b), s1 * M.c, -(s2 * M.d)⟩ := by
    show changeOfBasis δinv P Q _ _ _ = _
    unfold changeOfBasis
    simp only [B1, hx]
    rfl
  rw [hres]
  have two_zero : ∀ u v : R, lin u v P Q = (0, 0) → u = 0 ∧ v = 0 := lin_eq_zero δinv P Q hδ
  rcases hs1 with rfl | rfl <;> rcases hs2 with rfl | rfl
  · -- (+,+): test succeeds, result = M
    left
    have : xEq (lin (1 * M.a - 1 * M.b) (1 * M.c - 1 * M.d) P Q) (lin (M.a - M.b) (M.c - M.d) P Q) := by
      left; simp only [one_mul]
    rw [if_pos this]; cases M; simp
  · -- (+,−)
    split
    · next h =>
      -- the test passed although the lifts were inconsistent: then 2·(b,d) = 0 or 2·(a,c) = 0
      rcases h with h | h
      · -- P1 + P2 = P1 − P2 ⇒ 2b = 2d = 0 ⇒ −b = b, −d = d: result = M
        have hz : lin (2 * M.b) (2 * M.d) P Q = (0, 0) := by
          have e1 := congrArg Prod.fst h; have e2 := congrArg Prod.snd h
          unfold lin at e1 e2 ⊢; simp only at e1 e2
          refine Prod.ext ?_ ?_ <;> simp only
          · linear_combination e1
          · linear_combination e2
        obtain ⟨hb, hd⟩ := two_zero _ _ hz
        left; cases M; simp only at hb hd ⊢
        exact Mat.ext' (by ring) (by linear_combination (-1 : R) * hb) (by ring) (by linear_combination (-1 : R) * hd)
      · -- P1 + P2 = −(P1 − P2) ⇒ 2a = 2c = 0: result = −M
        have hz : lin (2 * M.a) (2 * M.c) P Q = (0, 0) := by
          have e1 := congrArg Prod.fst h; have e2 := congrArg Prod.snd h
          unfold lin at e1 e2 ⊢; unfold smulV at e1 e2; simp only at e1 e2
          refine Prod.ext ?_ ?_ <;> simp only
          · linear_combination e1
          · linear_combination e2
        obtain ⟨ha, hc⟩ := two_zero _ _ hz
        right; cases M; simp only [Mat.neg] at ha hc ⊢
        exact Mat.ext' (by linear_combination ha) (by ring) (by linear_combination hc) (by ring)
    · left; cases M; simp
  · -- (−,+)
    split
    · next h =>
      rcases h with h | h
      · -- −P1 − P2 = P1 − P2 ⇒ 2a = 2c = 0: result (−a, b, −c, d) = M
        have hz : lin (2 * M.a) (2 * M.c) P Q = (0, 0) := by
          have e1 := congrArg Prod.fst h; have e2 := congrArg Prod.snd h
          unfold lin at e1 e2 ⊢; simp only at e1 e2
          refine Prod.ext ?_ ?_ <;> simp only
          · linear_combination -e1
          · linear_combination -e2
        obtain ⟨ha, hc⟩ := two_zero _ _ hz
        left; cases M; simp only at ha hc ⊢
        exact Mat.ext' (by linear_combination (-1 : R) * ha) (by ring) (by linear_combination (-1 : R) * hc) (by ring)
      · -- −P1 − P2 = −(P1 − P2) ⇒ 2b = 2d = 0: result = −M
        have hz : lin (2 * M.b) (2 * M.d) P Q = (0, 0) := by
          have e1 := congrArg Prod.fst h; have e2 := congrArg Prod.snd h
          unfold lin at e1 e2 ⊢; unfold smulV at e1 e2; simp only at e1 e2
          refine Prod.ext ?_ ?_ <;> simp only
          · linear_combination -e1
          · linear_combination -e2
        obtain ⟨hb, hd⟩ := two_zero _ _ hz
        right; cases M; simp only [Mat.neg] at hb hd ⊢
        exact Mat.ext' (by ring) (by linear_combination hb) (by ring) (by linear_combination hd)
    · right; cases M; simp [Mat.neg]
  · -- (−,−): test succeeds (x-only), result = −M
    right
    have : xEq (lin (-1 * M.a - -1 * M.b) (-1 * M.c - -1 * M.d) P Q) (lin (M.a - M.b) (M.c - M.d) P Q) := by
      right; unfold lin smulV; refine Prod.ext ?_ ?_ <;> simp only <;> ring
    rw [if_pos this]; cases M; simp [Mat.neg]

end SqiProofs.PairingMat

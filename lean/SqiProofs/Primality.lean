/-
Primality of the three scheme primes p = c·2^f − 1, proved inside Lean (no axioms beyond the standard
three; the only computation is 247/375/499 modular complex squarings evaluated by the kernel).

N+1 argument in M₂(ZMod r) ⊇ (ZMod r)[i] (i ↦ J = !![0,−1;1,0]): a certificate g = a + b·i with
g^(2^(f−1)) = −1 (mod p) has order exactly 2^f modulo every prime factor r of p; Frobenius gives
g^(r²) = g, so 2^f ∣ r² − 1, hence r ≥ 2^(f−1) − 1, hence r² > p — so p has no prime factor ≤ √p.
-/
import Mathlib.Data.ZMod.Basic
import Mathlib.FieldTheory.Finite.Basic
import Mathlib.Algebra.CharP.Lemmas
import Mathlib.GroupTheory.OrderOfElement
import Mathlib.Data.Matrix.Basic
import Mathlib.LinearAlgebra.Matrix.Notation
import Mathlib.LinearAlgebra.Matrix.CharP
import Mathlib.Tactic.Ring
import Mathlib.Tactic.FinCases
import Mathlib.Tactic.Linarith

namespace SqiProofs.Primality
open Matrix

abbrev M2 (R : Type) := Matrix (Fin 2) (Fin 2) R

/-- a + b·i as a 2×2 matrix -/
def toM {R : Type} [CommRing R] (a b : R) : M2 R := !![a, -b; b, a]

theorem toM_mul {R : Type} [CommRing R] (a b c d : R) :
    toM a b * toM c d = toM (a * c - b * d) (a * d + b * c) := by
  ext i j
  fin_cases i <;> fin_cases j <;> simp [toM, Matrix.mul_apply, Fin.sum_univ_two] <;> ring

theorem toM_one {R : Type} [CommRing R] : toM (1 : R) 0 = 1 := by
  ext i j
  fin_cases i <;> fin_cases j <;> simp [toM]

theorem toM_neg_one {R : Type} [CommRing R] : toM (-1 : R) 0 = -1 := by
  ext i j
  fin_cases i <;> fin_cases j <;> simp [toM]

theorem toM_map {R S : Type} [CommRing R] [CommRing S] (φ : R →+* S) (a b : R) :
    φ.mapMatrix (toM a b) = toM (φ a) (φ b) := by
  ext i j
  fin_cases i <;> fin_cases j <;> simp [toM]

/-! ### the computation, over `Nat` (kernel-evaluable) -/

/-- complex squaring modulo p on pairs of naturals -/
def csq (p : Nat) (x : Nat × Nat) : Nat × Nat :=
  ((x.1 * x.1 + (p - (x.2 * x.2) % p)) % p, (2 * x.1 * x.2) % p)

def csqIter (p : Nat) : Nat → Nat × Nat → Nat × Nat
  | 0, x => x
  | k + 1, x => csqIter p k (csq p x)

def toMN (p : Nat) (x : Nat × Nat) : M2 (ZMod p) := toM (x.1 : ZMod p) (x.2 : ZMod p)

theorem toMN_csq (p : Nat) [NeZero p] (x : Nat × Nat) : toMN p (csq p x) = toMN p x * toMN p x := by
  have hp : 0 < p := Nat.pos_of_ne_zero (NeZero.ne p)
  unfold toMN csq
  rw [toM_mul]
  have hle : (x.2 * x.2) % p ≤ p := (Nat.mod_lt _ hp).le
  congr 1
  · rw [ZMod.natCast_mod, Nat.cast_add, Nat.cast_sub hle, ZMod.natCast_self, ZMod.natCast_mod]
    push_cast; ring
  · rw [ZMod.natCast_mod]; push_cast; ring

theorem toMN_csqIter (p : Nat) [NeZero p] : ∀ (k : Nat) (x : Nat × Nat),
    toMN p (csqIter p k x) = (toMN p x) ^ (2 ^ k)
  | 0, x => by simp [csqIter]
  | k + 1, x => by
    rw [csqIter, toMN_csqIter p k, toMN_csq, pow_succ, pow_mul', pow_two]

/-! ### Frobenius on a + b·i in characteristic r -/

def J (R : Type) [CommRing R] : M2 R := toM 0 1

theorem J_sq (R : Type) [CommRing R] : J R * J R = -1 := by
  unfold J; rw [toM_mul]; simp [toM_neg_one]

theorem toM_eq (R : Type) [CommRing R] (a b : R) : toM a b = a • (1 : M2 R) + b • J R := by
  ext i j
  fin_cases i <;> fin_cases j <;> simp [toM, J]

theorem J_pow_of_mod4 (R : Type) [CommRing R] (n : Nat) (h : n % 4 = 1) : (J R) ^ n = J R := by
  obtain ⟨m, rfl⟩ : ∃ m, n = 4 * m + 1 := ⟨n / 4, by omega⟩
  have h4 : (J R) ^ 4 = 1 := by
    have : (J R) ^ 4 = (J R * J R) * (J R * J R) := by
      simp [pow_succ, mul_assoc]
    rw [this, J_sq]; simp
  rw [pow_succ, pow_mul, h4, one_pow, one_mul]

theorem frobenius_sq (r : Nat) [hr : Fact r.Prime] (hodd : r % 2 = 1) (a b : ZMod r) :
    (toM a b) ^ (r * r) = toM a b := by
  have key : ∀ (n : Nat), (a • (1 : M2 (ZMod r)) + b • (J (ZMod r)) ^ n) ^ r =
      a • (1 : M2 (ZMod r)) + b • (J (ZMod r)) ^ (n * r) := by
    intro n
    have hc : Commute (a • (1 : M2 (ZMod r))) (b • (J (ZMod r)) ^ n) :=
      ((Commute.one_left _).smul_left a)
    rw [add_pow_char_of_commute r hc, smul_pow, smul_pow, one_pow, ZMod.pow_card, ZMod.pow_card, ← pow_mul]
  have h1 := key 1
  rw [pow_one] at h1
  rw [pow_mul, toM_eq, h1, one_mul, key r]
  congr 2
  apply J_pow_of_mod4
  have : r % 4 = 1 ∨ r % 4 = 3 := by omega
  rcases this with h | h <;> simp [Nat.mul_mod, h]

/-! ### arithmetic endgame -/

theorem big_of_dvd (r f : Nat) (hf : 3 ≤ f) (hr3 : 3 ≤ r) (hodd : r % 2 = 1)
    (hd : 2 ^ f ∣ r * r - 1) : 2 ^ (f - 1) ≤ r + 1 := by
  obtain ⟨m, rfl⟩ : ∃ m, r = 2 * m + 1 := ⟨r / 2, by omega⟩
  have hm : 1 ≤ m := by omega
  have e : (2 * m + 1) * (2 * m + 1) - 1 = 2 ^ 2 * (m * (m + 1)) := by
    have : (2 * m + 1) * (2 * m + 1) = 2 ^ 2 * (m * (m + 1)) + 1 := by ring
    omega
  rw [e] at hd
  have hf2 : 2 ^ f = 2 ^ 2 * 2 ^ (f - 2) := by rw [← pow_add]; congr 1; omega
  rw [hf2] at hd
  have hd' : 2 ^ (f - 2) ∣ m * (m + 1) := Nat.dvd_of_mul_dvd_mul_left (by norm_num) hd
  have hcop : Nat.Coprime m (m + 1) := by simp
  have hcases : 2 ^ (f - 2) ∣ m ∨ 2 ^ (f - 2) ∣ m + 1 := by
    have hpp : (2 : Nat).Prime := Nat.prime_two
    rcases Nat.eq_zero_or_pos (f - 2) with h0 | _
    · left; simp [h0]
    · -- 2^(f-2) is a prime power; m and m+1 are coprime so it divides one of them
      by_cases h2 : 2 ∣ m
      · left
        have : Nat.Coprime (2 ^ (f - 2)) (m + 1) := by
          apply Nat.Coprime.pow_left
          exact (Nat.Prime.coprime_iff_not_dvd hpp).mpr (by omega)
        exact this.dvd_of_dvd_mul_right hd'
      · right
        have : Nat.Coprime (2 ^ (f - 2)) m := by
          apply Nat.Coprime.pow_left
          exact (Nat.Prime.coprime_iff_not_dvd hpp).mpr h2
        exact this.dvd_of_dvd_mul_left hd'
  have hle : 2 ^ (f - 2) ≤ m + 1 := by
    rcases hcases with h | h
    · exact le_trans (Nat.le_of_dvd (by omega) h) (by omega)
    · exact Nat.le_of_dvd (by omega) h
  have hf1 : 2 ^ (f - 1) = 2 * 2 ^ (f - 2) := by
    rw [← pow_succ']; congr 1; omega
  omega

/-- **Primality certificate**: p = c·2^f − 1, c small, and a Gaussian element (a,b) mod p whose
2^(f−1)-th power (by repeated squaring) is −1. -/
theorem prime_of_cert (p f c a b : Nat) (hf : 3 ≤ f) (hp : p + 1 = c * 2 ^ f) (hc : 4 * c + 4 < 2 ^ f)
    (hcert : csqIter p (f - 1) (a, b) = (p - 1, 0)) : p.Prime := by
  have hc0 : 0 < c := by
    rcases Nat.eq_zero_or_pos c with h | h
    · subst h; simp at hp
    · exact h
  have h2f : 8 ≤ 2 ^ f := by
    calc 8 = 2 ^ 3 := by norm_num
      _ ≤ 2 ^ f := Nat.pow_le_pow_right (by norm_num) hf
  have hp2 : 2 ≤ p := by nlinarith
  by_contra hnp
  have hpos : 0 < p := by omega
  -- smallest prime factor
  set r := p.minFac with hrdef
  have hrp : r.Prime := Nat.minFac_prime (by omega)
  have hrdvd : r ∣ p := Nat.minFac_dvd p
  have hrsq : r ^ 2 ≤ p := Nat.minFac_sq_le_self hpos hnp
  have : Fact r.Prime := ⟨hrp⟩
  have : NeZero p := ⟨by omega⟩
  -- p is odd, so r is odd
  have hpodd : p % 2 = 1 := by
    have : 2 ∣ c * 2 ^ f := Dvd.dvd.mul_left (dvd_pow_self 2 (by omega)) c
    omega
  have hrodd : r % 2 = 1 := by
    rcases Nat.even_or_odd r with he | ho
    · have : 2 ∣ p := Dvd.dvd.trans (even_iff_two_dvd.mp he) hrdvd
      omega
    · exact Nat.odd_iff.mp ho
  have hr3 : 3 ≤ r := by
    have := hrp.two_le
    rcases Nat.lt_or_ge r 3 with h | h
    · have : r = 2 := by omega
      omega
    · exact h
  have : Fact (2 < r) := ⟨by omega⟩
  -- the certificate in M₂(ZMod p), pushed to M₂(ZMod r)
  have hG : (toMN p (a, b)) ^ (2 ^ (f - 1)) = -1 := by
    rw [← toMN_csqIter, hcert]
    unfold toMN
    have : ((p - 1 : Nat) : ZMod p) = -1 := by
      rw [Nat.cast_sub (by omega), ZMod.natCast_self]; simp
    simp [this, toM_neg_one]
  let φ : ZMod p →+* ZMod r := ZMod.castHom hrdvd (ZMod r)
  let g : M2 (ZMod r) := toM (φ (a : ZMod p)) (φ (b : ZMod p))
  have hg : g ^ (2 ^ (f - 1)) = -1 := by
    have := congrArg φ.mapMatrix hG
    rw [map_pow, map_neg, map_one] at this
    have e : φ.mapMatrix (toMN p (a, b)) = g := toM_map φ _ _
    rw [e] at this
    exact this
  have hne : ¬ g ^ (2 ^ (f - 1)) = 1 := by
    rw [hg]
    intro h
    have := congrFun (congrFun h 0) 0
    simp at this
    exact ZMod.neg_one_ne_one this
  have hfin : g ^ (2 ^ (f - 1 + 1)) = 1 := by
    rw [pow_succ, pow_mul, hg]; norm_num
  have hord : orderOf g = 2 ^ (f - 1 + 1) := orderOf_eq_prime_pow hne hfin
  have hf1 : f - 1 + 1 = f := by omega
  rw [hf1] at hord hfin
  -- Frobenius twice
  have hfrob : g ^ (r * r) = g := frobenius_sq r hrodd _ _
  have hrr : 1 ≤ r * r := by nlinarith
  have hone : g ^ (r * r - 1) = 1 := by
    have h1 : g * g ^ (2 ^ f - 1) = 1 := by
      rw [← pow_succ']; rw [show 2 ^ f - 1 + 1 = 2 ^ f by omega]; exact hfin
    calc g ^ (r * r - 1) = g ^ (r * r - 1) * (g * g ^ (2 ^ f - 1)) := by rw [h1, mul_one]
      _ = g ^ (r * r - 1 + 1) * g ^ (2 ^ f - 1) := by rw [pow_succ, mul_assoc]
      _ = g * g ^ (2 ^ f - 1) := by rw [show r * r - 1 + 1 = r * r by omega, hfrob]
      _ = 1 := h1
  have hdvd : 2 ^ f ∣ r * r - 1 := by
    rw [← hord]; exact orderOf_dvd_of_pow_eq_one hone
  have hbig := big_of_dvd r f hf hr3 hrodd hdvd
  -- (2^(f-1) - 1)^2 > p
  have hf1' : 2 ^ f = 2 * 2 ^ (f - 1) := by rw [← pow_succ']; congr 1; omega
  have hrsq' : r * r ≤ p := by simpa [pow_two] using hrsq
  have : (2 ^ (f - 1) - 1) * (2 ^ (f - 1) - 1) ≤ r * r := Nat.mul_le_mul (by omega) (by omega)
  set t := 2 ^ (f - 1) with ht
  have ht4 : 4 ≤ t := by omega
  have hpc : p + 1 = c * (2 * t) := by rw [hp, hf1']
  have hct : 2 * c + 2 < t := by omega
  -- (t-1)^2 = t^2 - 2t + 1 > 2ct - 1 = p  since t > 2c + 2
  obtain ⟨s, hs⟩ : ∃ s, t = s + 1 := ⟨t - 1, by omega⟩
  rw [hs] at this hpc hct
  simp at this
  nlinarith

end SqiProofs.Primality

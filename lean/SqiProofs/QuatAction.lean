/-
C13: the map (coefficients on the O0-basis 1, i, (i+j)/2, (1+k)/2) ↦ matrix is a ring homomorphism modulo 2^f, given the
multiplication table of the three generator matrices; the table of the O0-basis is the quaternion product; left ideals of 2×2
matrices killing a vector with a unit coordinate.
-/
import SqiProofs.IdealKernel
import Mathlib.Tactic.Ring
import Mathlib.Tactic.LinearCombination
import Mathlib.Data.ZMod.Basic
import SqiModel.Mat2

namespace SqiProofs.QuatAction
open SqiProofs.PairingMat SqiProofs.IdealKernel

variable {R : Type} [CommRing R]

/-- product of O0 in the basis e0 = 1, e1 = i, e2 = (i+j)/2, e3 = (1+k)/2, with q = (p+1)/4:
    e1² = −1, e1e2 = −1 + e3, e1e3 = e1 − e2, e2e1 = −e3, e2² = −q, e2e3 = q e1, e3e1 = e2, e3e2 = −q e1 + e2, e3² = −q + e3 -/
def o0mul (q : R) (x y : R × R × R × R) : R × R × R × R :=
  (x.1 * y.1 - x.2.1 * y.2.1 - x.2.1 * y.2.2.1 - q * x.2.2.1 * y.2.2.1 - q * x.2.2.2 * y.2.2.2,
   x.1 * y.2.1 + x.2.1 * y.1 + x.2.1 * y.2.2.2 + q * x.2.2.1 * y.2.2.2 - q * x.2.2.2 * y.2.2.1,
   x.1 * y.2.2.1 + x.2.2.1 * y.1 - x.2.1 * y.2.2.2 + x.2.2.2 * y.2.1 + x.2.2.2 * y.2.2.1,
   x.1 * y.2.2.2 + x.2.2.2 * y.1 + x.2.1 * y.2.2.1 - x.2.2.1 * y.2.1 + x.2.2.2 * y.2.2.2)

/-- TWICE the coordinates over (1, i, j, k) of an element given on the O0-basis (no division by 2 needed) -/
def toIJK2 (c : R × R × R × R) : R × R × R × R :=
  (2 * c.1 + c.2.2.2, 2 * c.2.1 + c.2.2.1, c.2.2.1, c.2.2.2)

/-- the quaternion product of B(−1, −p) in coordinates over (1, i, j, k) -/
def quatMul (p : R) (x y : R × R × R × R) : R × R × R × R :=
  (x.1 * y.1 - x.2.1 * y.2.1 - p * x.2.2.1 * y.2.2.1 - p * x.2.2.2 * y.2.2.2,
   x.1 * y.2.1 + x.2.1 * y.1 + p * (x.2.2.1 * y.2.2.2 - x.2.2.2 * y.2.2.1),
   x.1 * y.2.2.1 + x.2.2.1 * y.1 - x.2.1 * y.2.2.2 + x.2.2.2 * y.2.1,
   x.1 * y.2.2.2 + x.2.2.2 * y.1 + x.2.1 * y.2.2.1 - x.2.2.1 * y.2.1)

def smul4 (s : R) (c : R × R × R × R) : R × R × R × R := (s * c.1, s * c.2.1, s * c.2.2.1, s * c.2.2.2)

/-- `o0mul` IS the quaternion product expressed on the O0-basis: (2α)(2β) = 2·(2αβ) with p = 4q − 1 -/
theorem o0mul_is_quaternion_product (q : R) (x y : R × R × R × R) :
    quatMul (4 * q - 1) (toIJK2 x) (toIJK2 y) = smul4 2 (toIJK2 (o0mul q x y)) := by
  simp only [toIJK2, o0mul, quatMul, smul4]
  refine Prod.ext ?_ (Prod.ext ?_ (Prod.ext ?_ ?_)) <;> simp only <;> ring

/-- multiplication table of the generator matrices (what is checked on the generated ACTION_* matrices modulo 2^f) -/
structure Table (q : R) (G2 G3 G4 : Mat R) : Prop where
  h22 : matMul G2 G2 = matSmul (-1) matOne
  h23 : matMul G2 G3 = matAdd (matSmul (-1) matOne) G4
  h24 : matMul G2 G4 = matAdd G2 (matSmul (-1) G3)
  h32 : matMul G3 G2 = matSmul (-1) G4
  h33 : matMul G3 G3 = matSmul (-q) matOne
  h34 : matMul G3 G4 = matSmul q G2
  h42 : matMul G4 G2 = G3
  h43 : matMul G4 G3 = matAdd (matSmul (-q) G2) G3
  h44 : matMul G4 G4 = matAdd (matSmul (-q) matOne) G4

def endoMat4 (G2 G3 G4 : Mat R) (c : R × R × R × R) : Mat R :=
  matAdd (matAdd (matAdd (matSmul c.1 matOne) (matSmul c.2.1 G2)) (matSmul c.2.2.1 G3)) (matSmul c.2.2.2 G4)

/-- **the endomorphism → matrix map is multiplicative** (with `endomorphism_matrix_linear` and M(1) = 1: a ring homomorphism
    O0 → M₂(R)), for any commutative ring R and any three matrices satisfying the table -/
theorem endoMat_mul (q : R) (G2 G3 G4 : Mat R) (T : Table q G2 G3 G4) (x y : R × R × R × R) :
    matMul (endoMat4 G2 G3 G4 x) (endoMat4 G2 G3 G4 y) = endoMat4 G2 G3 G4 (o0mul q x y) := by
  obtain ⟨x0, x1, x2, x3⟩ := x
  obtain ⟨y0, y1, y2, y3⟩ := y
  obtain ⟨h22, h23, h24, h32, h33, h34, h42, h43, h44⟩ := T
  cases G2 with | mk a2 b2 c2 d2 =>
  cases G3 with | mk a3 b3 c3 d3 =>
  cases G4 with | mk a4 b4 c4 d4 =>
  simp only [matMul, matSmul, matOne, matAdd, Mat.mk.injEq] at h22 h23 h24 h32 h33 h34 h42 h43 h44
  simp only [matMul, matSmul, matOne, matAdd, endoMat4, o0mul, Mat.mk.injEq]
  refine ⟨?_, ?_, ?_, ?_⟩
  · linear_combination x1 * y1 * h22.1 + x1 * y2 * h23.1 + x1 * y3 * h24.1 + x2 * y1 * h32.1 + x2 * y2 * h33.1 + x2 * y3 * h34.1
      + x3 * y1 * h42.1 + x3 * y2 * h43.1 + x3 * y3 * h44.1
  · linear_combination x1 * y1 * h22.2.1 + x1 * y2 * h23.2.1 + x1 * y3 * h24.2.1 + x2 * y1 * h32.2.1 + x2 * y2 * h33.2.1 + x2 * y3 * h34.2.1
      + x3 * y1 * h42.2.1 + x3 * y2 * h43.2.1 + x3 * y3 * h44.2.1
  · linear_combination x1 * y1 * h22.2.2.1 + x1 * y2 * h23.2.2.1 + x1 * y3 * h24.2.2.1 + x2 * y1 * h32.2.2.1 + x2 * y2 * h33.2.2.1
      + x2 * y3 * h34.2.2.1 + x3 * y1 * h42.2.2.1 + x3 * y2 * h43.2.2.1 + x3 * y3 * h44.2.2.1
  · linear_combination x1 * y1 * h22.2.2.2 + x1 * y2 * h23.2.2.2 + x1 * y3 * h24.2.2.2 + x2 * y1 * h32.2.2.2 + x2 * y2 * h33.2.2.2
      + x2 * y3 * h34.2.2.2 + x3 * y1 * h42.2.2.2 + x3 * y2 * h43.2.2.2 + x3 * y3 * h44.2.2.2

theorem endoMat_one (G2 G3 G4 : Mat R) : endoMat4 G2 G3 G4 (1, 0, 0, 0) = matOne := by
  cases G2; cases G3; cases G4
  simp [endoMat4, matAdd, matSmul, matOne]

/-! ## left ideals of M₂(R) killing a vector with a unit coordinate are principal, generated by any element with a unit entry -/
section Ann
variable {R : Type} [CommRing R]

/-- a row orthogonal to v (v with a unit coordinate) is a multiple of (v₂, −v₁) -/
theorem ann_row (v : V R) (hv : IsUnit v.1 ∨ IsUnit v.2) (r1 r2 : R) (h : r1 * v.1 + r2 * v.2 = 0) :
    ∃ s, r1 = s * v.2 ∧ r2 = -(s * v.1) := by
  rcases hv with h1 | h2
  · obtain ⟨w, hw⟩ := h1.exists_right_inv
    refine ⟨-(r2 * w), ?_, ?_⟩
    · linear_combination w * h - r1 * hw
    · linear_combination (-r2) * hw
  · obtain ⟨w, hw⟩ := h2.exists_right_inv
    refine ⟨r1 * w, ?_, ?_⟩
    · linear_combination (-r1) * hw
    · linear_combination w * h - r2 * hw

/-- if G kills v and has a unit entry, every G' killing v is a left multiple of G: Ann(v) = M₂(R)·G -/
theorem left_multiple_of_generator (G G' : Mat R) (v : V R) (hv : IsUnit v.1 ∨ IsUnit v.2)
    (hG : mulVec G v = (0, 0)) (hG' : mulVec G' v = (0, 0)) (hu : (IsUnit G.a ∨ IsUnit G.b) ∨ (IsUnit G.c ∨ IsUnit G.d)) :
    ∃ X : Mat R, G' = matMul X G := by
  obtain ⟨s0, ha, hb⟩ := ann_row v hv G.a G.b (congrArg Prod.fst hG)
  obtain ⟨s1, hc, hd⟩ := ann_row v hv G.c G.d (congrArg Prod.snd hG)
  obtain ⟨t0, ha', hb'⟩ := ann_row v hv G'.a G'.b (congrArg Prod.fst hG')
  obtain ⟨t1, hc', hd'⟩ := ann_row v hv G'.c G'.d (congrArg Prod.snd hG')
  rcases hu with hu | hu
  · have hs : IsUnit s0 := by
      rcases hu with h | h
      · rw [ha] at h; exact isUnit_of_mul_isUnit_left h
      · rw [hb] at h; exact isUnit_of_mul_isUnit_left (IsUnit.neg_iff _ |>.mp h)
    obtain ⟨w, hw⟩ := hs.exists_right_inv
    refine ⟨⟨t0 * w, 0, t1 * w, 0⟩, ?_⟩
    cases G with | mk a b c d =>
    cases G' with | mk a' b' c' d' =>
    simp only at ha hb hc hd ha' hb' hc' hd'
    simp only [matMul, Mat.mk.injEq]
    refine ⟨?_, ?_, ?_, ?_⟩
    · rw [ha', ha]; linear_combination (-(t0 * v.2)) * hw
    · rw [hb', hb]; linear_combination (t0 * v.1) * hw
    · rw [hc', ha]; linear_combination (-(t1 * v.2)) * hw
    · rw [hd', hb]; linear_combination (t1 * v.1) * hw
  · have hs : IsUnit s1 := by
      rcases hu with h | h
      · rw [hc] at h; exact isUnit_of_mul_isUnit_left h
      · rw [hd] at h; exact isUnit_of_mul_isUnit_left (IsUnit.neg_iff _ |>.mp h)
    obtain ⟨w, hw⟩ := hs.exists_right_inv
    refine ⟨⟨0, t0 * w, 0, t1 * w⟩, ?_⟩
    cases G with | mk a b c d =>
    cases G' with | mk a' b' c' d' =>
    simp only at ha hb hc hd ha' hb' hc' hd'
    simp only [matMul, Mat.mk.injEq]
    refine ⟨?_, ?_, ?_, ?_⟩
    · rw [ha', hc]; linear_combination (-(t0 * v.2)) * hw
    · rw [hb', hd]; linear_combination (t0 * v.1) * hw
    · rw [hc', hc]; linear_combination (-(t1 * v.2)) * hw
    · rw [hd', hd]; linear_combination (t1 * v.1) * hw
end Ann

end SqiProofs.QuatAction

/-! ## bridge: integer matrices as generated (lists of rows) ↦ matrices over ZMod n -/
namespace SqiProofs.QuatAction
open SqiProofs.PairingMat SqiProofs.IdealKernel SqiModel

def toMatZ (n : ℕ) (m : List (List Int)) : Mat (ZMod n) :=
  ⟨(Mat2.get m 0 0 : ℤ), (Mat2.get m 0 1 : ℤ), (Mat2.get m 1 0 : ℤ), (Mat2.get m 1 1 : ℤ)⟩

theorem get_mk (a b c d : Int) : Mat2.get [[a, b], [c, d]] 0 0 = a ∧ Mat2.get [[a, b], [c, d]] 0 1 = b ∧
    Mat2.get [[a, b], [c, d]] 1 0 = c ∧ Mat2.get [[a, b], [c, d]] 1 1 = d := by
  simp [Mat2.get]

theorem toMatZ_mul (n : ℕ) (a b : List (List Int)) : toMatZ n (Mat2.mul a b) = matMul (toMatZ n a) (toMatZ n b) := by
  simp only [toMatZ, Mat2.mul, matMul, (get_mk _ _ _ _).1, (get_mk _ _ _ _).2.1, (get_mk _ _ _ _).2.2.1, (get_mk _ _ _ _).2.2.2]
  simp only [Mat.mk.injEq]; push_cast; exact ⟨rfl, rfl, rfl, rfl⟩

theorem toMatZ_add (n : ℕ) (a b : List (List Int)) : toMatZ n (Mat2.add a b) = matAdd (toMatZ n a) (toMatZ n b) := by
  simp only [toMatZ, Mat2.add, matAdd, (get_mk _ _ _ _).1, (get_mk _ _ _ _).2.1, (get_mk _ _ _ _).2.2.1, (get_mk _ _ _ _).2.2.2]
  simp only [Mat.mk.injEq]; push_cast; exact ⟨rfl, rfl, rfl, rfl⟩

theorem toMatZ_smul (n : ℕ) (s : Int) (a : List (List Int)) : toMatZ n (Mat2.smul s a) = matSmul (s : ZMod n) (toMatZ n a) := by
  simp only [toMatZ, Mat2.smul, matSmul, (get_mk _ _ _ _).1, (get_mk _ _ _ _).2.1, (get_mk _ _ _ _).2.2.1, (get_mk _ _ _ _).2.2.2]
  simp only [Mat.mk.injEq]; push_cast; exact ⟨rfl, rfl, rfl, rfl⟩

theorem toMatZ_scalar (n : ℕ) (s : Int) : toMatZ n (Mat2.scalar s) = matSmul (s : ZMod n) matOne := by
  simp only [toMatZ, Mat2.scalar, matSmul, matOne, (get_mk _ _ _ _).1, (get_mk _ _ _ _).2.1, (get_mk _ _ _ _).2.2.1, (get_mk _ _ _ _).2.2.2]
  simp

theorem cast_eq_of_emod (n : ℕ) (x y : Int) (h : ((x - y) % (n : Int) == 0) = true) : ((x : ℤ) : ZMod n) = ((y : ℤ) : ZMod n) := by
  have h' : (x - y) % (n : Int) = 0 := by simpa using h
  have : ((x - y : ℤ) : ZMod n) = 0 := (ZMod.intCast_zmod_eq_zero_iff_dvd _ _).mpr (Int.dvd_of_emod_eq_zero h')
  have e : ((x : ℤ) : ZMod n) - ((y : ℤ) : ZMod n) = 0 := by rw [← Int.cast_sub]; exact this
  exact sub_eq_zero.mp e

theorem toMatZ_congr (n : ℕ) (a b : List (List Int)) (h : Mat2.eqMod (n : Int) a b = true) : toMatZ n a = toMatZ n b := by
  unfold Mat2.eqMod at h
  simp only [Bool.and_eq_true] at h
  obtain ⟨⟨⟨h1, h2⟩, h3⟩, h4⟩ := h
  simp only [toMatZ, Mat.mk.injEq]
  exact ⟨cast_eq_of_emod n _ _ h1, cast_eq_of_emod n _ _ h2, cast_eq_of_emod n _ _ h3, cast_eq_of_emod n _ _ h4⟩

/-- the nine products of the generator matrices, as a kernel-decidable check on the generated integer matrices -/
def tableOK (N q : Int) (G2 G3 G4 : List (List Int)) : Bool :=
  Mat2.eqMod N (Mat2.mul G2 G2) (Mat2.scalar (-1)) &&
  Mat2.eqMod N (Mat2.mul G2 G3) (Mat2.add (Mat2.scalar (-1)) G4) &&
  Mat2.eqMod N (Mat2.mul G2 G4) (Mat2.add G2 (Mat2.smul (-1) G3)) &&
  Mat2.eqMod N (Mat2.mul G3 G2) (Mat2.smul (-1) G4) &&
  Mat2.eqMod N (Mat2.mul G3 G3) (Mat2.scalar (-q)) &&
  Mat2.eqMod N (Mat2.mul G3 G4) (Mat2.smul q G2) &&
  Mat2.eqMod N (Mat2.mul G4 G2) G3 &&
  Mat2.eqMod N (Mat2.mul G4 G3) (Mat2.add (Mat2.smul (-q) G2) G3) &&
  Mat2.eqMod N (Mat2.mul G4 G4) (Mat2.add (Mat2.scalar (-q)) G4)

theorem table_of_tableOK (n : ℕ) (q : Int) (G2 G3 G4 : List (List Int)) (h : tableOK (n : Int) q G2 G3 G4 = true) :
    Table ((q : ℤ) : ZMod n) (toMatZ n G2) (toMatZ n G3) (toMatZ n G4) := by
  unfold tableOK at h
  simp only [Bool.and_eq_true] at h
  obtain ⟨⟨⟨⟨⟨⟨⟨⟨h22, h23⟩, h24⟩, h32⟩, h33⟩, h34⟩, h42⟩, h43⟩, h44⟩ := h
  refine ⟨?_, ?_, ?_, ?_, ?_, ?_, ?_, ?_, ?_⟩
  · have := toMatZ_congr n _ _ h22; rw [toMatZ_mul, toMatZ_scalar] at this; simpa using this
  · have := toMatZ_congr n _ _ h23; rw [toMatZ_mul, toMatZ_add, toMatZ_scalar] at this; simpa using this
  · have := toMatZ_congr n _ _ h24; rw [toMatZ_mul, toMatZ_add, toMatZ_smul] at this; simpa using this
  · have := toMatZ_congr n _ _ h32; rw [toMatZ_mul, toMatZ_smul] at this; simpa using this
  · have := toMatZ_congr n _ _ h33; rw [toMatZ_mul, toMatZ_scalar] at this; simpa using this
  · have := toMatZ_congr n _ _ h34; rw [toMatZ_mul, toMatZ_smul] at this; simpa using this
  · have := toMatZ_congr n _ _ h42; rw [toMatZ_mul] at this; exact this
  · have := toMatZ_congr n _ _ h43; rw [toMatZ_mul, toMatZ_add, toMatZ_smul] at this; simpa using this
  · have := toMatZ_congr n _ _ h44; rw [toMatZ_mul, toMatZ_add, toMatZ_scalar] at this; simpa using this

end SqiProofs.QuatAction

import SqiModel.Quat
import Mathlib.Algebra.Quaternion
import Mathlib.Tactic.Ring
import Mathlib.Tactic.FieldSimp
import Mathlib.Tactic.Linarith
import Mathlib.Tactic.Push
/- C14, algebra part: the model of algebra.c computes in Mathlib's quaternion algebra `ℍ[ℚ, -1, 0, -p]`. -/
open SqiModel.Quat

namespace SqiProofs.QuatAlg

/-- the quaternion algebra ramified at p and ∞: i² = -1, j² = -p, k = ij -/
abbrev H (p : ℤ) := QuaternionAlgebra ℚ (-1) 0 (-(p : ℚ))

/-- value of a `quat_alg_elem_t`: numerators divided by the common denominator -/
def val (p : ℤ) (e : Elem) : H p :=
  ⟨(e.coord.x0 : ℚ) / e.denom, (e.coord.x1 : ℚ) / e.denom, (e.coord.x2 : ℚ) / e.denom, (e.coord.x3 : ℚ) / e.denom⟩

/-- value of an `ibq_t` result -/
def qval : Option (ℤ × ℤ) → Option ℚ
  | some (n, d) => some ((n : ℚ) / d)
  | none => none

theorem gcd_ne_zero_left {a b : ℤ} (ha : a ≠ 0) : ibzGcd a b ≠ 0 := by
  unfold ibzGcd
  have : Int.gcd a b ≠ 0 := by
    intro h; exact ha ((Int.gcd_eq_zero_iff.mp h).1)
  exact_mod_cast this

theorem gcd_ne_zero_right {a b : ℤ} (hb : b ≠ 0) : ibzGcd a b ≠ 0 := by
  unfold ibzGcd
  have : Int.gcd a b ≠ 0 := by
    intro h; exact hb ((Int.gcd_eq_zero_iff.mp h).2)
  exact_mod_cast this

theorem gcd_dvd_left' (a b : ℤ) : ibzGcd a b ∣ a := by unfold ibzGcd; exact Int.gcd_dvd_left a b
theorem gcd_dvd_right' (a b : ℤ) : ibzGcd a b ∣ b := by unfold ibzGcd; exact Int.gcd_dvd_right a b

theorem tdiv_mul_of_dvd {a g : ℤ} (h : g ∣ a) : Int.tdiv a g * g = a := Int.tdiv_mul_cancel h

/-- exact truncated division as a rational quotient -/
theorem tdiv_cast {a g : ℤ} (h : g ∣ a) (hg : g ≠ 0) : ((Int.tdiv a g : ℤ) : ℚ) = (a : ℚ) / g := by
  have := tdiv_mul_of_dvd h
  have hg' : (g : ℚ) ≠ 0 := by exact_mod_cast hg
  rw [eq_div_iff hg']
  exact_mod_cast this

theorem algMul_val (p : ℤ) (a b : Elem) (ha : a.denom ≠ 0) (hb : b.denom ≠ 0) :
    val p (algMul p a b) = val p a * val p b := by
  have ha' : (a.denom : ℚ) ≠ 0 := by exact_mod_cast ha
  have hb' : (b.denom : ℚ) ≠ 0 := by exact_mod_cast hb
  simp only [val, algMul, mulCoord, QuaternionAlgebra.mk_mul_mk]
  congr 1 <;> (push_cast; field_simp; ring)

theorem algMul_denom_ne (p : ℤ) (a b : Elem) (ha : a.denom ≠ 0) (hb : b.denom ≠ 0) :
    (algMul p a b).denom ≠ 0 := by
  simp only [algMul]; exact mul_ne_zero ha hb

theorem algConj_val (p : ℤ) (a : Elem) : val p (algConj a) = star (val p a) := by
  simp only [val, algConj]
  apply QuaternionAlgebra.ext <;> simp [neg_div]

theorem equalDenom_spec (p : ℤ) (a b : Elem) (ha : a.denom ≠ 0) (hb : b.denom ≠ 0) :
    val p (equalDenom a b).1 = val p a ∧ val p (equalDenom a b).2 = val p b ∧
    (equalDenom a b).1.denom = (equalDenom a b).2.denom ∧ (equalDenom a b).1.denom ≠ 0 := by
  have hg : ibzGcd a.denom b.denom ≠ 0 := gcd_ne_zero_left ha
  have h1 := tdiv_mul_of_dvd (gcd_dvd_left' a.denom b.denom)
  have h2 := tdiv_mul_of_dvd (gcd_dvd_right' a.denom b.denom)
  set g := ibzGcd a.denom b.denom with hgdef
  set da := Int.tdiv a.denom g with hda
  set db := Int.tdiv b.denom g with hdb
  have hda0 : da ≠ 0 := by intro h; rw [h] at h1; simp at h1; exact ha h1.symm
  have hdb0 : db ≠ 0 := by intro h; rw [h] at h2; simp at h2; exact hb h2.symm
  have hgq : (g : ℚ) ≠ 0 := by exact_mod_cast hg
  have hdaq : (da : ℚ) ≠ 0 := by exact_mod_cast hda0
  have hdbq : (db : ℚ) ≠ 0 := by exact_mod_cast hdb0
  have ea : (a.denom : ℚ) = da * g := by exact_mod_cast h1.symm
  have eb : (b.denom : ℚ) = db * g := by exact_mod_cast h2.symm
  refine ⟨?_, ?_, rfl, ?_⟩
  · simp only [val, equalDenom, Vec4.map, ← hgdef, ← hda, ← hdb]
    congr 1 <;> (push_cast; rw [ea]; field_simp)
  · simp only [val, equalDenom, Vec4.map, ← hgdef, ← hda, ← hdb]
    congr 1 <;> (push_cast; rw [eb]; field_simp)
  · simp only [equalDenom, ← hgdef, ← hda, ← hdb]
    exact mul_ne_zero (mul_ne_zero hda0 hdb0) hg

theorem val_add_same (p : ℤ) (x y : Elem) (h : x.denom = y.denom) :
    val p ⟨x.denom, x.coord.add y.coord⟩ = val p x + val p y := by
  simp only [val, Vec4.add, QuaternionAlgebra.mk_add_mk, ← h]
  congr 1 <;> (push_cast; ring)

theorem val_sub_same (p : ℤ) (x y : Elem) (h : x.denom = y.denom) :
    val p ⟨x.denom, x.coord.sub y.coord⟩ = val p x - val p y := by
  simp only [val, Vec4.sub, QuaternionAlgebra.mk_sub_mk, ← h]
  congr 1 <;> (push_cast; ring)

theorem algAdd_val (p : ℤ) (a b : Elem) (ha : a.denom ≠ 0) (hb : b.denom ≠ 0) :
    val p (algAdd a b) = val p a + val p b ∧ (algAdd a b).denom ≠ 0 := by
  obtain ⟨h1, h2, h3, h4⟩ := equalDenom_spec p a b ha hb
  rw [← h1, ← h2]
  exact ⟨val_add_same p _ _ h3, h4⟩

theorem algSub_val (p : ℤ) (a b : Elem) (ha : a.denom ≠ 0) (hb : b.denom ≠ 0) :
    val p (algSub a b) = val p a - val p b ∧ (algSub a b).denom ≠ 0 := by
  obtain ⟨h1, h2, h3, h4⟩ := equalDenom_spec p a b ha hb
  rw [← h1, ← h2]
  exact ⟨val_sub_same p _ _ h3, h4⟩

/-- reduced norm in `H p` -/
def nrm {p : ℤ} (z : H p) : ℚ := (z * star z).re
/-- reduced trace in `H p` -/
def trc {p : ℤ} (z : H p) : ℚ := (z + star z).re

theorem nrm_eq {p : ℤ} (z : H p) : nrm z = z.re ^ 2 + z.imI ^ 2 + p * z.imJ ^ 2 + p * z.imK ^ 2 := by
  obtain ⟨a, b, c, d⟩ := z
  simp only [nrm, QuaternionAlgebra.star_mk, QuaternionAlgebra.mk_mul_mk]
  ring

/-- the reduced norm is multiplicative -/
theorem nrm_mul {p : ℤ} (x y : H p) : nrm (x * y) = nrm x * nrm y := by
  obtain ⟨a, b, c, d⟩ := x
  obtain ⟨e, f, g, h⟩ := y
  simp only [nrm_eq, QuaternionAlgebra.mk_mul_mk]
  ring

theorem mul_star_eq_coe {p : ℤ} (z : H p) : z * star z = ((nrm z : ℚ) : H p) := by
  obtain ⟨a, b, c, d⟩ := z
  apply QuaternionAlgebra.ext <;>
    simp [nrm, QuaternionAlgebra.star_mk, QuaternionAlgebra.mk_mul_mk] <;> ring

theorem ibqSet_spec (a b : ℤ) (hb : b ≠ 0) :
    ∃ n d, ibqSet a b = some (n, d) ∧ 0 < d ∧ (n : ℚ) / d = (a : ℚ) / b ∧ Int.gcd n d = 1 := by
  have hg : ibzGcd a b ≠ 0 := gcd_ne_zero_right hb
  have h1 := tdiv_mul_of_dvd (gcd_dvd_left' a b)
  have h2 := tdiv_mul_of_dvd (gcd_dvd_right' a b)
  have hgpos : 0 < ibzGcd a b := by
    unfold ibzGcd at hg ⊢
    have : (0 : ℤ) ≤ (Int.gcd a b : ℤ) := Int.natCast_nonneg _
    omega
  have hcop : Int.gcd (Int.tdiv a (ibzGcd a b)) (Int.tdiv b (ibzGcd a b)) = 1 := by
    have e1 : Int.tdiv a (ibzGcd a b) = a / ibzGcd a b := Int.tdiv_eq_ediv_of_dvd (gcd_dvd_left' a b)
    have e2 : Int.tdiv b (ibzGcd a b) = b / ibzGcd a b := Int.tdiv_eq_ediv_of_dvd (gcd_dvd_right' a b)
    rw [e1, e2]
    unfold ibzGcd
    exact Int.gcd_ediv_gcd_ediv_gcd_of_ne_zero_right hb
  set g := ibzGcd a b
  set n0 := Int.tdiv a g
  set d0 := Int.tdiv b g
  have hgq : (g : ℚ) ≠ 0 := by exact_mod_cast hg
  have hbq : (b : ℚ) ≠ 0 := by exact_mod_cast hb
  have ea : (a : ℚ) = n0 * g := by exact_mod_cast h1.symm
  have eb : (b : ℚ) = d0 * g := by exact_mod_cast h2.symm
  have hd0 : d0 ≠ 0 := by intro h; rw [h] at h2; simp at h2; exact hb h2.symm
  have hd0q : (d0 : ℚ) ≠ 0 := by exact_mod_cast hd0
  by_cases hneg : b < 0
  · refine ⟨-1 * n0, -1 * d0, by simp [ibqSet, hb, hneg, g, n0, d0], ?_, ?_, ?_⟩
    · have : d0 * g < 0 := by rw [h2]; exact hneg
      have : d0 < 0 := by
        rcases lt_trichotomy d0 0 with h | h | h
        · exact h
        · exact absurd h hd0
        · exact absurd (mul_pos h hgpos) (by omega)
      omega
    · push_cast; rw [ea, eb]; field_simp
    · simpa using hcop
  · refine ⟨1 * n0, 1 * d0, by simp [ibqSet, hb, hneg, g, n0, d0], ?_, ?_, ?_⟩
    · have hbpos : 0 < b := by omega
      have : 0 < d0 * g := by rw [h2]; exact hbpos
      have : 0 < d0 := by
        rcases lt_trichotomy d0 0 with h | h | h
        · exact absurd (mul_neg_of_neg_of_pos h hgpos) (by omega)
        · exact absurd h hd0
        · exact h
      omega
    · push_cast; rw [ea, eb]; field_simp
    · simpa using hcop

theorem algNorm_val (p : ℤ) (a : Elem) (ha : a.denom ≠ 0) : qval (algNorm p a) = some (nrm (val p a)) := by
  have hd : (algMul p a (algConj a)).denom ≠ 0 := algMul_denom_ne p a (algConj a) ha (by simpa [algConj] using ha)
  obtain ⟨n, d, h1, _, h3, _⟩ := ibqSet_spec (algMul p a (algConj a)).coord.x0 (algMul p a (algConj a)).denom hd
  have hv := algMul_val p a (algConj a) ha (by simpa [algConj] using ha)
  rw [algConj_val] at hv
  unfold algNorm
  simp only [h1, qval, h3]
  congr 1
  unfold nrm
  rw [← hv]
  simp [val]

theorem algTrace_val (p : ℤ) (a : Elem) (ha : a.denom ≠ 0) : qval (algTrace a) = some (trc (val p a)) := by
  obtain ⟨n, d, h1, _, h3, _⟩ := ibqSet_spec (a.coord.x0 + a.coord.x0) a.denom ha
  unfold algTrace
  simp only [h1, qval, h3]
  congr 1
  simp only [trc, val, QuaternionAlgebra.star_mk, QuaternionAlgebra.mk_add_mk]
  push_cast; ring

theorem content_dvd (v : Vec4) : v.content ∣ v.x0 ∧ v.content ∣ v.x1 ∧ v.content ∣ v.x2 ∧ v.content ∣ v.x3 := by
  unfold Vec4.content
  have a := gcd_dvd_left' v.x3 (ibzGcd v.x2 (ibzGcd v.x0 v.x1))
  have b := gcd_dvd_right' v.x3 (ibzGcd v.x2 (ibzGcd v.x0 v.x1))
  have c := gcd_dvd_left' v.x2 (ibzGcd v.x0 v.x1)
  have d := gcd_dvd_right' v.x2 (ibzGcd v.x0 v.x1)
  have e := gcd_dvd_left' v.x0 v.x1
  have f := gcd_dvd_right' v.x0 v.x1
  exact ⟨b.trans (d.trans e), b.trans (d.trans f), b.trans c, a⟩

/-- `quat_alg_normalize` keeps the value and makes the denominator positive -/
theorem algNormalize_val (p : ℤ) (x : Elem) (hx : x.denom ≠ 0) :
    val p (algNormalize x) = val p x ∧ 0 < (algNormalize x).denom := by
  have hg : ibzGcd x.coord.content x.denom ≠ 0 := gcd_ne_zero_right hx
  obtain ⟨c0, c1, c2, c3⟩ := content_dvd x.coord
  have hgc := gcd_dvd_left' x.coord.content x.denom
  have hd := tdiv_mul_of_dvd (gcd_dvd_right' x.coord.content x.denom)
  have e0 := tdiv_mul_of_dvd (hgc.trans c0)
  have e1 := tdiv_mul_of_dvd (hgc.trans c1)
  have e2 := tdiv_mul_of_dvd (hgc.trans c2)
  have e3 := tdiv_mul_of_dvd (hgc.trans c3)
  unfold algNormalize
  simp only []
  generalize ibzGcd x.coord.content x.denom = g at *
  generalize hdd : Int.tdiv x.denom g = d at *
  have hd0 : d ≠ 0 := by intro h; rw [h] at hd; simp at hd; exact hx hd.symm
  have hgq : (g : ℚ) ≠ 0 := by exact_mod_cast hg
  have hdq : (d : ℚ) ≠ 0 := by exact_mod_cast hd0
  have ed : (x.denom : ℚ) = d * g := by exact_mod_cast hd.symm
  have q0 : (x.coord.x0 : ℚ) = (Int.tdiv x.coord.x0 g : ℤ) * g := by exact_mod_cast e0.symm
  have q1 : (x.coord.x1 : ℚ) = (Int.tdiv x.coord.x1 g : ℤ) * g := by exact_mod_cast e1.symm
  have q2 : (x.coord.x2 : ℚ) = (Int.tdiv x.coord.x2 g : ℤ) * g := by exact_mod_cast e2.symm
  have q3 : (x.coord.x3 : ℚ) = (Int.tdiv x.coord.x3 g : ℤ) * g := by exact_mod_cast e3.symm
  split
  · rename_i hneg
    refine ⟨?_, by show 0 < -d; omega⟩
    simp only [val, Vec4.map, Vec4.neg]
    rw [ed]
    conv_rhs => rw [q0, q1, q2, q3]
    congr 1 <;> (push_cast; field_simp)
  · rename_i hneg
    refine ⟨?_, by show 0 < d; omega⟩
    simp only [val, Vec4.map]
    rw [ed]
    conv_rhs => rw [q0, q1, q2, q3]
    congr 1 <;> (push_cast; field_simp)

end SqiProofs.QuatAlg

import SqiModel.Quat
import SqiGen.QuatAlg
/- C14 tie T (extension): the straight-line `ibz_*` bodies of algebra.c as re-translated from the C text on every run
   (`SqiGen.QuatAlg`, loops `for i<4` unrolled, calls of translated functions kept as calls) equal the hand model
   `SqiModel.Quat` for ALL inputs.  `ibz_gcd` = `Int.gcd`, `ibz_div` = `Int.tdiv`/`Int.tmod` (GMP as exact Int: trusted). -/
open SqiModel.Quat

namespace SqiProofs.QuatAlgText

/-- the five `ibz_t` fields of a `quat_alg_elem_t` in C order (denom, coord[0..3]) -/
def tup (e : Elem) : Int × Int × Int × Int × Int := (e.denom, e.coord.x0, e.coord.x1, e.coord.x2, e.coord.x3)

def ofTup (r : Int × Int × Int × Int × Int) : Elem := ⟨r.1, ⟨r.2.1, r.2.2.1, r.2.2.2.1, r.2.2.2.2⟩⟩

theorem ofTup_tup (e : Elem) : ofTup (tup e) = e := rfl

def vtup (v : Vec4) : Int × Int × Int × Int := (v.x0, v.x1, v.x2, v.x3)

def ofVtup (r : Int × Int × Int × Int) : Vec4 := ⟨r.1, r.2.1, r.2.2.1, r.2.2.2⟩

theorem ofVtup_vtup (v : Vec4) : ofVtup (vtup v) = v := rfl

theorem coord_add_gen (a b : Vec4) :
    SqiGen.QuatAlg.quat_alg_coord_add a.x0 a.x1 a.x2 a.x3 b.x0 b.x1 b.x2 b.x3 = vtup (a.add b) := rfl

theorem coord_sub_gen (a b : Vec4) :
    SqiGen.QuatAlg.quat_alg_coord_sub a.x0 a.x1 a.x2 a.x3 b.x0 b.x1 b.x2 b.x3 = vtup (a.sub b) := rfl

theorem equal_denom_gen (a b : Elem) :
    SqiGen.QuatAlg.quat_alg_equal_denom a.denom a.coord.x0 a.coord.x1 a.coord.x2 a.coord.x3
        b.denom b.coord.x0 b.coord.x1 b.coord.x2 b.coord.x3 =
      ((equalDenom a b).1.denom, (equalDenom a b).1.coord.x0, (equalDenom a b).1.coord.x1, (equalDenom a b).1.coord.x2,
       (equalDenom a b).1.coord.x3, (equalDenom a b).2.denom, (equalDenom a b).2.coord.x0, (equalDenom a b).2.coord.x1,
       (equalDenom a b).2.coord.x2, (equalDenom a b).2.coord.x3) := rfl

theorem add_gen (a b : Elem) :
    SqiGen.QuatAlg.quat_alg_add a.denom a.coord.x0 a.coord.x1 a.coord.x2 a.coord.x3
        b.denom b.coord.x0 b.coord.x1 b.coord.x2 b.coord.x3 = tup (algAdd a b) := rfl

theorem sub_gen (a b : Elem) :
    SqiGen.QuatAlg.quat_alg_sub a.denom a.coord.x0 a.coord.x1 a.coord.x2 a.coord.x3
        b.denom b.coord.x0 b.coord.x1 b.coord.x2 b.coord.x3 = tup (algSub a b) := rfl

/-- `quat_alg_norm`: the (numerator, denominator) pair handed to `ibq_set` -/
theorem norm_gen (p : Int) (a : Elem) :
    ibqSet (SqiGen.QuatAlg.quat_alg_norm p a.denom a.coord.x0 a.coord.x1 a.coord.x2 a.coord.x3).1
           (SqiGen.QuatAlg.quat_alg_norm p a.denom a.coord.x0 a.coord.x1 a.coord.x2 a.coord.x3).2 = algNorm p a := rfl

theorem trace_gen (a : Elem) :
    ibqSet (SqiGen.QuatAlg.quat_alg_trace a.denom a.coord.x0 a.coord.x1 a.coord.x2 a.coord.x3).1
           (SqiGen.QuatAlg.quat_alg_trace a.denom a.coord.x0 a.coord.x1 a.coord.x2 a.coord.x3).2 = algTrace a := rfl

theorem scalar_gen (num den : Int) : SqiGen.QuatAlg.quat_alg_scalar num den = tup (algScalar num den) := rfl

theorem copy_ibz_gen (d c0 c1 c2 c3 : Int) :
    SqiGen.QuatAlg.quat_alg_elem_copy_ibz d c0 c1 c2 c3 = tup ⟨d, ⟨c0, c1, c2, c3⟩⟩ := rfl

theorem mul_by_scalar_gen (s : Int) (x : Elem) :
    SqiGen.QuatAlg.quat_alg_elem_mul_by_scalar s x.denom x.coord.x0 x.coord.x1 x.coord.x2 x.coord.x3 =
      tup (elemMulByScalar s x) := rfl

theorem coord_is_zero_gen (v : Vec4) : SqiGen.QuatAlg.quat_alg_coord_is_zero v.x0 v.x1 v.x2 v.x3 = v.isZero := rfl

theorem elem_is_zero_gen (x : Elem) :
    SqiGen.QuatAlg.quat_alg_elem_is_zero x.denom x.coord.x0 x.coord.x1 x.coord.x2 x.coord.x3 = elemIsZero x := rfl

/-- `quat_alg_normalize` (in place; the one-armed `if (0 < ibz_cmp(&zero, &x->denom))` as if-then-else per field;
    `ibz_content` = the header formula gcd(v3, gcd(v2, gcd(v0, v1)))) -/
theorem normalize_gen (x : Elem) :
    SqiGen.QuatAlg.quat_alg_normalize x.denom x.coord.x0 x.coord.x1 x.coord.x2 x.coord.x3 = tup (algNormalize x) := by
  have key : ∀ (c : Prop) [Decidable c] (A B : Elem), tup (if c then A else B) = if c then tup A else tup B := by
    intro c _ A B; split <;> rfl
  obtain ⟨d, ⟨x0, x1, x2, x3⟩⟩ := x
  simp only [algNormalize, key]
  split <;> simp only [SqiGen.QuatAlg.quat_alg_normalize] <;> split <;> first | rfl | exact absurd ‹_ < _› ‹¬ _›

/-- `from_1ijk_to_O0basis` (the `if (!ibz_is_one(&el->denom))` block as if-then-else; the debug-only asserts are dropped) -/
theorem o0basis_gen (el : Elem) :
    SqiGen.QuatAlg.from_1ijk_to_O0basis el.denom el.coord.x0 el.coord.x1 el.coord.x2 el.coord.x3 =
      vtup (from1ijkToO0 el) := by
  have key : ∀ (c : Prop) [Decidable c] (A B : Vec4), vtup (if c then A else B) = if c then vtup A else vtup B := by
    intro c _ A B; split <;> rfl
  obtain ⟨d, ⟨x0, x1, x2, x3⟩⟩ := el
  simp only [from1ijkToO0, key]
  split <;> simp only [SqiGen.QuatAlg.from_1ijk_to_O0basis] <;> split <;> first | rfl | contradiction

/-- the 16 entries `mat[r][c]` of an `ibz_mat_4x4_t` in row-major order -/
def mtup (m : Mat4) : Int × Int × Int × Int × Int × Int × Int × Int × Int × Int × Int × Int × Int × Int × Int × Int :=
  (m.r0.x0, m.r0.x1, m.r0.x2, m.r0.x3, m.r1.x0, m.r1.x1, m.r1.x2, m.r1.x3,
   m.r2.x0, m.r2.x1, m.r2.x2, m.r2.x3, m.r3.x0, m.r3.x1, m.r3.x2, m.r3.x3)

/-- `quat_alg_rightmul_mat`: both loops unrolled (`if (i)` resolved per iteration, `e.coord[i-1]` reset), one call of the
    GENERATED `quat_alg_mul` per column -/
theorem rightmul_mat_gen (p : Int) (a : Elem) :
    SqiGen.QuatAlg.quat_alg_rightmul_mat p a.denom a.coord.x0 a.coord.x1 a.coord.x2 a.coord.x3 =
      mtup (rightMulMat p a) := rfl

/-- lattice.c `quat_lattice_index` (both diagonal loops unrolled, `ibz_abs` = natAbs, debug assert dropped) -/
theorem lattice_index_gen (sub over : Lattice) :
    SqiGen.QuatAlg.quat_lattice_index sub.denom (sub.basis.get 0 0) (sub.basis.get 1 1) (sub.basis.get 2 2)
      (sub.basis.get 3 3) over.denom (over.basis.get 0 0) (over.basis.get 1 1) (over.basis.get 2 2) (over.basis.get 3 3)
      = latIndex sub over := rfl

end SqiProofs.QuatAlgText

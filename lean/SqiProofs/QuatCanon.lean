import SqiProofs.QuatLattice
import Mathlib.Data.Int.GCD
/- C14: canonical representation — a rational lattice has exactly one representation (|denominator|, basis) with an
   HNF basis and a denominator reduced against the content, and `quat_lattice_reduce_denom` produces reduced ones. -/
open SqiModel.Quat SqiProofs.QuatMat SqiProofs.Hnf

namespace SqiProofs.QuatLattice

/-- the denominator is reduced against the content of the basis -/
def Reduced (l : SqiModel.Quat.Lattice) : Prop := ibzGcd l.basis.gcd l.denom = 1

theorem dvd_ibzGcd {z a b : ℤ} (ha : z ∣ a) (hb : z ∣ b) : z ∣ ibzGcd a b := by
  unfold ibzGcd; exact Int.dvd_coe_gcd ha hb

theorem foldl_gcd_greatest (z : ℤ) : ∀ (l : List ℤ) (init : ℤ), z ∣ init → (∀ x ∈ l, z ∣ x) →
    z ∣ l.foldl ibzGcd init := by
  intro l
  induction l with
  | nil => intro init h _; exact h
  | cons a t ih =>
    intro init h hl
    simp only [List.foldl_cons]
    exact ih _ (dvd_ibzGcd h (hl a (List.mem_cons_self))) (fun x hx => hl x (List.mem_cons_of_mem _ hx))

theorem mem_toList (m : Mat4) (x : ℤ) (hx : x ∈ m.toList) : ∃ r c, r < 4 ∧ c < 4 ∧ x = m.get r c := by
  obtain ⟨⟨a00, a01, a02, a03⟩, ⟨a10, a11, a12, a13⟩, ⟨a20, a21, a22, a23⟩, ⟨a30, a31, a32, a33⟩⟩ := m
  simp only [Mat4.toList, Vec4.toList, List.cons_append, List.nil_append, List.mem_cons, List.not_mem_nil, or_false] at hx
  rcases hx with rfl | rfl | rfl | rfl | rfl | rfl | rfl | rfl | rfl | rfl | rfl | rfl | rfl | rfl | rfl | rfl
  exacts [⟨0, 0, by omega, by omega, rfl⟩, ⟨0, 1, by omega, by omega, rfl⟩, ⟨0, 2, by omega, by omega, rfl⟩,
    ⟨0, 3, by omega, by omega, rfl⟩, ⟨1, 0, by omega, by omega, rfl⟩, ⟨1, 1, by omega, by omega, rfl⟩,
    ⟨1, 2, by omega, by omega, rfl⟩, ⟨1, 3, by omega, by omega, rfl⟩, ⟨2, 0, by omega, by omega, rfl⟩,
    ⟨2, 1, by omega, by omega, rfl⟩, ⟨2, 2, by omega, by omega, rfl⟩, ⟨2, 3, by omega, by omega, rfl⟩,
    ⟨3, 0, by omega, by omega, rfl⟩, ⟨3, 1, by omega, by omega, rfl⟩, ⟨3, 2, by omega, by omega, rfl⟩,
    ⟨3, 3, by omega, by omega, rfl⟩]

/-- a common divisor of all entries divides `ibz_mat_4x4_gcd` -/
theorem dvd_mat_gcd (m : Mat4) (z : ℤ) (h : ∀ r c, r < 4 → c < 4 → z ∣ m.get r c) : z ∣ m.gcd := by
  unfold Mat4.gcd
  apply foldl_gcd_greatest z _ _ (h 0 0 (by omega) (by omega))
  intro x hx
  obtain ⟨r, c, hr, hc, rfl⟩ := mem_toList m x hx
  exact h r c hr hc

theorem ibzGcd_nonneg (a b : ℤ) : 0 ≤ ibzGcd a b := by unfold ibzGcd; exact Int.natCast_nonneg _

theorem foldl_gcd_nonneg : ∀ (l : List ℤ) (init : ℤ), 0 ≤ init → 0 ≤ l.foldl ibzGcd init := by
  intro l
  induction l with
  | nil => intro init h; exact h
  | cons a t ih => intro init _; simp only [List.foldl_cons]; exact ih _ (ibzGcd_nonneg _ _)

/-- `ibz_mat_4x4_gcd` is non-negative (the scan starts with gcd(m₀₀, m₀₀) = |m₀₀|) -/
theorem mat_gcd_nonneg (m : Mat4) : 0 ≤ m.gcd := by
  obtain ⟨⟨a00, a01, a02, a03⟩, r1, r2, r3⟩ := m
  unfold Mat4.gcd
  simp only [Mat4.toList, Vec4.toList, List.cons_append, List.foldl_cons]
  exact foldl_gcd_nonneg _ _ (ibzGcd_nonneg _ _)

/-- the output of `quat_lattice_reduce_denom` is reduced -/
theorem latReduceDenom_reduced (l : SqiModel.Quat.Lattice) (hd : l.denom ≠ 0) : Reduced (latReduceDenom l) := by
  have hg0 : ibzGcd l.basis.gcd l.denom ≠ 0 := SqiProofs.QuatAlg.gcd_ne_zero_right hd
  have hgd := SqiProofs.QuatAlg.tdiv_mul_of_dvd (SqiProofs.QuatAlg.gcd_dvd_right' l.basis.gcd l.denom)
  have hentry : ∀ r c, r < 4 → c < 4 →
      (l.basis.map fun x => Int.tdiv x (ibzGcd l.basis.gcd l.denom)).get r c * ibzGcd l.basis.gcd l.denom = l.basis.get r c := by
    intro r c hr hc
    rw [mat_get_map _ _ _ _ hr hc]
    exact SqiProofs.QuatAlg.tdiv_mul_of_dvd ((SqiProofs.QuatAlg.gcd_dvd_left' _ _).trans (mat_get_dvd l.basis r c hr hc))
  unfold Reduced latReduceDenom
  simp only [Mat4.scalarDiv]
  generalize hgg : ibzGcd l.basis.gcd l.denom = g at *
  set B' := l.basis.map fun x => Int.tdiv x g with hB'
  set d' := Int.tdiv l.denom g with hd'
  set h := ibzGcd B'.gcd d' with hh
  have h1 : h * g ∣ l.basis.gcd := by
    apply dvd_mat_gcd
    intro r c hr hc
    rw [← hentry r c hr hc]
    exact mul_dvd_mul_right ((SqiProofs.QuatAlg.gcd_dvd_left' _ _).trans (mat_get_dvd B' r c hr hc)) g
  have h2 : h * g ∣ l.denom := by
    rw [← hgd]; exact mul_dvd_mul_right (SqiProofs.QuatAlg.gcd_dvd_right' _ _) g
  have h3 : h * g ∣ g := by
    have := dvd_ibzGcd h1 h2
    rw [hgg] at this; exact this
  have h4 : h ∣ 1 := by
    obtain ⟨k, hk⟩ := h3
    refine ⟨k, ?_⟩
    have : g * 1 = g * (h * k) := by rw [mul_one]; linear_combination hk
    exact mul_left_cancel₀ hg0 this
  have h5 : 0 ≤ h := ibzGcd_nonneg _ _
  exact Int.eq_one_of_dvd_one h5 h4

theorem mat_ext {m m' : Mat4} (h : ∀ r c, r < 4 → c < 4 → m.get r c = m'.get r c) : m = m' := by
  obtain ⟨⟨a00, a01, a02, a03⟩, ⟨a10, a11, a12, a13⟩, ⟨a20, a21, a22, a23⟩, ⟨a30, a31, a32, a33⟩⟩ := m
  obtain ⟨⟨b00, b01, b02, b03⟩, ⟨b10, b11, b12, b13⟩, ⟨b20, b21, b22, b23⟩, ⟨b30, b31, b32, b33⟩⟩ := m'
  have e00 := h 0 0 (by omega) (by omega); have e01 := h 0 1 (by omega) (by omega)
  have e02 := h 0 2 (by omega) (by omega); have e03 := h 0 3 (by omega) (by omega)
  have e10 := h 1 0 (by omega) (by omega); have e11 := h 1 1 (by omega) (by omega)
  have e12 := h 1 2 (by omega) (by omega); have e13 := h 1 3 (by omega) (by omega)
  have e20 := h 2 0 (by omega) (by omega); have e21 := h 2 1 (by omega) (by omega)
  have e22 := h 2 2 (by omega) (by omega); have e23 := h 2 3 (by omega) (by omega)
  have e30 := h 3 0 (by omega) (by omega); have e31 := h 3 1 (by omega) (by omega)
  have e32 := h 3 2 (by omega) (by omega); have e33 := h 3 3 (by omega) (by omega)
  simp only [Mat4.get, Mat4.row, Vec4.get] at *
  subst_vars
  rfl

/-- key divisibility step: if B₁·a₂ = B₂·a₁ entrywise and L₁ is reduced then a₁ ∣ a₂ -/
theorem denom_dvd (l1 : SqiModel.Quat.Lattice) (B2 : Mat4) (a1 a2 : ℤ) (ha1 : 0 < a1) (ha2 : 0 < a2)
    (hd : a1 ∣ l1.denom) (hr : Reduced l1)
    (he : ∀ r c, r < 4 → c < 4 → l1.basis.get r c * a2 = B2.get r c * a1) : a1 ∣ a2 := by
  have hgpos : 0 < Int.gcd a1 a2 := Int.gcd_pos_of_ne_zero_left _ (ne_of_gt ha1)
  have hcop := Int.gcd_ediv_gcd_ediv_gcd hgpos
  obtain ⟨a1', e1⟩ := Int.gcd_dvd_left a1 a2
  obtain ⟨a2', e2⟩ := Int.gcd_dvd_right a1 a2
  set h : ℤ := (Int.gcd a1 a2 : ℤ) with hh
  have hh0 : h ≠ 0 := by rw [hh]; exact_mod_cast (ne_of_gt hgpos)
  have q1 : a1 / h = a1' := by rw [e1]; exact Int.mul_ediv_cancel_left _ hh0
  have q2 : a2 / h = a2' := by rw [e2]; exact Int.mul_ediv_cancel_left _ hh0
  rw [q1, q2] at hcop
  have hdiv : ∀ r c, r < 4 → c < 4 → a1' ∣ l1.basis.get r c := by
    intro r c hr hc
    have := he r c hr hc
    rw [e1, e2] at this
    have h' : l1.basis.get r c * a2' = B2.get r c * a1' := by
      have : h * (l1.basis.get r c * a2') = h * (B2.get r c * a1') := by linear_combination this
      exact mul_left_cancel₀ hh0 this
    exact Int.dvd_of_dvd_mul_left_of_gcd_one ⟨B2.get r c, by rw [h']; ring⟩ hcop
  have hg : a1' ∣ l1.basis.gcd := dvd_mat_gcd _ _ hdiv
  have hd' : a1' ∣ l1.denom := (Dvd.intro_left h e1.symm).trans hd
  have h1 : a1' ∣ 1 := by
    have := dvd_ibzGcd hg hd'
    rw [hr] at this; exact this
  have hpos : 0 ≤ a1' := by
    by_contra hneg
    have : h * a1' < 0 := mul_neg_of_pos_of_neg (by rw [hh]; exact_mod_cast hgpos) (by omega)
    omega
  have : a1' = 1 := Int.eq_one_of_dvd_one hpos h1
  rw [e1, this, mul_one, e2]
  exact Dvd.intro _ rfl

/-- **canonical representation**: two reduced HNF representations of the same rational lattice have the same
    basis and the same denominator up to sign -/
theorem lattice_repr_unique (l1 l2 : SqiModel.Quat.Lattice) (h1 : l1.denom ≠ 0) (h2 : l2.denom ≠ 0)
    (hn1 : IsHNF l1.basis) (hn2 : IsHNF l2.basis) (r1 : Reduced l1) (r2 : Reduced l2)
    (h : ratLat l1 = ratLat l2) : l1.basis = l2.basis ∧ l1.denom.natAbs = l2.denom.natAbs := by
  have he := (latEqual_spec l1 l2 h1 h2 hn1 hn2).2 h
  unfold latEqual at he
  simp only [beq_iff_eq] at he
  have a1 : (0 : ℤ) < (l1.denom.natAbs : ℤ) := by omega
  have a2 : (0 : ℤ) < (l2.denom.natAbs : ℤ) := by omega
  have hent : ∀ r c, r < 4 → c < 4 →
      l1.basis.get r c * (l2.denom.natAbs : ℤ) = l2.basis.get r c * (l1.denom.natAbs : ℤ) := by
    intro r c hr hc
    have := congrArg (fun m => m.get r c) he
    simp only [Mat4.scalarMul, mat_get_map _ _ _ _ hr hc] at this
    exact this
  have d12 : (l1.denom.natAbs : ℤ) ∣ (l2.denom.natAbs : ℤ) :=
    denom_dvd l1 l2.basis _ _ a1 a2 (Int.natAbs_dvd.2 (dvd_refl _)) r1 hent
  have d21 : (l2.denom.natAbs : ℤ) ∣ (l1.denom.natAbs : ℤ) :=
    denom_dvd l2 l1.basis _ _ a2 a1 (Int.natAbs_dvd.2 (dvd_refl _)) r2 (fun r c hr hc => (hent r c hr hc).symm)
  have heq : (l1.denom.natAbs : ℤ) = (l2.denom.natAbs : ℤ) := Int.dvd_antisymm (le_of_lt a1) (le_of_lt a2) d12 d21
  refine ⟨mat_ext (fun r c hr hc => ?_), by exact_mod_cast heq⟩
  have := hent r c hr hc
  rw [heq] at this
  exact mul_right_cancel₀ (ne_of_gt a2) this

end SqiProofs.QuatLattice

import SqiProofs.QuatLattice
/- C14: `quat_lattice_contains` (back-substitution on a triangular basis): soundness for every basis,
   completeness and uniqueness of the coordinates for upper-triangular bases with non-zero diagonal. -/
open SqiModel.Quat SqiProofs.QuatMat SqiProofs.Hnf

namespace SqiProofs.QuatLattice

theorem containsStep_true (l : Lattice) (xd : ℤ) (c : Nat) (st : Bool × Vec4 × Vec4)
    (h : (containsStep l xd c st).1 = true) :
    st.1 = true ∧ ∃ q : ℤ,
      (containsStep l xd c st).2.1 = Vec4.lc 1 st.2.1 (-q) ((l.basis.col c).map (fun t => t * xd)) ∧
      (containsStep l xd c st).2.2 = Vec4.ofFn (fun h => if h = c then q else st.2.2.get h) := by
  obtain ⟨res, w, co⟩ := st
  unfold containsStep at h ⊢
  cases res
  · simp at h
  · simp only [Bool.not_true, Bool.false_eq_true, if_false] at h ⊢
    split at h
    · rename_i hr
      simp only [hr, if_true]
      exact ⟨trivial, _, rfl, rfl⟩
    · simp at h

/-- the element as an integer identity: `lat.denom · x.coord = x.denom · (basis · coords)` -/
def CoordsOf (l : Lattice) (x : Elem) (c : Vec4) : Prop :=
  x.coord.map (fun t => t * l.denom) = (l.basis.eval c).map (fun t => t * x.denom)

/-- **soundness of membership**: flag 1 ⇒ the returned coordinates express x in the basis -/
theorem latContains_sound (l : Lattice) (x : Elem) (h : (latContains l x).1 = true) :
    CoordsOf l x (latContains l x).2 := by
  obtain ⟨ld, ⟨⟨a00, a01, a02, a03⟩, ⟨a10, a11, a12, a13⟩, ⟨a20, a21, a22, a23⟩, ⟨a30, a31, a32, a33⟩⟩⟩ := l
  obtain ⟨xd, ⟨x0, x1, x2, x3⟩⟩ := x
  unfold latContains at h ⊢
  simp only [] at h ⊢
  generalize hl : SqiModel.Quat.Lattice.mk ld ⟨⟨a00, a01, a02, a03⟩, ⟨a10, a11, a12, a13⟩, ⟨a20, a21, a22, a23⟩, ⟨a30, a31, a32, a33⟩⟩ = l at *
  generalize hw0 : (Vec4.mk x0 x1 x2 x3).map (fun t => t * ld) = w0 at *
  generalize hs3 : containsStep l xd 3 (true, w0, Vec4.zero) = s3 at *
  generalize hs2 : containsStep l xd 2 s3 = s2 at *
  generalize hs1 : containsStep l xd 1 s2 = s1 at *
  generalize hs0 : containsStep l xd 0 s1 = s0 at *
  rw [Bool.and_eq_true] at h
  obtain ⟨h0, hz⟩ := h
  simp only [h0, hz, Bool.and_self, if_true]
  rw [← hs0] at h0
  obtain ⟨t1, q0, w1, c1⟩ := containsStep_true l xd 0 s1 h0
  rw [← hs1] at t1
  obtain ⟨t2, q1, w2, c2⟩ := containsStep_true l xd 1 s2 t1
  rw [← hs2] at t2
  obtain ⟨t3, q2, w3, c3⟩ := containsStep_true l xd 2 s3 t2
  rw [← hs3] at t3
  obtain ⟨_, q3, w4, c4⟩ := containsStep_true l xd 3 (true, w0, Vec4.zero) t3
  simp only [hs0, hs1, hs2, hs3] at w1 c1 w2 c2 w3 c3 w4 c4
  rw [w1, w2, w3, w4] at hz
  rw [c1, c2, c3, c4]
  unfold CoordsOf
  subst hl hw0
  simp only [Vec4.isZero, Vec4.lc, Vec4.map, Mat4.col, Vec4.get, Bool.and_eq_true, beq_iff_eq] at hz
  obtain ⟨⟨⟨z0, z1⟩, z2⟩, z3⟩ := hz
  simp only [Mat4.eval, Vec4.ofFn, Vec4.map, Mat4.get, Mat4.row, Vec4.get, Vec4.zero, Vec4.mk.injEq]
  simp only [show ((1 : Nat) = 0) = False from by simp, show ((2 : Nat) = 0) = False from by simp,
    show ((3 : Nat) = 0) = False from by simp, show ((0 : Nat) = 1) = False from by simp,
    show ((2 : Nat) = 1) = False from by simp, show ((3 : Nat) = 1) = False from by simp,
    show ((0 : Nat) = 2) = False from by simp, show ((1 : Nat) = 2) = False from by simp,
    show ((3 : Nat) = 2) = False from by simp, show ((0 : Nat) = 3) = False from by simp,
    show ((1 : Nat) = 3) = False from by simp, show ((2 : Nat) = 3) = False from by simp, if_true, if_false]
  refine ⟨?_, ?_, ?_, ?_⟩ <;> linarith

theorem containsStep_eq (l : SqiModel.Quat.Lattice) (xd : ℤ) (c : Nat) (w co : Vec4) (q : ℤ)
    (hne : xd * l.basis.get c c ≠ 0) (hw : w.get c = q * (xd * l.basis.get c c)) :
    containsStep l xd c (true, w, co) =
      (true, Vec4.lc 1 w (-q) ((l.basis.col c).map (fun t => t * xd)),
        Vec4.ofFn (fun h => if h = c then q else co.get h)) := by
  unfold containsStep
  simp only [Bool.not_true, Bool.false_eq_true, if_false]
  have h1 : Int.tmod (w.get c) (xd * l.basis.get c c) = 0 := by rw [hw]; exact Int.mul_tmod_left _ _
  have h2 : Int.tdiv (w.get c) (xd * l.basis.get c c) = q := by rw [hw]; exact Int.mul_tdiv_cancel _ hne
  simp only [h1, h2, if_true]

/-- **completeness of membership** for upper-triangular bases with non-zero diagonal (in particular HNF bases):
    if x = basis·c / denom for an integer vector c, the routine answers 1 and returns exactly c -/
theorem latContains_complete (l : SqiModel.Quat.Lattice) (x : Elem) (c : Vec4) (hxd : x.denom ≠ 0)
    (htri : ∀ r j, r < 4 → j < r → l.basis.get r j = 0) (hdiag : ∀ r, r < 4 → l.basis.get r r ≠ 0)
    (hc : CoordsOf l x c) : latContains l x = (true, c) := by
  have z10 := htri 1 0 (by omega) (by omega); have z20 := htri 2 0 (by omega) (by omega)
  have z21 := htri 2 1 (by omega) (by omega); have z30 := htri 3 0 (by omega) (by omega)
  have z31 := htri 3 1 (by omega) (by omega); have z32 := htri 3 2 (by omega) (by omega)
  have d0 := hdiag 0 (by omega); have d1 := hdiag 1 (by omega); have d2 := hdiag 2 (by omega); have d3 := hdiag 3 (by omega)
  obtain ⟨ld, ⟨⟨a00, a01, a02, a03⟩, ⟨a10, a11, a12, a13⟩, ⟨a20, a21, a22, a23⟩, ⟨a30, a31, a32, a33⟩⟩⟩ := l
  obtain ⟨xd, ⟨x0, x1, x2, x3⟩⟩ := x
  obtain ⟨c0, c1, c2, c3⟩ := c
  simp only [Mat4.get, Mat4.row, Vec4.get] at z10 z20 z21 z30 z31 z32 d0 d1 d2 d3
  subst z10 z20 z21 z30 z31 z32
  simp only [CoordsOf, Mat4.eval, Vec4.ofFn, Vec4.map, Mat4.get, Mat4.row, Vec4.get, Vec4.mk.injEq] at hc
  obtain ⟨e0, e1, e2, e3⟩ := hc
  simp only [] at hxd
  unfold latContains
  simp only [Vec4.map, e0, e1, e2, e3]
  rw [containsStep_eq _ xd 3 _ _ c3 (by simpa [Mat4.get, Mat4.row, Vec4.get] using mul_ne_zero hxd d3)
      (by simp [Mat4.get, Mat4.row, Vec4.get]; ring)]
  rw [containsStep_eq _ xd 2 _ _ c2 (by simpa [Mat4.get, Mat4.row, Vec4.get] using mul_ne_zero hxd d2)
      (by simp [Mat4.get, Mat4.row, Vec4.get, Vec4.lc, Mat4.col, Vec4.map]; ring)]
  rw [containsStep_eq _ xd 1 _ _ c1 (by simpa [Mat4.get, Mat4.row, Vec4.get] using mul_ne_zero hxd d1)
      (by simp [Mat4.get, Mat4.row, Vec4.get, Vec4.lc, Mat4.col, Vec4.map]; ring)]
  rw [containsStep_eq _ xd 0 _ _ c0 (by simpa [Mat4.get, Mat4.row, Vec4.get] using mul_ne_zero hxd d0)
      (by simp [Mat4.get, Mat4.row, Vec4.get, Vec4.lc, Mat4.col, Vec4.map]; ring)]
  have hz : (Vec4.lc 1 (Vec4.lc 1 (Vec4.lc 1 (Vec4.lc 1
      ⟨(a00 * c0 + a01 * c1 + a02 * c2 + a03 * c3) * xd, (0 * c0 + a11 * c1 + a12 * c2 + a13 * c3) * xd,
        (0 * c0 + 0 * c1 + a22 * c2 + a23 * c3) * xd, (0 * c0 + 0 * c1 + 0 * c2 + a33 * c3) * xd⟩
      (-c3) (Vec4.map (fun t => t * xd) (Mat4.col ⟨⟨a00, a01, a02, a03⟩, ⟨0, a11, a12, a13⟩, ⟨0, 0, a22, a23⟩, ⟨0, 0, 0, a33⟩⟩ 3)))
      (-c2) (Vec4.map (fun t => t * xd) (Mat4.col ⟨⟨a00, a01, a02, a03⟩, ⟨0, a11, a12, a13⟩, ⟨0, 0, a22, a23⟩, ⟨0, 0, 0, a33⟩⟩ 2)))
      (-c1) (Vec4.map (fun t => t * xd) (Mat4.col ⟨⟨a00, a01, a02, a03⟩, ⟨0, a11, a12, a13⟩, ⟨0, 0, a22, a23⟩, ⟨0, 0, 0, a33⟩⟩ 1)))
      (-c0) (Vec4.map (fun t => t * xd) (Mat4.col ⟨⟨a00, a01, a02, a03⟩, ⟨0, a11, a12, a13⟩, ⟨0, 0, a22, a23⟩, ⟨0, 0, 0, a33⟩⟩ 0))).isZero = true := by
    simp only [Vec4.isZero, Vec4.lc, Vec4.map, Mat4.col, Vec4.get, Bool.and_eq_true, beq_iff_eq]
    refine ⟨⟨⟨?_, ?_⟩, ?_⟩, ?_⟩ <;> ring
  simp only [hz, Bool.and_self, if_true]
  simp [Vec4.ofFn, Vec4.get, Vec4.zero]

theorem mem_ratSpan_cols_iff (d : ℤ) (m : Mat4) (v : Fin 4 → ℚ) :
    v ∈ ratSpan d m.cols ↔ ∃ c : Fin 4 → ℤ, v = scaleMap d ((toMatrix m).mulVec c) := by
  rw [ratSpan_eq_map, Submodule.mem_map]
  constructor
  · rintro ⟨w, hw, rfl⟩
    obtain ⟨c, rfl⟩ := (mem_spanL_cols_iff m w).1 hw
    exact ⟨c, rfl⟩
  · rintro ⟨c, rfl⟩
    exact ⟨_, (mem_spanL_cols_iff m _).2 ⟨c, rfl⟩, rfl⟩

/-- membership of the element's value in the rational lattice ↔ existence of integer coordinates -/
theorem mem_ratLat_iff (l : SqiModel.Quat.Lattice) (x : Elem) (hl : l.denom ≠ 0) (hx : x.denom ≠ 0) :
    qvec x.denom x.coord ∈ ratLat l ↔ ∃ c : Vec4, CoordsOf l x c := by
  have hl' : (l.denom : ℚ) ≠ 0 := by exact_mod_cast hl
  have hx' : (x.denom : ℚ) ≠ 0 := by exact_mod_cast hx
  unfold ratLat
  rw [mem_ratSpan_cols_iff]
  constructor
  · rintro ⟨c, hc⟩
    refine ⟨⟨c 0, c 1, c 2, c 3⟩, ?_⟩
    unfold CoordsOf
    apply vec_ext
    intro r
    by_cases hr : r < 4
    · rw [get_map _ _ _ hr, get_map _ _ _ hr]
      have h := congrFun hc ⟨r, hr⟩
      have hev : (l.basis.eval ⟨c 0, c 1, c 2, c 3⟩).get r = (toMatrix l.basis).mulVec c ⟨r, hr⟩ := by
        have := congrFun (toVec_eval l.basis ⟨c 0, c 1, c 2, c 3⟩) ⟨r, hr⟩
        have hcc : toVec ⟨c 0, c 1, c 2, c 3⟩ = c := by ext i; fin_cases i <;> rfl
        rw [hcc] at this
        exact this
      rw [hev]
      simp only [qvec, scaleMap, LinearMap.coe_mk, AddHom.coe_mk] at h
      rw [div_eq_div_iff hx' hl'] at h
      exact_mod_cast h
    · rw [get_ge4 _ r (by omega), get_ge4 _ r (by omega)]
  · rintro ⟨c, hc⟩
    refine ⟨toVec c, ?_⟩
    ext i
    have h := congrArg (fun v => v.get i.val) hc
    simp only [get_map _ _ _ i.isLt] at h
    have hev : (l.basis.eval c).get i.val = (toMatrix l.basis).mulVec (toVec c) i := congrFun (toVec_eval l.basis c) i
    rw [hev] at h
    simp only [qvec, scaleMap, LinearMap.coe_mk, AddHom.coe_mk]
    rw [div_eq_div_iff hx' hl']
    exact_mod_cast h

/-- **membership test**: on an HNF basis `quat_lattice_contains` decides membership in the rational lattice -/
theorem latContains_iff (l : SqiModel.Quat.Lattice) (x : Elem) (hl : l.denom ≠ 0) (hx : x.denom ≠ 0)
    (hn : IsHNF l.basis) : (latContains l x).1 = true ↔ qvec x.denom x.coord ∈ ratLat l := by
  rw [mem_ratLat_iff l x hl hx]
  constructor
  · intro h; exact ⟨_, latContains_sound l x h⟩
  · rintro ⟨c, hc⟩
    rw [latContains_complete l x c hx hn.1 (fun r hr => ne_of_gt (hn.2 r hr).1) hc]

end SqiProofs.QuatLattice

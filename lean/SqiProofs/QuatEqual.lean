import SqiProofs.QuatCanon
import SqiProofs.QuatLatMul
/- C14: `quat_lattice_equal` is an equivalence relation (for all inputs with non-zero middle denominator), and the
   basis returned by `quat_lattice_mul` is in Hermite normal form for full-rank factors. -/
open SqiModel.Quat SqiProofs.QuatMat SqiProofs.Hnf

namespace SqiProofs.QuatLattice

theorem latEqual_refl (l : SqiModel.Quat.Lattice) : latEqual l l = true := by
  unfold latEqual; simp

/-- symmetry holds for ALL inputs (HNF or not, any denominators) -/
theorem latEqual_symm (l1 l2 : SqiModel.Quat.Lattice) : latEqual l1 l2 = latEqual l2 l1 := by
  unfold latEqual
  simp only []
  rw [Bool.eq_iff_iff, beq_iff_eq, beq_iff_eq]
  exact eq_comm

theorem latEqual_entries (l1 l2 : SqiModel.Quat.Lattice) :
    latEqual l1 l2 = true ↔ ∀ r c, r < 4 → c < 4 →
      l1.basis.get r c * (l2.denom.natAbs : ℤ) = l2.basis.get r c * (l1.denom.natAbs : ℤ) := by
  unfold latEqual
  simp only [beq_iff_eq]
  constructor
  · intro h r c hr hc
    have := congrArg (fun m => m.get r c) h
    simpa only [Mat4.scalarMul, mat_get_map _ _ _ _ hr hc] using this
  · intro h
    apply mat_ext
    intro r c hr hc
    simp only [Mat4.scalarMul, mat_get_map _ _ _ _ hr hc]
    exact h r c hr hc

/-- transitivity for all inputs whose middle lattice has a non-zero denominator -/
theorem latEqual_trans (l1 l2 l3 : SqiModel.Quat.Lattice) (h2 : l2.denom ≠ 0)
    (h12 : latEqual l1 l2 = true) (h23 : latEqual l2 l3 = true) : latEqual l1 l3 = true := by
  rw [latEqual_entries] at h12 h23 ⊢
  intro r c hr hc
  have e1 := h12 r c hr hc
  have e2 := h23 r c hr hc
  have a2 : ((l2.denom.natAbs : ℤ)) ≠ 0 := by omega
  apply mul_right_cancel₀ a2
  calc l1.basis.get r c * (l3.denom.natAbs : ℤ) * (l2.denom.natAbs : ℤ)
      = (l1.basis.get r c * (l2.denom.natAbs : ℤ)) * (l3.denom.natAbs : ℤ) := by ring
    _ = (l2.basis.get r c * (l3.denom.natAbs : ℤ)) * (l1.denom.natAbs : ℤ) := by rw [e1]; ring
    _ = l3.basis.get r c * (l1.denom.natAbs : ℤ) * (l2.denom.natAbs : ℤ) := by rw [e2]; ring

/-! ### HNF-ness of the product -/

/-- matrix of left multiplication by `a` in the algebra (-1,-p): `a·b = LM(a)·b` on coordinates -/
def leftMulMat (p : ℤ) (a : Vec4) : Mat4 :=
  ⟨⟨a.x0, -a.x1, -(p * a.x2), -(p * a.x3)⟩, ⟨a.x1, a.x0, -(p * a.x3), p * a.x2⟩,
   ⟨a.x2, a.x3, a.x0, -a.x1⟩, ⟨a.x3, -a.x2, a.x1, a.x0⟩⟩

theorem mulCoord_eq_eval (p : ℤ) (a b : Vec4) : mulCoord p a b = (leftMulMat p a).eval b := by
  obtain ⟨a0, a1, a2, a3⟩ := a
  obtain ⟨b0, b1, b2, b3⟩ := b
  simp only [mulCoord, leftMulMat, Mat4.eval, Vec4.ofFn, Mat4.get, Mat4.row, Vec4.get, Vec4.mk.injEq]
  refine ⟨?_, ?_, ?_, ?_⟩ <;> ring

theorem leftMulMat_det (p : ℤ) (a : Vec4) :
    (toMatrix (leftMulMat p a)).det = (a.x0 ^ 2 + a.x1 ^ 2 + p * a.x2 ^ 2 + p * a.x3 ^ 2) ^ 2 := by
  rw [← invWithDet_det]
  obtain ⟨a0, a1, a2, a3⟩ := a
  simp only [leftMulMat, Mat4.invWithDet, Mat4.det2, Mat4.get, Mat4.row, Vec4.get]
  ring

theorem col_mul (A B : Mat4) (j : Nat) (hj : j < 4) : (A.mul B).col j = A.eval (B.col j) := by
  obtain ⟨⟨a00, a01, a02, a03⟩, ⟨a10, a11, a12, a13⟩, ⟨a20, a21, a22, a23⟩, ⟨a30, a31, a32, a33⟩⟩ := A
  obtain ⟨⟨b00, b01, b02, b03⟩, ⟨b10, b11, b12, b13⟩, ⟨b20, b21, b22, b23⟩, ⟨b30, b31, b32, b33⟩⟩ := B
  rcases j with _ | _ | _ | _ | j
  case succ.succ.succ.succ => omega
  all_goals rfl

theorem normForm_ne_zero {p : ℤ} (hp : 0 < p) {a : Vec4} (ha : a ≠ Vec4.zero) :
    a.x0 ^ 2 + a.x1 ^ 2 + p * a.x2 ^ 2 + p * a.x3 ^ 2 ≠ 0 := by
  intro h
  apply ha
  obtain ⟨a0, a1, a2, a3⟩ := a
  simp only at h
  have h0 := sq_nonneg a0; have h1 := sq_nonneg a1; have h2 := sq_nonneg a2; have h3 := sq_nonneg a3
  have h2' : 0 ≤ p * a2 ^ 2 := mul_nonneg (le_of_lt hp) h2
  have h3' : 0 ≤ p * a3 ^ 2 := mul_nonneg (le_of_lt hp) h3
  have z0 : a0 ^ 2 = 0 := by linarith
  have z1 : a1 ^ 2 = 0 := by linarith
  have z2 : p * a2 ^ 2 = 0 := by linarith
  have z3 : p * a3 ^ 2 = 0 := by linarith
  have y2 : a2 ^ 2 = 0 := by rcases mul_eq_zero.1 z2 with h | h; omega; exact h
  have y3 : a3 ^ 2 = 0 := by rcases mul_eq_zero.1 z3 with h | h; omega; exact h
  simp only [Vec4.zero, Vec4.mk.injEq]
  exact ⟨pow_eq_zero_iff (two_ne_zero) |>.1 z0, pow_eq_zero_iff (two_ne_zero) |>.1 z1,
    pow_eq_zero_iff (two_ne_zero) |>.1 y2, pow_eq_zero_iff (two_ne_zero) |>.1 y3⟩

theorem col0_ne_zero_of_det {m : Mat4} (h : (toMatrix m).det ≠ 0) : m.col 0 ≠ Vec4.zero := by
  intro hz
  apply h
  apply Matrix.det_eq_zero_of_column_eq_zero (0 : Fin 4)
  intro i
  have := congrArg (fun v => v.get i.val) hz
  simp only [get_zero] at this
  have e : toMatrix m i 0 = (m.col 0).get i.val := by fin_cases i <;> rfl
  rw [e]; exact this

/-- **the basis returned by `quat_lattice_mul` is in Hermite normal form** when both factors have full rank (p > 0) -/
theorem latMul_isHNF (p : ℤ) (hp : 0 < p) (l1 l2 : SqiModel.Quat.Lattice) (h1 : l1.denom ≠ 0) (h2 : l2.denom ≠ 0)
    (hd1 : (toMatrix l1.basis).det ≠ 0) (hd2 : (toMatrix l2.basis).det ≠ 0) : IsHNF (latMul p l1 l2).basis := by
  unfold latMul latReduceDenom
  simp only [Mat4.scalarDiv]
  set blk0 : List Vec4 := [latMulCol p l1 l2 0 0, latMulCol p l1 l2 0 1, latMulCol p l1 l2 0 2, latMulCol p l1 l2 0 3,
     latMulCol p l1 l2 (0 + 1) 0, latMulCol p l1 l2 (0 + 1) 1, latMulCol p l1 l2 (0 + 1) 2, latMulCol p l1 l2 (0 + 1) 3] with hb0
  set blk2 : List Vec4 := [latMulCol p l1 l2 2 0, latMulCol p l1 l2 2 1, latMulCol p l1 l2 2 2, latMulCol p l1 l2 2 3,
     latMulCol p l1 l2 (2 + 1) 0, latMulCol p l1 l2 (2 + 1) 1, latMulCol p l1 l2 (2 + 1) 2, latMulCol p l1 l2 (2 + 1) 3] with hb2
  set Hm := hnfCore ((hnfCore blk0).cols ++ (hnfCore blk2).cols) with hH
  -- the four products (first column of L₁)·(columns of L₂) already have full rank
  have hM : (toMatrix ((leftMulMat p (l1.basis.col 0)).mul l2.basis)).det ≠ 0 := by
    rw [toMatrix_mul, Matrix.det_mul, leftMulMat_det]
    exact mul_ne_zero (pow_ne_zero _ (normForm_ne_zero hp (col0_ne_zero_of_det hd1))) hd2
  have hcols : ∀ x ∈ ((leftMulMat p (l1.basis.col 0)).mul l2.basis).cols, x ∈ blk0 := by
    intro x hx
    simp only [Mat4.cols, List.mem_cons, List.not_mem_nil, or_false] at hx
    rcases hx with rfl | rfl | rfl | rfl
    · rw [col_mul _ _ 0 (by omega), ← mulCoord_eq_eval, ← latMulCol_eq]; simp [hb0]
    · rw [col_mul _ _ 1 (by omega), ← mulCoord_eq_eval, ← latMulCol_eq]; simp [hb0]
    · rw [col_mul _ _ 2 (by omega), ← mulCoord_eq_eval, ← latMulCol_eq]; simp [hb0]
    · rw [col_mul _ _ 3 (by omega), ← mulCoord_eq_eval, ← latMulCol_eq]; simp [hb0]
  have hs : spanL ((hnfCore blk0).cols ++ (hnfCore blk2).cols) = spanL (blk0 ++ blk2) := by
    rw [spanL_append, spanL_append, hnfCore_span blk0 (by simp [hb0]), hnfCore_span blk2 (by simp [hb2])]
  have hfr : FullRank (spanL ((hnfCore blk0).cols ++ (hnfCore blk2).cols)) := by
    rw [hs]
    exact fullRank_of_det hM (fun x hx => List.mem_append_left _ (hcols x hx))
  have hHNF : IsHNF Hm := hnfCore_isHNF _ (by simp [cols_length]) hfr
  have hg0 : ibzGcd Hm.gcd (l1.denom * l2.denom) ≠ 0 := SqiProofs.QuatAlg.gcd_ne_zero_right (mul_ne_zero h1 h2)
  have hgpos : 0 < ibzGcd Hm.gcd (l1.denom * l2.denom) := by
    have := ibzGcd_nonneg Hm.gcd (l1.denom * l2.denom); omega
  exact isHNF_div hHNF hgpos
    (fun r c hr hc => (SqiProofs.QuatAlg.gcd_dvd_left' _ _).trans (mat_get_dvd Hm r c hr hc))

end SqiProofs.QuatLattice

import SqiProofs.QuatRelIndex
import SqiProofs.QuatDual
import Mathlib.LinearAlgebra.FreeModule.Finite.CardQuotient
import Mathlib.LinearAlgebra.Matrix.ToLinearEquiv
/- C14: the covolume ratio of two nested full-rank lattices IS the group index [over : sub]
   (Mathlib's `AddSubgroup.relIndex`), hence `quat_lattice_index` returns the group index. -/
open SqiModel.Quat SqiProofs.QuatMat SqiProofs.Hnf Module

namespace SqiProofs.QuatLattice

/-- the scaled rational matrix whose columns generate the lattice -/
noncomputable def Pq (l : SqiModel.Quat.Lattice) : Matrix (Fin 4) (Fin 4) ℚ := (1 / (l.denom : ℚ)) • Mq l.basis

theorem Mq_det (m : Mat4) : (Mq m).det = ((toMatrix m).det : ℚ) := by
  have : Mq m = (Int.castRingHom ℚ).mapMatrix (toMatrix m) := by ext i j; rfl
  rw [this, ← RingHom.map_det]; rfl

theorem Pq_det (l : SqiModel.Quat.Lattice) : (Pq l).det = ((toMatrix l.basis).det : ℚ) / (l.denom : ℚ) ^ 4 := by
  unfold Pq
  rw [Matrix.det_smul, Mq_det]
  simp only [Fintype.card_fin]
  rw [one_div, inv_pow]; ring

theorem Pq_det_ne (l : SqiModel.Quat.Lattice) (hd : l.denom ≠ 0) (hdet : (toMatrix l.basis).det ≠ 0) :
    (Pq l).det ≠ 0 := by
  rw [Pq_det]
  have h1 : ((toMatrix l.basis).det : ℚ) ≠ 0 := by exact_mod_cast hdet
  have h2 : (l.denom : ℚ) ^ 4 ≠ 0 := pow_ne_zero _ (by exact_mod_cast hd)
  exact div_ne_zero h1 h2

/-- the ℚ-basis of ℚ⁴ formed by the generators of the lattice -/
noncomputable def latBasis (l : SqiModel.Quat.Lattice) (hd : l.denom ≠ 0) (hdet : (toMatrix l.basis).det ≠ 0) :
    Basis (Fin 4) ℚ (Fin 4 → ℚ) :=
  (Pi.basisFun ℚ (Fin 4)).map
    ((Pq l).toLinearEquiv' (Matrix.invertibleOfIsUnitDet _ (isUnit_iff_ne_zero.2 (Pq_det_ne l hd hdet))))

theorem latBasis_apply (l : SqiModel.Quat.Lattice) (hd : l.denom ≠ 0) (hdet : (toMatrix l.basis).det ≠ 0) (j : Fin 4) :
    latBasis l hd hdet j = fun i => Pq l i j := by
  unfold latBasis
  rw [Basis.map_apply, Pi.basisFun_apply]
  ext i
  show Matrix.toLin' (Pq l) (Pi.single j 1) i = Pq l i j
  rw [Matrix.toLin'_apply, Matrix.mulVec_single_one]
  rfl

theorem latBasis_eq_qvec (l : SqiModel.Quat.Lattice) (hd : l.denom ≠ 0) (hdet : (toMatrix l.basis).det ≠ 0) (j : Fin 4) :
    latBasis l hd hdet j = qvec l.denom (l.basis.col j.val) := by
  rw [latBasis_apply]
  ext i
  simp only [Pq, Matrix.smul_apply, smul_eq_mul, Mq, qvec]
  have : toMatrix l.basis i j = (l.basis.col j.val).get i.val := by fin_cases i <;> fin_cases j <;> rfl
  rw [this]; ring

theorem ratLat_eq_closure (l : SqiModel.Quat.Lattice) (hd : l.denom ≠ 0) (hdet : (toMatrix l.basis).det ≠ 0) :
    (ratLat l).toAddSubgroup = AddSubgroup.closure (Set.range (latBasis l hd hdet)) := by
  unfold ratLat ratSpan
  rw [Submodule.span_int_eq_addSubgroupClosure]
  congr 1
  ext v
  constructor
  · rintro ⟨x, hx, rfl⟩
    simp only [Mat4.cols, List.mem_cons, List.not_mem_nil, or_false] at hx
    rcases hx with rfl | rfl | rfl | rfl
    exacts [⟨0, latBasis_eq_qvec l hd hdet 0⟩, ⟨1, latBasis_eq_qvec l hd hdet 1⟩, ⟨2, latBasis_eq_qvec l hd hdet 2⟩,
      ⟨3, latBasis_eq_qvec l hd hdet 3⟩]
  · rintro ⟨j, rfl⟩
    refine ⟨l.basis.col j.val, ?_, latBasis_eq_qvec l hd hdet j⟩
    fin_cases j <;> simp [Mat4.cols]

theorem basisFun_toMatrix_latBasis (l : SqiModel.Quat.Lattice) (hd : l.denom ≠ 0) (hdet : (toMatrix l.basis).det ≠ 0) :
    (Pi.basisFun ℚ (Fin 4)).toMatrix (latBasis l hd hdet) = Pq l := by
  ext i j
  rw [Basis.toMatrix_apply, Pi.basisFun_repr, latBasis_apply]

/-- **the covolume ratio is the group index**: for nested full-rank lattices, [over : sub] = covol sub / covol over -/
theorem relIndex_eq_covol_ratio (sub over : SqiModel.Quat.Lattice) (hs : sub.denom ≠ 0) (ho : over.denom ≠ 0)
    (hds : (toMatrix sub.basis).det ≠ 0) (hdo : (toMatrix over.basis).det ≠ 0) (hle : ratLat sub ≤ ratLat over) :
    (((ratLat sub).toAddSubgroup.relIndex (ratLat over).toAddSubgroup : ℕ) : ℚ) = covol sub / covol over := by
  have hle' : (ratLat sub).toAddSubgroup ≤ (ratLat over).toAddSubgroup := fun x hx => hle hx
  rw [AddSubgroup.relIndex_eq_abs_det _ _ hle' (latBasis sub hs hds) (latBasis over ho hdo)
    (ratLat_eq_closure sub hs hds) (ratLat_eq_closure over ho hdo)]
  have hmul : (Pi.basisFun ℚ (Fin 4)).toMatrix (latBasis over ho hdo) *
      (latBasis over ho hdo).toMatrix (latBasis sub hs hds) = (Pi.basisFun ℚ (Fin 4)).toMatrix (latBasis sub hs hds) :=
    Basis.toMatrix_mul_toMatrix _ _ _
  rw [basisFun_toMatrix_latBasis, basisFun_toMatrix_latBasis] at hmul
  have hdet := congrArg Matrix.det hmul
  rw [Matrix.det_mul] at hdet
  rw [Basis.det_apply]
  have hne := Pq_det_ne over ho hdo
  have : ((latBasis over ho hdo).toMatrix (latBasis sub hs hds)).det = (Pq sub).det / (Pq over).det := by
    rw [eq_div_iff hne, mul_comm]; exact hdet
  rw [this, Pq_det, Pq_det]
  unfold covol
  rw [abs_div, abs_div, abs_div, abs_pow, abs_pow]

theorem index_dvd_of_le (sub over : SqiModel.Quat.Lattice) (hs : sub.denom ≠ 0) (ho : over.denom ≠ 0)
    (hle : ratLat sub ≤ ratLat over) :
    (sub.denom * sub.denom * (sub.denom * sub.denom) * (toMatrix over.basis).det) ∣
      (over.denom * over.denom * (over.denom * over.denom) * (toMatrix sub.basis).det) := by
  have e' : ratLat sub = ratSpan (sub.denom * over.denom) (sub.basis.scalarMul over.denom).cols := by
    rw [cols_scalarMul, ratSpan_scale _ _ ho]; rfl
  have e : ratLat over = ratSpan (sub.denom * over.denom) (over.basis.scalarMul sub.denom).cols := by
    rw [cols_scalarMul, mul_comm, ratSpan_scale _ _ hs]; rfl
  have hD : sub.denom * over.denom ≠ 0 := mul_ne_zero hs ho
  rw [e', e, ratSpan_eq_map, ratSpan_eq_map] at hle
  have hle' := (Submodule.map_le_map_iff_of_injective (scaleMap_injective hD) _ _).1 hle
  obtain ⟨U, hU⟩ := exists_mul_of_spanL_le hle'
  have hdet := congrArg Matrix.det hU
  rw [toMatrix_scalarMul, toMatrix_scalarMul, Matrix.det_mul, Matrix.det_smul, Matrix.det_smul] at hdet
  simp only [Fintype.card_fin] at hdet
  exact ⟨U.det, by linear_combination hdet⟩

/-- **`quat_lattice_index` returns the group index** [over : sub] for nested lattices with triangular (e.g. HNF) bases -/
theorem latIndex_eq_relIndex (sub over : SqiModel.Quat.Lattice) (hs : sub.denom ≠ 0) (ho : over.denom ≠ 0)
    (hts : ∀ r c, r < 4 → c < r → sub.basis.get r c = 0) (hto : ∀ r c, r < 4 → c < r → over.basis.get r c = 0)
    (hds : (toMatrix sub.basis).det ≠ 0) (hdo : (toMatrix over.basis).det ≠ 0) (hle : ratLat sub ≤ ratLat over) :
    latIndex sub over = (((ratLat sub).toAddSubgroup.relIndex (ratLat over).toAddSubgroup : ℕ) : ℤ) := by
  have h1 := latIndex_spec sub over hs ho hts hto hdo (index_dvd_of_le sub over hs ho hle)
  have h2 := relIndex_eq_covol_ratio sub over hs ho hds hdo hle
  have : (latIndex sub over : ℚ) = (((((ratLat sub).toAddSubgroup.relIndex (ratLat over).toAddSubgroup : ℕ) : ℤ)) : ℚ) := by
    rw [h1, ← h2]; norm_cast
  exact_mod_cast this

end SqiProofs.QuatLattice

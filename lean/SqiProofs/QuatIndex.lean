import SqiProofs.QuatLattice
import Mathlib.Algebra.Order.Field.Basic
/- C14: `quat_lattice_index` computes the covolume ratio |det(sub)|/|det(over)| of two lattices given by
   upper-triangular bases (the index [over : sub] when sub ⊆ over). -/
open SqiModel.Quat SqiProofs.QuatMat SqiProofs.Hnf

namespace SqiProofs.QuatLattice

theorem det_of_upper (m : Mat4) (h : ∀ r c, r < 4 → c < r → m.get r c = 0) :
    (toMatrix m).det = m.get 0 0 * m.get 1 1 * m.get 2 2 * m.get 3 3 := by
  have hT : (toMatrix m).BlockTriangular id := by
    intro i j hij
    simp only [toMatrix, Matrix.of_apply]
    exact h i.val j.val i.isLt hij
  rw [Matrix.det_of_isUpperTriangular hT]
  simp [Fin.prod_univ_four, toMatrix, mul_assoc]

/-- covolume of the rational lattice (1/d)·B·ℤ⁴ as a rational number: |det B| / d⁴ -/
def covol (l : SqiModel.Quat.Lattice) : ℚ := |((toMatrix l.basis).det : ℚ)| / |(l.denom : ℚ)| ^ 4

/-- **index**: for upper-triangular bases, if the integer division in `quat_lattice_index` is exact (the C code
    asserts it; it holds whenever sub ⊆ over), the result is covol(sub)/covol(over) -/
theorem latIndex_spec (sub over : SqiModel.Quat.Lattice) (hs : sub.denom ≠ 0) (ho : over.denom ≠ 0)
    (hts : ∀ r c, r < 4 → c < r → sub.basis.get r c = 0) (hto : ∀ r c, r < 4 → c < r → over.basis.get r c = 0)
    (hdo : (toMatrix over.basis).det ≠ 0)
    (hdvd : (sub.denom * sub.denom * (sub.denom * sub.denom) * (toMatrix over.basis).det) ∣
            (over.denom * over.denom * (over.denom * over.denom) * (toMatrix sub.basis).det)) :
    (latIndex sub over : ℚ) = covol sub / covol over := by
  have e1 := det_of_upper sub.basis hts
  have e2 := det_of_upper over.basis hto
  unfold latIndex covol
  simp only []
  have hnum : over.denom * over.denom * (over.denom * over.denom) * sub.basis.get 0 0 * sub.basis.get 1 1 *
      sub.basis.get 2 2 * sub.basis.get 3 3 = over.denom * over.denom * (over.denom * over.denom) * (toMatrix sub.basis).det := by
    rw [e1]; ring
  have hden : sub.denom * sub.denom * (sub.denom * sub.denom) * over.basis.get 0 0 * over.basis.get 1 1 *
      over.basis.get 2 2 * over.basis.get 3 3 = sub.denom * sub.denom * (sub.denom * sub.denom) * (toMatrix over.basis).det := by
    rw [e2]; ring
  rw [hnum, hden]
  generalize (toMatrix sub.basis).det = ds at *
  generalize (toMatrix over.basis).det = dov at *
  set N := over.denom * over.denom * (over.denom * over.denom) * ds with hN
  set D := sub.denom * sub.denom * (sub.denom * sub.denom) * dov with hD
  have hD0 : D ≠ 0 := mul_ne_zero (mul_ne_zero (mul_ne_zero hs hs) (mul_ne_zero hs hs)) hdo
  have hq := SqiProofs.QuatAlg.tdiv_cast hdvd hD0
  have : ((Int.tdiv N D).natAbs : ℤ) = |Int.tdiv N D| := Int.natCast_natAbs _
  rw [show (((Int.tdiv N D).natAbs : ℤ) : ℚ) = ((|Int.tdiv N D| : ℤ) : ℚ) from by rw [this]]
  rw [Int.cast_abs, hq, hN, hD]
  have hsq : (sub.denom : ℚ) ≠ 0 := by exact_mod_cast hs
  have hoq : (over.denom : ℚ) ≠ 0 := by exact_mod_cast ho
  have hdq : (dov : ℚ) ≠ 0 := by exact_mod_cast hdo
  push_cast
  have a1 : |(sub.denom : ℚ)| ≠ 0 := abs_ne_zero.2 hsq
  have a2 : |(over.denom : ℚ)| ≠ 0 := abs_ne_zero.2 hoq
  have a3 : |(dov : ℚ)| ≠ 0 := abs_ne_zero.2 hdq
  rw [abs_div]
  simp only [abs_mul]
  field_simp

end SqiProofs.QuatLattice

import SqiProofs.HnfUnique
import SqiProofs.QuatAlg
import Mathlib.LinearAlgebra.Span.Basic
import Mathlib.Tactic.FieldSimp
/- C14, lattices: semantics of `quat_lattice_t` as the rational lattice (1/denom)·ℤ-span(columns) and the
   specification of reduce_denom / hnf / add / equal through spans. -/
open SqiModel.Quat SqiProofs.QuatMat SqiProofs.Hnf

namespace SqiProofs.QuatLattice

def qvec (d : ℤ) (x : Vec4) : Fin 4 → ℚ := fun i => (x.get i.val : ℚ) / d

/-- (1/d)·ℤ-span of a list of integer vectors -/
def ratSpan (d : ℤ) (l : List Vec4) : Submodule ℤ (Fin 4 → ℚ) := Submodule.span ℤ {v | ∃ x ∈ l, v = qvec d x}

/-- the rational lattice denoted by a `quat_lattice_t` -/
def ratLat (l : Lattice) : Submodule ℤ (Fin 4 → ℚ) := ratSpan l.denom l.basis.cols

/-- v ↦ v/d as a ℤ-linear map ℤ⁴ → ℚ⁴ -/
def scaleMap (d : ℤ) : (Fin 4 → ℤ) →ₗ[ℤ] (Fin 4 → ℚ) where
  toFun v := fun i => (v i : ℚ) / d
  map_add' v w := by ext i; simp [add_div]
  map_smul' c v := by ext i; simp [mul_div_assoc]

theorem scaleMap_toVec (d : ℤ) (x : Vec4) : scaleMap d (toVec x) = qvec d x := rfl

theorem scaleMap_injective {d : ℤ} (hd : d ≠ 0) : Function.Injective (scaleMap d) := by
  intro v w h
  ext i
  have := congrFun h i
  simp only [scaleMap, LinearMap.coe_mk, AddHom.coe_mk] at this
  have hd' : (d : ℚ) ≠ 0 := by exact_mod_cast hd
  have := (div_left_inj' hd').1 this
  exact_mod_cast this

theorem ratSpan_eq_map (d : ℤ) (l : List Vec4) : ratSpan d l = (spanL l).map (scaleMap d) := by
  unfold ratSpan spanL
  rw [Submodule.map_span]
  congr 1
  ext v
  constructor
  · rintro ⟨x, hx, rfl⟩; exact ⟨toVec x, ⟨x, hx, rfl⟩, rfl⟩
  · rintro ⟨_, ⟨x, hx, rfl⟩, rfl⟩; exact ⟨x, hx, rfl⟩

theorem ratSpan_congr (d : ℤ) {l l' : List Vec4} (h : spanL l = spanL l') : ratSpan d l = ratSpan d l' := by
  rw [ratSpan_eq_map, ratSpan_eq_map, h]

theorem spanL_of_ratSpan {d : ℤ} (hd : d ≠ 0) {l l' : List Vec4} (h : ratSpan d l = ratSpan d l') :
    spanL l = spanL l' := by
  rw [ratSpan_eq_map, ratSpan_eq_map] at h
  exact Submodule.map_injective_of_injective (scaleMap_injective hd) h

theorem ratSpan_append (d : ℤ) (l1 l2 : List Vec4) : ratSpan d (l1 ++ l2) = ratSpan d l1 ⊔ ratSpan d l2 := by
  unfold ratSpan
  rw [← Submodule.span_union]
  congr 1
  ext v
  simp only [List.mem_append, Set.mem_ofPred_eq, Set.mem_union]
  constructor
  · rintro ⟨x, hx | hx, rfl⟩
    · exact Or.inl ⟨x, hx, rfl⟩
    · exact Or.inr ⟨x, hx, rfl⟩
  · rintro (⟨x, hx, rfl⟩ | ⟨x, hx, rfl⟩)
    · exact ⟨x, Or.inl hx, rfl⟩
    · exact ⟨x, Or.inr hx, rfl⟩

@[simp] theorem get_map (f : ℤ → ℤ) (v : Vec4) (r : Nat) (hr : r < 4) : (v.map f).get r = f (v.get r) := by
  rcases r with _ | _ | _ | _ | r
  all_goals first | rfl | omega

theorem qvec_scale (d c : ℤ) (hc : c ≠ 0) (x : Vec4) : qvec (d * c) (x.map (fun t => t * c)) = qvec d x := by
  ext i
  have hc' : (c : ℚ) ≠ 0 := by exact_mod_cast hc
  simp only [qvec, get_map _ _ _ i.isLt]
  push_cast
  by_cases hd : (d : ℚ) = 0
  · simp [hd]
  · field_simp

/-- scaling numerators and denominator by the same non-zero integer does not change the lattice -/
theorem ratSpan_scale (d c : ℤ) (hc : c ≠ 0) (l : List Vec4) :
    ratSpan (d * c) (l.map (fun x => x.map (fun t => t * c))) = ratSpan d l := by
  unfold ratSpan
  congr 1
  ext v
  constructor
  · rintro ⟨x, hx, rfl⟩
    obtain ⟨y, hy, rfl⟩ := List.mem_map.1 hx
    exact ⟨y, hy, qvec_scale d c hc y⟩
  · rintro ⟨y, hy, rfl⟩
    exact ⟨_, List.mem_map.2 ⟨y, hy, rfl⟩, (qvec_scale d c hc y).symm⟩

theorem cols_map (f : ℤ → ℤ) (m : Mat4) : (m.map f).cols = m.cols.map (Vec4.map f) := rfl

theorem cols_scalarMul (s : ℤ) (m : Mat4) : (m.scalarMul s).cols = m.cols.map (fun x => x.map (fun t => t * s)) := rfl

/-! ### reduce_denom -/

theorem foldl_gcd_dvd : ∀ (l : List ℤ) (init : ℤ),
    (l.foldl ibzGcd init ∣ init) ∧ ∀ x ∈ l, l.foldl ibzGcd init ∣ x := by
  intro l
  induction l with
  | nil => intro init; exact ⟨dvd_refl _, fun _ h => by cases h⟩
  | cons a t ih =>
    intro init
    obtain ⟨h1, h2⟩ := ih (ibzGcd init a)
    simp only [List.foldl_cons]
    refine ⟨h1.trans (SqiProofs.QuatAlg.gcd_dvd_left' _ _), ?_⟩
    intro x hx
    rcases List.mem_cons.1 hx with rfl | hx
    · exact h1.trans (SqiProofs.QuatAlg.gcd_dvd_right' _ _)
    · exact h2 x hx

theorem vec_toList_get (v : Vec4) (r : Nat) (hr : r < 4) : v.get r ∈ v.toList := by
  rcases r with _ | _ | _ | _ | r
  all_goals first | omega | (simp [Vec4.toList, Vec4.get])

theorem mat_gcd_dvd (m : Mat4) (x : Vec4) (hx : x ∈ m.cols) (r : Nat) (hr : r < 4) : m.gcd ∣ x.get r := by
  have h := (foldl_gcd_dvd m.toList (m.get 0 0)).2
  apply h
  simp only [Mat4.cols, List.mem_cons, List.not_mem_nil, or_false] at hx
  obtain ⟨r0, r1, r2, r3⟩ := m
  obtain ⟨a, b, c, d⟩ := r0; obtain ⟨e, f, g, h'⟩ := r1; obtain ⟨i, j, k, l⟩ := r2; obtain ⟨p, q, s, t⟩ := r3
  rcases r with _ | _ | _ | _ | r
  all_goals first | omega | (rcases hx with rfl | rfl | rfl | rfl <;> simp [Mat4.toList, Vec4.toList, Mat4.col, Vec4.get])

/-- `quat_lattice_reduce_denom` does not change the lattice (and keeps the denominator non-zero) -/
theorem latReduceDenom_spec (l : Lattice) (hd : l.denom ≠ 0) :
    ratLat (latReduceDenom l) = ratLat l ∧ (latReduceDenom l).denom ≠ 0 := by
  have hg : ibzGcd l.basis.gcd l.denom ≠ 0 := SqiProofs.QuatAlg.gcd_ne_zero_right hd
  have hgd := SqiProofs.QuatAlg.tdiv_mul_of_dvd (SqiProofs.QuatAlg.gcd_dvd_right' l.basis.gcd l.denom)
  have hgm : ∀ x ∈ l.basis.cols, ∀ r, r < 4 → ibzGcd l.basis.gcd l.denom ∣ x.get r :=
    fun x hx r hr => (SqiProofs.QuatAlg.gcd_dvd_left' _ _).trans (mat_gcd_dvd l.basis x hx r hr)
  unfold latReduceDenom ratLat
  simp only [Mat4.scalarDiv]
  generalize ibzGcd l.basis.gcd l.denom = g at *
  constructor
  · have h1 : ratSpan (Int.tdiv l.denom g * g) (((l.basis.map fun x => Int.tdiv x g).cols).map (fun x => x.map (fun t => t * g)))
        = ratSpan (Int.tdiv l.denom g) (l.basis.map fun x => Int.tdiv x g).cols := ratSpan_scale _ g hg _
    rw [← h1, hgd]
    congr 1
    rw [cols_map, List.map_map]
    have : ∀ x ∈ l.basis.cols, ((fun x : Vec4 => x.map (fun t => t * g)) ∘ Vec4.map fun x => Int.tdiv x g) x = x := by
      intro x hx
      apply vec_ext
      intro r
      by_cases hr : r < 4
      · simp only [Function.comp, get_map _ _ _ hr]
        exact SqiProofs.QuatAlg.tdiv_mul_of_dvd (hgm x hx r hr)
      · rw [get_ge4 _ r (by omega), get_ge4 _ r (by omega)]
    rw [List.map_congr_left this, List.map_id']
  · intro h
    rw [h, zero_mul] at hgd
    exact hd hgd.symm

/-! ### add / hnf -/

theorem ratSpan_zero (d : ℤ) : ratSpan d Mat4.zero.cols = ⊥ := by
  unfold ratSpan
  rw [Submodule.span_eq_bot]
  rintro _ ⟨x, hx, rfl⟩
  simp only [Mat4.cols, List.mem_cons, List.not_mem_nil, or_false] at hx
  ext i
  fin_cases i <;> rcases hx with rfl | rfl | rfl | rfl <;> simp [qvec, Mat4.zero, Mat4.col, Vec4.get, Vec4.zero]

theorem cols_length (m : Mat4) : m.cols.length = 4 := rfl

/-- **sum of lattices**: `quat_lattice_add` returns the lattice L₁ + L₂ -/
theorem latAdd_spec (l1 l2 : Lattice) (h1 : l1.denom ≠ 0) (h2 : l2.denom ≠ 0) :
    ratLat (latAdd l1 l2) = ratLat l1 ⊔ ratLat l2 ∧ (latAdd l1 l2).denom ≠ 0 := by
  unfold latAdd
  simp only []
  obtain ⟨e, hne⟩ := latReduceDenom_spec
    ⟨l1.denom * l2.denom, hnfCore ((l2.basis.scalarMul l1.denom).cols ++ (l1.basis.scalarMul l2.denom).cols)⟩
    (mul_ne_zero h1 h2)
  refine ⟨?_, hne⟩
  rw [e]
  unfold ratLat
  simp only []
  rw [ratSpan_congr _ (hnfCore_span _ (by simp [cols_length])), ratSpan_append, cols_scalarMul, cols_scalarMul,
    ratSpan_scale _ _ h2, mul_comm l1.denom l2.denom, ratSpan_scale _ _ h1, sup_comm]

/-- `quat_lattice_hnf` does not change the lattice -/
theorem latHnf_spec (l : Lattice) (hd : l.denom ≠ 0) : ratLat (latHnf l) = ratLat l ∧ (latHnf l).denom ≠ 0 := by
  unfold latHnf
  obtain ⟨e, hne⟩ := latReduceDenom_spec ⟨l.denom, hnfCore (Mat4.zero.cols ++ l.basis.cols)⟩ hd
  refine ⟨?_, hne⟩
  rw [e]
  unfold ratLat
  simp only []
  rw [ratSpan_congr _ (hnfCore_span _ (by simp [cols_length])), ratSpan_append, ratSpan_zero, bot_sup_eq]

/-! ### HNF-ness of the results -/

theorem mat_get_map (f : ℤ → ℤ) (m : Mat4) (r c : Nat) (hr : r < 4) (hc : c < 4) :
    (m.map f).get r c = f (m.get r c) := by
  rcases r with _ | _ | _ | _ | r
  all_goals first | omega | exact get_map f _ c hc

theorem mat_get_dvd (m : Mat4) (r c : Nat) (hr : r < 4) (hc : c < 4) : m.gcd ∣ m.get r c := by
  have : m.get r c = (m.col c).get r := by
    rcases r with _ | _ | _ | _ | r
    all_goals first | omega | rfl
  rw [this]
  apply mat_gcd_dvd m _ _ r hr
  rcases c with _ | _ | _ | _ | c
  all_goals first | omega | simp [Mat4.cols]

theorem isHNF_div {m : Mat4} (hm : IsHNF m) {g : ℤ} (hg : 0 < g) (hdvd : ∀ r c, r < 4 → c < 4 → g ∣ m.get r c) :
    IsHNF (m.map fun x => Int.tdiv x g) := by
  have key : ∀ r c, r < 4 → c < 4 → (m.map fun x => Int.tdiv x g).get r c * g = m.get r c := by
    intro r c hr hc
    rw [mat_get_map _ _ _ _ hr hc]; exact SqiProofs.QuatAlg.tdiv_mul_of_dvd (hdvd r c hr hc)
  obtain ⟨z, p⟩ := hm
  refine ⟨?_, ?_⟩
  · intro r c hr hc
    have := key r c hr (by omega)
    rw [z r c hr hc] at this
    rcases mul_eq_zero.1 this with h | h
    · exact h
    · omega
  · intro r hr
    obtain ⟨p1, p2⟩ := p r hr
    have krr := key r r hr hr
    refine ⟨?_, ?_⟩
    · rw [← krr] at p1
      exact pos_of_mul_pos_left p1 (le_of_lt hg)
    · intro c hc1 hc2
      obtain ⟨q1, q2⟩ := p2 c hc1 hc2
      have krc := key r c hr hc2
      rw [← krc] at q1 q2
      rw [← krr] at q2
      refine ⟨?_, lt_of_mul_lt_mul_right q2 (le_of_lt hg)⟩
      by_contra hneg
      have : (m.map fun x => Int.tdiv x g).get r c * g < 0 := mul_neg_of_neg_of_pos (by omega) hg
      omega

theorem toMatrix_scalarMul (s : ℤ) (m : Mat4) : toMatrix (m.scalarMul s) = s • toMatrix m := by
  ext i j
  simp only [toMatrix, Matrix.of_apply, Matrix.smul_apply, smul_eq_mul, Mat4.scalarMul]
  rw [mat_get_map _ _ _ _ i.isLt j.isLt, mul_comm]

theorem fullRank_of_det {m : Mat4} (h : (toMatrix m).det ≠ 0) {l : List Vec4} (hsub : ∀ x ∈ m.cols, x ∈ l) :
    FullRank (spanL l) := by
  refine ⟨toMatrix m, fun j => ?_, h⟩
  rw [← toVec_col]
  apply mem_spanL
  apply hsub
  fin_cases j <;> simp [Mat4.cols]

/-- the basis returned by `quat_lattice_add` is in Hermite normal form when the first lattice has full rank -/
theorem latAdd_isHNF (l1 l2 : Lattice) (h1 : l1.denom ≠ 0) (h2 : l2.denom ≠ 0) (hdet : (toMatrix l1.basis).det ≠ 0) :
    IsHNF (latAdd l1 l2).basis := by
  unfold latAdd latReduceDenom
  simp only [Mat4.scalarDiv]
  set H := hnfCore ((l2.basis.scalarMul l1.denom).cols ++ (l1.basis.scalarMul l2.denom).cols) with hH
  have hfr : FullRank (spanL ((l2.basis.scalarMul l1.denom).cols ++ (l1.basis.scalarMul l2.denom).cols)) := by
    apply fullRank_of_det (m := l1.basis.scalarMul l2.denom)
    · rw [toMatrix_scalarMul, Matrix.det_smul]
      exact mul_ne_zero (pow_ne_zero _ h2) hdet
    · intro x hx; exact List.mem_append_right _ hx
  have hHNF : IsHNF H := hnfCore_isHNF _ (by simp [cols_length]) hfr
  have hg0 : ibzGcd H.gcd (l1.denom * l2.denom) ≠ 0 := SqiProofs.QuatAlg.gcd_ne_zero_right (mul_ne_zero h1 h2)
  have hgpos : 0 < ibzGcd H.gcd (l1.denom * l2.denom) := by
    have : (0 : ℤ) ≤ ibzGcd H.gcd (l1.denom * l2.denom) := by unfold ibzGcd; exact Int.natCast_nonneg _
    omega
  exact isHNF_div hHNF hgpos
    (fun r c hr hc => (SqiProofs.QuatAlg.gcd_dvd_left' _ _).trans (mat_get_dvd H r c hr hc))

/-! ### equality test -/

theorem qvec_neg (d : ℤ) (x : Vec4) : qvec (-d) x = -qvec d x := by
  ext i; simp [qvec, div_neg]

theorem ratSpan_neg (d : ℤ) (l : List Vec4) : ratSpan (-d) l = ratSpan d l := by
  unfold ratSpan
  apply le_antisymm
  · apply Submodule.span_le.2
    rintro _ ⟨x, hx, rfl⟩
    rw [qvec_neg]
    exact Submodule.neg_mem _ (Submodule.subset_span ⟨x, hx, rfl⟩)
  · apply Submodule.span_le.2
    rintro _ ⟨x, hx, rfl⟩
    have : qvec d x = -qvec (-d) x := by rw [qvec_neg, neg_neg]
    rw [this]
    exact Submodule.neg_mem _ (Submodule.subset_span ⟨x, hx, rfl⟩)

theorem ratSpan_natAbs (d : ℤ) (l : List Vec4) : ratSpan (d.natAbs : ℤ) l = ratSpan d l := by
  rcases Int.natAbs_eq d with h | h
  · rw [← h]
  · have : ((d.natAbs : ℤ)) = -d := by omega
    rw [this, ratSpan_neg]

theorem isHNF_mul {m : Mat4} (hm : IsHNF m) {s : ℤ} (hs : 0 < s) : IsHNF (m.scalarMul s) := by
  obtain ⟨z, p⟩ := hm
  unfold Mat4.scalarMul
  refine ⟨?_, ?_⟩
  · intro r c hr hc
    rw [mat_get_map _ _ _ _ hr (by omega), z r c hr hc, zero_mul]
  · intro r hr
    obtain ⟨p1, p2⟩ := p r hr
    rw [mat_get_map _ _ _ _ hr hr]
    refine ⟨mul_pos p1 hs, fun c hc1 hc2 => ?_⟩
    obtain ⟨q1, q2⟩ := p2 c hc1 hc2
    rw [mat_get_map _ _ _ _ hr hc2]
    exact ⟨mul_nonneg q1 (le_of_lt hs), mul_lt_mul_of_pos_right q2 hs⟩

/-- **equality test**: on Hermite-normal-form bases `quat_lattice_equal` decides equality of the rational
    lattices (this is where canonicity = uniqueness of the HNF is used) -/
theorem latEqual_spec (l1 l2 : Lattice) (h1 : l1.denom ≠ 0) (h2 : l2.denom ≠ 0)
    (hn1 : IsHNF l1.basis) (hn2 : IsHNF l2.basis) :
    latEqual l1 l2 = true ↔ ratLat l1 = ratLat l2 := by
  have a1 : (0 : ℤ) < (l1.denom.natAbs : ℤ) := by omega
  have a2 : (0 : ℤ) < (l2.denom.natAbs : ℤ) := by omega
  have e1 : ratLat l1 = ratSpan ((l1.denom.natAbs : ℤ) * (l2.denom.natAbs : ℤ)) (l1.basis.scalarMul (l2.denom.natAbs : ℤ)).cols := by
    rw [cols_scalarMul, ratSpan_scale _ _ (ne_of_gt a2), ratSpan_natAbs]; rfl
  have e2 : ratLat l2 = ratSpan ((l1.denom.natAbs : ℤ) * (l2.denom.natAbs : ℤ)) (l2.basis.scalarMul (l1.denom.natAbs : ℤ)).cols := by
    rw [mul_comm, cols_scalarMul, ratSpan_scale _ _ (ne_of_gt a1), ratSpan_natAbs]; rfl
  unfold latEqual
  simp only [beq_iff_eq]
  constructor
  · intro h
    rw [e1, e2, h]
  · intro h
    rw [e1, e2] at h
    have hs := spanL_of_ratSpan (mul_ne_zero (ne_of_gt a1) (ne_of_gt a2)) h
    exact hnf_unique (isHNF_mul hn2 a1) (isHNF_mul hn1 a2) hs

end SqiProofs.QuatLattice

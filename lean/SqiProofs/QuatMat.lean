import SqiModel.Quat
import Mathlib.LinearAlgebra.Matrix.Determinant.Basic
import Mathlib.Tactic.Ring
import Mathlib.Tactic.FinCases
/- C14, 4×4 integer matrices: the model's `Mat4` operations are Mathlib matrix operations; the cofactor code of
   `ibz_mat_4x4_inv_with_det_as_denom` computes the adjugate and the determinant. -/
open SqiModel.Quat

namespace SqiProofs.QuatMat

def toVec (v : Vec4) : Fin 4 → ℤ := fun i => v.get i.val
def toMatrix (m : Mat4) : Matrix (Fin 4) (Fin 4) ℤ := Matrix.of fun i j => m.get i.val j.val

theorem toMatrix_mul (a b : Mat4) : toMatrix (a.mul b) = toMatrix a * toMatrix b := by
  ext i j
  fin_cases i <;> fin_cases j <;>
    simp [toMatrix, Mat4.mul, Mat4.ofFn, Vec4.ofFn, Mat4.get, Mat4.row, Vec4.get, Matrix.mul_apply, Fin.sum_univ_four]

theorem toMatrix_transpose (a : Mat4) : toMatrix a.transpose = (toMatrix a).transpose := by
  ext i j
  fin_cases i <;> fin_cases j <;>
    simp [toMatrix, Mat4.transpose, Mat4.ofCols, Mat4.get, Mat4.row, Vec4.get, Matrix.transpose_apply]

theorem toVec_eval (m : Mat4) (v : Vec4) : toVec (m.eval v) = (toMatrix m).mulVec (toVec v) := by
  ext i
  fin_cases i <;>
    simp [toVec, toMatrix, Mat4.eval, Vec4.ofFn, Mat4.get, Mat4.row, Vec4.get, Matrix.mulVec, dotProduct, Fin.sum_univ_four]

/-- `M · adj = det · I` for the cofactor code -/
theorem invWithDet_mul_right (m : Mat4) :
    toMatrix m * toMatrix m.invWithDet.1 = m.invWithDet.2 • (1 : Matrix (Fin 4) (Fin 4) ℤ) := by
  obtain ⟨⟨a00, a01, a02, a03⟩, ⟨a10, a11, a12, a13⟩, ⟨a20, a21, a22, a23⟩, ⟨a30, a31, a32, a33⟩⟩ := m
  ext i j
  fin_cases i <;> fin_cases j <;>
    simp [toMatrix, Mat4.invWithDet, Mat4.det2, Mat4.get, Mat4.row, Vec4.get, Matrix.mul_apply, Fin.sum_univ_four,
      Matrix.smul_apply, Matrix.one_apply] <;> ring

/-- `adj · M = det · I` -/
theorem invWithDet_mul_left (m : Mat4) :
    toMatrix m.invWithDet.1 * toMatrix m = m.invWithDet.2 • (1 : Matrix (Fin 4) (Fin 4) ℤ) := by
  obtain ⟨⟨a00, a01, a02, a03⟩, ⟨a10, a11, a12, a13⟩, ⟨a20, a21, a22, a23⟩, ⟨a30, a31, a32, a33⟩⟩ := m
  ext i j
  fin_cases i <;> fin_cases j <;>
    simp [toMatrix, Mat4.invWithDet, Mat4.det2, Mat4.get, Mat4.row, Vec4.get, Matrix.mul_apply, Fin.sum_univ_four,
      Matrix.smul_apply, Matrix.one_apply] <;> ring

/-- the second component is the determinant -/
theorem invWithDet_det (m : Mat4) : m.invWithDet.2 = (toMatrix m).det := by
  obtain ⟨⟨a00, a01, a02, a03⟩, ⟨a10, a11, a12, a13⟩, ⟨a20, a21, a22, a23⟩, ⟨a30, a31, a32, a33⟩⟩ := m
  rw [Matrix.det_succ_row_zero]
  simp [Fin.sum_univ_succ, Matrix.det_fin_three, toMatrix, Mat4.invWithDet, Mat4.det2, Mat4.get, Mat4.row, Vec4.get,
    Fin.succAbove, Matrix.submatrix]
  ring

end SqiProofs.QuatMat

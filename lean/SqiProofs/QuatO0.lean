import SqiProofs.QuatContains
/- C14: `from_1ijk_to_O0basis` returns the coordinates of an element of O₀ in the basis ⟨1, i, (i+j)/2, (1+ij)/2⟩. -/
open SqiModel.Quat SqiProofs.QuatMat SqiProofs.Hnf

namespace SqiProofs.QuatLattice

/-- the maximal order O₀ as a `quat_lattice_t` (denominator 2, HNF basis) -/
def O0lat : SqiModel.Quat.Lattice := ⟨2, ⟨⟨2, 0, 0, 1⟩, ⟨0, 2, 1, 0⟩, ⟨0, 0, 1, 0⟩, ⟨0, 0, 0, 1⟩⟩⟩

theorem from1ijkToO0_spec (el : Elem)
    (h0 : el.denom ∣ el.coord.x0 - el.coord.x3) (h1 : el.denom ∣ el.coord.x1 - el.coord.x2)
    (h2 : el.denom ∣ el.coord.x2 + el.coord.x2) (h3 : el.denom ∣ el.coord.x3 + el.coord.x3) :
    CoordsOf O0lat el (from1ijkToO0 el) := by
  obtain ⟨d, ⟨c0, c1, c2, c3⟩⟩ := el
  simp only at h0 h1 h2 h3
  have e0 := SqiProofs.QuatAlg.tdiv_mul_of_dvd h0
  have e1 := SqiProofs.QuatAlg.tdiv_mul_of_dvd h1
  have e2 := SqiProofs.QuatAlg.tdiv_mul_of_dvd h2
  have e3 := SqiProofs.QuatAlg.tdiv_mul_of_dvd h3
  unfold from1ijkToO0 CoordsOf O0lat
  simp only []
  by_cases hd : d = 1
  · subst hd
    simp only [if_true, Mat4.eval, Vec4.ofFn, Vec4.map, Mat4.get, Mat4.row, Vec4.get, Vec4.mk.injEq]
    refine ⟨?_, ?_, ?_, ?_⟩ <;> ring
  · simp only [hd, if_false, Mat4.eval, Vec4.ofFn, Vec4.map, Mat4.get, Mat4.row, Vec4.get, Vec4.mk.injEq]
    refine ⟨?_, ?_, ?_, ?_⟩
    · linear_combination (-2 : ℤ) * e0 - e3
    · linear_combination (-2 : ℤ) * e1 - e2
    · linear_combination (-1 : ℤ) * e2
    · linear_combination (-1 : ℤ) * e3

end SqiProofs.QuatLattice

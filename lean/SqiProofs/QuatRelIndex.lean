import SqiProofs.QuatIndex
import SqiProofs.QuatCanon
import Mathlib.LinearAlgebra.Matrix.NonsingularInverse
/- C14: inclusion of full-rank lattices with equal covolume forces equality. -/
open SqiModel.Quat SqiProofs.QuatMat SqiProofs.Hnf

namespace SqiProofs.QuatLattice

/-- inclusion of column lattices = right multiplication by an integer matrix -/
theorem exists_mul_of_spanL_le {m' m : Mat4} (h : spanL m'.cols ≤ spanL m.cols) :
    ∃ U : Matrix (Fin 4) (Fin 4) ℤ, toMatrix m' = toMatrix m * U := by
  have : ∀ j : Fin 4, ∃ c : Fin 4 → ℤ, (fun i => toMatrix m' i j) = (toMatrix m).mulVec c := by
    intro j
    apply (mem_spanL_cols_iff m _).1
    apply h
    rw [← toVec_col]
    apply mem_spanL
    fin_cases j <;> simp [Mat4.cols]
  choose C hC using this
  refine ⟨Matrix.of (fun i j => C j i), ?_⟩
  ext i j
  have := congrFun (hC j) i
  simp only [Matrix.mulVec, dotProduct] at this
  rw [this, Matrix.mul_apply]
  rfl

theorem spanL_le_of_mul {m' m : Mat4} {U : Matrix (Fin 4) (Fin 4) ℤ} (h : toMatrix m' = toMatrix m * U) :
    spanL m'.cols ≤ spanL m.cols := by
  apply Submodule.span_le.2
  rintro _ ⟨x, hx, rfl⟩
  simp only [Mat4.cols, List.mem_cons, List.not_mem_nil, or_false] at hx
  have key : ∀ j : Fin 4, toVec (m'.col j.val) ∈ spanL m.cols := by
    intro j
    rw [mem_spanL_cols_iff]
    refine ⟨fun k => U k j, ?_⟩
    rw [toVec_col]
    ext i
    rw [h, Matrix.mul_apply]
    rfl
  rcases hx with rfl | rfl | rfl | rfl
  exacts [key 0, key 1, key 2, key 3]

/-- **integer version**: L' ⊆ L and |det| equal (non-zero) ⇒ L' = L -/
theorem spanL_eq_of_le_of_det {m' m : Mat4} (hle : spanL m'.cols ≤ spanL m.cols)
    (hdet : (toMatrix m').det.natAbs = (toMatrix m).det.natAbs) (hne : (toMatrix m).det ≠ 0) :
    spanL m'.cols = spanL m.cols := by
  obtain ⟨U, hU⟩ := exists_mul_of_spanL_le hle
  have hd : (toMatrix m').det = (toMatrix m).det * U.det := by rw [hU, Matrix.det_mul]
  have hUabs : U.det.natAbs = 1 := by
    have : (toMatrix m).det.natAbs * U.det.natAbs = (toMatrix m).det.natAbs * 1 := by
      rw [← Int.natAbs_mul, ← hd, hdet, mul_one]
    exact Nat.eq_of_mul_eq_mul_left (Int.natAbs_pos.2 hne) this
  have hUunit : IsUnit U.det := Int.isUnit_iff_natAbs_eq.2 hUabs
  apply le_antisymm hle
  have hinv : toMatrix m = toMatrix m' * U⁻¹ := by
    rw [hU, Matrix.mul_assoc, Matrix.mul_nonsing_inv U hUunit, Matrix.mul_one]
  exact spanL_le_of_mul hinv

/-- **inclusion + equal covolume ⇒ equality** for rational lattices of full rank -/
theorem ratLat_eq_of_le_of_covol (l' l : SqiModel.Quat.Lattice) (hd' : l'.denom ≠ 0) (hd : l.denom ≠ 0)
    (hne : (toMatrix l.basis).det ≠ 0) (hle : ratLat l' ≤ ratLat l) (hcov : covol l' = covol l) :
    ratLat l' = ratLat l := by
  -- common denominator D = d'·d
  have e' : ratLat l' = ratSpan (l'.denom * l.denom) (l'.basis.scalarMul l.denom).cols := by
    rw [cols_scalarMul, ratSpan_scale _ _ hd]; rfl
  have e : ratLat l = ratSpan (l'.denom * l.denom) (l.basis.scalarMul l'.denom).cols := by
    rw [cols_scalarMul, mul_comm, ratSpan_scale _ _ hd']; rfl
  have hD : l'.denom * l.denom ≠ 0 := mul_ne_zero hd' hd
  rw [e', e] at hle ⊢
  rw [ratSpan_eq_map, ratSpan_eq_map] at hle
  have hle' : spanL (l'.basis.scalarMul l.denom).cols ≤ spanL (l.basis.scalarMul l'.denom).cols :=
    (Submodule.map_le_map_iff_of_injective (scaleMap_injective hD) _ _).1 hle
  apply ratSpan_congr
  apply spanL_eq_of_le_of_det hle'
  · rw [toMatrix_scalarMul, toMatrix_scalarMul, Matrix.det_smul, Matrix.det_smul]
    simp only [Fintype.card_fin]
    unfold covol at hcov
    generalize (toMatrix l'.basis).det = D' at *
    generalize (toMatrix l.basis).det = D at *
    have hq' : (l'.denom : ℚ) ≠ 0 := by exact_mod_cast hd'
    have hq : (l.denom : ℚ) ≠ 0 := by exact_mod_cast hd
    have a' : |(l'.denom : ℚ)| ^ 4 ≠ 0 := pow_ne_zero _ (abs_ne_zero.2 hq')
    have a : |(l.denom : ℚ)| ^ 4 ≠ 0 := pow_ne_zero _ (abs_ne_zero.2 hq)
    rw [div_eq_div_iff a' a] at hcov
    have : (((l.denom ^ 4 * D').natAbs : ℤ) : ℚ) = (((l'.denom ^ 4 * D).natAbs : ℤ) : ℚ) := by
      rw [Int.natCast_natAbs, Int.natCast_natAbs]
      push_cast
      rw [abs_mul, abs_mul, abs_pow, abs_pow]
      linarith
    exact_mod_cast this
  · rw [toMatrix_scalarMul, Matrix.det_smul]
    exact mul_ne_zero (pow_ne_zero _ hd') hne

/-- the covolume ratio of an inclusion of full-rank lattices is a positive integer -/
theorem covol_of_le (sub over : SqiModel.Quat.Lattice) (hs : sub.denom ≠ 0) (ho : over.denom ≠ 0)
    (hds : (toMatrix sub.basis).det ≠ 0) (hle : ratLat sub ≤ ratLat over) :
    ∃ k : ℕ, 0 < k ∧ covol sub = k * covol over := by
  have e' : ratLat sub = ratSpan (sub.denom * over.denom) (sub.basis.scalarMul over.denom).cols := by
    rw [cols_scalarMul, ratSpan_scale _ _ ho]; rfl
  have e : ratLat over = ratSpan (sub.denom * over.denom) (over.basis.scalarMul sub.denom).cols := by
    rw [cols_scalarMul, mul_comm, ratSpan_scale _ _ hs]; rfl
  have hD : sub.denom * over.denom ≠ 0 := mul_ne_zero hs ho
  rw [e', e, ratSpan_eq_map, ratSpan_eq_map] at hle
  have hle' := (Submodule.map_le_map_iff_of_injective (scaleMap_injective hD) _ _).1 hle
  obtain ⟨U, hU⟩ := exists_mul_of_spanL_le hle'
  have hdet := congrArg Matrix.det hU
  rw [toMatrix_scalarMul, toMatrix_scalarMul, Matrix.det_mul, Matrix.det_smul, Matrix.det_smul] at hdet
  simp only [Fintype.card_fin] at hdet
  have hU0 : U.det ≠ 0 := by
    intro h0
    rw [h0, mul_zero] at hdet
    exact (mul_ne_zero (pow_ne_zero _ ho) hds) hdet
  refine ⟨U.det.natAbs, Int.natAbs_pos.2 hU0, ?_⟩
  unfold covol
  generalize (toMatrix sub.basis).det = Ds at *
  generalize (toMatrix over.basis).det = Do at *
  have hsq : (sub.denom : ℚ) ≠ 0 := by exact_mod_cast hs
  have hoq : (over.denom : ℚ) ≠ 0 := by exact_mod_cast ho
  have a1 : |(sub.denom : ℚ)| ^ 4 ≠ 0 := pow_ne_zero _ (abs_ne_zero.2 hsq)
  have a2 : |(over.denom : ℚ)| ^ 4 ≠ 0 := pow_ne_zero _ (abs_ne_zero.2 hoq)
  have hq : (over.denom : ℚ) ^ 4 * Ds = (sub.denom : ℚ) ^ 4 * Do * U.det := by exact_mod_cast hdet
  have habs := congrArg abs hq
  rw [abs_mul, abs_mul, abs_mul, abs_pow, abs_pow] at habs
  have hk : ((U.det.natAbs : ℕ) : ℚ) = |(U.det : ℚ)| := by
    rw [Nat.cast_natAbs, Int.cast_abs]
  rw [hk]
  field_simp
  linarith

end SqiProofs.QuatLattice

/- Lemmas about the signer bookkeeping model (core Lean only). -/
import SqiModel.SignBook
namespace SqiModel.SignBook

theorem v2_zero : v2 0 = 0 := by unfold v2; simp

theorem v2_odd {n : Nat} (h : n % 2 = 1) : v2 n = 0 := by
  unfold v2
  have : n ≠ 0 := by omega
  simp [this]; omega

theorem v2_even {n : Nat} (h0 : n ≠ 0) (h : n % 2 = 0) : v2 n = v2 (n / 2) + 1 := by
  rw [v2]; simp [h0, h]

/-- `2^(v2 n)` divides `n`, and no higher power does (n ≠ 0) -/
theorem v2_spec : ∀ n : Nat, n ≠ 0 → 2 ^ v2 n ∣ n ∧ ¬ 2 ^ (v2 n + 1) ∣ n := by
  intro n
  induction n using Nat.strongRecOn with
  | _ n ih =>
    intro h0
    by_cases h : n % 2 = 0
    · have hlt : n / 2 < n := by omega
      have hne : n / 2 ≠ 0 := by omega
      obtain ⟨d1, d2⟩ := ih (n / 2) hlt hne
      rw [v2_even h0 h]
      have hn : n = 2 * (n / 2) := by omega
      generalize n / 2 = m at *
      generalize v2 m = a at *
      constructor
      · obtain ⟨q, hq⟩ := d1
        exact ⟨q, by rw [hn, hq, Nat.pow_succ]; ac_rfl⟩
      · intro hd
        apply d2
        obtain ⟨q, hq⟩ := hd
        refine ⟨q, ?_⟩
        have e : 2 * m = 2 * (2 ^ (a + 1) * q) := by
          rw [← hn, hq, Nat.pow_succ]; ac_rfl
        exact Nat.eq_of_mul_eq_mul_left (by decide) e
    · have h1 : n % 2 = 1 := by omega
      rw [v2_odd h1]
      constructor
      · simp
      · simp; omega

theorem pow_dvd_le_v2 : ∀ (k n : Nat), n ≠ 0 → 2 ^ k ∣ n → k ≤ v2 n := by
  intro k
  induction k with
  | zero => intros; omega
  | succ k ih =>
    intro n h0 hd
    obtain ⟨q, hq⟩ := hd
    have hn : n = 2 * (2 ^ k * q) := by rw [hq, Nat.pow_succ]; rw [Nat.mul_comm (2 ^ k) 2, Nat.mul_assoc]
    have he : n % 2 = 0 := by omega
    have hh : n / 2 = 2 ^ k * q := by omega
    rw [v2_even h0 he]
    have := ih (n / 2) (by omega) ⟨q, hh⟩
    omega

theorem tavLoop_eq_v2 : ∀ (fuel n : Nat), n ≠ 0 → n < 2 ^ fuel → tavLoop fuel n = v2 n := by
  intro fuel
  induction fuel with
  | zero => intro n h0 h; simp at h; omega
  | succ fuel ih =>
    intro n h0 hlt
    by_cases h : n % 2 = 0
    · simp only [tavLoop, h, if_true]
      rw [v2_even h0 h, ih (n / 2) (by omega) (by rw [Nat.pow_succ] at hlt; omega)]
    · simp only [tavLoop, h, if_false]
      rw [v2_odd (by omega)]

/-- reducing modulo `2^k` does not change the valuation as long as the residue is non-zero -/
theorem v2_mod_pow : ∀ (k n : Nat), n % 2 ^ k ≠ 0 → v2 (n % 2 ^ k) = v2 n := by
  intro k
  induction k with
  | zero => intro n h; simp [Nat.mod_one] at h
  | succ k ih =>
    intro n hm
    have hn0 : n ≠ 0 := by intro h; rw [h] at hm; simp at hm
    have h2 : (n % 2 ^ (k + 1)) % 2 = n % 2 := by
      apply Nat.mod_mod_of_dvd
      exact ⟨2 ^ k, by rw [Nat.pow_succ, Nat.mul_comm]⟩
    by_cases h : n % 2 = 0
    · have hdiv : n % 2 ^ (k + 1) / 2 = (n / 2) % 2 ^ k := by
        rw [Nat.pow_succ, Nat.mul_comm (2 ^ k) 2]
        exact Nat.mod_mul_right_div_self n 2 (2 ^ k)
      rw [v2_even hm (by omega), v2_even hn0 h, hdiv]
      have : (n / 2) % 2 ^ k ≠ 0 := by rw [← hdiv]; omega
      rw [ih (n / 2) this]
    · rw [v2_odd (by omega), v2_odd (by omega)]

theorem tavC_of_low_nonzero {x : Nat} (h : x % 2 ^ 32 ≠ 0) : tavC x = v2 x := by
  unfold tavC
  simp only [h, if_false]
  rw [tavLoop_eq_v2 32 _ h (Nat.mod_lt _ (by decide)), v2_mod_pow 32 x h]

theorem tavC_of_low_zero {x : Nat} (h : x % 2 ^ 32 = 0) : tavC x = 0 := by
  unfold tavC; simp [h]

theorem v2_lt_of_low_nonzero {x : Nat} (h : x % 2 ^ 32 ≠ 0) : v2 x < 32 := by
  have hx : x ≠ 0 := by intro h0; rw [h0] at h; simp at h
  apply Nat.lt_of_not_le
  intro hge
  have hd : 2 ^ 32 ∣ x := Nat.dvd_trans (Nat.pow_dvd_pow 2 hge) (v2_spec x hx).1
  exact h (Nat.mod_eq_zero_of_dvd hd)

theorem clap_all (t : ClapTape) :
    clapotis Shape.allChecked t = .ok (decide (t.uvFails < 3) && !t.fuFail && !t.fvFail) := by
  obtain ⟨u, a, b⟩ := t
  unfold clapotis
  by_cases h : 3 ≤ u <;> cases a <;> cases b <;> simp [Shape.allChecked, h] <;> omega

end SqiModel.SignBook

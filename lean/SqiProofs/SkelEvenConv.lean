/-
Converse of `SqiProofs.SkelEvenSim`: whenever the hand model `SqiModel.EvenChain.evalEven` faults, the run of the generated
skeleton `SqiGen.ChainSkel.ec_eval_even_strategy` ends in a dead state (an interpreter fault or an observer fault) — so the
fault status of the translated text and of the hand model coincide (`skel_live_iff`).
-/
import SqiProofs.SkelEvenSim

namespace SqiProofs.SkelEvenConv
open SqiGen.ChainSkel SqiModel.Skel SqiModel.SkelEven SqiModel.EvenChain SqiProofs.EvenChain SqiProofs.SkelEvenSim

/-- the run has stopped: a fault of the interpreter or of the observer has been recorded -/
def Dead (k : EvenSt OSt) : Prop := EvenSt.live obs k = false

theorem obs_ok (o : OSt) : obs.ok o = !o.bad := rfl

theorem step_dead (f : EvenSt OSt → EvenSt OSt) (k : EvenSt OSt) (h : Dead k) : EvenSt.step obs f k = k := by
  unfold Dead at h
  simp [EvenSt.step, h]

theorem whileF_dead (c : EvenSt OSt → Bool) (b oof : EvenSt OSt → EvenSt OSt) (f : Nat) (k : EvenSt OSt) (h : Dead k) :
    whileF (EvenSt.live obs) c b oof f k = k := by
  unfold Dead at h
  exact whileF_stop _ _ _ _ _ _ (by simp [h])

theorem dead_of_bad (k : EvenSt OSt) (h : k.obs.bad = true) : Dead k := by
  simp [Dead, EvenSt.live, obs_ok, h]
theorem dead_of_fault (k : EvenSt OSt) (e : Fault) (h : k.fault = some e) : Dead k := by
  simp [Dead, EvenSt.live, h]

theorem live_iff (k : EvenSt OSt) : ¬ Dead k ↔ (k.fault = none ∧ k.obs.bad = false) := by
  unfold Dead
  simp [EvenSt.live, obs_ok]

/-! ### events that fail -/

theorem ev_copy_bad (o : OSt) (d s : Int) (h : ¬ (o.inb d = true ∧ o.inb s = true ∧ (o.sp s).isSome = true)) :
    (ev o 2 [d, s]).bad = true := by
  by_cases hb : o.bad = true
  · simp [ev, hb]
  · have hb' : o.bad = false := by simpa using hb
    by_cases h1 : (o.inb d && o.inb s) = true
    · cases hs : o.sp s with
      | none => simp [ev, hb', h1, hs, OSt.fail]
      | some v =>
        exfalso; apply h
        simp only [Bool.and_eq_true] at h1
        exact ⟨h1.1, h1.2, by simp [hs]⟩
    · simp [ev, hb', h1, OSt.fail]

theorem ev_dbl_bad (o : OSt) (d s : Int) (h : ¬ (o.inb d = true ∧ o.inb s = true ∧ (o.sp s).isSome = true)) :
    (ev o 4 [d, s]).bad = true := by
  by_cases hb : o.bad = true
  · simp [ev, hb]
  · have hb' : o.bad = false := by simpa using hb
    by_cases h1 : (o.inb d && o.inb s) = true
    · cases hs : o.sp s with
      | none => simp [ev, hb', h1, hs, OSt.fail]
      | some v =>
        exfalso; apply h
        simp only [Bool.and_eq_true] at h1
        exact ⟨h1.1, h1.2, by simp [hs]⟩
    · simp [ev, hb', h1, OSt.fail]

theorem ev_one_bad (o : OSt) (kd : Nat) (hk : kd = 5 ∨ kd = 6 ∨ kd = 8) (a : Int)
    (h : ¬ (o.inb a = true ∧ (o.sp a).isSome = true)) : (ev o kd [a]).bad = true := by
  by_cases hb : o.bad = true
  · simp [ev, hb]
  · have hb' : o.bad = false := by simpa using hb
    by_cases h1 : o.inb a = true
    · cases hs : o.sp a with
      | none => rcases hk with rfl | rfl | rfl <;> simp [ev, hb', h1, hs, OSt.fail]
      | some v => exfalso; exact h ⟨h1, by simp [hs]⟩
    · rcases hk with rfl | rfl | rfl <;> simp [ev, hb', h1, OSt.fail]


theorem step_live2 (f : EvenSt OSt → EvenSt OSt) (k : EvenSt OSt) (hf : k.fault = none) (hb : k.obs.bad = false) :
    EvenSt.step obs f k = f k := step_live f k hf hb

theorem pushBody_err_iff (P : Params) (s : St) (b : Nat) (he0 : s.err = none) :
    (pushBody P s b).err ≠ none ↔
      ¬ (idxOK (s.current + 1) P.vla = true ∧ idxOK s.current P.vla = true ∧ (s.sp s.current.toNat).isSome = true) := by
  unfold pushBody
  simp only [Int.add_sub_cancel, Bool.and_eq_true]
  by_cases h : idxOK (s.current + 1) P.vla = true ∧ idxOK s.current P.vla = true
  · simp only [h, and_self, if_true, true_and]
    cases ho : s.sp s.current.toNat with
    | none => simp [St.emit, St.fail, ho]
    | some o => simp [St.emit, he0, ho]
  · simp only [h, if_false]
    simp [St.emit, St.fail]
    intro h1 h2; exact absurd ⟨h1, h2⟩ h

section Push
variable (T : List (List Nat)) (tpep len : Nat) (oracle : Nat → Bool) (fuel : Nat) (pl : Int) (M : Nat)

/-- the inner-while body dies when the hand model's `pushBody` faults -/
theorem push_dead (j : Nat) (k : EvenSt OSt) (m : St) (R : Rel (mkParams T tpep len) M j k m) (b : Nat)
    (he : (pushBody (mkParams T tpep len) m b).err ≠ none) :
    Dead (ec_eval_even_strategy_loop2_body obs T tpep oracle fuel len pl k) := by
  have hc := (pushBody_err_iff _ m b R.me).1 he
  have hkf := R.kf
  have hkb := R.kb
  have hbad : (ev k.obs 2 [k.current + 1, k.current]).bad = true := by
    apply ev_copy_bad
    intro h
    apply hc
    obtain ⟨h1, h2, h3⟩ := h
    simp only [OSt.inb, R.os, R.cu, Bool.and_eq_true, decide_eq_true_eq] at h1 h2
    have hcn : m.current = ((m.current.toNat : Nat) : Int) := by omega
    refine ⟨by simp [idxOK]; omega, by simp [idxOK]; omega, ?_⟩
    rw [R.cu, hcn, R.og] at h3
    exact h3
  unfold ec_eval_even_strategy_loop2_body
  simp only [step_live2, hkf, hkb, obs_ev, EvKind.copy, Int.add_sub_cancel]
  generalize hK : EvenSt.mk _ _ _ _ _ _ _ _ _ _ _ _ = K
  have hd : Dead K := by rw [← hK]; exact dead_of_bad _ hbad
  have hs : ∀ f, EvenSt.step obs f K = K := fun f => step_dead f K hd
  simp only [hs]
  exact hd
end Push


/-! ### reading past the end of the table row -/

theorem rdTab_err (T : List (List Nat)) (tpep len c : Nat) (htp : (tpep : Int) < W64)
    (htl : T.length + len ≤ 18446744073709551616) (hc : (mkParams T tpep len).row.length ≤ c) :
    ∃ f, rdTab T (((tpep : Int) - ((len : Int) % W64)) % W64) (c : Int) = .error f := by
  unfold rdTab
  by_cases hr : 0 ≤ (((tpep : Int) - ((len : Int) % W64)) % W64) ∧ (((tpep : Int) - ((len : Int) % W64)) % W64) < (T.length : Int)
  · simp only [hr, and_self, if_true]
    have hle : len ≤ tpep := by
      by_cases h : len ≤ tpep
      · exact h
      · exfalso
        have := hr.2
        rw [w64] at this htp
        omega
    have hidx : (((tpep : Int) - ((len : Int) % W64)) % W64) = ((tpep - len : Nat) : Int) := by rw [w64] at *; omega
    have hrw : (mkParams T tpep len).row = T.getD (tpep - len) [] := by
      have h1 : ((tpep : Int) - (len : Int)).toNat = tpep - len := by omega
      simp [mkParams, h1]; intro hh; omega
    rw [hidx]
    rw [hrw] at hc
    have hc' : ¬ c < (T[tpep - len]?.getD []).length := by simpa [List.getD] using hc
    simp [hc']
  · rw [if_neg hr]; exact ⟨_, rfl⟩

theorem step_strategy (f : EvenSt OSt → EvenSt OSt) (k : EvenSt OSt) (h : ∀ s, (f s).strategy = s.strategy) :
    (EvenSt.step obs f k).strategy = k.strategy := by
  unfold EvenSt.step
  split
  · exact h k
  · rfl

section Strat
variable (T : List (List Nat)) (tpep len : Nat) (oracle : Nat → Bool) (fuel : Nat) (pl : Int)

/-- the inner-while body dies when the strategy index is past the end of the row -/
theorem strat_dead (k : EvenSt OSt) (c : Nat) (hst : k.strategy = (c : Int)) (htp : (tpep : Int) < W64)
    (htl : T.length + len ≤ 18446744073709551616) (hc : (mkParams T tpep len).row.length ≤ c) (hfu : 1 ≤ fuel) :
    Dead (ec_eval_even_strategy_loop2_body obs T tpep oracle fuel len pl k) := by
  obtain ⟨e, he⟩ := rdTab_err T tpep len c htp htl hc
  unfold ec_eval_even_strategy_loop2_body
  dsimp only
  generalize hX : EvenSt.step obs _ (EvenSt.step obs _ (EvenSt.step obs _ (EvenSt.step obs _ k))) = X
  have hXs : X.strategy = k.strategy := by
    rw [← hX]
    refine (step_strategy _ _ ?_).trans ?_
    · intro s; rfl
    refine (step_strategy _ _ ?_).trans ?_
    · intro s
      split
      · refine step_strategy _ _ ?_
        intro s
        split
        · refine step_strategy _ _ ?_
          intro s; rfl
        · refine step_strategy _ _ ?_
          intro s; rfl
      · rfl
    refine (step_strategy _ _ ?_).trans ?_
    · intro s; rfl
    refine step_strategy _ _ ?_
    intro s; rfl
  by_cases hd : Dead X
  · have hs : ∀ f, EvenSt.step obs f X = X := fun f => step_dead f X hd
    simp only [hs]
    exact hd
  · have hl := (live_iff X).1 hd
    have hlive : EvenSt.live obs X = true := by simp [EvenSt.live, obs_ok, hl.1, hl.2]
    rw [step_live2 _ X hl.1 hl.2]
    obtain ⟨f', rfl⟩ : ∃ f', fuel = f' + 1 := ⟨fuel - 1, by omega⟩
    rw [whileF_step _ _ _ _ _ _ (by simp only [ec_eval_even_strategy_loop3_cond, hXs, hst, he, hlive, Bool.and_self])]
    simp only [ec_eval_even_strategy_loop3_cond, hXs, hst, he]
    have hdK : Dead (X.fail e) := dead_of_fault _ e rfl
    rw [whileF_dead _ _ _ _ (X.fail e) hdK]
    have hs : ∀ f, EvenSt.step obs f (X.fail e) = X.fail e := fun f => step_dead f _ hdK
    simp only [hs]
    exact hdK
end Strat


section While
variable (T : List (List Nat)) (tpep len : Nat) (oracle : Nat → Bool) (fuel : Nat) (pl : Int) (M : Nat)

/-- the inner `while` dies when the hand model's `whileLoop` faults -/
theorem while_dead (H : Hyp T tpep len M fuel) (htl : T.length + len ≤ 18446744073709551616) (hfu1 : 1 ≤ fuel)
    (j : Nat) (hj : j < (mkParams T tpep len).eHalf) :
    ∀ (n f : Nat) (k : EvenSt OSt) (m : St), Rel (mkParams T tpep len) M j k m →
      (mkParams T tpep len).row.length - m.strategy ≤ n →
      (whileLoop (mkParams T tpep len) j m).err ≠ none →
      Dead (whileF (EvenSt.live obs)
          (fun s => match ec_eval_even_strategy_loop2_cond obs T tpep oracle fuel len pl s with | .ok b => b | .error _ => true)
          (fun s => match ec_eval_even_strategy_loop2_cond obs T tpep oracle fuel len pl s with
            | .ok _ => ec_eval_even_strategy_loop2_body obs T tpep oracle fuel len pl s | .error f => s.fail f)
          (fun s => s.fail .fuel) f k) := by
  intro n
  induction n with
  | zero =>
    intro f k m R hn he
    have hc := cond2_iff T tpep len oracle fuel pl M H j k m R hj
    have hlive : EvenSt.live obs k = true := by simp [EvenSt.live, obs_ok, R.kf, R.kb]
    by_cases hb : m.block = ((mkParams T tpep len).eHalf : Int) - 1 - (j : Int)
    · rw [whileLoop_exit _ j m R.me hb] at he
      exact absurd R.me he
    · have hA : (match ec_eval_even_strategy_loop2_cond obs T tpep oracle fuel len pl k with
          | .ok b => b | .error _ => true) = true := hc.trans (by simp [hb])
      have hcond : (EvenSt.live obs k && (match ec_eval_even_strategy_loop2_cond obs T tpep oracle fuel len pl k with
          | .ok b => b | .error _ => true)) = true := by rw [hlive, hA]; rfl
      cases f with
      | zero =>
        simp only [whileF, hcond, if_true]
        exact dead_of_fault _ .fuel rfl
      | succ f' =>
        rw [whileF_step _ _ _ _ _ _ hcond]
        have hbody : (match ec_eval_even_strategy_loop2_cond obs T tpep oracle fuel len pl k with
            | .ok _ => ec_eval_even_strategy_loop2_body obs T tpep oracle fuel len pl k | .error f => k.fail f) =
            ec_eval_even_strategy_loop2_body obs T tpep oracle fuel len pl k := by
          simp [ec_eval_even_strategy_loop2_cond]
        rw [hbody]
        have hd := strat_dead T tpep len oracle fuel pl k m.strategy R.st H.htp htl (by omega) hfu1
        rw [whileF_dead _ _ _ _ _ hd]
        exact hd
  | succ n ih =>
    intro f k m R hn he
    have hc := cond2_iff T tpep len oracle fuel pl M H j k m R hj
    have hlive : EvenSt.live obs k = true := by simp [EvenSt.live, obs_ok, R.kf, R.kb]
    by_cases hb : m.block = ((mkParams T tpep len).eHalf : Int) - 1 - (j : Int)
    · rw [whileLoop_exit _ j m R.me hb] at he
      exact absurd R.me he
    · have hA : (match ec_eval_even_strategy_loop2_cond obs T tpep oracle fuel len pl k with
          | .ok b => b | .error _ => true) = true := hc.trans (by simp [hb])
      have hcond : (EvenSt.live obs k && (match ec_eval_even_strategy_loop2_cond obs T tpep oracle fuel len pl k with
          | .ok b => b | .error _ => true)) = true := by rw [hlive, hA]; rfl
      cases f with
      | zero =>
        simp only [whileF, hcond, if_true]
        exact dead_of_fault _ .fuel rfl
      | succ f' =>
        rw [whileF_step _ _ _ _ _ _ hcond]
        have hbody : (match ec_eval_even_strategy_loop2_cond obs T tpep oracle fuel len pl k with
            | .ok _ => ec_eval_even_strategy_loop2_body obs T tpep oracle fuel len pl k | .error f => k.fail f) =
            ec_eval_even_strategy_loop2_body obs T tpep oracle fuel len pl k := by
          simp [ec_eval_even_strategy_loop2_cond]
        rw [hbody]
        by_cases hs : m.strategy < (mkParams T tpep len).row.length
        · by_cases hpe : (pushBody (mkParams T tpep len) m (mkParams T tpep len).row[m.strategy]).err = none
          · rw [whileLoop_push _ j m R.me hb hs] at he
            have R' := push_sim T tpep len oracle fuel pl M H j k m R hs hpe
            exact ih f' _ _ R' (by simp only []; omega) he
          · have hd := push_dead T tpep len oracle fuel pl M j k m R _ hpe
            rw [whileF_dead _ _ _ _ _ hd]
            exact hd
        · have hd := strat_dead T tpep len oracle fuel pl k m.strategy R.st H.htp htl (by omega) hfu1
          rw [whileF_dead _ _ _ _ _ hd]
          exact hd
end While


/-! ### the isogeny part of an iteration -/

theorem isoStep_err_iff (P : Params) (j : Nat) (s : St) (he0 : s.err = none) :
    (isoStep P j s).err ≠ none ↔
      ¬ (idxOK s.current P.vla = true ∧ (s.sp s.current.toNat).isSome = true ∧ (s.xdbls s.current.toNat).isSome = true) := by
  by_cases hidx : idxOK s.current P.vla = true
  · have hidx' := hidx
    simp [idxOK] at hidx'
    obtain ⟨c, hc⟩ : ∃ c : Nat, s.current = (c : Int) := ⟨s.current.toNat, by omega⟩
    have hidxc : idxOK (c : Int) P.vla = true := by rw [← hc]; exact hidx
    have hct : s.current.toNat = c := by omega
    rw [hct]
    simp only [hidx, true_and]
    by_cases hx : j ≠ 0 ∧ P.isOdd = 1 ∧ c = 0
    · obtain ⟨h1, h2, rfl⟩ := hx
      have hidx0 : idxOK 0 P.vla = true := by simpa using hidxc
      have hc0 : s.current = 0 := by simpa using hc
      cases hv : s.sp 0 with
      | none => simp [isoStep, he0, hc0, hidx0, h1, h2, hv, upd, St.fail]
      | some v =>
        cases hd : s.xdbls 0 with
        | none => simp [isoStep, he0, hc0, hidx0, h1, h2, hv, hd, upd, St.fail, St.emit]
        | some d => simp [isoStep, he0, hc0, hidx0, h1, h2, hv, hd, upd, St.emit]
    · cases hv : s.sp c with
      | none => simp [isoStep, he0, hc, hidxc, hx, hv, St.fail]
      | some v =>
        cases hd : s.xdbls c with
        | none => simp [isoStep, he0, hc, hidxc, hx, hv, hd, St.fail, St.emit]
        | some d => simp [isoStep, he0, hc, hidxc, hx, hv, hd, St.emit]
  · simp [isoStep, he0, hidx, St.fail]


section Iso
variable (T : List (List Nat)) (tpep len : Nat) (oracle : Nat → Bool) (fuel : Nat) (pl : Int)

/-- the rest of an iteration dies when the kernel slot is out of bounds / uninitialised -/
theorem iso_dead_slot (k k1 : EvenSt OSt) (hf : k.fault = none) (hb : k.obs.bad = false)
    (hk1 : whileF (EvenSt.live obs)
          (fun s => match ec_eval_even_strategy_loop2_cond obs T tpep oracle fuel len pl s with | .ok b => b | .error _ => true)
          (fun s => match ec_eval_even_strategy_loop2_cond obs T tpep oracle fuel len pl s with
            | .ok _ => ec_eval_even_strategy_loop2_body obs T tpep oracle fuel len pl s | .error f => s.fail f)
          (fun s => s.fail .fuel) fuel k = k1)
    (odd jn : Nat) (h1f : k1.fault = none) (h1b : k1.obs.bad = false) (hodd : k1.is_odd = (odd : Int))
    (hjj : k1.j = (jn : Int))
    (hC : ¬ (k1.obs.inb k1.current = true ∧ (k1.obs.sp k1.current).isSome = true)) :
    Dead (ec_eval_even_strategy_loop1_body obs T tpep oracle fuel len pl k) := by
  have hbad5 : (ev k1.obs 5 [k1.current]).bad = true := ev_one_bad _ 5 (by simp) _ hC
  have hbad6 : (ev k1.obs 6 [k1.current]).bad = true := ev_one_bad _ 6 (by simp) _ hC
  have hbad4 : (ev k1.obs 4 [k1.current, k1.current]).bad = true :=
    ev_dbl_bad _ _ _ (fun h => hC ⟨h.1, h.2.2⟩)
  unfold ec_eval_even_strategy_loop1_body
  rw [step_live _ k hf hb]
  erw [hk1]
  by_cases hj : jn = 0
  · subst hj
    simp [Dead, EvenSt.step, EvenSt.live, obs, h1f, h1b, hjj, hodd, EvKind.read, EvKind.isog4, EvKind.eval4, EvKind.dbl, truthy,
          hbad5, hbad6, hbad4]
  · have hj' : ¬ (jn : Int) = 0 := by omega
    by_cases hx : (odd : Int) = 0
    · have hxn : odd = 0 := by omega
      simp [Dead, EvenSt.step, EvenSt.live, obs, h1f, h1b, hjj, hodd, EvKind.read, EvKind.isog4, EvKind.eval4, EvKind.dbl, truthy,
          hbad5, hbad6, hbad4, hj, hj', hx, hxn]
    · by_cases hc0 : k1.current = 0
      · have hxn : ¬ odd = 0 := by omega
        have hbad40 : (ev k1.obs 4 [0, 0]).bad = true := by rw [hc0] at hbad4; exact hbad4
        have hbad60 : (ev k1.obs 6 [0]).bad = true := by rw [hc0] at hbad6; exact hbad6
        simp [Dead, EvenSt.step, EvenSt.live, obs, h1f, h1b, hjj, hodd, EvKind.read, EvKind.isog4, EvKind.eval4, EvKind.dbl, truthy,
          hbad5, hbad6, hbad4, hj, hj', hx, hxn, hc0, hbad40, hbad60]
      · have hxn : ¬ odd = 0 := by omega
        simp [Dead, EvenSt.step, EvenSt.live, obs, h1f, h1b, hjj, hodd, EvKind.read, EvKind.isog4, EvKind.eval4, EvKind.dbl, truthy,
          hbad5, hbad6, hbad4, hj, hj', hx, hxn, hc0]

/-- the rest of an iteration dies when `XDBLs[current]` is uninitialised -/
theorem iso_dead_xd (k k1 : EvenSt OSt) (hf : k.fault = none) (hb : k.obs.bad = false)
    (hk1 : whileF (EvenSt.live obs)
          (fun s => match ec_eval_even_strategy_loop2_cond obs T tpep oracle fuel len pl s with | .ok b => b | .error _ => true)
          (fun s => match ec_eval_even_strategy_loop2_cond obs T tpep oracle fuel len pl s with
            | .ok _ => ec_eval_even_strategy_loop2_body obs T tpep oracle fuel len pl s | .error f => s.fail f)
          (fun s => s.fail .fuel) fuel k = k1)
    (c v odd jn : Nat) (h1f : k1.fault = none) (h1b : k1.obs.bad = false) (hcur : k1.current = (c : Int))
    (hsz : (c : Int) < k1.obs.size) (hsp : k1.obs.sp (c : Int) = some v) (hodd : k1.is_odd = (odd : Int))
    (hxs : k1.XDBLs.size = k1.obs.size) (hxg : k1.XDBLs.get (c : Int) = none) (hjj : k1.j = (jn : Int)) :
    Dead (ec_eval_even_strategy_loop1_body obs T tpep oracle fuel len pl k) := by
  unfold ec_eval_even_strategy_loop1_body
  rw [step_live _ k hf hb]
  erw [hk1]
  have hin : k1.XDBLs.inb (c : Int) = true := by simp [IArr.inb, hxs]; omega
  have h0 : (0 : Int) ≤ (c : Int) := by omega
  have hle : (c : Int) ≤ k1.obs.size := Int.le_of_lt hsz
  by_cases hj : jn = 0
  · subst hj
    by_cases ho : oracle 0 = true
    · by_cases hp : pl = 0
      · simp [Dead, EvenSt.step, EvenSt.live, obs, h1f, h1b, hcur, hjj, hodd, hin, rdArr, hxg, EvKind.read, EvKind.isog4, EvKind.eval4,
          EvKind.dbl, ev_read_s, ev_isog4_s, ev_eval4_s, ev_dbl_s, hsp, hsz, hle, h0, obsDbl_sp, truthy, OSt.inb, EvenSt.fail, ho, hp]
      · simp [Dead, EvenSt.step, EvenSt.live, obs, h1f, h1b, hcur, hjj, hodd, hin, rdArr, hxg, EvKind.read, EvKind.isog4, EvKind.eval4,
          EvKind.dbl, ev_read_s, ev_isog4_s, ev_eval4_s, ev_dbl_s, hsp, hsz, hle, h0, obsDbl_sp, truthy, OSt.inb, EvenSt.fail, ho, hp]
    · simp [Dead, EvenSt.step, EvenSt.live, obs, h1f, h1b, hcur, hjj, hodd, hin, rdArr, hxg, EvKind.read, EvKind.isog4, EvKind.eval4,
          EvKind.dbl, ev_read_s, ev_isog4_s, ev_eval4_s, ev_dbl_s, hsp, hsz, hle, h0, obsDbl_sp, truthy, OSt.inb, EvenSt.fail, ho]
  · have hj' : ¬ (jn : Int) = 0 := by omega
    by_cases hx : odd ≠ 0 ∧ c = 0
    · obtain ⟨hx1, rfl⟩ := hx
      have : ¬ (odd : Int) = 0 := by omega
      have hsp0 : k1.obs.sp 0 = some v := by simpa using hsp
      have hsz0 : 0 < k1.obs.size := by simpa using hsz
      have hle0 : 0 ≤ k1.obs.size := by omega
      have hcur0 : k1.current = 0 := by simpa using hcur
      have hin0 : k1.XDBLs.inb 0 = true := by simpa using hin
      have hxg0 : k1.XDBLs.get 0 = none := by simpa using hxg
      simp [Dead, EvenSt.step, EvenSt.live, obs, h1f, h1b, hcur, hjj, hodd, hin, rdArr, hxg, EvKind.read, EvKind.isog4, EvKind.eval4,
          EvKind.dbl, ev_read_s, ev_isog4_s, ev_eval4_s, ev_dbl_s, hsp, hsz, hle, h0, obsDbl_sp, truthy, OSt.inb, EvenSt.fail, hj, hj', hx1, this, hsp0, hsz0, hcur0, hin0, hxg0, hle0]
    · have hx' : ((odd : Int) = 0) ∨ ¬ (c : Int) = 0 := by omega
      simp [Dead, EvenSt.step, EvenSt.live, obs, h1f, h1b, hcur, hjj, hodd, hin, rdArr, hxg, EvKind.read, EvKind.isog4, EvKind.eval4,
          EvKind.dbl, ev_read_s, ev_isog4_s, ev_eval4_s, ev_dbl_s, hsp, hsz, hle, h0, obsDbl_sp, truthy, OSt.inb, EvenSt.fail, hj, hj', hx, hx']
end Iso


section Iter
variable (T : List (List Nat)) (tpep len : Nat) (oracle : Nat → Bool) (fuel : Nat) (pl : Int) (M : Nat)

/-- one iteration of the main loop dies when the hand model's iteration faults -/
theorem iter_dead (H : Hyp T tpep len M fuel) (htl : T.length + len ≤ 18446744073709551616) (hfu1 : 1 ≤ fuel)
    (j : Nat) (hj : j < (mkParams T tpep len).eHalf) (k : EvenSt OSt) (m : St)
    (R : Rel (mkParams T tpep len) M j k m)
    (he : (isoStep (mkParams T tpep len) j (whileLoop (mkParams T tpep len) j m)).err ≠ none) :
    Dead (ec_eval_even_strategy_loop1_body obs T tpep oracle fuel len pl k) := by
  by_cases hw : (whileLoop (mkParams T tpep len) j m).err = none
  · have R1 := while_sim T tpep len oracle fuel pl M H j hj ((mkParams T tpep len).row.length - m.strategy) fuel k m R
      (Nat.le_refl _) (by have := H.hfur; omega) hw
    generalize hk1 : whileF _ _ _ _ fuel k = k1 at R1
    generalize hm1 : whileLoop (mkParams T tpep len) j m = m1 at R1 he hw
    have hc := (isoStep_err_iff _ j _ R1.me).1 he
    by_cases hC : idxOK m1.current (mkParams T tpep len).vla = true ∧ (m1.sp m1.current.toNat).isSome = true
    · have hidx := hC.1
      simp [idxOK] at hidx
      obtain ⟨v, hv⟩ := Option.isSome_iff_exists.1 hC.2
      have hxn : m1.xdbls m1.current.toNat = none := by
        cases hq : m1.xdbls m1.current.toNat with
        | none => rfl
        | some d => exfalso; exact hc ⟨hC.1, hC.2, by simp [hq]⟩
      have hcn : m1.current = ((m1.current.toNat : Nat) : Int) := by omega
      exact iso_dead_xd T tpep len oracle fuel pl k k1 R.kf R.kb hk1
        m1.current.toNat v (mkParams T tpep len).isOdd j R1.kf R1.kb
        (by rw [R1.cu]; exact hcn) (by rw [R1.os]; omega) (by rw [R1.og, hv]) R1.od (by rw [R1.xs, R1.os])
        (by rw [R1.xg, hxn]; rfl) R1.jj
    · refine iso_dead_slot T tpep len oracle fuel pl k k1 R.kf R.kb hk1 (mkParams T tpep len).isOdd j R1.kf R1.kb R1.od R1.jj ?_
      intro h
      apply hC
      obtain ⟨h1, h2⟩ := h
      simp only [OSt.inb, R1.os, R1.cu, Bool.and_eq_true, decide_eq_true_eq] at h1
      have hcn : m1.current = ((m1.current.toNat : Nat) : Int) := by omega
      refine ⟨by simp [idxOK]; omega, ?_⟩
      rw [R1.cu, hcn, R1.og] at h2
      exact h2
  · have hd := while_dead T tpep len oracle fuel pl M H htl hfu1 j hj ((mkParams T tpep len).row.length - m.strategy) fuel k m R
      (Nat.le_refl _) hw
    unfold ec_eval_even_strategy_loop1_body
    rw [step_live _ k R.kf R.kb]
    generalize hk1 : whileF _ _ _ _ fuel k = k1 at hd ⊢
    have hs : ∀ f, EvenSt.step obs f k1 = k1 := fun f => step_dead f k1 hd
    simp only [hs]
    exact hd

/-- the main loop dies when the hand model's `forLoop` faults -/
theorem for_dead (H : Hyp T tpep len M fuel) (htl : T.length + len ≤ 18446744073709551616) (hfu1 : 1 ≤ fuel) :
    ∀ (cnt f j : Nat) (k : EvenSt OSt) (m : St), Rel (mkParams T tpep len) M j k m →
    j + cnt + 1 = (mkParams T tpep len).eHalf → cnt ≤ f → (forLoop (mkParams T tpep len) cnt j m).err ≠ none →
    Dead (whileF (EvenSt.live obs)
        (fun s => match ec_eval_even_strategy_loop1_cond obs T tpep oracle fuel len pl s with | .ok b => b | .error _ => true)
        (fun s => match ec_eval_even_strategy_loop1_cond obs T tpep oracle fuel len pl s with
          | .ok _ => ec_eval_even_strategy_loop1_body obs T tpep oracle fuel len pl s | .error f => s.fail f)
        (fun s => s.fail .fuel) f k) := by
  intro cnt
  induction cnt with
  | zero => intro f j k m R _ _ he; exact absurd R.me he
  | succ cnt ih =>
    intro f j k m R hj hf he
    have h6 : (mkParams T tpep len).eHalf = len / 2 := rfl
    have h3 := H.hmag
    obtain ⟨f', rfl⟩ : ∃ f', f = f' + 1 := ⟨f - 1, by omega⟩
    have hlive : EvenSt.live obs k = true := by simp [EvenSt.live, obs_ok, R.kf, R.kb]
    have hc : (match ec_eval_even_strategy_loop1_cond obs T tpep oracle fuel len pl k with | .ok b => b | .error _ => true) = true := by
      simp only [ec_eval_even_strategy_loop1_cond, R.eh, R.jj]
      rw [w64]
      simp; omega
    rw [whileF_step _ _ _ _ _ _ (by simp [hc, hlive])]
    have hbody : (match ec_eval_even_strategy_loop1_cond obs T tpep oracle fuel len pl k with
        | .ok _ => ec_eval_even_strategy_loop1_body obs T tpep oracle fuel len pl k | .error f => k.fail f) =
        ec_eval_even_strategy_loop1_body obs T tpep oracle fuel len pl k := by
      simp [ec_eval_even_strategy_loop1_cond]
    rw [hbody]
    simp only [forLoop] at he
    by_cases he1 : (isoStep (mkParams T tpep len) j (whileLoop (mkParams T tpep len) j m)).err = none
    · have R' := iter_sim T tpep len oracle fuel pl M H j (by omega) k m R he1
      exact ih f' (j + 1) _ _ R' (by omega) (by omega) he
    · have hd := iter_dead T tpep len oracle fuel pl M H htl hfu1 j (by omega) k m R he1
      rw [whileF_dead _ _ _ _ _ hd]
      exact hd
end Iter


/-! ### the complete routine -/

theorem finalSteps_err_iff (P : Params) (s : St) (he0 : s.err = none) :
    (finalSteps P s).err ≠ none ↔
      (if P.isOdd = 1 then ¬ (idxOK 1 P.vla = true ∧ (s.sp 0).isSome = true)
       else ¬ (idxOK s.current P.vla = true ∧ (s.sp s.current.toNat).isSome = true)) := by
  by_cases hodd : P.isOdd = 1
  · simp only [hodd, if_true]
    by_cases hidx : idxOK 1 P.vla = true
    · cases hv : s.sp 0 with
      | none => simp [finalSteps, he0, hodd, hidx, hv, upd, St.fail]
      | some v => simp [finalSteps, he0, hodd, hidx, hv, upd, St.emit]
    · simp [finalSteps, he0, hodd, hidx, St.fail]
  · simp only [hodd, if_false]
    by_cases hidx : idxOK s.current P.vla = true
    · cases hv : s.sp s.current.toNat with
      | none => simp [finalSteps, he0, hodd, hidx, hv, St.fail]
      | some v => simp [finalSteps, he0, hodd, hidx, hv, St.emit]
    · simp [finalSteps, he0, hodd, hidx, St.fail]

theorem ev_vla_bad (len : Nat) : (ev (OSt.init len) 1 [0]).bad = true := by
  simp [ev, OSt.init, OSt.fail]

section Top
variable (T : List (List Nat)) (tpep len : Nat) (oracle : Nat → Bool) (fuel : Nat) (pl : Int) (M : Nat)

local macro "ST[" lg:term "," tmp:term "," eh:term "," xd:term "," od:term "," o:term "]" : term =>
  `(({ log2_of_e := $lg, tmp := $tmp, e_half := $eh, strategy := 0, i := 0, j := 0, BLOCK := 0, current := 0, XDBLs := $xd, is_odd := $od, fault := none, obs := $o } : EvenSt OSt))


/-- **converse**: when the hand model faults, the run of the translated skeleton ends dead -/
theorem skel_dead (H : Hyp T tpep len M fuel) (htl : T.length + len ≤ 18446744073709551616) (hfu1 : 1 ≤ fuel)
    (he : (evalEven T tpep len).err ≠ none) :
    Dead (ec_eval_even_strategy obs T tpep oracle fuel len pl (EvenSt.init (OSt.init len))) := by
  have h6 : (mkParams T tpep len).eHalf = len / 2 := rfl
  have h7 : (mkParams T tpep len).isOdd = len % 2 := rfl
  have h8 : (mkParams T tpep len).vla = 2 * bitlen (len / 2 % 256) := rfl
  have hmag := H.hmag
  have hb8 := bitlen_le8 (len / 2 % 256) (by omega)
  by_cases hvla : (mkParams T tpep len).vla = 0
  · -- zero-size VLA
    unfold ec_eval_even_strategy
    rw [step_live _ (EvenSt.init (OSt.init len)) rfl rfl]
    dsimp only [EvenSt.init]
    have e1 : ((len : Int) / 2) % W64 = ((len / 2 : Nat) : Int) := by rw [w64]; omega
    rw [e1]
    rw [step_live _ ST[0, 0, ((len / 2 : Nat) : Int), IArr.new 0, 0, OSt.init len] rfl rfl]
    dsimp only
    have e2 : ((len / 2 : Nat) : Int) % 256 = ((len / 2 % 256 : Nat) : Int) := by omega
    rw [e2]
    rw [step_live _ ST[0, ((len / 2 % 256 : Nat) : Int), ((len / 2 : Nat) : Int), IArr.new 0, 0, OSt.init len] rfl rfl]
    dsimp only
    rw [step_live _ ST[0 % 256, ((len / 2 % 256 : Nat) : Int), ((len / 2 : Nat) : Int), IArr.new 0, 0, OSt.init len] rfl rfl]
    erw [loop0 T tpep len oracle fuel pl fuel (len / 2 % 256) 0 _ rfl rfl rfl rfl (by omega) (by have := H.hfuh; omega)]
    dsimp only
    rw [Nat.zero_add]
    rw [step_live _ ST[((bitlen (len / 2 % 256) : Nat) : Int), 0, ((len / 2 : Nat) : Int), IArr.new 0, 0, OSt.init len] rfl rfl]
    dsimp only
    have e5 : ((bitlen (len / 2 % 256) : Nat) : Int) * 2 % 256 = (((mkParams T tpep len).vla : Nat) : Int) := by
      rw [h8]; omega
    rw [e5]
    rw [hvla]
    rw [step_live _ ST[((0 : Nat) : Int), 0, ((len / 2 : Nat) : Int), IArr.new 0, 0, OSt.init len] rfl rfl]
    dsimp only [obs_ev, EvKind.vla]
    generalize hK : EvenSt.mk _ _ _ _ _ _ _ _ _ _ _ _ = K
    have hd : Dead K := by rw [← hK]; exact dead_of_bad _ (by simpa using ev_vla_bad len)
    have hs : ∀ f, EvenSt.step obs f K = K := fun f => step_dead f K hd
    simp only [hs]
    exact hd
  · have heh : len / 2 % 256 ≠ 0 := bitlen_pos _ (by omega)
    unfold evalEven evalP at he
    simp only [hvla, if_false] at he
    unfold ec_eval_even_strategy
    rw [step_live _ (EvenSt.init (OSt.init len)) rfl rfl]
    dsimp only [EvenSt.init]
    have e1 : ((len : Int) / 2) % W64 = ((len / 2 : Nat) : Int) := by rw [w64]; omega
    rw [e1]
    rw [step_live _ ST[0, 0, ((len / 2 : Nat) : Int), IArr.new 0, 0, OSt.init len] rfl rfl]
    dsimp only
    have e2 : ((len / 2 : Nat) : Int) % 256 = ((len / 2 % 256 : Nat) : Int) := by omega
    rw [e2]
    rw [step_live _ ST[0, ((len / 2 % 256 : Nat) : Int), ((len / 2 : Nat) : Int), IArr.new 0, 0, OSt.init len] rfl rfl]
    dsimp only
    rw [step_live _ ST[0 % 256, ((len / 2 % 256 : Nat) : Int), ((len / 2 : Nat) : Int), IArr.new 0, 0, OSt.init len] rfl rfl]
    erw [loop0 T tpep len oracle fuel pl fuel (len / 2 % 256) 0 _ rfl rfl rfl rfl (by omega) (by have := H.hfuh; omega)]
    dsimp only
    rw [Nat.zero_add]
    rw [step_live _ ST[((bitlen (len / 2 % 256) : Nat) : Int), 0, ((len / 2 : Nat) : Int), IArr.new 0, 0, OSt.init len] rfl rfl]
    dsimp only
    have e5 : ((bitlen (len / 2 % 256) : Nat) : Int) * 2 % 256 = (((mkParams T tpep len).vla : Nat) : Int) := by
      rw [h8]; omega
    have hv0 : (0 : Int) < (((mkParams T tpep len).vla : Nat) : Int) := by omega
    rw [e5]
    rw [step_live _ ST[(((mkParams T tpep len).vla : Nat) : Int), 0, ((len / 2 : Nat) : Int), IArr.new 0, 0, OSt.init len] rfl rfl]
    dsimp only [obs_ev, EvKind.vla]
    rw [ev_vla _ _ hv0]
    rw [step_live _ ST[(((mkParams T tpep len).vla : Nat) : Int), 0, ((len / 2 : Nat) : Int), IArr.new 0, 0, obsV (((mkParams T tpep len).vla : Nat) : Int) len] rfl rfl]
    dsimp only [obs_ev, EvKind.copyIn]
    rw [ev_copyIn _ _ hv0]
    rw [step_live _ ST[(((mkParams T tpep len).vla : Nat) : Int), 0, ((len / 2 : Nat) : Int), IArr.new 0, 0, obs0 (((mkParams T tpep len).vla : Nat) : Int) len] rfl rfl]
    dsimp only
    rw [step_live _ ST[(((mkParams T tpep len).vla : Nat) : Int), 0, ((len / 2 : Nat) : Int), IArr.new 0, 0, obs0 (((mkParams T tpep len).vla : Nat) : Int) len] rfl rfl]
    dsimp only
    rw [step_live _ ST[(((mkParams T tpep len).vla : Nat) : Int), 0, ((len / 2 : Nat) : Int), IArr.new 0, 0, obs0 (((mkParams T tpep len).vla : Nat) : Int) len] rfl rfl]
    dsimp only
    rw [step_live _ ST[(((mkParams T tpep len).vla : Nat) : Int), 0, ((len / 2 : Nat) : Int), IArr.new 0, 0, obs0 (((mkParams T tpep len).vla : Nat) : Int) len] rfl rfl]
    dsimp only
    rw [if_pos hv0]
    rw [step_live _ ST[(((mkParams T tpep len).vla : Nat) : Int), 0, ((len / 2 : Nat) : Int), IArr.new (((mkParams T tpep len).vla : Nat) : Int), 0, obs0 (((mkParams T tpep len).vla : Nat) : Int) len] rfl rfl]
    dsimp only
    have e12 : (len : Int) % 2 = ((len % 2 : Nat) : Int) := by omega
    rw [e12]
    rw [step_live _ ST[(((mkParams T tpep len).vla : Nat) : Int), 0, ((len / 2 : Nat) : Int), IArr.new (((mkParams T tpep len).vla : Nat) : Int), ((len % 2 : Nat) : Int), obs0 (((mkParams T tpep len).vla : Nat) : Int) len] rfl rfl]
    dsimp only
    rw [step_live _ ST[(((mkParams T tpep len).vla : Nat) : Int), 0, ((len / 2 : Nat) : Int), IArr.new (((mkParams T tpep len).vla : Nat) : Int), ((len % 2 : Nat) : Int), obs0 (((mkParams T tpep len).vla : Nat) : Int) len] rfl rfl]
    have R0 : Rel (mkParams T tpep len) M 0
        ST[(((mkParams T tpep len).vla : Nat) : Int), 0, ((len / 2 : Nat) : Int), IArr.new (((mkParams T tpep len).vla : Nat) : Int), ((len % 2 : Nat) : Int), obs0 (((mkParams T tpep len).vla : Nat) : Int) len]
        (initSt (mkParams T tpep len)) := by
      constructor
      · rfl
      · rfl
      · rfl
      · rfl
      · rfl
      · rfl
      · rfl
      · rfl
      · rfl
      · rfl
      · intro i; rfl
      · rfl
      · intro i
        simp only [obs0, initSt]
        have : ((i : Int) = 0) ↔ i = 0 := by omega
        simp only [this]; rfl
      · rfl
      · intro i v h; simp [initSt] at h
      · simp [initSt]
      · simp [initSt]
      · simp [initSt]
    by_cases hfl : (forLoop (mkParams T tpep len) ((mkParams T tpep len).eHalf - 1) 0 (initSt (mkParams T tpep len))).err = none
    · have R2 := for_sim T tpep len oracle fuel pl M H ((mkParams T tpep len).eHalf - 1) fuel 0 _ _ R0 (by omega)
        (by have := H.hfuh; omega) hfl
      generalize hk2 : whileF _ _ _ _ fuel _ = k2 at R2 ⊢
      generalize forLoop (mkParams T tpep len) ((mkParams T tpep len).eHalf - 1) 0 (initSt (mkParams T tpep len)) = m2 at R2 he hfl ⊢
      clear hk2 R0
      have hkf := R2.kf
      have hkb := R2.kb
      have hc := (finalSteps_err_iff _ m2 R2.me).1 he
      by_cases hodd : len % 2 = 0
      · have hio : (mkParams T tpep len).isOdd = 0 := by rw [h7]; exact hodd
        have hodk : k2.is_odd = 0 := by rw [R2.od, hio]; rfl
        simp only [hio] at hc
        have hbad6 : (ev k2.obs 6 [k2.current]).bad = true := by
          apply ev_one_bad _ 6 (by simp)
          intro h
          apply hc
          obtain ⟨h1, h2⟩ := h
          simp only [OSt.inb, R2.os, R2.cu, Bool.and_eq_true, decide_eq_true_eq] at h1
          have hcn : m2.current = ((m2.current.toNat : Nat) : Int) := by omega
          refine ⟨by simp [idxOK]; omega, ?_⟩
          rw [R2.cu, hcn, R2.og] at h2
          exact h2
        simp [Dead, EvenSt.step, EvenSt.live, obs, hkf, hkb, hodk, truthy, EvKind.isog4, hbad6]
      · have hio : (mkParams T tpep len).isOdd = 1 := by rw [h7]; omega
        have hodk : k2.is_odd = 1 := by rw [R2.od, hio]; rfl
        simp only [hio, if_true] at hc
        have hbadc : (ev k2.obs 2 [1, 0]).bad = true := by
          apply ev_copy_bad
          intro h
          apply hc
          obtain ⟨h1, _, h3⟩ := h
          simp only [OSt.inb, R2.os, Bool.and_eq_true, decide_eq_true_eq] at h1
          refine ⟨by simp [idxOK]; omega, ?_⟩
          have := R2.og 0
          simp only [Int.natCast_zero] at this
          rw [this] at h3
          exact h3
        simp [Dead, EvenSt.step, EvenSt.live, obs, hkf, hkb, hodk, truthy, EvKind.copy, hbadc]
    · have hd := for_dead T tpep len oracle fuel pl M H htl hfu1 ((mkParams T tpep len).eHalf - 1) fuel 0 _ _ R0 (by omega)
        (by have := H.hfuh; omega) hfl
      generalize hk2 : whileF _ _ _ _ fuel _ = k2 at hd ⊢
      have hs : ∀ f, EvenSt.step obs f k2 = k2 := fun f => step_dead f k2 hd
      simp only [hs]
      exact hd
end Top


/-- **fault status of the translated text = fault status of the hand model** (under the side conditions `Hyp`) -/
theorem skel_live_iff (T : List (List Nat)) (tpep len : Nat) (oracle : Nat → Bool) (fuel : Nat) (pl : Int) (M : Nat)
    (H : Hyp T tpep len M fuel) (htl : T.length + len ≤ 18446744073709551616) (hfu1 : 1 ≤ fuel) :
    let k := ec_eval_even_strategy obs T tpep oracle fuel len pl (EvenSt.init (OSt.init len))
    (k.fault = none ∧ k.obs.bad = false) ↔ (evalEven T tpep len).err = none := by
  intro k
  constructor
  · intro h
    by_cases he : (evalEven T tpep len).err = none
    · exact he
    · exfalso
      have hd := skel_dead T tpep len oracle fuel pl M H htl hfu1 he
      exact ((live_iff k).2 h) hd
  · intro he
    have F := skel_refines T tpep len oracle fuel pl M H he
    exact ⟨F.kf, F.kb⟩

end SqiProofs.SkelEvenConv

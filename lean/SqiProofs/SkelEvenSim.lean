/-
Simulation between the integer skeleton `SqiGen.ChainSkel.ec_eval_even_strategy` (re-extracted from the C text on
every run, executed by `SqiModel.Skel` with the order-tracking observer `SqiModel.SkelEven.obs`) and the hand model
`SqiModel.EvenChain` — for ALL inputs on which the hand model runs without fault (one lemma per loop).
-/
import SqiModel.SkelEven
import SqiProofs.EvenChain

namespace SqiProofs.SkelEvenSim
open SqiGen.ChainSkel SqiModel.Skel SqiModel.SkelEven SqiModel.EvenChain SqiProofs.EvenChain

theorem w64 : W64 = 18446744073709551616 := rfl

/-- the row the C reads is the row of the hand model -/
theorem rdTab_row (T : List (List Nat)) (tpep len c : Nat) (hle : len ≤ tpep) (htp : (tpep : Int) < W64)
    (hrow : tpep - len < T.length) (hc : c < (mkParams T tpep len).row.length) :
    rdTab T (((tpep : Int) - ((len : Int) % W64)) % W64) (c : Int) = .ok (((mkParams T tpep len).row.getD c 0 : Nat) : Int) := by
  have hidx : (((tpep : Int) - ((len : Int) % W64)) % W64) = ((tpep - len : Nat) : Int) := by rw [w64] at *; omega
  have hrw : (mkParams T tpep len).row = T.getD (tpep - len) [] := by
    have h0 : (0 : Int) ≤ (tpep : Int) - (len : Int) := by omega
    have h1 : ((tpep : Int) - (len : Int)).toNat = tpep - len := by omega
    simp [mkParams, h1]; intro hh; omega
  rw [hrw] at hc
  rw [hidx, hrw]
  have h2 : (0 : Int) ≤ ((tpep - len : Nat) : Int) ∧ ((tpep - len : Nat) : Int) < (T.length : Int) := by omega
  have h3 : (0 : Int) ≤ (c : Int) ∧ (c : Int) < ((T.getD (tpep - len) []).length : Int) := by omega
  simp [rdTab, h2, h3]
  simpa [List.getD] using hc


/-- state of the observer after some doublings of slot c -/
def obsDbl (o : OSt) (c : Int) (v : Nat) (lg : List (Nat × Int × Int)) : OSt :=
  { o with sp := fun x => if x = c then some v else o.sp x, log := lg }

@[simp] theorem obsDbl_bad (o : OSt) (c : Int) (v : Nat) (lg) : (obsDbl o c v lg).bad = o.bad := rfl
@[simp] theorem obsDbl_size (o : OSt) (c : Int) (v : Nat) (lg) : (obsDbl o c v lg).size = o.size := rfl
@[simp] theorem obsDbl_kers (o : OSt) (c : Int) (v : Nat) (lg) : (obsDbl o c v lg).kers = o.kers := rfl
@[simp] theorem obsDbl_kexp (o : OSt) (c : Int) (v : Nat) (lg) : (obsDbl o c v lg).kexp = o.kexp := rfl
@[simp] theorem obsDbl_log (o : OSt) (c : Int) (v : Nat) (lg) : (obsDbl o c v lg).log = lg := rfl
theorem obsDbl_sp (o : OSt) (c : Int) (v : Nat) (lg) (x : Int) : (obsDbl o c v lg).sp x = if x = c then some v else o.sp x := rfl

theorem ev_dbl (o : OSt) (c : Int) (v : Nat) (hb : o.bad = false) (h0 : 0 ≤ c) (h1 : c < o.size) (hv : o.sp c = some v) :
    ev o 4 [c, c] = obsDbl o c (v - 1) (o.log ++ [(4, c, c)]) := by
  have hin : o.inb c = true := by simp [OSt.inb, h0, h1]
  simp [ev, hb, hin, hv, obsDbl, OSt.put]

theorem obsDbl_obsDbl (o : OSt) (c : Int) (v w : Nat) (l1 l2) : obsDbl (obsDbl o c v l1) c w l2 = obsDbl o c w l2 := by
  simp only [obsDbl]
  congr 1
  funext x
  by_cases h : x = c <;> simp [h]

section Loop3
variable (T : List (List Nat)) (tpep len : Nat) (oracle : Nat → Bool) (fuel : Nat) (pl : Int)

/-- the inner `for (i …)` of doublings: `rem` more doublings of SPLITTING_POINTS[current] -/
theorem loop3 (b : Nat) : ∀ (rem f : Nat) (k : EvenSt OSt) (v : Nat), k.fault = none → k.obs.bad = false →
    rdTab T (((tpep : Int) - ((len : Int) % W64)) % W64) k.strategy = .ok (b : Int) →
    0 ≤ k.current → k.current < k.obs.size → k.obs.sp k.current = some v → k.i + rem = 2 * (b : Int) → rem ≤ f →
    ∃ lg, whileF (EvenSt.live obs)
      (fun s => match ec_eval_even_strategy_loop3_cond obs T tpep oracle fuel len pl s with | .ok b => b | .error _ => true)
      (fun s => match ec_eval_even_strategy_loop3_cond obs T tpep oracle fuel len pl s with
        | .ok _ => ec_eval_even_strategy_loop3_body obs T tpep oracle fuel len pl s | .error f => s.fail f)
      (fun s => s.fail .fuel) f k =
      { k with i := 2 * (b : Int), obs := obsDbl k.obs k.current (v - rem) lg } := by
  intro rem
  induction rem with
  | zero =>
    intro f k v hf hb hrd h0 h1 hv hi _
    refine ⟨k.obs.log, ?_⟩
    have hc : (match ec_eval_even_strategy_loop3_cond obs T tpep oracle fuel len pl k with | .ok b => b | .error _ => true) = false := by
      simp only [ec_eval_even_strategy_loop3_cond, hrd]
      simp; omega
    rw [whileF_stop _ _ _ _ _ _ (by simp [hc])]
    have hi' : k.i = 2 * (b : Int) := by omega
    cases k with
    | mk a1 a2 a3 a4 a5 a6 a7 a8 a9 a10 a11 o =>
      simp only at hi' hv ⊢
      subst hi'
      congr 1
      cases o with
      | mk s1 s2 s3 s4 s5 s6 =>
        simp only [obsDbl] at hv ⊢
        congr 1
        funext x
        by_cases hx : x = a8
        · subst hx; simp [hv]
        · simp [hx]
  | succ rem ih =>
    intro f k v hf hb hrd h0 h1 hv hi hle
    obtain ⟨f', rfl⟩ : ∃ f', f = f' + 1 := ⟨f - 1, by omega⟩
    have hlive : EvenSt.live obs k = true := by simp [EvenSt.live, obs, hf, hb]
    have hc : (match ec_eval_even_strategy_loop3_cond obs T tpep oracle fuel len pl k with | .ok b => b | .error _ => true) = true := by
      simp only [ec_eval_even_strategy_loop3_cond, hrd]
      simp; omega
    rw [whileF_step _ _ _ _ _ _ (by simp [hlive, hc])]
    have hbody : (match ec_eval_even_strategy_loop3_cond obs T tpep oracle fuel len pl k with
        | .ok _ => ec_eval_even_strategy_loop3_body obs T tpep oracle fuel len pl k | .error f => k.fail f) =
        { k with i := k.i + 1, obs := obsDbl k.obs k.current (v - 1) (k.obs.log ++ [(4, k.current, k.current)]) } := by
      simp only [ec_eval_even_strategy_loop3_cond, hrd]
      have hev := ev_dbl k.obs k.current v hb h0 h1 hv
      by_cases hj : k.j = 0
      · simp [ec_eval_even_strategy_loop3_body, EvenSt.step, hlive, hj, obs, EvKind.dbl, hev, EvenSt.live, hf, hb, obsDbl]
      · simp [ec_eval_even_strategy_loop3_body, EvenSt.step, hlive, hj, obs, EvKind.dbl, hev, EvenSt.live, hf, hb, obsDbl]
    rw [hbody]
    obtain ⟨lg, hres⟩ := ih f' { k with i := k.i + 1, obs := obsDbl k.obs k.current (v - 1) (k.obs.log ++ [(4, k.current, k.current)]) }
      (v - 1) hf (by simp [obsDbl, hb]) hrd h0 (by simpa [obsDbl] using h1) (by simp [obsDbl]) (by simp only []; omega) (by omega)
    refine ⟨lg, ?_⟩
    rw [hres]
    simp only [obsDbl_obsDbl]
    congr 2
    omega
end Loop3


theorem ev_copy (o : OSt) (d c : Int) (v : Nat) (hb : o.bad = false) (hd0 : 0 ≤ d) (hd1 : d < o.size)
    (hc0 : 0 ≤ c) (hc1 : c < o.size) (hv : o.sp c = some v) :
    ev o 2 [d, c] = obsDbl o d v (o.log ++ [(2, d, c)]) := by
  have h1 : o.inb d = true := by simp [OSt.inb, hd0, hd1]
  have h2 : o.inb c = true := by simp [OSt.inb, hc0, hc1]
  simp [ev, hb, h1, h2, hv, obsDbl, OSt.put]

theorem obs_ev (o : OSt) (kd : Nat) (a : List Int) : obs.ev o kd a = ev o kd a := rfl

theorem step_live (f : EvenSt OSt → EvenSt OSt) (k : EvenSt OSt) (hf : k.fault = none) (hb : k.obs.bad = false) :
    EvenSt.step obs f k = f k := by
  simp [EvenSt.step, EvenSt.live, obs, hf, hb]

section Body2
variable (T : List (List Nat)) (tpep len : Nat) (oracle : Nat → Bool) (fuel : Nat) (pl : Int)

/-- one iteration of the inner `while`, on the skeleton side, in closed form -/
theorem body2 (k : EvenSt OSt) (c o b odd : Nat) (hf : k.fault = none) (hb : k.obs.bad = false)
    (hcur : k.current = (c : Int)) (hsz : (c : Int) + 1 < k.obs.size) (hsp : k.obs.sp (c : Int) = some o)
    (hodd : k.is_odd = (odd : Int))
    (hrd : rdTab T (((tpep : Int) - ((len : Int) % W64)) % W64) k.strategy = .ok (b : Int))
    (hxs : k.XDBLs.size = k.obs.size) (hfu : 2 * b ≤ fuel) :
    ∃ lg, ec_eval_even_strategy_loop2_body obs T tpep oracle fuel len pl k =
      { k with current := (c : Int) + 1, i := 2 * (b : Int), XDBLs := k.XDBLs.set ((c : Int) + 1) (b : Int),
               BLOCK := k.BLOCK + (b : Int), strategy := k.strategy + 1,
               obs := obsDbl k.obs ((c : Int) + 1) (o - (if odd ≠ 0 ∧ c = 0 then 1 else 0) - 2 * b) lg } := by
  have e2 := ev_copy k.obs ((c : Int) + 1) (c : Int) o hb (by omega) hsz (by omega) (by omega) hsp
  -- state after the copy and the optional extra doubling
  let extra : Nat := if odd ≠ 0 ∧ c = 0 then 1 else 0
  have h3 : ∃ lg3, (EvenSt.step obs (fun s => (if ((truthy s.is_odd) && (decide (s.current = (1 : Int)))) then (fun s =>
      let s := EvenSt.step obs (fun s => (if (decide (s.j = (0 : Int))) then (fun s =>
      let s := EvenSt.step obs (fun s => { s with obs := obs.ev s.obs EvKind.dbl [s.current, s.current] }) s
      s) s else (fun s =>
      let s := EvenSt.step obs (fun s => { s with obs := obs.ev s.obs EvKind.dbl [s.current, s.current] }) s
      s) s)) s
      s) s else (fun s => s) s))
      { k with current := (c : Int) + 1, obs := obsDbl k.obs ((c : Int) + 1) o (k.obs.log ++ [(2, (c : Int) + 1, (c : Int))]) }) =
      { k with current := (c : Int) + 1, obs := obsDbl k.obs ((c : Int) + 1) (o - extra) lg3 } := by
    by_cases hx : odd ≠ 0 ∧ c = 0
    · obtain ⟨ho, rfl⟩ := hx
      have hev : ev (obsDbl k.obs 1 o (k.obs.log ++ [(2, 1, 0)])) 4 [1, 1] =
          obsDbl (obsDbl k.obs 1 o (k.obs.log ++ [(2, 1, 0)])) 1 (o - 1) ((k.obs.log ++ [(2, 1, 0)]) ++ [(4, 1, 1)]) :=
        ev_dbl _ 1 o (by simp [hb]) (by omega) (by simpa using hsz) (by simp [obsDbl_sp])
      refine ⟨(k.obs.log ++ [(2, 1, 0)]) ++ [(4, 1, 1)], ?_⟩
      rw [step_live _ _ (by simp [hf]) (by simp [hb])]
      have ht : truthy (odd : Int) = true := by simp [truthy]; omega
      by_cases hj : k.j = 0
      · simp [hodd, ht, hj, EvenSt.step, EvenSt.live, hf, hb, obs, EvKind.dbl, hev, obsDbl_obsDbl, extra, ho]
      · simp [hodd, ht, hj, EvenSt.step, EvenSt.live, hf, hb, obs, EvKind.dbl, hev, obsDbl_obsDbl, extra, ho]
    · refine ⟨k.obs.log ++ [(2, (c : Int) + 1, (c : Int))], ?_⟩
      rw [step_live _ _ (by simp [hf]) (by simp [hb])]
      have ht : (truthy (odd : Int) && decide ((c : Int) + 1 = 1)) = false := by
        simp [truthy]; omega
      simp [hodd, ht, extra, hx]
  obtain ⟨lg3, h3⟩ := h3
  obtain ⟨lg, h5⟩ := loop3 T tpep len oracle fuel pl b (2 * b) fuel
    { k with current := (c : Int) + 1, i := 0, obs := obsDbl k.obs ((c : Int) + 1) (o - extra) lg3 } (o - extra)
    hf (by simp [obsDbl, hb]) hrd (by simp only []; omega) (by simpa [obsDbl] using hsz) (by simp [obsDbl])
    (by simp only []; omega) hfu
  refine ⟨lg, ?_⟩
  unfold ec_eval_even_strategy_loop2_body
  rw [step_live _ k hf hb]
  dsimp only
  rw [hcur]
  rw [step_live _ { k with current := (c : Int) + 1 } hf hb]
  dsimp only [obs_ev, EvKind.copy]
  dsimp only [obs_ev] at h3
  rw [Int.add_sub_cancel, e2, h3]
  rw [step_live _ { k with current := (c : Int) + 1, obs := obsDbl k.obs ((c : Int) + 1) (o - extra) lg3 } hf (by simp [hb])]
  dsimp only
  rw [step_live _ { k with current := (c : Int) + 1, i := 0, obs := obsDbl k.obs ((c : Int) + 1) (o - extra) lg3 } hf (by simp [hb])]
  erw [h5]
  dsimp only
  rw [obsDbl_obsDbl]
  have hin : k.XDBLs.inb ((c : Int) + 1) = true := by simp [IArr.inb, hxs]; omega
  generalize (((tpep : Int) - ((len : Int) % W64)) % W64) = r at hrd ⊢
  simp [EvenSt.step, EvenSt.live, obs, hf, hb, hrd, hin, extra]
end Body2


/-! ### the simulation relation -/

/-- side conditions under which the C's unsigned 64-bit arithmetic coincides with integer arithmetic and the
    interpreter's fuel suffices: `M` bounds the entries of the table row. -/
structure Hyp (T : List (List Nat)) (tpep len M fuel : Nat) : Prop where
  hle : len ≤ tpep
  htp : (tpep : Int) < W64
  hrow : tpep - len < T.length
  hM : ∀ x ∈ (mkParams T tpep len).row, x ≤ M
  hfu2 : 2 * M ≤ fuel
  hfur : (mkParams T tpep len).row.length ≤ fuel
  hfuh : len ≤ fuel
  hmag : (mkParams T tpep len).row.length * M + len * M + len + 1 < 18446744073709551616

/-- invariant between the integer state `k` of the generated skeleton (with the order-tracking observer) and the state
    `m` of the hand model, in iteration `j` of the main loop -/
structure Rel (P : Params) (M j : Nat) (k : EvenSt OSt) (m : St) : Prop where
  kf : k.fault = none
  kb : k.obs.bad = false
  me : m.err = none
  st : k.strategy = (m.strategy : Int)
  bl : k.BLOCK = m.block
  cu : k.current = m.current
  jj : k.j = (j : Int)
  eh : k.e_half = (P.eHalf : Int)
  od : k.is_odd = (P.isOdd : Int)
  xs : k.XDBLs.size = (P.vla : Int)
  xg : ∀ i : Nat, k.XDBLs.get (i : Int) = (m.xdbls i).map Int.ofNat
  os : k.obs.size = (P.vla : Int)
  og : ∀ i : Nat, k.obs.sp (i : Int) = m.sp i
  ke : k.obs.kers = m.trace.flatMap kerOf
  xm : ∀ i v, m.xdbls i = some v → v ≤ M
  lo : -((j * M : Nat) : Int) ≤ m.block
  hi : m.block ≤ ((m.strategy * M : Nat) : Int)
  sl : m.strategy ≤ P.row.length

theorem pushBody_noerr (P : Params) (s : St) (b : Nat) (he : (pushBody P s b).err = none) :
    ∃ c o : Nat, s.current = (c : Int) ∧ c + 1 < P.vla ∧ s.sp c = some o := by
  unfold pushBody at he
  simp only [Int.add_sub_cancel, Bool.and_eq_true] at he
  split at he
  · rename_i h
    have h' := h
    simp [idxOK] at h'
    refine ⟨s.current.toNat, ?_⟩
    cases ho : s.sp s.current.toNat with
    | none => simp [St.emit, St.fail, ho] at he
    | some o => exact ⟨o, by omega, by omega, rfl⟩
  · simp [St.emit, St.fail] at he

section Push
variable (T : List (List Nat)) (tpep len : Nat) (oracle : Nat → Bool) (fuel : Nat) (pl : Int) (M : Nat)

theorem isOdd_le (P : Params) : P.isOdd ≤ 1 := by unfold Params.isOdd; omega

/-- S1: one iteration of the inner `while` -/
theorem push_sim (H : Hyp T tpep len M fuel) (j : Nat) (k : EvenSt OSt) (m : St)
    (R : Rel (mkParams T tpep len) M j k m) (hs : m.strategy < (mkParams T tpep len).row.length)
    (he : (pushBody (mkParams T tpep len) m (mkParams T tpep len).row[m.strategy]).err = none) :
    Rel (mkParams T tpep len) M j (ec_eval_even_strategy_loop2_body obs T tpep oracle fuel len pl k)
      { pushBody (mkParams T tpep len) m (mkParams T tpep len).row[m.strategy] with strategy := m.strategy + 1 } := by
  obtain ⟨c, o, hc, hv, ho⟩ := pushBody_noerr _ m _ he
  have hbM : (mkParams T tpep len).row[m.strategy] ≤ M := H.hM _ (List.getElem_mem hs)
  have hrd := rdTab_row T tpep len m.strategy H.hle H.htp H.hrow hs
  have hg : (mkParams T tpep len).row.getD m.strategy 0 = (mkParams T tpep len).row[m.strategy] := by
    simp [List.getD, List.getElem?_eq_getElem hs]
  rw [← R.st, hg] at hrd
  obtain ⟨lg, hk⟩ := body2 T tpep len oracle fuel pl k c o (mkParams T tpep len).row[m.strategy] (mkParams T tpep len).isOdd
    R.kf R.kb (by rw [R.cu, hc]) (by rw [R.os]; omega) (by rw [R.og, ho]) R.od hrd (by rw [R.xs, R.os])
    (by have := H.hfu2; omega)
  rw [hk, pushBody_ok _ m c _ o R.me hc hv ho]
  have hodd := isOdd_le (mkParams T tpep len)
  constructor
  · exact R.kf
  · simp [R.kb]
  · rfl
  · simp [pushed, R.st]
  · simp [pushed, R.bl]
  · simp [pushed]
  · exact R.jj
  · exact R.eh
  · exact R.od
  · simp [IArr.set, R.xs]
  · intro i
    simp only [IArr.set, pushed, upd]
    by_cases hi : i = c + 1
    · subst hi; simp
    · have : ¬ (i : Int) = (c : Int) + 1 := by omega
      simp [hi, this, R.xg]
  · simp [R.os]
  · intro i
    simp only [obsDbl_sp, pushed, upd]
    by_cases hi : i = c + 1
    · subst hi
      have : (mkParams T tpep len).isOdd ≠ 0 ↔ (mkParams T tpep len).isOdd = 1 := by omega
      simp [this]
    · have : ¬ (i : Int) = (c : Int) + 1 := by omega
      simp [hi, this, R.og]
  · simp [pushed, R.ke, kerOf]
  · intro i v
    simp only [pushed, upd]
    by_cases hi : i = c + 1
    · simp [hi]; intro h; omega
    · simp [hi]; exact R.xm i v
  · have := R.lo; simp only [pushed]; omega
  · have := R.hi
    simp only [pushed]
    have e : (m.strategy + 1) * M = m.strategy * M + M := by rw [Nat.add_mul]; simp
    rw [e]; push_cast at this ⊢; omega
  · simp only [pushed]; omega
end Push


section While
variable (T : List (List Nat)) (tpep len : Nat) (oracle : Nat → Bool) (fuel : Nat) (pl : Int) (M : Nat)

theorem cond2_iff (H : Hyp T tpep len M fuel) (j : Nat) (k : EvenSt OSt) (m : St)
    (R : Rel (mkParams T tpep len) M j k m) (hj : j < (mkParams T tpep len).eHalf) :
    (match ec_eval_even_strategy_loop2_cond obs T tpep oracle fuel len pl k with | .ok b => b | .error _ => true) =
      decide (m.block ≠ ((mkParams T tpep len).eHalf : Int) - 1 - (j : Int)) := by
  simp only [ec_eval_even_strategy_loop2_cond, R.bl, R.eh, R.jj]
  have h1 := R.lo
  have h2 := R.hi
  have h3 := H.hmag
  have h4 : j * M ≤ len * M := Nat.mul_le_mul_right M (by
    have : (mkParams T tpep len).eHalf = len / 2 := rfl
    omega)
  have h5 : m.strategy * M ≤ (mkParams T tpep len).row.length * M := Nat.mul_le_mul_right M R.sl
  have h6 : (mkParams T tpep len).eHalf = len / 2 := rfl
  rw [w64]
  congr 1
  apply propext
  constructor <;> intro h <;> omega

/-- S2: the inner `while` -/
theorem while_sim (H : Hyp T tpep len M fuel) (j : Nat) (hj : j < (mkParams T tpep len).eHalf) :
    ∀ (n f : Nat) (k : EvenSt OSt) (m : St), Rel (mkParams T tpep len) M j k m →
      (mkParams T tpep len).row.length - m.strategy ≤ n → n ≤ f →
      (whileLoop (mkParams T tpep len) j m).err = none →
      Rel (mkParams T tpep len) M j
        (whileF (EvenSt.live obs)
          (fun s => match ec_eval_even_strategy_loop2_cond obs T tpep oracle fuel len pl s with | .ok b => b | .error _ => true)
          (fun s => match ec_eval_even_strategy_loop2_cond obs T tpep oracle fuel len pl s with
            | .ok _ => ec_eval_even_strategy_loop2_body obs T tpep oracle fuel len pl s | .error f => s.fail f)
          (fun s => s.fail .fuel) f k)
        (whileLoop (mkParams T tpep len) j m) := by
  intro n
  induction n with
  | zero =>
    intro f k m R hn hf he
    have hc := cond2_iff T tpep len oracle fuel pl M H j k m R hj
    by_cases hb : m.block = ((mkParams T tpep len).eHalf : Int) - 1 - (j : Int)
    · rw [whileLoop_exit _ j m R.me hb]
      rw [whileF_stop _ _ _ _ _ _ (by simp only [hc]; simp [hb])]
      exact R
    · exfalso
      rw [whileLoop] at he
      have : ¬ m.strategy < (mkParams T tpep len).row.length := by omega
      simp [R.me, hb, this, St.fail] at he
  | succ n ih =>
    intro f k m R hn hf he
    have hc := cond2_iff T tpep len oracle fuel pl M H j k m R hj
    by_cases hb : m.block = ((mkParams T tpep len).eHalf : Int) - 1 - (j : Int)
    · rw [whileLoop_exit _ j m R.me hb]
      rw [whileF_stop _ _ _ _ _ _ (by simp only [hc]; simp [hb])]
      exact R
    · by_cases hs : m.strategy < (mkParams T tpep len).row.length
      · obtain ⟨f', rfl⟩ : ∃ f', f = f' + 1 := ⟨f - 1, by omega⟩
        have hlive : EvenSt.live obs k = true := by simp [EvenSt.live, obs, R.kf, R.kb]
        rw [whileF_step _ _ _ _ _ _ (by simp only [hc, hlive]; simp [hb])]
        rw [whileLoop_push _ j m R.me hb hs] at he ⊢
        have hpe : (pushBody (mkParams T tpep len) m (mkParams T tpep len).row[m.strategy]).err = none := by
          cases hq : (pushBody (mkParams T tpep len) m (mkParams T tpep len).row[m.strategy]).err with
          | none => rfl
          | some e =>
            rw [whileLoop_err _ j _ (by simp [hq])] at he
            simp [hq] at he
        have R' := push_sim T tpep len oracle fuel pl M H j k m R hs hpe
        have hbody : (match ec_eval_even_strategy_loop2_cond obs T tpep oracle fuel len pl k with
            | .ok _ => ec_eval_even_strategy_loop2_body obs T tpep oracle fuel len pl k | .error f => k.fail f) =
            ec_eval_even_strategy_loop2_body obs T tpep oracle fuel len pl k := by
          simp [ec_eval_even_strategy_loop2_cond]
        rw [hbody]
        exact ih f' _ _ R' (by simp only []; omega) (by omega) he
      · exfalso
        rw [whileLoop] at he
        simp [R.me, hb, hs, St.fail] at he
end While


/-! ### the isogeny part of an iteration of the main loop -/

theorem ev_read_s (o : OSt) (a : Int) (hb : o.bad = false) (hin : o.inb a = true)
    (hs : (o.sp a).isSome = true) : ev o 5 [a] = { o with log := o.log ++ [(5, a, 0)] } := by
  cases h : o.sp a with
  | none => simp [h] at hs
  | some v => simp [ev, hb, hin, h]

theorem ev_isog4_s (o : OSt) (a : Int) (hb : o.bad = false) (hin : o.inb a = true)
    (hs : (o.sp a).isSome = true) :
    ev o 6 [a] = { o with log := o.log ++ [(6, a, 0)], kers := o.kers ++ [(6, (o.sp a).getD 0)] } := by
  cases h : o.sp a with
  | none => simp [h] at hs
  | some v => simp [ev, hb, hin, h]

theorem ev_isog2_s (o : OSt) (a : Int) (hb : o.bad = false) (hin : o.inb a = true)
    (hs : (o.sp a).isSome = true) :
    ev o 8 [a] = { o with log := o.log ++ [(8, a, 0)], kers := o.kers ++ [(8, (o.sp a).getD 0)] } := by
  cases h : o.sp a with
  | none => simp [h] at hs
  | some v => simp [ev, hb, hin, h]

theorem ev_eval4_s (o : OSt) (n : Int) (hb : o.bad = false) (h : 0 ≤ n ∧ n ≤ o.size) :
    ev o 7 [n] = { o with sp := fun k => if 0 ≤ k ∧ k < n then (o.sp k).map (· - 2) else o.sp k,
                          log := o.log ++ [(7, n, 0)] } := by
  simp [ev, hb, h]

theorem ev_dbl_s (o : OSt) (c : Int) (hb : o.bad = false) (hin : o.inb c = true)
    (hs : (o.sp c).isSome = true) :
    ev o 4 [c, c] = obsDbl o c ((o.sp c).getD 0 - 1) (o.log ++ [(4, c, c)]) := by
  cases h : o.sp c with
  | none => simp [h] at hs
  | some v =>
    simp [OSt.inb] at hin
    simpa using ev_dbl o c v hb hin.1 hin.2 h

/-- observer state after the 4-isogeny with kernel slot `c` (exponent `kk`) and its evaluation on the slots below -/
def isoObs (o : OSt) (c : Int) (kk : Nat) (lg : List (Nat × Int × Int)) : OSt :=
  { o with sp := fun x => if 0 ≤ x ∧ x < c then (o.sp x).map (· - 2) else if x = c then some kk else o.sp x,
           log := lg, kers := o.kers ++ [(6, kk)] }

section Body1
variable (T : List (List Nat)) (tpep len : Nat) (oracle : Nat → Bool) (fuel : Nat) (pl : Int)

theorem body1 (k k1 : EvenSt OSt) (hf : k.fault = none) (hb : k.obs.bad = false)
    (hk1 : whileF (EvenSt.live obs)
          (fun s => match ec_eval_even_strategy_loop2_cond obs T tpep oracle fuel len pl s with | .ok b => b | .error _ => true)
          (fun s => match ec_eval_even_strategy_loop2_cond obs T tpep oracle fuel len pl s with
            | .ok _ => ec_eval_even_strategy_loop2_body obs T tpep oracle fuel len pl s | .error f => s.fail f)
          (fun s => s.fail .fuel) fuel k = k1)
    (c v d odd jn : Nat) (h1f : k1.fault = none) (h1b : k1.obs.bad = false) (hcur : k1.current = (c : Int))
    (hsz : (c : Int) < k1.obs.size) (hsp : k1.obs.sp (c : Int) = some v) (hodd : k1.is_odd = (odd : Int))
    (hxs : k1.XDBLs.size = k1.obs.size) (hxg : k1.XDBLs.get (c : Int) = some (d : Int)) (hjj : k1.j = (jn : Int)) :
    ∃ lg, ec_eval_even_strategy_loop1_body obs T tpep oracle fuel len pl k =
      { k1 with BLOCK := k1.BLOCK - (d : Int), XDBLs := k1.XDBLs.set (c : Int) 0, current := (c : Int) - 1,
                j := (jn : Int) + 1,
                obs := isoObs k1.obs (c : Int) (v - (if jn ≠ 0 ∧ odd ≠ 0 ∧ c = 0 then 1 else 0)) lg } := by
  refine ⟨(ec_eval_even_strategy_loop1_body obs T tpep oracle fuel len pl k).obs.log, ?_⟩
  unfold ec_eval_even_strategy_loop1_body
  rw [step_live _ k hf hb]
  erw [hk1]
  have hin : k1.XDBLs.inb (c : Int) = true := by simp [IArr.inb, hxs]; omega
  have h0 : (0 : Int) ≤ (c : Int) := by omega
  have hle : (c : Int) ≤ k1.obs.size := Int.le_of_lt hsz
  have hfix : (fun k => if 0 ≤ k ∧ k < (c : Int) then Option.map (fun x => x - 2) (k1.obs.sp k) else k1.obs.sp k) = fun x =>
      if 0 ≤ x ∧ x < (c : Int) then Option.map (fun x => x - 2) (k1.obs.sp x) else if x = (c : Int) then some v else k1.obs.sp x := by
    funext x
    by_cases hx : x = (c : Int)
    · subst hx; simp [hsp]
    · simp [hx]
  by_cases hj : jn = 0
  · subst hj
    by_cases ho : oracle 0 = true
    · by_cases hp : pl = 0
      · simp [EvenSt.step, EvenSt.live, obs, h1f, h1b, hcur, hjj, hodd, hin, rdArr, hxg, EvKind.read, EvKind.isog4, EvKind.eval4,
          EvKind.dbl, ev_read_s, ev_isog4_s, ev_eval4_s, ev_dbl_s, hsp, hsz, hle, h0, isoObs, obsDbl_sp, truthy, OSt.inb, ho, hp]
        exact hfix
      · simp [EvenSt.step, EvenSt.live, obs, h1f, h1b, hcur, hjj, hodd, hin, rdArr, hxg, EvKind.read, EvKind.isog4, EvKind.eval4,
          EvKind.dbl, ev_read_s, ev_isog4_s, ev_eval4_s, ev_dbl_s, hsp, hsz, hle, h0, isoObs, obsDbl_sp, truthy, OSt.inb, ho, hp]
        exact hfix
    · simp [EvenSt.step, EvenSt.live, obs, h1f, h1b, hcur, hjj, hodd, hin, rdArr, hxg, EvKind.read, EvKind.isog4, EvKind.eval4,
          EvKind.dbl, ev_read_s, ev_isog4_s, ev_eval4_s, ev_dbl_s, hsp, hsz, hle, h0, isoObs, obsDbl_sp, truthy, OSt.inb, ho]
      exact hfix
  · have hj' : ¬ (jn : Int) = 0 := by omega
    by_cases hx : odd ≠ 0 ∧ c = 0
    · obtain ⟨hx1, rfl⟩ := hx
      have : ¬ (odd : Int) = 0 := by omega
      have hsp0 : k1.obs.sp 0 = some v := by simpa using hsp
      have hsz0 : 0 < k1.obs.size := by simpa using hsz
      have hle0 : 0 ≤ k1.obs.size := by omega
      have hcur0 : k1.current = 0 := by simpa using hcur
      have hin0 : k1.XDBLs.inb 0 = true := by simpa using hin
      have hxg0 : k1.XDBLs.get 0 = some (d : Int) := by simpa using hxg
      simp only [Int.natCast_zero] at hfix ⊢
      simp [EvenSt.step, EvenSt.live, obs, h1f, h1b, hcur, hjj, hodd, hin, rdArr, hxg, EvKind.read, EvKind.isog4, EvKind.eval4,
          EvKind.dbl, ev_read_s, ev_isog4_s, ev_eval4_s, ev_dbl_s, hsp, hsz, hle, h0, isoObs, obsDbl_sp, truthy, OSt.inb, hj, hj', hx1, this, hsp0, hsz0, hcur0, hin0, hxg0, hle0]
      funext x
      have : ¬ (0 ≤ x ∧ x < 0) := by omega
      simp [this]
    · have hx' : ((odd : Int) = 0) ∨ ¬ (c : Int) = 0 := by omega
      simp [EvenSt.step, EvenSt.live, obs, h1f, h1b, hcur, hjj, hodd, hin, rdArr, hxg, EvKind.read, EvKind.isog4, EvKind.eval4,
          EvKind.dbl, ev_read_s, ev_isog4_s, ev_eval4_s, ev_dbl_s, hsp, hsz, hle, h0, isoObs, obsDbl_sp, truthy, OSt.inb, hj, hj', hx, hx']
      exact hfix
end Body1


/-- hand-model state after the isogeny part of iteration `j` (kernel slot `c` of exponent `v`, `XDBLs[c] = d`) -/
def isoed (P : Params) (m : St) (j c v d : Nat) : St :=
  { strategy := m.strategy, block := m.block - d, current := (c : Int) - 1, xdbls := upd m.xdbls c (some 0),
    sp := fun i => if i < c then (m.sp i).map (· - 2)
                   else if i = c then some (v - (if j ≠ 0 ∧ P.isOdd = 1 ∧ c = 0 then 1 else 0)) else m.sp i,
    err := none,
    trace := m.trace ++ [.iso4 j c m.block (v - (if j ≠ 0 ∧ P.isOdd = 1 ∧ c = 0 then 1 else 0)),
                         .pop ((c : Int) - 1) (m.block - d)] }

theorem isoStep_noerr (P : Params) (j : Nat) (m : St) (he0 : m.err = none) (he : (isoStep P j m).err = none) :
    ∃ c v d : Nat, m.current = (c : Int) ∧ c < P.vla ∧ m.sp c = some v ∧ m.xdbls c = some d ∧
      isoStep P j m = isoed P m j c v d := by
  by_cases hidx : idxOK m.current P.vla = true
  · have hidx' := hidx
    simp [idxOK] at hidx'
    obtain ⟨c, hc⟩ : ∃ c : Nat, m.current = (c : Int) := ⟨m.current.toNat, by omega⟩
    have hidxc : idxOK (c : Int) P.vla = true := by rw [← hc]; exact hidx
    by_cases hx : j ≠ 0 ∧ P.isOdd = 1 ∧ c = 0
    · obtain ⟨h1, h2, rfl⟩ := hx
      have hidx0 : idxOK 0 P.vla = true := by simpa using hidxc
      have hc0 : m.current = 0 := by simpa using hc
      cases hv : m.sp 0 with
      | none => simp [isoStep, he0, hc0, hidx0, h1, h2, hv, upd, St.fail] at he
      | some v =>
        cases hd : m.xdbls 0 with
        | none => simp [isoStep, he0, hc0, hidx0, h1, h2, hv, hd, upd, St.fail, St.emit] at he
        | some d =>
          refine ⟨0, v, d, hc, by simp [idxOK] at hidx0; omega, hv, hd, ?_⟩
          simp [isoStep, isoed, he0, hc0, hidx0, h1, h2, hv, hd, upd, St.emit]
    · cases hv : m.sp c with
      | none => simp [isoStep, he0, hc, hidxc, hx, hv, St.fail] at he
      | some v =>
        cases hd : m.xdbls c with
        | none => simp [isoStep, he0, hc, hidxc, hx, hv, hd, St.fail, St.emit] at he
        | some d =>
          refine ⟨c, v, d, hc, by omega, hv, hd, ?_⟩
          simp [isoStep, isoed, he0, hc, hidxc, hx, hv, hd, St.emit]
          funext i
          by_cases hi : i = c
          · subst hi; simp [hv]
          · simp [hi]
  · simp [isoStep, he0, hidx, St.fail] at he


section Iter
variable (T : List (List Nat)) (tpep len : Nat) (oracle : Nat → Bool) (fuel : Nat) (pl : Int) (M : Nat)

/-- S3: one iteration of the main loop -/
theorem iter_sim (H : Hyp T tpep len M fuel) (j : Nat) (hj : j < (mkParams T tpep len).eHalf) (k : EvenSt OSt) (m : St)
    (R : Rel (mkParams T tpep len) M j k m)
    (he : (isoStep (mkParams T tpep len) j (whileLoop (mkParams T tpep len) j m)).err = none) :
    Rel (mkParams T tpep len) M (j + 1) (ec_eval_even_strategy_loop1_body obs T tpep oracle fuel len pl k)
      (isoStep (mkParams T tpep len) j (whileLoop (mkParams T tpep len) j m)) := by
  have hw : (whileLoop (mkParams T tpep len) j m).err = none := by
    cases hq : (whileLoop (mkParams T tpep len) j m).err with
    | none => rfl
    | some e =>
      rw [isoStep_err _ j _ (by simp [hq])] at he
      simp [hq] at he
  have R1 := while_sim T tpep len oracle fuel pl M H j hj ((mkParams T tpep len).row.length - m.strategy) fuel k m R
    (Nat.le_refl _) (by have := H.hfur; omega) hw
  obtain ⟨c, v, d, hc, hcv, hv, hd, hiso⟩ := isoStep_noerr _ j _ R1.me he
  obtain ⟨lg, hk⟩ := body1 T tpep len oracle fuel pl k _ R.kf R.kb rfl c v d (mkParams T tpep len).isOdd j R1.kf R1.kb
    (by rw [R1.cu, hc]) (by rw [R1.os]; omega) (by rw [R1.og, hv]) R1.od (by rw [R1.xs, R1.os])
    (by rw [R1.xg, hd]; rfl) R1.jj
  rw [hk, hiso]
  have hodd := isOdd_le (mkParams T tpep len)
  have hdM : d ≤ M := R1.xm c d hd
  constructor
  · exact R1.kf
  · simp [isoObs, R1.kb]
  · rfl
  · simp [isoed, R1.st]
  · simp [isoed, R1.bl]
  · simp [isoed]
  · simp
  · exact R1.eh
  · exact R1.od
  · simp [IArr.set, R1.xs]
  · intro i
    simp only [IArr.set, isoed, upd]
    by_cases hi : i = c
    · subst hi; simp
    · have : ¬ (i : Int) = (c : Int) := by omega
      simp [hi, this, R1.xg]
  · simp [isoObs, R1.os]
  · intro i
    simp only [isoObs, isoed]
    have h1 : (0 ≤ (i : Int) ∧ (i : Int) < (c : Int)) ↔ i < c := by omega
    have h2 : ((i : Int) = (c : Int)) ↔ i = c := by omega
    have h3 : (mkParams T tpep len).isOdd ≠ 0 ↔ (mkParams T tpep len).isOdd = 1 := by omega
    simp only [h1, h2, h3, R1.og]
  · have h3 : (mkParams T tpep len).isOdd ≠ 0 ↔ (mkParams T tpep len).isOdd = 1 := by omega
    simp [isoObs, isoed, R1.ke, kerOf, h3]
  · intro i w
    simp only [isoed, upd]
    by_cases hi : i = c
    · simp [hi]; intro h; omega
    · simp [hi]; exact R1.xm i w
  · have := R1.lo
    simp only [isoed]
    have e : (j + 1) * M = j * M + M := by rw [Nat.add_mul]; simp
    rw [e]; push_cast at this ⊢; omega
  · have := R1.hi; simp only [isoed]; omega
  · exact R1.sl
end Iter


section For
variable (T : List (List Nat)) (tpep len : Nat) (oracle : Nat → Bool) (fuel : Nat) (pl : Int) (M : Nat)

/-- S4: the main loop -/
theorem for_sim (H : Hyp T tpep len M fuel) : ∀ (cnt f j : Nat) (k : EvenSt OSt) (m : St),
    Rel (mkParams T tpep len) M j k m → j + cnt + 1 = (mkParams T tpep len).eHalf → cnt ≤ f →
    (forLoop (mkParams T tpep len) cnt j m).err = none →
    Rel (mkParams T tpep len) M (j + cnt)
      (whileF (EvenSt.live obs)
        (fun s => match ec_eval_even_strategy_loop1_cond obs T tpep oracle fuel len pl s with | .ok b => b | .error _ => true)
        (fun s => match ec_eval_even_strategy_loop1_cond obs T tpep oracle fuel len pl s with
          | .ok _ => ec_eval_even_strategy_loop1_body obs T tpep oracle fuel len pl s | .error f => s.fail f)
        (fun s => s.fail .fuel) f k)
      (forLoop (mkParams T tpep len) cnt j m) := by
  intro cnt
  induction cnt with
  | zero =>
    intro f j k m R hj _ _
    have h6 : (mkParams T tpep len).eHalf = len / 2 := rfl
    have h3 := H.hmag
    have hc : (match ec_eval_even_strategy_loop1_cond obs T tpep oracle fuel len pl k with | .ok b => b | .error _ => true) = false := by
      simp only [ec_eval_even_strategy_loop1_cond, R.eh, R.jj]
      rw [w64]
      simp; omega
    rw [whileF_stop _ _ _ _ _ _ (by simp [hc])]
    exact R
  | succ cnt ih =>
    intro f j k m R hj hf he
    have h6 : (mkParams T tpep len).eHalf = len / 2 := rfl
    have h3 := H.hmag
    obtain ⟨f', rfl⟩ : ∃ f', f = f' + 1 := ⟨f - 1, by omega⟩
    have hlive : EvenSt.live obs k = true := by simp [EvenSt.live, obs, R.kf, R.kb]
    have hc : (match ec_eval_even_strategy_loop1_cond obs T tpep oracle fuel len pl k with | .ok b => b | .error _ => true) = true := by
      simp only [ec_eval_even_strategy_loop1_cond, R.eh, R.jj]
      rw [w64]
      simp; omega
    rw [whileF_step _ _ _ _ _ _ (by simp [hc, hlive])]
    have hbody : (match ec_eval_even_strategy_loop1_cond obs T tpep oracle fuel len pl k with
        | .ok _ => ec_eval_even_strategy_loop1_body obs T tpep oracle fuel len pl k | .error f => k.fail f) =
        ec_eval_even_strategy_loop1_body obs T tpep oracle fuel len pl k := by
      simp [ec_eval_even_strategy_loop1_cond]
    rw [hbody]
    simp only [forLoop] at he ⊢
    have he1 : (isoStep (mkParams T tpep len) j (whileLoop (mkParams T tpep len) j m)).err = none := by
      cases hq : (isoStep (mkParams T tpep len) j (whileLoop (mkParams T tpep len) j m)).err with
      | none => rfl
      | some e =>
        rw [forLoop_err _ cnt (j + 1) _ (by simp [hq])] at he
        simp [hq] at he
    have R' := iter_sim T tpep len oracle fuel pl M H j (by omega) k m R he1
    have := ih f' (j + 1) _ _ R' (by omega) (by omega) he
    have e : j + 1 + cnt = j + (cnt + 1) := by omega
    rw [e] at this
    exact this
end For


/-! ### the code before the main loop -/

theorem bitlen_half (t : Nat) (h : 0 < t) : bitlen t = bitlen (t / 2) + 1 := by
  unfold bitlen
  rw [Nat.log2_def t]
  by_cases h2 : 2 ≤ t
  · have : t / 2 ≠ 0 := by omega
    have h0 : t ≠ 0 := by omega
    simp [h2, this, h0]
  · have : t = 1 := by omega
    subst this; simp

section Loop0
variable (T : List (List Nat)) (tpep len : Nat) (oracle : Nat → Bool) (fuel : Nat) (pl : Int)

/-- `for (tmp = e_half, log2_of_e = 0; tmp > 0; tmp >>= 1, ++log2_of_e)` computes `bitlen` -/
theorem loop0 : ∀ (f t a : Nat) (k : EvenSt OSt), k.fault = none → k.obs.bad = false → k.tmp = (t : Int) →
    k.log2_of_e = (a : Int) → a + bitlen t < 256 → t ≤ f →
    whileF (EvenSt.live obs)
      (fun s => match ec_eval_even_strategy_loop0_cond obs T tpep oracle fuel len pl s with | .ok b => b | .error _ => true)
      (fun s => match ec_eval_even_strategy_loop0_cond obs T tpep oracle fuel len pl s with
        | .ok _ => ec_eval_even_strategy_loop0_body obs T tpep oracle fuel len pl s | .error f => s.fail f)
      (fun s => s.fail .fuel) f k = { k with tmp := 0, log2_of_e := ((a + bitlen t : Nat) : Int) } := by
  intro f
  induction f with
  | zero =>
    intro t a k hf hb ht ha _ hle
    have : t = 0 := by omega
    subst this
    rw [whileF_stop _ _ _ _ _ _ (by simp [ec_eval_even_strategy_loop0_cond, ht])]
    cases k; simp at ht ha; simp [ht, ha, bitlen]
  | succ f ih =>
    intro t a k hf hb ht ha hlt hle
    by_cases h0 : t = 0
    · subst h0
      rw [whileF_stop _ _ _ _ _ _ (by simp [ec_eval_even_strategy_loop0_cond, ht])]
      cases k; simp at ht ha; simp [ht, ha, bitlen]
    · have hlive : EvenSt.live obs k = true := by simp [EvenSt.live, obs, hf, hb]
      have hbl := bitlen_half t (by omega)
      rw [whileF_step _ _ _ _ _ _ (by simp [ec_eval_even_strategy_loop0_cond, ht, hlive]; omega)]
      have hbody : (match ec_eval_even_strategy_loop0_cond obs T tpep oracle fuel len pl k with
          | .ok _ => ec_eval_even_strategy_loop0_body obs T tpep oracle fuel len pl k | .error f => k.fail f) =
          { k with tmp := ((t / 2 : Nat) : Int), log2_of_e := ((a + 1 : Nat) : Int) } := by
        simp [ec_eval_even_strategy_loop0_cond, ec_eval_even_strategy_loop0_body, EvenSt.step, EvenSt.live, obs, hf, hb, ht, ha]
        omega
      rw [hbody, ih (t / 2) (a + 1) { k with tmp := ((t / 2 : Nat) : Int), log2_of_e := ((a + 1 : Nat) : Int) } hf hb rfl rfl (by omega) (by omega)]
      simp only [EvenSt.mk.injEq, true_and, and_true]
      omega
end Loop0


theorem bitlen_le8 (t : Nat) (h : t < 256) : bitlen t ≤ 8 := by
  unfold bitlen
  by_cases h0 : t = 0
  · simp [h0]
  · simp only [h0, if_false]
    have := (Nat.log2_lt h0 (k := 8)).2 (by omega)
    omega

theorem bitlen_pos (t : Nat) (h : bitlen t ≠ 0) : t ≠ 0 := by
  intro h0; subst h0; simp [bitlen] at h

/-- observer after `vla` and the copy of the kernel generator into slot 0 -/
def obsV (v : Int) (len : Nat) : OSt :=
  { size := v, sp := fun _ => none, kexp := len, bad := false, log := [(1, v, 0)], kers := [] }
def obs0 (v : Int) (len : Nat) : OSt :=
  { size := v, sp := fun k => if k = 0 then some len else none, kexp := len, bad := false, log := [(1, v, 0), (3, 0, 0)], kers := [] }

theorem ev_vla (v : Int) (len : Nat) (h : 0 < v) : ev (OSt.init len) 1 [v] = obsV v len := by
  simp [ev, OSt.init, h, obsV]
theorem ev_copyIn (v : Int) (len : Nat) (h : 0 < v) : ev (obsV v len) 3 [0] = obs0 v len := by
  simp [ev, obsV, obs0, OSt.inb, OSt.put, h]

theorem ev_copy_s (o : OSt) (d c : Int) (hb : o.bad = false) (hd : o.inb d = true) (hc : o.inb c = true)
    (hs : (o.sp c).isSome = true) :
    ev o 2 [d, c] = obsDbl o d ((o.sp c).getD 0) (o.log ++ [(2, d, c)]) := by
  cases h : o.sp c with
  | none => simp [h] at hs
  | some v =>
    simp [OSt.inb] at hd hc
    simpa using ev_copy o d c v hb hd.1 hd.2 hc.1 hc.2 h

theorem finalSteps_even (P : Params) (m : St) (hodd : P.isOdd = 0) (he0 : m.err = none)
    (he : (finalSteps P m).err = none) :
    ∃ c kk : Nat, m.current = (c : Int) ∧ c < P.vla ∧ m.sp c = some kk ∧
      finalSteps P m = { m with trace := m.trace ++ [.fin4 (c : Int) 0 kk] } := by
  by_cases hidx : idxOK m.current P.vla = true
  · have hidx' := hidx
    simp [idxOK] at hidx'
    obtain ⟨c, hc⟩ : ∃ c : Nat, m.current = (c : Int) := ⟨m.current.toNat, by omega⟩
    have hidxc : idxOK (c : Int) P.vla = true := by rw [← hc]; exact hidx
    cases hv : m.sp c with
    | none => simp [finalSteps, he0, hodd, hc, hidxc, hv, St.fail] at he
    | some kk =>
      refine ⟨c, kk, hc, by omega, hv, ?_⟩
      simp [finalSteps, he0, hodd, hc, hidxc, hv, St.emit]
  · simp [finalSteps, he0, hodd, hidx, St.fail] at he

theorem finalSteps_odd (P : Params) (m : St) (hodd : P.isOdd = 1) (he0 : m.err = none)
    (he : (finalSteps P m).err = none) :
    ∃ v : Nat, 1 < P.vla ∧ m.sp 0 = some v ∧
      finalSteps P m = { m with current := 1, sp := upd (upd m.sp 1 (some (v - 1))) 0 (some (v - 2)),
                                trace := m.trace ++ [.fin4 1 1 (v - 1), .fin2 (v - 2)] } := by
  by_cases hidx : idxOK 1 P.vla = true
  · have hidx' := hidx
    simp [idxOK] at hidx'
    cases hv : m.sp 0 with
    | none => simp [finalSteps, he0, hodd, hidx, hv, upd, St.fail] at he
    | some v =>
      refine ⟨v, by omega, rfl, ?_⟩
      simp [finalSteps, he0, hodd, hidx, hv, upd, St.emit]
  · simp [finalSteps, he0, hodd, hidx, St.fail] at he

/-- what is claimed about a complete run: no fault on either side, same final integer state, same carried
    orders, same sequence of kernel orders -/
structure Final (k : EvenSt OSt) (m : St) : Prop where
  kf : k.fault = none
  kb : k.obs.bad = false
  me : m.err = none
  st : k.strategy = (m.strategy : Int)
  bl : k.BLOCK = m.block
  cu : k.current = m.current
  og : ∀ i : Nat, k.obs.sp (i : Int) = m.sp i
  ke : k.obs.kers = m.trace.flatMap kerOf

section Top
variable (T : List (List Nat)) (tpep len : Nat) (oracle : Nat → Bool) (fuel : Nat) (pl : Int) (M : Nat)

local macro "ST[" lg:term "," tmp:term "," eh:term "," xd:term "," od:term "," o:term "]" : term =>
  `(({ log2_of_e := $lg, tmp := $tmp, e_half := $eh, strategy := 0, i := 0, j := 0, BLOCK := 0, current := 0, XDBLs := $xd, is_odd := $od, fault := none, obs := $o } : EvenSt OSt))

theorem skel_refines (H : Hyp T tpep len M fuel) (he : (evalEven T tpep len).err = none) :
    Final (ec_eval_even_strategy obs T tpep oracle fuel len pl (EvenSt.init (OSt.init len))) (evalEven T tpep len) := by
  have h6 : (mkParams T tpep len).eHalf = len / 2 := rfl
  have h7 : (mkParams T tpep len).isOdd = len % 2 := rfl
  have h8 : (mkParams T tpep len).vla = 2 * bitlen (len / 2 % 256) := rfl
  have hmag := H.hmag
  have hvla : (mkParams T tpep len).vla ≠ 0 := by
    intro h0
    simp [evalEven, evalP, h0, St.fail] at he
  have hb8 := bitlen_le8 (len / 2 % 256) (by omega)
  have heh : len / 2 % 256 ≠ 0 := bitlen_pos _ (by omega)
  unfold evalEven evalP at he ⊢
  simp only [hvla, if_false] at he ⊢
  unfold ec_eval_even_strategy
  rw [step_live _ (EvenSt.init (OSt.init len)) rfl rfl]
  dsimp only [EvenSt.init]
  have e1 : ((len : Int) / 2) % W64 = ((len / 2 : Nat) : Int) := by rw [w64]; omega
  rw [e1]
  rw [step_live _ ST[0, 0, ((len / 2 : Nat) : Int), IArr.new 0, 0, OSt.init len] rfl rfl]
  dsimp only
  have e2 : ((len / 2 : Nat) : Int) % 256 = ((len / 2 % 256 : Nat) : Int) := by omega
  rw [e2]
  rw [step_live _ ST[0, ((len / 2 % 256 : Nat) : Int), ((len / 2 : Nat) : Int), IArr.new 0, 0, OSt.init len] rfl rfl]
  dsimp only
  rw [step_live _ ST[0 % 256, ((len / 2 % 256 : Nat) : Int), ((len / 2 : Nat) : Int), IArr.new 0, 0, OSt.init len] rfl rfl]
  erw [loop0 T tpep len oracle fuel pl fuel (len / 2 % 256) 0 _ rfl rfl rfl rfl (by omega) (by have := H.hfuh; omega)]
  dsimp only
  rw [Nat.zero_add]
  rw [step_live _ ST[((bitlen (len / 2 % 256) : Nat) : Int), 0, ((len / 2 : Nat) : Int), IArr.new 0, 0, OSt.init len] rfl rfl]
  dsimp only
  have e5 : ((bitlen (len / 2 % 256) : Nat) : Int) * 2 % 256 = (((mkParams T tpep len).vla : Nat) : Int) := by
    rw [h8]; omega
  have hv0 : (0 : Int) < (((mkParams T tpep len).vla : Nat) : Int) := by omega
  rw [e5]
  rw [step_live _ ST[(((mkParams T tpep len).vla : Nat) : Int), 0, ((len / 2 : Nat) : Int), IArr.new 0, 0, OSt.init len] rfl rfl]
  dsimp only [obs_ev, EvKind.vla]
  rw [ev_vla _ _ hv0]
  rw [step_live _ ST[(((mkParams T tpep len).vla : Nat) : Int), 0, ((len / 2 : Nat) : Int), IArr.new 0, 0, obsV (((mkParams T tpep len).vla : Nat) : Int) len] rfl rfl]
  dsimp only [obs_ev, EvKind.copyIn]
  rw [ev_copyIn _ _ hv0]
  rw [step_live _ ST[(((mkParams T tpep len).vla : Nat) : Int), 0, ((len / 2 : Nat) : Int), IArr.new 0, 0, obs0 (((mkParams T tpep len).vla : Nat) : Int) len] rfl rfl]
  dsimp only
  rw [step_live _ ST[(((mkParams T tpep len).vla : Nat) : Int), 0, ((len / 2 : Nat) : Int), IArr.new 0, 0, obs0 (((mkParams T tpep len).vla : Nat) : Int) len] rfl rfl]
  dsimp only
  rw [step_live _ ST[(((mkParams T tpep len).vla : Nat) : Int), 0, ((len / 2 : Nat) : Int), IArr.new 0, 0, obs0 (((mkParams T tpep len).vla : Nat) : Int) len] rfl rfl]
  dsimp only
  rw [step_live _ ST[(((mkParams T tpep len).vla : Nat) : Int), 0, ((len / 2 : Nat) : Int), IArr.new 0, 0, obs0 (((mkParams T tpep len).vla : Nat) : Int) len] rfl rfl]
  dsimp only
  rw [if_pos hv0]
  rw [step_live _ ST[(((mkParams T tpep len).vla : Nat) : Int), 0, ((len / 2 : Nat) : Int), IArr.new (((mkParams T tpep len).vla : Nat) : Int), 0, obs0 (((mkParams T tpep len).vla : Nat) : Int) len] rfl rfl]
  dsimp only
  have e12 : (len : Int) % 2 = ((len % 2 : Nat) : Int) := by omega
  rw [e12]
  rw [step_live _ ST[(((mkParams T tpep len).vla : Nat) : Int), 0, ((len / 2 : Nat) : Int), IArr.new (((mkParams T tpep len).vla : Nat) : Int), ((len % 2 : Nat) : Int), obs0 (((mkParams T tpep len).vla : Nat) : Int) len] rfl rfl]
  dsimp only
  rw [step_live _ ST[(((mkParams T tpep len).vla : Nat) : Int), 0, ((len / 2 : Nat) : Int), IArr.new (((mkParams T tpep len).vla : Nat) : Int), ((len % 2 : Nat) : Int), obs0 (((mkParams T tpep len).vla : Nat) : Int) len] rfl rfl]
  have R0 : Rel (mkParams T tpep len) M 0
      ST[(((mkParams T tpep len).vla : Nat) : Int), 0, ((len / 2 : Nat) : Int), IArr.new (((mkParams T tpep len).vla : Nat) : Int), ((len % 2 : Nat) : Int), obs0 (((mkParams T tpep len).vla : Nat) : Int) len]
      (initSt (mkParams T tpep len)) := by
    constructor
    · rfl
    · rfl
    · rfl
    · rfl
    · rfl
    · rfl
    · rfl
    · rfl
    · rfl
    · rfl
    · intro i; rfl
    · rfl
    · intro i
      simp only [obs0, initSt]
      have : ((i : Int) = 0) ↔ i = 0 := by omega
      simp only [this]; rfl
    · rfl
    · intro i v h; simp [initSt] at h
    · simp [initSt]
    · simp [initSt]
    · simp [initSt]
  have hfl : (forLoop (mkParams T tpep len) ((mkParams T tpep len).eHalf - 1) 0 (initSt (mkParams T tpep len))).err = none := by
    cases hq : (forLoop (mkParams T tpep len) ((mkParams T tpep len).eHalf - 1) 0 (initSt (mkParams T tpep len))).err with
    | none => rfl
    | some e =>
      rw [finalSteps_err _ _ (by simp [hq])] at he
      simp [hq] at he
  have R2 := for_sim T tpep len oracle fuel pl M H ((mkParams T tpep len).eHalf - 1) fuel 0 _ _ R0 (by omega)
    (by have := H.hfuh; omega) hfl
  generalize hk2 : whileF _ _ _ _ fuel _ = k2 at R2 ⊢
  generalize forLoop (mkParams T tpep len) ((mkParams T tpep len).eHalf - 1) 0 (initSt (mkParams T tpep len)) = m2 at R2 he ⊢
  clear hk2 R0 hfl
  have hkf := R2.kf
  have hkb := R2.kb
  have hos := R2.os
  by_cases hodd : len % 2 = 0
  · have hio : (mkParams T tpep len).isOdd = 0 := by rw [h7]; exact hodd
    obtain ⟨c, kk, hc, hcv, hsp, hfin⟩ := finalSteps_even _ m2 hio R2.me he
    have hcur : k2.current = (c : Int) := by rw [R2.cu, hc]
    have hspk : k2.obs.sp (c : Int) = some kk := by rw [R2.og, hsp]
    have hodk : k2.is_odd = 0 := by rw [R2.od, hio]; rfl
    have hsz : (c : Int) < k2.obs.size := by rw [hos]; omega
    rw [hfin]
    have h0c : (0 : Int) ≤ (c : Int) := by omega
    constructor <;>
      simp [EvenSt.step, EvenSt.live, obs, hkf, hkb, hodk, truthy, hcur, hc, EvKind.isog4, ev_isog4_s, OSt.inb, hsz, hspk, h0c,
        R2.me, R2.st, R2.bl, R2.og, R2.ke, kerOf]
  · have hio : (mkParams T tpep len).isOdd = 1 := by rw [h7]; omega
    obtain ⟨v, hv1, hsp, hfin⟩ := finalSteps_odd _ m2 hio R2.me he
    have hspk : k2.obs.sp 0 = some v := by
      have := R2.og 0
      rw [hsp] at this
      simpa using this
    have hodk : k2.is_odd = 1 := by rw [R2.od, hio]; rfl
    have hsz : (1 : Int) < k2.obs.size := by rw [hos]; omega
    have hsz0 : (0 : Int) < k2.obs.size := by omega
    have hsz1 : (1 : Int) ≤ k2.obs.size := by omega
    rw [hfin]
    constructor <;>
      simp [EvenSt.step, EvenSt.live, obs, hkf, hkb, hodk, truthy, EvKind.isog4, EvKind.isog2, EvKind.eval4, EvKind.copy, EvKind.dbl,
        ev_isog4_s, ev_isog2_s, ev_eval4_s, ev_copy_s, ev_dbl_s, OSt.inb, hsz, hsz0, hsz1, hspk, obsDbl_sp,
        R2.me, R2.st, R2.bl, R2.og, R2.ke, kerOf]
    intro i
    rcases (by omega : i = 0 ∨ i = 1 ∨ 2 ≤ i) with h | h | h
    · subst h; simp [upd, hsp]
    · subst h; simp [upd]
    · have a : ¬ (i : Int) < 1 := by omega
      have b : ¬ (i : Int) = 1 := by omega
      have c : ¬ i = 0 := by omega
      have d : ¬ i = 1 := by omega
      simp [upd, a, b, c, d]
end Top


/-! ### discharging the side conditions for a concrete table; consequences for the kernel orders -/

/-- every entry of the table is ≤ M and every row has at most L entries (decidable, checked per level) -/
def tableBound (M L : Nat) (T : List (List Nat)) : Bool :=
  T.all (fun r => r.all (fun x => decide (x ≤ M)) && decide (r.length ≤ L))

theorem hyp_of_table (T : List (List Nat)) (tpep len M L fuel : Nat) (hb : tableBound M L T = true)
    (hle : len ≤ tpep) (hrow : tpep - len < T.length) (hfu2 : 2 * M ≤ fuel) (hfur : L ≤ fuel) (hfuh : tpep ≤ fuel)
    (hmag : L * M + tpep * M + tpep + 1 < 18446744073709551616) : Hyp T tpep len M fuel := by
  have hrw : (mkParams T tpep len).row = T.getD (tpep - len) [] := by
    have h1 : ((tpep : Int) - (len : Int)).toNat = tpep - len := by omega
    simp [mkParams, h1]; intro hh; omega
  have hmem : (mkParams T tpep len).row ∈ T := by
    rw [hrw]
    simp [List.getD, List.getElem?_eq_getElem hrow]
  have hr := List.all_eq_true.1 hb _ hmem
  simp only [Bool.and_eq_true, decide_eq_true_eq, List.all_eq_true] at hr
  have hl : (mkParams T tpep len).row.length * M ≤ L * M := Nat.mul_le_mul_right M hr.2
  have hl2 : len * M ≤ tpep * M := Nat.mul_le_mul_right M hle
  exact {
    hle := hle
    htp := by rw [w64]; omega
    hrow := hrow
    hM := hr.1
    hfu2 := hfu2
    hfur := by omega
    hfuh := by omega
    hmag := by omega }

/-- degree exponent of an isogeny step of the skeleton run -/
def kerDeg : Nat × Nat → Nat
  | (6, _) => 2
  | (8, _) => 1
  | _ => 0

theorem kers_of_evOk (vla sb : Nat) : ∀ (l : List Ev), l.all (evOk vla sb) = true →
    (∀ e ∈ l.flatMap kerOf, e = (6, 2) ∨ e = (8, 1)) ∧ ((l.flatMap kerOf).map kerDeg).sum = degSum l := by
  intro l
  induction l with
  | nil => intro _; simp
  | cons a l ih =>
    intro h
    simp only [List.all_cons, Bool.and_eq_true] at h
    obtain ⟨i1, i2⟩ := ih h.2
    have ha := h.1
    refine ⟨?_, ?_⟩
    · intro e he
      rw [List.flatMap_cons, List.mem_append] at he
      rcases he with he | he
      · cases a <;> simp [kerOf, evOk] at he ha
        · left; rw [he, ha.2]
        · left; rw [he, ha.2]
        · right; rw [he, ha]
      · exact i1 e he
    · rw [List.flatMap_cons, List.map_append, List.sum_append, i2, degSum_cons]
      cases a <;> simp [kerOf, kerDeg, Ev.deg]

end SqiProofs.SkelEvenSim

/-
Simulation between the integer skeleton `SqiGen.ChainSkel.theta_chain_comput_rec` (balanced recursion, re-extracted from
the C text on every run) and the hand model `SqiModel.ThetaChain.rec`, for ALL lengths, indices, kernel exponents and
stacks on which the hand model does not report a stack overflow.
-/
import SqiModel.SkelRec
import SqiProofs.ThetaBalanced

namespace SqiProofs.SkelRecSim
open SqiGen.ChainSkel SqiModel.Skel SqiModel.SkelRec SqiModel.ThetaChain SqiProofs.ThetaBalanced

theorem step_live (f : RecSt OSt → RecSt OSt) (k : RecSt OSt) (hf : k.fault = none) (hb : k.obs.bad = false) :
    RecSt.step obs f k = f k := by
  simp [RecSt.step, RecSt.live, obs, hf, hb]

/-- precondition of a call: kernel pair of exponent `r` in `R1[0]`, `R2[0]`, the stack below `stacklen` holds `stack` -/
structure Pre (k : RecSt OSt) (cap total r : Nat) (stack : List Nat) : Prop where
  kf : k.fault = none
  kb : k.obs.bad = false
  r1 : k.obs.r1 0 = some r
  r2 : k.obs.r2 0 = some r
  rs : k.obs.rsize = 1
  cp : k.obs.cap = (cap : Int)
  tt : k.obs.total = (total : Int)
  p1 : ∀ i, (h : i < stack.length) → k.obs.p1 (i : Int) = some stack[i]
  p2 : ∀ i, (h : i < stack.length) → k.obs.p2 (i : Int) = some stack[i]

def noOob (evs : List BEv) : Prop := ∀ e ∈ evs, ∀ a b, e ≠ .oob a b

/-- postcondition: no fault, the stack below `stacklen` holds `st`, the steps of the hand model have been appended -/
structure Post (k' k : RecSt OSt) (cap total : Nat) (st : List Nat) (evs : List BEv) : Prop where
  kf : k'.fault = none
  kb : k'.obs.bad = false
  rs : k'.obs.rsize = 1
  cp : k'.obs.cap = (cap : Int)
  tt : k'.obs.total = (total : Int)
  p1 : ∀ i, (h : i < st.length) → k'.obs.p1 (i : Int) = some st[i]
  p2 : ∀ i, (h : i < st.length) → k'.obs.p2 (i : Int) = some st[i]
  sp : k'.obs.steps = k.obs.steps ++ evs.flatMap mStep

theorem rec_length (cap total : Nat) : ∀ (fuel len index r : Nat) (stack : List Nat),
    (rec cap total fuel len index r stack).2.length = stack.length := by
  intro fuel
  induction fuel with
  | zero => intro len index r stack; simp [rec]
  | succ fuel ih =>
    intro len index r stack
    simp only [rec]
    by_cases h0 : len = 0
    · simp [h0]
    · by_cases h1 : len = 1
      · simp [h1]
      · simp only [h0, h1, if_false]
        by_cases hc : stack.length < cap
        · simp only [hc, if_true]
          have l1 := ih (2 * len / 3) index (r - (len - 2 * len / 3)) (stack ++ [r])
          rw [ih]
          simp [List.length_take, l1]
        · simp [hc]


/-- observer after the stack slots `lo ≤ x < hi` of both stacks have been pushed through a step -/
def evalP (o : OSt) (lo hi : Int) : OSt :=
  { o with p1 := fun x => if lo ≤ x ∧ x < hi then (o.p1 x).map (· - 1) else o.p1 x,
           p2 := fun x => if lo ≤ x ∧ x < hi then (o.p2 x).map (· - 1) else o.p2 x }

theorem evalP_empty (o : OSt) (j : Int) : evalP o j j = o := by
  simp only [evalP]
  have : ∀ x : Int, ¬ (j ≤ x ∧ x < j) := by intro x; omega
  simp [this]

theorem evalP_step (o : OSt) (j hi : Int) (v w : Nat) (hv : o.p1 j = some v) (hw : o.p2 j = some w) (hj : j < hi) :
    evalP ((o.put 8 j (v - 1)).put 9 j (w - 1)) (j + 1) hi = evalP o j hi := by
  simp only [evalP, OSt.put]
  simp only [show ¬ ((8 : Int) = 6) by omega, show ¬ ((8 : Int) = 7) by omega, show ¬ ((9 : Int) = 6) by omega,
    show ¬ ((9 : Int) = 7) by omega, show ¬ ((9 : Int) = 8) by omega, if_false, if_true]
  congr 1
  · funext x
    by_cases hx : x = j
    · subst hx
      have h1 : ¬ (x + 1 ≤ x) := by omega
      simp [h1, hv, hj]
    · have h1 : (j + 1 ≤ x) ↔ (j ≤ x) := by omega
      simp [hx, h1]
  · funext x
    by_cases hx : x = j
    · subst hx
      have h1 : ¬ (x + 1 ≤ x) := by omega
      simp [h1, hw, hj]
    · have h1 : (j + 1 ≤ x) ↔ (j ≤ x) := by omega
      simp [hx, h1]

section Loop
variable (oracle : Nat → Bool) (fuel : Nat) (len index stacklen total : Int)

theorem evloop : ∀ (cnt f j : Nat) (k : RecSt OSt), k.fault = none → k.obs.bad = false → k.i = (j : Int) →
    (j : Int) + (cnt : Int) = stacklen → stacklen ≤ k.obs.cap → 0 ≤ index → index < k.obs.total →
    (∀ x : Nat, j ≤ x → x < j + cnt → (k.obs.p1 (x : Int)).isSome = true ∧ (k.obs.p2 (x : Int)).isSome = true) →
    cnt ≤ f →
    whileF (RecSt.live obs)
      (fun s => match theta_chain_comput_rec_loop0_cond obs [] oracle fuel len index 0 stacklen total 0 0 0 0 s with | .ok b => b | .error _ => true)
      (fun s => match theta_chain_comput_rec_loop0_cond obs [] oracle fuel len index 0 stacklen total 0 0 0 0 s with
        | .ok _ => theta_chain_comput_rec_loop0_body obs [] oracle fuel len index 0 stacklen total 0 0 0 0 s | .error f => s.fail f)
      (fun s => s.fail .fuel) f k =
      { k with i := (j : Int) + (cnt : Int), obs := evalP k.obs (j : Int) ((j : Int) + (cnt : Int)) } := by
  intro cnt
  induction cnt with
  | zero =>
    intro f j k hf hb hj hl _ _ _ _ _
    rw [whileF_stop _ _ _ _ _ _ (by simp [theta_chain_comput_rec_loop0_cond, hj]; omega)]
    simp only [Int.natCast_zero, Int.add_zero, evalP_empty]
    cases k; simp at hj; simp [hj]
  | succ cnt ih =>
    intro f j k hf hb hj hl hcap hi0 hi1 hq hfu
    obtain ⟨f', rfl⟩ : ∃ f', f = f' + 1 := ⟨f - 1, by omega⟩
    obtain ⟨q1, q2⟩ := hq j (by omega) (by omega)
    obtain ⟨v, hv⟩ := Option.isSome_iff_exists.1 q1
    obtain ⟨w, hw⟩ := Option.isSome_iff_exists.1 q2
    have hlive : RecSt.live obs k = true := by simp [RecSt.live, obs, hf, hb]
    rw [whileF_step _ _ _ _ _ _ (by simp [theta_chain_comput_rec_loop0_cond, hj, hlive]; omega)]
    have hj0 : (0 : Int) ≤ (j : Int) := by omega
    have hj1 : (j : Int) < k.obs.cap := by omega
    have hbody : (match theta_chain_comput_rec_loop0_cond obs [] oracle fuel len index 0 stacklen total 0 0 0 0 k with
        | .ok _ => theta_chain_comput_rec_loop0_body obs [] oracle fuel len index 0 stacklen total 0 0 0 0 k | .error f => k.fail f) =
        { k with i := (j : Int) + 1, obs := (k.obs.put 8 (j : Int) (v - 1)).put 9 (j : Int) (w - 1) } := by
      simp [theta_chain_comput_rec_loop0_cond, theta_chain_comput_rec_loop0_body, RecSt.step, RecSt.live, obs,
        hf, hb, hj, EvKind.evalStep, ev, OSt.inb, OSt.size, OSt.get, OSt.put, hv, hw, hi0, hi1, hj0, hj1]
    rw [hbody]
    have := ih f' (j + 1) { k with i := (j : Int) + 1, obs := (k.obs.put 8 (j : Int) (v - 1)).put 9 (j : Int) (w - 1) }
      hf (by simp [OSt.put, hb]) (by show (j : Int) + 1 = ((j + 1 : Nat) : Int); omega) (by omega) (by simpa [OSt.put] using hcap) hi0
      (by simpa [OSt.put] using hi1)
      (by
        intro x hx1 hx2
        have hxj : ¬ (x : Int) = (j : Int) := by omega
        simpa [OSt.put, hxj] using hq x (by omega) (by omega))
      (by omega)
    rw [this]
    have e1 : ((j + 1 : Nat) : Int) = (j : Int) + 1 := by push_cast; rfl
    have e2 : (j : Int) + 1 + (cnt : Int) = (j : Int) + ((cnt + 1 : Nat) : Int) := by push_cast; omega
    simp only [e1, e2]
    rw [evalP_step k.obs (j : Int) _ v w hv hw (by omega)]
end Loop


section Base
variable (oracle : Nat → Bool) (fuel cap total : Nat)

theorem rec_sim0 (F index r : Nat) (stack : List Nat) (k : RecSt OSt) (hP : Pre k cap total r stack) :
    Post (theta_chain_comput_rec obs [] oracle fuel (F + 1) (0 : Nat) index 0 stack.length total 0 0 0 0 k) k cap total
      (rec cap total (F + 1) 0 index r stack).2 (rec cap total (F + 1) 0 index r stack).1 := by
  have hk : theta_chain_comput_rec obs [] oracle fuel (F + 1) (0 : Nat) index 0 stack.length total 0 0 0 0 k = k := by
    simp [theta_chain_comput_rec, RecSt.step, RecSt.live, obs, hP.kf, hP.kb]
  rw [hk]
  simp only [rec, if_true]
  exact ⟨hP.kf, hP.kb, hP.rs, hP.cp, hP.tt, hP.p1, hP.p2, by simp⟩

theorem rec_sim1 (F index r : Nat) (stack : List Nat) (k : RecSt OSt) (hP : Pre k cap total r stack)
    (hi : index + 1 ≤ total) (hsf : stack.length ≤ fuel) (hsc : stack.length ≤ cap) :
    Post (theta_chain_comput_rec obs [] oracle fuel (F + 1) (1 : Nat) index 0 stack.length total 0 0 0 0 k) k cap total
      (rec cap total (F + 1) 1 index r stack).2 (rec cap total (F + 1) 1 index r stack).1 := by
  simp only [theta_chain_comput_rec]
  rw [step_live _ k hP.kf hP.kb]
  rw [if_neg (by simp)]
  rw [step_live _ k hP.kf hP.kb]
  rw [if_pos (by simp)]
  generalize hX : RecSt.step obs _ (RecSt.step obs _ (RecSt.step obs _ k)) = X
  have hi0 : (0 : Int) ≤ (index : Int) := by omega
  have hi1 : (index : Int) < (total : Int) := by omega
  have hXe : X = { k with i := 0, obs := { k.obs with steps := k.obs.steps ++
      [((index : Int), r, if index + 2 = total then 1 else if index + 1 = total then 2 else 0)] } } := by
    rw [← hX]
    by_cases h2 : (index : Int) = (total : Int) - 2
    · have : index + 2 = total := by omega
      have h2' := eq_true h2
      simp [RecSt.step, RecSt.live, obs, hP.kf, hP.kb, EvKind.stepR, EvKind.loadR, ev, OSt.inb, OSt.size, hP.rs, hP.tt,
        hP.r1, hP.r2, hi0, hi1, h2', this]
    · have h2n : ¬ index + 2 = total := by omega
      by_cases h1 : (index : Int) = (total : Int) - 1
      · have : index + 1 = total := by omega
        have h2' := eq_false h2
        have h1' := eq_true h1
        simp [RecSt.step, RecSt.live, obs, hP.kf, hP.kb, EvKind.stepR, EvKind.loadR, ev, OSt.inb, OSt.size, hP.rs, hP.tt,
          hP.r1, hP.r2, hi0, hi1, h2', h1', this, h2n]
      · have h1n : ¬ index + 1 = total := by omega
        have h2' := eq_false h2
        have h1' := eq_false h1
        simp [RecSt.step, RecSt.live, obs, hP.kf, hP.kb, EvKind.stepR, EvKind.loadR, ev, OSt.inb, OSt.size, hP.rs, hP.tt,
          hP.r1, hP.r2, hi0, hi1, h2', h1', h1n, h2n]
  rw [hXe]
  clear hX hXe
  generalize hK : RecSt.mk _ _ _ = K
  have hKf : K.fault = none := by rw [← hK]; exact hP.kf
  have hKb : K.obs.bad = false := by rw [← hK]; exact hP.kb
  rw [step_live _ K hKf hKb]
  erw [evloop oracle fuel (1 : Nat) index stack.length total stack.length fuel 0 K hKf hKb (by rw [← hK]; rfl) (by simp)
    (by rw [← hK]; simp only []; rw [hP.cp]; omega) hi0 (by rw [← hK]; simp only []; rw [hP.tt]; exact hi1)
    (by
      intro x _ hx
      rw [← hK]
      simp only []
      rw [hP.p1 x (by omega), hP.p2 x (by omega)]
      exact ⟨rfl, rfl⟩) hsf]
  have hrec : rec cap total (F + 1) 1 index r stack =
      ([.step index stack.length total r (if index + 2 = total then 1 else if index + 1 = total then 2 else 0)],
        stack.map (· - 1)) := by simp [rec]
  rw [hrec]
  subst hK
  refine ⟨hP.kf, ?_, ?_, ?_, ?_, ?_, ?_, ?_⟩
  · simp [evalP, hP.kb]
  · simp [evalP, hP.rs]
  · simp [evalP, hP.cp]
  · simp [evalP, hP.tt]
  · intro i hi'
    have hil : i < stack.length := by simpa using hi'
    have h1 : (0 : Int) ≤ (i : Int) ∧ (i : Int) < 0 + (stack.length : Int) := by omega
    simp [evalP, h1, hil, hP.p1 i hil]
  · intro i hi'
    have hil : i < stack.length := by simpa using hi'
    have h1 : (0 : Int) ≤ (i : Int) ∧ (i : Int) < 0 + (stack.length : Int) := by omega
    simp [evalP, h1, hil, hP.p2 i hil]
  · simp [evalP, mStep]
end Base


theorem noOob_split (a : BEv) (e1 e2 : List BEv) (h : noOob (a :: e1 ++ e2)) : noOob e1 ∧ noOob e2 := by
  constructor
  · intro e he; exact h e (by simp [he])
  · intro e he; exact h e (by simp [he])

section Main
variable (oracle : Nat → Bool) (fuel cap total : Nat)

/-- **the translated balanced recursion refines the hand model `rec`** -/
theorem rec_sim (hcf : cap ≤ fuel) : ∀ (F len index r : Nat) (stack : List Nat) (k : RecSt OSt),
    len ≤ F → index + len ≤ total → stack.length ≤ cap → Pre k cap total r stack →
    noOob (rec cap total (F + 1) len index r stack).1 →
    Post (theta_chain_comput_rec obs [] oracle fuel (F + 1) (len : Int) index 0 stack.length total 0 0 0 0 k) k cap total
      (rec cap total (F + 1) len index r stack).2 (rec cap total (F + 1) len index r stack).1 := by
  intro F
  induction F with
  | zero =>
    intro len index r stack k hl _ _ hP _
    have : len = 0 := by omega
    subst this
    exact rec_sim0 oracle fuel cap total 0 index r stack k hP
  | succ F ih =>
    intro len index r stack k hl hit hsc hP hno
    by_cases h0 : len = 0
    · subst h0; exact rec_sim0 oracle fuel cap total (F + 1) index r stack k hP
    by_cases h1 : len = 1
    · subst h1; exact rec_sim1 oracle fuel cap total (F + 1) index r stack k hP (by omega) (by omega) hsc
    -- the recursive case
    have hrl : 2 * len / 3 < len := by omega
    have hr1 : 1 ≤ 2 * len / 3 := by omega
    by_cases hc' : ¬ stack.length < cap
    · exfalso
      have hoob : (rec cap total (F + 1 + 1) len index r stack).1 = [.oob stack.length cap] := by
        simp [rec, h0, h1, hc']
      rw [hoob] at hno
      exact hno (.oob stack.length cap) (List.mem_singleton.2 rfl) stack.length cap rfl
    have hc : stack.length < cap := Classical.not_not.mp hc'
    -- hand side
    have hrec : rec cap total (F + 1 + 1) len index r stack =
        (.split stack.length (len - 2 * len / 3) (2 * len / 3) ::
          (rec cap total (F + 1) (2 * len / 3) index (r - (len - 2 * len / 3)) (stack ++ [r])).1 ++
          (rec cap total (F + 1) (len - 2 * len / 3) (2 * len / 3 + index)
            ((rec cap total (F + 1) (2 * len / 3) index (r - (len - 2 * len / 3)) (stack ++ [r])).2.getD stack.length 0)
            ((rec cap total (F + 1) (2 * len / 3) index (r - (len - 2 * len / 3)) (stack ++ [r])).2.take stack.length)).1,
         (rec cap total (F + 1) (len - 2 * len / 3) (2 * len / 3 + index)
            ((rec cap total (F + 1) (2 * len / 3) index (r - (len - 2 * len / 3)) (stack ++ [r])).2.getD stack.length 0)
            ((rec cap total (F + 1) (2 * len / 3) index (r - (len - 2 * len / 3)) (stack ++ [r])).2.take stack.length)).2) := by
      simp [rec, h0, h1, hc]
    rw [hrec] at hno ⊢
    obtain ⟨hno1, hno2⟩ := noOob_split _ _ _ hno
    generalize hm1 : rec cap total (F + 1) (2 * len / 3) index (r - (len - 2 * len / 3)) (stack ++ [r]) = m1 at hno1 hno2 ⊢
    have hlen1 : m1.2.length = stack.length + 1 := by
      rw [← hm1, rec_length]; simp
    -- skeleton side
    have er : 2 * (len : Int) / 3 = ((2 * len / 3 : Nat) : Int) := by omega
    have el : (len : Int) - ((2 * len / 3 : Nat) : Int) = ((len - 2 * len / 3 : Nat) : Int) := by omega
    rw [theta_chain_comput_rec]
    dsimp only
    rw [step_live _ k hP.kf hP.kb]
    rw [if_neg (by simp; omega)]
    rw [step_live _ k hP.kf hP.kb]
    rw [if_neg (by simp; omega)]
    simp only [er, el, Int.mul_zero, Int.add_zero, Int.zero_add]
    generalize hX : RecSt.step obs _ (RecSt.step obs _ (RecSt.step obs _ (RecSt.step obs _ k))) = X
    have hs0 : (0 : Int) ≤ (stack.length : Int) := by omega
    have hs1 : (stack.length : Int) < (cap : Int) := by omega
    have hl0 : (0 : Int) ≤ ((len - 2 * len / 3 : Nat) : Int) := by omega
    have hXe : X = { k with obs := { k.obs with
        r1 := fun x => if x = 0 then some (r - (len - 2 * len / 3)) else k.obs.r1 x,
        r2 := fun x => if x = 0 then some (r - (len - 2 * len / 3)) else k.obs.r2 x,
        p1 := fun x => if x = (stack.length : Int) then some r else k.obs.p1 x,
        p2 := fun x => if x = (stack.length : Int) then some r else k.obs.p2 x } } := by
      rw [← hX]
      simp [RecSt.step, RecSt.live, obs, ev, OSt.inb, OSt.size, OSt.get, OSt.put, OSt.fail, EvKind.copyA, EvKind.dblIter,
        hP.kf, hP.kb, hP.rs, hP.cp, hP.r1, hP.r2, hs0, hs1, hl0]
    clear hX
    have hPre1 : Pre X cap total (r - (len - 2 * len / 3)) (stack ++ [r]) := by
      rw [hXe]
      refine ⟨hP.kf, hP.kb, by simp, by simp, hP.rs, hP.cp, hP.tt, ?_, ?_⟩
      · intro i hi
        simp only [List.length_append, List.length_singleton] at hi
        by_cases hil : i < stack.length
        · have hne : ¬ (i : Int) = (stack.length : Int) := by omega
          simp [hne, hP.p1 i hil, List.getElem_append_left hil]
        · have hie : i = stack.length := by omega
          subst hie; simp
      · intro i hi
        simp only [List.length_append, List.length_singleton] at hi
        by_cases hil : i < stack.length
        · have hne : ¬ (i : Int) = (stack.length : Int) := by omega
          simp [hne, hP.p2 i hil, List.getElem_append_left hil]
        · have hie : i = stack.length := by omega
          subst hie; simp
    have hXs : X.obs.steps = k.obs.steps := by rw [hXe]
    rw [step_live _ X hPre1.kf hPre1.kb]
    have P1 := ih (2 * len / 3) index (r - (len - 2 * len / 3)) (stack ++ [r]) X (by omega) (by omega)
      (by simp; omega) hPre1 (by rw [hm1]; exact hno1)
    have es : (((stack ++ [r]).length : Nat) : Int) = (stack.length : Int) + 1 := by simp
    rw [es, hm1] at P1
    generalize hK2 : theta_chain_comput_rec obs [] oracle fuel (F + 1) _ _ 0 _ _ 0 0 0 0 X = K2 at P1 ⊢
    clear hK2
    have hp1s := P1.p1 stack.length (by omega)
    have hp2s := P1.p2 stack.length (by omega)
    have hr' : m1.2.getD stack.length 0 = m1.2[stack.length]'(by omega) := by
      simp [List.getD, List.getElem?_eq_getElem (show stack.length < m1.2.length by omega)]
    generalize hK3 : RecSt.step obs _ (RecSt.step obs _ K2) = K3
    have hK3e : K3 = { K2 with obs := { K2.obs with
        r1 := fun x => if x = 0 then some (m1.2[stack.length]'(by omega)) else K2.obs.r1 x,
        r2 := fun x => if x = 0 then some (m1.2[stack.length]'(by omega)) else K2.obs.r2 x } } := by
      rw [← hK3]
      simp [RecSt.step, RecSt.live, obs, ev, OSt.inb, OSt.size, OSt.get, OSt.put, OSt.fail, EvKind.copyA,
        P1.kf, P1.kb, P1.rs, P1.cp, hp1s, hp2s, hs0, hs1]
    clear hK3
    have htl : (m1.2.take stack.length).length = stack.length := by simp [List.length_take]; omega
    have hPre2 : Pre K3 cap total (m1.2.getD stack.length 0) (m1.2.take stack.length) := by
      rw [hK3e, hr']
      refine ⟨P1.kf, P1.kb, by simp, by simp, P1.rs, P1.cp, P1.tt, ?_, ?_⟩
      · intro i hi
        have hil : i < stack.length := by omega
        simp only []
        rw [P1.p1 i (by omega)]
        simp [List.getElem_take]
      · intro i hi
        have hil : i < stack.length := by omega
        simp only []
        rw [P1.p2 i (by omega)]
        simp [List.getElem_take]
    have hK3s : K3.obs.steps = K2.obs.steps := by rw [hK3e]
    rw [step_live _ K3 hPre2.kf hPre2.kb]
    have P2 := ih (len - 2 * len / 3) (2 * len / 3 + index) (m1.2.getD stack.length 0) (m1.2.take stack.length) K3
      (by omega) (by omega) (by omega) hPre2 hno2
    have e3 : (((m1.2.take stack.length).length : Nat) : Int) = (stack.length : Int) := by rw [htl]
    have e4 : ((2 * len / 3 + index : Nat) : Int) = ((2 * len / 3 : Nat) : Int) + (index : Int) := by push_cast; rfl
    rw [e3, e4] at P2
    refine ⟨P2.kf, P2.kb, P2.rs, P2.cp, P2.tt, P2.p1, P2.p2, ?_⟩
    rw [P2.sp, hK3s, P1.sp, hXs]
    simp [mStep, List.flatMap_append, List.append_assoc]
end Main


/-! ### consequences for `theta_chain_comput_balanced` -/

theorem noOob_of_bevOk (cap : Nat) (evs : List BEv) (h : evs.all (bevOk cap) = true) : noOob evs := by
  intro e he a b hab
  have := List.all_eq_true.1 h e he
  subst hab
  simp [bevOk] at this

theorem steps_of_bevOk (cap : Nat) : ∀ (evs : List BEv), evs.all (bevOk cap) = true →
    (evs.flatMap mStep).map (fun s => s.1) = (stepIdx evs).map (fun (i : Nat) => (i : Int)) ∧
    ∀ s ∈ evs.flatMap mStep, s.2.1 = 3 := by
  intro evs
  induction evs with
  | nil => intro _; simp [stepIdx]
  | cons e evs ih =>
    intro h
    simp only [List.all_cons, Bool.and_eq_true] at h
    obtain ⟨i1, i2⟩ := ih h.2
    cases e with
    | step i sl t k m =>
      have hk : k = 3 := by have := h.1; simp [bevOk] at this; exact this.1
      refine ⟨by simp [mStep, stepIdx, i1], ?_⟩
      intro s hs
      simp only [List.flatMap_cons, mStep, List.cons_append, List.nil_append, List.mem_cons] at hs
      rcases hs with rfl | hs
      · exact hk
      · exact i2 s hs
    | split a b c => exact ⟨by simp [mStep, stepIdx, i1], by simpa [mStep] using i2⟩
    | oob a b => have := h.1; simp [bevOk] at this

/-- **the middle part of `theta_chain_comput_balanced` as translated text** (every n ≥ 4): with the stack size
    `10·⌊log2(n-3)⌋ + 1` of the C no stack overflow and no other fault, exactly the steps 0 … n-4 in order, every kernel
    pair of exponent 3 (order 8), the carried pair ends with exponent 4 -/
theorem balanced_skel_sound (oracle : Nat → Bool) (fuel n : Nat) (hn : 4 ≤ n) (hf : balancedCap n ≤ fuel) :
    ∃ k, k = theta_chain_comput_rec obs [] oracle fuel (n + 1) ((n - 3 : Nat) : Int) ((0 : Nat) : Int) 0
        (([n + 1].length : Nat) : Int) (n : Int) 0 0 0 0 (RecSt.init (OSt.entry (balancedCap n) n (n + 1 - 2) [n + 1])) ∧
    k.fault = none ∧ k.obs.bad = false ∧
    k.obs.steps.map (fun s => s.1) = (List.range' 0 (n - 3)).map (fun (i : Nat) => (i : Int)) ∧
    (∀ s ∈ k.obs.steps, s.2.1 = 3) ∧ k.obs.p1 0 = some 4 ∧ k.obs.p2 0 = some 4 := by
  refine ⟨_, rfl, ?_⟩
  obtain ⟨b1, b2, b3⟩ := balanced_sound n hn
  unfold balanced at b1 b2 b3
  have hPre : Pre (RecSt.init (OSt.entry (balancedCap n) n (n + 1 - 2) [n + 1])) (balancedCap n) n (n + 1 - 2) [n + 1] := by
    refine ⟨rfl, rfl, by simp [RecSt.init, OSt.entry], by simp [RecSt.init, OSt.entry], rfl, rfl, rfl, ?_, ?_⟩
    · intro i hi
      have : i = 0 := by simpa using hi
      subst this; simp [RecSt.init, OSt.entry]
    · intro i hi
      have : i = 0 := by simpa using hi
      subst this; simp [RecSt.init, OSt.entry]
  have hcap : 1 ≤ balancedCap n := by unfold balancedCap; omega
  have P := rec_sim oracle fuel (balancedCap n) n hf n (n - 3) 0 (n + 1 - 2) [n + 1] _ (by omega) (by omega) (by simpa using hcap) hPre
    (noOob_of_bevOk _ _ b2)
  obtain ⟨s1, s2⟩ := steps_of_bevOk _ _ b2
  have hp1 := P.p1 0 (by rw [b1]; simp)
  have hp2 := P.p2 0 (by rw [b1]; simp)
  simp only [b1] at hp1 hp2
  refine ⟨P.kf, P.kb, ?_, ?_, by simpa using hp1, by simpa using hp2⟩
  · rw [P.sp]
    simp only [RecSt.init, OSt.entry, List.nil_append]
    rw [s1, b3]
  · intro s hs
    rw [P.sp] at hs
    simp only [RecSt.init, OSt.entry, List.nil_append] at hs
    exact s2 s hs

end SqiProofs.SkelRecSim

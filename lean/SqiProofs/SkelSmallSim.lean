/-
Simulation between the integer skeleton `SqiGen.ChainSkel.ec_eval_small_chain` (naive chain, re-extracted from the C text
on every run) and the hand model `SqiModel.EvenChain.smallChain`, for ALL lengths, all kernel exponents and every
per-iteration outcome of the singular test.
-/
import SqiModel.SkelSmall
import SqiProofs.EvenChain

namespace SqiProofs.SkelSmallSim
open SqiGen.ChainSkel SqiModel.Skel SqiModel.SkelSmall SqiModel.EvenChain

theorem step_live (f : SmallSt OSt → SmallSt OSt) (k : SmallSt OSt) (hf : k.fault = none) (hb : k.obs.bad = false) :
    SmallSt.step obs f k = f k := by
  simp [SmallSt.step, SmallSt.live, obs, hf, hb]

/-- kernel exponent / step index of an event of the hand model -/
def kerOf : SEv → Nat
  | .iso2 _ _ k => k
def idxOf : SEv → Nat
  | .iso2 i _ _ => i

section Loops
variable (oracle : Nat → Bool) (fuel : Nat) (len : Nat) (lp : Int)

/-- the inner `for (j …) xDBL_A24(&small_K, &small_K, &A24)`: `rem` more doublings -/
theorem inner : ∀ (rem f : Nat) (k : SmallSt OSt) (v : Nat), k.fault = none → k.obs.bad = false →
    k.obs.small = some v → k.j + (rem : Int) = (len : Int) - k.i - 1 → rem ≤ f →
    whileF (SmallSt.live obs)
      (fun s => match ec_eval_small_chain_loop1_cond obs [] oracle fuel len lp s with | .ok b => b | .error _ => true)
      (fun s => match ec_eval_small_chain_loop1_cond obs [] oracle fuel len lp s with
        | .ok _ => ec_eval_small_chain_loop1_body obs [] oracle fuel len lp s | .error f => s.fail f)
      (fun s => s.fail .fuel) f k =
      { k with j := k.j + (rem : Int), obs := { k.obs with small := some (v - rem) } } := by
  intro rem
  induction rem with
  | zero =>
    intro f k v hf hb hv hj _
    rw [whileF_stop _ _ _ _ _ _ (by simp [ec_eval_small_chain_loop1_cond]; omega)]
    cases k with
    | mk i j fault o =>
      cases o
      simp at hv ⊢
      exact hv
  | succ rem ih =>
    intro f k v hf hb hv hj hle
    obtain ⟨f', rfl⟩ : ∃ f', f = f' + 1 := ⟨f - 1, by omega⟩
    have hlive : SmallSt.live obs k = true := by simp [SmallSt.live, obs, hf, hb]
    rw [whileF_step _ _ _ _ _ _ (by simp [ec_eval_small_chain_loop1_cond, hlive]; omega)]
    have hbody : (match ec_eval_small_chain_loop1_cond obs [] oracle fuel len lp k with
        | .ok _ => ec_eval_small_chain_loop1_body obs [] oracle fuel len lp k | .error f => k.fail f) =
        { k with j := k.j + 1, obs := { k.obs with small := some (v - 1) } } := by
      simp [ec_eval_small_chain_loop1_cond, ec_eval_small_chain_loop1_body, SmallSt.step, SmallSt.live, obs, hf, hb,
        EvKind.dbl, ev, hv]
    rw [hbody]
    rw [ih f' { k with j := k.j + 1, obs := { k.obs with small := some (v - 1) } } (v - 1) hf hb rfl
      (by simp only []; push_cast at hj ⊢; omega) (by omega)]
    simp only [SmallSt.mk.injEq, true_and, and_true]
    constructor
    · push_cast; omega
    · congr 2; omega

/-- observer after iteration `i` with `big_K` of exponent `e` -/
def iterObs (o : OSt) (i e : Nat) : OSt :=
  { o with big := some (e - 1), small := some (e - (len - i - 1)),
           reads := o.reads ++ [e - (len - i - 1)],
           isos := if oracle (0 + 1 * i) then o.isos else o.isos ++ [e - (len - i - 1)],
           nsteps := o.nsteps + 1 }

/-- one iteration of the main loop in closed form -/
theorem body0 (k : SmallSt OSt) (i e : Nat) (hf : k.fault = none) (hb : k.obs.bad = false) (hi : k.i = (i : Int))
    (hil : i < len) (he : k.obs.big = some e) (hfu : len ≤ fuel) :
    ec_eval_small_chain_loop0_body obs [] oracle fuel len lp k =
      { k with i := (i : Int) + 1, j := ((len - i - 1 : Nat) : Int), obs := iterObs oracle len k.obs i e } := by
  unfold ec_eval_small_chain_loop0_body
  rw [step_live _ k hf hb]
  dsimp only
  have e1 : obs.ev k.obs EvKind.copy [1, 0] = { k.obs with small := some e } := by
    simp [obs, EvKind.copy, ev, hb, he]
  rw [e1]
  rw [step_live _ { k with obs := { k.obs with small := some e } } hf hb]
  dsimp only
  rw [step_live _ { k with j := 0, obs := { k.obs with small := some e } } hf hb]
  erw [inner oracle fuel len lp (len - i - 1) fuel { k with j := 0, obs := { k.obs with small := some e } } e hf hb rfl
    (by simp only [hi]; omega) (by omega)]
  dsimp only
  by_cases ho : oracle i = true
  · simp [SmallSt.step, SmallSt.live, obs, hf, hb, hi, EvKind.read, EvKind.eval2, EvKind.isog2, ev, he, ho, iterObs]
  · simp [SmallSt.step, SmallSt.live, obs, hf, hb, hi, EvKind.read, EvKind.eval2, EvKind.isog2, ev, he, ho, iterObs]

/-- what the hand model predicts for the logs of `cnt` iterations from step `i` with `big_K` of exponent `e` -/
def isosOf (l : List SEv) : List Nat := (l.filter (fun ev => !oracle (0 + 1 * idxOf ev))).map kerOf

/-- the main loop ≙ `smallLoop` -/
theorem loop0 : ∀ (cnt f i e : Nat) (k : SmallSt OSt), k.fault = none → k.obs.bad = false → k.i = (i : Int) →
    i + cnt = len → k.obs.big = some e → cnt ≤ f → len ≤ fuel →
    ∃ k', whileF (SmallSt.live obs)
      (fun s => match ec_eval_small_chain_loop0_cond obs [] oracle fuel len lp s with | .ok b => b | .error _ => true)
      (fun s => match ec_eval_small_chain_loop0_cond obs [] oracle fuel len lp s with
        | .ok _ => ec_eval_small_chain_loop0_body obs [] oracle fuel len lp s | .error f => s.fail f)
      (fun s => s.fail .fuel) f k = k' ∧
      k'.fault = none ∧ k'.obs.bad = false ∧ k'.i = (len : Int) ∧ k'.obs.big = some (e - cnt) ∧
      k'.obs.reads = k.obs.reads ++ (smallLoop len cnt i e).map kerOf ∧
      k'.obs.isos = k.obs.isos ++ isosOf oracle (smallLoop len cnt i e) ∧
      k'.obs.nsteps = k.obs.nsteps + cnt := by
  intro cnt
  induction cnt with
  | zero =>
    intro f i e k hf hb hi hil he _ _
    refine ⟨k, ?_, hf, hb, by rw [hi]; omega, by simpa using he, by simp [smallLoop], by simp [smallLoop, isosOf], rfl⟩
    rw [whileF_stop _ _ _ _ _ _ (by simp [ec_eval_small_chain_loop0_cond, hi]; omega)]
  | succ cnt ih =>
    intro f i e k hf hb hi hil he hle hfu
    obtain ⟨f', rfl⟩ : ∃ f', f = f' + 1 := ⟨f - 1, by omega⟩
    have hlive : SmallSt.live obs k = true := by simp [SmallSt.live, obs, hf, hb]
    rw [whileF_step _ _ _ _ _ _ (by simp [ec_eval_small_chain_loop0_cond, hi, hlive]; omega)]
    have hbody : (match ec_eval_small_chain_loop0_cond obs [] oracle fuel len lp k with
        | .ok _ => ec_eval_small_chain_loop0_body obs [] oracle fuel len lp k | .error f => k.fail f) =
        ec_eval_small_chain_loop0_body obs [] oracle fuel len lp k := by
      simp [ec_eval_small_chain_loop0_cond]
    rw [hbody, body0 oracle fuel len lp k i e hf hb hi (by omega) he hfu]
    obtain ⟨k', h1, h2, h3, h4, h5, h6, h7, h8⟩ := ih f' (i + 1) (e - 1)
      { k with i := (i : Int) + 1, j := ((len - i - 1 : Nat) : Int), obs := iterObs oracle len k.obs i e }
      hf (by simp [iterObs, hb]) (by simp) (by omega) (by simp [iterObs]) (by omega) hfu
    refine ⟨k', h1, h2, h3, h4, by rw [h5]; congr 1; omega, ?_, ?_, ?_⟩
    · rw [h6]; simp [iterObs, smallLoop, kerOf]
    · rw [h7]
      by_cases ho : oracle i = true
      · simp [iterObs, smallLoop, isosOf, idxOf, kerOf, ho]
      · simp [iterObs, smallLoop, isosOf, idxOf, kerOf, ho]
    · rw [h8]; simp [iterObs]; omega
end Loops

/-- **the translated naive chain refines the hand model** (all lengths, all kernel exponents, every outcome of the
    singular test in every iteration, any `len_points`, fuel ≥ len): no fault, `len` steps, the exponent of `small_K` at
    every branch decision is the kernel exponent of the hand model's step, the kernels passed to `xisog_2` are those of
    the steps that took the regular branch, `big_K` ends with exponent `e - len`. -/
theorem small_refines (oracle : Nat → Bool) (fuel len : Nat) (lp : Int) (e : Nat) (hfu : len ≤ fuel) :
    let k := runSmall oracle fuel len lp e
    k.fault = none ∧ k.obs.bad = false ∧ k.obs.nsteps = len ∧ k.obs.big = some (e - len) ∧
    k.obs.reads = (smallChain len e).map kerOf ∧ k.obs.isos = isosOf oracle (smallChain len e) := by
  unfold runSmall ec_eval_small_chain
  rw [step_live _ _ rfl rfl]
  dsimp only
  have e0 : obs.ev (SmallSt.init (OSt.init e)).obs EvKind.copyIn [0] = { OSt.init e with big := some e } := by
    simp [obs, EvKind.copyIn, ev, SmallSt.init, OSt.init]
  rw [e0]
  rw [step_live _ _ rfl rfl]
  dsimp only
  rw [step_live _ _ rfl rfl]
  obtain ⟨k', h1, h2, h3, h4, h5, h6, h7, h8⟩ := loop0 oracle fuel len lp len fuel 0 e
    { SmallSt.init (OSt.init e) with i := 0, obs := { OSt.init e with big := some e } } rfl rfl rfl (by omega) rfl hfu hfu
  erw [h1]
  refine ⟨h2, h3, by rw [h8]; simp [OSt.init], h5, by rw [h6]; simp [OSt.init, smallChain], by rw [h7]; simp [OSt.init, smallChain]⟩

end SqiProofs.SkelSmallSim

/-
(derived from SkelThetaConv.lean by tools/dev/dup_theta_sim.py — edit that file, not this one)
Converse of `SqiProofs.SkelThetaFSim`: whenever the hand model `SqiModel.ThetaChain.chain` faults, the run of the generated
skeleton `SqiGen.ChainSkel.theta_chain_comput_strategy_faster_no_eval` ends in a dead state — so the fault status of the translated text
and of the hand model coincide (`skel_live_iff`).
-/
import SqiProofs.SkelThetaFSim

namespace SqiProofs.SkelThetaFConv
open SqiGen.ChainSkel SqiModel.Skel SqiModel.SkelTheta SqiModel.ThetaChain SqiProofs.ThetaChain SqiProofs.SkelThetaFSim

def Dead (k : ThetaFSt OSt) : Prop := ThetaFSt.live obs k = false

theorem step_dead (f : ThetaFSt OSt → ThetaFSt OSt) (k : ThetaFSt OSt) (h : Dead k) : ThetaFSt.step obs f k = k := by
  unfold Dead at h
  simp [ThetaFSt.step, h]

theorem whileF_dead (c : ThetaFSt OSt → Bool) (b oof : ThetaFSt OSt → ThetaFSt OSt) (f : Nat) (k : ThetaFSt OSt) (h : Dead k) :
    whileF (ThetaFSt.live obs) c b oof f k = k := by
  unfold Dead at h
  exact whileF_stop _ _ _ _ _ _ (by simp [h])

theorem dead_of_bad (k : ThetaFSt OSt) (h : k.obs.bad = true) : Dead k := by
  simp [Dead, ThetaFSt.live, obs_ok, h]
theorem dead_of_fault (k : ThetaFSt OSt) (e : Fault) (h : k.fault = some e) : Dead k := by
  simp [Dead, ThetaFSt.live, h]
theorem live_iff (k : ThetaFSt OSt) : ¬ Dead k ↔ (k.fault = none ∧ k.obs.bad = false) := by
  unfold Dead
  simp [ThetaFSt.live, obs_ok]

theorem rdRow_err (row : List Nat) (i : Nat) (h : row.length ≤ i) : ∃ f, rdRow row (i : Int) = .error f := by
  have h3 : ¬ ((0 : Int) ≤ (i : Int) ∧ (i : Int) < (row.length : Int)) := by omega
  unfold rdRow
  rw [if_neg h3]
  exact ⟨_, rfl⟩

/-! ### events that fail -/

theorem ev_dblP_bad (o : OSt) (a d k s : Int)
    (h : ¬ (o.inb a d = true ∧ o.inb a s = true ∧ (o.arr a s).isSome = true)) : (ev o 19 [a, d, k, a, s]).bad = true := by
  by_cases hb : o.bad = true
  · simp [ev, hb]
  · have hb' : o.bad = false := by simpa using hb
    by_cases h1 : (o.inb a d && o.inb a s) = true
    · cases hs : o.arr a s with
      | none => simp [ev, hb', h1, hs, OSt.fail]
      | some v =>
        exfalso; apply h
        simp only [Bool.and_eq_true] at h1
        exact ⟨h1.1, h1.2, by simp [hs]⟩
    · simp [ev, hb', h1, OSt.fail]

theorem ev_dblQ_bad (o : OSt) (a d k s : Int)
    (h : ¬ (o.inb a d = true ∧ o.inb a s = true ∧ (o.arr a s).isSome = true)) : (ev o 9 [a, d, a, s, k]).bad = true := by
  by_cases hb : o.bad = true
  · simp [ev, hb]
  · have hb' : o.bad = false := by simpa using hb
    by_cases h1 : (o.inb a d && o.inb a s) = true
    · cases hs : o.arr a s with
      | none => simp [ev, hb', h1, hs, OSt.fail]
      | some v =>
        exfalso; apply h
        simp only [Bool.and_eq_true] at h1
        exact ⟨h1.1, h1.2, by simp [hs]⟩
    · simp [ev, hb', h1, OSt.fail]

theorem ev_read_bad (o : OSt) (a s : Int) (h : ¬ (o.inb a s = true ∧ (o.arr a s).isSome = true)) :
    (ev o 5 [a, s]).bad = true := by
  by_cases hb : o.bad = true
  · simp [ev, hb]
  · have hb' : o.bad = false := by simpa using hb
    by_cases h1 : o.inb a s = true
    · cases hs : o.arr a s with
      | none => simp [ev, hb', h1, hs, OSt.fail]
      | some v => exfalso; exact h ⟨h1, by simp [hs]⟩
    · simp [ev, hb', h1, OSt.fail]

theorem ev_vla_bad (o : OSt) (a n : Int) (h : ¬ 0 < n) : (ev o 1 [a, n]).bad = true := by
  by_cases hb : o.bad = true
  · simp [ev, hb]
  · have hb' : o.bad = false := by simpa using hb
    simp [ev, hb', h, OSt.fail]

section Loop0
variable (P : Params) (oracle : Nat → Bool) (fuel : Nat) (ea : Int)

/-- the first `while` dies when `phase1` faults -/
theorem loop0_dead : ∀ (f : Nat) (k : ThetaFSt OSt) (m : St), k.fault = none → k.obs.bad = false → m.err = none →
    k.index = (m.index : Int) → k.len_count = m.lenCount → k.adjusting = (P.adj : Int) →
    (phase1 P m).err ≠ none →
    Dead (whileF (ThetaFSt.live obs)
      (fun s => match theta_chain_comput_strategy_faster_no_eval_loop0_cond obs P.row oracle fuel P.n ea s with | .ok b => b | .error _ => true)
      (fun s => match theta_chain_comput_strategy_faster_no_eval_loop0_cond obs P.row oracle fuel P.n ea s with
        | .ok _ => theta_chain_comput_strategy_faster_no_eval_loop0_body obs P.row oracle fuel P.n ea s | .error f => s.fail f)
      (fun s => s.fail .fuel) f k) := by
  intro f
  induction f with
  | zero =>
    intro k m hf hb he hi hc ha hpe
    have hm : P.m = (P.n : Int) - 1 - (P.adj : Int) := rfl
    by_cases hstop : m.lenCount = P.m ∨ ¬ m.index < P.n + 10
    · exfalso
      have hph : phase1 P m = m := by
        rw [phase1]
        rcases hstop with h | h
        · simp [he, h]
        · simp [he, h]
      rw [hph] at hpe; exact hpe he
    · have hlive : ThetaFSt.live obs k = true := by simp [ThetaFSt.live, obs, hf, hb]
      have hcond : (ThetaFSt.live obs k && (match theta_chain_comput_strategy_faster_no_eval_loop0_cond obs P.row oracle fuel P.n ea k with
          | .ok b => b | .error _ => true)) = true := by
        simp only [theta_chain_comput_strategy_faster_no_eval_loop0_cond, hc, hi, ha, hlive]
        simp; constructor
        · intro h; apply hstop; left; rw [hm]; omega
        · by_cases h : m.index < P.n + 10
          · omega
          · exact absurd (Or.inr h) hstop
      simp only [whileF, hcond, if_true]
      exact dead_of_fault _ .fuel rfl
  | succ f ih =>
    intro k m hf hb he hi hc ha hpe
    have hm : P.m = (P.n : Int) - 1 - (P.adj : Int) := rfl
    by_cases hstop : m.lenCount = P.m ∨ ¬ m.index < P.n + 10
    · exfalso
      have hph : phase1 P m = m := by
        rw [phase1]
        rcases hstop with h | h
        · simp [he, h]
        · simp [he, h]
      rw [hph] at hpe; exact hpe he
    · have h1 : m.lenCount ≠ P.m := fun h => hstop (Or.inl h)
      have h2 : m.index < P.n + 10 := by
        by_cases h : m.index < P.n + 10
        · exact h
        · exact absurd (Or.inr h) hstop
      have hlive : ThetaFSt.live obs k = true := by simp [ThetaFSt.live, obs, hf, hb]
      rw [whileF_step _ _ _ _ _ _ (by
        simp only [theta_chain_comput_strategy_faster_no_eval_loop0_cond, hc, hi, ha, hlive]
        simp; constructor
        · intro h; apply h1; rw [hm]; omega
        · omega)]
      by_cases h3 : m.index < P.row.length
      · have hbody : (match theta_chain_comput_strategy_faster_no_eval_loop0_cond obs P.row oracle fuel P.n ea k with
            | .ok _ => theta_chain_comput_strategy_faster_no_eval_loop0_body obs P.row oracle fuel P.n ea k | .error f => k.fail f) =
            { k with len_count := m.lenCount + ((P.row[m.index] : Nat) : Int), index := ((m.index + 1 : Nat) : Int) } := by
          simp [theta_chain_comput_strategy_faster_no_eval_loop0_cond, theta_chain_comput_strategy_faster_no_eval_loop0_body, ThetaFSt.step, ThetaFSt.live, obs,
            hf, hb, hi, hc, rdRow_ok P.row m.index h3]
        rw [hbody]
        rw [phase1_step P m he h1 h2 h3] at hpe
        exact ih { k with len_count := m.lenCount + ((P.row[m.index] : Nat) : Int), index := ((m.index + 1 : Nat) : Int) }
          { m with lenCount := m.lenCount + P.row[m.index], index := m.index + 1,
                   trace := m.trace ++ [.p1 m.index P.row[m.index] m.lenCount] }
          hf hb he rfl rfl ha hpe
      · obtain ⟨e, hre⟩ := rdRow_err P.row m.index (by omega)
        have hbody : (match theta_chain_comput_strategy_faster_no_eval_loop0_cond obs P.row oracle fuel P.n ea k with
            | .ok _ => theta_chain_comput_strategy_faster_no_eval_loop0_body obs P.row oracle fuel P.n ea k | .error f => k.fail f) =
            k.fail e := by
          simp [theta_chain_comput_strategy_faster_no_eval_loop0_cond, theta_chain_comput_strategy_faster_no_eval_loop0_body, ThetaFSt.step, ThetaFSt.live, obs,
            hf, hb, hi, hre, ThetaFSt.fail]
        rw [hbody]
        have hd : Dead (k.fail e) := dead_of_fault _ e rfl
        rw [whileF_dead _ _ _ _ _ hd]
        exact hd
end Loop0


theorem buildPts_step (P : Params) (cnt j : Nat) (m : St) (o : Nat) (he0 : m.err = none) (h : j < P.row.length)
    (hn : j + 1 < P.n) (ho : m.pts j = some o) :
    buildPts P (cnt + 1) (j + 1) m = buildPts P cnt (j + 1 + 1) (ptsd m (j + 1) P.row[j] o) := by
  have h1 : idxOK ((j : Int) + 1) P.n = true := by simp [idxOK]; omega
  have h2 : idxOK (j : Int) P.n = true := by simp [idxOK]; omega
  simp [buildPts, he0, h, h1, h2, ho, St.emit, ptsd]

section Loop1
variable (P : Params) (oracle : Nat → Bool) (fuel : Nat) (ea : Int)

theorem body1_dead (g : Nat → Option Nat) (k : ThetaFSt OSt) (m : St) (R : RelQ P g k m) (j : Nat)
    (hi : k.i = (j : Int) + 1) (hc : ¬ (j < P.row.length ∧ j + 1 < P.n ∧ (m.pts j).isSome = true)) :
    Dead (theta_chain_comput_strategy_faster_no_eval_loop1_body obs P.row oracle fuel P.n ea k) := by
  have hf := R.kf
  have hb := R.kb
  by_cases hr : j < P.row.length
  · have hrd := rdRow_ok P.row j hr
    have hbad : (ev k.obs 19 [1, (j : Int) + 1, ((P.row[j] : Nat) : Int), 1, (j : Int)]).bad = true := by
      apply ev_dblP_bad
      intro h
      apply hc
      obtain ⟨h1, h2, h3⟩ := h
      simp only [OSt.inb, R.s1, Bool.and_eq_true, decide_eq_true_eq] at h1
      rw [R.a1] at h3
      exact ⟨hr, by omega, h3⟩
    simp [Dead, theta_chain_comput_strategy_faster_no_eval_loop1_body, ThetaFSt.step, ThetaFSt.live, obs, hf, hb, hi, hrd, EvKind.dblIterP, hbad]
  · obtain ⟨e, hre⟩ := rdRow_err P.row j (by omega)
    simp [Dead, theta_chain_comput_strategy_faster_no_eval_loop1_body, ThetaFSt.step, ThetaFSt.live, obs, hf, hb, hi, hre, ThetaFSt.fail]

/-- the construction of `points1/2[]` dies when `buildPts` faults -/
theorem pts_dead (g : Nat → Option Nat) : ∀ (cnt f j : Nat) (k : ThetaFSt OSt) (m : St), RelQ P g k m →
    k.i = (j : Int) + 1 → m.lenList = (j : Int) + 1 + (cnt : Int) → (buildPts P cnt (j + 1) m).err ≠ none →
    Dead (whileF (ThetaFSt.live obs)
        (fun s => match theta_chain_comput_strategy_faster_no_eval_loop1_cond obs P.row oracle fuel P.n ea s with | .ok b => b | .error _ => true)
        (fun s => match theta_chain_comput_strategy_faster_no_eval_loop1_cond obs P.row oracle fuel P.n ea s with
          | .ok _ => theta_chain_comput_strategy_faster_no_eval_loop1_body obs P.row oracle fuel P.n ea s | .error f => s.fail f)
        (fun s => s.fail .fuel) f k) := by
  intro cnt
  induction cnt with
  | zero => intro f j k m R _ _ he; exact absurd R.me he
  | succ cnt ih =>
    intro f j k m R hi hl he
    have hlive : ThetaFSt.live obs k = true := by simp [ThetaFSt.live, obs, R.kf, R.kb]
    have hcond : (ThetaFSt.live obs k && (match theta_chain_comput_strategy_faster_no_eval_loop1_cond obs P.row oracle fuel P.n ea k with
        | .ok b => b | .error _ => true)) = true := by
      simp [theta_chain_comput_strategy_faster_no_eval_loop1_cond, hi, R.ll, hl, hlive]; omega
    cases f with
    | zero =>
      simp only [whileF, hcond, if_true]
      exact dead_of_fault _ .fuel rfl
    | succ f' =>
      rw [whileF_step _ _ _ _ _ _ hcond]
      have hbody : (match theta_chain_comput_strategy_faster_no_eval_loop1_cond obs P.row oracle fuel P.n ea k with
          | .ok _ => theta_chain_comput_strategy_faster_no_eval_loop1_body obs P.row oracle fuel P.n ea k | .error f => k.fail f) =
          theta_chain_comput_strategy_faster_no_eval_loop1_body obs P.row oracle fuel P.n ea k := by
        simp [theta_chain_comput_strategy_faster_no_eval_loop1_cond]
      rw [hbody]
      by_cases hc : j < P.row.length ∧ j + 1 < P.n ∧ (m.pts j).isSome = true
      · obtain ⟨h, hin, hs⟩ := hc
        obtain ⟨o, ho⟩ := Option.isSome_iff_exists.1 hs
        rw [buildPts_step P cnt j m o R.me h hin ho] at he
        obtain ⟨hb1, R'⟩ := pts_step P oracle fuel ea g j o k m R hi h hin ho
        rw [hb1]
        exact ih f' (j + 1) _ _ R' (by simp) (by simp only [ptsd]; rw [hl]; push_cast; omega) he
      · have hd := body1_dead P oracle fuel ea g k m R j hi hc
        rw [whileF_dead _ _ _ _ _ hd]
        exact hd
end Loop1


/-! ### the main loop: recomputation of `len_count` -/

theorem levelSum_none (lv : Nat → Option Nat) : ∀ (L : Nat), levelSum lv L = none → ∃ x, x < L ∧ lv x = none := by
  intro L
  induction L with
  | zero => intro h; simp [levelSum] at h
  | succ L ih =>
    intro h
    simp only [levelSum] at h
    cases h1 : levelSum lv L with
    | none => obtain ⟨x, hx, hn⟩ := ih h1; exact ⟨x, by omega, hn⟩
    | some a =>
      cases h2 : lv L with
      | none => exact ⟨L, by omega, h2⟩
      | some b => simp [h1, h2] at h

section Loop4
variable (P : Params) (oracle : Nat → Bool) (fuel : Nat) (ea : Int)

theorem loop4_dead (lv : Nat → Option Nat) : ∀ (cnt f j : Nat) (k : ThetaFSt OSt), k.fault = none → k.obs.bad = false →
    k.j = (j : Int) → k.len_list = (j : Int) + (cnt : Int) → k.level.size = (P.n : Int) →
    (∀ i : Nat, k.level.get (i : Int) = (lv i).map Int.ofNat) →
    (∃ x, j ≤ x ∧ x < j + cnt ∧ (P.n ≤ x ∨ lv x = none)) →
    Dead (whileF (ThetaFSt.live obs)
      (fun s => match theta_chain_comput_strategy_faster_no_eval_loop4_cond obs P.row oracle fuel P.n ea s with | .ok b => b | .error _ => true)
      (fun s => match theta_chain_comput_strategy_faster_no_eval_loop4_cond obs P.row oracle fuel P.n ea s with
        | .ok _ => theta_chain_comput_strategy_faster_no_eval_loop4_body obs P.row oracle fuel P.n ea s | .error f => s.fail f)
      (fun s => s.fail .fuel) f k) := by
  intro cnt
  induction cnt with
  | zero => intro f j k _ _ _ _ _ _ hx; obtain ⟨x, h1, h2, _⟩ := hx; omega
  | succ cnt ih =>
    intro f j k hf hb hj hl hsz hg hx
    have hlive : ThetaFSt.live obs k = true := by simp [ThetaFSt.live, obs, hf, hb]
    have hcond : (ThetaFSt.live obs k && (match theta_chain_comput_strategy_faster_no_eval_loop4_cond obs P.row oracle fuel P.n ea k with
        | .ok b => b | .error _ => true)) = true := by
      simp [theta_chain_comput_strategy_faster_no_eval_loop4_cond, hj, hl, hlive]; omega
    cases f with
    | zero =>
      simp only [whileF, hcond, if_true]
      exact dead_of_fault _ .fuel rfl
    | succ f' =>
      rw [whileF_step _ _ _ _ _ _ hcond]
      by_cases hgood : j < P.n ∧ (lv j).isSome = true
      · obtain ⟨b, hb1⟩ := Option.isSome_iff_exists.1 hgood.2
        have hin : k.level.inb (j : Int) = true := by simp [IArr.inb, hsz]; omega
        have hbody : (match theta_chain_comput_strategy_faster_no_eval_loop4_cond obs P.row oracle fuel P.n ea k with
            | .ok _ => theta_chain_comput_strategy_faster_no_eval_loop4_body obs P.row oracle fuel P.n ea k | .error f => k.fail f) =
            { k with j := ((j + 1 : Nat) : Int), len_count := k.len_count + (b : Int) } := by
          simp [theta_chain_comput_strategy_faster_no_eval_loop4_cond, theta_chain_comput_strategy_faster_no_eval_loop4_body, ThetaFSt.step, ThetaFSt.live, obs,
            hf, hb, hj, rdArr, hin, hg, hb1]
        rw [hbody]
        obtain ⟨x, h1, h2, h3⟩ := hx
        have hxj : x ≠ j := by
          intro h; subst h
          rcases h3 with h3 | h3
          · omega
          · rw [hb1] at h3; cases h3
        exact ih f' (j + 1) _ hf hb rfl (by simp only []; rw [hl]; push_cast; omega) hsz hg ⟨x, by omega, by omega, h3⟩
      · have hbody : Dead (match theta_chain_comput_strategy_faster_no_eval_loop4_cond obs P.row oracle fuel P.n ea k with
            | .ok _ => theta_chain_comput_strategy_faster_no_eval_loop4_body obs P.row oracle fuel P.n ea k | .error f => k.fail f) := by
          by_cases hjn : j < P.n
          · have hin : k.level.inb (j : Int) = true := by simp [IArr.inb, hsz]; omega
            have hnone : lv j = none := by
              cases hq : lv j with
              | none => rfl
              | some b => exact absurd ⟨hjn, by simp [hq]⟩ hgood
            simp [Dead, theta_chain_comput_strategy_faster_no_eval_loop4_cond, theta_chain_comput_strategy_faster_no_eval_loop4_body, ThetaFSt.step,
              ThetaFSt.live, obs, hf, hb, hj, rdArr, hin, hg, hnone, ThetaFSt.fail]
          · have hin : k.level.inb (j : Int) = false := by simp [IArr.inb, hsz]; omega
            simp [Dead, theta_chain_comput_strategy_faster_no_eval_loop4_cond, theta_chain_comput_strategy_faster_no_eval_loop4_body, ThetaFSt.step,
              ThetaFSt.live, obs, hf, hb, hj, rdArr, hin, ThetaFSt.fail]
        rw [whileF_dead _ _ _ _ _ hbody]
        exact hbody
end Loop4


/-! ### the main loop: the inner `while` -/

theorem pushBody_err_iff (P : Params) (s : St) (b : Nat) (he0 : s.err = none) :
    (pushBody P s b).err ≠ none ↔
      ¬ (idxOK s.lenList P.n = true ∧ idxOK (s.lenList - 1) P.n = true ∧ (s.q (s.lenList - 1).toNat).isSome = true) := by
  unfold pushBody
  by_cases h : (idxOK s.lenList P.n && idxOK (s.lenList - 1) P.n) = true
  · have h' := h
    simp only [Bool.and_eq_true] at h'
    simp only [h, if_true, h'.1, h'.2, true_and]
    cases ho : s.q (s.lenList - 1).toNat with
    | none => simp [St.fail]
    | some o => simp [St.emit, he0]
  · simp only [h, if_false]
    simp only [Bool.and_eq_true] at h
    simp [St.fail]
    intro h1 h2; exact absurd ⟨h1, h2⟩ h

section Loop5
variable (P : Params) (oracle : Nat → Bool) (fuel : Nat) (ea : Int)

theorem push_dead (k : ThetaFSt OSt) (m : St) (R : Rel P k m) (hs : m.index < P.row.length) (b : Nat)
    (he : (pushBody P m b).err ≠ none) :
    Dead (theta_chain_comput_strategy_faster_no_eval_loop5_body obs P.row oracle fuel P.n ea k) := by
  have hc := (pushBody_err_iff P m b R.me).1 he
  have hf := R.kf
  have hb := R.kb
  have hrd := rdRow_ok P.row m.index hs
  have hbad : (ev k.obs 9 [3, k.len_list, 3, k.len_list - 1, ((P.row[m.index] : Nat) : Int)]).bad = true := by
    apply ev_dblQ_bad
    intro h
    apply hc
    obtain ⟨h1, h2, h3⟩ := h
    simp only [OSt.inb, R.s3, R.ll, Bool.and_eq_true, decide_eq_true_eq] at h1 h2
    have hcn : m.lenList - 1 = (((m.lenList - 1).toNat : Nat) : Int) := by omega
    refine ⟨by simp [idxOK]; omega, by simp [idxOK]; omega, ?_⟩
    rw [R.ll, hcn, R.a3] at h3
    exact h3
  simp [Dead, theta_chain_comput_strategy_faster_no_eval_loop5_body, ThetaFSt.step, ThetaFSt.live, obs, hf, hb, R.ix, hrd, EvKind.dblIter, hbad]

theorem strat_dead (k : ThetaFSt OSt) (m : St) (R : Rel P k m) (hs : ¬ m.index < P.row.length) :
    Dead (theta_chain_comput_strategy_faster_no_eval_loop5_body obs P.row oracle fuel P.n ea k) := by
  obtain ⟨e, hre⟩ := rdRow_err P.row m.index (by omega)
  simp [Dead, theta_chain_comput_strategy_faster_no_eval_loop5_body, ThetaFSt.step, ThetaFSt.live, obs, R.kf, R.kb, R.ix, hre, ThetaFSt.fail]

theorem while_dead (i : Nat) : ∀ (n f : Nat) (k : ThetaFSt OSt) (m : St), Rel P k m → k.i = (i : Int) →
    P.row.length - m.index ≤ n → (whileLoop P i m).err ≠ none →
    Dead (whileF (ThetaFSt.live obs)
        (fun s => match theta_chain_comput_strategy_faster_no_eval_loop5_cond obs P.row oracle fuel P.n ea s with | .ok b => b | .error _ => true)
        (fun s => match theta_chain_comput_strategy_faster_no_eval_loop5_cond obs P.row oracle fuel P.n ea s with
          | .ok _ => theta_chain_comput_strategy_faster_no_eval_loop5_body obs P.row oracle fuel P.n ea s | .error f => s.fail f)
        (fun s => s.fail .fuel) f k) := by
  intro n
  induction n with
  | zero =>
    intro f k m R hi hn he
    have hm : P.m = (P.n : Int) - 1 - (P.adj : Int) := rfl
    by_cases hb : m.lenCount = P.m - 1 - (i : Int)
    · rw [whileLoop_exit P i m R.me hb] at he; exact absurd R.me he
    · have hlive : ThetaFSt.live obs k = true := by simp [ThetaFSt.live, obs, R.kf, R.kb]
      have hcond : (ThetaFSt.live obs k && (match theta_chain_comput_strategy_faster_no_eval_loop5_cond obs P.row oracle fuel P.n ea k with
          | .ok b => b | .error _ => true)) = true := by
        simp [theta_chain_comput_strategy_faster_no_eval_loop5_cond, R.lc, hi, R.ad, hlive]
        intro h; apply hb; rw [hm]; omega
      cases f with
      | zero => simp only [whileF, hcond, if_true]; exact dead_of_fault _ .fuel rfl
      | succ f' =>
        rw [whileF_step _ _ _ _ _ _ hcond]
        have hbody : (match theta_chain_comput_strategy_faster_no_eval_loop5_cond obs P.row oracle fuel P.n ea k with
            | .ok _ => theta_chain_comput_strategy_faster_no_eval_loop5_body obs P.row oracle fuel P.n ea k | .error f => k.fail f) =
            theta_chain_comput_strategy_faster_no_eval_loop5_body obs P.row oracle fuel P.n ea k := by
          simp [theta_chain_comput_strategy_faster_no_eval_loop5_cond]
        rw [hbody]
        have hd := strat_dead P oracle fuel ea k m R (by omega)
        rw [whileF_dead _ _ _ _ _ hd]; exact hd
  | succ n ih =>
    intro f k m R hi hn he
    have hm : P.m = (P.n : Int) - 1 - (P.adj : Int) := rfl
    by_cases hb : m.lenCount = P.m - 1 - (i : Int)
    · rw [whileLoop_exit P i m R.me hb] at he; exact absurd R.me he
    · have hlive : ThetaFSt.live obs k = true := by simp [ThetaFSt.live, obs, R.kf, R.kb]
      have hcond : (ThetaFSt.live obs k && (match theta_chain_comput_strategy_faster_no_eval_loop5_cond obs P.row oracle fuel P.n ea k with
          | .ok b => b | .error _ => true)) = true := by
        simp [theta_chain_comput_strategy_faster_no_eval_loop5_cond, R.lc, hi, R.ad, hlive]
        intro h; apply hb; rw [hm]; omega
      cases f with
      | zero => simp only [whileF, hcond, if_true]; exact dead_of_fault _ .fuel rfl
      | succ f' =>
        rw [whileF_step _ _ _ _ _ _ hcond]
        have hbody : (match theta_chain_comput_strategy_faster_no_eval_loop5_cond obs P.row oracle fuel P.n ea k with
            | .ok _ => theta_chain_comput_strategy_faster_no_eval_loop5_body obs P.row oracle fuel P.n ea k | .error f => k.fail f) =
            theta_chain_comput_strategy_faster_no_eval_loop5_body obs P.row oracle fuel P.n ea k := by
          simp [theta_chain_comput_strategy_faster_no_eval_loop5_cond]
        rw [hbody]
        by_cases hs : m.index < P.row.length
        · by_cases hpe : (pushBody P m P.row[m.index]).err = none
          · rw [whileLoop_push P i m R.me hb hs] at he
            obtain ⟨R', hi'⟩ := push_sim P oracle fuel ea k m R hs hpe
            exact ih f' _ _ R' (by rw [hi', hi]) (by simp only []; omega) he
          · have hd := push_dead P oracle fuel ea k m R hs _ hpe
            rw [whileF_dead _ _ _ _ _ hd]; exact hd
        · have hd := strat_dead P oracle fuel ea k m R hs
          rw [whileF_dead _ _ _ _ _ hd]; exact hd
end Loop5


/-! ### one iteration of the main loop -/

theorem headStep_err_iff (P : Params) (i : Nat) (s : St) (he0 : s.err = none) :
    (headStep P i s).err ≠ none ↔
      ¬ (0 ≤ s.lenList ∧ s.lenList ≤ P.n ∧ (levelSum s.level s.lenList.toNat).isSome = true) := by
  by_cases h : 0 ≤ s.lenList ∧ s.lenList ≤ P.n
  · cases hS : levelSum s.level s.lenList.toNat with
    | none => simp [headStep, he0, h, hS, St.fail]
    | some S => simp [headStep, he0, h, hS, St.emit]
  · simp [headStep, he0, h, St.fail]
    intro h1 h2; exact absurd ⟨h1, h2⟩ h

theorem isoStep_err_iff (P : Params) (i : Nat) (s : St) (he0 : s.err = none) :
    (isoStep P i s).err ≠ none ↔
      ¬ (idxOK (s.lenList - 1) P.n = true ∧ (s.q (s.lenList - 1).toNat).isSome = true) := by
  by_cases hidx : idxOK (s.lenList - 1) P.n = true
  · have hidx' := hidx
    simp [idxOK] at hidx'
    obtain ⟨c, hc⟩ : ∃ c : Nat, s.lenList = (c : Int) + 1 := ⟨(s.lenList - 1).toNat, by omega⟩
    have h1 : idxOK (c : Int) P.n = true := by simp [idxOK]; omega
    have hct : (s.lenList - 1).toNat = c := by omega
    rw [hct]
    cases ho : s.q c with
    | none => simp [isoStep, he0, hc, h1, ho, St.fail]
    | some kk => simp [isoStep, he0, hc, h1, ho, St.emit]
  · simp [isoStep, he0, hidx, St.fail]

theorem ev_loadR3_bad (o : OSt) (s : Int) (h : ¬ o.inb 3 s = true) : (ev o 17 [3, s]).bad = true := by
  by_cases hb : o.bad = true
  · simp [ev, hb]
  · have hb' : o.bad = false := by simpa using hb
    simp [ev, hb', h, OSt.fail]

theorem ev_step_bad (o : OSt) (x i y z : Int) (h : o.r1 = none) : (ev o 12 [x, i, y, z]).bad = true := by
  by_cases hb : o.bad = true
  · simp [ev, hb]
  · have hb' : o.bad = false := by simpa using hb
    by_cases hs : o.inb 5 i = true
    · simp [ev, hb', hs, h, OSt.fail]
    · simp [ev, hb', hs, OSt.fail]

theorem head_rel (P : Params) (k : ThetaFSt OSt) (m : St) (R : Rel P k m) (i L S : Nat) :
    Rel P { k with j := ((0 + L : Nat) : Int), len_count := (S : Int) }
      { m with lenCount := (S : Int), trace := m.trace ++ [.head i (L : Int) (S : Int)] } := by
  constructor
  · exact R.kf
  · exact R.kb
  · exact R.me
  · exact R.ix
  · exact R.ll
  · rfl
  · exact R.ad
  · exact R.lvs
  · exact R.lvg
  · exact R.s1
  · exact R.s2
  · exact R.s3
  · exact R.s4
  · exact R.s5
  · exact R.a1
  · exact R.a2
  · exact R.a3
  · exact R.a4
  · exact R.tg
  · have := R.lg
    simp only [logs, Prod.mk.injEq] at this
    simp [logs_append, this.1, this.2.1, this.2.2, logs, mDbls, mSteps, mKers]

section Iter
variable (P : Params) (oracle : Nat → Bool) (fuel : Nat) (ea : Int)

/-- the isogeny part dies when the kernel slot of Q is out of bounds / uninitialised -/
theorem body3_dead (k k1 k2 : ThetaFSt OSt) (i : Nat) (hf : k.fault = none) (hb : k.obs.bad = false)
    (hk1 : whileF (ThetaFSt.live obs)
      (fun s => match theta_chain_comput_strategy_faster_no_eval_loop4_cond obs P.row oracle fuel P.n ea s with | .ok b => b | .error _ => true)
      (fun s => match theta_chain_comput_strategy_faster_no_eval_loop4_cond obs P.row oracle fuel P.n ea s with
        | .ok _ => theta_chain_comput_strategy_faster_no_eval_loop4_body obs P.row oracle fuel P.n ea s | .error f => s.fail f)
      (fun s => s.fail .fuel) fuel { k with len_count := 0, j := 0 } = k1)
    (h1f : k1.fault = none) (h1b : k1.obs.bad = false)
    (hk2 : whileF (ThetaFSt.live obs)
      (fun s => match theta_chain_comput_strategy_faster_no_eval_loop5_cond obs P.row oracle fuel P.n ea s with | .ok b => b | .error _ => true)
      (fun s => match theta_chain_comput_strategy_faster_no_eval_loop5_cond obs P.row oracle fuel P.n ea s with
        | .ok _ => theta_chain_comput_strategy_faster_no_eval_loop5_body obs P.row oracle fuel P.n ea s | .error f => s.fail f)
      (fun s => s.fail .fuel) fuel k1 = k2)
    (h2f : k2.fault = none) (h2b : k2.obs.bad = false) (hi : k2.i = (i : Int))
    (hs3 : k2.obs.size 3 = (P.n : Int)) (hs4 : k2.obs.size 4 = (P.n : Int))
    (ha34' : k2.obs.inb 3 (k2.len_list - 1) = true → k2.obs.arr 4 (k2.len_list - 1) = k2.obs.arr 3 (k2.len_list - 1))
    (hC : ¬ (k2.obs.inb 3 (k2.len_list - 1) = true ∧ (k2.obs.arr 3 (k2.len_list - 1)).isSome = true))
    (hea : ea = 1 ∨ (ea = 0 ∧ (i : Int) < (P.n : Int) - 3)) :
    Dead (theta_chain_comput_strategy_faster_no_eval_loop3_body obs P.row oracle fuel P.n ea k) := by
  unfold theta_chain_comput_strategy_faster_no_eval_loop3_body
  rw [step_live _ k hf hb]
  dsimp only
  rw [step_live _ { k with len_count := 0 } hf hb]
  dsimp only
  rw [step_live _ { k with len_count := 0, j := 0 } hf hb]
  erw [hk1]
  rw [step_live _ k1 h1f h1b]
  erw [hk2]
  by_cases hin : k2.obs.inb 3 (k2.len_list - 1) = true
  · have ha34 := ha34' hin
    have hin' := hin
    simp only [OSt.inb, hs3, Bool.and_eq_true, decide_eq_true_eq] at hin'
    obtain ⟨c, hl⟩ : ∃ c : Nat, k2.len_list = (c : Int) + 1 := ⟨(k2.len_list - 1).toNat, by omega⟩
    have hcc : k2.len_list - 1 = (c : Int) := by omega
    rw [hcc] at ha34 hC hin
    have hv : k2.obs.arr 3 (c : Int) = none := by
      cases hq : k2.obs.arr 3 (c : Int) with
      | none => rfl
      | some v => exact absurd ⟨hin, by simp [hq]⟩ hC
    have hw : k2.obs.arr 4 (c : Int) = none := by rw [ha34, hv]
    have hc0 : (0 : Int) ≤ (c : Int) := by omega
    have hc1 : (c : Int) < (P.n : Int) := by omega
    have hbadS : ∀ x y z w, (ev { size := k2.obs.size, arr := k2.obs.arr, kexp := k2.obs.kexp, r1 := none, r2 := none, tog := k2.obs.tog, bad := false, dbls := k2.obs.dbls, steps := k2.obs.steps, kers := k2.obs.kers } 12 [x, y, z, w]).bad = true :=
      fun x y z w => ev_step_bad _ x y z w rfl
    rcases hea with hea | ⟨hea, hi3⟩
    · subst hea
      by_cases h3 : (i : Int) = (P.n : Int) - 3
      · have h3' := eq_true h3
        simp [Dead, ThetaFSt.step, ThetaFSt.live, obs_ev, SqiProofs.SkelThetaFSim.obs_ok, h2f, h2b, hi, hl, EvKind.loadR, EvKind.step, truthy,
          ev_loadR3_s, ev_loadR4_s, OSt.inb, hs3, hs4, hv, hw, hc0, hc1, hbadS, h3']
      · have h3' := eq_false h3
        by_cases h2 : (i : Int) = (P.n : Int) - 2
        · have h2' := eq_true h2
          simp [Dead, ThetaFSt.step, ThetaFSt.live, obs_ev, SqiProofs.SkelThetaFSim.obs_ok, h2f, h2b, hi, hl, EvKind.loadR, EvKind.step, truthy,
          ev_loadR3_s, ev_loadR4_s, OSt.inb, hs3, hs4, hv, hw, hc0, hc1, hbadS, h3', h2']
        · have h2' := eq_false h2
          simp [Dead, ThetaFSt.step, ThetaFSt.live, obs_ev, SqiProofs.SkelThetaFSim.obs_ok, h2f, h2b, hi, hl, EvKind.loadR, EvKind.step, truthy,
          ev_loadR3_s, ev_loadR4_s, OSt.inb, hs3, hs4, hv, hw, hc0, hc1, hbadS, h3', h2']
    · subst hea
      have h3' : ((i : Int) = (P.n : Int) - 3) = False := eq_false (by omega)
      have h2' : ((i : Int) = (P.n : Int) - 2) = False := eq_false (by omega)
      simp [Dead, ThetaFSt.step, ThetaFSt.live, obs_ev, SqiProofs.SkelThetaFSim.obs_ok, h2f, h2b, hi, hl, EvKind.loadR, EvKind.step, truthy,
          ev_loadR3_s, ev_loadR4_s, OSt.inb, hs3, hs4, hv, hw, hc0, hc1, hbadS, h3', h2']
  · have hbadL := ev_loadR3_bad k2.obs (k2.len_list - 1) hin
    simp [Dead, ThetaFSt.step, ThetaFSt.live, obs_ev, SqiProofs.SkelThetaFSim.obs_ok, h2f, h2b, EvKind.loadR, hbadL]

/-- one iteration of the main loop dies when the hand model's iteration faults -/
theorem iter_dead (hfn : P.n + 1 ≤ fuel) (hfr : P.row.length ≤ fuel) (hea : ea = if P.eightAbove then 1 else 0)
    (i : Nat) (hi : (i : Int) < P.m) (k : ThetaFSt OSt) (m : St) (R : Rel P k m) (hki : k.i = (i : Int))
    (hll : 0 ≤ m.lenList)
    (he : (isoStep P i (whileLoop P i (headStep P i m))).err ≠ none) :
    Dead (theta_chain_comput_strategy_faster_no_eval_loop3_body obs P.row oracle fuel P.n ea k) := by
  have hm : P.m = (P.n : Int) - 1 - (P.adj : Int) := rfl
  by_cases h1e : (headStep P i m).err = none
  · obtain ⟨L, S, hL, hLn, hS, hhead⟩ := headStep_inv P i m R.me h1e
    rw [hhead] at he
    have hk1 := loop4 P oracle fuel ea m.level L fuel 0 0 { k with len_count := 0, j := 0 } R.kf R.kb rfl
      (by simp only []; rw [R.ll, hL]; simp) rfl rfl R.lvs (by omega) R.lvg (by omega) S (by simpa using hS)
    have R1 := head_rel P k m R i L S
    by_cases h2e : (whileLoop P i { m with lenCount := (S : Int), trace := m.trace ++ [.head i (L : Int) (S : Int)] }).err = none
    · obtain ⟨R2, hk2i⟩ := while_sim P oracle fuel ea i (P.row.length - m.index) fuel _ _ R1 hki (Nat.le_refl _)
        (by omega) h2e
      generalize hk2 : whileF _ _ _ _ fuel { k with j := ((0 + L : Nat) : Int), len_count := (S : Int) } = k2 at R2 hk2i
      generalize hm2 : whileLoop P i { m with lenCount := (S : Int), trace := m.trace ++ [.head i (L : Int) (S : Int)] } = m2
        at R2 he h2e
      have hc := (isoStep_err_iff P i m2 R2.me).1 he
      have heac : ea = 1 ∨ (ea = 0 ∧ (i : Int) < (P.n : Int) - 3) := by
        rcases adj_cases P with ⟨h1, h2⟩ | ⟨h1, h2⟩
        · left; rw [hea, h1]; rfl
        · right; rw [hea, h1]; exact ⟨rfl, by omega⟩
      refine body3_dead P oracle fuel ea k _ k2 i R.kf R.kb hk1 R.kf R.kb hk2 R2.kf R2.kb hk2i R2.s3 R2.s4 ?_ ?_ heac
      · intro hin
        simp only [OSt.inb, R2.s3, Bool.and_eq_true, decide_eq_true_eq] at hin
        have hcn : k2.len_list - 1 = (((k2.len_list - 1).toNat : Nat) : Int) := by omega
        rw [hcn, R2.a3, R2.a4]
      · intro h
        apply hc
        obtain ⟨h1, h2⟩ := h
        simp only [OSt.inb, R2.s3, R2.ll, Bool.and_eq_true, decide_eq_true_eq] at h1
        have hcn : m2.lenList - 1 = (((m2.lenList - 1).toNat : Nat) : Int) := by omega
        refine ⟨by simp [idxOK]; omega, ?_⟩
        rw [R2.ll, hcn, R2.a3] at h2
        exact h2
    · have hd := while_dead P oracle fuel ea i (P.row.length - m.index) fuel _ _ R1 hki (Nat.le_refl _) h2e
      unfold theta_chain_comput_strategy_faster_no_eval_loop3_body
      rw [step_live _ k R.kf R.kb]
      dsimp only
      rw [step_live _ { k with len_count := 0 } R.kf R.kb]
      dsimp only
      rw [step_live _ { k with len_count := 0, j := 0 } R.kf R.kb]
      erw [hk1]
      rw [step_live _ { k with j := ((0 + L : Nat) : Int), len_count := (S : Int) } R.kf R.kb]
      generalize hk2 : whileF _ _ _ _ fuel { k with j := ((0 + L : Nat) : Int), len_count := (S : Int) } = k2 at hd ⊢
      have hs : ∀ f, ThetaFSt.step obs f k2 = k2 := fun f => step_dead f k2 hd
      simp only [hs]
      exact hd
  · have hc := (headStep_err_iff P i m R.me).1 h1e
    obtain ⟨L, hL⟩ : ∃ L : Nat, m.lenList = (L : Int) := ⟨m.lenList.toNat, by omega⟩
    have hx : ∃ x, 0 ≤ x ∧ x < 0 + L ∧ (P.n ≤ x ∨ m.level x = none) := by
      by_cases hLn : L ≤ P.n
      · have hnone : levelSum m.level L = none := by
          cases hq : levelSum m.level L with
          | none => rfl
          | some S =>
            exfalso; apply hc
            have : m.lenList.toNat = L := by omega
            rw [this, hq]
            exact ⟨by omega, by omega, rfl⟩
        obtain ⟨x, hx1, hx2⟩ := levelSum_none m.level L hnone
        exact ⟨x, by omega, by omega, Or.inr hx2⟩
      · exact ⟨P.n, by omega, by omega, Or.inl (Nat.le_refl _)⟩
    have hd := loop4_dead P oracle fuel ea m.level L fuel 0 { k with len_count := 0, j := 0 } R.kf R.kb rfl
      (by simp only []; rw [R.ll, hL]; simp) R.lvs R.lvg hx
    unfold theta_chain_comput_strategy_faster_no_eval_loop3_body
    rw [step_live _ k R.kf R.kb]
    dsimp only
    rw [step_live _ { k with len_count := 0 } R.kf R.kb]
    dsimp only
    rw [step_live _ { k with len_count := 0, j := 0 } R.kf R.kb]
    generalize hk1 : whileF _ _ _ _ fuel { k with len_count := 0, j := 0 } = k1 at hd ⊢
    have hs : ∀ f, ThetaFSt.step obs f k1 = k1 := fun f => step_dead f k1 hd
    simp only [hs]
    exact hd
end Iter


theorem isoStep_lenList_nonneg (P : Params) (i : Nat) (s : St) (he0 : s.err = none) (he : (isoStep P i s).err = none) :
    0 ≤ (isoStep P i s).lenList := by
  obtain ⟨c, kk, _, _, _, hiso⟩ := isoStep_inv P i s he0 he
  rw [hiso]; simp [isod]

section For
variable (P : Params) (oracle : Nat → Bool) (fuel : Nat) (ea : Int)

/-- the main loop dies when `forLoop` faults -/
theorem for_dead (hfn : P.n + 1 ≤ fuel) (hfr : P.row.length ≤ fuel) (hea : ea = if P.eightAbove then 1 else 0) :
    ∀ (cnt f i : Nat) (k : ThetaFSt OSt) (m : St), Rel P k m → k.i = (i : Int) → Qs m → 0 ≤ m.lenList →
    (i : Int) + (cnt : Int) = P.m → (forLoop P cnt i m).err ≠ none →
    Dead (whileF (ThetaFSt.live obs)
        (fun s => match theta_chain_comput_strategy_faster_no_eval_loop3_cond obs P.row oracle fuel P.n ea s with | .ok b => b | .error _ => true)
        (fun s => match theta_chain_comput_strategy_faster_no_eval_loop3_cond obs P.row oracle fuel P.n ea s with
          | .ok _ => theta_chain_comput_strategy_faster_no_eval_loop3_body obs P.row oracle fuel P.n ea s | .error f => s.fail f)
        (fun s => s.fail .fuel) f k) := by
  intro cnt
  induction cnt with
  | zero => intro f i k m R _ _ _ _ he; exact absurd R.me he
  | succ cnt ih =>
    intro f i k m R hki hqs hll hi he
    have hm : P.m = (P.n : Int) - 1 - (P.adj : Int) := rfl
    have hlive : ThetaFSt.live obs k = true := by simp [ThetaFSt.live, obs, R.kf, R.kb]
    have hcond : (ThetaFSt.live obs k && (match theta_chain_comput_strategy_faster_no_eval_loop3_cond obs P.row oracle fuel P.n ea k with
        | .ok b => b | .error _ => true)) = true := by
      simp [theta_chain_comput_strategy_faster_no_eval_loop3_cond, hki, R.ad, hlive]; omega
    cases f with
    | zero => simp only [whileF, hcond, if_true]; exact dead_of_fault _ .fuel rfl
    | succ f' =>
      rw [whileF_step _ _ _ _ _ _ hcond]
      have hbody : (match theta_chain_comput_strategy_faster_no_eval_loop3_cond obs P.row oracle fuel P.n ea k with
          | .ok _ => theta_chain_comput_strategy_faster_no_eval_loop3_body obs P.row oracle fuel P.n ea k | .error f => k.fail f) =
          theta_chain_comput_strategy_faster_no_eval_loop3_body obs P.row oracle fuel P.n ea k := by
        simp [theta_chain_comput_strategy_faster_no_eval_loop3_cond]
      rw [hbody]
      simp only [forLoop] at he
      by_cases he1 : (isoStep P i (whileLoop P i (headStep P i m))).err = none
      · obtain ⟨R', hi', hqs'⟩ := iter_sim P oracle fuel ea (by omega) hfr hea i (by omega) k m R hki hqs he1
        have hw : (whileLoop P i (headStep P i m)).err = none :=
          err_none_of (α := Unit) _ _ (isoStep_err P i) he1
        exact ih f' (i + 1) _ _ R' (by rw [hi']; push_cast; rfl) hqs' (isoStep_lenList_nonneg P i _ hw he1)
          (by push_cast; omega) he
      · have hd := iter_dead P oracle fuel ea hfn hfr hea i (by omega) k m R hki hll he1
        rw [whileF_dead _ _ _ _ _ hd]; exact hd
end For

/-! ### the complete routine -/

theorem finalSteps_err_iff (P : Params) (s : St) (he0 : s.err = none) :
    (finalSteps P s).err ≠ none ↔
      (P.eightAbove = false ∧ ¬ (idxOK ((P.n : Int) - 4) (P.n - 1) = true ∧ (s.q 0).isSome = true)) := by
  by_cases hea : P.eightAbove = true
  · simp [finalSteps, he0, hea]
  · have hea' : P.eightAbove = false := by simpa using hea
    by_cases hidx : idxOK ((P.n : Int) - 4) (P.n - 1) = true
    · cases hq : s.q 0 with
      | none => simp [finalSteps, he0, hea', hidx, hq, St.fail]
      | some o => simp [finalSteps, he0, hea', hidx, hq, St.emit]
    · simp [finalSteps, he0, hea', hidx, St.fail]

theorem glueStep_err_iff (P : Params) (s : St) (he0 : s.err = none) :
    (glueStep P s).err ≠ none ↔
      ¬ (idxOK (s.lenList - 1) P.n = true ∧ (s.pts (s.lenList - 1).toNat).isSome = true) := by
  by_cases hidx : idxOK (s.lenList - 1) P.n = true
  · have hidx' := hidx
    simp [idxOK] at hidx'
    obtain ⟨c, hc⟩ : ∃ c : Nat, s.lenList - 1 = (c : Int) := ⟨(s.lenList - 1).toNat, by omega⟩
    have hidxc : idxOK (c : Int) P.n = true := by rw [← hc]; exact hidx
    have hct : (s.lenList - 1).toNat = c := by omega
    rw [hct]
    cases ho : s.pts c with
    | none => simp [glueStep, he0, hc, hidxc, ho, St.fail]
    | some kk => simp [glueStep, he0, hc, hidxc, ho]
  · simp [glueStep, he0, hidx, St.fail]

theorem ev_evalR_bad (o : OSt) (x i : Int) (h : o.inb 5 i = false) : (ev o 16 [x, i]).bad = true := by
  by_cases hb : o.bad = true
  · simp [ev, hb]
  · have hb' : o.bad = false := by simpa using hb
    simp [ev, hb', h, OSt.fail]

theorem ev_step4_bad (o : OSt) (x i y z : Int) (h : o.r1 = none) : (ev o 14 [x, i, y, z]).bad = true := by
  by_cases hb : o.bad = true
  · simp [ev, hb]
  · have hb' : o.bad = false := by simpa using hb
    by_cases hs : o.inb 5 i = true
    · simp [ev, hb', hs, h, OSt.fail]
    · simp [ev, hb', hs, OSt.fail]


section Top
variable (P : Params) (oracle : Nat → Bool) (fuel : Nat) (ea : Int)

/-- **converse**: when the hand model `chain` faults, the run of the translated skeleton ends dead -/
theorem skel_dead (hfn : P.n + 11 ≤ fuel) (hfr : P.row.length ≤ fuel) (hea : ea = if P.eightAbove then 1 else 0)
    (he : (chain P).err ≠ none) :
    Dead (theta_chain_comput_strategy_faster_no_eval obs P.row oracle fuel P.n ea (ThetaFSt.init (OSt.init P.kexp))) := by
  by_cases hn : P.n ≤ 1
  · unfold theta_chain_comput_strategy_faster_no_eval
    simp only [step_live2, ThetaFSt.init, OSt.init, obs_ev, EvKind.vla]
    generalize hK : ThetaFSt.mk _ _ _ _ _ _ _ _ _ _ = K
    have hd : Dead K := by
      rw [← hK]
      exact dead_of_bad _ (ev_vla_bad _ _ _ (by omega))
    have hs : ∀ f, ThetaFSt.step obs f K = K := fun f => step_dead f K hd
    simp only [hs]
    exact hd
  unfold chain at he
  simp only [hn, if_false] at he
  have hadj := adj_cases P
  have hn1 : (0 : Int) < (P.n : Int) - 1 := by omega
  have hn0 : (0 : Int) < (P.n : Int) := by omega
  unfold theta_chain_comput_strategy_faster_no_eval
  simp only [step_live2, ThetaFSt.init, OSt.init, obs_ev, EvKind.vla, ev_vla_s, hn1, hn0]
  -- the first while
  have hadjv : (2 : Int) * (1 - ea) = (P.adj : Int) := by
    rcases hadj with ⟨h1, h2⟩ | ⟨h1, h2⟩ <;> rw [hea, h1, h2] <;> rfl
  rw [hadjv]
  unfold prelude at he
  simp only [] at he
  by_cases eP' : ¬ ((phase1 P (initSt P)).err = none)
  · generalize hX : ThetaFSt.mk _ _ _ _ _ _ _ _ _ _ = X
    have hd := loop0_dead P oracle fuel ea fuel X (initSt P) (by rw [← hX]) (by rw [← hX]) rfl (by rw [← hX]; rfl)
      (by rw [← hX]; rfl) (by rw [← hX]) eP'
    generalize hkX : whileF _ _ _ _ fuel X = kX at hd ⊢
    have hs : ∀ f, ThetaFSt.step obs f kX = kX := fun f => step_dead f kX hd
    simp only [hs]
    exact hd
  have eP : (phase1 P (initSt P)).err = none := Classical.not_not.mp eP'
  have eS : (setLenList (phase1 P (initSt P))).err = none := by rw [setLenList_ok _ eP]; exact eP
  generalize hX : ThetaFSt.mk _ _ _ _ _ _ _ _ _ _ = X
  have hl0 := loop0 P oracle fuel ea fuel X (initSt P) (by rw [← hX]) (by rw [← hX]) rfl (by rw [← hX]; rfl)
    (by rw [← hX]; rfl) (by rw [← hX]) (by simp [initSt]; omega) eP
  obtain ⟨l1, l2, l3, l4, l5, l6⟩ := hl0
  erw [l1]
  subst hX
  have hkx : (0 : Int) < (P.n : Int) ∧ True := ⟨hn0, trivial⟩
  simp only [step_live2, obs_ev, EvKind.vla, EvKind.copyIn, ev_vla_s, ev_copyIn_s, OSt.inb, OSt.put, IArr.new, IArr.inb,
    IArr.set, hn0, hn1, Int.le_refl, decide_true, Bool.and_true, Bool.true_and, if_true, if_false, Int.reduceEq,
    ite_true, ite_false]
  generalize hX : ThetaFSt.mk _ _ _ _ _ _ _ _ _ _ = X
  have hs2 := setLenList_ok _ eP
  have R1 : RelQ P (fun _ => none) X (setLenList (phase1 P (initSt P))) := by
    rw [hs2, ← hX]
    constructor
    · rfl
    · rfl
    · exact eP
    · rfl
    · rfl
    · rfl
    · rfl
    · rfl
    · intro i
      rw [l2]
      simp only [initSt]
      by_cases h : i = 0
      · subst h; rfl
      · have : ¬ (i : Int) = 0 := by omega
        simp [h, this]
    · simp
    · simp
    · simp
    · simp
    · simp
    · intro i
      rw [l3]
      simp only [initSt]
      by_cases h : i = 0
      · subst h; simp
      · have : ¬ (i : Int) = 0 := by omega
        simp [h, this]
    · intro i
      rw [l3]
      simp only [initSt]
      by_cases h : i = 0
      · subst h; simp
      · have : ¬ (i : Int) = 0 := by omega
        simp [h, this]
    · intro i; rfl
    · intro i; rfl
    · rfl
    · simp only [logs_append, l6]
      simp [logs, initSt, mDbls, mSteps, mKers]
  by_cases eB' : ¬ ((buildPts P (setLenList (phase1 P (initSt P))).index 1 (setLenList (phase1 P (initSt P)))).err = none)
  · have hd := pts_dead P oracle fuel ea (fun _ => none) (setLenList (phase1 P (initSt P))).index fuel 0 X _ R1
      (by rw [← hX]; rfl) (by rw [hs2]; simp only []; omega) eB'
    generalize hkX : whileF _ _ _ _ fuel X = kX at hd ⊢
    have hs : ∀ f, ThetaFSt.step obs f kX = kX := fun f => step_dead f kX hd
    simp only [hs]
    exact hd
  have eB : (buildPts P (setLenList (phase1 P (initSt P))).index 1 (setLenList (phase1 P (initSt P)))).err = none := Classical.not_not.mp eB'
  have hBf := buildPts_facts P (setLenList (phase1 P (initSt P))).index 1 (setLenList (phase1 P (initSt P))) (by omega) eS
    (by
      intro j hj
      have : j = 0 := by omega
      subst this
      rw [hs2]; simp only []; rw [l3]; simp [initSt]) eB
  have RB := pts_sim P oracle fuel ea (fun _ => none) (setLenList (phase1 P (initSt P))).index fuel 0 X _ R1
    (by rw [← hX]; rfl) (by rw [hs2]; simp only []; omega) (by rcases hBf.2.1 with h | h <;> omega) eB
  generalize hkB : whileF _ _ _ _ fuel X = kB at RB ⊢
  generalize hmB : buildPts P (setLenList (phase1 P (initSt P))).index 1 (setLenList (phase1 P (initSt P))) = mB
    at RB hBf eB he ⊢
  clear hkB hX R1
  by_cases e1' : ¬ ((glueStep P mB).err = none)
  · have hc := (glueStep_err_iff P mB RB.me).1 e1'
    have hbad : (ev kB.obs 5 [1, kB.len_list - 1]).bad = true := by
      apply ev_read_bad
      intro h
      apply hc
      obtain ⟨h1, h2⟩ := h
      simp only [OSt.inb, RB.s1, RB.ll, Bool.and_eq_true, decide_eq_true_eq] at h1
      have hcn : mB.lenList - 1 = (((mB.lenList - 1).toNat : Nat) : Int) := by omega
      refine ⟨by simp [idxOK]; omega, ?_⟩
      rw [RB.ll, hcn, RB.a1] at h2
      exact h2
    simp [Dead, ThetaFSt.step, ThetaFSt.live, SqiProofs.SkelThetaFSim.obs_ok, obs_ev, RB.kf, RB.kb, EvKind.read, hbad]
  have e1 : (glueStep P mB).err = none := Classical.not_not.mp e1'
  obtain ⟨c, kk, hc, hcn, hpk, hglue⟩ := glueStep_inv P mB RB.me e1
  have hkf := RB.kf
  have hkb := RB.kb
  have hll : kB.len_list = (c : Int) + 1 := by rw [RB.ll, hc]
  have ha1 : kB.obs.arr 1 (c : Int) = some kk := by rw [RB.a1, hpk]
  have ha2 : kB.obs.arr 2 (c : Int) = some kk := by rw [RB.a2, hpk]
  have hs1 := RB.s1
  have hs2' := RB.s2
  have hc0 : (0 : Int) ≤ (c : Int) := by omega
  have hc1 : (c : Int) < (P.n : Int) := by omega
  simp only [step_live2, hkf, hkb, obs_ev, EvKind.read, ev_read_s, OSt.inb, hll, Int.add_sub_cancel, ha1, ha2, hs1, hs2',
    hc0, hc1, decide_true, Bool.and_true, Option.isSome_some, Option.getD_some]
  rw [hglue] at he
  generalize hX : ThetaFSt.mk _ _ _ _ _ _ _ _ _ _ = X2
  generalize hmG : St.mk _ _ _ _ _ _ _ _ = mG at he
  have hBl : mB.lenList = ((setLenList (phase1 P (initSt P))).index : Int) + 1 := by
    rw [hBf.1, hs2]
  have hci : c = (setLenList (phase1 P (initSt P))).index := by omega
  have RG0 : RelQ P (fun j => if j < 0 then mG.q j else none) X2 mG := by
    rw [← hX, ← hmG]
    constructor
    · rfl
    · rfl
    · exact RB.me
    · exact RB.ix
    · rfl
    · exact RB.lc
    · exact RB.ad
    · exact RB.lvs
    · exact RB.lvg
    · exact RB.s1
    · exact RB.s2
    · exact RB.s3
    · exact RB.s4
    · exact RB.s5
    · exact RB.a1
    · exact RB.a2
    · intro i; simp [RB.a3]
    · intro i; simp [RB.a4]
    · exact RB.tg
    · have := RB.lg
      simp only [logs, Prod.mk.injEq] at this
      simp [logs_append, this.1, this.2.1, this.2.2, logs, mDbls, mSteps, mKers]
  have RD := glue_sim P oracle fuel ea c fuel 0 X2 mG RG0 (by rw [← hX]; rfl) (by rw [← hmG]; simp) (by omega) (by omega)
    (by
      intro j hj
      have hp := hBf.2.2 j (by omega)
      obtain ⟨v, hv⟩ := Option.isSome_iff_exists.1 hp
      refine ⟨v, ?_, ?_⟩
      · rw [← hmG]; exact hv
      · rw [← hmG]
        have : (j : Int) < (c : Int) := by omega
        simp [this, hv])
  have hg : (fun j => if j < 0 + c then mG.q j else none) = mG.q := by
    funext j
    by_cases hj : j < c
    · simp [hj]
    · rw [← hmG]
      have : ¬ (j : Int) < (c : Int) := by omega
      simp [hj, this]
  rw [hg] at RD
  generalize hkD : whileF _ _ _ _ fuel X2 = kD at RD ⊢
  have hqsG : Qs mG := by
    intro j hj
    rw [← hmG] at hj ⊢
    simp only [] at hj
    have hp := hBf.2.2 j (by omega)
    obtain ⟨v, hv⟩ := Option.isSome_iff_exists.1 hp
    simp [hj, hv]
  clear hkD hX RG0 hg
  -- the main loop
  have hm : P.m = (P.n : Int) - 1 - (P.adj : Int) := rfl
  have hGll : 0 ≤ mG.lenList := by rw [← hmG]; simp
  rw [step_live _ kD RD.kf RD.kb]
  rw [step_live _ { kD with i := 0 } RD.kf RD.kb]
  have R3 : Rel P { kD with i := 0 } mG :=
    ⟨RD.kf, RD.kb, RD.me, RD.ix, RD.ll, RD.lc, RD.ad, RD.lvs, RD.lvg, RD.s1, RD.s2, RD.s3, RD.s4, RD.s5, RD.a1, RD.a2,
      RD.a3, RD.a4, RD.tg, RD.lg⟩
  by_cases hm0 : 0 ≤ P.m
  · by_cases eF' : ¬ ((forLoop P P.m.toNat 0 mG).err = none)
    · have hd := for_dead P oracle fuel ea (by omega) hfr hea P.m.toNat fuel 0 _ mG R3 rfl hqsG hGll (by omega) eF'
      generalize hkX : whileF _ _ _ _ fuel { kD with i := 0 } = kX at hd ⊢
      have hs : ∀ f, ThetaFSt.step obs f kX = kX := fun f => step_dead f kX hd
      simp only [hs]
      exact hd
    have eF : (forLoop P P.m.toNat 0 mG).err = none := Classical.not_not.mp eF'
    obtain ⟨RE, _⟩ := for_sim P oracle fuel ea (by omega) hfr hea P.m.toNat fuel 0 _ mG R3 rfl hqsG (by omega) (by omega) eF
    generalize hkE : whileF _ _ _ _ fuel _ = kE at RE ⊢
    generalize hmF : forLoop P P.m.toNat 0 mG = mF at RE eF he ⊢
    clear hkE R3
    have hkf := RE.kf
    have hkb := RE.kb
    have h5 := RE.s5
    have hs3 := RE.s3
    have hs4 := RE.s4
    have htg := RE.tg
    have h2le : (2 : Int) ≤ (P.n : Int) := by omega
    have hnpos : 0 < P.n := by omega
    obtain ⟨h1, hcF⟩ := (finalSteps_err_iff P mF RE.me).1 he
    have hea0 : ea = 0 := by rw [hea, h1]; rfl
    subst hea0
    by_cases h4 : 4 ≤ P.n
    · have hidx : idxOK ((P.n : Int) - 4) (P.n - 1) = true := by simp [idxOK]; omega
      have hq0 : mF.q 0 = none := by
        cases hq : mF.q 0 with
        | none => rfl
        | some o => exact absurd ⟨hidx, by simp [hq]⟩ hcF
      have ha3 : kE.obs.arr 3 0 = none := by simpa [hq0] using RE.a3 0
      have ha4 : kE.obs.arr 4 0 = none := by simpa [hq0] using RE.a4 0
      have h4le : (4 : Int) ≤ (P.n : Int) := by omega
      have h3le : (3 : Int) ≤ (P.n : Int) := by omega
      simp [Dead, ThetaFSt.step, ThetaFSt.live, SqiProofs.SkelThetaFSim.obs_ok, obs_ev, hkf, hkb, truthy, EvKind.split, EvKind.loadR, EvKind.evalR,
        EvKind.step4, EvKind.step2, ev_loadR3_s, ev_loadR4_s, ev_loadR5_s, ev_evalR_s, ev_step4_bad,
        OSt.inb, h5, hs3, hs4, htg, hn0, hnpos, h2le, h3le, h4le, ha3, ha4]
    · have h4n : ¬ (4 : Int) ≤ (P.n : Int) := by omega
      simp [Dead, ThetaFSt.step, ThetaFSt.live, SqiProofs.SkelThetaFSim.obs_ok, obs_ev, hkf, hkb, truthy, EvKind.split, EvKind.loadR, EvKind.evalR,
        EvKind.step4, EvKind.step2, ev_loadR3_s, ev_loadR4_s, ev_evalR_bad,
        OSt.inb, h5, hs3, hs4, htg, hn0, hnpos, h2le, h4n]
  · have hz : P.m.toNat = 0 := by omega
    rw [hz] at he
    simp only [forLoop] at he
    rw [whileF_stop _ _ _ _ _ _ (by simp [theta_chain_comput_strategy_faster_no_eval_loop3_cond, RD.ad]; omega)]
    generalize hkE : ({ kD with i := 0 } : ThetaFSt OSt) = kE at R3 ⊢
    have RE := R3
    generalize hmF : mG = mF at RE he
    have hkf := RE.kf
    have hkb := RE.kb
    have h5 := RE.s5
    have hs3 := RE.s3
    have hs4 := RE.s4
    have htg := RE.tg
    have h2le : (2 : Int) ≤ (P.n : Int) := by omega
    have hnpos : 0 < P.n := by omega
    obtain ⟨h1, hcF⟩ := (finalSteps_err_iff P mF RE.me).1 he
    have hea0 : ea = 0 := by rw [hea, h1]; rfl
    subst hea0
    by_cases h4 : 4 ≤ P.n
    · have hidx : idxOK ((P.n : Int) - 4) (P.n - 1) = true := by simp [idxOK]; omega
      have hq0 : mF.q 0 = none := by
        cases hq : mF.q 0 with
        | none => rfl
        | some o => exact absurd ⟨hidx, by simp [hq]⟩ hcF
      have ha3 : kE.obs.arr 3 0 = none := by simpa [hq0] using RE.a3 0
      have ha4 : kE.obs.arr 4 0 = none := by simpa [hq0] using RE.a4 0
      have h4le : (4 : Int) ≤ (P.n : Int) := by omega
      have h3le : (3 : Int) ≤ (P.n : Int) := by omega
      simp [Dead, ThetaFSt.step, ThetaFSt.live, SqiProofs.SkelThetaFSim.obs_ok, obs_ev, hkf, hkb, truthy, EvKind.split, EvKind.loadR, EvKind.evalR,
        EvKind.step4, EvKind.step2, ev_loadR3_s, ev_loadR4_s, ev_loadR5_s, ev_evalR_s, ev_step4_bad,
        OSt.inb, h5, hs3, hs4, htg, hn0, hnpos, h2le, h3le, h4le, ha3, ha4]
    · have h4n : ¬ (4 : Int) ≤ (P.n : Int) := by omega
      simp [Dead, ThetaFSt.step, ThetaFSt.live, SqiProofs.SkelThetaFSim.obs_ok, obs_ev, hkf, hkb, truthy, EvKind.split, EvKind.loadR, EvKind.evalR,
        EvKind.step4, EvKind.step2, ev_loadR3_s, ev_loadR4_s, ev_evalR_bad,
        OSt.inb, h5, hs3, hs4, htg, hn0, hnpos, h2le, h4n]
end Top

/-- **fault status of the translated text = fault status of the hand model** -/
theorem skel_live_iff (P : Params) (oracle : Nat → Bool) (fuel : Nat) (ea : Int)
    (hfn : P.n + 11 ≤ fuel) (hfr : P.row.length ≤ fuel) (hea : ea = if P.eightAbove then 1 else 0) :
    ((theta_chain_comput_strategy_faster_no_eval obs P.row oracle fuel P.n ea (ThetaFSt.init (OSt.init P.kexp))).fault = none ∧
      (theta_chain_comput_strategy_faster_no_eval obs P.row oracle fuel P.n ea (ThetaFSt.init (OSt.init P.kexp))).obs.bad = false) ↔
    (chain P).err = none := by
  constructor
  · intro h
    by_cases he : (chain P).err = none
    · exact he
    · exfalso
      have hd := skel_dead P oracle fuel ea hfn hfr hea he
      exact ((live_iff _).2 h) hd
  · intro he
    have F := skel_refines P oracle fuel ea hfn hfr hea he
    exact ⟨F.kf, F.kb⟩

end SqiProofs.SkelThetaFConv

/-
(derived from SkelThetaSim.lean by tools/dev/dup_theta_sim.py — edit that file, not this one)
Simulation between the integer skeleton `SqiGen.ChainSkel.theta_chain_comput_strategy_faster_no_eval` (re-extracted from the C text
on every run, executed by `SqiModel.Skel` with the order-tracking observer `SqiModel.SkelTheta.obs`) and the hand model
`SqiModel.ThetaChain.chain` — for ALL inputs on which the hand model runs without fault (one lemma per loop).
-/
import SqiModel.SkelTheta
import SqiProofs.ThetaChain

namespace SqiProofs.SkelThetaFSim
open SqiGen.ChainSkel SqiModel.Skel SqiModel.SkelTheta SqiModel.ThetaChain SqiProofs.ThetaChain

/-! ### the observer's events, as conditional rewrite rules -/

theorem obs_ev (o : OSt) (kd : Nat) (a : List Int) : obs.ev o kd a = ev o kd a := rfl

theorem ev_vla_s (o : OSt) (a n : Int) (hb : o.bad = false) (h : 0 < n) :
    ev o 1 [a, n] = { o with size := fun a' => if a' = a then n else o.size a' } := by
  simp [ev, hb, h]

theorem ev_copyIn_s (o : OSt) (a d : Int) (hb : o.bad = false) (hin : o.inb a d = true) :
    ev o 3 [a, d] = o.put a d o.kexp := by
  simp [ev, hb, hin]

theorem ev_dblP_s (o : OSt) (a d k s : Int) (hb : o.bad = false) (hd : o.inb a d = true) (hs : o.inb a s = true)
    (hv : (o.arr a s).isSome = true) :
    ev o 19 [a, d, k, a, s] = { o.put a d ((o.arr a s).getD 0 - k.toNat) with
      dbls := if a = 1 then o.dbls ++ [(a, d, k)] else o.dbls } := by
  cases h : o.arr a s with
  | none => simp [h] at hv
  | some v => simp [ev, hb, hd, hs, h]

theorem ev_dblQ_s (o : OSt) (a d k s : Int) (hb : o.bad = false) (hd : o.inb a d = true) (hs : o.inb a s = true)
    (hv : (o.arr a s).isSome = true) :
    ev o 9 [a, d, a, s, k] = { o.put a d ((o.arr a s).getD 0 - k.toNat) with
      dbls := if a = 3 then o.dbls ++ [(a, d, k)] else o.dbls } := by
  cases h : o.arr a s with
  | none => simp [h] at hv
  | some v => simp [ev, hb, hd, hs, h]

theorem ev_read_s (o : OSt) (a s : Int) (hb : o.bad = false) (hs : o.inb a s = true)
    (hv : (o.arr a s).isSome = true) :
    ev o 5 [a, s] = { o with kers := o.kers ++ [(10, (o.arr a s).getD 0)] } := by
  cases h : o.arr a s with
  | none => simp [h] at hv
  | some v => simp [ev, hb, hs, h]

theorem ev_glueEval_s (o : OSt) (qa qb pa pb d s : Int) (hb : o.bad = false) (h1 : o.inb qa d = true)
    (h2 : o.inb qb d = true) (h3 : o.inb pa s = true) (h4 : o.inb pb s = true)
    (hv : (o.arr pa s).isSome = true) (hw : (o.arr pb s).isSome = true) :
    ev o 11 [qa, d, qb, d, pa, s, pb, s] =
      (o.put qa d ((o.arr pa s).getD 0 - 1)).put qb d ((o.arr pb s).getD 0 - 1) := by
  cases h : o.arr pa s with
  | none => simp [h] at hv
  | some v =>
    cases h' : o.arr pb s with
    | none => simp [h'] at hw
    | some w => simp [ev, hb, h1, h2, h3, h4, h, h']

theorem ev_loadR5_s (o : OSt) (s : Int) (hb : o.bad = false) (hs : o.inb 5 s = true) : ev o 17 [5, s] = o := by
  simp [ev, hb, hs]
theorem ev_loadR3_s (o : OSt) (s : Int) (hb : o.bad = false) (hs : o.inb 3 s = true) :
    ev o 17 [3, s] = { o with r1 := o.arr 3 s } := by
  simp [ev, hb, hs]
theorem ev_loadR4_s (o : OSt) (s : Int) (hb : o.bad = false) (hs : o.inb 4 s = true) :
    ev o 17 [4, s] = { o with r2 := o.arr 4 s } := by
  simp [ev, hb, hs]

theorem ev_step_s (o : OSt) (x i y z : Int) (hb : o.bad = false) (hs : o.inb 5 i = true)
    (h1 : o.r1.isSome = true) (h2 : o.r2 = o.r1) :
    ev o 12 [x, i, y, z] = { o with steps := o.steps ++ [i], kers := o.kers ++ [(12, o.r1.getD 0)] } := by
  cases h : o.r1 with
  | none => simp [h] at h1
  | some v => simp [ev, hb, hs, h2, h]
theorem ev_step4_s (o : OSt) (x i y z : Int) (hb : o.bad = false) (hs : o.inb 5 i = true)
    (h1 : o.r1.isSome = true) (h2 : o.r2 = o.r1) :
    ev o 14 [x, i, y, z] = { o with steps := o.steps ++ [i], kers := o.kers ++ [(14, o.r1.getD 0)] } := by
  cases h : o.r1 with
  | none => simp [h] at h1
  | some v => simp [ev, hb, hs, h2, h]
theorem ev_step2_s (o : OSt) (x i y z : Int) (hb : o.bad = false) (hs : o.inb 5 i = true)
    (h1 : o.r1.isSome = true) (h2 : o.r2 = o.r1) :
    ev o 15 [x, i, y, z] = { o with steps := o.steps ++ [i], kers := o.kers ++ [(15, o.r1.getD 0)] } := by
  cases h : o.r1 with
  | none => simp [h] at h1
  | some v => simp [ev, hb, hs, h2, h]

theorem ev_evalStep_s (o : OSt) (a d x i : Int) (hb : o.bad = false) (hd : o.inb a d = true) (hs : o.inb 5 i = true)
    (hv : (o.arr a d).isSome = true) :
    ev o 13 [a, d, x, i, a, d] = o.put a d ((o.arr a d).getD 0 - 1) := by
  cases h : o.arr a d with
  | none => simp [h] at hv
  | some v => simp [ev, hb, hd, hs, h]

theorem ev_evalR_s (o : OSt) (x i : Int) (hb : o.bad = false) (hs : o.inb 5 i = true) :
    ev o 16 [x, i] = if o.tog then { o with r2 := o.r2.map (· - 1), tog := false }
                     else { o with r1 := o.r1.map (· - 1), tog := true } := by
  simp [ev, hb, hs]

theorem ev_split_s (o : OSt) (x i : Int) (hb : o.bad = false) (hs : o.inb 5 i = true) : ev o 18 [x, i] = o := by
  simp [ev, hb, hs]

theorem step_live (f : ThetaFSt OSt → ThetaFSt OSt) (k : ThetaFSt OSt) (hf : k.fault = none) (hb : k.obs.bad = false) :
    ThetaFSt.step obs f k = f k := by
  simp [ThetaFSt.step, ThetaFSt.live, obs, hf, hb]

theorem rdRow_ok (row : List Nat) (i : Nat) (h : i < row.length) : rdRow row (i : Int) = .ok ((row[i] : Nat) : Int) := by
  have h3 : (0 : Int) ≤ (i : Int) ∧ (i : Int) < (row.length : Int) := by omega
  simp [rdRow, h3, List.getD, List.getElem?_eq_getElem h]

/-- the three observable logs of a hand-model trace -/
def logs (n : Nat) (ea : Bool) (tr : List Ev) : List (Int × Int × Int) × List Int × List (Nat × Nat) :=
  (tr.flatMap mDbls, tr.flatMap (mSteps n ea), tr.flatMap mKers)

theorem logs_append (n : Nat) (ea : Bool) (a b : List Ev) :
    logs n ea (a ++ b) = ((logs n ea a).1 ++ (logs n ea b).1, (logs n ea a).2.1 ++ (logs n ea b).2.1,
      (logs n ea a).2.2 ++ (logs n ea b).2.2) := by
  simp [logs, List.flatMap_append]

section Loop0
variable (P : Params) (oracle : Nat → Bool) (fuel : Nat) (ea : Int)

/-- the first `while` (`len_count != n-1-adjusting && index < n+10`) ≙ `phase1` -/
theorem loop0 : ∀ (f : Nat) (k : ThetaFSt OSt) (m : St), k.fault = none → k.obs.bad = false → m.err = none →
    k.index = (m.index : Int) → k.len_count = m.lenCount → k.adjusting = (P.adj : Int) → P.n + 10 - m.index ≤ f →
    (phase1 P m).err = none →
    whileF (ThetaFSt.live obs)
      (fun s => match theta_chain_comput_strategy_faster_no_eval_loop0_cond obs P.row oracle fuel P.n ea s with | .ok b => b | .error _ => true)
      (fun s => match theta_chain_comput_strategy_faster_no_eval_loop0_cond obs P.row oracle fuel P.n ea s with
        | .ok _ => theta_chain_comput_strategy_faster_no_eval_loop0_body obs P.row oracle fuel P.n ea s | .error f => s.fail f)
      (fun s => s.fail .fuel) f k =
      { k with len_count := (phase1 P m).lenCount, index := ((phase1 P m).index : Int) } ∧
    (phase1 P m).level = m.level ∧ (phase1 P m).pts = m.pts ∧ (phase1 P m).q = m.q ∧
    (phase1 P m).lenList = m.lenList ∧ logs P.n P.eightAbove (phase1 P m).trace = logs P.n P.eightAbove m.trace := by
  intro f
  induction f with
  | zero =>
    intro k m hf hb he hi hc ha hfu hpe
    have hm : P.m = (P.n : Int) - 1 - (P.adj : Int) := rfl
    have hstop : m.lenCount = P.m ∨ ¬ m.index < P.n + 10 := by omega
    have hph : phase1 P m = m := by
      rw [phase1]
      rcases hstop with h | h
      · simp [he, h]
      · simp [he, h]
    rw [hph]
    refine ⟨?_, rfl, rfl, rfl, rfl, rfl⟩
    rw [whileF_stop _ _ _ _ _ _ (by
      simp only [theta_chain_comput_strategy_faster_no_eval_loop0_cond, hc, hi, ha]
      rcases hstop with h | h
      · simp [h, hm]
      · simp; intro _; omega)]
    cases k; simp at hi hc; simp [hi, hc]
  | succ f ih =>
    intro k m hf hb he hi hc ha hfu hpe
    have hm : P.m = (P.n : Int) - 1 - (P.adj : Int) := rfl
    by_cases hstop : m.lenCount = P.m ∨ ¬ m.index < P.n + 10
    · have hph : phase1 P m = m := by
        rw [phase1]
        rcases hstop with h | h
        · simp [he, h]
        · simp [he, h]
      rw [hph]
      refine ⟨?_, rfl, rfl, rfl, rfl, rfl⟩
      rw [whileF_stop _ _ _ _ _ _ (by
        simp only [theta_chain_comput_strategy_faster_no_eval_loop0_cond, hc, hi, ha]
        rcases hstop with h | h
        · simp [h, hm]
        · simp; intro _; omega)]
      cases k; simp at hi hc; simp [hi, hc]
    · have h1 : m.lenCount ≠ P.m := fun h => hstop (Or.inl h)
      have h2 : m.index < P.n + 10 := by
        by_cases h : m.index < P.n + 10
        · exact h
        · exact absurd (Or.inr h) hstop
      have h3 : m.index < P.row.length := by
        by_cases h : m.index < P.row.length
        · exact h
        · exfalso
          rw [phase1] at hpe
          simp [he, h1, h2, h, St.fail] at hpe
      have hlive : ThetaFSt.live obs k = true := by simp [ThetaFSt.live, obs, hf, hb]
      rw [whileF_step _ _ _ _ _ _ (by
        simp only [theta_chain_comput_strategy_faster_no_eval_loop0_cond, hc, hi, ha, hlive]
        simp; constructor
        · intro h; apply h1; rw [hm]; omega
        · omega)]
      have hbody : (match theta_chain_comput_strategy_faster_no_eval_loop0_cond obs P.row oracle fuel P.n ea k with
          | .ok _ => theta_chain_comput_strategy_faster_no_eval_loop0_body obs P.row oracle fuel P.n ea k | .error f => k.fail f) =
          { k with len_count := m.lenCount + ((P.row[m.index] : Nat) : Int), index := ((m.index + 1 : Nat) : Int) } := by
        simp [theta_chain_comput_strategy_faster_no_eval_loop0_cond, theta_chain_comput_strategy_faster_no_eval_loop0_body, ThetaFSt.step, ThetaFSt.live, obs,
          hf, hb, hi, hc, rdRow_ok P.row m.index h3]
      rw [hbody]
      rw [phase1_step P m he h1 h2 h3] at hpe ⊢
      obtain ⟨r1, r2, r3, r4, r5, r6⟩ := ih
        { k with len_count := m.lenCount + ((P.row[m.index] : Nat) : Int), index := ((m.index + 1 : Nat) : Int) }
        { m with lenCount := m.lenCount + P.row[m.index], index := m.index + 1,
                 trace := m.trace ++ [.p1 m.index P.row[m.index] m.lenCount] }
        hf hb he rfl rfl ha (by simp only []; omega) hpe
      refine ⟨?_, r2, r3, r4, r5, ?_⟩
      · rw [r1]
      · rw [r6, logs_append]; simp [logs, mDbls, mSteps, mKers]
end Loop0


/-! ### the simulation relation -/

/-- invariant between the integer state `k` of the generated skeleton (with the order-tracking observer) and the state
    `m` of the hand model; `g` is what the arrays Q1/Q2 hold (`m.q` except while the gluing is being evaluated) -/
structure RelQ (P : Params) (g : Nat → Option Nat) (k : ThetaFSt OSt) (m : St) : Prop where
  kf : k.fault = none
  kb : k.obs.bad = false
  me : m.err = none
  ix : k.index = (m.index : Int)
  ll : k.len_list = m.lenList
  lc : k.len_count = m.lenCount
  ad : k.adjusting = (P.adj : Int)
  lvs : k.level.size = (P.n : Int)
  lvg : ∀ i : Nat, k.level.get (i : Int) = (m.level i).map Int.ofNat
  s1 : k.obs.size 1 = (P.n : Int)
  s2 : k.obs.size 2 = (P.n : Int)
  s3 : k.obs.size 3 = (P.n : Int)
  s4 : k.obs.size 4 = (P.n : Int)
  s5 : k.obs.size 5 = (P.n : Int) - 1
  a1 : ∀ i : Nat, k.obs.arr 1 (i : Int) = m.pts i
  a2 : ∀ i : Nat, k.obs.arr 2 (i : Int) = m.pts i
  a3 : ∀ i : Nat, k.obs.arr 3 (i : Int) = g i
  a4 : ∀ i : Nat, k.obs.arr 4 (i : Int) = g i
  tg : k.obs.tog = false
  lg : (k.obs.dbls, k.obs.steps, k.obs.kers) = logs P.n P.eightAbove m.trace

abbrev Rel (P : Params) (k : ThetaFSt OSt) (m : St) : Prop := RelQ P m.q k m

/-! ### building `points1/2[]` -/

theorem buildPts_err (P : Params) (cnt i : Nat) (s : St) (h : s.err.isSome = true) : buildPts P cnt i s = s := by
  cases cnt <;> simp [buildPts, h]

/-- hand-model state after one iteration of the construction of `points[]` -/
def ptsd (m : St) (i b o : Nat) : St :=
  { m with pts := upd m.pts i (some (o - b)), level := upd m.level i (some b), trace := m.trace ++ [.pts i b (o - b)] }

theorem buildPts_inv (P : Params) (cnt i : Nat) (m : St) (he0 : m.err = none)
    (he : (buildPts P (cnt + 1) i m).err = none) :
    ∃ (h : i - 1 < P.row.length) (o : Nat), 1 ≤ i ∧ i < P.n ∧ m.pts (i - 1) = some o ∧
      buildPts P (cnt + 1) i m = buildPts P cnt (i + 1) (ptsd m i P.row[i - 1] o) := by
  by_cases h : i - 1 < P.row.length
  · refine ⟨h, ?_⟩
    by_cases hidx : (idxOK (i : Int) P.n && idxOK ((i : Int) - 1) P.n) = true
    · have hidx' := hidx
      simp [idxOK] at hidx'
      cases ho : m.pts (i - 1) with
      | none => simp [buildPts, he0, h, hidx, ho, St.fail] at he
      | some o =>
        refine ⟨o, by omega, by omega, rfl, ?_⟩
        simp [buildPts, he0, h, hidx, ho, St.emit, ptsd]
    · simp [buildPts, he0, h, hidx, St.fail] at he
  · simp [buildPts, he0, h, St.fail] at he

section Loop1
variable (P : Params) (oracle : Nat → Bool) (fuel : Nat) (ea : Int)

theorem body1 (k : ThetaFSt OSt) (j b v w : Nat) (hf : k.fault = none) (hb : k.obs.bad = false)
    (hi : k.i = (j : Int) + 1) (hrd : rdRow P.row (j : Int) = .ok (b : Int))
    (hs1 : k.obs.size 1 = (P.n : Int)) (hs2 : k.obs.size 2 = (P.n : Int)) (hls : k.level.size = (P.n : Int))
    (hin : j + 1 < P.n) (hv : k.obs.arr 1 (j : Int) = some v) (hw : k.obs.arr 2 (j : Int) = some w) :
    theta_chain_comput_strategy_faster_no_eval_loop1_body obs P.row oracle fuel P.n ea k =
      { k with i := (j : Int) + 1 + 1, level := k.level.set ((j : Int) + 1) (b : Int),
               obs := { ((k.obs.put 1 ((j : Int) + 1) (v - b)).put 2 ((j : Int) + 1) (w - b)) with
                        dbls := k.obs.dbls ++ [(1, (j : Int) + 1, (b : Int))] } } := by
  have hlin : k.level.inb ((j : Int) + 1) = true := by simp [IArr.inb, hls]; omega
  have hi0 : (0 : Int) ≤ (j : Int) := by omega
  have hi1 : (0 : Int) ≤ (j : Int) + 1 := by omega
  have hi2 : (j : Int) < (P.n : Int) := by omega
  have hi3 : (j : Int) + 1 < (P.n : Int) := by omega
  have hi4 : j < P.n := by omega
  have hne : ¬ ((j : Int) = (j : Int) + 1) := by omega
  simp [theta_chain_comput_strategy_faster_no_eval_loop1_body, ThetaFSt.step, ThetaFSt.live, obs, hf, hb, hi, hrd, EvKind.dblIterP,
    ev_dblP_s, OSt.inb, OSt.put, hs1, hs2, hv, hw, hlin, hi0, hi1, hi2, hi3, hi4, hin, hne]

/-- one iteration of the construction of `points1/2[]` preserves the relation -/
theorem pts_step (g : Nat → Option Nat) (j o : Nat) (k : ThetaFSt OSt) (m : St) (R : RelQ P g k m)
    (hi : k.i = (j : Int) + 1) (h : j < P.row.length) (hin : j + 1 < P.n) (ho : m.pts j = some o) :
    theta_chain_comput_strategy_faster_no_eval_loop1_body obs P.row oracle fuel P.n ea k =
      { k with i := (j : Int) + 1 + 1, level := k.level.set ((j : Int) + 1) ((P.row[j] : Nat) : Int),
               obs := { ((k.obs.put 1 ((j : Int) + 1) (o - P.row[j])).put 2 ((j : Int) + 1) (o - P.row[j])) with
                        dbls := k.obs.dbls ++ [(1, (j : Int) + 1, ((P.row[j] : Nat) : Int))] } } ∧
    RelQ P g
      { k with i := (j : Int) + 1 + 1, level := k.level.set ((j : Int) + 1) ((P.row[j] : Nat) : Int),
               obs := { ((k.obs.put 1 ((j : Int) + 1) (o - P.row[j])).put 2 ((j : Int) + 1) (o - P.row[j])) with
                        dbls := k.obs.dbls ++ [(1, (j : Int) + 1, ((P.row[j] : Nat) : Int))] } }
      (ptsd m (j + 1) P.row[j] o) := by
  refine ⟨body1 P oracle fuel ea k j P.row[j] o o R.kf R.kb hi (rdRow_ok P.row j h) R.s1 R.s2 R.lvs hin
      (by rw [R.a1, ho]) (by rw [R.a2, ho]), ?_⟩
  have hne1 : ¬ ((2 : Int) = 1) := by omega
  constructor
  · exact R.kf
  · simp [OSt.put, R.kb]
  · exact R.me
  · exact R.ix
  · exact R.ll
  · exact R.lc
  · exact R.ad
  · simp [IArr.set, R.lvs]
  · intro i
    simp only [IArr.set, ptsd, SqiModel.ThetaChain.upd]
    by_cases hi' : i = j + 1
    · subst hi'; simp
    · have : ¬ (i : Int) = (j : Int) + 1 := by omega
      simp [hi', this, R.lvg]
  · simp [OSt.put, R.s1]
  · simp [OSt.put, R.s2]
  · simp [OSt.put, R.s3]
  · simp [OSt.put, R.s4]
  · simp [OSt.put, R.s5]
  · intro i
    simp only [OSt.put, ptsd, SqiModel.ThetaChain.upd]
    by_cases hi' : i = j + 1
    · subst hi'; simp
    · have : ¬ (i : Int) = (j : Int) + 1 := by omega
      simp [hi', this, R.a1]
  · intro i
    simp only [OSt.put, ptsd, SqiModel.ThetaChain.upd]
    by_cases hi' : i = j + 1
    · subst hi'; simp
    · have : ¬ (i : Int) = (j : Int) + 1 := by omega
      simp [hi', this, R.a2]
  · intro i; simp [OSt.put, R.a3]
  · intro i; simp [OSt.put, R.a4]
  · simp [OSt.put, R.tg]
  · have := R.lg
    simp only [logs, Prod.mk.injEq] at this
    simp [OSt.put, ptsd, logs_append, this.1, this.2.1, this.2.2, logs, mDbls, mSteps, mKers]

/-- the `for (i = 1; i < len_list; i++)` building `points1/2[]` and `level[]` ≙ `buildPts` -/
theorem pts_sim (g : Nat → Option Nat) : ∀ (cnt f j : Nat) (k : ThetaFSt OSt) (m : St), RelQ P g k m →
    k.i = (j : Int) + 1 → m.lenList = (j : Int) + 1 + (cnt : Int) → cnt ≤ f →
    (buildPts P cnt (j + 1) m).err = none →
    RelQ P g
      (whileF (ThetaFSt.live obs)
        (fun s => match theta_chain_comput_strategy_faster_no_eval_loop1_cond obs P.row oracle fuel P.n ea s with | .ok b => b | .error _ => true)
        (fun s => match theta_chain_comput_strategy_faster_no_eval_loop1_cond obs P.row oracle fuel P.n ea s with
          | .ok _ => theta_chain_comput_strategy_faster_no_eval_loop1_body obs P.row oracle fuel P.n ea s | .error f => s.fail f)
        (fun s => s.fail .fuel) f k)
      (buildPts P cnt (j + 1) m) := by
  intro cnt
  induction cnt with
  | zero =>
    intro f j k m R hi hl _ _
    rw [whileF_stop _ _ _ _ _ _ (by simp [theta_chain_comput_strategy_faster_no_eval_loop1_cond, hi, R.ll, hl])]
    exact R
  | succ cnt ih =>
    intro f j k m R hi hl hf he
    obtain ⟨f', rfl⟩ : ∃ f', f = f' + 1 := ⟨f - 1, by omega⟩
    obtain ⟨h, o, _, hin, ho, hstep⟩ := buildPts_inv P cnt (j + 1) m R.me he
    have hj : j + 1 - 1 = j := by omega
    simp only [hj] at h ho hstep
    have hlive : ThetaFSt.live obs k = true := by simp [ThetaFSt.live, obs, R.kf, R.kb]
    rw [whileF_step _ _ _ _ _ _ (by simp [theta_chain_comput_strategy_faster_no_eval_loop1_cond, hi, R.ll, hl, hlive]; omega)]
    have hbody : (match theta_chain_comput_strategy_faster_no_eval_loop1_cond obs P.row oracle fuel P.n ea k with
        | .ok _ => theta_chain_comput_strategy_faster_no_eval_loop1_body obs P.row oracle fuel P.n ea k | .error f => k.fail f) =
        theta_chain_comput_strategy_faster_no_eval_loop1_body obs P.row oracle fuel P.n ea k := by
      simp [theta_chain_comput_strategy_faster_no_eval_loop1_cond]
    rw [hbody, body1 P oracle fuel ea k j P.row[j] o o R.kf R.kb hi (rdRow_ok P.row j h) R.s1 R.s2 R.lvs hin
      (by rw [R.a1, ho]) (by rw [R.a2, ho])]
    rw [hstep] at he ⊢
    exact ih f' (j + 1) _ _ (pts_step P oracle fuel ea g j o k m R hi h hin ho).2 (by simp)
      (by simp only [ptsd]; rw [hl]; push_cast; omega) (by omega) he
end Loop1


/-! ### the gluing step and its evaluation -/

theorem glueStep_inv (P : Params) (s : St) (he0 : s.err = none) (he : (glueStep P s).err = none) :
    ∃ c kk : Nat, s.lenList = (c : Int) + 1 ∧ c < P.n ∧ s.pts c = some kk ∧
      glueStep P s = { s with lenList := (c : Int),
                              q := fun j => if (j : Int) < (c : Int) then (s.pts j).map (· - 1) else none,
                              trace := s.trace ++ [.glue (c : Int) kk, .glueEval (c : Int)] } := by
  by_cases hidx : idxOK (s.lenList - 1) P.n = true
  · have hidx' := hidx
    simp [idxOK] at hidx'
    obtain ⟨c, hc⟩ : ∃ c : Nat, s.lenList - 1 = (c : Int) := ⟨(s.lenList - 1).toNat, by omega⟩
    have hidxc : idxOK (c : Int) P.n = true := by rw [← hc]; exact hidx
    cases ho : s.pts c with
    | none => simp [glueStep, he0, hc, hidxc, ho, St.fail] at he
    | some kk =>
      refine ⟨c, kk, by omega, by omega, ho, ?_⟩
      simp [glueStep, he0, hc, hidxc, ho]
  · simp [glueStep, he0, hidx, St.fail] at he

section Loop2
variable (P : Params) (oracle : Nat → Bool) (fuel : Nat) (ea : Int)

theorem body2 (k : ThetaFSt OSt) (i v w : Nat) (hf : k.fault = none) (hb : k.obs.bad = false)
    (hi : k.i = (i : Int)) (hs1 : k.obs.size 1 = (P.n : Int)) (hs2 : k.obs.size 2 = (P.n : Int))
    (hs3 : k.obs.size 3 = (P.n : Int)) (hs4 : k.obs.size 4 = (P.n : Int))
    (hin : i < P.n) (hv : k.obs.arr 1 (i : Int) = some v) (hw : k.obs.arr 2 (i : Int) = some w) :
    theta_chain_comput_strategy_faster_no_eval_loop2_body obs P.row oracle fuel P.n ea k =
      { k with i := (i : Int) + 1, obs := (k.obs.put 3 (i : Int) (v - 1)).put 4 (i : Int) (w - 1) } := by
  have hi0 : (0 : Int) ≤ (i : Int) := by omega
  have hi2 : (i : Int) < (P.n : Int) := by omega
  simp [theta_chain_comput_strategy_faster_no_eval_loop2_body, ThetaFSt.step, ThetaFSt.live, obs, hf, hb, hi, EvKind.glueEval,
    ev_glueEval_s, OSt.inb, OSt.put, hs1, hs2, hs3, hs4, hv, hw, hi0, hi2, hin]

/-- `for (i = 0; i < len_list; i++) gluing_eval_basis(&Q1[i], &Q2[i], &points1[i], &points2[i], …)`; `m` is the
    hand-model state after `glueStep` -/
theorem glue_sim : ∀ (cnt f i : Nat) (k : ThetaFSt OSt) (m : St),
    RelQ P (fun j => if j < i then m.q j else none) k m → k.i = (i : Int) → m.lenList = (i : Int) + (cnt : Int) →
    cnt ≤ f → i + cnt ≤ P.n → (∀ j, j < i + cnt → ∃ v, m.pts j = some v ∧ m.q j = some (v - 1)) →
    RelQ P (fun j => if j < i + cnt then m.q j else none)
      (whileF (ThetaFSt.live obs)
        (fun s => match theta_chain_comput_strategy_faster_no_eval_loop2_cond obs P.row oracle fuel P.n ea s with | .ok b => b | .error _ => true)
        (fun s => match theta_chain_comput_strategy_faster_no_eval_loop2_cond obs P.row oracle fuel P.n ea s with
          | .ok _ => theta_chain_comput_strategy_faster_no_eval_loop2_body obs P.row oracle fuel P.n ea s | .error f => s.fail f)
        (fun s => s.fail .fuel) f k) m := by
  intro cnt
  induction cnt with
  | zero =>
    intro f i k m R hi hl _ _ _
    rw [whileF_stop _ _ _ _ _ _ (by simp [theta_chain_comput_strategy_faster_no_eval_loop2_cond, hi, R.ll, hl])]
    exact R
  | succ cnt ih =>
    intro f i k m R hi hl hf hn hq
    obtain ⟨f', rfl⟩ : ∃ f', f = f' + 1 := ⟨f - 1, by omega⟩
    obtain ⟨v, hv, hqv⟩ := hq i (by omega)
    have hlive : ThetaFSt.live obs k = true := by simp [ThetaFSt.live, obs, R.kf, R.kb]
    rw [whileF_step _ _ _ _ _ _ (by simp [theta_chain_comput_strategy_faster_no_eval_loop2_cond, hi, R.ll, hl, hlive]; omega)]
    have hbody : (match theta_chain_comput_strategy_faster_no_eval_loop2_cond obs P.row oracle fuel P.n ea k with
        | .ok _ => theta_chain_comput_strategy_faster_no_eval_loop2_body obs P.row oracle fuel P.n ea k | .error f => k.fail f) =
        theta_chain_comput_strategy_faster_no_eval_loop2_body obs P.row oracle fuel P.n ea k := by
      simp [theta_chain_comput_strategy_faster_no_eval_loop2_cond]
    rw [hbody, body2 P oracle fuel ea k i v v R.kf R.kb hi R.s1 R.s2 R.s3 R.s4 (by omega)
      (by rw [R.a1, hv]) (by rw [R.a2, hv])]
    have e : i + (cnt + 1) = (i + 1) + cnt := by omega
    rw [e]
    refine ih f' (i + 1) _ m ?_ (by simp) (by rw [hl]; push_cast; omega) (by omega) (by omega)
      (fun j hj => hq j (by omega))
    have hne1 : ¬ ((3 : Int) = 4) := by omega
    constructor
    · exact R.kf
    · simp [OSt.put, R.kb]
    · exact R.me
    · exact R.ix
    · exact R.ll
    · exact R.lc
    · exact R.ad
    · exact R.lvs
    · exact R.lvg
    · simp [OSt.put, R.s1]
    · simp [OSt.put, R.s2]
    · simp [OSt.put, R.s3]
    · simp [OSt.put, R.s4]
    · simp [OSt.put, R.s5]
    · intro j; simp [OSt.put, R.a1]
    · intro j; simp [OSt.put, R.a2]
    · intro j
      simp only [OSt.put]
      by_cases hj : j = i
      · subst hj; simp [hqv]
      · have : ¬ (j : Int) = (i : Int) := by omega
        have h2 : j < i + 1 ↔ j < i := by omega
        simp [this, R.a3, h2]
    · intro j
      simp only [OSt.put]
      by_cases hj : j = i
      · subst hj; simp [hqv]
      · have : ¬ (j : Int) = (i : Int) := by omega
        have h2 : j < i + 1 ↔ j < i := by omega
        simp [this, R.a4, h2]
    · simp [OSt.put, R.tg]
    · simpa [OSt.put] using R.lg
end Loop2


/-! ### the main loop: recomputation of `len_count` -/

theorem levelSum_prefix (lv : Nat → Option Nat) (a : Nat) : ∀ (b S : Nat), levelSum lv (a + b) = some S →
    ∃ S', levelSum lv a = some S' := by
  intro b
  induction b with
  | zero => intro S h; exact ⟨S, h⟩
  | succ b ih =>
    intro S h
    have e : a + (b + 1) = (a + b) + 1 := by omega
    rw [e] at h
    simp only [levelSum] at h
    cases h1 : levelSum lv (a + b) with
    | none => simp [h1] at h
    | some S1 => exact ih S1 h1

theorem levelSum_succ (lv : Nat → Option Nat) (j a S : Nat) (h0 : levelSum lv j = some a)
    (h : levelSum lv (j + 1) = some S) : ∃ b, lv j = some b ∧ S = a + b := by
  simp only [levelSum, h0] at h
  cases hb : lv j with
  | none => simp [hb] at h
  | some b => simp [hb] at h; exact ⟨b, rfl, h.symm⟩

section Loop4
variable (P : Params) (oracle : Nat → Bool) (fuel : Nat) (ea : Int)

/-- `for (j = 0; j < len_list; j++) len_count += level[j]` ≙ `levelSum` -/
theorem loop4 (lv : Nat → Option Nat) : ∀ (cnt f j a : Nat) (k : ThetaFSt OSt), k.fault = none → k.obs.bad = false →
    k.j = (j : Int) → k.len_list = (j : Int) + (cnt : Int) → k.len_count = (a : Int) → levelSum lv j = some a →
    k.level.size = (P.n : Int) → j + cnt ≤ P.n → (∀ i : Nat, k.level.get (i : Int) = (lv i).map Int.ofNat) → cnt ≤ f →
    ∀ S, levelSum lv (j + cnt) = some S →
    whileF (ThetaFSt.live obs)
      (fun s => match theta_chain_comput_strategy_faster_no_eval_loop4_cond obs P.row oracle fuel P.n ea s with | .ok b => b | .error _ => true)
      (fun s => match theta_chain_comput_strategy_faster_no_eval_loop4_cond obs P.row oracle fuel P.n ea s with
        | .ok _ => theta_chain_comput_strategy_faster_no_eval_loop4_body obs P.row oracle fuel P.n ea s | .error f => s.fail f)
      (fun s => s.fail .fuel) f k = { k with j := ((j + cnt : Nat) : Int), len_count := (S : Int) } := by
  intro cnt
  induction cnt with
  | zero =>
    intro f j a k hf hb hj hl hc h0 _ _ _ _ S hS
    rw [whileF_stop _ _ _ _ _ _ (by simp [theta_chain_comput_strategy_faster_no_eval_loop4_cond, hj, hl])]
    rw [Nat.add_zero, h0] at hS
    cases hS
    cases k; simp at hj hc; simp [hj, hc]
  | succ cnt ih =>
    intro f j a k hf hb hj hl hc h0 hsz hn hg hfu S hS
    obtain ⟨f', rfl⟩ : ∃ f', f = f' + 1 := ⟨f - 1, by omega⟩
    have e : j + (cnt + 1) = (j + 1) + cnt := by omega
    rw [e] at hS
    obtain ⟨S1, hS1⟩ := levelSum_prefix lv (j + 1) cnt S hS
    obtain ⟨b, hb1, hS1b⟩ := levelSum_succ lv j a S1 h0 hS1
    have hlive : ThetaFSt.live obs k = true := by simp [ThetaFSt.live, obs, hf, hb]
    rw [whileF_step _ _ _ _ _ _ (by simp [theta_chain_comput_strategy_faster_no_eval_loop4_cond, hj, hl, hlive]; omega)]
    have hin : k.level.inb (j : Int) = true := by simp [IArr.inb, hsz]; omega
    have hbody : (match theta_chain_comput_strategy_faster_no_eval_loop4_cond obs P.row oracle fuel P.n ea k with
        | .ok _ => theta_chain_comput_strategy_faster_no_eval_loop4_body obs P.row oracle fuel P.n ea k | .error f => k.fail f) =
        { k with j := ((j + 1 : Nat) : Int), len_count := ((a + b : Nat) : Int) } := by
      simp [theta_chain_comput_strategy_faster_no_eval_loop4_cond, theta_chain_comput_strategy_faster_no_eval_loop4_body, ThetaFSt.step, ThetaFSt.live, obs,
        hf, hb, hj, hc, rdArr, hin, hg, hb1]
    rw [hbody]
    rw [ih f' (j + 1) (a + b) { k with j := ((j + 1 : Nat) : Int), len_count := ((a + b : Nat) : Int) } hf hb rfl
      (by simp only []; rw [hl]; push_cast; omega) rfl (by rw [← hS1b]; exact hS1) hsz (by omega) hg (by omega) S hS]
    simp only [ThetaFSt.mk.injEq, true_and, and_true]
    omega
end Loop4


/-! ### the main loop: the inner `while` -/

theorem pushBody_inv (P : Params) (s : St) (b : Nat) (he : (pushBody P s b).err = none) :
    ∃ c o : Nat, s.lenList = (c : Int) + 1 ∧ c + 1 < P.n ∧ s.q c = some o := by
  by_cases hidx : (idxOK s.lenList P.n && idxOK (s.lenList - 1) P.n) = true
  · have hidx' := hidx
    simp [idxOK] at hidx'
    obtain ⟨c, hc⟩ : ∃ c : Nat, s.lenList = (c : Int) + 1 := ⟨(s.lenList - 1).toNat, by omega⟩
    have h1 : idxOK ((c : Int) + 1) P.n = true := by simp [idxOK]; omega
    have h2 : idxOK (c : Int) P.n = true := by simp [idxOK]; omega
    cases ho : s.q c with
    | none => simp [pushBody, hc, h1, h2, ho, St.fail] at he
    | some o => exact ⟨c, o, hc, by omega, ho⟩
  · simp [pushBody, hidx, St.fail] at he

theorem whileLoop_err (P : Params) (i : Nat) (s : St) (h : s.err.isSome = true) : whileLoop P i s = s := by
  rw [whileLoop]; simp [h]

section Loop5
variable (P : Params) (oracle : Nat → Bool) (fuel : Nat) (ea : Int)

theorem body5 (k : ThetaFSt OSt) (c ix b v w : Nat) (hf : k.fault = none) (hb : k.obs.bad = false)
    (hl : k.len_list = (c : Int) + 1) (hix : k.index = (ix : Int)) (hrd : rdRow P.row (ix : Int) = .ok (b : Int))
    (hs3 : k.obs.size 3 = (P.n : Int)) (hs4 : k.obs.size 4 = (P.n : Int)) (hls : k.level.size = (P.n : Int))
    (hin : c + 1 < P.n) (hv : k.obs.arr 3 (c : Int) = some v) (hw : k.obs.arr 4 (c : Int) = some w) :
    theta_chain_comput_strategy_faster_no_eval_loop5_body obs P.row oracle fuel P.n ea k =
      { k with len_count := k.len_count + (b : Int), level := k.level.set ((c : Int) + 1) (b : Int),
               index := (ix : Int) + 1, len_list := (c : Int) + 1 + 1,
               obs := { ((k.obs.put 3 ((c : Int) + 1) (v - b)).put 4 ((c : Int) + 1) (w - b)) with
                        dbls := k.obs.dbls ++ [(3, (c : Int) + 1, (b : Int))] } } := by
  have hlin : k.level.inb ((c : Int) + 1) = true := by simp [IArr.inb, hls]; omega
  have hi0 : (0 : Int) ≤ (c : Int) := by omega
  have hi1 : (0 : Int) ≤ (c : Int) + 1 := by omega
  have hi2 : (c : Int) < (P.n : Int) := by omega
  have hi3 : (c : Int) + 1 < (P.n : Int) := by omega
  have hi4 : c < P.n := by omega
  have hne : ¬ ((c : Int) = (c : Int) + 1) := by omega
  simp [theta_chain_comput_strategy_faster_no_eval_loop5_body, ThetaFSt.step, ThetaFSt.live, obs, hf, hb, hl, hix, hrd, EvKind.dblIter,
    ev_dblQ_s, OSt.inb, OSt.put, hs3, hs4, hv, hw, hlin, hi0, hi1, hi2, hi3, hi4, hin, hne]

/-- one iteration of the inner `while` ≙ `pushBody` -/
theorem push_sim (k : ThetaFSt OSt) (m : St) (R : Rel P k m) (hs : m.index < P.row.length)
    (he : (pushBody P m P.row[m.index]).err = none) :
    Rel P (theta_chain_comput_strategy_faster_no_eval_loop5_body obs P.row oracle fuel P.n ea k)
      { pushBody P m P.row[m.index] with index := m.index + 1 } ∧
    (theta_chain_comput_strategy_faster_no_eval_loop5_body obs P.row oracle fuel P.n ea k).i = k.i := by
  obtain ⟨c, o, hc, hv, ho⟩ := pushBody_inv P m _ he
  rw [body5 P oracle fuel ea k c m.index P.row[m.index] o o R.kf R.kb (by rw [R.ll, hc]) R.ix
    (rdRow_ok P.row m.index hs) R.s3 R.s4 R.lvs hv (by rw [R.a3, ho]) (by rw [R.a4, ho]),
    pushBody_ok P m c _ o R.me hc hv ho]
  refine ⟨?_, rfl⟩
  have hne1 : ¬ ((4 : Int) = 3) := by omega
  constructor
  · exact R.kf
  · simp [OSt.put, R.kb]
  · rfl
  · simp [pushed, R.ix]
  · simp [pushed]; omega
  · simp [pushed, R.lc]
  · exact R.ad
  · simp [IArr.set, R.lvs]
  · intro i
    simp only [IArr.set, pushed, SqiModel.ThetaChain.upd]
    by_cases hi' : i = c + 1
    · subst hi'; simp
    · have : ¬ (i : Int) = (c : Int) + 1 := by omega
      simp [hi', this, R.lvg]
  · simp [OSt.put, R.s1]
  · simp [OSt.put, R.s2]
  · simp [OSt.put, R.s3]
  · simp [OSt.put, R.s4]
  · simp [OSt.put, R.s5]
  · intro i; simp [OSt.put, pushed, R.a1]
  · intro i; simp [OSt.put, pushed, R.a2]
  · intro i
    simp only [OSt.put, pushed, SqiModel.ThetaChain.upd]
    by_cases hi' : i = c + 1
    · subst hi'; simp
    · have : ¬ (i : Int) = (c : Int) + 1 := by omega
      simp [hi', this, R.a3]
  · intro i
    simp only [OSt.put, pushed, SqiModel.ThetaChain.upd]
    by_cases hi' : i = c + 1
    · subst hi'; simp
    · have : ¬ (i : Int) = (c : Int) + 1 := by omega
      simp [hi', this, R.a4]
  · simp [OSt.put, R.tg]
  · have := R.lg
    simp only [logs, Prod.mk.injEq] at this
    simp [OSt.put, pushed, logs_append, this.1, this.2.1, this.2.2, logs, mDbls, mSteps, mKers]

/-- the inner `while (len_count != n - i - 2 - adjusting)` ≙ `whileLoop` -/
theorem while_sim (i : Nat) : ∀ (n f : Nat) (k : ThetaFSt OSt) (m : St), Rel P k m → k.i = (i : Int) →
    P.row.length - m.index ≤ n → n ≤ f → (whileLoop P i m).err = none →
    Rel P
      (whileF (ThetaFSt.live obs)
        (fun s => match theta_chain_comput_strategy_faster_no_eval_loop5_cond obs P.row oracle fuel P.n ea s with | .ok b => b | .error _ => true)
        (fun s => match theta_chain_comput_strategy_faster_no_eval_loop5_cond obs P.row oracle fuel P.n ea s with
          | .ok _ => theta_chain_comput_strategy_faster_no_eval_loop5_body obs P.row oracle fuel P.n ea s | .error f => s.fail f)
        (fun s => s.fail .fuel) f k)
      (whileLoop P i m) ∧
    (whileF (ThetaFSt.live obs)
        (fun s => match theta_chain_comput_strategy_faster_no_eval_loop5_cond obs P.row oracle fuel P.n ea s with | .ok b => b | .error _ => true)
        (fun s => match theta_chain_comput_strategy_faster_no_eval_loop5_cond obs P.row oracle fuel P.n ea s with
          | .ok _ => theta_chain_comput_strategy_faster_no_eval_loop5_body obs P.row oracle fuel P.n ea s | .error f => s.fail f)
        (fun s => s.fail .fuel) f k).i = (i : Int) := by
  intro n
  induction n with
  | zero =>
    intro f k m R hi hn _ he
    have hm : P.m = (P.n : Int) - 1 - (P.adj : Int) := rfl
    by_cases hb : m.lenCount = P.m - 1 - (i : Int)
    · rw [whileLoop_exit P i m R.me hb]
      rw [whileF_stop _ _ _ _ _ _ (by simp [theta_chain_comput_strategy_faster_no_eval_loop5_cond, R.lc, hi, R.ad, hb, hm]; omega)]
      exact ⟨R, hi⟩
    · exfalso
      rw [whileLoop] at he
      have : ¬ m.index < P.row.length := by omega
      simp [R.me, hb, this, St.fail] at he
  | succ n ih =>
    intro f k m R hi hn hf he
    have hm : P.m = (P.n : Int) - 1 - (P.adj : Int) := rfl
    by_cases hb : m.lenCount = P.m - 1 - (i : Int)
    · rw [whileLoop_exit P i m R.me hb]
      rw [whileF_stop _ _ _ _ _ _ (by simp [theta_chain_comput_strategy_faster_no_eval_loop5_cond, R.lc, hi, R.ad, hb, hm]; omega)]
      exact ⟨R, hi⟩
    · by_cases hs : m.index < P.row.length
      · obtain ⟨f', rfl⟩ : ∃ f', f = f' + 1 := ⟨f - 1, by omega⟩
        have hlive : ThetaFSt.live obs k = true := by simp [ThetaFSt.live, obs, R.kf, R.kb]
        rw [whileF_step _ _ _ _ _ _ (by
          simp [theta_chain_comput_strategy_faster_no_eval_loop5_cond, R.lc, hi, R.ad, hlive]
          intro h; apply hb; rw [hm]; omega)]
        rw [whileLoop_push P i m R.me hb hs] at he ⊢
        have hpe : (pushBody P m P.row[m.index]).err = none := by
          cases hq : (pushBody P m P.row[m.index]).err with
          | none => rfl
          | some e =>
            rw [whileLoop_err P i _ (by simp [hq])] at he
            simp [hq] at he
        obtain ⟨R', hi'⟩ := push_sim P oracle fuel ea k m R hs hpe
        have hbody : (match theta_chain_comput_strategy_faster_no_eval_loop5_cond obs P.row oracle fuel P.n ea k with
            | .ok _ => theta_chain_comput_strategy_faster_no_eval_loop5_body obs P.row oracle fuel P.n ea k | .error f => k.fail f) =
            theta_chain_comput_strategy_faster_no_eval_loop5_body obs P.row oracle fuel P.n ea k := by
          simp [theta_chain_comput_strategy_faster_no_eval_loop5_cond]
        rw [hbody]
        exact ih f' _ _ R' (by rw [hi', hi]) (by simp only []; omega) (by omega) he
      · exfalso
        rw [whileLoop] at he
        simp [R.me, hb, hs, St.fail] at he
end Loop5


/-! ### the main loop: evaluation of the remaining points through the new step -/

/-- observer after `Q1[x], Q2[x]` have been pushed through a step for `lo ≤ x < hi` -/
def evalQ (o : OSt) (lo hi : Int) : OSt :=
  { o with arr := fun a x => if (a = 3 ∨ a = 4) ∧ lo ≤ x ∧ x < hi then (o.arr a x).map (· - 1) else o.arr a x }

theorem evalQ_step (o : OSt) (j : Int) (hi : Int) (v w : Nat) (hv : o.arr 3 j = some v) (hw : o.arr 4 j = some w)
    (hj : j < hi) :
    evalQ ((o.put 3 j (v - 1)).put 4 j (w - 1)) (j + 1) hi = evalQ o j hi := by
  simp only [evalQ, OSt.put]
  congr 1
  funext a x
  by_cases hx : x = j
  · subst hx
    have h1 : ¬ (x + 1 ≤ x) := by omega
    by_cases h3 : a = 3
    · subst h3; simp [h1, hv, hj]
    · by_cases h4 : a = 4
      · subst h4; simp [h1, hw, hj]
      · simp [h3, h4]
  · have h1 : (j + 1 ≤ x) ↔ (j ≤ x) := by omega
    simp [hx, h1]

theorem evalQ_empty (o : OSt) (j : Int) : evalQ o j j = o := by
  simp only [evalQ]
  have : ∀ (a x : Int), ¬ ((a = 3 ∨ a = 4) ∧ j ≤ x ∧ x < j) := by intro a x; omega
  simp [this]

section Loop6
variable (P : Params) (oracle : Nat → Bool) (fuel : Nat) (ea : Int)

theorem loop6 : ∀ (cnt f j : Nat) (k : ThetaFSt OSt), k.fault = none → k.obs.bad = false → k.j = (j : Int) →
    k.len_list = (j : Int) + (cnt : Int) → k.obs.size 3 = (P.n : Int) → k.obs.size 4 = (P.n : Int) → j + cnt ≤ P.n →
    0 ≤ k.i → k.i < k.obs.size 5 →
    (∀ x : Nat, j ≤ x → x < j + cnt → (k.obs.arr 3 (x : Int)).isSome = true ∧ (k.obs.arr 4 (x : Int)).isSome = true) →
    cnt ≤ f →
    whileF (ThetaFSt.live obs)
      (fun s => match theta_chain_comput_strategy_faster_no_eval_loop6_cond obs P.row oracle fuel P.n ea s with | .ok b => b | .error _ => true)
      (fun s => match theta_chain_comput_strategy_faster_no_eval_loop6_cond obs P.row oracle fuel P.n ea s with
        | .ok _ => theta_chain_comput_strategy_faster_no_eval_loop6_body obs P.row oracle fuel P.n ea s | .error f => s.fail f)
      (fun s => s.fail .fuel) f k =
      { k with j := (j : Int) + (cnt : Int), obs := evalQ k.obs (j : Int) ((j : Int) + (cnt : Int)) } := by
  intro cnt
  induction cnt with
  | zero =>
    intro f j k hf hb hj hl _ _ _ _ _ _ _
    rw [whileF_stop _ _ _ _ _ _ (by simp [theta_chain_comput_strategy_faster_no_eval_loop6_cond, hj, hl])]
    simp only [Int.natCast_zero, Int.add_zero, evalQ_empty]
    cases k; simp at hj; simp [hj]
  | succ cnt ih =>
    intro f j k hf hb hj hl hs3 hs4 hn hi0 hi5 hq hfu
    obtain ⟨f', rfl⟩ : ∃ f', f = f' + 1 := ⟨f - 1, by omega⟩
    obtain ⟨q3, q4⟩ := hq j (by omega) (by omega)
    obtain ⟨v, hv⟩ := Option.isSome_iff_exists.1 q3
    obtain ⟨w, hw⟩ := Option.isSome_iff_exists.1 q4
    have hlive : ThetaFSt.live obs k = true := by simp [ThetaFSt.live, obs, hf, hb]
    rw [whileF_step _ _ _ _ _ _ (by simp [theta_chain_comput_strategy_faster_no_eval_loop6_cond, hj, hl, hlive]; omega)]
    have hj0 : (0 : Int) ≤ (j : Int) := by omega
    have hj1 : (j : Int) < (P.n : Int) := by omega
    have hj2 : j < P.n := by omega
    have hne : ¬ ((4 : Int) = 3) := by omega
    have hbody : (match theta_chain_comput_strategy_faster_no_eval_loop6_cond obs P.row oracle fuel P.n ea k with
        | .ok _ => theta_chain_comput_strategy_faster_no_eval_loop6_body obs P.row oracle fuel P.n ea k | .error f => k.fail f) =
        { k with j := (j : Int) + 1, obs := (k.obs.put 3 (j : Int) (v - 1)).put 4 (j : Int) (w - 1) } := by
      simp [theta_chain_comput_strategy_faster_no_eval_loop6_cond, theta_chain_comput_strategy_faster_no_eval_loop6_body, ThetaFSt.step, ThetaFSt.live, obs,
        hf, hb, hj, EvKind.evalStep, ev_evalStep_s, OSt.inb, OSt.put, hs3, hs4, hv, hw, hi0, hi5, hj0, hj1, hj2, hne]
    rw [hbody]
    have := ih f' (j + 1) { k with j := (j : Int) + 1, obs := (k.obs.put 3 (j : Int) (v - 1)).put 4 (j : Int) (w - 1) }
      hf (by simp [OSt.put, hb]) (by simp) (by simp only []; rw [hl]; push_cast; omega) (by simp [OSt.put, hs3])
      (by simp [OSt.put, hs4]) (by omega) hi0 (by simpa [OSt.put] using hi5)
      (by
        intro x hx1 hx2
        have hxj : ¬ (x : Int) = (j : Int) := by omega
        simpa [OSt.put, hxj] using hq x (by omega) (by omega))
      (by omega)
    rw [this]
    have e1 : ((j + 1 : Nat) : Int) = (j : Int) + 1 := by push_cast; rfl
    have e2 : (j : Int) + 1 + (cnt : Int) = (j : Int) + ((cnt + 1 : Nat) : Int) := by push_cast; omega
    simp only [e1, e2]
    rw [evalQ_step k.obs (j : Int) _ v w hv hw (by omega)]
end Loop6


/-! ### one iteration of the main loop -/

theorem headStep_inv (P : Params) (i : Nat) (s : St) (he0 : s.err = none) (he : (headStep P i s).err = none) :
    ∃ L S : Nat, s.lenList = (L : Int) ∧ L ≤ P.n ∧ levelSum s.level L = some S ∧
      headStep P i s = { s with lenCount := (S : Int), trace := s.trace ++ [.head i (L : Int) (S : Int)] } := by
  by_cases h : 0 ≤ s.lenList ∧ s.lenList ≤ P.n
  · obtain ⟨L, hL⟩ : ∃ L : Nat, s.lenList = (L : Int) := ⟨s.lenList.toNat, by omega⟩
    have h1 : (0 : Int) ≤ (L : Int) ∧ (L : Int) ≤ (P.n : Int) := by omega
    cases hS : levelSum s.level L with
    | none => simp [headStep, he0, hL, h1, hS, St.fail] at he
    | some S =>
      refine ⟨L, S, hL, by omega, hS, ?_⟩
      simp [headStep, he0, hL, h1, hS, St.emit]
  · simp [headStep, he0, h, St.fail] at he

/-- hand-model state after the isogeny part of iteration `i` with kernel slot `c` of exponent `kk` -/
def isod (P : Params) (s : St) (i c kk : Nat) : St :=
  { index := s.index, lenList := (c : Int), lenCount := s.lenCount, level := s.level, pts := s.pts,
    q := fun j => if decide ((i : Int) < (P.n : Int) - 2) && decide (j < c) then (s.q j).map (· - 1) else s.q j,
    err := none,
    trace := s.trace ++ [.step i (c : Int)
        (if (i : Int) = (P.n : Int) - 3 then 1 else if (i : Int) = (P.n : Int) - 2 then 2 else 0) kk,
      .pop i (c : Int) (if (i : Int) < (P.n : Int) - 2 then 1 else 0)] }

theorem isoStep_inv (P : Params) (i : Nat) (s : St) (he0 : s.err = none) (he : (isoStep P i s).err = none) :
    ∃ c kk : Nat, s.lenList = (c : Int) + 1 ∧ c < P.n ∧ s.q c = some kk ∧ isoStep P i s = isod P s i c kk := by
  by_cases hidx : idxOK (s.lenList - 1) P.n = true
  · have hidx' := hidx
    simp [idxOK] at hidx'
    obtain ⟨c, hc⟩ : ∃ c : Nat, s.lenList = (c : Int) + 1 := ⟨(s.lenList - 1).toNat, by omega⟩
    have h1 : idxOK (c : Int) P.n = true := by simp [idxOK]; omega
    cases ho : s.q c with
    | none => simp [isoStep, he0, hc, h1, ho, St.fail] at he
    | some kk =>
      refine ⟨c, kk, hc, by omega, ho, ?_⟩
      simp [isoStep, isod, St.emit, he0, hc, h1, ho]
  · simp [isoStep, he0, hidx, St.fail] at he

theorem isoStep_err (P : Params) (i : Nat) (s : St) (h : s.err.isSome = true) : isoStep P i s = s := by
  simp [isoStep, h]
theorem headStep_err (P : Params) (i : Nat) (s : St) (h : s.err.isSome = true) : headStep P i s = s := by
  simp [headStep, h]

/-- every slot of Q below `len_list` is initialised -/
def Qs (m : St) : Prop := ∀ j : Nat, (j : Int) < m.lenList → (m.q j).isSome = true

theorem whileLoop_qs (P : Params) (i : Nat) : ∀ (n : Nat) (m : St), Qs m → m.err = none →
    P.row.length - m.index ≤ n → (whileLoop P i m).err = none → Qs (whileLoop P i m) := by
  intro n
  induction n with
  | zero =>
    intro m hq he0 hn he
    by_cases hb : m.lenCount = P.m - 1 - (i : Int)
    · rw [whileLoop_exit P i m he0 hb]; exact hq
    · exfalso
      rw [whileLoop] at he
      have : ¬ m.index < P.row.length := by omega
      simp [he0, hb, this, St.fail] at he
  | succ n ih =>
    intro m hq he0 hn he
    by_cases hb : m.lenCount = P.m - 1 - (i : Int)
    · rw [whileLoop_exit P i m he0 hb]; exact hq
    · by_cases hs : m.index < P.row.length
      · rw [whileLoop_push P i m he0 hb hs] at he ⊢
        have hpe : (pushBody P m P.row[m.index]).err = none := by
          cases hq' : (pushBody P m P.row[m.index]).err with
          | none => rfl
          | some e =>
            rw [whileLoop_err P i _ (by simp [hq'])] at he
            simp [hq'] at he
        obtain ⟨c, o, hc, hv, ho⟩ := pushBody_inv P m _ hpe
        rw [pushBody_ok P m c _ o he0 hc hv ho] at he ⊢
        refine ih _ ?_ rfl (by simp only [pushed]; omega) he
        intro j hj
        simp only [pushed, SqiModel.ThetaChain.upd] at hj ⊢
        by_cases hjc : j = c + 1
        · simp [hjc]
        · simp only [hjc, if_false]
          exact hq j (by omega)
      · exfalso
        rw [whileLoop] at he
        simp [he0, hb, hs, St.fail] at he


/-- observer after the step of iteration `i` with kernel exponent `kk` -/
def stepObs (o : OSt) (i : Int) (kk : Nat) : OSt :=
  { o with r1 := some kk, r2 := some kk, steps := o.steps ++ [i], kers := o.kers ++ [(12, kk)] }

/-- observer after the isogeny part of iteration `i` -/
def isoObs (o : OSt) (i c : Int) (kk : Nat) (evf : Bool) : OSt :=
  if evf then evalQ (stepObs o i kk) 0 c else stepObs o i kk

theorem obs_ok (o : OSt) : obs.ok o = !o.bad := rfl

section Body3
variable (P : Params) (oracle : Nat → Bool) (fuel : Nat) (ea : Int)

theorem body3 (k k1 k2 : ThetaFSt OSt) (i c kk : Nat) (hf : k.fault = none) (hb : k.obs.bad = false)
    (hk1 : whileF (ThetaFSt.live obs)
      (fun s => match theta_chain_comput_strategy_faster_no_eval_loop4_cond obs P.row oracle fuel P.n ea s with | .ok b => b | .error _ => true)
      (fun s => match theta_chain_comput_strategy_faster_no_eval_loop4_cond obs P.row oracle fuel P.n ea s with
        | .ok _ => theta_chain_comput_strategy_faster_no_eval_loop4_body obs P.row oracle fuel P.n ea s | .error f => s.fail f)
      (fun s => s.fail .fuel) fuel { k with len_count := 0, j := 0 } = k1)
    (h1f : k1.fault = none) (h1b : k1.obs.bad = false)
    (hk2 : whileF (ThetaFSt.live obs)
      (fun s => match theta_chain_comput_strategy_faster_no_eval_loop5_cond obs P.row oracle fuel P.n ea s with | .ok b => b | .error _ => true)
      (fun s => match theta_chain_comput_strategy_faster_no_eval_loop5_cond obs P.row oracle fuel P.n ea s with
        | .ok _ => theta_chain_comput_strategy_faster_no_eval_loop5_body obs P.row oracle fuel P.n ea s | .error f => s.fail f)
      (fun s => s.fail .fuel) fuel k1 = k2)
    (h2f : k2.fault = none) (h2b : k2.obs.bad = false) (hi : k2.i = (i : Int)) (hl : k2.len_list = (c : Int) + 1)
    (hs3 : k2.obs.size 3 = (P.n : Int)) (hs4 : k2.obs.size 4 = (P.n : Int)) (hs5 : k2.obs.size 5 = (P.n : Int) - 1)
    (hc : c < P.n) (hin5 : (i : Int) < (P.n : Int) - 1)
    (hv : k2.obs.arr 3 (c : Int) = some kk) (hw : k2.obs.arr 4 (c : Int) = some kk)
    (hq : ∀ x : Nat, x < c → (k2.obs.arr 3 (x : Int)).isSome = true ∧ (k2.obs.arr 4 (x : Int)).isSome = true)
    (hea : ea = 1 ∨ (ea = 0 ∧ (i : Int) < (P.n : Int) - 3)) (hfu : c ≤ fuel) :
    theta_chain_comput_strategy_faster_no_eval_loop3_body obs P.row oracle fuel P.n ea k =
      { k2 with len_list := (c : Int), i := (i : Int) + 1,
                j := if (i : Int) < (P.n : Int) - 2 then (c : Int) else k2.j,
                obs := isoObs k2.obs (i : Int) (c : Int) kk (decide ((i : Int) < (P.n : Int) - 2)) } := by
  unfold theta_chain_comput_strategy_faster_no_eval_loop3_body
  rw [step_live _ k hf hb]
  dsimp only
  rw [step_live _ { k with len_count := 0 } hf hb]
  dsimp only
  rw [step_live _ { k with len_count := 0, j := 0 } hf hb]
  erw [hk1]
  rw [step_live _ k1 h1f h1b]
  erw [hk2]
  have hc0 : (0 : Int) ≤ (c : Int) := by omega
  have hc1 : (c : Int) < (P.n : Int) := by omega
  have hi0 : (0 : Int) ≤ (i : Int) := by omega
  have hA : ∀ (f1 f2 : ThetaFSt OSt → ThetaFSt OSt) (X Y Z : ThetaFSt OSt), X = Y →
      ThetaFSt.step obs f1 (ThetaFSt.step obs f2 Y) = Z → ThetaFSt.step obs f1 (ThetaFSt.step obs f2 X) = Z := by
    intro f1 f2 X Y Z h1 h2; rw [h1]; exact h2
  apply hA _ _ _ { k2 with len_list := (c : Int), obs := stepObs k2.obs (i : Int) kk }
  · have hin5' : (i : Int) < (P.n : Int) - 1 := hin5
    rcases hea with hea | ⟨hea, hi3⟩
    · subst hea
      by_cases h3 : (i : Int) = (P.n : Int) - 3
      · have h3' := eq_true h3
        simp [ThetaFSt.step, ThetaFSt.live, obs_ev, obs_ok, h2f, h2b, hi, hl, EvKind.loadR, EvKind.step, truthy,
          ev_loadR3_s, ev_loadR4_s, ev_loadR5_s, ev_step_s, OSt.inb, hs3, hs4, hs5, hv, hw, hc0, hc1, hi0, hin5', stepObs, h3']
      · have h3' := eq_false h3
        by_cases h2 : (i : Int) = (P.n : Int) - 2
        · have h2' := eq_true h2
          simp [ThetaFSt.step, ThetaFSt.live, obs_ev, obs_ok, h2f, h2b, hi, hl, EvKind.loadR, EvKind.step, truthy,
          ev_loadR3_s, ev_loadR4_s, ev_loadR5_s, ev_step_s, OSt.inb, hs3, hs4, hs5, hv, hw, hc0, hc1, hi0, hin5', stepObs, h3', h2']
        · have h2' := eq_false h2
          simp [ThetaFSt.step, ThetaFSt.live, obs_ev, obs_ok, h2f, h2b, hi, hl, EvKind.loadR, EvKind.step, truthy,
          ev_loadR3_s, ev_loadR4_s, ev_loadR5_s, ev_step_s, OSt.inb, hs3, hs4, hs5, hv, hw, hc0, hc1, hi0, hin5', stepObs, h3', h2']
    · subst hea
      have h3' : ((i : Int) = (P.n : Int) - 3) = False := eq_false (by omega)
      have h2' : ((i : Int) = (P.n : Int) - 2) = False := eq_false (by omega)
      simp [ThetaFSt.step, ThetaFSt.live, obs_ev, obs_ok, h2f, h2b, hi, hl, EvKind.loadR, EvKind.step, truthy,
          ev_loadR3_s, ev_loadR4_s, ev_loadR5_s, ev_step_s, OSt.inb, hs3, hs4, hs5, hv, hw, hc0, hc1, hi0, hin5', stepObs, h3', h2']
  · have hsb : (stepObs k2.obs (i : Int) kk).bad = false := by simp [stepObs, h2b]
    rw [step_live _ { k2 with len_list := (c : Int), obs := stepObs k2.obs (i : Int) kk } h2f hsb]
    dsimp only
    rw [hi]
    by_cases hev : (i : Int) < (P.n : Int) - 2
    · rw [if_pos (by simpa using hev)]
      rw [step_live _ { k2 with len_list := (c : Int), i := (i : Int), obs := stepObs k2.obs (i : Int) kk } h2f hsb]
      dsimp only
      rw [step_live _ { k2 with len_list := (c : Int), i := (i : Int), j := 0, obs := stepObs k2.obs (i : Int) kk } h2f hsb]
      erw [loop6 P oracle fuel ea c fuel 0
        { k2 with len_list := (c : Int), i := (i : Int), j := 0, obs := stepObs k2.obs (i : Int) kk }
        h2f hsb rfl (by simp) (by simp [stepObs, hs3]) (by simp [stepObs, hs4]) (by omega) (by simp only []; omega)
        (by simp only [stepObs, hs5]; omega)
        (by intro x _ hx; simpa [stepObs] using hq x (by omega)) hfu]
      dsimp only
      simp [ThetaFSt.step, ThetaFSt.live, obs_ok, h2f, h2b, evalQ, stepObs, isoObs, hev]
    · rw [if_neg (by simpa using hev)]
      rw [step_live _ { k2 with len_list := (c : Int), i := (i : Int), obs := stepObs k2.obs (i : Int) kk } h2f hsb]
      simp [isoObs, hev]
end Body3


theorem iso_rel (P : Params) (k2 : ThetaFSt OSt) (m2 : St) (R2 : Rel P k2 m2) (i c kk : Nat) (X : Int)
    (hmode : P.eightAbove = true ∨ ((i : Int) ≠ (P.n : Int) - 3 ∧ (i : Int) ≠ (P.n : Int) - 2)) :
    Rel P { k2 with len_list := (c : Int), i := (i : Int) + 1, j := X,
                    obs := isoObs k2.obs (i : Int) (c : Int) kk (decide ((i : Int) < (P.n : Int) - 2)) }
      (isod P m2 i c kk) := by
  have h13 : ¬ ((1 : Int) = 3) := by omega
  have h14 : ¬ ((1 : Int) = 4) := by omega
  have h23 : ¬ ((2 : Int) = 3) := by omega
  have h24 : ¬ ((2 : Int) = 4) := by omega
  constructor
  · exact R2.kf
  · by_cases h : (i : Int) < (P.n : Int) - 2 <;> simp [isoObs, evalQ, stepObs, h, R2.kb]
  · rfl
  · exact R2.ix
  · rfl
  · exact R2.lc
  · exact R2.ad
  · exact R2.lvs
  · exact R2.lvg
  · by_cases h : (i : Int) < (P.n : Int) - 2 <;> simp [isoObs, evalQ, stepObs, h, R2.s1]
  · by_cases h : (i : Int) < (P.n : Int) - 2 <;> simp [isoObs, evalQ, stepObs, h, R2.s2]
  · by_cases h : (i : Int) < (P.n : Int) - 2 <;> simp [isoObs, evalQ, stepObs, h, R2.s3]
  · by_cases h : (i : Int) < (P.n : Int) - 2 <;> simp [isoObs, evalQ, stepObs, h, R2.s4]
  · by_cases h : (i : Int) < (P.n : Int) - 2 <;> simp [isoObs, evalQ, stepObs, h, R2.s5]
  · intro j
    by_cases h : (i : Int) < (P.n : Int) - 2 <;> simp [isoObs, evalQ, stepObs, h, R2.a1, isod, h13, h14]
  · intro j
    by_cases h : (i : Int) < (P.n : Int) - 2 <;> simp [isoObs, evalQ, stepObs, h, R2.a2, isod, h23, h24]
  · intro j
    have hj0 : (0 : Int) ≤ (j : Int) := by omega
    by_cases h : (i : Int) < (P.n : Int) - 2 <;> simp [isoObs, evalQ, stepObs, h, R2.a3, isod, hj0]
  · intro j
    have hj0 : (0 : Int) ≤ (j : Int) := by omega
    by_cases h : (i : Int) < (P.n : Int) - 2 <;> simp [isoObs, evalQ, stepObs, h, R2.a4, isod, hj0]
  · by_cases h : (i : Int) < (P.n : Int) - 2 <;> simp [isoObs, evalQ, stepObs, h, R2.tg]
  · have := R2.lg
    simp only [logs, Prod.mk.injEq] at this
    have hm : (P.eightAbove = true ∨ ¬ (i : Int) = (P.n : Int) - 3 ∧ ¬ (i : Int) = (P.n : Int) - 2) := hmode
    by_cases h : (i : Int) < (P.n : Int) - 2 <;>
      simp [isoObs, evalQ, stepObs, h, isod, logs_append, this.1, this.2.1, this.2.2, logs, mDbls, mSteps, mKers, hm]

section Iter
variable (P : Params) (oracle : Nat → Bool) (fuel : Nat) (ea : Int)

theorem adj_cases (P : Params) : (P.eightAbove = true ∧ P.adj = 0) ∨ (P.eightAbove = false ∧ P.adj = 2) := by
  unfold Params.adj
  cases P.eightAbove <;> simp

/-- one iteration of the main loop ≙ `isoStep ∘ whileLoop ∘ headStep` -/
theorem iter_sim (hfn : P.n ≤ fuel) (hfr : P.row.length ≤ fuel) (hea : ea = if P.eightAbove then 1 else 0)
    (i : Nat) (hi : (i : Int) < P.m) (k : ThetaFSt OSt) (m : St) (R : Rel P k m) (hki : k.i = (i : Int)) (hqs : Qs m)
    (he : (isoStep P i (whileLoop P i (headStep P i m))).err = none) :
    Rel P (theta_chain_comput_strategy_faster_no_eval_loop3_body obs P.row oracle fuel P.n ea k)
      (isoStep P i (whileLoop P i (headStep P i m))) ∧
    (theta_chain_comput_strategy_faster_no_eval_loop3_body obs P.row oracle fuel P.n ea k).i = (i : Int) + 1 ∧
    Qs (isoStep P i (whileLoop P i (headStep P i m))) := by
  have hm : P.m = (P.n : Int) - 1 - (P.adj : Int) := rfl
  have h2e : (whileLoop P i (headStep P i m)).err = none := by
    cases hq : (whileLoop P i (headStep P i m)).err with
    | none => rfl
    | some e => rw [isoStep_err P i _ (by simp [hq])] at he; simp [hq] at he
  have h1e : (headStep P i m).err = none := by
    cases hq : (headStep P i m).err with
    | none => rfl
    | some e => rw [whileLoop_err P i _ (by simp [hq])] at h2e; simp [hq] at h2e
  obtain ⟨L, S, hL, hLn, hS, hhead⟩ := headStep_inv P i m R.me h1e
  rw [hhead] at he h2e ⊢
  -- the recomputation of len_count
  have hk1 := loop4 P oracle fuel ea m.level L fuel 0 0 { k with len_count := 0, j := 0 } R.kf R.kb rfl
    (by simp only []; rw [R.ll, hL]; simp) rfl rfl R.lvs (by omega) R.lvg (by omega) S (by simpa using hS)
  have R1 : Rel P { k with j := ((0 + L : Nat) : Int), len_count := (S : Int) }
      { m with lenCount := (S : Int), trace := m.trace ++ [.head i (L : Int) (S : Int)] } := by
    constructor
    · exact R.kf
    · exact R.kb
    · exact R.me
    · exact R.ix
    · exact R.ll
    · rfl
    · exact R.ad
    · exact R.lvs
    · exact R.lvg
    · exact R.s1
    · exact R.s2
    · exact R.s3
    · exact R.s4
    · exact R.s5
    · exact R.a1
    · exact R.a2
    · exact R.a3
    · exact R.a4
    · exact R.tg
    · have := R.lg
      simp only [logs, Prod.mk.injEq] at this
      simp [logs_append, this.1, this.2.1, this.2.2, logs, mDbls, mSteps, mKers]
  obtain ⟨R2, hk2i⟩ := while_sim P oracle fuel ea i (P.row.length - m.index) fuel _ _ R1 hki (Nat.le_refl _)
    (by omega) h2e
  have hqs2 := whileLoop_qs P i (P.row.length - m.index)
    { m with lenCount := (S : Int), trace := m.trace ++ [.head i (L : Int) (S : Int)] } hqs R.me (Nat.le_refl _) h2e
  obtain ⟨c, kk, hc, hcn, hq, hiso⟩ := isoStep_inv P i _ R2.me he
  rw [hiso]
  have heac : ea = 1 ∨ (ea = 0 ∧ (i : Int) < (P.n : Int) - 3) := by
    rcases adj_cases P with ⟨h1, h2⟩ | ⟨h1, h2⟩
    · left; rw [hea, h1]; rfl
    · right; rw [hea, h1]; exact ⟨rfl, by omega⟩
  have hb3 := body3 P oracle fuel ea k _ _ i c kk R.kf R.kb hk1 R.kf R.kb rfl R2.kf R2.kb hk2i (by rw [R2.ll, hc])
    R2.s3 R2.s4 R2.s5 hcn (by have := adj_cases P; omega) (by rw [R2.a3, hq]) (by rw [R2.a4, hq])
    (by
      intro x hx
      have := hqs2 x (by rw [hc]; omega)
      rw [R2.a3, R2.a4]; exact ⟨this, this⟩)
    heac (by omega)
  rw [hb3]
  refine ⟨?_, rfl, ?_⟩
  · refine iso_rel P _ _ R2 i c kk _ ?_
    rcases adj_cases P with ⟨h1, h2⟩ | ⟨h1, h2⟩
    · left; exact h1
    · right; constructor <;> omega
  · intro j hj
    simp only [isod] at hj ⊢
    have := hqs2 j (by rw [hc]; omega)
    obtain ⟨v, hv⟩ := Option.isSome_iff_exists.1 this
    by_cases h : (decide ((i : Int) < (P.n : Int) - 2) && decide (j < c)) = true
    · simp [h, hv]
    · simp [h, hv]
end Iter


theorem forLoop_err (P : Params) : ∀ (cnt i : Nat) (s : St), s.err.isSome = true → forLoop P cnt i s = s := by
  intro cnt
  induction cnt with
  | zero => intro i s _; rfl
  | succ cnt ih =>
    intro i s h
    simp only [forLoop]
    rw [headStep_err P i s h, whileLoop_err P i s h, isoStep_err P i s h]
    exact ih (i + 1) s h

section For
variable (P : Params) (oracle : Nat → Bool) (fuel : Nat) (ea : Int)

/-- the main loop ≙ `forLoop` -/
theorem for_sim (hfn : P.n ≤ fuel) (hfr : P.row.length ≤ fuel) (hea : ea = if P.eightAbove then 1 else 0) :
    ∀ (cnt f i : Nat) (k : ThetaFSt OSt) (m : St), Rel P k m → k.i = (i : Int) → Qs m →
    (i : Int) + (cnt : Int) = P.m → cnt ≤ f → (forLoop P cnt i m).err = none →
    Rel P
      (whileF (ThetaFSt.live obs)
        (fun s => match theta_chain_comput_strategy_faster_no_eval_loop3_cond obs P.row oracle fuel P.n ea s with | .ok b => b | .error _ => true)
        (fun s => match theta_chain_comput_strategy_faster_no_eval_loop3_cond obs P.row oracle fuel P.n ea s with
          | .ok _ => theta_chain_comput_strategy_faster_no_eval_loop3_body obs P.row oracle fuel P.n ea s | .error f => s.fail f)
        (fun s => s.fail .fuel) f k)
      (forLoop P cnt i m) ∧ Qs (forLoop P cnt i m) := by
  intro cnt
  induction cnt with
  | zero =>
    intro f i k m R hki hqs hi _ _
    have hm : P.m = (P.n : Int) - 1 - (P.adj : Int) := rfl
    rw [whileF_stop _ _ _ _ _ _ (by simp [theta_chain_comput_strategy_faster_no_eval_loop3_cond, hki, R.ad]; omega)]
    exact ⟨R, hqs⟩
  | succ cnt ih =>
    intro f i k m R hki hqs hi hf he
    have hm : P.m = (P.n : Int) - 1 - (P.adj : Int) := rfl
    obtain ⟨f', rfl⟩ : ∃ f', f = f' + 1 := ⟨f - 1, by omega⟩
    have hlive : ThetaFSt.live obs k = true := by simp [ThetaFSt.live, obs, R.kf, R.kb]
    rw [whileF_step _ _ _ _ _ _ (by simp [theta_chain_comput_strategy_faster_no_eval_loop3_cond, hki, R.ad, hlive]; omega)]
    have hbody : (match theta_chain_comput_strategy_faster_no_eval_loop3_cond obs P.row oracle fuel P.n ea k with
        | .ok _ => theta_chain_comput_strategy_faster_no_eval_loop3_body obs P.row oracle fuel P.n ea k | .error f => k.fail f) =
        theta_chain_comput_strategy_faster_no_eval_loop3_body obs P.row oracle fuel P.n ea k := by
      simp [theta_chain_comput_strategy_faster_no_eval_loop3_cond]
    rw [hbody]
    simp only [forLoop] at he ⊢
    have he1 : (isoStep P i (whileLoop P i (headStep P i m))).err = none := by
      cases hq : (isoStep P i (whileLoop P i (headStep P i m))).err with
      | none => rfl
      | some e =>
        rw [forLoop_err P cnt (i + 1) _ (by simp [hq])] at he
        simp [hq] at he
    obtain ⟨R', hi', hqs'⟩ := iter_sim P oracle fuel ea hfn hfr hea i (by omega) k m R hki hqs he1
    exact ih f' (i + 1) _ _ R' (by rw [hi']; push_cast; rfl) hqs' (by push_cast; omega) (by omega) he
end For


/-! ### the complete routine -/

theorem buildPts_facts (P : Params) : ∀ (cnt i : Nat) (m : St), 1 ≤ i → m.err = none →
    (∀ j, j < i → (m.pts j).isSome = true) → (buildPts P cnt i m).err = none →
    (buildPts P cnt i m).lenList = m.lenList ∧ (cnt = 0 ∨ i + cnt ≤ P.n) ∧
    ∀ j, j < i + cnt → ((buildPts P cnt i m).pts j).isSome = true := by
  intro cnt
  induction cnt with
  | zero => intro i m _ _ hp _; exact ⟨rfl, Or.inl rfl, fun j hj => hp j (by omega)⟩
  | succ cnt ih =>
    intro i m h1 he0 hp he
    obtain ⟨h, o, _, hin, ho, hstep⟩ := buildPts_inv P cnt i m he0 he
    rw [hstep] at he ⊢
    obtain ⟨a, a', b⟩ := ih (i + 1) (ptsd m i P.row[i - 1] o) (by omega) he0
      (by
        intro j hj
        simp only [ptsd, SqiModel.ThetaChain.upd]
        by_cases hji : j = i
        · simp [hji]
        · simp only [hji, if_false]; exact hp j (by omega)) he
    exact ⟨a, Or.inr (by omega), fun j hj => b j (by omega)⟩

theorem setLenList_ok (s : St) (he : s.err = none) :
    setLenList s = { s with lenList := (s.index : Int) + 1,
                            trace := s.trace ++ [.lenList ((s.index : Int) + 1) s.index s.lenCount] } := by
  simp [setLenList, he, St.emit]

theorem finalSteps_err (P : Params) (s : St) (h : s.err.isSome = true) : finalSteps P s = s := by
  simp [finalSteps, h]
theorem glueStep_err (P : Params) (s : St) (h : s.err.isSome = true) : glueStep P s = s := by
  simp [glueStep, h]
theorem setLenList_err (s : St) (h : s.err.isSome = true) : setLenList s = s := by
  simp [setLenList, h]

theorem err_none_of {α : Type} (f : St → St) (s : St) (hf : ∀ s, s.err.isSome = true → f s = s)
    (h : (f s).err = none) : s.err = none := by
  cases hq : s.err with
  | none => rfl
  | some e => rw [hf s (by simp [hq])] at h; simp [hq] at h

theorem step_live2 (f : ThetaFSt OSt → ThetaFSt OSt) (k : ThetaFSt OSt) (hf : k.fault = none) (hb : k.obs.bad = false) :
    ThetaFSt.step obs f k = f k := step_live f k hf hb

/-- what is claimed about a complete run -/
structure Final (P : Params) (k : ThetaFSt OSt) (m : St) : Prop where
  kf : k.fault = none
  kb : k.obs.bad = false
  me : m.err = none
  ix : k.index = (m.index : Int)
  ll : k.len_list = m.lenList
  lg : (k.obs.dbls, k.obs.steps, k.obs.kers) = logs P.n P.eightAbove m.trace

section Top
variable (P : Params) (oracle : Nat → Bool) (fuel : Nat) (ea : Int)

theorem skel_refines (hfn : P.n + 11 ≤ fuel) (hfr : P.row.length ≤ fuel) (hea : ea = if P.eightAbove then 1 else 0)
    (he : (chain P).err = none) :
    Final P (theta_chain_comput_strategy_faster_no_eval obs P.row oracle fuel P.n ea (ThetaFSt.init (OSt.init P.kexp))) (chain P) := by
  have hn : ¬ P.n ≤ 1 := by
    intro h; simp [chain, h, St.fail] at he
  unfold chain at he ⊢
  simp only [hn, if_false] at he ⊢
  have hadj := adj_cases P
  have hn1 : (0 : Int) < (P.n : Int) - 1 := by omega
  have hn0 : (0 : Int) < (P.n : Int) := by omega
  unfold theta_chain_comput_strategy_faster_no_eval
  simp only [step_live2, ThetaFSt.init, OSt.init, obs_ev, EvKind.vla, ev_vla_s, hn1, hn0]
  -- the first while
  have hadjv : (2 : Int) * (1 - ea) = (P.adj : Int) := by
    rcases hadj with ⟨h1, h2⟩ | ⟨h1, h2⟩ <;> rw [hea, h1, h2] <;> rfl
  rw [hadjv]
  have eF : (forLoop P P.m.toNat 0 (prelude P (initSt P))).err = none :=
    err_none_of (α := Unit) _ _ (finalSteps_err P) he
  have e1 : (prelude P (initSt P)).err = none :=
    err_none_of (α := Unit) _ _ (forLoop_err P P.m.toNat 0) eF
  unfold prelude at e1 eF he ⊢
  simp only [] at e1 eF he ⊢
  have eB := err_none_of (α := Unit) _ _ (glueStep_err P) e1
  have eS := err_none_of (α := Unit) _ _ (buildPts_err P _ 1) eB
  have eP := err_none_of (α := Unit) _ _ setLenList_err eS
  generalize hX : ThetaFSt.mk _ _ _ _ _ _ _ _ _ _ = X
  have hl0 := loop0 P oracle fuel ea fuel X (initSt P) (by rw [← hX]) (by rw [← hX]) rfl (by rw [← hX]; rfl)
    (by rw [← hX]; rfl) (by rw [← hX]) (by simp [initSt]; omega) eP
  obtain ⟨l1, l2, l3, l4, l5, l6⟩ := hl0
  erw [l1]
  subst hX
  have hkx : (0 : Int) < (P.n : Int) ∧ True := ⟨hn0, trivial⟩
  simp only [step_live2, obs_ev, EvKind.vla, EvKind.copyIn, ev_vla_s, ev_copyIn_s, OSt.inb, OSt.put, IArr.new, IArr.inb,
    IArr.set, hn0, hn1, Int.le_refl, decide_true, Bool.and_true, Bool.true_and, if_true, if_false, Int.reduceEq,
    ite_true, ite_false]
  generalize hX : ThetaFSt.mk _ _ _ _ _ _ _ _ _ _ = X
  have hs2 := setLenList_ok _ eP
  have R1 : RelQ P (fun _ => none) X (setLenList (phase1 P (initSt P))) := by
    rw [hs2, ← hX]
    constructor
    · rfl
    · rfl
    · exact eP
    · rfl
    · rfl
    · rfl
    · rfl
    · rfl
    · intro i
      rw [l2]
      simp only [initSt]
      by_cases h : i = 0
      · subst h; rfl
      · have : ¬ (i : Int) = 0 := by omega
        simp [h, this]
    · simp
    · simp
    · simp
    · simp
    · simp
    · intro i
      rw [l3]
      simp only [initSt]
      by_cases h : i = 0
      · subst h; simp
      · have : ¬ (i : Int) = 0 := by omega
        simp [h, this]
    · intro i
      rw [l3]
      simp only [initSt]
      by_cases h : i = 0
      · subst h; simp
      · have : ¬ (i : Int) = 0 := by omega
        simp [h, this]
    · intro i; rfl
    · intro i; rfl
    · rfl
    · simp only [logs_append, l6]
      simp [logs, initSt, mDbls, mSteps, mKers]
  have hBf := buildPts_facts P (setLenList (phase1 P (initSt P))).index 1 (setLenList (phase1 P (initSt P))) (by omega) eS
    (by
      intro j hj
      have : j = 0 := by omega
      subst this
      rw [hs2]; simp only []; rw [l3]; simp [initSt]) eB
  have RB := pts_sim P oracle fuel ea (fun _ => none) (setLenList (phase1 P (initSt P))).index fuel 0 X _ R1
    (by rw [← hX]; rfl) (by rw [hs2]; simp only []; omega) (by rcases hBf.2.1 with h | h <;> omega) eB
  generalize hkB : whileF _ _ _ _ fuel X = kB at RB ⊢
  generalize hmB : buildPts P (setLenList (phase1 P (initSt P))).index 1 (setLenList (phase1 P (initSt P))) = mB
    at RB hBf eB e1 eF he ⊢
  clear hkB hX R1
  -- the gluing step
  obtain ⟨c, kk, hc, hcn, hpk, hglue⟩ := glueStep_inv P mB RB.me e1
  have hkf := RB.kf
  have hkb := RB.kb
  have hll : kB.len_list = (c : Int) + 1 := by rw [RB.ll, hc]
  have ha1 : kB.obs.arr 1 (c : Int) = some kk := by rw [RB.a1, hpk]
  have ha2 : kB.obs.arr 2 (c : Int) = some kk := by rw [RB.a2, hpk]
  have hs1 := RB.s1
  have hs2' := RB.s2
  have hc0 : (0 : Int) ≤ (c : Int) := by omega
  have hc1 : (c : Int) < (P.n : Int) := by omega
  simp only [step_live2, hkf, hkb, obs_ev, EvKind.read, ev_read_s, OSt.inb, hll, Int.add_sub_cancel, ha1, ha2, hs1, hs2',
    hc0, hc1, decide_true, Bool.and_true, Option.isSome_some, Option.getD_some]
  rw [hglue] at eF he ⊢
  generalize hX : ThetaFSt.mk _ _ _ _ _ _ _ _ _ _ = X2
  generalize hmG : St.mk _ _ _ _ _ _ _ _ = mG at eF he ⊢
  have hBl : mB.lenList = ((setLenList (phase1 P (initSt P))).index : Int) + 1 := by
    rw [hBf.1, hs2]
  have hci : c = (setLenList (phase1 P (initSt P))).index := by omega
  have RG0 : RelQ P (fun j => if j < 0 then mG.q j else none) X2 mG := by
    rw [← hX, ← hmG]
    constructor
    · rfl
    · rfl
    · exact RB.me
    · exact RB.ix
    · rfl
    · exact RB.lc
    · exact RB.ad
    · exact RB.lvs
    · exact RB.lvg
    · exact RB.s1
    · exact RB.s2
    · exact RB.s3
    · exact RB.s4
    · exact RB.s5
    · exact RB.a1
    · exact RB.a2
    · intro i; simp [RB.a3]
    · intro i; simp [RB.a4]
    · exact RB.tg
    · have := RB.lg
      simp only [logs, Prod.mk.injEq] at this
      simp [logs_append, this.1, this.2.1, this.2.2, logs, mDbls, mSteps, mKers]
  have RD := glue_sim P oracle fuel ea c fuel 0 X2 mG RG0 (by rw [← hX]; rfl) (by rw [← hmG]; simp) (by omega) (by omega)
    (by
      intro j hj
      have hp := hBf.2.2 j (by omega)
      obtain ⟨v, hv⟩ := Option.isSome_iff_exists.1 hp
      refine ⟨v, ?_, ?_⟩
      · rw [← hmG]; exact hv
      · rw [← hmG]
        have : (j : Int) < (c : Int) := by omega
        simp [this, hv])
  have hg : (fun j => if j < 0 + c then mG.q j else none) = mG.q := by
    funext j
    by_cases hj : j < c
    · simp [hj]
    · rw [← hmG]
      have : ¬ (j : Int) < (c : Int) := by omega
      simp [hj, this]
  rw [hg] at RD
  generalize hkD : whileF _ _ _ _ fuel X2 = kD at RD ⊢
  have hqsG : Qs mG := by
    intro j hj
    rw [← hmG] at hj ⊢
    simp only [] at hj
    have hp := hBf.2.2 j (by omega)
    obtain ⟨v, hv⟩ := Option.isSome_iff_exists.1 hp
    simp [hj, hv]
  clear hkD hX RG0 hg
  -- the main loop
  have hn4 : P.eightAbove = false → 4 ≤ P.n := by
    intro h
    by_cases h4 : 4 ≤ P.n
    · exact h4
    · exfalso
      have : idxOK ((P.n : Int) - 4) (P.n - 1) = false := by simp [idxOK]; omega
      simp [finalSteps, eF, h, this, St.fail] at he
  have hm : P.m = (P.n : Int) - 1 - (P.adj : Int) := rfl
  have hm0 : (0 : Int) ≤ P.m := by
    rcases hadj with ⟨h1, h2⟩ | ⟨h1, h2⟩
    · omega
    · have := hn4 h1; omega
  rw [step_live _ kD RD.kf RD.kb]
  rw [step_live _ { kD with i := 0 } RD.kf RD.kb]
  have R3 : Rel P { kD with i := 0 } mG :=
    ⟨RD.kf, RD.kb, RD.me, RD.ix, RD.ll, RD.lc, RD.ad, RD.lvs, RD.lvg, RD.s1, RD.s2, RD.s3, RD.s4, RD.s5, RD.a1, RD.a2,
      RD.a3, RD.a4, RD.tg, RD.lg⟩
  obtain ⟨RE, _⟩ := for_sim P oracle fuel ea (by omega) hfr hea P.m.toNat fuel 0 _ mG R3 rfl hqsG (by omega) (by omega) eF
  generalize hkE : whileF _ _ _ _ fuel _ = kE at RE ⊢
  generalize hmF : forLoop P P.m.toNat 0 mG = mF at RE eF he ⊢
  clear hkE R3
  have hkf := RE.kf
  have hkb := RE.kb
  have h5 := RE.s5
  have hn2a : (0 : Int) ≤ (P.n : Int) - 2 := by omega
  have hn2b : (P.n : Int) - 2 < (P.n : Int) - 1 := by omega
  have h2le : (2 : Int) ≤ (P.n : Int) := by omega
  rcases hadj with ⟨h1, h2⟩ | ⟨h1, h2⟩
  · have hea1 : ea = 1 := by rw [hea, h1]; rfl
    subst hea1
    rw [finalSteps_eight P mF RE.me h1]
    constructor <;>
      simp [ThetaFSt.step, ThetaFSt.live, obs_ok, obs_ev, hkf, hkb, truthy, EvKind.split, ev_split_s, OSt.inb, h5, hn2a, hn2b, h2le,
        RE.me, RE.ix, RE.ll, RE.lg]
  · have hea0 : ea = 0 := by rw [hea, h1]; rfl
    subst hea0
    have hn4' := hn4 h1
    have hidx : idxOK ((P.n : Int) - 4) (P.n - 1) = true := by simp [idxOK]; omega
    have h4le : (4 : Int) ≤ (P.n : Int) := by omega
    have h3le : (3 : Int) ≤ (P.n : Int) := by omega
    have hnpos : 0 < P.n := by omega
    have hs3 := RE.s3
    have hs4 := RE.s4
    have htg := RE.tg
    cases hq0 : mF.q 0 with
    | none => simp [finalSteps, RE.me, h1, hidx, hq0, St.fail] at he
    | some o =>
      have hfin : finalSteps P mF = mF.emit (.fin ((P.n : Int) - 4) ((P.n : Int) - 3) ((P.n : Int) - 2) (o - 1) (o - 2)) := by
        simp [finalSteps, RE.me, h1, hidx, hq0]
      rw [hfin]
      have ha3 : kE.obs.arr 3 0 = some o := by simpa [hq0] using RE.a3 0
      have ha4 : kE.obs.arr 4 0 = some o := by simpa [hq0] using RE.a4 0
      have hlg := RE.lg
      simp only [logs, Prod.mk.injEq] at hlg
      constructor <;>
        simp [ThetaFSt.step, ThetaFSt.live, obs_ok, obs_ev, hkf, hkb, truthy, EvKind.split, EvKind.loadR, EvKind.evalR,
          EvKind.step4, EvKind.step2, ev_split_s, ev_loadR3_s, ev_loadR4_s, ev_loadR5_s, ev_evalR_s, ev_step4_s,
          ev_step2_s, OSt.inb, h5, hs3, hs4, htg, hn0, hnpos, h2le, h3le, h4le, ha3, ha4, St.emit,
          RE.me, RE.ix, RE.ll, logs_append, logs, mSteps, mKers, mDbls, hlg.1, hlg.2.1, hlg.2.2]
      omega
end Top


/-- consequence for the kernel orders logged by the observer -/
theorem kers_of_evOk (n sb : Nat) : ∀ (l : List Ev), l.all (evOk n sb) = true →
    ∀ e ∈ l.flatMap mKers, e = (10, 3) ∨ e = (12, 3) ∨ e = (14, 2) ∨ e = (15, 1) := by
  intro l
  induction l with
  | nil => intro _ e he; simp at he
  | cons a l ih =>
    intro h e he
    simp only [List.all_cons, Bool.and_eq_true] at h
    rw [List.flatMap_cons, List.mem_append] at he
    rcases he with he | he
    · have ha := h.1
      cases a <;> simp [mKers, evOk] at he ha
      · rw [he, ha.2]; simp
      · rw [he, ha.1.2]; simp
      · rcases he with he | he
        · rw [he, ha.1.2]; simp
        · rw [he, ha.2]; simp
    · exact ih h.2 e he

end SqiProofs.SkelThetaFSim

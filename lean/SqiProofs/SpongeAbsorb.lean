/-
C20 lemmas, absorb phase: the C-shaped `keccak_inc_absorb` loop = a byte-at-a-time fold (`abBytes`), hence
any chunking absorbs like the concatenation; the fold = the specification's block absorption; finalize = padding.
Core-only.
-/
import SqiProofs.SpongeLanes

namespace SqiProofs.Sponge
open SqiModel.Fips202 SqiModel.Sponge

variable (f : State → State)

/-- absorb one byte: XOR it at `pos`; permute and reset when the block is full -/
def abByte (r : Nat) (st : IncState) (b : UInt8) : IncState :=
  if st.pos + 1 = r then ⟨f (xorByteAt st.s st.pos b), 0⟩ else ⟨xorByteAt st.s st.pos b, st.pos + 1⟩

def abBytes (r : Nat) (st : IncState) (m : List UInt8) : IncState := m.foldl (abByte f r) st

theorem abBytes_append (r : Nat) (st : IncState) (a b : List UInt8) :
    abBytes f r st (a ++ b) = abBytes f r (abBytes f r st a) b := by
  simp [abBytes, List.foldl_append]

theorem abBytes_partial (r : Nat) (st : IncState) (bs : List UInt8) (h : st.pos + bs.length < r) :
    abBytes f r st bs = ⟨xorBytesAt st.s st.pos bs, st.pos + bs.length⟩ := by
  induction bs generalizing st with
  | nil => simp [abBytes, xorBytesAt]
  | cons b bs ih =>
    simp only [List.length_cons] at h
    have hne : ¬ st.pos + 1 = r := by omega
    have := ih ⟨xorByteAt st.s st.pos b, st.pos + 1⟩ (by simp; omega)
    simp only [abBytes, List.foldl_cons, abByte, hne, if_false, xorBytesAt, List.length_cons] at this ⊢
    rw [this]; simp; omega

theorem abBytes_fill (r : Nat) (st : IncState) (bs : List UInt8) (h : st.pos + bs.length = r) (hne : bs ≠ []) :
    abBytes f r st bs = ⟨f (xorBytesAt st.s st.pos bs), 0⟩ := by
  induction bs generalizing st with
  | nil => exact absurd rfl hne
  | cons b bs ih =>
    simp only [List.length_cons] at h
    by_cases hb : bs = []
    · subst hb
      have : st.pos + 1 = r := by simpa using h
      simp [abBytes, abByte, this, xorBytesAt]
    · have hlen : 0 < bs.length := List.length_pos_iff.mpr hb
      have hne' : ¬ st.pos + 1 = r := by omega
      have := ih ⟨xorByteAt st.s st.pos b, st.pos + 1⟩ (by simp; omega) hb
      simp only [abBytes, List.foldl_cons, abByte, hne', if_false, xorBytesAt] at this ⊢
      exact this

/-- the invariant `s_inc[25] < r` is preserved by absorbing -/
theorem abBytes_pos_lt (r : Nat) (st : IncState) (m : List UInt8) (h : st.pos < r) : (abBytes f r st m).pos < r := by
  induction m generalizing st with
  | nil => simpa [abBytes]
  | cons b bs ih =>
    simp only [abBytes, List.foldl_cons]
    apply ih
    unfold abByte
    split <;> simp <;> omega

/-- the C loop structure of `keccak_inc_absorb` = the byte fold (under the invariant `pos < r`) -/
theorem incAbsorbLoop_eq (r : Nat) (fuel : Nat) (st : IncState) (m : List UInt8) (hf : m.length < fuel)
    (hp : st.pos < r) : incAbsorbLoop f r fuel st m = abBytes f r st m := by
  induction fuel generalizing st m with
  | zero => omega
  | succ fuel ih =>
    unfold incAbsorbLoop
    by_cases hc : m.length + st.pos ≥ r ∧ st.pos < r
    · simp only [hc, and_self, if_true]
      have hk1 : 0 < r - st.pos := by omega
      have hk2 : r - st.pos ≤ m.length := by omega
      have hsplit : m = m.take (r - st.pos) ++ m.drop (r - st.pos) := (List.take_append_drop _ _).symm
      have hfill := abBytes_fill f r st (m.take (r - st.pos)) (by simp; omega)
        (by intro h0; have := congrArg List.length h0; simp only [List.length_take, List.length_nil] at this; omega)
      rw [ih _ _ (by simp only [List.length_drop]; omega) (by show 0 < r; omega)]
      conv => rhs; rw [hsplit, abBytes_append, hfill]
    · have hlt : st.pos + m.length < r := by omega
      simp only [hc, if_false]
      rw [abBytes_partial f r st m hlt]

theorem incAbsorb_eq (r : Nat) (st : IncState) (m : List UInt8) (hp : st.pos < r) :
    incAbsorb f r st m = abBytes f r st m :=
  incAbsorbLoop_eq f r (m.length + 1) st m (by omega) hp

/-- any chunking of the input absorbs like the concatenation -/
theorem incAbsorbMany_eq (r : Nat) (st : IncState) (chunks : List (List UInt8)) (hp : st.pos < r) :
    incAbsorbMany f r st chunks = abBytes f r st chunks.flatten := by
  induction chunks generalizing st with
  | nil => simp [incAbsorbMany, abBytes]
  | cons c cs ih =>
    simp only [incAbsorbMany, List.foldl_cons, List.flatten_cons] at ih ⊢
    rw [incAbsorb_eq f r st c hp, abBytes_append]
    exact ih _ (abBytes_pos_lt f r st c hp)

/-- the byte fold from an empty block = the specification's block absorption of the whole blocks, then the
    remaining `len % r` bytes XOR-ed at positions 0… -/
theorem abBytes_blocks (r : Nat) (h0 : 0 < r) (h8 : r % 8 = 0) (hr : r ≤ 200) (n : Nat) (s : State) (m : List UInt8)
    (hn : m.length / r = n) :
    abBytes f r ⟨s, 0⟩ m =
      ⟨xorBytesAt (absorbBlocks f r n s m) 0 (m.drop (r * n)), m.length % r⟩ := by
  induction n generalizing s m with
  | zero =>
    have hlt : m.length < r := (Nat.div_eq_zero_iff_lt h0).mp hn
    rw [abBytes_partial f r ⟨s, 0⟩ m (by simpa using hlt)]
    simp [absorbBlocks, Nat.mod_eq_of_lt hlt]
  | succ n ih =>
    have hge : r ≤ m.length := by
      by_cases h : r ≤ m.length
      · exact h
      · have : m.length / r = 0 := (Nat.div_eq_zero_iff_lt h0).mpr (by omega)
        omega
    have hdiv : (m.length - r) / r = n := by
      have := Nat.div_eq_sub_div h0 hge; omega
    have hsplit : m = m.take r ++ m.drop r := (List.take_append_drop _ _).symm
    have hfill := abBytes_fill f r ⟨s, 0⟩ (m.take r) (by simp; omega)
      (by intro h1; have := congrArg List.length h1; simp only [List.length_take, List.length_nil] at this; omega)
    have hblk := xorBytesAt_eq_xorBlock s (m.take r) r h8 hr (by rw [List.length_take]; omega)
    have hi := ih (f (xorBlock s (m.take r))) (m.drop r) (by simpa using hdiv)
    conv => lhs; rw [hsplit, abBytes_append, hfill]
    simp only [hblk] at hi ⊢
    rw [hi]
    have e1 : r * (n + 1) = r + r * n := by rw [Nat.mul_succ]; omega
    have e2 : (m.length - r) % r = m.length % r := (Nat.mod_eq_sub_mod hge).symm
    simp only [absorbBlocks, List.drop_drop, List.length_drop, e1, e2]

end SqiProofs.Sponge

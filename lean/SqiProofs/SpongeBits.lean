/-
C20 lemmas, bit-level part: absorbing 8 bytes one at a time into a lane (`keccak_inc_absorb`) is the same as
XOR-ing `load64` of them (`keccak_absorb`): the OR in `load64` is an XOR because the shifted bytes occupy
disjoint bit ranges.  Core-only, bit extensionality on `BitVec 64` (no bv_decide).
-/
import SqiModel.Sponge
import SqiProofs.Keccak

namespace SqiProofs.Sponge
open SqiModel.Fips202 SqiModel.Sponge SqiProofs.Keccak

/-- all bits of x at positions ≥ n are zero -/
def BitsBelow (x : UInt64) (n : Nat) : Prop := ∀ i, n ≤ i → x.toBitVec.getLsbD i = false

theorem shiftAmt8 (k : Nat) (h : k < 8) : ((8 * k).toUInt64.toBitVec % 64).toNat = 8 * k := by
  simp only [Nat.toUInt64, UInt64.toBitVec_ofNat', BitVec.toNat_umod, BitVec.toNat_ofNat]
  rw [Nat.mod_eq_of_lt (by omega : 8 * k < 2^64)]
  exact Nat.mod_eq_of_lt (show 8 * k < 64 by omega)

theorem byteShift_bit (b : UInt8) (k : Nat) (hk : k < 8) (i : Nat) :
    (b.toUInt64 <<< (8 * k).toUInt64).toBitVec.getLsbD i
      = (decide (8 * k ≤ i) && decide (i < 8 * k + 8) && b.toBitVec.getLsbD (i - 8 * k)) := by
  simp only [UInt64.toBitVec_shiftLeft]
  rw [BitVec.shiftLeft_eq', shiftAmt8 k hk]
  simp only [BitVec.getLsbD_shiftLeft, UInt8.toBitVec_toUInt64, BitVec.getLsbD_setWidth]
  by_cases h1 : i < 8 * k
  · simp [h1]; omega
  · by_cases h2 : i < 8 * k + 8
    · have : i < 64 := by omega
      have h3 : i - 8 * k < 64 := by omega
      simp [h1, h2, this, h3]; omega
    · have : 8 ≤ i - 8 * k := by omega
      simp [h1, h2, BitVec.getLsbD_of_ge _ _ this]

theorem bitsBelow_zero : BitsBelow 0 (8 * 0) := by
  intro i _; simp

/-- one step of the `load64` loop: the OR is an XOR, and the accumulator stays below bit 8(k+1) -/
theorem or_step (acc : UInt64) (b : UInt8) (k : Nat) (hk : k < 8) (h : BitsBelow acc (8 * k)) :
    acc ||| (b.toUInt64 <<< (8 * k).toUInt64) = acc ^^^ (b.toUInt64 <<< (8 * k).toUInt64) ∧
    BitsBelow (acc ||| (b.toUInt64 <<< (8 * k).toUInt64)) (8 * (k + 1)) := by
  constructor
  · apply UInt64.eq_of_toBitVec_eq
    simp only [UInt64.toBitVec_or, UInt64.toBitVec_xor]
    apply or_eq_xor_of_disjoint
    intro i _
    by_cases hi : 8 * k ≤ i
    · simp [h i hi]
    · rw [byteShift_bit b k hk i]; simp [hi]
  · intro i hi
    simp only [UInt64.toBitVec_or, BitVec.getLsbD_or]
    rw [h i (by omega), byteShift_bit b k hk i]
    have : ¬ i < 8 * k + 8 := by omega
    simp [this]

/-- byte k of the string, moved to its place in the lane -/
def cB (x : List UInt8) (k : Nat) : UInt64 := (x.getD k 0).toUInt64 <<< (8 * k).toUInt64

theorem load64_unfold (x : List UInt8) :
    load64 x = (((((((0 ||| cB x 0) ||| cB x 1) ||| cB x 2) ||| cB x 3) ||| cB x 4) ||| cB x 5) ||| cB x 6) ||| cB x 7 := by
  rfl

theorem load64_eq_xor (x : List UInt8) :
    load64 x = (((((((0 ^^^ cB x 0) ^^^ cB x 1) ^^^ cB x 2) ^^^ cB x 3) ^^^ cB x 4) ^^^ cB x 5) ^^^ cB x 6) ^^^ cB x 7 := by
  have s0 := or_step 0 (x.getD 0 0) 0 (by omega) bitsBelow_zero
  have s1 := or_step _ (x.getD 1 0) 1 (by omega) s0.2
  have s2 := or_step _ (x.getD 2 0) 2 (by omega) s1.2
  have s3 := or_step _ (x.getD 3 0) 3 (by omega) s2.2
  have s4 := or_step _ (x.getD 4 0) 4 (by omega) s3.2
  have s5 := or_step _ (x.getD 5 0) 5 (by omega) s4.2
  have s6 := or_step _ (x.getD 6 0) 6 (by omega) s5.2
  have s7 := or_step _ (x.getD 7 0) 7 (by omega) s6.2
  rw [load64_unfold]
  unfold cB
  rw [s7.1, s6.1, s5.1, s4.1, s3.1, s2.1, s1.1, s0.1]

end SqiProofs.Sponge

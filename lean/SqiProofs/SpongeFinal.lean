/-
C20 lemmas: padding / finalize, the one-shot `keccak_absorb`, and the state both reach just before the last
permutation of the specification's absorbing phase (`specAbsorbPre`).  Core-only.
-/
import SqiProofs.SpongeAbsorb

namespace SqiProofs.Sponge
open SqiModel.Fips202 SqiModel.Sponge

variable (f : State → State)

/-- the specification's state after XOR-ing the last padded block, before the last permutation -/
def specAbsorbPre (r : Nat) (d : UInt8) (msg : List UInt8) : State :=
  xorBlock (absorbBlocks f r (msg.length / r) zeroState msg)
    (msg.drop (r * (msg.length / r)) ++ padBytes r d msg.length)

theorem padBytes_def (r : Nat) (d : UInt8) (mlen : Nat) :
    padBytes r d mlen = if r - 1 - mlen % r = 0 then [d ||| 128]
      else d :: (List.replicate (r - 1 - mlen % r - 1) 0 ++ [128]) := rfl

theorem padBytes_length (r : Nat) (d : UInt8) (mlen : Nat) (h0 : 0 < r) :
    (padBytes r d mlen).length = r - mlen % r := by
  have := Nat.mod_lt mlen h0
  rw [padBytes_def]
  split <;> simp <;> omega

theorem absorbBlocks_succ_right (r n : Nat) (s : State) (p : List UInt8) :
    absorbBlocks f r (n + 1) s p = f (xorBlock (absorbBlocks f r n s p) ((p.drop (r * n)).take r)) := by
  induction n generalizing s p with
  | zero => simp [absorbBlocks]
  | succ n ih =>
    rw [absorbBlocks, ih]
    simp only [absorbBlocks, List.drop_drop]
    rw [show r * (n + 1) = r + r * n by rw [Nat.mul_succ]; omega]

theorem absorbBlocks_append (r n : Nat) (s : State) (m x : List UInt8) (h : r * n ≤ m.length) :
    absorbBlocks f r n s (m ++ x) = absorbBlocks f r n s m := by
  induction n generalizing s m with
  | zero => simp [absorbBlocks]
  | succ n ih =>
    have hr : r ≤ m.length := by rw [Nat.mul_succ] at h; omega
    simp only [absorbBlocks]
    rw [List.take_append_of_le_length hr, List.drop_append_of_le_length hr]
    apply ih
    rw [Nat.mul_succ] at h
    simp only [List.length_drop]; omega

theorem div_mod_facts (r len : Nat) (h0 : 0 < r) : r * (len / r) ≤ len ∧ len - r * (len / r) = len % r := by
  have := Nat.div_add_mod len r
  constructor <;> omega

/-- absorbing all blocks of msg ‖ pad = one permutation after `specAbsorbPre` -/
theorem spec_absorb_eq (r : Nat) (d : UInt8) (msg : List UInt8) (h0 : 0 < r) :
    absorbBlocks f r ((msg ++ padBytes r d msg.length).length / r) zeroState (msg ++ padBytes r d msg.length)
      = f (specAbsorbPre f r d msg) := by
  obtain ⟨hle, hmod⟩ := div_mod_facts r msg.length h0
  have hml := Nat.mod_lt msg.length h0
  have hplen : (msg ++ padBytes r d msg.length).length = r * (msg.length / r + 1) := by
    simp only [List.length_append, padBytes_length r d msg.length h0]
    rw [Nat.mul_succ]; omega
  rw [hplen, Nat.mul_div_cancel_left _ h0, absorbBlocks_succ_right, absorbBlocks_append f r _ _ msg _ hle,
    List.drop_append_of_le_length hle, List.take_of_length_le]
  · rfl
  · simp only [List.length_append, List.length_drop, padBytes_length r d msg.length h0]
    omega

/-! ### finalize -/
theorem xorByteAt_zero (s : State) (i : Nat) : xorByteAt s i 0 = s := by
  unfold xorByteAt
  split
  · have : (0 : UInt8).toUInt64 = 0 := rfl
    simp [this]
  · rfl

theorem xorBytesAt_zeros (s : State) (pos n : Nat) : xorBytesAt s pos (List.replicate n 0) = s := by
  induction n generalizing pos with
  | zero => simp [xorBytesAt]
  | succ n ih => simp [List.replicate_succ, xorBytesAt, xorByteAt_zero, ih]

theorem xorByteAt_or (s : State) (i : Nat) (p : UInt8) (hp : p ||| 128 = p ^^^ 128) :
    xorByteAt (xorByteAt s i p) i 128 = xorByteAt s i (p ||| 128) := by
  unfold xorByteAt
  split
  · simp only [Vector.getElem_set_self, Vector.set_set, hp, UInt8.toUInt64_xor, UInt64.shiftLeft_xor, UInt64.xor_assoc]
  · rfl

/-- `keccak_inc_finalize` after a partial block = byte-wise XOR of the padded block -/
theorem finalize_eq (r : Nat) (p : UInt8) (hp : p ||| 128 = p ^^^ 128) (S : State) (rest : List UInt8) (mlen : Nat)
    (hk : mlen % r = rest.length) (h0 : 0 < r) :
    xorByteAt (xorByteAt (xorBytesAt S 0 rest) rest.length p) (r - 1) 128
      = xorBytesAt S 0 (rest ++ padBytes r p mlen) := by
  have hlt : rest.length < r := by rw [← hk]; exact Nat.mod_lt _ h0
  rw [xorBytesAt_append, Nat.zero_add, padBytes_def, hk]
  by_cases hq : r - 1 - rest.length = 0
  · have e : r - 1 = rest.length := by omega
    rw [if_pos hq, e]
    simp only [xorBytesAt]
    exact xorByteAt_or _ _ p hp
  · rw [if_neg hq]
    simp only [xorBytesAt, xorBytesAt_append, xorBytesAt_zeros, List.length_replicate]
    congr 1
    omega

/-! ### the one-shot `keccak_absorb` -/
theorem absorbFull_eq (r : Nat) (h0 : 0 < r) (h8 : r % 8 = 0) (hr : r ≤ 200) (n fuel : Nat) (s : State)
    (m : List UInt8) (hn : m.length / r = n) (hf : n < fuel) :
    absorbFull f r fuel s m = (absorbBlocks f r n s m, m.drop (r * n)) := by
  induction n generalizing s m fuel with
  | zero =>
    have hlt : m.length < r := (Nat.div_eq_zero_iff_lt h0).mp hn
    match fuel, hf with
    | fuel + 1, _ =>
      have : ¬ (m.length ≥ r ∧ 0 < r) := by omega
      simp [absorbFull, this, absorbBlocks]
  | succ n ih =>
    have hge : r ≤ m.length := by
      by_cases h : r ≤ m.length
      · exact h
      · have : m.length / r = 0 := (Nat.div_eq_zero_iff_lt h0).mpr (by omega)
        omega
    have hdiv : (m.length - r) / r = n := by
      have := Nat.div_eq_sub_div h0 hge; omega
    match fuel, hf with
    | fuel + 1, hf =>
      have hc : m.length ≥ r ∧ 0 < r := ⟨hge, h0⟩
      simp only [absorbFull, hc, and_self, if_true]
      rw [ih fuel _ (m.drop r) (by simpa using hdiv) (by omega), xorLanes_eq_xorBlock s m r h8 hr hge]
      simp only [absorbBlocks, List.drop_drop]
      rw [show r * (n + 1) = r + r * n by rw [Nat.mul_succ]; omega]

theorem lastBlock_eq (r : Nat) (rest : List UInt8) (p : UInt8) (mlen : Nat) (hk : mlen % r = rest.length)
    (hlt : rest.length < r) : lastBlock r rest p = rest ++ padBytes r p mlen := by
  unfold lastBlock
  rw [padBytes_def, hk]
  by_cases hq : r - 1 - rest.length = 0
  · have e1 : r - rest.length - 1 = 0 := by omega
    have e2 : r - 1 = rest.length := by omega
    rw [if_pos hq, e1, e2]
    simp [List.getD_eq_getElem?_getD]
  · obtain ⟨q, hq'⟩ : ∃ q, r - 1 - rest.length = q + 1 := ⟨r - 1 - rest.length - 1, by omega⟩
    have e1 : r - rest.length - 1 = q + 1 := by omega
    have e2 : r - 1 = (rest ++ [p] ++ List.replicate q 0).length := by simp; omega
    rw [if_neg hq, e1, hq', List.replicate_succ', ← List.append_assoc, e2]
    simp [List.getD_eq_getElem?_getD]

theorem rest_length (r : Nat) (m : List UInt8) (h0 : 0 < r) :
    (m.drop (r * (m.length / r))).length = m.length % r := by
  simp only [List.length_drop]; exact (div_mod_facts r m.length h0).2

/-- `keccak_absorb` (one-shot) leaves the state `specAbsorbPre` -/
theorem keccakAbsorb_eq (r : Nat) (h0 : 0 < r) (h8 : r % 8 = 0) (hr : r ≤ 200) (m : List UInt8) (p : UInt8) :
    keccakAbsorb f r m p = specAbsorbPre f r p m := by
  have hrl := rest_length r m h0
  have hml := Nat.mod_lt m.length h0
  unfold keccakAbsorb
  rw [absorbFull_eq f r h0 h8 hr (m.length / r) (m.length + 1) zeroState m rfl
    (Nat.lt_succ_of_le (Nat.div_le_self _ _))]
  simp only
  rw [lastBlock_eq r _ p m.length hrl.symm (by omega)]
  have hlen : (m.drop (r * (m.length / r)) ++ padBytes r p m.length).length = r := by
    simp only [List.length_append, hrl, padBytes_length r p m.length h0]; omega
  rw [xorLanes_eq_xorBlock _ _ r h8 hr (by omega), List.take_of_length_le (by omega)]
  rfl

/-- incremental absorb of any chunking, then finalize, leaves the state `specAbsorbPre` and `s_inc[25] = 0` -/
theorem incFinal_eq (r : Nat) (h0 : 0 < r) (h8 : r % 8 = 0) (hr : r ≤ 200) (p : UInt8) (hp : p ||| 128 = p ^^^ 128)
    (chunks : List (List UInt8)) :
    incFinalize r p (incAbsorbMany f r incInit chunks) = ⟨specAbsorbPre f r p chunks.flatten, 0⟩ := by
  have hrl := rest_length r chunks.flatten h0
  rw [incAbsorbMany_eq f r incInit chunks (by simpa [incInit] using h0)]
  unfold incInit
  rw [abBytes_blocks f r h0 h8 hr (chunks.flatten.length / r) zeroState chunks.flatten rfl]
  unfold incFinalize
  simp only
  rw [← hrl, finalize_eq r p hp _ _ chunks.flatten.length hrl.symm h0]
  have hlen : (chunks.flatten.drop (r * (chunks.flatten.length / r)) ++ padBytes r p chunks.flatten.length).length = r := by
    have := Nat.mod_lt chunks.flatten.length h0
    simp only [List.length_append, hrl, padBytes_length r p chunks.flatten.length h0]; omega
  rw [xorBytesAt_eq_xorBlock _ _ r h8 hr hlen]
  rfl

end SqiProofs.Sponge

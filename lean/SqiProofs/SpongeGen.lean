/-
C20: the sponge control code as re-extracted from fips202.c (SqiGen.Sponge, structured programs with loops) computes the
hand model SqiModel.Sponge — so the chunking / FIPS 202 theorems proved for the model are theorems about the current text.
-/
import SqiGen.Sponge
import SqiProofs.SpongeMain

namespace SqiProofs.SpongeGen
open SqiModel.Fips202 SqiModel.SpongeProg SqiModel.Sponge

theorem idx_facts (n : Nat) : n >>> 3 = n / 8 ∧ n &&& 7 = n % 8 := by
  constructor
  · rw [Nat.shiftRight_eq_div_pow]
  · exact Nat.and_two_pow_sub_one_eq_mod n 3

/-- the translated byte-into-lane statement is the model's `xorByteAt` -/
theorem xorLaneAt_byte (s : State) (idx : Nat) (b : UInt8) :
    xorLaneAt s (idx >>> 3) (b.toUInt64 <<< (8 * (idx &&& 7)).toUInt64) = xorByteAt s idx b := by
  rw [(idx_facts idx).1, (idx_facts idx).2]
  rfl

/-! ### a generic counting-loop lemma -/
def iterN {σ : Type} (f : σ → σ) : Nat → σ → σ
  | 0, s => s
  | n + 1, s => iterN f n (f s)

theorem loopO_count {σ : Type} (I : σ → Prop) (cnt : σ → Nat) (n : Nat) (cond : σ → Bool) (body : σ → Option σ)
    (step : σ → σ)
    (hc : ∀ s, I s → cond s = decide (cnt s < n))
    (hb : ∀ s, I s → cnt s < n → body s = some (step s))
    (hI : ∀ s, I s → cnt s < n → I (step s) ∧ cnt (step s) = cnt s + 1) :
    ∀ k fuel s, I s → n - cnt s = k → k ≤ fuel → loopO cond body fuel s = some (iterN step k s) := by
  intro k
  induction k with
  | zero =>
    intro fuel s hs hk _
    have : ¬ cnt s < n := by omega
    cases fuel <;> simp [loopO, hc s hs, this, iterN]
  | succ k ih =>
    intro fuel s hs hk hf
    have hlt : cnt s < n := by omega
    obtain ⟨hs', hc'⟩ := hI s hs hlt
    match fuel, hf with
    | fuel + 1, hf =>
      simp only [loopO, hc s hs, hlt, decide_true, if_true, hb s hs hlt, iterN]
      exact ih fuel (step s) hs' (by omega) (by omega)

/-! ### load64 -/
theorem load64_eq (x : List UInt8) : SqiGen.Sponge.load64 x = SqiModel.Sponge.load64 x := by
  rfl

/-! ### keccak_inc_finalize -/
theorem inc_finalize_eq (F : State → State) (fuel : Nat) (st : IncState) (r : Nat) (p : UInt8) :
    SqiGen.Sponge.keccak_inc_finalize.run F fuel ⟨st.s, st.pos, r, p⟩
      = some ⟨(incFinalize r p st).s, (incFinalize r p st).pos, r, p⟩ := by
  simp only [SqiGen.Sponge.keccak_inc_finalize.run, incFinalize, xorLaneAt_byte, Option.bind]

/-! ### keccak_inc_absorb -/
abbrev AV := SqiGen.Sponge.keccak_inc_absorb.V

/-- one iteration of the byte loops of keccak_inc_absorb -/
def byteStep (v : AV) : AV :=
  { v with s_inc := xorByteAt v.s_inc (v.pos + v.i) (v.m.getD v.i 0), i := v.i + 1 }

theorem byteStep_iter (k : Nat) (v : AV) (h : v.i + k ≤ v.m.length) :
    iterN byteStep k v = { v with s_inc := xorBytesAt v.s_inc (v.pos + v.i) ((v.m.drop v.i).take k), i := v.i + k } := by
  induction k generalizing v with
  | zero => simp [iterN, xorBytesAt]
  | succ k ih =>
    have hi : v.i < v.m.length := by omega
    have hd : (v.m.drop v.i).take (k + 1) = v.m.getD v.i 0 :: (v.m.drop (v.i + 1)).take k := by
      rw [List.drop_eq_getElem_cons hi, List.take_succ_cons]
      simp [List.getD_eq_getElem?_getD, hi]
    rw [iterN, ih (byteStep v) (by simp [byteStep]; omega), hd]
    simp [byteStep, xorBytesAt, Nat.add_assoc, Nat.add_comm 1 k]

/-- a byte loop `for (i = 0; i < bound; i++) s_inc[(pos+i)>>3] ^= m[i] << …` of the generated code -/
theorem byte_loop (B : AV → Option AV) (hB : ∀ w, B w = some (byteStep w)) (n fuel : Nat) (v : AV) (hn : n ≤ v.m.length)
    (hf : n ≤ fuel) (bound : AV → Nat)
    (hb : ∀ w : AV, w.pos = v.pos → w.r = v.r → w.m = v.m → w.mlen = v.mlen → bound w = n) :
    loopO (fun v => decide (v.i < bound v)) B fuel { v with i := 0 }
      = some { v with s_inc := xorBytesAt v.s_inc v.pos (v.m.take n), i := n } := by
  have := loopO_count (fun w : AV => w.pos = v.pos ∧ w.r = v.r ∧ w.m = v.m ∧ w.mlen = v.mlen) (·.i) n
    (fun v => decide (v.i < bound v)) B byteStep
    (fun w hw => by rw [hb w hw.1 hw.2.1 hw.2.2.1 hw.2.2.2])
    (fun w _ _ => hB w)
    (fun w hw _ => by simp [byteStep, hw])
    n fuel { v with i := 0 } ⟨rfl, rfl, rfl, rfl⟩ (by simp) hf
  rw [this, byteStep_iter n _ (by simpa using hn)]
  simp

theorem body1_eq (F : State → State) (fuel : Nat) (w : AV) : SqiGen.Sponge.keccak_inc_absorb.body1 F fuel w = some (byteStep w) := by
  simp only [SqiGen.Sponge.keccak_inc_absorb.body1, byteStep, xorLaneAt_byte, Option.bind]
theorem body3_eq (F : State → State) (fuel : Nat) (w : AV) : SqiGen.Sponge.keccak_inc_absorb.body3 F fuel w = some (byteStep w) := by
  simp only [SqiGen.Sponge.keccak_inc_absorb.body3, byteStep, xorLaneAt_byte, Option.bind]

/-- the invariant of the while loop: `s_inc[25] < r`, `mlen` is the number of remaining input bytes -/
def AInv (r : Nat) (v : AV) : Prop := v.r = r ∧ v.pos < r ∧ v.mlen = v.m.length

def bodyRes (F : State → State) (v : AV) : AV :=
  { v with s_inc := F (xorBytesAt v.s_inc v.pos (v.m.take (v.r - v.pos))), pos := 0, m := v.m.drop (v.r - v.pos),
           mlen := v.mlen - (v.r - v.pos), i := v.r - v.pos }

/-- one iteration of `while (mlen + s_inc[25] >= r) { … }` -/
theorem body2_eq (F : State → State) (fuel r : Nat) (v : AV) (hI : AInv r v) (hc : v.mlen + v.pos ≥ v.r) (hf : r ≤ fuel) :
    SqiGen.Sponge.keccak_inc_absorb.body2 F fuel v = some (bodyRes F v) := by
  obtain ⟨hr, hp, hm⟩ := hI
  have hl := byte_loop (SqiGen.Sponge.keccak_inc_absorb.body1 F fuel) (body1_eq F fuel) (v.r - v.pos) fuel v (by omega) (by omega)
    (fun w => w.r - w.pos) (fun w h1 h2 _ _ => by rw [h1, h2])
  simp only [SqiGen.Sponge.keccak_inc_absorb.body2, hl, Option.bind, bodyRes]

theorem outer_loop (F : State → State) (r : Nat) (B : AV → Option AV)
    (hB : ∀ v, AInv r v → v.mlen + v.pos ≥ v.r → B v = some (bodyRes F v)) :
    ∀ n (v : AV), AInv r v → v.m.length < n →
      ∃ v', loopO (fun v : AV => decide ((v.mlen + v.pos) ≥ v.r)) B n v = some v' ∧ AInv r v' ∧ v'.mlen + v'.pos < r ∧
        incAbsorbLoop F r n ⟨v.s_inc, v.pos⟩ v.m = ⟨xorBytesAt v'.s_inc v'.pos v'.m, v'.pos + v'.m.length⟩ := by
  intro n
  induction n with
  | zero => intro v _ h; omega
  | succ n ih =>
    intro v hI hn
    obtain ⟨hr, hp, hm⟩ := hI
    by_cases hc : v.mlen + v.pos ≥ v.r
    · have hI' : AInv r (bodyRes F v) := by
        refine ⟨hr, by simp [bodyRes]; omega, ?_⟩
        simp [bodyRes, hm]
      have hlen : (bodyRes F v).m.length < n := by simp [bodyRes]; omega
      obtain ⟨v', h1, h2, h3, h4⟩ := ih (bodyRes F v) hI' hlen
      refine ⟨v', ?_, h2, h3, ?_⟩
      · simp only [loopO, hc, decide_true, if_true, hB v ⟨hr, hp, hm⟩ hc]
        exact h1
      · have hcm : v.m.length + v.pos ≥ r ∧ v.pos < r := ⟨by omega, hp⟩
        rw [incAbsorbLoop]
        simp only [hcm, and_self, if_true]
        simpa [bodyRes, hr] using h4
    · refine ⟨v, ?_, ⟨hr, hp, hm⟩, by omega, ?_⟩
      · simp [loopO, hc]
      · have hcm : ¬ (v.m.length + v.pos ≥ r ∧ v.pos < r) := by omega
        rw [incAbsorbLoop]
        simp [hcm]

/-- **`keccak_inc_absorb` as re-extracted = the hand model `incAbsorb`** (lanes and byte counter), for every state with
    `s_inc[25] < r`, every input, enough fuel -/
theorem inc_absorb_eq (F : State → State) (fuel r : Nat) (st : IncState) (m : List UInt8) (i0 : Nat) (hp : st.pos < r)
    (hf : m.length + r < fuel) :
    ∃ v', SqiGen.Sponge.keccak_inc_absorb.run F fuel ⟨st.s, st.pos, r, m, m.length, i0⟩ = some v' ∧
      v'.s_inc = (incAbsorb F r st m).s ∧ v'.pos = (incAbsorb F r st m).pos := by
  have hI : AInv r (⟨st.s, st.pos, r, m, m.length, i0⟩ : AV) := ⟨rfl, hp, rfl⟩
  obtain ⟨v', h1, ⟨h2r, h2p, h2m⟩, h3, h4⟩ := outer_loop F r (SqiGen.Sponge.keccak_inc_absorb.body2 F fuel)
    (fun v hv hc => body2_eq F fuel r v hv hc (by omega)) fuel _ hI (by simp; omega)
  have hl := byte_loop (SqiGen.Sponge.keccak_inc_absorb.body3 F fuel) (body3_eq F fuel) v'.mlen fuel v' (by omega)
    (by
      -- the remaining input is shorter than r
      omega)
    (fun w => w.mlen) (fun w _ _ _ h => by rw [h])
  have hm1 : incAbsorb F r st m = incAbsorbLoop F r fuel st m := by
    unfold incAbsorb
    rw [SqiProofs.Sponge.incAbsorbLoop_eq F r (m.length + 1) st m (by omega) hp,
      SqiProofs.Sponge.incAbsorbLoop_eq F r fuel st m (by omega) hp]
  have h4' : incAbsorbLoop F r fuel st m = ⟨xorBytesAt v'.s_inc v'.pos v'.m, v'.pos + v'.m.length⟩ := h4
  refine ⟨{ v' with s_inc := xorBytesAt v'.s_inc v'.pos (v'.m.take v'.mlen), i := v'.mlen, pos := v'.pos + v'.mlen }, ?_, ?_, ?_⟩
  · simp only [SqiGen.Sponge.keccak_inc_absorb.run, h1, Option.bind, hl]
  · rw [hm1, h4', h2m, List.take_of_length_le (Nat.le_refl _)]
  · rw [hm1, h4', h2m]

end SqiProofs.SpongeGen

/- C20: `keccak_absorb` as re-extracted from fips202.c (six loops: zero the state, the block loop with its lane loop, build the
   padded last block in `t[200]`, absorb it) computes the hand model `keccakAbsorb`. -/
import SqiProofs.SpongeGen

namespace SqiProofs.SpongeGen
open SqiModel.Fips202 SqiModel.SpongeProg SqiModel.Sponge

abbrev KV := SqiGen.Sponge.keccak_absorb.V

/-! ### closed forms of the four kinds of for-loops -/
def zeroFrom : State → Nat → Nat → State
  | s, _, 0 => s
  | s, i, k + 1 => zeroFrom (setLaneAt s i 0) (i + 1) k

def lanesFrom : State → List UInt8 → Nat → Nat → State
  | s, _, _, 0 => s
  | s, src, i, k + 1 => lanesFrom (xorLaneAt s i (SqiGen.Sponge.load64 (src.drop (8 * i)))) src (i + 1) k

def tsetFrom (val : Nat → UInt8) : List UInt8 → Nat → Nat → List UInt8
  | t, _, 0 => t
  | t, i, k + 1 => tsetFrom val (t.set i (val i)) (i + 1) k

theorem zeroFrom_get (s : State) (i k j : Nat) (hj : j < 25) :
    (zeroFrom s i k)[j] = if i ≤ j ∧ j < i + k then 0 else s[j] := by
  induction k generalizing s i with
  | zero =>
    have : ¬ (i ≤ j ∧ j < i + 0) := by omega
    rw [if_neg this]; rfl
  | succ k ih =>
    rw [zeroFrom, ih]
    unfold setLaneAt
    by_cases hi : i < 25
    · simp only [hi, dite_true, Vector.getElem_set]
      by_cases e : i = j
      · subst e; simp
      · simp only [e, if_false]
        by_cases h1 : i + 1 ≤ j ∧ j < i + 1 + k
        · simp [h1]; omega
        · have : ¬ (i ≤ j ∧ j < i + (k + 1)) := by omega
          simp [h1, this]
    · have : ¬ (i + 1 ≤ j ∧ j < i + 1 + k) := by omega
      have h2 : ¬ (i ≤ j ∧ j < i + (k + 1)) := by omega
      simp [hi, this, h2]

theorem zeroFrom_all (s : State) : zeroFrom s 0 25 = zeroState := by
  apply Vector.ext
  intro j hj
  rw [zeroFrom_get s 0 25 j hj]
  simp [hj, zeroState]

theorem lanesFrom_eq_foldl (s : State) (src : List UInt8) (i k : Nat) :
    lanesFrom s src i k = (List.range' i k).foldl
      (fun s i => if h : i < 25 then s.set i (s[i] ^^^ SqiModel.Sponge.load64 (src.drop (8 * i))) else s) s := by
  induction k generalizing s i with
  | zero => rfl
  | succ k ih => rw [lanesFrom, ih, List.range'_succ, List.foldl_cons]; rfl

/-- the lane loop of the generated code is the model's `xorLanes` -/
theorem lanesFrom_eq_xorLanes (s : State) (src : List UInt8) (n : Nat) : lanesFrom s src 0 n = xorLanes s src n := by
  rw [lanesFrom_eq_foldl, xorLanes, List.range_eq_range']

theorem tsetFrom_length (val : Nat → UInt8) (t : List UInt8) (i k : Nat) : (tsetFrom val t i k).length = t.length := by
  induction k generalizing t i with
  | zero => rfl
  | succ k ih => rw [tsetFrom, ih]; simp

theorem getD_set' (t : List UInt8) (i j : Nat) (x : UInt8) :
    (t.set i x).getD j 0 = if i = j ∧ j < t.length then x else t.getD j 0 := by
  simp only [List.getD_eq_getElem?_getD, List.getElem?_set]
  by_cases e : i = j
  · subst e
    by_cases h : i < t.length
    · simp [h]
    · simp [h]
  · simp [e]

theorem tsetFrom_getD (val : Nat → UInt8) (t : List UInt8) (i k j : Nat) :
    (tsetFrom val t i k).getD j 0 = if i ≤ j ∧ j < i + k ∧ j < t.length then val j else t.getD j 0 := by
  induction k generalizing t i with
  | zero =>
    have : ¬ (i ≤ j ∧ j < i + 0 ∧ j < t.length) := by omega
    rw [if_neg this]; rfl
  | succ k ih =>
    rw [tsetFrom, ih, getD_set', List.length_set]
    by_cases e : i = j
    · subst e
      by_cases h : i < t.length
      · have : ¬ (i + 1 ≤ i ∧ i < i + 1 + k ∧ i < t.length) := by omega
        simp [h, this]
      · have : ¬ (i + 1 ≤ i ∧ i < i + 1 + k ∧ i < t.length) := by omega
        simp [h, this]
    · by_cases h1 : i + 1 ≤ j ∧ j < i + 1 + k ∧ j < t.length
      · have : i ≤ j ∧ j < i + (k + 1) ∧ j < t.length := by omega
        simp [h1, this]
      · have : ¬ (i ≤ j ∧ j < i + (k + 1) ∧ j < t.length) := by omega
        simp [h1, this, e]

theorem load64_congr (a b : List UInt8) (h : ∀ k, k < 8 → a.getD k 0 = b.getD k 0) :
    SqiModel.Sponge.load64 a = SqiModel.Sponge.load64 b := by
  rw [SqiProofs.Sponge.load64_unfold, SqiProofs.Sponge.load64_unfold]
  simp only [SqiProofs.Sponge.cB, h 0 (by decide), h 1 (by decide), h 2 (by decide), h 3 (by decide), h 4 (by decide),
    h 5 (by decide), h 6 (by decide), h 7 (by decide)]

theorem getD_drop' (a : List UInt8) (i k : Nat) : (a.drop i).getD k 0 = a.getD (i + k) 0 := by
  simp [List.getD_eq_getElem?_getD, List.getElem?_drop]

/-- `xorLanes` reads only the first 8n bytes -/
theorem xorLanes_congr (s : State) (a b : List UInt8) (n : Nat) (h : ∀ j, j < 8 * n → a.getD j 0 = b.getD j 0) :
    xorLanes s a n = xorLanes s b n := by
  unfold xorLanes
  have key : ∀ (l : List Nat) (s : State), (∀ i ∈ l, i < n) →
      l.foldl (fun s i => if h : i < 25 then s.set i (s[i] ^^^ SqiModel.Sponge.load64 (a.drop (8 * i))) else s) s
        = l.foldl (fun s i => if h : i < 25 then s.set i (s[i] ^^^ SqiModel.Sponge.load64 (b.drop (8 * i))) else s) s := by
    intro l
    induction l with
    | nil => intro s _; rfl
    | cons i l ih =>
      intro s hl
      have hi' : i < n := hl i (List.mem_cons_self ..)
      have : SqiModel.Sponge.load64 (a.drop (8 * i)) = SqiModel.Sponge.load64 (b.drop (8 * i)) :=
        load64_congr _ _ (fun k hk => by rw [getD_drop', getD_drop']; exact h _ (by omega))
      simp only [List.foldl_cons, this]
      exact ih _ (fun j hj => hl j (List.mem_cons_of_mem _ hj))
  exact key _ s (fun i hi => List.mem_range.mp hi)

end SqiProofs.SpongeGen

/- C20: `keccak_absorb` generated = hand model, part 2: the loops and the assembly. -/
import SqiProofs.SpongeGen2

namespace SqiProofs.SpongeGen
open SqiModel.Fips202 SqiModel.SpongeProg SqiModel.Sponge

theorem for_loop (step : KV → KV) (B : KV → Option KV) (hB : ∀ w, B w = some (step w)) (I : KV → Prop)
    (hIstep : ∀ w, I w → I (step w)) (hi : ∀ w, (step w).i = w.i + 1) (n : Nat) (bound : KV → Nat)
    (hb : ∀ w, I w → bound w = n) (fuel : Nat) (v : KV) (hv : I { v with i := 0 }) (hf : n ≤ fuel) :
    loopO (fun v => decide (v.i < bound v)) B fuel { v with i := 0 } = some (iterN step n { v with i := 0 }) :=
  loopO_count I (·.i) n (fun v => decide (v.i < bound v)) B step
    (fun w hw => by rw [hb w hw]) (fun w _ _ => hB w) (fun w hw _ => ⟨hIstep w hw, hi w⟩) n fuel _ hv (by simp) hf

def stepZ (v : KV) : KV := { v with s := setLaneAt v.s v.i 0, i := v.i + 1 }
def stepLm (v : KV) : KV := { v with s := xorLaneAt v.s v.i (SqiGen.Sponge.load64 (v.m.drop (8 * v.i))), i := v.i + 1 }
def stepLt (v : KV) : KV := { v with s := xorLaneAt v.s v.i (SqiGen.Sponge.load64 (v.t.drop (8 * v.i))), i := v.i + 1 }
def stepT0 (v : KV) : KV := { v with t := v.t.set v.i 0, i := v.i + 1 }
def stepTm (v : KV) : KV := { v with t := v.t.set v.i (v.m.getD v.i 0), i := v.i + 1 }

theorem iter_stepZ (k : Nat) (v : KV) : iterN stepZ k v = { v with s := zeroFrom v.s v.i k, i := v.i + k } := by
  induction k generalizing v with
  | zero => rfl
  | succ k ih => rw [iterN, ih]; simp [stepZ, zeroFrom, Nat.add_assoc, Nat.add_comm 1 k]
theorem iter_stepLm (k : Nat) (v : KV) : iterN stepLm k v = { v with s := lanesFrom v.s v.m v.i k, i := v.i + k } := by
  induction k generalizing v with
  | zero => rfl
  | succ k ih => rw [iterN, ih]; simp [stepLm, lanesFrom, Nat.add_assoc, Nat.add_comm 1 k]
theorem iter_stepLt (k : Nat) (v : KV) : iterN stepLt k v = { v with s := lanesFrom v.s v.t v.i k, i := v.i + k } := by
  induction k generalizing v with
  | zero => rfl
  | succ k ih => rw [iterN, ih]; simp [stepLt, lanesFrom, Nat.add_assoc, Nat.add_comm 1 k]
theorem iter_stepT0 (k : Nat) (v : KV) : iterN stepT0 k v = { v with t := tsetFrom (fun _ => 0) v.t v.i k, i := v.i + k } := by
  induction k generalizing v with
  | zero => rfl
  | succ k ih => rw [iterN, ih]; simp [stepT0, tsetFrom, Nat.add_assoc, Nat.add_comm 1 k]
theorem iter_stepTm (k : Nat) (v : KV) :
    iterN stepTm k v = { v with t := tsetFrom (fun j => v.m.getD j 0) v.t v.i k, i := v.i + k } := by
  induction k generalizing v with
  | zero => rfl
  | succ k ih => rw [iterN, ih]; simp [stepTm, tsetFrom, Nat.add_assoc, Nat.add_comm 1 k]

theorem kbody1 (F : State → State) (fuel : Nat) (w : KV) : SqiGen.Sponge.keccak_absorb.body1 F fuel w = some (stepZ w) := rfl
theorem kbody2 (F : State → State) (fuel : Nat) (w : KV) : SqiGen.Sponge.keccak_absorb.body2 F fuel w = some (stepLm w) := rfl
theorem kbody4 (F : State → State) (fuel : Nat) (w : KV) : SqiGen.Sponge.keccak_absorb.body4 F fuel w = some (stepT0 w) := rfl
theorem kbody5 (F : State → State) (fuel : Nat) (w : KV) : SqiGen.Sponge.keccak_absorb.body5 F fuel w = some (stepTm w) := rfl
theorem kbody6 (F : State → State) (fuel : Nat) (w : KV) : SqiGen.Sponge.keccak_absorb.body6 F fuel w = some (stepLt w) := rfl

/-- one iteration of `while (mlen >= r)`: lane loop, permutation, advance -/
def blockRes (F : State → State) (v : KV) : KV :=
  { v with s := F (xorLanes v.s v.m (v.r / 8)), mlen := v.mlen - v.r, m := v.m.drop v.r, i := v.r / 8 }

theorem kbody3 (F : State → State) (fuel : Nat) (v : KV) (hf : v.r / 8 ≤ fuel) :
    SqiGen.Sponge.keccak_absorb.body3 F fuel v = some (blockRes F v) := by
  have hl := for_loop stepLm (SqiGen.Sponge.keccak_absorb.body2 F fuel) (kbody2 F fuel) (fun w => w.r = v.r)
    (fun w hw => by simpa [stepLm] using hw) (fun w => rfl) (v.r / 8) (fun w => w.r / 8) (fun w hw => by rw [hw]) fuel v rfl hf
  simp only [SqiGen.Sponge.keccak_absorb.body3, hl, Option.bind, iter_stepLm, blockRes, lanesFrom_eq_xorLanes, Nat.zero_add]

def KInvA (r : Nat) (v : KV) : Prop := v.r = r ∧ v.mlen = v.m.length ∧ 0 < r

theorem block_loop (F : State → State) (r : Nat) (B : KV → Option KV) (hB : ∀ v, KInvA r v → B v = some (blockRes F v)) :
    ∀ n (v : KV), KInvA r v → v.m.length < n →
      ∃ v', loopO (fun v : KV => decide (v.mlen ≥ v.r)) B n v = some v' ∧ KInvA r v' ∧ v'.mlen < r ∧ v'.p = v.p ∧ v'.t = v.t ∧
        absorbFull F r n v.s v.m = (v'.s, v'.m) := by
  intro n
  induction n with
  | zero => intro v _ h; omega
  | succ n ih =>
    intro v hI hn
    obtain ⟨hr, hm, h0⟩ := hI
    by_cases hc : v.mlen ≥ v.r
    · have hI' : KInvA r (blockRes F v) := ⟨hr, by simp [blockRes, hm], h0⟩
      obtain ⟨v', h1, h2, h3, h4, h5, h6⟩ := ih (blockRes F v) hI' (by simp [blockRes]; omega)
      refine ⟨v', ?_, h2, h3, h4, h5, ?_⟩
      · simp only [loopO, hc, decide_true, if_true, hB v ⟨hr, hm, h0⟩]; exact h1
      · have hcm : v.m.length ≥ r ∧ 0 < r := ⟨by omega, h0⟩
        rw [absorbFull]
        simp only [hcm, and_self, if_true]
        simpa [blockRes, hr] using h6
    · refine ⟨v, by simp [loopO, hc], ⟨hr, hm, h0⟩, by omega, rfl, rfl, ?_⟩
      have hcm : ¬ (v.m.length ≥ r ∧ 0 < r) := by omega
      rw [absorbFull]; simp [hcm]

end SqiProofs.SpongeGen

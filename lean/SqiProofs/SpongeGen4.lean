/- C20: `keccak_absorb` generated = hand model, part 3: assembly. -/
import SqiProofs.SpongeGen3

namespace SqiProofs.SpongeGen
open SqiModel.Fips202 SqiModel.SpongeProg SqiModel.Sponge

theorem absorbFull_fuel (F : State → State) (r : Nat) (h0 : 0 < r) :
    ∀ n1 n2 (s : State) (m : List UInt8), m.length < n1 → m.length < n2 → absorbFull F r n1 s m = absorbFull F r n2 s m := by
  intro n1
  induction n1 with
  | zero => intro n2 s m h; omega
  | succ n1 ih =>
    intro n2 s m h1 h2
    match n2, h2 with
    | n2 + 1, h2 =>
      rw [absorbFull, absorbFull]
      by_cases hc : m.length ≥ r ∧ 0 < r
      · simp only [hc, and_self, if_true]
        exact ih n2 _ _ (by simp; omega) (by simp; omega)
      · simp [hc]

/-- the padded last block, pointwise -/
def padAt (rest : List UInt8) (p : UInt8) (r j : Nat) : UInt8 :=
  let b := if j < rest.length then rest.getD j 0 else if j = rest.length then p else 0
  if j = r - 1 then b ||| 128 else b

theorem lastBlock_getD (r : Nat) (rest : List UInt8) (p : UInt8) (hk : rest.length < r) (j : Nat) (hj : j < r) :
    (lastBlock r rest p).getD j 0 = padAt rest p r j := by
  have hbase : ∀ i, i < r → (rest ++ [p] ++ List.replicate (r - rest.length - 1) 0).getD i 0
      = if i < rest.length then rest.getD i 0 else if i = rest.length then p else 0 := by
    intro i hi
    simp only [List.getD_eq_getElem?_getD, List.append_assoc]
    by_cases h1 : i < rest.length
    · simp [h1, List.getElem?_append_left h1]
    · rw [List.getElem?_append_right (by omega)]
      by_cases h2 : i = rest.length
      · subst h2; simp
      · obtain ⟨d, rfl⟩ : ∃ d, i = rest.length + 1 + d := ⟨i - rest.length - 1, by omega⟩
        have hd : d < r - rest.length - 1 := by omega
        have e : rest.length + 1 + d - rest.length = d + 1 := by omega
        rw [e]
        simp [List.getElem?_replicate, hd, h1, h2]
  have hlen : (rest ++ [p] ++ List.replicate (r - rest.length - 1) 0).length = r := by simp; omega
  unfold lastBlock padAt
  simp only
  rw [getD_set', hlen, hbase (r - 1) (by omega)]
  by_cases e : r - 1 = j
  · subst e; simp [show r - 1 < r by omega]
  · have e' : ¬ j = r - 1 := fun h => e h.symm
    simp only [e, false_and, if_false, e', hbase j hj]

/-- **`keccak_absorb` as re-extracted = the hand model `keccakAbsorb`**: whatever the uninitialised state and `t[200]` hold -/
theorem keccak_absorb_eq (F : State → State) (fuel r : Nat) (m : List UInt8) (p : UInt8) (s0 : State) (t0 : List UInt8)
    (i0 : Nat) (ht : t0.length = 200) (h0 : 0 < r) (hr : r ≤ 200) (hf : m.length + 200 < fuel) :
    ∃ v', SqiGen.Sponge.keccak_absorb.run F fuel ⟨s0, r, m, m.length, p, i0, t0⟩ = some v' ∧
      v'.s = keccakAbsorb F r m p := by
  -- loop 1
  have l1 := for_loop stepZ (SqiGen.Sponge.keccak_absorb.body1 F fuel) (kbody1 F fuel) (fun _ => True) (fun _ _ => trivial)
    (fun _ => rfl) 25 (fun _ => 25) (fun _ _ => rfl) fuel ⟨s0, r, m, m.length, p, i0, t0⟩ trivial (by omega)
  rw [iter_stepZ] at l1
  simp only [Nat.zero_add, zeroFrom_all] at l1
  -- block loop
  obtain ⟨v2, b1, ⟨b2r, b2m, _⟩, b3, b4, b5, b6⟩ := block_loop F r (SqiGen.Sponge.keccak_absorb.body3 F fuel)
    (fun v hv => kbody3 F fuel v (by rw [hv.1]; omega)) fuel
    ⟨zeroState, r, m, m.length, p, 25, t0⟩ ⟨rfl, rfl, h0⟩ (by simp; omega)
  simp only at b4 b5 b6
  -- loops 4, 5
  have l4 := for_loop stepT0 (SqiGen.Sponge.keccak_absorb.body4 F fuel) (kbody4 F fuel) (fun w => w.r = r)
    (fun w hw => by simpa [stepT0] using hw) (fun _ => rfl) r (fun w => w.r) (fun w hw => hw) fuel v2 b2r (by omega)
  rw [iter_stepT0] at l4
  have l5 := for_loop stepTm (SqiGen.Sponge.keccak_absorb.body5 F fuel) (kbody5 F fuel) (fun w => w.mlen = v2.mlen)
    (fun w hw => by simpa [stepTm] using hw) (fun _ => rfl) v2.mlen (fun w => w.mlen) (fun w hw => hw) fuel
    { v2 with t := tsetFrom (fun _ => 0) v2.t 0 r, i := 0 + r } rfl (by omega)
  rw [iter_stepTm] at l5
  -- loop 6 on the final t
  let tf : List UInt8 :=
    (((tsetFrom (fun j => v2.m.getD j 0) (tsetFrom (fun _ => 0) v2.t 0 r) 0 v2.mlen).set v2.mlen v2.p).set (v2.r - 1)
      ((((tsetFrom (fun j => v2.m.getD j 0) (tsetFrom (fun _ => 0) v2.t 0 r) 0 v2.mlen).set v2.mlen v2.p).getD (v2.r - 1) 0) ||| 128))
  have l6 := for_loop stepLt (SqiGen.Sponge.keccak_absorb.body6 F fuel) (kbody6 F fuel) (fun w => w.r = r)
    (fun w hw => by simpa [stepLt] using hw) (fun _ => rfl) (r / 8) (fun w => w.r / 8) (fun w hw => by rw [hw]) fuel
    { v2 with t := tf, i := 0 + v2.mlen } b2r (by omega)
  rw [iter_stepLt] at l6
  refine ⟨{ s := lanesFrom v2.s tf 0 (r / 8), r := v2.r, m := v2.m, mlen := v2.mlen, p := v2.p, i := 0 + r / 8, t := tf }, ?_, ?_⟩
  · simp only [SqiGen.Sponge.keccak_absorb.run, Option.bind, l1, b1, l4, l5, Nat.zero_add] at l6 ⊢
    exact l6
  · -- the model side
    simp only [Nat.zero_add, lanesFrom_eq_xorLanes]
    unfold keccakAbsorb
    rw [absorbFull_fuel F r h0 (m.length + 1) fuel zeroState m (by omega) (by omega), b6]
    simp only
    apply xorLanes_congr
    intro j hj
    have hjr : j < r := by omega
    have hk : v2.m.length < r := by omega
    rw [lastBlock_getD r v2.m p hk j hjr]
    -- the generated t, pointwise
    have hlen1 : (tsetFrom (fun _ => (0 : UInt8)) v2.t 0 r).length = 200 := by rw [tsetFrom_length, b5, ht]
    have hlen2 : (tsetFrom (fun j => v2.m.getD j 0) (tsetFrom (fun _ => 0) v2.t 0 r) 0 v2.mlen).length = 200 := by
      rw [tsetFrom_length, hlen1]
    have g3 : ∀ i, i < r → ((tsetFrom (fun j => v2.m.getD j 0) (tsetFrom (fun _ => 0) v2.t 0 r) 0 v2.mlen).set v2.mlen p).getD i 0
        = if i < v2.m.length then v2.m.getD i 0 else if i = v2.m.length then p else 0 := by
      intro i hi
      rw [getD_set', hlen2, tsetFrom_getD, hlen1, tsetFrom_getD, b5, ht, b2m]
      by_cases h1 : i < v2.m.length
      · have : ¬ v2.m.length = i := by omega
        simp [h1, this, show i < 200 by omega]
      · by_cases h2 : i = v2.m.length
        · simp [h2, show v2.m.length < 200 by omega]
        · have : ¬ v2.m.length = i := fun h => h2 h.symm
          simp [h1, h2, this, hi, show i < 200 by omega]
    show tf.getD j 0 = _
    simp only [tf, b4, b2r]
    rw [getD_set', List.length_set, hlen2, g3 (r - 1) (by omega)]
    unfold padAt
    simp only
    by_cases e : r - 1 = j
    · subst e; simp [show r - 1 < 200 by omega]
    · have e' : ¬ j = r - 1 := fun h => e h.symm
      simp only [e, false_and, if_false, e', g3 j hjr]

end SqiProofs.SpongeGen

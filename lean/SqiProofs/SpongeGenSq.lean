/- C20: squeeze side of the re-extracted sponge code (store64, keccak_squeezeblocks, keccak_inc_squeeze) = the hand model.
   Output buffers are lists with a pointer offset; `Written h0 h off n bytes` says: h is h0 with `bytes` stored at off … off+n. -/
import SqiProofs.SpongeGen4

namespace SqiProofs.SpongeGen
open SqiModel.Fips202 SqiModel.SpongeProg SqiModel.Sponge

def Written (h0 h : List UInt8) (off n : Nat) (bytes : List UInt8) : Prop :=
  h.length = h0.length ∧ ∀ j, h.getD j 0 = if off ≤ j ∧ j < off + n then bytes.getD (j - off) 0 else h0.getD j 0

theorem written_refl (h : List UInt8) (off : Nat) : Written h h off 0 [] := by
  refine ⟨rfl, fun j => ?_⟩
  have : ¬ (off ≤ j ∧ j < off + 0) := by omega
  rw [if_neg this]

theorem written_trans (h0 h1 h2 : List UInt8) (off a b : Nat) (A B : List UInt8) (w1 : Written h0 h1 off a A)
    (hA : A.length = a) (w2 : Written h1 h2 (off + a) b B) : Written h0 h2 off (a + b) (A ++ B) := by
  refine ⟨by rw [w2.1, w1.1], fun j => ?_⟩
  rw [w2.2 j]
  by_cases h2 : off + a ≤ j ∧ j < off + a + b
  · have : off ≤ j ∧ j < off + (a + b) := by omega
    rw [if_pos h2, if_pos this]
    simp only [List.getD_eq_getElem?_getD]
    rw [List.getElem?_append_right (by omega), hA]
    congr 2; omega
  · rw [if_neg h2, w1.2 j]
    by_cases h1 : off ≤ j ∧ j < off + a
    · have : off ≤ j ∧ j < off + (a + b) := by omega
      rw [if_pos h1, if_pos this]
      simp only [List.getD_eq_getElem?_getD]
      rw [List.getElem?_append_left (by omega)]
    · have : ¬ (off ≤ j ∧ j < off + (a + b)) := by omega
      rw [if_neg h1, if_neg this]

/-- `for (i = 0; i < k; i++) h[i] = val(i)` with `h` at offset `off` -/
def osetFrom (val : Nat → UInt8) (off : Nat) : List UInt8 → Nat → Nat → List UInt8
  | h, _, 0 => h
  | h, i, k + 1 => osetFrom val off (h.set (off + i) (val i)) (i + 1) k

theorem osetFrom_length (val : Nat → UInt8) (off : Nat) (h : List UInt8) (i k : Nat) :
    (osetFrom val off h i k).length = h.length := by
  induction k generalizing h i with
  | zero => rfl
  | succ k ih => rw [osetFrom, ih]; simp

theorem osetFrom_getD (val : Nat → UInt8) (off : Nat) (h : List UInt8) (i k j : Nat) :
    (osetFrom val off h i k).getD j 0 = if off + i ≤ j ∧ j < off + i + k ∧ j < h.length then val (j - off) else h.getD j 0 := by
  induction k generalizing h i with
  | zero =>
    have : ¬ (off + i ≤ j ∧ j < off + i + 0 ∧ j < h.length) := by omega
    rw [if_neg this]; rfl
  | succ k ih =>
    rw [osetFrom, ih, getD_set', List.length_set]
    by_cases e : off + i = j
    · subst e
      by_cases hl : off + i < h.length
      · have h1 : ¬ (off + (i + 1) ≤ off + i ∧ off + i < off + (i + 1) + k ∧ off + i < h.length) := by omega
        have h2 : off + i ≤ off + i ∧ off + i < off + i + (k + 1) ∧ off + i < h.length := by omega
        rw [if_neg h1, if_pos h2]; simp [hl]
      · have h1 : ¬ (off + (i + 1) ≤ off + i ∧ off + i < off + (i + 1) + k ∧ off + i < h.length) := by omega
        have h2 : ¬ (off + i ≤ off + i ∧ off + i < off + i + (k + 1) ∧ off + i < h.length) := by omega
        rw [if_neg h1, if_neg h2]; simp [hl]
    · by_cases h1 : off + (i + 1) ≤ j ∧ j < off + (i + 1) + k ∧ j < h.length
      · have h2 : off + i ≤ j ∧ j < off + i + (k + 1) ∧ j < h.length := by omega
        rw [if_pos h1, if_pos h2]
      · have h2 : ¬ (off + i ≤ j ∧ j < off + i + (k + 1) ∧ j < h.length) := by omega
        rw [if_neg h1, if_neg h2]; simp [e]

theorem osetFrom_written (val : Nat → UInt8) (off : Nat) (h : List UInt8) (k : Nat) (hl : off + k ≤ h.length) :
    Written h (osetFrom val off h 0 k) off k ((List.range k).map val) := by
  refine ⟨osetFrom_length .., fun j => ?_⟩
  rw [osetFrom_getD]
  by_cases hc : off ≤ j ∧ j < off + k
  · have : off + 0 ≤ j ∧ j < off + 0 + k ∧ j < h.length := by omega
    rw [if_pos this, if_pos hc]
    simp [List.getD_eq_getElem?_getD, show j - off < k by omega]
  · have : ¬ (off + 0 ≤ j ∧ j < off + 0 + k ∧ j < h.length) := by omega
    rw [if_neg this, if_neg hc]

end SqiProofs.SpongeGen

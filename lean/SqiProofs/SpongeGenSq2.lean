/- C20: store64 and keccak_squeezeblocks, generated = hand model. -/
import SqiProofs.SpongeGenSq

namespace SqiProofs.SpongeGen
open SqiModel.Fips202 SqiModel.SpongeProg SqiModel.Sponge

abbrev SV := SqiGen.Sponge.store64.V
def stepS (v : SV) : SV := { v with x := v.x.set (v.xoff + v.i) ((v.u >>> (8 * v.i).toUInt64).toUInt8), i := v.i + 1 }
theorem sbody1 (F : State → State) (fuel : Nat) (w : SV) : SqiGen.Sponge.store64.body1 F fuel w = some (stepS w) := rfl
theorem iter_stepS (k : Nat) (v : SV) :
    iterN stepS k v = { v with x := osetFrom (fun i => (v.u >>> (8 * i).toUInt64).toUInt8) v.xoff v.x v.i k, i := v.i + k } := by
  induction k generalizing v with
  | zero => rfl
  | succ k ih => rw [iterN, ih]; simp [stepS, osetFrom, Nat.add_assoc, Nat.add_comm 1 k]

theorem store64At_eq (buf : List UInt8) (off : Nat) (u : UInt64) :
    SqiGen.Sponge.store64At buf off u = osetFrom (fun i => (u >>> (8 * i).toUInt64).toUInt8) off buf 0 8 := by
  have := loopO_count (fun w : SV => w.xoff = off ∧ w.u = u) (·.i) 8 (fun v => decide (v.i < 8))
    (SqiGen.Sponge.store64.body1 id 9) stepS (fun _ _ => rfl) (fun w _ _ => sbody1 id 9 w)
    (fun w hw _ => ⟨by simpa [stepS] using hw, rfl⟩) 8 9 { x := buf, xoff := off, u := u, i := 0 } ⟨rfl, rfl⟩ rfl (by decide)
  unfold SqiGen.Sponge.store64At SqiGen.Sponge.store64.run
  simp only [this, iter_stepS]

theorem store64At_written (buf : List UInt8) (off : Nat) (u : UInt64) (hl : off + 8 ≤ buf.length) :
    Written buf (SqiGen.Sponge.store64At buf off u) off 8 (store64 u) := by
  rw [store64At_eq]
  exact osetFrom_written _ off buf 8 hl

/-! ### keccak_squeezeblocks -/
abbrev QV := SqiGen.Sponge.keccak_squeezeblocks.V
def lsFrom : List UInt8 → Nat → State → Nat → Nat → List UInt8
  | h, _, _, _, 0 => h
  | h, hoff, s, i, k + 1 => lsFrom (SqiGen.Sponge.store64At h (hoff + 8 * i) (laneAt s i)) hoff s (i + 1) k

theorem store64_length (u : UInt64) : (store64 u).length = 8 := by simp [store64]

theorem lsFrom_written (hoff : Nat) (s : State) (k : Nat) : ∀ (h : List UInt8) (i : Nat), hoff + 8 * (i + k) ≤ h.length →
    Written h (lsFrom h hoff s i k) (hoff + 8 * i) (8 * k) ((List.range' i k).flatMap fun i => store64 (s.getD i 0)) := by
  induction k with
  | zero => intro h i _; exact written_refl h _
  | succ k ih =>
    intro h i hl
    have w1 := store64At_written h (hoff + 8 * i) (laneAt s i) (by omega)
    have w2 := ih (SqiGen.Sponge.store64At h (hoff + 8 * i) (laneAt s i)) (i + 1) (by rw [w1.1]; omega)
    rw [show hoff + 8 * (i + 1) = hoff + 8 * i + 8 by omega] at w2
    have := written_trans _ _ _ _ _ _ _ _ w1 (store64_length _) w2
    rw [lsFrom, List.range'_succ, List.flatMap_cons, show 8 * (k + 1) = 8 + 8 * k by omega]
    exact this

def stepQ (v : QV) : QV := { v with h := SqiGen.Sponge.store64At v.h (v.hoff + 8 * v.i) (laneAt v.s v.i), i := v.i + 1 }
theorem qbody1 (F : State → State) (fuel : Nat) (w : QV) : SqiGen.Sponge.keccak_squeezeblocks.body1 F fuel w = some (stepQ w) := rfl
theorem iter_stepQ (k : Nat) (v : QV) : iterN stepQ k v = { v with h := lsFrom v.h v.hoff v.s v.i k, i := v.i + k } := by
  induction k generalizing v with
  | zero => rfl
  | succ k ih => rw [iterN, ih]; simp [stepQ, lsFrom, Nat.add_assoc, Nat.add_comm 1 k]

def blkRes (F : State → State) (v : QV) : QV :=
  { v with s := F v.s, h := lsFrom v.h v.hoff (F v.s) 0 (v.r >>> 3), i := v.r >>> 3, hoff := v.hoff + v.r, nblocks := v.nblocks - 1 }

theorem qbody2 (F : State → State) (fuel : Nat) (v : QV) (hf : v.r >>> 3 ≤ fuel) :
    SqiGen.Sponge.keccak_squeezeblocks.body2 F fuel v = some (blkRes F v) := by
  have hl := loopO_count (fun w : QV => w.r = v.r ∧ w.s = F v.s ∧ w.hoff = v.hoff) (·.i) (v.r >>> 3)
    (fun v => decide (v.i < v.r >>> 3)) (SqiGen.Sponge.keccak_squeezeblocks.body1 F fuel) stepQ
    (fun w hw => by rw [hw.1]) (fun w _ _ => qbody1 F fuel w) (fun w hw _ => ⟨by simpa [stepQ] using hw, rfl⟩)
    (v.r >>> 3) fuel { v with s := F v.s, i := 0 } ⟨rfl, rfl, rfl⟩ (by simp) hf
  simp only [SqiGen.Sponge.keccak_squeezeblocks.body2, Option.bind, hl, iter_stepQ, blkRes, Nat.zero_add]

theorem blockBytes_length (s : State) (r : Nat) (h8 : r % 8 = 0) : (blockBytes s r).length = r := by
  rw [SqiProofs.Sponge.blockBytes_eq_truncR s r h8, SqiProofs.Sponge.truncR_length]

/-- **`keccak_squeezeblocks` as re-extracted = the hand model**: the n·r bytes are stored at h … h + n·r, the rest of the buffer
    is untouched, the state is the model's -/
theorem squeezeblocks_eq (F : State → State) (fuel r : Nat) (h8 : r % 8 = 0) (hf : r ≤ fuel) :
    ∀ n (fo : Nat) (v : QV), v.nblocks = n → v.r = r → v.hoff + n * r ≤ v.h.length → n ≤ fo →
      ∃ v', loopO (fun v : QV => decide (v.nblocks > 0)) (SqiGen.Sponge.keccak_squeezeblocks.body2 F fuel) fo v = some v' ∧
        Written v.h v'.h v.hoff (n * r) (squeezeBlocksC F r n v.s).1 ∧ v'.s = (squeezeBlocksC F r n v.s).2 := by
  intro n
  induction n with
  | zero =>
    intro fo v hn _ _ _
    refine ⟨v, ?_, ?_, rfl⟩
    · cases fo <;> simp [loopO, hn]
    · simpa [squeezeBlocksC] using written_refl v.h v.hoff
  | succ n ih =>
    intro fo v hn hr hl hfo
    have e3 : r >>> 3 = r / 8 := (idx_facts r).1
    have hr8 : v.r >>> 3 = r / 8 := by rw [hr]; exact e3
    have hmul : (n + 1) * r = n * r + r := Nat.succ_mul n r
    have hbound : v.hoff + 8 * (0 + v.r >>> 3) ≤ v.h.length := by rw [hr8]; omega
    match fo, hfo with
    | fo + 1, hfo =>
      have hb := qbody2 F fuel v (by rw [hr8]; omega)
      have hlen1 : (blkRes F v).h.length = v.h.length := by
        have := lsFrom_written v.hoff (F v.s) (v.r >>> 3) v.h 0 hbound
        exact this.1
      obtain ⟨v', h1, h2, h3⟩ := ih fo (blkRes F v) (by simp [blkRes, hn]) (by simpa [blkRes] using hr)
        (by rw [hlen1]; simp only [blkRes, hr]; omega) (by omega)
      refine ⟨v', ?_, ?_, ?_⟩
      · simp only [loopO, hn, show n + 1 > 0 by omega, decide_true, if_true, hb]; exact h1
      · have w1 := lsFrom_written v.hoff (F v.s) (v.r >>> 3) v.h 0 hbound
        simp only [Nat.mul_zero, Nat.add_zero, ← List.range_eq_range', hr8] at w1
        have hbl : (blockBytes (F v.s) r).length = 8 * (r / 8) := by rw [blockBytes_length _ _ h8]; omega
        have w2 : Written (blkRes F v).h v'.h (v.hoff + 8 * (r / 8)) (n * r) (squeezeBlocksC F r n (F v.s)).1 := by
          have : v.hoff + 8 * (r / 8) = (blkRes F v).hoff := by simp [blkRes, hr]; omega
          rw [this]; simpa [blkRes] using h2
        have := written_trans _ _ _ _ _ _ _ _ (show Written v.h (blkRes F v).h v.hoff (8 * (r / 8)) (blockBytes (F v.s) r) by
          simpa [blkRes, hr8, blockBytes] using w1) hbl w2
        simp only [squeezeBlocksC]
        rw [show (n + 1) * r = 8 * (r / 8) + n * r by omega]
        exact this
      · simp only [squeezeBlocksC]; simpa [blkRes] using h3

end SqiProofs.SpongeGen

/- C20: keccak_inc_squeeze, generated = hand model. -/
import SqiProofs.SpongeGenSq2

namespace SqiProofs.SpongeGen
open SqiModel.Fips202 SqiModel.SpongeProg SqiModel.Sponge

abbrev IV := SqiGen.Sponge.keccak_inc_squeeze.V

theorem byteC_eq (s : State) (idx : Nat) :
    (laneAt s (idx >>> 3) >>> (8 * (idx &&& 7)).toUInt64).toUInt8 = byteAt s idx := by
  rw [(idx_facts idx).1, (idx_facts idx).2]; rfl

def step1 (v : IV) : IV := { v with h := v.h.set (v.hoff + v.i) (byteAt v.s_inc (v.r - v.pos + v.i)), i := v.i + 1 }
def step2 (v : IV) : IV := { v with h := v.h.set (v.hoff + v.i) (byteAt v.s_inc v.i), i := v.i + 1 }
theorem ibody1 (F : State → State) (fuel : Nat) (w : IV) : SqiGen.Sponge.keccak_inc_squeeze.body1 F fuel w = some (step1 w) := by
  simp only [SqiGen.Sponge.keccak_inc_squeeze.body1, step1, byteC_eq, Option.bind]
theorem ibody2 (F : State → State) (fuel : Nat) (w : IV) : SqiGen.Sponge.keccak_inc_squeeze.body2 F fuel w = some (step2 w) := by
  simp only [SqiGen.Sponge.keccak_inc_squeeze.body2, step2, byteC_eq, Option.bind]

theorem iter_step1 (k : Nat) (v : IV) :
    iterN step1 k v = { v with h := osetFrom (fun i => byteAt v.s_inc (v.r - v.pos + i)) v.hoff v.h v.i k, i := v.i + k } := by
  induction k generalizing v with
  | zero => rfl
  | succ k ih => rw [iterN, ih]; simp [step1, osetFrom, Nat.add_assoc, Nat.add_comm 1 k]
theorem iter_step2 (k : Nat) (v : IV) :
    iterN step2 k v = { v with h := osetFrom (fun i => byteAt v.s_inc i) v.hoff v.h v.i k, i := v.i + k } := by
  induction k generalizing v with
  | zero => rfl
  | succ k ih => rw [iterN, ih]; simp [step2, osetFrom, Nat.add_assoc, Nat.add_comm 1 k]

theorem and_min (i a b : Nat) : (decide (i < a) && decide (i < b)) = decide (i < min a b) := by
  by_cases h1 : i < a <;> by_cases h2 : i < b <;> simp [h1, h2] <;> omega

/-- one iteration of `while (outlen > 0)` -/
def wRes (F : State → State) (v : IV) : IV :=
  { v with s_inc := F v.s_inc, h := osetFrom (fun i => byteAt (F v.s_inc) i) v.hoff v.h 0 (min v.outlen v.r),
           i := min v.outlen v.r, hoff := v.hoff + min v.outlen v.r, outlen := v.outlen - min v.outlen v.r,
           pos := v.r - min v.outlen v.r }

theorem ibody3 (F : State → State) (fuel : Nat) (v : IV) (hf : v.r ≤ fuel) :
    SqiGen.Sponge.keccak_inc_squeeze.body3 F fuel v = some (wRes F v) := by
  have hl := loopO_count (fun w : IV => w.r = v.r ∧ w.outlen = v.outlen ∧ w.s_inc = F v.s_inc ∧ w.hoff = v.hoff) (·.i)
    (min v.outlen v.r) (fun v => (decide (v.i < v.outlen) && decide (v.i < v.r)))
    (SqiGen.Sponge.keccak_inc_squeeze.body2 F fuel) step2
    (fun w hw => by rw [and_min, hw.1, hw.2.1]) (fun w _ _ => ibody2 F fuel w)
    (fun w hw _ => ⟨by simpa [step2] using hw, rfl⟩)
    (min v.outlen v.r) fuel { v with s_inc := F v.s_inc, i := 0 } ⟨rfl, rfl, rfl, rfl⟩ (by simp) (by omega)
  simp only [SqiGen.Sponge.keccak_inc_squeeze.body3, Option.bind, hl, iter_step2, wRes, Nat.zero_add]

theorem while_loop (F : State → State) (r : Nat) (h0 : 0 < r) (B : IV → Option IV) (hB : ∀ v, v.r = r → B v = some (wRes F v)) :
    ∀ n k (v : IV), v.r = r → v.outlen < n → v.outlen < k → v.hoff + v.outlen ≤ v.h.length →
      ∃ v', loopO (fun v : IV => decide (v.outlen > 0)) B n v = some v' ∧
        Written v.h v'.h v.hoff v.outlen (incSqueezeLoop F r k v.outlen ⟨v.s_inc, v.pos⟩).1 ∧
        (⟨v'.s_inc, v'.pos⟩ : IncState) = (incSqueezeLoop F r k v.outlen ⟨v.s_inc, v.pos⟩).2 := by
  intro n
  induction n with
  | zero => intro k v _ h; omega
  | succ n ih =>
    intro k v hr hn hk hl
    match k, hk with
    | k + 1, hk =>
      by_cases hc : v.outlen > 0
      · have hmin1 : 0 < min v.outlen v.r := by rw [hr]; omega
        have hmin2 : min v.outlen v.r ≤ v.outlen := Nat.min_le_left _ _
        have w1 := osetFrom_written (fun i => byteAt (F v.s_inc) i) v.hoff v.h (min v.outlen v.r) (by omega)
        obtain ⟨v', h1, h2, h3⟩ := ih k (wRes F v) (by simpa [wRes] using hr) (by simp [wRes]; omega) (by simp [wRes]; omega)
          (by rw [show (wRes F v).h.length = v.h.length from w1.1]; simp [wRes]; omega)
        refine ⟨v', ?_, ?_, ?_⟩
        · simp only [loopO, hc, decide_true, if_true, hB v hr]; exact h1
        · simp only [incSqueezeLoop, show 0 < v.outlen from hc, if_true]
          have := written_trans _ _ _ _ _ _ _ _ w1 (by simp) (by simpa [wRes, hr] using h2)
          simp only [hr] at this
          rw [show min v.outlen r + (v.outlen - min v.outlen r) = v.outlen by omega] at this
          simpa [hr] using this
        · simp only [incSqueezeLoop, show 0 < v.outlen from hc, if_true]
          simpa [wRes, hr] using h3
      · have hz : v.outlen = 0 := by omega
        refine ⟨v, by simp [loopO, hc], ?_, ?_⟩
        · simp only [incSqueezeLoop, hz]
          simpa using written_refl v.h v.hoff
        · simp [incSqueezeLoop, hz]

/-- **`keccak_inc_squeeze` as re-extracted = the hand model `incSqueeze`**: the bytes are stored at h … h + outlen, the rest of
    the buffer is untouched, lanes and `s_inc[25]` are the model's -/
theorem inc_squeeze_eq (F : State → State) (fuel r : Nat) (h0 : 0 < r) (st : IncState) (hp : st.pos ≤ r) (h : List UInt8)
    (hoff outlen i0 : Nat) (hl : hoff + outlen ≤ h.length) (hf : outlen + r < fuel) :
    ∃ v', SqiGen.Sponge.keccak_inc_squeeze.run F fuel ⟨h, hoff, outlen, st.s, st.pos, r, i0⟩ = some v' ∧
      Written h v'.h hoff outlen (incSqueeze F r st outlen).1 ∧
      (⟨v'.s_inc, v'.pos⟩ : IncState) = (incSqueeze F r st outlen).2 := by
  have hmin : min outlen st.pos ≤ outlen := Nat.min_le_left _ _
  have l1 := loopO_count (fun w : IV => w.r = r ∧ w.outlen = outlen ∧ w.s_inc = st.s ∧ w.hoff = hoff ∧ w.pos = st.pos) (·.i)
    (min outlen st.pos) (fun v => (decide (v.i < v.outlen) && decide (v.i < v.pos)))
    (SqiGen.Sponge.keccak_inc_squeeze.body1 F fuel) step1
    (fun w hw => by rw [and_min, hw.2.1, hw.2.2.2.2]) (fun w _ _ => ibody1 F fuel w)
    (fun w hw _ => ⟨by simpa [step1] using hw, rfl⟩)
    (min outlen st.pos) fuel ⟨h, hoff, outlen, st.s, st.pos, r, 0⟩ ⟨rfl, rfl, rfl, rfl, rfl⟩ (by simp) (by omega)
  rw [iter_step1] at l1
  have w1 := osetFrom_written (fun i => byteAt st.s (r - st.pos + i)) hoff h (min outlen st.pos) (by omega)
  obtain ⟨v', h1, h2, h3⟩ := while_loop F r h0 (SqiGen.Sponge.keccak_inc_squeeze.body3 F fuel)
    (fun v hv => ibody3 F fuel v (by rw [hv]; omega)) fuel (outlen + 1)
    ⟨osetFrom (fun i => byteAt st.s (r - st.pos + i)) hoff h 0 (min outlen st.pos), hoff + (0 + min outlen st.pos),
      outlen - (0 + min outlen st.pos), st.s, st.pos - (0 + min outlen st.pos), r, 0 + min outlen st.pos⟩
    rfl (by simp; omega) (by simp; omega) (by rw [show (osetFrom _ hoff h 0 _).length = h.length from w1.1]; simp; omega)
  refine ⟨v', ?_, ?_, ?_⟩
  · simp only [SqiGen.Sponge.keccak_inc_squeeze.run, Option.bind, l1]
    exact h1
  · unfold incSqueeze
    simp only [Nat.zero_add] at h2
    have := written_trans _ _ _ _ _ _ _ _ w1 (by simp) h2
    rw [show min outlen st.pos + (outlen - min outlen st.pos) = outlen by omega] at this
    exact this
  · unfold incSqueeze
    simp only [Nat.zero_add] at h3
    exact h3

end SqiProofs.SpongeGen

/-
C20 lemmas: byte-wise absorption (`xorBytesAt`, the incremental API) = lane-wise absorption (`xorLanes`, the
one-shot API) = the specification's `xorBlock`, for whole blocks of 8n ≤ 200 bytes.  Core-only.
-/
import SqiProofs.SpongeBits

namespace SqiProofs.Sponge
open SqiModel.Fips202 SqiModel.Sponge

theorem xorBytesAt_append (s : State) (pos : Nat) (a b : List UInt8) :
    xorBytesAt s pos (a ++ b) = xorBytesAt (xorBytesAt s pos a) (pos + a.length) b := by
  induction a generalizing s pos with
  | nil => simp [xorBytesAt]
  | cons x xs ih => simp [xorBytesAt, ih, Nat.add_assoc, Nat.add_comm 1]

/-- Lemma W: eight byte-wise XORs into lane n = one XOR with `load64` -/
theorem xorBytesAt_word (t : State) (n : Nat) (hn : n < 25) (b0 b1 b2 b3 b4 b5 b6 b7 : UInt8) :
    xorBytesAt t (8 * n) [b0, b1, b2, b3, b4, b5, b6, b7]
      = t.set n (t[n] ^^^ load64 [b0, b1, b2, b3, b4, b5, b6, b7]) := by
  have d0 : 8 * n / 8 = n := by omega
  have d1 : (8 * n + 1) / 8 = n := by omega
  have d2 : (8 * n + 1 + 1) / 8 = n := by omega
  have d3 : (8 * n + 1 + 1 + 1) / 8 = n := by omega
  have d4 : (8 * n + 1 + 1 + 1 + 1) / 8 = n := by omega
  have d5 : (8 * n + 1 + 1 + 1 + 1 + 1) / 8 = n := by omega
  have d6 : (8 * n + 1 + 1 + 1 + 1 + 1 + 1) / 8 = n := by omega
  have d7 : (8 * n + 1 + 1 + 1 + 1 + 1 + 1 + 1) / 8 = n := by omega
  have m0 : 8 * n % 8 = 0 := by omega
  have m1 : (8 * n + 1) % 8 = 1 := by omega
  have m2 : (8 * n + 1 + 1) % 8 = 2 := by omega
  have m3 : (8 * n + 1 + 1 + 1) % 8 = 3 := by omega
  have m4 : (8 * n + 1 + 1 + 1 + 1) % 8 = 4 := by omega
  have m5 : (8 * n + 1 + 1 + 1 + 1 + 1) % 8 = 5 := by omega
  have m6 : (8 * n + 1 + 1 + 1 + 1 + 1 + 1) % 8 = 6 := by omega
  have m7 : (8 * n + 1 + 1 + 1 + 1 + 1 + 1 + 1) % 8 = 7 := by omega
  rw [load64_eq_xor]
  simp only [xorBytesAt, xorByteAt, d0, d1, d2, d3, d4, d5, d6, d7, m0, m1, m2, m3, m4, m5, m6, m7, hn, dite_true,
    Vector.getElem_set_self, Vector.set_set, cB]
  congr 1
  simp [UInt64.xor_assoc]

theorem xorBytesAt_word' (t : State) (n : Nat) (hn : n < 25) (w : List UInt8) (hw : w.length = 8) :
    xorBytesAt t (8 * n) w = t.set n (t[n] ^^^ load64 w) := by
  match w, hw with
  | [b0, b1, b2, b3, b4, b5, b6, b7], _ => exact xorBytesAt_word t n hn b0 b1 b2 b3 b4 b5 b6 b7

/-- `load64` reads only the first 8 bytes -/
theorem load64_take (x : List UInt8) (k : Nat) (hk : 8 ≤ k) : load64 (x.take k) = load64 x := by
  have g : ∀ i, i < 8 → (x.take k).getD i 0 = x.getD i 0 := by
    intro i hi
    simp [List.getD_eq_getElem?_getD, List.getElem?_take, show i < k by omega]
  rw [load64_unfold, load64_unfold]
  simp only [cB, g 0 (by omega), g 1 (by omega), g 2 (by omega), g 3 (by omega), g 4 (by omega), g 5 (by omega),
    g 6 (by omega), g 7 (by omega)]

theorem xorLanes_succ (s : State) (m : List UInt8) (n : Nat) :
    xorLanes s m (n + 1) =
      (if h : n < 25 then (xorLanes s m n).set n ((xorLanes s m n)[n] ^^^ load64 (m.drop (8 * n))) else xorLanes s m n) := by
  simp [xorLanes, List.range_succ, List.foldl_append]

theorem xorLanes_zero (s : State) (m : List UInt8) : xorLanes s m 0 = s := by
  simp [xorLanes]

/-- L1: byte-wise XOR of the first 8n bytes = lane-wise XOR of n lanes -/
theorem xorBytesAt_eq_xorLanes (s : State) (m : List UInt8) (n : Nat) (hn : n ≤ 25) (hm : 8 * n ≤ m.length) :
    xorBytesAt s 0 (m.take (8 * n)) = xorLanes s m n := by
  induction n with
  | zero => simp [xorBytesAt, xorLanes_zero]
  | succ n ih =>
    have e : m.take (8 * (n + 1)) = m.take (8 * n) ++ (m.drop (8 * n)).take 8 := by
      rw [show 8 * (n + 1) = 8 * n + 8 by omega, List.take_add]
    have hl : (m.take (8 * n)).length = 8 * n := by simp; omega
    have hw : ((m.drop (8 * n)).take 8).length = 8 := by simp; omega
    rw [e, xorBytesAt_append, ih (by omega) (by omega), hl, Nat.zero_add,
      xorBytesAt_word' _ n (by omega) _ hw, load64_take _ 8 (by omega), xorLanes_succ]
    simp [show n < 25 by omega]

/-- L2: lane j after `xorLanes … n` -/
theorem xorLanes_getElem (s : State) (m : List UInt8) (n : Nat) (hn : n ≤ 25) (j : Nat) (hj : j < 25) :
    (xorLanes s m n)[j] = if j < n then s[j] ^^^ load64 (m.drop (8 * j)) else s[j] := by
  induction n with
  | zero => simp [xorLanes_zero]
  | succ n ih =>
    have hn' : n < 25 := by omega
    rw [xorLanes_succ]
    simp only [hn', dite_true, Vector.getElem_set]
    by_cases e : n = j
    · subst e; simp [ih (by omega)]
    · simp only [e, if_false, ih (by omega)]
      by_cases h1 : j < n
      · simp [h1, show j < n + 1 by omega]
      · simp [h1, show ¬ j < n + 1 by omega]

theorem xorBlock_getElem (s : State) (blk : List UInt8) (j : Nat) (hj : j < 25) :
    (xorBlock s blk)[j] = if 8 * j < blk.length then s[j] ^^^ le64 (blk.drop (8 * j)) else s[j] := by
  unfold xorBlock
  rw [SqiProofs.Keccak.mk25_getElem _ j hj]
  simp [Vector.getD, hj]

theorem load64_eq_le64 (x : List UInt8) : load64 x = le64 x := rfl

/-- L4: the one-shot lane loop on a message of at least r bytes = the specification's block XOR of its first r bytes -/
theorem xorLanes_eq_xorBlock (s : State) (m : List UInt8) (r : Nat) (h8 : r % 8 = 0) (hr : r ≤ 200)
    (hm : r ≤ m.length) : xorLanes s m (r / 8) = xorBlock s (m.take r) := by
  apply Vector.ext
  intro j hj
  rw [xorLanes_getElem s m (r / 8) (by omega) j hj, xorBlock_getElem s _ j hj]
  have hl : (m.take r).length = r := by simp; omega
  rw [hl]
  by_cases h : j < r / 8
  · have h' : 8 * j < r := by omega
    simp only [h, h', if_true]
    congr 1
    rw [← load64_eq_le64, ← load64_take (m.drop (8 * j)) 8 (by omega), ← load64_take ((m.take r).drop (8 * j)) 8 (by omega)]
    congr 1
    rw [List.drop_take, List.take_take]
    congr 1
    omega
  · have h' : ¬ 8 * j < r := by omega
    simp [h, h']

/-- L5: byte-wise XOR of a whole block of r = 8n ≤ 200 bytes at position 0 = the specification's block XOR -/
theorem xorBytesAt_eq_xorBlock (s : State) (blk : List UInt8) (r : Nat) (h8 : r % 8 = 0) (hr : r ≤ 200)
    (hl : blk.length = r) : xorBytesAt s 0 blk = xorBlock s blk := by
  have e : blk = blk.take (8 * (r / 8)) := by
    rw [List.take_of_length_le]; omega
  have h1 := xorBytesAt_eq_xorLanes s blk (r / 8) (by omega) (by omega)
  rw [← e] at h1
  rw [h1, xorLanes_eq_xorBlock s blk r h8 hr (by omega), List.take_of_length_le (by omega)]

end SqiProofs.Sponge

/-
C20 lemmas: the sponge model of fips202.c (one-shot and incremental API) equals the FIPS 202 sponge
construction, for every permutation f, every rate r with 0 < r ≤ 200, 8 ∣ r, every domain byte below 0x80,
every message, chunking, output length and split of the output request.  Core-only.
-/
import SqiProofs.SpongeSqueeze

namespace SqiProofs.Sponge
open SqiModel.Fips202 SqiModel.Sponge

variable (f : State → State)

theorem fpow_comm (n : Nat) (s : State) : fpow f n (f s) = f (fpow f n s) := by
  induction n generalizing s with
  | zero => rfl
  | succ n ih => simp [fpow, ih]

theorem ceil_div_of_mod_eq_zero (n r : Nat) (h0 : 0 < r) (h : n % r = 0) : (n + r - 1) / r = n / r := by
  have e := Nat.div_add_mod n r
  have : n + r - 1 = r * (n / r) + (r - 1) := by omega
  have h1 : (r - 1) / r = 0 := (Nat.div_eq_zero_iff_lt h0).mpr (by omega)
  rw [this, Nat.mul_add_div h0, h1]; rfl

theorem ceil_div_of_mod_ne_zero (n r : Nat) (h0 : 0 < r) (h : n % r ≠ 0) : (n + r - 1) / r = n / r + 1 := by
  have e := Nat.div_add_mod n r
  have hl := Nat.mod_lt n h0
  have : n + r - 1 = r * (n / r + 1) + (n % r - 1) := by rw [Nat.mul_add, Nat.mul_one]; omega
  have h1 : (n % r - 1) / r = 0 := (Nat.div_eq_zero_iff_lt h0).mpr (by omega)
  rw [this, Nat.mul_add_div h0, h1]

/-- spongeWith in terms of `specAbsorbPre` -/
theorem spongeWith_eq (r : Nat) (h0 : 0 < r) (d : UInt8) (msg : List UInt8) (n : Nat) :
    spongeWith f r d msg n = (squeezeBlocks f r ((n + r - 1) / r) (f (specAbsorbPre f r d msg))).take n := by
  unfold spongeWith
  simp only
  rw [spec_absorb_eq f r d msg h0]

/-- M1: the one-shot `shake128` / `shake256` call sequence = SPONGE[f, pad10*1, r](msg ‖ suffix, n) -/
theorem oneShot_eq_spec (r : Nat) (h0 : 0 < r) (h8 : r % 8 = 0) (hr : r ≤ 200) (d : UInt8)
    (msg : List UInt8) (n : Nat) : shakeOneShot f r d r r msg n = spongeWith f r d msg n := by
  rw [spongeWith_eq f r h0]
  unfold shakeOneShot
  simp only [keccakAbsorb_eq f r h0 h8 hr, squeezeBlocksC_eq f r h8]
  have e := Nat.div_add_mod n r
  have hrem : n - n / r * r = n % r := by rw [Nat.mul_comm]; omega
  have hlen := squeezeBlocks_length f r (n / r) (f (specAbsorbPre f r d msg))
  rw [hrem]
  by_cases hz : n % r = 0
  · simp only [hz, ne_eq, not_true_eq_false, if_false]
    rw [ceil_div_of_mod_eq_zero n r h0 hz, List.take_of_length_le]
    rw [hlen, Nat.mul_comm]; omega
  · simp only [hz, ne_eq, not_false_eq_true, if_true]
    have hA : (squeezeBlocks f r (n / r) (f (specAbsorbPre f r d msg))).take n
        = squeezeBlocks f r (n / r) (f (specAbsorbPre f r d msg)) :=
      List.take_of_length_le (by rw [hlen, Nat.mul_comm]; omega)
    rw [ceil_div_of_mod_ne_zero n r h0 hz, squeezeBlocks_add, List.take_append, hA, hlen, fpow_comm, hrem]

/-- M2: a whole incremental session = the same sponge output, for any chunking and any split of the request -/
theorem incSession_eq_spec (r : Nat) (h0 : 0 < r) (h8 : r % 8 = 0) (hr : r ≤ 200) (d : UInt8)
    (hd : d ||| 128 = d ^^^ 128) (chunks : List (List UInt8)) (reqs : List Nat) :
    (incSession f r r r d chunks reqs).1 = spongeWith f r d chunks.flatten reqs.sum := by
  unfold incSession
  rw [incFinal_eq f r h0 h8 hr d hd chunks, incSqueezeMany_eq f r h0 _ reqs (by simpa using h0),
    sqBytes_eq_spec f r h0, spongeWith_eq f r h0]

/-- M3: absorbing any chunking then finalizing = one-shot absorption of the concatenation -/
theorem absorb_chunks (r : Nat) (h0 : 0 < r) (h8 : r % 8 = 0) (hr : r ≤ 200) (d : UInt8)
    (hd : d ||| 128 = d ^^^ 128) (chunks : List (List UInt8)) :
    incFinalize r d (incAbsorbMany f r incInit chunks) = ⟨keccakAbsorb f r chunks.flatten d, 0⟩ := by
  rw [incFinal_eq f r h0 h8 hr d hd chunks, keccakAbsorb_eq f r h0 h8 hr]

/-- the invariant `s_inc[25] < r` holds after any absorb sequence from `keccak_inc_init` -/
theorem absorb_pos_lt (r : Nat) (h0 : 0 < r) (chunks : List (List UInt8)) :
    (incAbsorbMany f r incInit chunks).pos < r := by
  rw [incAbsorbMany_eq f r incInit chunks (by simpa [incInit] using h0)]
  exact abBytes_pos_lt f r _ _ (by simpa [incInit] using h0)

/-- M4: any split of the output request yields the same stream and the same final state as one request -/
theorem squeeze_chunks (r : Nat) (h0 : 0 < r) (st : IncState) (hp : st.pos < r) (ns : List Nat) :
    incSqueezeMany f r st ns = incSqueeze f r st ns.sum := by
  rw [incSqueezeMany_eq f r h0 st ns hp, incSqueeze_eq f r h0 st ns.sum hp]

/-- … in particular a shorter request returns a prefix of a longer one -/
theorem squeeze_prefix (r : Nat) (h0 : 0 < r) (st : IncState) (hp : st.pos < r) (a b : Nat) :
    (incSqueeze f r st a).1 = ((incSqueeze f r st (a + b)).1).take a := by
  rw [incSqueeze_eq f r h0 st a hp, incSqueeze_eq f r h0 st (a + b) hp, sqBytes_add]
  have hl : ∀ n st, (sqBytes f r n st).1.length = n := by
    intro n
    induction n with
    | zero => intro st; simp [sqBytes]
    | succ n ih => intro st; simp [sqBytes, ih]
  simp [hl]

end SqiProofs.Sponge

/-
C20 lemmas, squeeze phase: `keccak_squeezeblocks` = the specification's block stream; the C-shaped
`keccak_inc_squeeze` = a byte-at-a-time stream (`sqBytes`), hence any split of the output request yields
the same stream; that stream is the specification's.  Core-only, no bit-level reasoning.
-/
import SqiProofs.SpongeFinal

namespace SqiProofs.Sponge
open SqiModel.Fips202 SqiModel.Sponge

variable (f : State → State)

def fpow : Nat → State → State
  | 0, s => s
  | n + 1, s => fpow n (f s)

theorem range_flatMap8 {α : Type} (n : Nat) (g : Nat → α) :
    (List.range n).flatMap (fun i => (List.range 8).map (fun k => g (8 * i + k))) = (List.range (8 * n)).map g := by
  induction n with
  | zero => simp
  | succ n ih =>
    rw [show List.range (n + 1) = List.range n ++ [n] from List.range_succ, List.flatMap_append, ih,
      show 8 * (n + 1) = 8 * n + 8 by omega, List.range_add, List.map_append]
    simp

theorem store64_eq (s : State) (i : Nat) :
    store64 (s.getD i 0) = (List.range 8).map (fun k => stateByte s (8 * i + k)) := by
  unfold store64
  apply List.map_congr_left
  intro k hk
  have hk' : k < 8 := List.mem_range.mp hk
  have e1 : (8 * i + k) / 8 = i := by omega
  have e2 : (8 * i + k) % 8 = k := by omega
  simp [stateByte, laneByte, e1, e2]

/-- S1: one block of `keccak_squeezeblocks` = the first r bytes of the state string -/
theorem blockBytes_eq_truncR (s : State) (r : Nat) (h8 : r % 8 = 0) : blockBytes s r = truncR r s := by
  unfold blockBytes truncR
  have : (fun i => store64 (s.getD i 0)) = fun i => (List.range 8).map (fun k => stateByte s (8 * i + k)) := by
    funext i; exact store64_eq s i
  rw [this, range_flatMap8, show 8 * (r / 8) = r by omega]

/-- S2: `keccak_squeezeblocks` -/
theorem squeezeBlocksC_eq (r : Nat) (h8 : r % 8 = 0) (n : Nat) (s : State) :
    squeezeBlocksC f r n s = (squeezeBlocks f r n (f s), fpow f n s) := by
  induction n generalizing s with
  | zero => simp [squeezeBlocksC, squeezeBlocks, fpow]
  | succ n ih => simp [squeezeBlocksC, squeezeBlocks, fpow, ih, blockBytes_eq_truncR _ r h8]

theorem truncR_length (r : Nat) (s : State) : (truncR r s).length = r := by simp [truncR]

theorem squeezeBlocks_length (r n : Nat) (s : State) : (squeezeBlocks f r n s).length = n * r := by
  induction n generalizing s with
  | zero => simp [squeezeBlocks]
  | succ n ih => simp [squeezeBlocks, truncR_length, ih, Nat.succ_mul]; omega

theorem squeezeBlocks_add (r a b : Nat) (s : State) :
    squeezeBlocks f r (a + b) s = squeezeBlocks f r a s ++ squeezeBlocks f r b (fpow f a s) := by
  induction a generalizing s with
  | zero => simp [squeezeBlocks, fpow]
  | succ a ih => rw [show a + 1 + b = (a + b) + 1 by omega]; simp [squeezeBlocks, fpow, ih]

/-! ### byte-at-a-time squeeze -/
def sqByte (r : Nat) (st : IncState) : UInt8 × IncState :=
  if st.pos = 0 then (byteAt (f st.s) 0, ⟨f st.s, r - 1⟩) else (byteAt st.s (r - st.pos), ⟨st.s, st.pos - 1⟩)

def sqBytes (r : Nat) : Nat → IncState → List UInt8 × IncState
  | 0, st => ([], st)
  | n + 1, st => ((sqByte f r st).1 :: (sqBytes r n (sqByte f r st).2).1, (sqBytes r n (sqByte f r st).2).2)

theorem sqBytes_add (r a b : Nat) (st : IncState) :
    sqBytes f r (a + b) st = ((sqBytes f r a st).1 ++ (sqBytes f r b (sqBytes f r a st).2).1,
      (sqBytes f r b (sqBytes f r a st).2).2) := by
  induction a generalizing st with
  | zero => simp [sqBytes]
  | succ a ih => rw [show a + 1 + b = (a + b) + 1 by omega]; simp [sqBytes, ih]

theorem sqBytes_avail (r k : Nat) (st : IncState) (hk : k ≤ st.pos) (hp : st.pos ≤ r) :
    sqBytes f r k st = ((List.range k).map (fun j => byteAt st.s (r - st.pos + j)), ⟨st.s, st.pos - k⟩) := by
  induction k generalizing st with
  | zero => simp [sqBytes]
  | succ k ih =>
    have hne : ¬ st.pos = 0 := by omega
    have := ih ⟨st.s, st.pos - 1⟩ (by simp; omega) (by simp; omega)
    simp only [sqBytes, sqByte, hne, if_false, this, List.range_succ_eq_map, List.map_cons, List.map_map]
    refine Prod.ext ?_ ?_
    · simp only [Nat.add_zero, List.cons.injEq, true_and]
      apply List.map_congr_left
      intro j _
      simp only [Function.comp]
      congr 1; omega
    · simp; omega

theorem sqBytes_block (r n : Nat) (s : State) (h1 : 0 < n) (h2 : n ≤ r) :
    sqBytes f r n ⟨s, 0⟩ = ((List.range n).map (byteAt (f s)), ⟨f s, r - n⟩) := by
  obtain ⟨k, rfl⟩ : ∃ k, n = k + 1 := ⟨n - 1, by omega⟩
  have := sqBytes_avail f r k ⟨f s, r - 1⟩ (by simp; omega) (by simp)
  simp only [sqBytes, sqByte, if_true, this, List.range_succ_eq_map, List.map_cons, List.map_map]
  refine Prod.ext ?_ ?_
  · simp only [List.cons.injEq, true_and]
    apply List.map_congr_left
    intro j _
    simp only [Function.comp]
    congr 1; omega
  · simp; omega

theorem sqBytes_pos_lt (r n : Nat) (st : IncState) (hp : st.pos < r) : (sqBytes f r n st).2.pos < r := by
  induction n generalizing st with
  | zero => simpa [sqBytes]
  | succ n ih =>
    simp only [sqBytes]
    apply ih
    unfold sqByte
    split <;> simp <;> omega

/-- the `while (outlen > 0)` loop of keccak_inc_squeeze = the byte stream started from an exhausted block -/
theorem incSqueezeLoop_eq (r : Nat) (h0 : 0 < r) (fuel outlen : Nat) (s : State) (q : Nat) (hf : outlen < fuel) :
    incSqueezeLoop f r fuel outlen ⟨s, q⟩ =
      if outlen = 0 then ([], ⟨s, q⟩) else sqBytes f r outlen ⟨s, 0⟩ := by
  induction fuel generalizing outlen s q with
  | zero => omega
  | succ fuel ih =>
    unfold incSqueezeLoop
    by_cases hz : outlen = 0
    · simp [hz]
    · have hpos : 0 < outlen := by omega
      have hi1 : 0 < min outlen r := by omega
      have hi2 : min outlen r ≤ r := by omega
      simp only [hpos, if_true, hz, if_false]
      rw [ih (outlen - min outlen r) (f s) (r - min outlen r) (by omega)]
      have hsplit : outlen = min outlen r + (outlen - min outlen r) := by omega
      conv => rhs; rw [hsplit, sqBytes_add, sqBytes_block f r _ s hi1 hi2]
      by_cases hd : outlen - min outlen r = 0
      · simp [hd, sqBytes]
      · have : r - min outlen r = 0 := by omega
        simp [hd, this]

/-- `keccak_inc_squeeze` = the byte stream (under the invariant `s_inc[25] < r`) -/
theorem incSqueeze_eq (r : Nat) (h0 : 0 < r) (st : IncState) (n : Nat) (hp : st.pos < r) :
    incSqueeze f r st n = sqBytes f r n st := by
  unfold incSqueeze
  simp only
  rw [incSqueezeLoop_eq f r h0 (n + 1) (n - min n st.pos) st.s (st.pos - min n st.pos) (by omega)]
  have hsplit : n = min n st.pos + (n - min n st.pos) := by omega
  conv => rhs; rw [hsplit, sqBytes_add, sqBytes_avail f r (min n st.pos) st (by omega) (by omega)]
  by_cases hd : n - min n st.pos = 0
  · simp [hd, sqBytes]
  · have : st.pos - min n st.pos = 0 := by omega
    simp [hd, this]

/-- any split of the output request yields the same stream -/
theorem incSqueezeMany_eq (r : Nat) (h0 : 0 < r) (st : IncState) (ns : List Nat) (hp : st.pos < r) :
    incSqueezeMany f r st ns = sqBytes f r ns.sum st := by
  induction ns generalizing st with
  | nil => simp [incSqueezeMany, sqBytes]
  | cons n ns ih =>
    simp only [incSqueezeMany, List.sum_cons]
    rw [incSqueeze_eq f r h0 st n hp, sqBytes_add, ih _ (sqBytes_pos_lt f r n st hp)]

/-- S4: the byte stream from a finalized state is the specification's squeezing phase -/
theorem sqBytes_eq_spec (r : Nat) (h0 : 0 < r) (n : Nat) (s : State) :
    (sqBytes f r n ⟨s, 0⟩).1 = (squeezeBlocks f r ((n + r - 1) / r) (f s)).take n := by
  induction n using Nat.strongRecOn generalizing s with
  | _ n ih =>
    by_cases hz : n = 0
    · subst hz; simp [sqBytes]
    · by_cases hle : n ≤ r
      · have hq : (n + r - 1) / r = 1 := by
          have : (n + r - 1) / r = (n - 1) / r + 1 := by
            rw [show n + r - 1 = (n - 1) + r by omega, Nat.add_div_right _ h0]
          rw [this, (Nat.div_eq_zero_iff_lt h0).mpr (by omega)]
        rw [sqBytes_block f r n s (by omega) hle, hq]
        simp only [squeezeBlocks, List.append_nil, truncR]
        rw [← List.map_take, List.take_range, Nat.min_eq_left hle]
        rfl
      · have hq : (n + r - 1) / r = (n - r + r - 1) / r + 1 := by
          rw [show n + r - 1 = (n - r + r - 1) + r by omega, Nat.add_div_right _ h0]
        have hsplit : n = r + (n - r) := by omega
        conv => lhs; rw [hsplit, sqBytes_add, sqBytes_block f r r s h0 (Nat.le_refl r)]
        simp only [Nat.sub_self]
        rw [ih (n - r) (by omega) (f s), hq]
        simp only [squeezeBlocks]
        rw [List.take_append, truncR_length]
        congr 1
        · have : (List.range r).map (byteAt (f s)) = truncR r (f s) := rfl
          rw [this, List.take_of_length_le (by rw [truncR_length]; omega)]

end SqiProofs.Sponge

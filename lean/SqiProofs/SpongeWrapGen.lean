/- C20: `keccak_inc_init` and the one-call `shake*_inc_*` wrappers, generated (SqiGen/SpongeWrap.lean) = hand model. -/
import SqiGen.SpongeWrap
import SqiProofs.SpongeGen4
import SqiProofs.SpongeGenSq3

namespace SqiProofs.SpongeGen
open SqiModel.Fips202 SqiModel.SpongeProg SqiModel.Sponge

abbrev NV := SqiGen.Sponge.keccak_inc_init.V

def stepN (v : NV) : NV := { v with s_inc := setLaneAt v.s_inc v.i 0, i := v.i + 1 }

theorem iter_stepN (k : Nat) (v : NV) : iterN stepN k v = { v with s_inc := zeroFrom v.s_inc v.i k, i := v.i + k } := by
  induction k generalizing v with
  | zero => rfl
  | succ k ih => rw [iterN, ih]; simp [stepN, zeroFrom, Nat.add_assoc, Nat.add_comm 1 k]

theorem nbody1 (F : State → State) (fuel : Nat) (w : NV) : SqiGen.Sponge.keccak_inc_init.body1 F fuel w = some (stepN w) := rfl

/-- `keccak_inc_init`: whatever the memory contained, afterwards the 25 lanes and `s_inc[25]` are the model's `incInit` -/
theorem inc_init_eq (F : State → State) (fuel : Nat) (s0 : State) (p0 i0 : Nat) (hf : 25 ≤ fuel) :
    SqiGen.Sponge.keccak_inc_init.run F fuel ⟨s0, p0, i0⟩ = some ⟨incInit.s, incInit.pos, 25⟩ := by
  have l1 := loopO_count (fun _ : NV => True) (·.i) 25 (fun v => decide (v.i < 25))
    (SqiGen.Sponge.keccak_inc_init.body1 F fuel) stepN (fun _ _ => rfl) (fun w _ _ => nbody1 F fuel w)
    (fun _ _ _ => ⟨trivial, rfl⟩) 25 fuel (⟨s0, p0, 0⟩ : NV) trivial rfl hf
  rw [iter_stepN] at l1
  simp only [Nat.zero_add, zeroFrom_all] at l1
  simp only [SqiGen.Sponge.keccak_inc_init.run, l1, Option.bind, incInit]

end SqiProofs.SpongeGen

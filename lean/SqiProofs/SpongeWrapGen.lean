/- C20: `keccak_inc_init` and the one-call `shake*_inc_*` wrappers, generated (SqiGen/SpongeWrap.lean) = hand model. -/
import SqiGen.SpongeWrap
import SqiProofs.SpongeGen4
import SqiProofs.SpongeGenSq3

namespace SqiProofs.SpongeGen
open SqiModel.Fips202 SqiModel.SpongeProg SqiModel.Sponge

abbrev NV := SqiGen.Sponge.keccak_inc_init.V

def stepN (v : NV) : NV := { v with s_inc := setLaneAt v.s_inc v.i 0, i := v.i + 1 }

theorem iter_stepN (k : Nat) (v : NV) : iterN stepN k v = { v with s_inc := zeroFrom v.s_inc v.i k, i := v.i + k } := by
  induction k generalizing v with
  | zero => rfl
  | succ k ih => rw [iterN, ih]; simp [stepN, zeroFrom, Nat.add_assoc, Nat.add_comm 1 k]

theorem nbody1 (F : State → State) (fuel : Nat) (w : NV) : SqiGen.Sponge.keccak_inc_init.body1 F fuel w = some (stepN w) := rfl

/-- `keccak_inc_init`: whatever the memory contained, afterwards the 25 lanes and `s_inc[25]` are the model's `incInit` -/
theorem inc_init_eq (F : State → State) (fuel : Nat) (s0 : State) (p0 i0 : Nat) (hf : 25 ≤ fuel) :
    SqiGen.Sponge.keccak_inc_init.run F fuel ⟨s0, p0, i0⟩ = some ⟨incInit.s, incInit.pos, 25⟩ := by
  have l1 := loopO_count (fun _ : NV => True) (·.i) 25 (fun v => decide (v.i < 25))
    (SqiGen.Sponge.keccak_inc_init.body1 F fuel) stepN (fun _ _ => rfl) (fun w _ _ => nbody1 F fuel w)
    (fun _ _ _ => ⟨trivial, rfl⟩) 25 fuel (⟨s0, p0, 0⟩ : NV) trivial rfl hf
  rw [iter_stepN] at l1
  simp only [Nat.zero_add, zeroFrom_all] at l1
  simp only [SqiGen.Sponge.keccak_inc_init.run, l1, Option.bind, incInit]

theorem sqC_length (F : State → State) (r : Nat) (h8 : r % 8 = 0) (n : Nat) (s : State) :
    (squeezeBlocksC F r n s).1.length = n * r := by
  rw [SqiProofs.Sponge.squeezeBlocksC_eq F r h8]; exact SqiProofs.Sponge.squeezeBlocks_length F r n _

theorem range_map_getD (t : List UInt8) (k : Nat) (hk : k ≤ t.length) :
    (List.range k).map (fun i => t.getD i 0) = t.take k := by
  apply List.ext_getElem
  · simp [Nat.min_eq_left hk]
  · intro i h1 h2
    simp at h1
    simp [List.getD_eq_getElem?_getD, List.getElem?_eq_getElem (show i < t.length by omega)]

theorem shakeOneShot_unfold (F : State → State) (r : Nat) (d : UInt8) (m : List UInt8) (outlen : Nat) :
    shakeOneShot F r d r r m outlen =
      if outlen - outlen / r * r ≠ 0 then
        (squeezeBlocksC F r (outlen / r) (keccakAbsorb F r m d)).1
          ++ (squeezeBlocksC F r 1 (squeezeBlocksC F r (outlen / r) (keccakAbsorb F r m d)).2).1.take (outlen - outlen / r * r)
      else (squeezeBlocksC F r (outlen / r) (keccakAbsorb F r m d)).1 := by
  unfold shakeOneShot
  rfl

/-! ### the one-shot `shake256` -/
theorem obody256 (F : State → State) (fuel : Nat) (w : SqiGen.Sponge.shake256.V) :
    SqiGen.Sponge.shake256.body1 F fuel w
      = some { w with output := w.output.set (w.outputoff + w.i) (w.t.getD w.i 0), i := w.i + 1 } := rfl

theorem iter_stepO256 (k : Nat) (v : SqiGen.Sponge.shake256.V) :
    iterN (fun w : SqiGen.Sponge.shake256.V => { w with output := w.output.set (w.outputoff + w.i) (w.t.getD w.i 0), i := w.i + 1 }) k v
      = { v with output := osetFrom (fun i => v.t.getD i 0) v.outputoff v.output v.i k, i := v.i + k } := by
  induction k generalizing v with
  | zero => rfl
  | succ k ih => rw [iterN, ih]; simp [osetFrom, Nat.add_assoc, Nat.add_comm 1 k]

/-- the re-extracted one-shot `shake256` (absorb wrapper, whole blocks, tail through the stack block `t`, copy loop) writes exactly
    the model's `shakeOneShot` bytes at `h + hoff` and leaves the rest of `h` unchanged, whatever the uninitialised memory holds -/
theorem shake256_oneshot_eq (F : State → State) (fuel : Nat) (h : List UInt8) (hoff outlen : Nat) (m : List UInt8)
    (s0 : State) (t0 : List UInt8) (ia : Nat) (ta : List UInt8) (iq1 iq2 ic : Nat)
    (ht0 : t0.length = SqiGen.Sponge.shake256.tlen) (hta : ta.length = 200) (hl : hoff + outlen ≤ h.length)
    (hf : m.length + outlen + 200 < fuel) :
    ∃ h', SqiGen.Sponge.shake256.run F fuel h hoff outlen m m.length s0 t0 ia ta iq1 iq2 ic = some h' ∧
      Written h h' hoff outlen (shakeOneShot F 136 0x1F 136 136 m outlen) := by
  have ht0' : t0.length = 136 := ht0
  obtain ⟨a, ha, has⟩ := keccak_absorb_eq F fuel 136 m 0x1F s0 ta ia hta (by decide) (by decide) (by omega)
  have hdiv : outlen / 136 * 136 ≤ outlen := Nat.div_mul_le_self outlen 136
  obtain ⟨q, hq, hqw, hqs⟩ := squeezeblocks_eq F fuel 136 (by decide) (by omega) (outlen / 136) fuel
    (⟨h, hoff, outlen / 136, a.s, 136, iq1⟩ : QV) rfl rfl (by show hoff + outlen / 136 * 136 ≤ h.length; omega) (by omega)
  have e1 : SqiGen.Sponge.shake256_absorb.run F fuel s0 m m.length ia ta = some a := ha
  have e2 : SqiGen.Sponge.shake256_squeezeblocks.run F fuel h hoff (outlen / 136) a.s iq1 = some q := hq
  have hA := sqC_length F 136 (by decide) (outlen / 136) a.s
  simp only at hqw hqs
  rw [shakeOneShot_unfold, ← has]
  unfold SqiGen.Sponge.shake256.run
  simp only [e1, e2, Option.bind]
  by_cases hrem : outlen - outlen / 136 * 136 ≠ 0
  · rw [if_pos hrem, if_pos hrem]
    obtain ⟨q2, hq2, hq2w, _⟩ := squeezeblocks_eq F fuel 136 (by decide) (by omega) 1 fuel
      (⟨t0, 0, 1, q.s, 136, iq2⟩ : QV) rfl rfl (by show 0 + 1 * 136 ≤ t0.length; omega) (by omega)
    have e3 : SqiGen.Sponge.shake256_squeezeblocks.run F fuel t0 0 1 q.s iq2 = some q2 := hq2
    simp only at hq2w
    simp only [e3]
    have l := loopO_count (fun w : SqiGen.Sponge.shake256.V => w.outlen = outlen - outlen / 136 * 136) (·.i)
      (outlen - outlen / 136 * 136) (fun v => decide (v.i < v.outlen)) (SqiGen.Sponge.shake256.body1 F fuel) _
      (fun w hw => by rw [hw]) (fun w _ _ => obody256 F fuel w) (fun w hw _ => ⟨hw, rfl⟩) (outlen - outlen / 136 * 136) fuel
      (⟨q.h, hoff + outlen / 136 * 136, outlen - outlen / 136 * 136, q2.h, 0⟩ : SqiGen.Sponge.shake256.V) rfl (by simp) (by omega)
    rw [iter_stepO256] at l
    simp only [l]
    refine ⟨_, rfl, ?_⟩
    have hB1 := sqC_length F 136 (by decide) 1 q.s
    have w2 := osetFrom_written (fun i => q2.h.getD i 0) (hoff + outlen / 136 * 136) q.h (outlen - outlen / 136 * 136)
      (by rw [hqw.1]; omega)
    have hmap : (List.range (outlen - outlen / 136 * 136)).map (fun i => q2.h.getD i 0)
        = (squeezeBlocksC F 136 1 q.s).1.take (outlen - outlen / 136 * 136) := by
      rw [← range_map_getD _ _ (by rw [hB1]; omega)]
      apply List.map_congr_left
      intro i hi
      have hi' := List.mem_range.mp hi
      rw [hq2w.2 i, if_pos (by omega), Nat.sub_zero]
    rw [hmap, hqs] at w2
    have := written_trans h q.h _ hoff (outlen / 136 * 136) (outlen - outlen / 136 * 136) _ _ hqw hA w2
    rwa [show outlen / 136 * 136 + (outlen - outlen / 136 * 136) = outlen by omega] at this
  · rw [if_neg hrem, if_neg hrem]
    refine ⟨_, rfl, ?_⟩
    rwa [show outlen / 136 * 136 = outlen by omega] at hqw

/-! ### the one-shot `shake128` -/
theorem obody128 (F : State → State) (fuel : Nat) (w : SqiGen.Sponge.shake128.V) :
    SqiGen.Sponge.shake128.body1 F fuel w
      = some { w with output := w.output.set (w.outputoff + w.i) (w.t.getD w.i 0), i := w.i + 1 } := rfl

theorem iter_stepO128 (k : Nat) (v : SqiGen.Sponge.shake128.V) :
    iterN (fun w : SqiGen.Sponge.shake128.V => { w with output := w.output.set (w.outputoff + w.i) (w.t.getD w.i 0), i := w.i + 1 }) k v
      = { v with output := osetFrom (fun i => v.t.getD i 0) v.outputoff v.output v.i k, i := v.i + k } := by
  induction k generalizing v with
  | zero => rfl
  | succ k ih => rw [iterN, ih]; simp [osetFrom, Nat.add_assoc, Nat.add_comm 1 k]

/-- the re-extracted one-shot `shake128` (absorb wrapper, whole blocks, tail through the stack block `t`, copy loop) writes exactly
    the model's `shakeOneShot` bytes at `h + hoff` and leaves the rest of `h` unchanged, whatever the uninitialised memory holds -/
theorem shake128_oneshot_eq (F : State → State) (fuel : Nat) (h : List UInt8) (hoff outlen : Nat) (m : List UInt8)
    (s0 : State) (t0 : List UInt8) (ia : Nat) (ta : List UInt8) (iq1 iq2 ic : Nat)
    (ht0 : t0.length = SqiGen.Sponge.shake128.tlen) (hta : ta.length = 200) (hl : hoff + outlen ≤ h.length)
    (hf : m.length + outlen + 200 < fuel) :
    ∃ h', SqiGen.Sponge.shake128.run F fuel h hoff outlen m m.length s0 t0 ia ta iq1 iq2 ic = some h' ∧
      Written h h' hoff outlen (shakeOneShot F 168 0x1F 168 168 m outlen) := by
  have ht0' : t0.length = 168 := ht0
  obtain ⟨a, ha, has⟩ := keccak_absorb_eq F fuel 168 m 0x1F s0 ta ia hta (by decide) (by decide) (by omega)
  have hdiv : outlen / 168 * 168 ≤ outlen := Nat.div_mul_le_self outlen 168
  obtain ⟨q, hq, hqw, hqs⟩ := squeezeblocks_eq F fuel 168 (by decide) (by omega) (outlen / 168) fuel
    (⟨h, hoff, outlen / 168, a.s, 168, iq1⟩ : QV) rfl rfl (by show hoff + outlen / 168 * 168 ≤ h.length; omega) (by omega)
  have e1 : SqiGen.Sponge.shake128_absorb.run F fuel s0 m m.length ia ta = some a := ha
  have e2 : SqiGen.Sponge.shake128_squeezeblocks.run F fuel h hoff (outlen / 168) a.s iq1 = some q := hq
  have hA := sqC_length F 168 (by decide) (outlen / 168) a.s
  simp only at hqw hqs
  rw [shakeOneShot_unfold, ← has]
  unfold SqiGen.Sponge.shake128.run
  simp only [e1, e2, Option.bind]
  by_cases hrem : outlen - outlen / 168 * 168 ≠ 0
  · rw [if_pos hrem, if_pos hrem]
    obtain ⟨q2, hq2, hq2w, _⟩ := squeezeblocks_eq F fuel 168 (by decide) (by omega) 1 fuel
      (⟨t0, 0, 1, q.s, 168, iq2⟩ : QV) rfl rfl (by show 0 + 1 * 168 ≤ t0.length; omega) (by omega)
    have e3 : SqiGen.Sponge.shake128_squeezeblocks.run F fuel t0 0 1 q.s iq2 = some q2 := hq2
    simp only at hq2w
    simp only [e3]
    have l := loopO_count (fun w : SqiGen.Sponge.shake128.V => w.outlen = outlen - outlen / 168 * 168) (·.i)
      (outlen - outlen / 168 * 168) (fun v => decide (v.i < v.outlen)) (SqiGen.Sponge.shake128.body1 F fuel) _
      (fun w hw => by rw [hw]) (fun w _ _ => obody128 F fuel w) (fun w hw _ => ⟨hw, rfl⟩) (outlen - outlen / 168 * 168) fuel
      (⟨q.h, hoff + outlen / 168 * 168, outlen - outlen / 168 * 168, q2.h, 0⟩ : SqiGen.Sponge.shake128.V) rfl (by simp) (by omega)
    rw [iter_stepO128] at l
    simp only [l]
    refine ⟨_, rfl, ?_⟩
    have hB1 := sqC_length F 168 (by decide) 1 q.s
    have w2 := osetFrom_written (fun i => q2.h.getD i 0) (hoff + outlen / 168 * 168) q.h (outlen - outlen / 168 * 168)
      (by rw [hqw.1]; omega)
    have hmap : (List.range (outlen - outlen / 168 * 168)).map (fun i => q2.h.getD i 0)
        = (squeezeBlocksC F 168 1 q.s).1.take (outlen - outlen / 168 * 168) := by
      rw [← range_map_getD _ _ (by rw [hB1]; omega)]
      apply List.map_congr_left
      intro i hi
      have hi' := List.mem_range.mp hi
      rw [hq2w.2 i, if_pos (by omega), Nat.sub_zero]
    rw [hmap, hqs] at w2
    have := written_trans h q.h _ hoff (outlen / 168 * 168) (outlen - outlen / 168 * 168) _ _ hqw hA w2
    rwa [show outlen / 168 * 168 + (outlen - outlen / 168 * 168) = outlen by omega] at this
  · rw [if_neg hrem, if_neg hrem]
    refine ⟨_, rfl, ?_⟩
    rwa [show outlen / 168 * 168 = outlen by omega] at hqw

/-! ### multi-call sessions through the generated wrappers
The caller's call sequence is not part of fips202.c, so the runner is written here: it does nothing but chain the generated
wrapper programs (the context lanes / byte counter left by one call are passed to the next, the output pointer advances by the
request). `ab` / `sq` are instantiated with the generated `shake*_inc_absorb.run` / `shake*_inc_squeeze.run`. -/

def runAbsorbs (ab : State → Nat → List UInt8 → Nat → Nat → Option AV) (i0 : Nat) : State → Nat → List (List UInt8) → Option (State × Nat)
  | s, p, [] => some (s, p)
  | s, p, m :: ms => (ab s p m m.length i0).bind fun v => runAbsorbs ab i0 v.s_inc v.pos ms

def runSqueezes (sq : List UInt8 → Nat → Nat → State → Nat → Nat → Option IV) (i0 : Nat) :
    List UInt8 → Nat → State → Nat → List Nat → Option (List UInt8 × State × Nat)
  | h, _, s, p, [] => some (h, s, p)
  | h, off, s, p, n :: ns => (sq h off n s p i0).bind fun v => runSqueezes sq i0 v.h (off + n) v.s_inc v.pos ns

theorem sqBytes_length (F : State → State) (r n : Nat) (st : IncState) : (SqiProofs.Sponge.sqBytes F r n st).1.length = n := by
  induction n generalizing st with
  | zero => rfl
  | succ n ih => simp [SqiProofs.Sponge.sqBytes, ih]

theorem runAbsorbs_eq (F : State → State) (fuel r i0 : Nat) (chunks : List (List UInt8)) (st : IncState) (hp : st.pos < r)
    (hf : ∀ m ∈ chunks, m.length + r < fuel) :
    runAbsorbs (fun s p m l i => SqiGen.Sponge.keccak_inc_absorb.run F fuel ⟨s, p, r, m, l, i⟩) i0 st.s st.pos chunks
      = some ((incAbsorbMany F r st chunks).s, (incAbsorbMany F r st chunks).pos) := by
  induction chunks generalizing st with
  | nil => rfl
  | cons m ms ih =>
    obtain ⟨v, h1, h2, h3⟩ := inc_absorb_eq F fuel r st m i0 hp (hf m (by simp))
    have hp' : (incAbsorb F r st m).pos < r := by
      rw [SqiProofs.Sponge.incAbsorb_eq F r st m hp]; exact SqiProofs.Sponge.abBytes_pos_lt F r st m hp
    have := ih (incAbsorb F r st m) hp' (fun m' hm' => hf m' (by simp [hm']))
    simp only [runAbsorbs, h1, Option.bind, h2, h3, this, incAbsorbMany, List.foldl_cons]

theorem runSqueezes_eq (F : State → State) (fuel r i0 : Nat) (h0 : 0 < r) (reqs : List Nat) (st : IncState) (hp : st.pos < r)
    (h : List UInt8) (off : Nat) (hl : off + reqs.sum ≤ h.length) (hf : ∀ n ∈ reqs, n + r < fuel) :
    ∃ h', runSqueezes (fun h off n s p i => SqiGen.Sponge.keccak_inc_squeeze.run F fuel ⟨h, off, n, s, p, r, i⟩) i0 h off st.s st.pos reqs
        = some (h', (incSqueezeMany F r st reqs).2.s, (incSqueezeMany F r st reqs).2.pos) ∧
      Written h h' off reqs.sum (incSqueezeMany F r st reqs).1 := by
  induction reqs generalizing st h off with
  | nil => exact ⟨h, rfl, written_refl h off⟩
  | cons n ns ih =>
    simp only [List.sum_cons] at hl
    obtain ⟨v, h1, h2, h3⟩ := inc_squeeze_eq F fuel r h0 st (by omega) h off n i0 (by omega) (hf n (by simp))
    have e := SqiProofs.Sponge.incSqueeze_eq F r h0 st n hp
    have hp' : (incSqueeze F r st n).2.pos < r := by rw [e]; exact SqiProofs.Sponge.sqBytes_pos_lt F r n st hp
    have hlen : (incSqueeze F r st n).1.length = n := by rw [e]; exact sqBytes_length F r n st
    have hs : v.s_inc = (incSqueeze F r st n).2.s := congrArg IncState.s h3
    have hq : v.pos = (incSqueeze F r st n).2.pos := congrArg IncState.pos h3
    obtain ⟨h', r1, r2⟩ := ih (incSqueeze F r st n).2 hp' v.h (off + n) (by rw [h2.1]; omega) (fun n' hn' => hf n' (by simp [hn']))
    refine ⟨h', ?_, ?_⟩
    · simp only [runSqueezes, h1, Option.bind, hs, hq, r1, incSqueezeMany]
    · have := written_trans h v.h h' off n ns.sum _ _ h2 hlen r2
      simpa only [List.sum_cons, incSqueezeMany] using this

end SqiProofs.SpongeGen

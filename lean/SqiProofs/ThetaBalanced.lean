/-
Lemmas for C12: the balanced recursion `theta_chain_comput_rec` (model `SqiModel.ThetaChain.rec`), all lengths.
  * `need`: number of stack slots the recursion needs above its entry level
  * `need_pow`: (3/2)^need ≤ len, hence `need_le`: need len ≤ 10·log2 len — the C's stack `10·log2(n−3)+1` suffices
  * `rec_sound`: with enough stack the recursion performs exactly `len` steps with indices index … index+len−1, every
    kernel pair has exponent exactly 3, every stack write is in bounds and the stacked pairs are lowered by `len`.
-/
import SqiModel.ThetaChain

namespace SqiProofs.ThetaBalanced
open SqiModel.ThetaChain

/-- stack slots needed above the entry level (same recursion as `rec`) -/
def need : Nat → Nat → Nat
  | 0, _ => 0
  | fuel + 1, len =>
    if len ≤ 1 then 0
    else max (1 + need fuel (2 * len / 3)) (need fuel (len - 2 * len / 3))

theorem need_pow : ∀ (fuel len : Nat), 1 ≤ len → 3 ^ need fuel len ≤ 2 ^ need fuel len * len := by
  intro fuel
  induction fuel with
  | zero => intro len h; simp [need]; omega
  | succ fuel ih =>
    intro len h
    unfold need
    by_cases h1 : len ≤ 1
    · simp [h1]; omega
    · simp only [h1, if_false]
      have hr : 1 ≤ 2 * len / 3 := by omega
      have hl : 1 ≤ len - 2 * len / 3 := by omega
      rcases Nat.le_total (1 + need fuel (2 * len / 3)) (need fuel (len - 2 * len / 3)) with hm | hm
      · rw [Nat.max_eq_right hm]
        have := ih _ hl
        calc 3 ^ need fuel (len - 2 * len / 3) ≤ 2 ^ need fuel (len - 2 * len / 3) * (len - 2 * len / 3) := this
          _ ≤ 2 ^ need fuel (len - 2 * len / 3) * len := Nat.mul_le_mul_left _ (by omega)
      · rw [Nat.max_eq_left hm]
        have := ih _ hr
        have e3 : 3 ^ (1 + need fuel (2 * len / 3)) = 3 * 3 ^ need fuel (2 * len / 3) := by
          rw [Nat.add_comm, Nat.pow_succ, Nat.mul_comm]
        have e2 : 2 ^ (1 + need fuel (2 * len / 3)) = 2 * 2 ^ need fuel (2 * len / 3) := by
          rw [Nat.add_comm, Nat.pow_succ, Nat.mul_comm]
        rw [e3, e2]
        have h3 : 3 * (2 * len / 3) ≤ 2 * len := by omega
        calc 3 * 3 ^ need fuel (2 * len / 3) ≤ 3 * (2 ^ need fuel (2 * len / 3) * (2 * len / 3)) := Nat.mul_le_mul_left _ this
          _ = 2 ^ need fuel (2 * len / 3) * (3 * (2 * len / 3)) := by
              rw [← Nat.mul_assoc, Nat.mul_comm 3, Nat.mul_assoc]
          _ ≤ 2 ^ need fuel (2 * len / 3) * (2 * len) := Nat.mul_le_mul_left _ h3
          _ = 2 * 2 ^ need fuel (2 * len / 3) * len := by
              rw [← Nat.mul_assoc, Nat.mul_comm _ 2]

/-- 3^k ≥ 2^k · 2^(m+1) as soon as k ≥ 2(m+1)  ((9/4)^(m+1) ≥ 2^(m+1)) -/
theorem pow_gap (m : Nat) : ∀ j, 2 ^ (2 * (m + 1) + j) * 2 ^ (m + 1) ≤ 3 ^ (2 * (m + 1) + j) := by
  intro j
  induction j with
  | zero =>
    simp only [Nat.add_zero]
    have e1 : 2 ^ (2 * (m + 1)) * 2 ^ (m + 1) = 8 ^ (m + 1) := by
      rw [← Nat.pow_add, show 2 * (m + 1) + (m + 1) = 3 * (m + 1) by omega, Nat.pow_mul]
    have e2 : 3 ^ (2 * (m + 1)) = 9 ^ (m + 1) := by rw [Nat.pow_mul]
    rw [e1, e2]
    exact Nat.pow_le_pow_left (by omega) _
  | succ j ih =>
    have a : 2 ^ (2 * (m + 1) + (j + 1)) = 2 * 2 ^ (2 * (m + 1) + j) := by
      rw [← Nat.add_assoc, Nat.pow_succ, Nat.mul_comm]
    have b : 3 ^ (2 * (m + 1) + (j + 1)) = 3 * 3 ^ (2 * (m + 1) + j) := by
      rw [← Nat.add_assoc, Nat.pow_succ, Nat.mul_comm]
    rw [a, b, Nat.mul_assoc]
    calc 2 * (2 ^ (2 * (m + 1) + j) * 2 ^ (m + 1)) ≤ 2 * 3 ^ (2 * (m + 1) + j) := Nat.mul_le_mul_left _ ih
      _ ≤ 3 * 3 ^ (2 * (m + 1) + j) := Nat.mul_le_mul_right _ (by omega)

theorem need_le_two_log (fuel len : Nat) (h : 1 ≤ len) : need fuel len ≤ 2 * len.log2 + 1 := by
  by_cases hk : need fuel len ≤ 2 * len.log2 + 1
  · exact hk
  · exfalso
    have hp := need_pow fuel len h
    have hlt : len < 2 ^ (len.log2 + 1) := Nat.lt_log2_self
    obtain ⟨j, hj⟩ : ∃ j, need fuel len = 2 * (len.log2 + 1) + j := ⟨need fuel len - 2 * (len.log2 + 1), by omega⟩
    have hg := pow_gap len.log2 j
    rw [← hj] at hg
    have hpos : 0 < 2 ^ need fuel len := Nat.pow_pos (by omega)
    have : 2 ^ need fuel len * len < 2 ^ need fuel len * 2 ^ (len.log2 + 1) :=
      Nat.mul_lt_mul_of_pos_left hlt hpos
    omega

/-- **the stack of `theta_chain_comput_balanced` suffices**: need(len) ≤ 10·⌊log2 len⌋ for every len ≥ 1 -/
theorem need_le (fuel len : Nat) (h : 1 ≤ len) : need fuel len ≤ 10 * len.log2 := by
  by_cases h1 : len ≤ 1
  · have : need fuel len = 0 := by cases fuel <;> simp [need, h1]
    omega
  · have h2 := need_le_two_log fuel len h
    have : 1 ≤ len.log2 := by
      have : 2 ≤ len := by omega
      exact (Nat.le_log2 (by omega)).mpr (by simpa using this)
    omega


/-! ### soundness of the recursion -/

def bevOk (cap : Nat) : BEv → Bool
  | .step _ sl _ k _ => decide (k = 3) && decide (sl ≤ cap)
  | .split sl _ _ => decide (sl < cap)
  | .oob _ _ => false

def stepIdx : List BEv → List Nat
  | [] => []
  | .step i _ _ _ _ :: l => i :: stepIdx l
  | _ :: l => stepIdx l

theorem stepIdx_append (a b : List BEv) : stepIdx (a ++ b) = stepIdx a ++ stepIdx b := by
  induction a with
  | nil => rfl
  | cons e a ih => cases e <;> simp [stepIdx, ih]

theorem map_sub_sub (l : List Nat) (a b : Nat) : (l.map (· - a)).map (· - b) = l.map (· - (a + b)) := by
  simp [List.map_map, Function.comp_def, Nat.sub_sub]

/-- **Soundness of `theta_chain_comput_rec`** (all lengths): started with a kernel pair of exponent `len + 2`, `len`
    remaining steps and enough stack (`stack.length + need len ≤ cap`), the recursion performs exactly the steps
    index, index+1, …, index+len−1 in this order, every kernel pair has exponent exactly 3 (order 8), every write
    `P[stacklen]` has `stacklen < cap`, no step reads beyond the stack, and every stacked pair is lowered by `len`. -/
theorem rec_sound (cap total : Nat) : ∀ (fuel len index r : Nat) (stack : List Nat),
    len ≤ fuel → r = len + 2 → stack.length + need fuel len ≤ cap →
    (rec cap total fuel len index r stack).2 = stack.map (· - len) ∧
    (rec cap total fuel len index r stack).1.all (bevOk cap) = true ∧
    stepIdx (rec cap total fuel len index r stack).1 = List.range' index len := by
  intro fuel
  induction fuel with
  | zero =>
    intro len index r stack hl _ _
    have : len = 0 := by omega
    subst this
    simp [rec, stepIdx]
  | succ fuel ih =>
    intro len index r stack hl hr hn
    unfold rec
    by_cases h0 : len = 0
    · subst h0; simp [stepIdx]
    · simp only [h0, if_false]
      by_cases h1 : len = 1
      · subst h1
        have hn' : stack.length ≤ cap := by omega
        simp [stepIdx, bevOk, hr, hn', List.range']
      · simp only [h1, if_false]
        have hnd : need (fuel + 1) len = max (1 + need fuel (2 * len / 3)) (need fuel (len - 2 * len / 3)) := by
          have : ¬ len ≤ 1 := by omega
          simp [need, this]
        have hn1 : 1 + need fuel (2 * len / 3) ≤ need (fuel + 1) len := by rw [hnd]; exact Nat.le_max_left _ _
        have hn2 : need fuel (len - 2 * len / 3) ≤ need (fuel + 1) len := by rw [hnd]; exact Nat.le_max_right _ _
        have hcap : stack.length < cap := by omega
        simp only [hcap, if_true]
        have A := ih (2 * len / 3) index (r - (len - 2 * len / 3)) (stack ++ [r]) (by omega) (by omega)
          (by simp; omega)
        obtain ⟨a1, a2, a3⟩ := A
        generalize hA : rec cap total fuel (2 * len / 3) index (r - (len - 2 * len / 3)) (stack ++ [r]) = resA at *
        obtain ⟨e1, st1⟩ := resA
        simp only at a1 a2 a3 ⊢
        have hst1 : st1 = stack.map (· - 2 * len / 3) ++ [r - 2 * len / 3] := by rw [a1]; simp
        have hget : st1.getD stack.length 0 = r - 2 * len / 3 := by
          rw [hst1]; simp [List.getD]
        have htake : st1.take stack.length = stack.map (· - 2 * len / 3) := by
          rw [hst1]; simp
        rw [hget, htake]
        have B := ih (len - 2 * len / 3) (2 * len / 3 + index) (r - 2 * len / 3) (stack.map (· - 2 * len / 3))
          (by omega) (by omega) (by simp; omega)
        obtain ⟨b1, b2, b3⟩ := B
        generalize hB : rec cap total fuel (len - 2 * len / 3) (2 * len / 3 + index) (r - 2 * len / 3)
          (stack.map (· - 2 * len / 3)) = resB at *
        obtain ⟨e2, st2⟩ := resB
        simp only at b1 b2 b3 ⊢
        refine ⟨?_, ?_, ?_⟩
        · rw [b1, map_sub_sub]; congr 1; funext x; omega
        · simp only [List.all_cons, List.all_append, a2, b2, Bool.and_true]
          simp [bevOk, hcap]
        · simp only [stepIdx, stepIdx_append, a3, b3]
          have e : len = 2 * len / 3 + (len - 2 * len / 3) := by omega
          conv => rhs; rw [e]
          rw [Nat.add_comm (2 * len / 3) index, List.range'_append_1]

/-- **`theta_chain_comput_balanced`, middle part** (every n ≥ 4): the stack `stack1/2[10·⌊log2(n−3)⌋+1]` is never
    exceeded (`stacklen < 10·log2(n−3)+1` at every write), exactly the steps 0 … n−4 are computed in order, each with a
    kernel pair of exponent 3 (order 8), and the carried pair Q ends with exponent 4 (ready for the last two steps). -/
theorem balanced_sound (n : Nat) (hn : 4 ≤ n) :
    (balanced n).2 = [4] ∧ (balanced n).1.all (bevOk (balancedCap n)) = true ∧
    stepIdx (balanced n).1 = List.range' 0 (n - 3) := by
  unfold balanced
  have h := rec_sound (balancedCap n) n (n + 1) (n - 3) 0 (n + 1 - 2) [n + 1] (by omega) (by omega)
    (by have := need_le (n + 1) (n - 3) (by omega); simp [balancedCap]; omega)
  refine ⟨?_, h.2.1, h.2.2⟩
  rw [h.1]; simp; omega

end SqiProofs.ThetaBalanced

/-
Lemmas for C12: the C-shaped loop model of `theta_chain_comput_strategy(_faster_no_eval)` (SqiModel.ThetaChain)
run on a valid strategy — induction over the strategy tree, no bound on the chain length.
-/
import SqiModel.ThetaChain
import SqiModel.Strategy

namespace SqiProofs.ThetaChain
open SqiModel SqiModel.ThetaChain

/-- per-event correctness: indices inside the VLAs of size `n`, strategy index below `sb`, kernels of the right
    order (exponent 3 = order 8 for the gluing and the generic steps; 2 and 1 for the two final steps) -/
def evOk (n sb : Nat) : Ev → Bool
  | .p1 idx _ _ => decide (idx < sb)
  | .pts i _ _ => decide (1 ≤ i) && decide (i < n)
  | .glue k o => decide (0 ≤ k) && decide (k < n) && decide (o = 3)
  | .push idx l _ _ => decide (idx < sb) && decide (1 ≤ l) && decide (l < n)
  | .step i k _ o => decide (0 ≤ k) && decide (k < n) && decide (o = 3) && decide (i + 1 < n)
  | .fin a _ _ o4 o2 => decide (0 ≤ a) && decide (o4 = 2) && decide (o2 = 1)
  | .error _ => false
  | _ => true

def stepSum (l : List Ev) : Nat := (l.map Ev.steps).sum
@[simp] theorem stepSum_nil : stepSum [] = 0 := rfl
@[simp] theorem stepSum_append (a b : List Ev) : stepSum (a ++ b) = stepSum a + stepSum b := by
  simp [stepSum, List.map_append, List.sum_append]
@[simp] theorem stepSum_cons (a : Ev) (b : List Ev) : stepSum (a :: b) = a.steps + stepSum b := by
  simp [stepSum]

theorem drop_head {l : List Nat} {i b : Nat} {r : List Nat} (h : l.drop i = b :: r) :
    ∃ hi : i < l.length, l[i] = b ∧ l.drop (i + 1) = r := by
  have hi : i < l.length := by
    by_cases hh : i < l.length
    · exact hh
    · have : l.drop i = [] := List.drop_eq_nil_of_le (by omega)
      rw [this] at h; cases h
  refine ⟨hi, ?_, ?_⟩
  · have := List.drop_eq_getElem_cons hi
    rw [this] at h
    exact (List.cons.inj h).1
  · have := List.drop_eq_getElem_cons hi
    rw [this] at h
    exact (List.cons.inj h).2

/-! ### main loop -/

/-- `cnt` iterations of the main loop, the first one entered at the head of the inner while -/
def iterFrom (P : Params) : Nat → Nat → St → St
  | 0, _, s => s
  | cnt + 1, i, s => forLoop P cnt (i + 1) (isoStep P i (whileLoop P i s))

theorem forLoop_succ (P : Params) (cnt i : Nat) (s : St) :
    forLoop P (cnt + 1) i s = iterFrom P (cnt + 1) i (headStep P i s) := rfl

theorem forLoop_add (P : Params) (a b : Nat) : ∀ (i : Nat) (s : St),
    forLoop P (a + b) i s = forLoop P b (i + a) (forLoop P a i s) := by
  induction a with
  | zero => intro i s; simp [forLoop]
  | succ a ih =>
    intro i s
    have : a + 1 + b = (a + b) + 1 := by omega
    rw [this]
    simp only [forLoop]
    rw [ih]
    congr 1; omega

theorem iterFrom_add (P : Params) (n a b : Nat) (hn : n = a + b) (ha : 1 ≤ a) (i : Nat) (s : St) :
    iterFrom P n i s = forLoop P b (i + a) (iterFrom P a i s) := by
  subst hn
  cases a with
  | zero => omega
  | succ a =>
    have : a + 1 + b = (a + b) + 1 := by omega
    rw [this]
    simp only [iterFrom]
    rw [forLoop_add]
    congr 1; omega

theorem whileLoop_exit (P : Params) (i : Nat) (s : St) (he : s.err = none)
    (hb : s.lenCount = P.m - 1 - (i : Int)) : whileLoop P i s = s := by
  rw [whileLoop]; simp [he, hb]

theorem whileLoop_push (P : Params) (i : Nat) (s : St) (he : s.err = none)
    (hb : s.lenCount ≠ P.m - 1 - (i : Int)) (h : s.index < P.row.length) :
    whileLoop P i s = whileLoop P i { pushBody P s P.row[s.index] with index := s.index + 1 } := by
  rw [whileLoop]; simp [he, hb, h]

/-- the state after one successful iteration of the while body -/
def pushed (s : St) (c b o : Nat) : St :=
  { index := s.index + 1, lenList := (c : Int) + 2, lenCount := s.lenCount + b,
    level := upd s.level (c + 1) (some b), pts := s.pts,
    q := upd s.q (c + 1) (some (o - b)), err := none,
    trace := s.trace ++ [.push s.index ((c : Int) + 1) b (o - b)] }

theorem pushBody_ok (P : Params) (s : St) (c b o : Nat) (he : s.err = none) (hc : s.lenList = (c : Int) + 1)
    (hv : c + 1 < P.n) (ho : s.q c = some o) :
    ({ pushBody P s b with index := s.index + 1 } : St) = pushed s c b o := by
  have h1 : idxOK ((c : Int) + 1) P.n = true := by simp [idxOK]; omega
  have h2 : idxOK (c : Int) P.n = true := by simp [idxOK]; omega
  have h4 : ((c : Int) + 1).toNat = c + 1 := by omega
  have h5 : (c : Int) + 1 + 1 = (c : Int) + 2 := by omega
  simp [pushBody, pushed, St.emit, hc, h1, h2, h4, h5, ho, he]

theorem iterFrom_push (P : Params) (n i : Nat) (s : St) (c b o : Nat) (hn : 1 ≤ n) (he : s.err = none)
    (hb : s.lenCount ≠ P.m - 1 - (i : Int)) (h : s.index < P.row.length)
    (hr : P.row[s.index] = b) (hc : s.lenList = (c : Int) + 1) (hv : c + 1 < P.n) (ho : s.q c = some o) :
    iterFrom P n i s = iterFrom P n i (pushed s c b o) := by
  cases n with
  | zero => omega
  | succ m =>
    simp only [iterFrom]
    rw [whileLoop_push P i s he hb h, hr, pushBody_ok P s c b o he hc hv ho]

/-- the state after the isogeny part of an iteration with kernel slot `c` -/
def popped (P : Params) (s : St) (i c : Nat) : St :=
  { index := s.index, lenList := (c : Int), lenCount := s.lenCount, level := s.level, pts := s.pts,
    q := fun j => if decide ((i : Int) < (P.n : Int) - 2) && decide (j < c) then (s.q j).map (· - 1) else s.q j,
    err := none,
    trace := s.trace ++ [.step i (c : Int)
        (if (i : Int) = (P.n : Int) - 3 then 1 else if (i : Int) = (P.n : Int) - 2 then 2 else 0) 3,
      .pop i (c : Int) (if (i : Int) < (P.n : Int) - 2 then 1 else 0)] }

theorem isoStep_ok (P : Params) (i : Nat) (s : St) (c : Nat) (he : s.err = none) (hc : s.lenList = (c : Int) + 1)
    (hv : c < P.n) (ho : s.q c = some 3) : isoStep P i s = popped P s i c := by
  have h1 : idxOK (c : Int) P.n = true := by simp [idxOK]; omega
  simp [isoStep, popped, St.emit, he, hc, h1, ho]

theorem levelSum_congr (lv lv' : Nat → Option Nat) : ∀ (k : Nat), (∀ j, j < k → lv' j = lv j) →
    levelSum lv' k = levelSum lv k := by
  intro k
  induction k with
  | zero => intro _; rfl
  | succ k ih =>
    intro h
    simp only [levelSum]
    rw [ih (fun j hj => h j (by omega)), h k (by omega)]

theorem headStep_ok (P : Params) (i : Nat) (s : St) (k S : Nat) (he : s.err = none) (hc : s.lenList = (k : Int))
    (hk : k ≤ P.n) (hS : levelSum s.level k = some S) :
    headStep P i s = { s with lenCount := (S : Int), trace := s.trace ++ [.head i (k : Int) (S : Int)] } := by
  have h1 : (0 : Int) ≤ (k : Int) ∧ (k : Int) ≤ (P.n : Int) := by omega
  simp [headStep, he, hc, h1, hS, St.emit]

/-- **Subtree lemma.** A subtree with `h` leaves whose root is the kernel pair in slot `c` (`len_list = c+1`),
    entered at the head of the inner while of iteration `i`, is consumed by exactly `h` iterations. -/
theorem sub_lemma (P : Params) (sb : Nat) {h : Nat} {t : List Nat} (hs : Strat h t) :
    ∀ (i : Nat) (s : St) (t2 : List Nat) (c S : Nat),
      s.err = none → s.lenList = (c : Int) + 1 → c + h ≤ P.n → s.q c = some (h + 2) →
      levelSum s.level (c + 1) = some S → s.lenCount = (S : Int) → (S : Int) = P.m - i - h →
      (1 ≤ c → (i : Int) + h + 1 ≤ P.m) → (P.m ≤ (P.n : Int) - 1) →
      P.row.drop s.index = t ++ t2 → s.index + t.length ≤ sb →
      (iterFrom P h i s).err = none ∧ (iterFrom P h i s).index = s.index + t.length ∧
      (iterFrom P h i s).lenList = (c : Int) ∧
      (∀ k, k < c → (iterFrom P h i s).q k = (s.q k).map (· - h)) ∧
      (∀ k, k ≤ c → (iterFrom P h i s).level k = s.level k) ∧
      ∃ new, (iterFrom P h i s).trace = s.trace ++ new ∧ new.all (evOk P.n sb) = true ∧ stepSum new = h := by
  induction hs with
  | leaf =>
    intro i s t2 c S he hc hcn ho hS hlc hSe hlow hmn hr hsb
    have hex : s.lenCount = P.m - 1 - (i : Int) := by omega
    have e : iterFrom P 1 i s = popped P s i c := by
      simp only [iterFrom, forLoop]
      rw [whileLoop_exit P i s he hex, isoStep_ok P i s c he hc (by omega) (by simpa using ho)]
    rw [e]
    refine ⟨rfl, by simp [popped], rfl, ?_, ?_, ?_⟩
    · intro k hk
      have : (i : Int) < (P.n : Int) - 2 := by have := hlow (by omega); omega
      simp [popped, hk, this]
    · intro k _; rfl
    · refine ⟨_, rfl, ?_, ?_⟩
      · simp [evOk]; omega
      · simp [Ev.steps]
  | @node n b ta tb hb1 hbn hsa hsb' iha ihb =>
    intro i s t2 c S he hc hcn ho hS hlc hSe hlow hmn hr hsb
    have hne : s.lenCount ≠ P.m - 1 - (i : Int) := by omega
    have hr' : P.row.drop s.index = b :: (ta ++ tb ++ t2) := by simpa using hr
    obtain ⟨hi, hrow, hdrop⟩ := drop_head hr'
    have e0 : iterFrom P n i s = iterFrom P n i (pushed s c b (n + 2)) :=
      iterFrom_push P n i s c b (n + 2) (by omega) he hne hi hrow hc (by omega) ho
    -- level sum of the pushed state
    have hS1 : levelSum (pushed s c b (n + 2)).level (c + 1 + 1) = some (S + b) := by
      have hc1 : levelSum (upd s.level (c + 1) (some b)) (c + 1) = some S := by
        rw [levelSum_congr s.level (upd s.level (c + 1) (some b)) (c + 1)
          (fun j hj => by simp [upd]; omega)]
        exact hS
      show levelSum (upd s.level (c + 1) (some b)) (c + 1 + 1) = _
      rw [levelSum, hc1]
      simp [upd]
    have A := iha i (pushed s c b (n + 2)) (tb ++ t2) (c + 1) (S + b) rfl (by simp [pushed]; omega) (by omega)
      (by simp [pushed, upd]; omega) hS1 (by simp [pushed, hlc]) (by simp; omega)
      (by intro _; omega) hmn (by simp [pushed, hdrop, List.append_assoc]) (by simp [pushed]; simp at hsb; omega)
    obtain ⟨a1, a2, a3, a4, a5, newa, a7, a8, a9⟩ := A
    -- the state at the for-head of iteration i + (n - b), then its headStep
    have hlev : ∀ j, j < c + 1 → (iterFrom P (n - b) i (pushed s c b (n + 2))).level j = s.level j := by
      intro j hj
      rw [a5 j (by omega)]
      simp [pushed, upd]; omega
    have hS2 : levelSum (iterFrom P (n - b) i (pushed s c b (n + 2))).level (c + 1) = some S := by
      rw [levelSum_congr s.level _ (c + 1) hlev]; exact hS
    have eh := headStep_ok P (i + (n - b)) (iterFrom P (n - b) i (pushed s c b (n + 2))) (c + 1) S a1
      (by rw [a3]) (by omega) hS2
    have B := ihb (i + (n - b)) (headStep P (i + (n - b)) (iterFrom P (n - b) i (pushed s c b (n + 2)))) t2 c S
      (by rw [eh]; exact a1) (by rw [eh]; simp [a3]) (by omega)
      (by rw [eh]; simp only []; rw [a4 c (by omega)]; simp [pushed, upd, ho]; omega)
      (by rw [eh]; exact hS2) (by rw [eh]) (by simp; omega)
      (by intro hc1; have := hlow hc1; simp; omega) hmn
      (by rw [eh]; simp only []; rw [a2]; simp [pushed]; rw [← List.drop_drop, hdrop]; simp [List.append_assoc])
      (by rw [eh]; simp only []; rw [a2]; simp [pushed]; simp at hsb; omega)
    obtain ⟨b1, b2, b3, b4, b5, newb, b7, b8, b9⟩ := B
    have e1 : iterFrom P n i s = iterFrom P b (i + (n - b))
        (headStep P (i + (n - b)) (iterFrom P (n - b) i (pushed s c b (n + 2)))) := by
      rw [e0, iterFrom_add P n (n - b) b (by omega) (by omega) i _]
      obtain ⟨b', rfl⟩ : ∃ b', b = b' + 1 := ⟨b - 1, by omega⟩
      rw [forLoop_succ]
    rw [e1]
    refine ⟨b1, ?_, b3, ?_, ?_, ?_⟩
    · rw [b2, eh]; simp only []; rw [a2]; simp [pushed]; omega
    · intro k hk
      rw [b4 k hk, eh]; simp only []
      rw [a4 k (by omega)]
      have : k ≠ c + 1 := by omega
      simp [pushed, upd, this]
      cases s.q k with
      | none => rfl
      | some v => simp; omega
    · intro k hk
      rw [b5 k hk, eh]; simp only []
      rw [a5 k (by omega)]
      have : k ≠ c + 1 := by omega
      simp [pushed, upd, this]
    · refine ⟨[.push s.index ((c : Int) + 1) b (n + 2 - b)] ++ newa ++
          [.head (i + (n - b)) ((c + 1 : Nat) : Int) (S : Int)] ++ newb, ?_, ?_, ?_⟩
      · rw [b7, eh]; simp only []; rw [a7]; simp [pushed, List.append_assoc]
      · simp only [List.all_append, a8, b8, Bool.and_true]
        simp [evOk]
        simp at hsb
        omega
      · simp [a9, b9, Ev.steps]; omega

end SqiProofs.ThetaChain

/-
Lemmas for C12: the C-shaped loop model of `theta_chain_comput_strategy(_faster_no_eval)` (SqiModel.ThetaChain)
run on a valid strategy — induction over the strategy tree, no bound on the chain length.
-/
import SqiModel.ThetaChain
import SqiModel.Strategy

namespace SqiProofs.ThetaChain
open SqiModel SqiModel.ThetaChain

/-- per-event correctness: indices inside the VLAs of size `n`, strategy index below `sb`, kernels of the right
    order (exponent 3 = order 8 for the gluing and the generic steps; 2 and 1 for the two final steps) -/
def evOk (n sb : Nat) : Ev → Bool
  | .p1 idx _ _ => decide (idx < sb)
  | .pts i _ _ => decide (1 ≤ i) && decide (i < n)
  | .glue k o => decide (0 ≤ k) && decide (k < n) && decide (o = 3)
  | .push idx l _ _ => decide (idx < sb) && decide (1 ≤ l) && decide (l < n)
  | .step i k _ o => decide (0 ≤ k) && decide (k < n) && decide (o = 3) && decide (i + 1 < n)
  | .fin a _ _ o4 o2 => decide (0 ≤ a) && decide (o4 = 2) && decide (o2 = 1)
  | .error _ => false
  | _ => true

def stepSum (l : List Ev) : Nat := (l.map Ev.steps).sum
@[simp] theorem stepSum_nil : stepSum [] = 0 := rfl
@[simp] theorem stepSum_append (a b : List Ev) : stepSum (a ++ b) = stepSum a + stepSum b := by
  simp [stepSum, List.map_append, List.sum_append]
@[simp] theorem stepSum_cons (a : Ev) (b : List Ev) : stepSum (a :: b) = a.steps + stepSum b := by
  simp [stepSum]

theorem drop_head {l : List Nat} {i b : Nat} {r : List Nat} (h : l.drop i = b :: r) :
    ∃ hi : i < l.length, l[i] = b ∧ l.drop (i + 1) = r := by
  have hi : i < l.length := by
    by_cases hh : i < l.length
    · exact hh
    · have : l.drop i = [] := List.drop_eq_nil_of_le (by omega)
      rw [this] at h; cases h
  refine ⟨hi, ?_, ?_⟩
  · have := List.drop_eq_getElem_cons hi
    rw [this] at h
    exact (List.cons.inj h).1
  · have := List.drop_eq_getElem_cons hi
    rw [this] at h
    exact (List.cons.inj h).2

/-! ### main loop -/

/-- `cnt` iterations of the main loop, the first one entered at the head of the inner while -/
def iterFrom (P : Params) : Nat → Nat → St → St
  | 0, _, s => s
  | cnt + 1, i, s => forLoop P cnt (i + 1) (isoStep P i (whileLoop P i s))

theorem forLoop_succ (P : Params) (cnt i : Nat) (s : St) :
    forLoop P (cnt + 1) i s = iterFrom P (cnt + 1) i (headStep P i s) := rfl

theorem forLoop_add (P : Params) (a b : Nat) : ∀ (i : Nat) (s : St),
    forLoop P (a + b) i s = forLoop P b (i + a) (forLoop P a i s) := by
  induction a with
  | zero => intro i s; simp [forLoop]
  | succ a ih =>
    intro i s
    have : a + 1 + b = (a + b) + 1 := by omega
    rw [this]
    simp only [forLoop]
    rw [ih]
    congr 1; omega

theorem iterFrom_add (P : Params) (n a b : Nat) (hn : n = a + b) (ha : 1 ≤ a) (i : Nat) (s : St) :
    iterFrom P n i s = forLoop P b (i + a) (iterFrom P a i s) := by
  subst hn
  cases a with
  | zero => omega
  | succ a =>
    have : a + 1 + b = (a + b) + 1 := by omega
    rw [this]
    simp only [iterFrom]
    rw [forLoop_add]
    congr 1; omega

theorem whileLoop_exit (P : Params) (i : Nat) (s : St) (he : s.err = none)
    (hb : s.lenCount = P.m - 1 - (i : Int)) : whileLoop P i s = s := by
  rw [whileLoop]; simp [he, hb]

theorem whileLoop_push (P : Params) (i : Nat) (s : St) (he : s.err = none)
    (hb : s.lenCount ≠ P.m - 1 - (i : Int)) (h : s.index < P.row.length) :
    whileLoop P i s = whileLoop P i { pushBody P s P.row[s.index] with index := s.index + 1 } := by
  rw [whileLoop]; simp [he, hb, h]

/-- the state after one successful iteration of the while body -/
def pushed (s : St) (c b o : Nat) : St :=
  { index := s.index + 1, lenList := (c : Int) + 2, lenCount := s.lenCount + b,
    level := upd s.level (c + 1) (some b), pts := s.pts,
    q := upd s.q (c + 1) (some (o - b)), err := none,
    trace := s.trace ++ [.push s.index ((c : Int) + 1) b (o - b)] }

theorem pushBody_ok (P : Params) (s : St) (c b o : Nat) (he : s.err = none) (hc : s.lenList = (c : Int) + 1)
    (hv : c + 1 < P.n) (ho : s.q c = some o) :
    ({ pushBody P s b with index := s.index + 1 } : St) = pushed s c b o := by
  have h1 : idxOK ((c : Int) + 1) P.n = true := by simp [idxOK]; omega
  have h2 : idxOK (c : Int) P.n = true := by simp [idxOK]; omega
  have h4 : ((c : Int) + 1).toNat = c + 1 := by omega
  have h5 : (c : Int) + 1 + 1 = (c : Int) + 2 := by omega
  simp [pushBody, pushed, St.emit, hc, h1, h2, h4, h5, ho, he]

theorem iterFrom_push (P : Params) (n i : Nat) (s : St) (c b o : Nat) (hn : 1 ≤ n) (he : s.err = none)
    (hb : s.lenCount ≠ P.m - 1 - (i : Int)) (h : s.index < P.row.length)
    (hr : P.row[s.index] = b) (hc : s.lenList = (c : Int) + 1) (hv : c + 1 < P.n) (ho : s.q c = some o) :
    iterFrom P n i s = iterFrom P n i (pushed s c b o) := by
  cases n with
  | zero => omega
  | succ m =>
    simp only [iterFrom]
    rw [whileLoop_push P i s he hb h, hr, pushBody_ok P s c b o he hc hv ho]

/-- the state after the isogeny part of an iteration with kernel slot `c` -/
def popped (P : Params) (s : St) (i c : Nat) : St :=
  { index := s.index, lenList := (c : Int), lenCount := s.lenCount, level := s.level, pts := s.pts,
    q := fun j => if decide ((i : Int) < (P.n : Int) - 2) && decide (j < c) then (s.q j).map (· - 1) else s.q j,
    err := none,
    trace := s.trace ++ [.step i (c : Int)
        (if (i : Int) = (P.n : Int) - 3 then 1 else if (i : Int) = (P.n : Int) - 2 then 2 else 0) 3,
      .pop i (c : Int) (if (i : Int) < (P.n : Int) - 2 then 1 else 0)] }

theorem isoStep_ok (P : Params) (i : Nat) (s : St) (c : Nat) (he : s.err = none) (hc : s.lenList = (c : Int) + 1)
    (hv : c < P.n) (ho : s.q c = some 3) : isoStep P i s = popped P s i c := by
  have h1 : idxOK (c : Int) P.n = true := by simp [idxOK]; omega
  simp [isoStep, popped, St.emit, he, hc, h1, ho]

theorem levelSum_congr (lv lv' : Nat → Option Nat) : ∀ (k : Nat), (∀ j, j < k → lv' j = lv j) →
    levelSum lv' k = levelSum lv k := by
  intro k
  induction k with
  | zero => intro _; rfl
  | succ k ih =>
    intro h
    simp only [levelSum]
    rw [ih (fun j hj => h j (by omega)), h k (by omega)]

theorem headStep_ok (P : Params) (i : Nat) (s : St) (k S : Nat) (he : s.err = none) (hc : s.lenList = (k : Int))
    (hk : k ≤ P.n) (hS : levelSum s.level k = some S) :
    headStep P i s = { s with lenCount := (S : Int), trace := s.trace ++ [.head i (k : Int) (S : Int)] } := by
  have h1 : (0 : Int) ≤ (k : Int) ∧ (k : Int) ≤ (P.n : Int) := by omega
  simp [headStep, he, hc, h1, hS, St.emit]

/-- **Subtree lemma.** A subtree with `h` leaves whose root is the kernel pair in slot `c` (`len_list = c+1`),
    entered at the head of the inner while of iteration `i`, is consumed by exactly `h` iterations. -/
theorem sub_lemma (P : Params) (sb : Nat) {h : Nat} {t : List Nat} (hs : Strat h t) :
    ∀ (i : Nat) (s : St) (t2 : List Nat) (c S : Nat),
      s.err = none → s.lenList = (c : Int) + 1 → c + h ≤ P.n → s.q c = some (h + 2) →
      levelSum s.level (c + 1) = some S → s.lenCount = (S : Int) → (S : Int) = P.m - i - h →
      (1 ≤ c → (i : Int) + h + 1 ≤ P.m) → (P.m ≤ (P.n : Int) - 1) →
      P.row.drop s.index = t ++ t2 → s.index + t.length ≤ sb →
      (iterFrom P h i s).err = none ∧ (iterFrom P h i s).index = s.index + t.length ∧
      (iterFrom P h i s).lenList = (c : Int) ∧
      (∀ k, k < c → (iterFrom P h i s).q k = (s.q k).map (· - h)) ∧
      (∀ k, k ≤ c → (iterFrom P h i s).level k = s.level k) ∧ (iterFrom P h i s).q c = some 3 ∧
      ∃ new, (iterFrom P h i s).trace = s.trace ++ new ∧ new.all (evOk P.n sb) = true ∧ stepSum new = h := by
  induction hs with
  | leaf =>
    intro i s t2 c S he hc hcn ho hS hlc hSe hlow hmn hr hsb
    have hex : s.lenCount = P.m - 1 - (i : Int) := by omega
    have e : iterFrom P 1 i s = popped P s i c := by
      simp only [iterFrom, forLoop]
      rw [whileLoop_exit P i s he hex, isoStep_ok P i s c he hc (by omega) (by simpa using ho)]
    rw [e]
    refine ⟨rfl, by simp [popped], rfl, ?_, ?_, ?_, ?_⟩
    · intro k hk
      have : (i : Int) < (P.n : Int) - 2 := by have := hlow (by omega); omega
      simp [popped, hk, this]
    · intro k _; rfl
    · simpa [popped] using ho
    · refine ⟨_, rfl, ?_, ?_⟩
      · simp [evOk]; omega
      · simp [Ev.steps]
  | @node n b ta tb hb1 hbn hsa hsb' iha ihb =>
    intro i s t2 c S he hc hcn ho hS hlc hSe hlow hmn hr hsb
    have hne : s.lenCount ≠ P.m - 1 - (i : Int) := by omega
    have hr' : P.row.drop s.index = b :: (ta ++ tb ++ t2) := by simpa using hr
    obtain ⟨hi, hrow, hdrop⟩ := drop_head hr'
    have e0 : iterFrom P n i s = iterFrom P n i (pushed s c b (n + 2)) :=
      iterFrom_push P n i s c b (n + 2) (by omega) he hne hi hrow hc (by omega) ho
    -- level sum of the pushed state
    have hS1 : levelSum (pushed s c b (n + 2)).level (c + 1 + 1) = some (S + b) := by
      have hc1 : levelSum (upd s.level (c + 1) (some b)) (c + 1) = some S := by
        rw [levelSum_congr s.level (upd s.level (c + 1) (some b)) (c + 1)
          (fun j hj => by simp [upd]; omega)]
        exact hS
      show levelSum (upd s.level (c + 1) (some b)) (c + 1 + 1) = _
      rw [levelSum, hc1]
      simp [upd]
    have A := iha i (pushed s c b (n + 2)) (tb ++ t2) (c + 1) (S + b) rfl (by simp [pushed]; omega) (by omega)
      (by simp [pushed, upd]; omega) hS1 (by simp [pushed, hlc]) (by simp; omega)
      (by intro _; omega) hmn (by simp [pushed, hdrop, List.append_assoc]) (by simp [pushed]; simp at hsb; omega)
    obtain ⟨a1, a2, a3, a4, a5, _, newa, a7, a8, a9⟩ := A
    -- the state at the for-head of iteration i + (n - b), then its headStep
    have hlev : ∀ j, j < c + 1 → (iterFrom P (n - b) i (pushed s c b (n + 2))).level j = s.level j := by
      intro j hj
      rw [a5 j (by omega)]
      simp [pushed, upd]; omega
    have hS2 : levelSum (iterFrom P (n - b) i (pushed s c b (n + 2))).level (c + 1) = some S := by
      rw [levelSum_congr s.level _ (c + 1) hlev]; exact hS
    have eh := headStep_ok P (i + (n - b)) (iterFrom P (n - b) i (pushed s c b (n + 2))) (c + 1) S a1
      (by rw [a3]) (by omega) hS2
    have B := ihb (i + (n - b)) (headStep P (i + (n - b)) (iterFrom P (n - b) i (pushed s c b (n + 2)))) t2 c S
      (by rw [eh]; exact a1) (by rw [eh]; simp [a3]) (by omega)
      (by rw [eh]; simp only []; rw [a4 c (by omega)]; simp [pushed, upd, ho]; omega)
      (by rw [eh]; exact hS2) (by rw [eh]) (by simp; omega)
      (by intro hc1; have := hlow hc1; simp; omega) hmn
      (by rw [eh]; simp only []; rw [a2]; simp [pushed]; rw [← List.drop_drop, hdrop]; simp [List.append_assoc])
      (by rw [eh]; simp only []; rw [a2]; simp [pushed]; simp at hsb; omega)
    obtain ⟨b1, b2, b3, b4, b5, b6, newb, b7, b8, b9⟩ := B
    have e1 : iterFrom P n i s = iterFrom P b (i + (n - b))
        (headStep P (i + (n - b)) (iterFrom P (n - b) i (pushed s c b (n + 2)))) := by
      rw [e0, iterFrom_add P n (n - b) b (by omega) (by omega) i _]
      obtain ⟨b', rfl⟩ : ∃ b', b = b' + 1 := ⟨b - 1, by omega⟩
      rw [forLoop_succ]
    rw [e1]
    refine ⟨b1, ?_, b3, ?_, ?_, b6, ?_⟩
    · rw [b2, eh]; simp only []; rw [a2]; simp [pushed]; omega
    · intro k hk
      rw [b4 k hk, eh]; simp only []
      rw [a4 k (by omega)]
      have : k ≠ c + 1 := by omega
      simp [pushed, upd, this]
      cases s.q k with
      | none => rfl
      | some v => simp; omega
    · intro k hk
      rw [b5 k hk, eh]; simp only []
      rw [a5 k (by omega)]
      have : k ≠ c + 1 := by omega
      simp [pushed, upd, this]
    · refine ⟨[.push s.index ((c : Int) + 1) b (n + 2 - b)] ++ newa ++
          [.head (i + (n - b)) ((c + 1 : Nat) : Int) (S : Int)] ++ newb, ?_, ?_, ?_⟩
      · rw [b7, eh]; simp only []; rw [a7]; simp [pushed, List.append_assoc]
      · simp only [List.all_append, a8, b8, Bool.and_true]
        simp [evOk]
        simp at hsb
        omega
      · simp [a9, b9, Ev.steps]; omega


/-! ### left spine decomposition -/

/-- `Forest bs r`: `r` is the concatenation of strategies S(b) for the `b` in `bs` (in this order) -/
inductive Forest : List Nat → List Nat → Prop
  | nil : Forest [] []
  | cons {b : Nat} {bs tb r : List Nat} : Strat b tb → Forest bs r → Forest (b :: bs) (tb ++ r)

theorem Forest.append {bs1 r1 bs2 r2 : List Nat} (h1 : Forest bs1 r1) (h2 : Forest bs2 r2) :
    Forest (bs1 ++ bs2) (r1 ++ r2) := by
  induction h1 with
  | nil => simpa using h2
  | cons hs _ ih => rw [List.cons_append, List.append_assoc]; exact Forest.cons hs ih

theorem Forest.length {bs r : List Nat} (h : Forest bs r) : r.length + bs.length = bs.sum := by
  induction h with
  | nil => rfl
  | cons hs _ ih => have := hs.length; simp [List.length_append]; omega

theorem Forest.pos {bs r : List Nat} (h : Forest bs r) : ∀ b ∈ bs, 1 ≤ b := by
  induction h with
  | nil => intro b hb; cases hb
  | cons hs _ ih =>
    intro b hb
    rcases List.mem_cons.mp hb with rfl | hb
    · exact hs.pos
    · exact ih b hb

/-- the pre-order encoding starts with the left spine `sp` (the doublings down to the first kernel), followed by
    the strategies of the right subtrees hanging off the spine, bottom-up -/
theorem Strat.spine {h : Nat} {t : List Nat} (hs : Strat h t) :
    ∃ sp rem, t = sp ++ rem ∧ sp.sum + 1 = h ∧ Forest sp.reverse rem := by
  induction hs with
  | leaf => exact ⟨[], [], rfl, rfl, Forest.nil⟩
  | @node n b ta tb hb1 hbn _ hsb iha _ =>
    obtain ⟨spa, rema, e, hsum, hf⟩ := iha
    refine ⟨b :: spa, rema ++ tb, by simp [e, List.append_assoc], by simp; omega, ?_⟩
    rw [List.reverse_cons]
    have : Forest [b] (tb ++ []) := Forest.cons hsb Forest.nil
    simp only [List.append_nil] at this
    exact Forest.append hf this

/-- prefix sums -/
def psum (l : List Nat) (j : Nat) : Nat := (l.take j).sum

theorem psum_zero (l : List Nat) : psum l 0 = 0 := by simp [psum]
theorem psum_succ (l : List Nat) (j : Nat) (hj : j < l.length) : psum l (j + 1) = psum l j + l[j] := by
  unfold psum
  rw [List.take_succ_eq_append_getElem hj, List.sum_append]
  simp
theorem psum_all (l : List Nat) : psum l l.length = l.sum := by simp [psum]
theorem psum_append (l r : List Nat) (j : Nat) (hj : j ≤ l.length) : psum (l ++ r) j = psum l j := by
  simp [psum, List.take_append_of_le_length hj]
theorem psum_le (l : List Nat) (j : Nat) : psum l j ≤ l.sum := by
  have h : l = l.take j ++ l.drop j := (List.take_append_drop j l).symm
  have : l.sum = (l.take j).sum + (l.drop j).sum := by
    have h2 := congrArg List.sum h
    rw [List.sum_append] at h2
    exact h2
  unfold psum; omega

/-- the stack after the gluing step in terms of the right-subtree sizes `bs` (top first): the top slot has
    height `b`, its level prefix sum is `base - b`, its order exponent `b+2`; below it the same with every
    order lowered by `b` -/
def HM (lv : Nat → Option Nat) : (Nat → Option Nat) → Nat → List Nat → Prop
  | _, _, [] => True
  | q, base, b :: bs => b ≤ base ∧ levelSum lv (bs.length + 1) = some (base - b) ∧ q bs.length = some (b + 2) ∧
      HM lv (fun j => (q j).map (· - b)) (base - b) bs

theorem HM_congr (lv lv' : Nat → Option Nat) : ∀ (bs : List Nat) (q q' : Nat → Option Nat) (base : Nat),
    (∀ j, j < bs.length → lv' j = lv j) → (∀ j, j < bs.length → q' j = q j) → HM lv q base bs → HM lv' q' base bs := by
  intro bs
  induction bs with
  | nil => intro _ _ _ _ _ _; trivial
  | cons b bs ih =>
    intro q q' base hl hq h
    obtain ⟨h1, h2, h3, h4⟩ := h
    refine ⟨h1, ?_, ?_, ?_⟩
    · rw [levelSum_congr lv lv' (bs.length + 1) (fun j hj => hl j (by simpa using hj))]; exact h2
    · rw [hq bs.length (by simp)]; exact h3
    · exact ih _ _ _ (fun j hj => hl j (by simp; omega)) (fun j hj => by simp [hq j (by simp; omega)]) h4

/-- **Forest lemma.** With the stack described by `HM … bs` and the strategies of the trees in `bs` next in the
    row, the main loop consumes them all in `bs.sum` iterations and empties the stack. -/
theorem forest_lemma (P : Params) (sb : Nat) {bs r : List Nat} (hf : Forest bs r) :
    ∀ (i : Nat) (s : St) (t2 : List Nat),
      s.err = none → s.lenList = (bs.length : Int) → bs.sum ≤ P.n → HM s.level s.q bs.sum bs →
      (bs.sum : Int) = P.m - i → P.m ≤ (P.n : Int) - 1 →
      P.row.drop s.index = r ++ t2 → s.index + r.length ≤ sb →
      (forLoop P bs.sum i s).err = none ∧ (forLoop P bs.sum i s).index = s.index + r.length ∧
      (forLoop P bs.sum i s).lenList = 0 ∧ (bs ≠ [] → (forLoop P bs.sum i s).q 0 = some 3) ∧
      ∃ new, (forLoop P bs.sum i s).trace = s.trace ++ new ∧ new.all (evOk P.n sb) = true ∧
        stepSum new = bs.sum := by
  induction hf with
  | nil =>
    intro i s t2 he hl _ _ _ _ hr hsb
    simp only [List.sum_nil, forLoop]
    exact ⟨he, by simp, by simpa using hl, by simp, [], by simp, by simp, by simp⟩
  | @cons b bs tb r hs hf' ih =>
    intro i s t2 he hl hn hm hsum hmn hr hsb
    obtain ⟨hm1, hm2, hm3, hm4⟩ := hm
    have hb1 := hs.pos
    have hpos := hf'.pos
    have hlen : bs.length ≤ bs.sum := by have := hf'.length; omega
    simp only [List.sum_cons] at *
    have hbase : b + bs.sum - b = bs.sum := by omega
    rw [hbase] at hm2 hm4
    have eh := headStep_ok P i s (bs.length + 1) bs.sum he (by simpa using hl) (by omega) hm2
    have A := sub_lemma P sb hs i (headStep P i s) (r ++ t2) bs.length bs.sum
      (by rw [eh]; exact he) (by rw [eh]; simpa using hl) (by omega) (by rw [eh]; exact hm3)
      (by rw [eh]; exact hm2) (by rw [eh]) (by omega)
      (by intro hc; have : 1 ≤ bs.sum := by omega
          omega) hmn
      (by rw [eh]; simpa [List.append_assoc] using hr) (by rw [eh]; simp at hsb ⊢; omega)
    obtain ⟨a1, a2, a3, a4, a5, a6, newa, a7, a8, a9⟩ := A
    have e0 : forLoop P (b + bs.sum) i s = forLoop P bs.sum (i + b) (iterFrom P b i (headStep P i s)) := by
      rw [forLoop_add]
      obtain ⟨b', rfl⟩ : ∃ b', b = b' + 1 := ⟨b - 1, by omega⟩
      rw [forLoop_succ]
    have B := ih (i + b) (iterFrom P b i (headStep P i s)) t2 a1 a3 (by omega)
      (HM_congr s.level _ bs _ _ bs.sum
        (fun j hj => by rw [a5 j (by omega), eh])
        (fun j hj => by rw [a4 j hj, eh]) hm4)
      (by simp; omega) hmn
      (by rw [a2, eh]; simp only []; rw [← List.drop_drop, hr]; simp)
      (by rw [a2, eh]; simp at hsb ⊢; omega)
    obtain ⟨b1, b2, b3, b6, newb, b7, b8, b9⟩ := B
    rw [e0]
    refine ⟨b1, ?_, b3, ?_, ?_⟩
    · rw [b2, a2, eh]; simp; omega
    · intro _
      cases bs with
      | nil => simpa [forLoop] using a6
      | cons x xs => exact b6 (by simp)
    · refine ⟨[.head i ((bs.length + 1 : Nat) : Int) (bs.sum : Int)] ++ newa ++ newb, ?_, ?_, ?_⟩
      · rw [b7, a7, eh]; simp [List.append_assoc]
      · simp only [List.all_append, a8, b8, Bool.and_true]
        simp [evOk]
      · simp [a9, b9, Ev.steps]


/-! ### the part before the main loop -/

theorem phase1_exit (P : Params) (s : St) (he : s.err = none) (h : s.lenCount = P.m) : phase1 P s = s := by
  rw [phase1]; simp [he, h]

theorem phase1_step (P : Params) (s : St) (he : s.err = none) (hne : s.lenCount ≠ P.m) (h10 : s.index < P.n + 10)
    (h : s.index < P.row.length) :
    phase1 P s = phase1 P { s with lenCount := s.lenCount + P.row[s.index], index := s.index + 1,
                                   trace := s.trace ++ [.p1 s.index P.row[s.index] s.lenCount] } := by
  rw [phase1]; simp [he, hne, h10, h]

/-- the first while reads exactly the left spine -/
theorem phase1_lemma (P : Params) (sb : Nat) : ∀ (sp : List Nat) (s : St) (rest : List Nat), s.err = none →
    P.row.drop s.index = sp ++ rest → (∀ b ∈ sp, 1 ≤ b) → s.lenCount + (sp.sum : Int) = P.m →
    s.index + sp.length ≤ P.n + 10 → s.index + sp.length ≤ sb →
    (phase1 P s).err = none ∧ (phase1 P s).index = s.index + sp.length ∧ (phase1 P s).lenCount = P.m ∧
    (phase1 P s).level = s.level ∧ (phase1 P s).pts = s.pts ∧ (phase1 P s).q = s.q ∧
    ∃ new, (phase1 P s).trace = s.trace ++ new ∧ new.all (evOk P.n sb) = true ∧ stepSum new = 0 := by
  intro sp
  induction sp with
  | nil =>
    intro s rest he _ _ hsum _ _
    rw [phase1_exit P s he (by simpa using hsum)]
    exact ⟨he, by simp, by simpa using hsum, rfl, rfl, rfl, [], by simp, by simp, by simp⟩
  | cons b sp ih =>
    intro s rest he hr hpos hsum h10 hsb
    have hb1 : 1 ≤ b := hpos b (by simp)
    simp only [List.sum_cons, List.length_cons] at *
    have hne : s.lenCount ≠ P.m := by
      have : (0 : Int) ≤ (sp.sum : Int) := by omega
      push_cast at hsum; omega
    obtain ⟨hi, hrow, hdrop⟩ := drop_head (show P.row.drop s.index = b :: (sp ++ rest) by simpa using hr)
    rw [phase1_step P s he hne (by omega) hi, hrow]
    have A := ih { s with lenCount := s.lenCount + b, index := s.index + 1,
                          trace := s.trace ++ [.p1 s.index b s.lenCount] } rest he hdrop
      (fun x hx => hpos x (by simp [hx]))
      (by show s.lenCount + (b : Int) + (sp.sum : Int) = P.m
          push_cast at hsum; omega)
      (by show s.index + 1 + sp.length ≤ P.n + 10
          omega)
      (by show s.index + 1 + sp.length ≤ sb
          omega)
    obtain ⟨a1, a2, a3, a4, a5, a6, new, a7, a8, a9⟩ := A
    refine ⟨a1, by rw [a2]; show s.index + 1 + sp.length = _; omega, a3, a4, a5, a6, [.p1 s.index b s.lenCount] ++ new, ?_, ?_, ?_⟩
    · rw [a7]; simp [List.append_assoc]
    · simp only [List.all_append, a8, Bool.and_true]; simp [evOk]; omega
    · simp [a9, Ev.steps]

/-- the `for` loop building `points[]` and `level[]` -/
theorem buildPts_lemma (P : Params) (sb : Nat) : ∀ (cnt i : Nat) (s : St), s.err = none → 1 ≤ i → i + cnt ≤ P.n →
    i - 1 + cnt ≤ P.row.length →
    (∀ j, j < i → s.pts j = some (P.kexp - psum P.row j)) → (∀ j, 1 ≤ j → j < i → s.level j = P.row[j - 1]?) →
    (buildPts P cnt i s).err = none ∧
    (∀ j, j < i + cnt → (buildPts P cnt i s).pts j = some (P.kexp - psum P.row j)) ∧
    (∀ j, 1 ≤ j → j < i + cnt → (buildPts P cnt i s).level j = P.row[j - 1]?) ∧
    (buildPts P cnt i s).level 0 = s.level 0 ∧ (buildPts P cnt i s).index = s.index ∧
    (buildPts P cnt i s).lenList = s.lenList ∧
    ∃ new, (buildPts P cnt i s).trace = s.trace ++ new ∧ new.all (evOk P.n sb) = true ∧ stepSum new = 0 := by
  intro cnt
  induction cnt with
  | zero =>
    intro i s he _ _ _ hp hl
    simp only [buildPts, Nat.add_zero]
    exact ⟨he, hp, hl, trivial, trivial, trivial, [], by simp, by simp, by simp⟩
  | succ cnt ih =>
    intro i s he hi1 hin hrl hp hl
    have hrow : i - 1 < P.row.length := by omega
    have h1 : idxOK (i : Int) P.n = true := by simp [idxOK]; omega
    have h2 : idxOK ((i : Int) - 1) P.n = true := by simp [idxOK]; omega
    have hpi := hp (i - 1) (by omega)
    have e : buildPts P (cnt + 1) i s = buildPts P cnt (i + 1)
        { s with pts := upd s.pts i (some (P.kexp - psum P.row (i - 1) - P.row[i - 1])),
                 level := upd s.level i (some P.row[i - 1]),
                 trace := s.trace ++ [.pts i P.row[i - 1] (P.kexp - psum P.row (i - 1) - P.row[i - 1])] } := by
      simp [buildPts, he, hrow, h1, h2, hpi, St.emit]
    have hps : psum P.row i = psum P.row (i - 1) + P.row[i - 1] := by
      have := psum_succ P.row (i - 1) hrow
      have e2 : i - 1 + 1 = i := by omega
      rwa [e2] at this
    have A := ih (i + 1)
      { s with pts := upd s.pts i (some (P.kexp - psum P.row (i - 1) - P.row[i - 1])),
               level := upd s.level i (some P.row[i - 1]),
               trace := s.trace ++ [.pts i P.row[i - 1] (P.kexp - psum P.row (i - 1) - P.row[i - 1])] }
      he (by omega) (by omega) (by omega)
      (fun j hj => by
        by_cases hji : j = i
        · subst hji; simp only [upd, if_true]; rw [hps]; congr 1; omega
        · simp only [upd, hji, if_false]; exact hp j (by omega))
      (fun j hj1 hj => by
        by_cases hji : j = i
        · subst hji; simp only [upd, if_true]; rw [List.getElem?_eq_getElem hrow]
        · simp only [upd, hji, if_false]; exact hl j hj1 (by omega))
    rw [e]
    obtain ⟨a1, a2, a3, a4, a5, a6, new, a7, a8, a9⟩ := A
    refine ⟨a1, fun j hj => a2 j (by omega), fun j hj1 hj => a3 j hj1 (by omega), ?_, a5, a6, ?_⟩
    · rw [a4]; have : (0 : Nat) ≠ i := by omega
      simp [upd, this]
    · refine ⟨[.pts i P.row[i - 1] (P.kexp - psum P.row (i - 1) - P.row[i - 1])] ++ new, ?_, ?_, ?_⟩
      · rw [a7]; simp [List.append_assoc]
      · simp only [List.all_append, a8, Bool.and_true]; simp [evOk]; omega
      · simp [a9, Ev.steps]

theorem levelSum_spine (sp : List Nat) (lv : Nat → Option Nat) (h0 : lv 0 = some 0)
    (hl : ∀ j, 1 ≤ j → j < sp.length → lv j = sp[j - 1]?) :
    ∀ c, c < sp.length → levelSum lv (c + 1) = some (psum sp c) := by
  intro c
  induction c with
  | zero => intro _; simp [levelSum, h0, psum_zero]
  | succ c ih =>
    intro hc
    rw [levelSum, ih (by omega), hl (c + 1) (by omega) hc]
    have : c < sp.length := by omega
    simp [List.getElem?_eq_getElem this, psum_succ sp c this]

/-- after the gluing the stack is the left spine: `HM` holds for the reversed spine -/
theorem HM_of_spine : ∀ (bs : List Nat) (lv q : Nat → Option Nat) (base : Nat),
    base = bs.sum → lv 0 = some 0 → (∀ j, 1 ≤ j → j < bs.length → lv j = bs.reverse[j - 1]?) →
    (∀ j, j < bs.length → q j = some (base + 2 - psum bs.reverse j)) → HM lv q base bs := by
  intro bs
  induction bs with
  | nil => intro _ _ _ _ _ _ _; trivial
  | cons b bs ih =>
    intro lv q base hbase h0 hl hq
    simp only [List.sum_cons, List.length_cons, List.reverse_cons] at *
    have hps : psum (bs.reverse ++ [b]) bs.length = bs.sum := by
      rw [psum_append _ _ _ (by simp)]
      have := psum_all bs.reverse
      simp only [List.length_reverse, List.sum_reverse] at this
      exact this
    refine ⟨by omega, ?_, ?_, ?_⟩
    · rw [levelSum_spine (bs.reverse ++ [b]) lv h0 (fun j h1 h2 => hl j h1 (by simpa using h2)) bs.length (by simp)]
      rw [hps]; congr 1; omega
    · rw [hq bs.length (by omega), hps]; congr 1; omega
    · apply ih lv _ (base - b) (by omega) h0
      · intro j h1 h2
        rw [hl j h1 (by omega)]
        rw [List.getElem?_append_left (by simp; omega)]
      · intro j hj
        rw [hq j (by omega)]
        have e1 : psum (bs.reverse ++ [b]) j = psum bs.reverse j := psum_append _ _ _ (by simp; omega)
        have e2 := psum_le bs.reverse j
        simp only [List.sum_reverse] at e2
        simp only [Option.map_some, e1]
        congr 1; omega


theorem getElem?_spine (sp rest : List Nat) (j : Nat) (hj : j < sp.length) : (sp ++ rest)[j]? = sp[j]? :=
  List.getElem?_append_left hj

/-- the state after a successful gluing step whose kernel is slot `k` -/
def glued (s : St) (k : Nat) : St :=
  { s with lenList := (k : Int),
           q := fun j => if (j : Int) < (k : Int) then (s.pts j).map (· - 1) else none,
           trace := s.trace ++ [.glue (k : Int) 3, .glueEval (k : Int)] }

/-- state after the first while, the construction of `points[]`, the gluing and its evaluation -/
theorem prelude_lemma (P : Params) (sb : Nat) (sp rest : List Nat) (hrow : P.row = sp ++ rest)
    (hpos : ∀ b ∈ sp, 1 ≤ b) (hm : (sp.sum : Int) = P.m) (hk : P.kexp = sp.sum + 3) (hn : sp.sum + 1 ≤ P.n)
    (hlen : sp.length ≤ sp.sum) (hsb : sp.length ≤ sb) :
    (prelude P (initSt P)).err = none ∧ (prelude P (initSt P)).index = sp.length ∧
    (prelude P (initSt P)).lenList = (sp.length : Int) ∧ (prelude P (initSt P)).level 0 = some 0 ∧
    (∀ j, 1 ≤ j → j < sp.length → (prelude P (initSt P)).level j = sp[j - 1]?) ∧
    (∀ j, j < sp.length → (prelude P (initSt P)).q j = some (sp.sum + 2 - psum sp j)) ∧
    ∃ new, (prelude P (initSt P)).trace = (initSt P).trace ++ new ∧ new.all (evOk P.n sb) = true ∧
      stepSum new = 1 := by
  have A := phase1_lemma P sb sp (initSt P) rest rfl (by simp [initSt, hrow]) hpos
    (by simp [initSt]; exact hm) (by simp [initSt]; omega) (by simp [initSt]; omega)
  obtain ⟨a1, a2, a3, a4, a5, a6, newa, a7, a8, a9⟩ := A
  have a2' : (phase1 P (initSt P)).index = sp.length := by rw [a2]; simp [initSt]
  generalize hs1 : phase1 P (initSt P) = s1 at *
  -- setLenList
  have c1 : (setLenList s1).err = none := by simp [setLenList, a1, St.emit]
  have c2 : (setLenList s1).index = sp.length := by simp [setLenList, a1, St.emit, a2']
  have c3 : (setLenList s1).lenList = (sp.length : Int) + 1 := by simp [setLenList, a1, St.emit, a2']
  have c4 : (setLenList s1).level = s1.level := by simp [setLenList, a1, St.emit]
  have c5 : (setLenList s1).pts = s1.pts := by simp [setLenList, a1, St.emit]
  have c7 : (setLenList s1).trace = s1.trace ++ [.lenList ((sp.length : Int) + 1) sp.length P.m] := by
    simp [setLenList, a1, St.emit, a2', a3]
  generalize hs2 : setLenList s1 = s2 at *
  have B := buildPts_lemma P sb sp.length 1 s2 c1 (by omega) (by omega) (by simp [hrow])
    (fun j hj => by
      have : j = 0 := by omega
      subst this
      rw [c5, a5]; simp [initSt, psum_zero])
    (fun j h1 h2 => by omega)
  obtain ⟨b1, b2, b3, b4, b5, b6, newb, b7, b8, b9⟩ := B
  have e : prelude P (initSt P) = glueStep P (buildPts P sp.length 1 s2) := by
    unfold prelude; simp only [hs1, hs2, c2]
  generalize hs3 : buildPts P sp.length 1 s2 = s3 at *
  have hl3 : s3.lenList = (sp.length : Int) + 1 := by rw [b6, c3]
  have hk3 : s3.pts sp.length = some 3 := by
    rw [b2 sp.length (by omega), hrow, psum_append _ _ _ (Nat.le_refl _), psum_all, hk]
    congr 1; omega
  have hidx : idxOK (s3.lenList - 1) P.n = true := by simp [idxOK, hl3]; omega
  have hto : (s3.lenList - 1).toNat = sp.length := by rw [hl3]; omega
  have hl4 : s3.lenList - 1 = (sp.length : Int) := by rw [hl3]; omega
  have e2 : glueStep P s3 = glued s3 sp.length := by
    have hidx' : idxOK (sp.length : Int) P.n = true := by rw [← hl4]; exact hidx
    simp [glueStep, glued, b1, hl4, hidx', hk3]
  rw [e, e2]
  refine ⟨b1, by show s3.index = _; rw [b5, c2], rfl, ?_, ?_, ?_, ?_⟩
  · show s3.level 0 = some 0
    rw [b4, c4, a4]; simp [initSt]
  · intro j h1 h2
    show s3.level j = _
    rw [b3 j h1 (by omega), hrow, getElem?_spine _ _ _ (by omega)]
  · intro j hj
    have hj' : (j : Int) < (sp.length : Int) := by omega
    show (if (j : Int) < (sp.length : Int) then (s3.pts j).map (· - 1) else none) = _
    simp only [hj', if_true]
    rw [b2 j (by omega), hrow, psum_append _ _ _ (by omega), hk]
    have := psum_le sp j
    simp only [Option.map_some]
    congr 1; omega
  · refine ⟨newa ++ [.lenList ((sp.length : Int) + 1) sp.length P.m] ++ newb ++
        [.glue (sp.length : Int) 3, .glueEval (sp.length : Int)], ?_, ?_, ?_⟩
    · show s3.trace ++ _ = _
      rw [b7, c7, a7]
      simp [List.append_assoc]
    · simp only [List.all_append, a8, b8, Bool.and_true, Bool.true_and]
      simp [evOk]; omega
    · simp [a9, b9, Ev.steps]


theorem finalSteps_eight (P : Params) (s : St) (he : s.err = none) (hea : P.eightAbove = true) :
    finalSteps P s = s := by
  simp [finalSteps, he, hea]

theorem finalSteps_four (P : Params) (s : St) (he : s.err = none) (hea : P.eightAbove = false) (hn : 4 ≤ P.n)
    (hq : s.q 0 = some 3) :
    finalSteps P s = s.emit (.fin ((P.n : Int) - 4) ((P.n : Int) - 3) ((P.n : Int) - 2) 2 1) := by
  have h1 : idxOK ((P.n : Int) - 4) (P.n - 1) = true := by simp [idxOK]; omega
  simp [finalSteps, he, hea, h1, hq]

/-- **Traversal theorem for `theta_chain_comput_strategy(_faster_no_eval)`** (all n, all valid strategies, both
    modes): with `L = n - adjusting ≥ 2` leaves and a zero-padded row holding a valid strategy for `L`: no fault,
    exactly `L-1` strategy entries read, every index inside its VLA of size `n`, every generic kernel pair of
    exponent exactly 3 (order 8), the two final kernels of the `eight_above = 0` mode of exponent 2 and 1, and
    exactly `n` isogeny steps. -/
theorem chain_sound (P : Params) (t pad : List Nat) (hrow : P.row = t ++ pad) (hL : 2 ≤ P.n - P.adj)
    (hs : Strat (P.n - P.adj) t) :
    (chain P).err = none ∧ (chain P).index = P.n - P.adj - 1 ∧
    (chain P).trace.all (evOk P.n (P.n - P.adj - 1)) = true ∧ stepSum (chain P).trace = P.n := by
  obtain ⟨sp, rem, ht, hsum, hf⟩ := Strat.spine hs
  have hpos : ∀ b ∈ sp, 1 ≤ b := fun b hb => hf.pos b (by simpa using hb)
  have hflen := hf.length
  simp only [List.length_reverse, List.sum_reverse] at hflen
  have hadj : P.adj = 0 ∨ P.adj = 2 := by unfold Params.adj; split <;> simp
  have hm : (sp.sum : Int) = P.m := by unfold Params.m; omega
  have hk : P.kexp = sp.sum + 3 := by
    unfold Params.kexp; unfold Params.adj at hsum hL
    split <;> simp_all <;> omega
  have A := prelude_lemma P (P.n - P.adj - 1) sp (rem ++ pad) (by rw [hrow, ht, List.append_assoc]) hpos hm hk
    (by omega) (by omega) (by omega)
  obtain ⟨a1, a2, a3, a4, a5, a6, newa, a7, a8, a9⟩ := A
  have hHM : HM (prelude P (initSt P)).level (prelude P (initSt P)).q sp.reverse.sum sp.reverse := by
    apply HM_of_spine
    · rfl
    · exact a4
    · intro j h1 h2; rw [List.reverse_reverse]; exact a5 j h1 (by simpa using h2)
    · intro j hj; rw [List.reverse_reverse, List.sum_reverse]; exact a6 j (by simpa using hj)
  have B := forest_lemma P (P.n - P.adj - 1) hf 0 (prelude P (initSt P)) pad a1 (by simpa using a3)
    (by rw [List.sum_reverse]; omega) hHM (by rw [List.sum_reverse]; simpa using hm)
    (by unfold Params.m; omega)
    (by rw [a2, hrow, ht, List.append_assoc]; simp)
    (by rw [a2]; omega)
  rw [List.sum_reverse] at B
  obtain ⟨b1, b2, b3, b4, newb, b7, b8, b9⟩ := B
  have hmt : P.m.toNat = sp.sum := by omega
  have hn2 : ¬ P.n ≤ 1 := by omega
  have e : chain P = finalSteps P (forLoop P sp.sum 0 (prelude P (initSt P))) := by
    unfold chain; simp only [hn2, if_false, hmt]
  rw [e]
  have hne : sp.reverse ≠ [] := by
    intro h
    have : sp = [] := by simpa using h
    subst this; simp at hsum; omega
  cases hea : P.eightAbove with
  | true =>
    have hadj0 : P.adj = 0 := by simp [Params.adj, hea]
    rw [finalSteps_eight P _ b1 hea]
    refine ⟨b1, by rw [b2, a2]; omega, ?_, ?_⟩
    · rw [b7, a7]; simp [List.all_append, a8, b8, initSt, evOk]
    · rw [b7, a7]; simp [a9, b9, initSt, Ev.steps]; omega
  | false =>
    have hadj2 : P.adj = 2 := by simp [Params.adj, hea]
    rw [finalSteps_four P _ b1 hea (by omega) (b4 hne)]
    refine ⟨b1, by show (forLoop P sp.sum 0 (prelude P (initSt P))).index = _; rw [b2, a2]; omega, ?_, ?_⟩
    · simp only [St.emit]
      rw [b7, a7]; simp [List.all_append, a8, b8, initSt, evOk]; omega
    · simp only [St.emit]
      rw [b7, a7]; simp [a9, b9, initSt, Ev.steps]; omega

end SqiProofs.ThetaChain
